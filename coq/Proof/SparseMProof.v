(* Proofs about Model/SparseM.v: the dof-dof structure of every forest consists of sorted ancestor
   chains with the diagonal last (the layout is consistent and ancestor rows are prefixes), and
   mj_fullM v = mj_mulM v for every matrix with that structure. *)
From Coq Require Import ZArith List Bool Arith Lia PrimFloat Reals Lra Sorted Permutation.
From MJV Require Import Lib.Num Lib.NumR Model.Sparse Model.SparseM
  Proof.LinAlgBase Proof.SparseProof Proof.SparseMergeProof Proof.SparseSymProof Proof.SparseCompressProof.
Import ListNotations.

(* parents precede children *)
Definition forest (nv : nat) (par : list Z) : Prop :=
  length par = nv /\ forall i : nat, (i < nv)%nat -> (-1 <= nth i par (-1) < Z.of_nat i)%Z.

(* l = [j; parent j; parent (parent j); ...] down to a root (j < 0: empty) *)
Inductive chain_rel (par : list Z) : Z -> list nat -> Prop :=
| cr_nil : forall j : Z, (j < 0)%Z -> chain_rel par j []
| cr_cons : forall (j : Z) (l : list nat), (0 <= j)%Z ->
    chain_rel par (parentOf par (Z.to_nat j)) l -> chain_rel par j (Z.to_nat j :: l).

Lemma parent_lt : forall (nv : nat) (par : list Z), forest nv par ->
  forall j : nat, (-1 <= parentOf par j < Z.of_nat j)%Z.
Proof.
  intros nv par [Hl Hf] j. unfold parentOf. destruct (Nat.lt_ge_cases j nv) as [Hj|Hj].
  - apply Hf; auto.
  - rewrite nth_overflow by lia. lia.
Qed.

Lemma chain_fuel_indep : forall (nv : nat) (par : list Z), forest nv par ->
  forall (f1 f2 : nat) (j : Z), (j < Z.of_nat f1)%Z -> (j < Z.of_nat f2)%Z -> chain f1 par j = chain f2 par j.
Proof.
  intros nv par Hf. induction f1 as [|f1 IH]; intros f2 j H1 H2.
  - destruct f2 as [|f2]; simpl; auto. destruct (Z.ltb_spec j 0); auto. lia.
  - destruct f2 as [|f2]; simpl.
    + destruct (Z.ltb_spec j 0); auto. lia.
    + destruct (Z.ltb_spec j 0); auto. f_equal.
      pose proof (parent_lt nv par Hf (Z.to_nat j)) as Hp. apply IH; lia.
Qed.

Lemma chain_spec : forall (nv : nat) (par : list Z), forest nv par ->
  forall (f : nat) (j : Z), (j < Z.of_nat f)%Z ->
  chain_rel par j (chain f par j) /\ StronglySorted gt (chain f par j) /\
  Forall (fun x : nat => (Z.of_nat x <= j)%Z) (chain f par j).
Proof.
  intros nv par Hf. induction f as [|f IH]; intros j Hj.
  - simpl. split; [apply cr_nil; lia|]. split; constructor.
  - simpl. destruct (Z.ltb_spec j 0) as [Hn|Hn].
    + split; [apply cr_nil; auto|]. split; constructor.
    + pose proof (parent_lt nv par Hf (Z.to_nat j)) as Hp.
      destruct (IH (parentOf par (Z.to_nat j))) as [Hc [Hs Hb]]; [lia|].
      split; [apply cr_cons; auto|]. split.
      * constructor; auto. eapply Forall_impl; [|exact Hb]. intros x Hx. cbv beta in *. unfold gt. lia.
      * constructor; [lia|]. eapply Forall_impl; [|exact Hb]. intros x Hx. cbv beta in *. lia.
Qed.

Lemma chain_suffix : forall (nv : nat) (par : list Z), forest nv par ->
  forall (f : nat) (j : Z) (x : nat), (j < Z.of_nat f)%Z -> In x (chain f par j) ->
  exists l1 : list nat, chain f par j = l1 ++ x :: chain f par (parentOf par x).
Proof.
  intros nv par Hf. induction f as [|f IH]; intros j x Hj Hin; [simpl in Hin; tauto|].
  destruct (Z.ltb_spec j 0) as [Hn|Hn].
  { simpl in Hin. destruct (Z.ltb_spec j 0); [simpl in Hin; tauto|lia]. }
  assert (Hunf : chain (S f) par j = Z.to_nat j :: chain f par (parentOf par (Z.to_nat j))).
  { simpl. destruct (Z.ltb_spec j 0); [lia|reflexivity]. }
  rewrite Hunf in Hin. rewrite Hunf.
  pose proof (parent_lt nv par Hf (Z.to_nat j)) as Hp.
  destruct Hin as [Heq|Hin].
  - exists []. cbn [app]. subst x. f_equal. apply (chain_fuel_indep nv par Hf); lia.
  - destruct (IH (parentOf par (Z.to_nat j)) x) as [l1 Hl1]; [lia|exact Hin|].
    exists (Z.to_nat j :: l1). cbn [app]. f_equal. rewrite Hl1. f_equal. f_equal.
    destruct (chain_spec nv par Hf f (parentOf par (Z.to_nat j))) as [_ [_ Hb]]; [lia|].
    rewrite Forall_forall in Hb. apply Hb in Hin.
    pose proof (parent_lt nv par Hf x) as Hpx.
    apply (chain_fuel_indep nv par Hf); lia.
Qed.

(* ------------------------------------------------------------------ rows *)
Lemma ancestors_spec : forall (nv : nat) (par : list Z) (i : nat), forest nv par -> (i < nv)%nat ->
  chain_rel par (parentOf par i) (ancestors nv par i) /\
  StronglySorted gt (ancestors nv par i) /\ Forall (fun x : nat => (x < i)%nat) (ancestors nv par i).
Proof.
  intros nv par i Hf Hi. unfold ancestors.
  pose proof (parent_lt nv par Hf i) as Hp.
  destruct (chain_spec nv par Hf nv (parentOf par i)) as [Hc [Hs Hb]]; [lia|].
  split; [exact Hc|split; [exact Hs|]].
  eapply Forall_impl; [|exact Hb]. intros x Hx. cbv beta in *. lia.
Qed.

Lemma fullrow_sorted : forall (nv : nat) (par : list Z) (i : nat), forest nv par -> (i < nv)%nat ->
  StronglySorted lt (rev (ancestors nv par i) ++ [i]).
Proof.
  intros nv par i Hf Hi. destruct (ancestors_spec nv par i Hf Hi) as [_ [Hs Hb]].
  apply ss_snoc.
  - apply (ss_rev nat gt). exact Hs.
  - apply Forall_rev. exact Hb.
Qed.

Lemma lowrow_sorted : forall (nv : nat) (par simple : list Z) (reduced : bool) (i : nat),
  forest nv par -> (i < nv)%nat -> StronglySorted lt (lowrow nv par simple reduced i).
Proof.
  intros nv par simple reduced i Hf Hi. unfold lowrow. destruct (diagOnly simple reduced i).
  - repeat constructor.
  - apply fullrow_sorted; auto.
Qed.

Lemma lowrow_last : forall (nv : nat) (par simple : list Z) (reduced : bool) (i : nat),
  nth (length (lowrow nv par simple reduced i) - 1) (lowrow nv par simple reduced i) 0%nat = i.
Proof.
  intros nv par simple reduced i. unfold lowrow. destruct (diagOnly simple reduced i); [reflexivity|].
  rewrite app_length. simpl. rewrite app_nth2 by lia.
  replace (length (rev (ancestors nv par i)) + 1 - 1 - length (rev (ancestors nv par i)))%nat with 0%nat by lia.
  reflexivity.
Qed.

(* the full row of an ancestor is a prefix of the full row of its descendant *)
Lemma fullrow_prefix : forall (nv : nat) (par : list Z) (i j : nat), forest nv par -> (i < nv)%nat ->
  In j (ancestors nv par i) ->
  exists rest : list nat, rev (ancestors nv par i) ++ [i] = (rev (ancestors nv par j) ++ [j]) ++ rest.
Proof.
  intros nv par i j Hf Hi Hin. unfold ancestors in *.
  pose proof (parent_lt nv par Hf i) as Hp.
  destruct (chain_suffix nv par Hf nv (parentOf par i) j) as [l1 Hl1]; [lia|exact Hin|].
  exists (rev l1 ++ [i]). rewrite Hl1. rewrite rev_app_distr. simpl. rewrite <- !app_assoc. reflexivity.
Qed.

(* ------------------------------------------------------------------ the generated arrays (upper = false) *)
Lemma dofdof_rows_lower : forall (nv : nat) (par simple : list Z) (reduced : bool),
  dofdof_rows nv par simple reduced false = map (lowrow nv par simple reduced) (seq 0 nv).
Proof. intros. unfold dofdof_rows. apply map_ext. intros i. apply app_nil_r. Qed.

Lemma structure_spec : forall (nv : nat) (par simple : list Z) (reduced : bool), forest nv par ->
  let rs := makeDofDofSparse nv par simple reduced false in
  let rownnz := fst (fst (fst rs)) in let rowadr := snd (fst (fst rs)) in
  let diag := snd (fst rs) in let colind := snd rs in
  length rownnz = nv /\ rowadr = psums 0 rownnz /\ length colind = sumn rownnz /\
  forall i : nat, (i < nv)%nat ->
    let rw := slice (nth i rowadr 0%nat) (nth i rownnz 0%nat) colind in
    rw = lowrow nv par simple reduced i /\
    (diagOnly simple reduced i = true -> rw = [i]) /\
    (diagOnly simple reduced i = false ->
       rw = rev (ancestors nv par i) ++ [i] /\ chain_rel par (parentOf par i) (ancestors nv par i)) /\
    StronglySorted lt rw /\
    nth i rownnz 0%nat = length rw /\
    nth i diag 0%nat = (length rw - 1)%nat /\ nth (nth i diag 0%nat) rw 0%nat = i /\
    (forall j : nat, In j (ancestors nv par i) ->
       exists rest : list nat, rev (ancestors nv par i) ++ [i] = (rev (ancestors nv par j) ++ [j]) ++ rest).
Proof.
  intros nv par simple reduced Hf. unfold makeDofDofSparse. cbv zeta. cbn [fst snd].
  rewrite dofdof_rows_lower.
  set (rows := map (lowrow nv par simple reduced) (seq 0 nv)).
  assert (Hlen : length rows = nv) by (unfold rows; rewrite map_length, seq_length; auto).
  split; [rewrite map_length; exact Hlen|]. split; [reflexivity|]. split.
  { clear. induction rows as [|r rows IH]; simpl; auto. rewrite app_length, IH. reflexivity. }
  intros i Hi. cbv zeta.
  assert (Hrow : slice (nth i (psums 0 (map (@length nat) rows)) 0%nat) (nth i (map (@length nat) rows) 0%nat) (concat rows)
                 = lowrow nv par simple reduced i).
  { pose proof (slice_concat nat rows i []) as H. simpl in H. rewrite H by lia.
    unfold rows. apply nth_map_seq0. exact Hi. }
  rewrite Hrow.
  assert (Hnnz : nth i (map (@length nat) rows) 0%nat = length (lowrow nv par simple reduced i)).
  { rewrite (nth_indep _ 0%nat (length (@nil nat))) by (rewrite map_length; lia).
    rewrite (map_nth (@length nat) rows [] i). unfold rows. rewrite nth_map_seq0 by auto. reflexivity. }
  assert (Hdiag : nth i (map (fun i0 : nat => (length (lowrow nv par simple reduced i0) - 1)%nat) (seq 0 nv)) 0%nat
                  = (length (lowrow nv par simple reduced i) - 1)%nat).
  { rewrite nth_map_seq0 by auto. reflexivity. }
  split; [reflexivity|]. split.
  { intros Hd. unfold lowrow. rewrite Hd. reflexivity. }
  split.
  { intros Hd. unfold lowrow. rewrite Hd. split; [reflexivity|]. apply ancestors_spec; auto. }
  split; [apply lowrow_sorted; auto|]. split; [exact Hnnz|]. split; [exact Hdiag|]. split.
  { rewrite Hdiag. apply lowrow_last. }
  intros j Hj. apply fullrow_prefix; auto.
Qed.

(* ------------------------------------------------------------------ matrices with this structure *)
Open Scope R_scope.

(* rows of values fit the structure *)
Definition fits (cols : list (list nat)) (rows : list (list R)) : Prop :=
  length rows = length cols /\ forall i : nat, (i < length cols)%nat -> length (nth i rows []) = length (nth i cols []).

Lemma combine_snoc : forall (A B : Type) (a : list A) (x : A) (v : list B) (d : B),
  length v = S (length a) -> combine (a ++ [x]) v = combine a (removelast v) ++ [(x, last v d)].
Proof.
  intros A B a x; induction a as [|y a IH]; intros v d Hl.
  - destruct v as [|w [|w2 v]]; simpl in Hl; try lia. reflexivity.
  - destruct v as [|w v]; simpl in Hl; [lia|].
    destruct v as [|w2 v]; [simpl in Hl; lia|].
    change (combine ((y :: a) ++ [x]) (w :: w2 :: v)) with ((y, w) :: combine (a ++ [x]) (w2 :: v)).
    rewrite (IH (w2 :: v) d) by (simpl in *; lia). reflexivity.
Qed.

Lemma map_length_combine : forall (cols : list (list nat)) (rows : list (list R)),
  length rows = length cols ->
  (forall i : nat, (i < length cols)%nat -> length (nth i rows []) = length (nth i cols [])) ->
  map (@length nat) cols =
  map (@length entR) (map (fun p : list nat * list R => combine (fst p) (snd p)) (combine cols rows)).
Proof.
  induction cols as [|c cols IH]; intros rows Hl Hr.
  - reflexivity.
  - destruct rows as [|r rows]; [simpl in Hl; lia|]. simpl. f_equal.
    + specialize (Hr 0%nat ltac:(simpl; lia)). simpl in Hr.
      symmetry. etransitivity; [apply combine_length|]. lia.
    + apply IH; [simpl in Hl; lia|]. intros k Hk. apply (Hr (S k)). simpl. lia.
Qed.

Lemma row_csr_of : forall (cols : list (list nat)) (rows : list (list R)) (i : nat),
  fits cols rows -> (i < length cols)%nat ->
  row (csr_of cols rows) i = combine (nth i cols []) (nth i rows []).
Proof.
  intros cols rows i [Hl Hr] Hi. unfold row, csr_of. cbn [c_nnz c_adr c_ent].
  rewrite (map_length_combine cols rows Hl Hr).
  set (es := map (fun p : list nat * list R => combine (fst p) (snd p)) (combine cols rows)).
  pose proof (slice_concat entR es i []) as H. simpl in H.
  transitivity (nth i es []).
  { apply H. unfold es. rewrite map_length, combine_length. lia. }
  unfold es.
  rewrite (nth_indep _ [] ((fun p : list nat * list R => combine (fst p) (snd p)) ([], []))).
  2:{ rewrite map_length, combine_length. lia. }
  rewrite (map_nth (fun p : list nat * list R => combine (fst p) (snd p)) (combine cols rows) ([], []) i).
  rewrite combine_nth by lia. reflexivity.
Qed.

Lemma wf_lower_structure : forall (nv : nat) (par simple : list Z) (reduced : bool) (rows : list (list R)),
  forest nv par -> fits (dofdof_rows nv par simple reduced false) rows ->
  wf_lower nv (csr_of (dofdof_rows nv par simple reduced false) rows).
Proof.
  intros nv par simple reduced rows Hf Hfit i Hi.
  assert (Hlc : length (dofdof_rows nv par simple reduced false) = nv).
  { rewrite dofdof_rows_lower, map_length, seq_length. reflexivity. }
  rewrite row_csr_of by (auto; lia).
  destruct Hfit as [_ Hr]. specialize (Hr i ltac:(lia)).
  rewrite dofdof_rows_lower in *. rewrite nth_map_seq0 in * by auto.
  set (v := nth i rows []) in *.
  assert (Hcases : exists a : list nat, lowrow nv par simple reduced i = a ++ [i] /\
                     StronglySorted lt a /\ Forall (fun c : nat => (c < i)%nat) a).
  { unfold lowrow. destruct (diagOnly simple reduced i).
    - exists []. split; [reflexivity|]. split; constructor.
    - exists (rev (ancestors nv par i)). destruct (ancestors_spec nv par i Hf Hi) as [_ [Hs Hb]].
      split; [reflexivity|]. split; [apply (ss_rev nat gt); exact Hs|apply Forall_rev; exact Hb]. }
  destruct Hcases as [a [Ha [Hs Hb]]]. rewrite Ha in *.
  rewrite app_length in Hr. simpl in Hr.
  rewrite (combine_snoc nat R a i v 0) by lia.
  exists (combine a (removelast v)), (last v 0).
  assert (Hc : cols (combine a (removelast v)) = a).
  { unfold cols. assert (Hlr : length (removelast v) = length a).
    { destruct v as [|w v] using rev_ind; [simpl in Hr; lia|]. rewrite removelast_last.
      rewrite app_length in Hr. simpl in Hr. lia. }
    clear -Hlr. revert Hlr. generalize (removelast v) as u. induction a as [|x a IH]; intros u Hl; [reflexivity|].
    destruct u as [|w u]; [simpl in Hl; lia|]. simpl. f_equal. apply IH. simpl in Hl. lia. }
  split; [reflexivity|]. rewrite Hc. split; [apply sorted_lt_nodup; exact Hs|exact Hb].
Qed.

Lemma fullM_mulM : forall (nv : nat) (par simple : list Z) (reduced : bool) (rows : list (list R)) (v : list R),
  forest nv par -> fits (dofdof_rows nv par simple reduced false) rows -> length v = nv ->
  let M := csr_of (dofdof_rows nv par simple reduced false) rows in
  mulSymVecSparse nv M v = dmulMatVec (sym2dense nv M) v /\
  (forall i j : nat, dget (sym2dense nv M) i j = dget (sym2dense nv M) j i).
Proof.
  intros nv par simple reduced rows v Hf Hfit Hv M.
  destruct (mulSymVec_sym2dense nv M v (wf_lower_structure nv par simple reduced rows Hf Hfit) Hv) as [H1 [_ H3]].
  split; assumption.
Qed.
