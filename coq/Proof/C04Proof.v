(* C04: instantiation of the generic pipeline lemmas on the REGENERATED driver programs *)
From Coq Require Import String List Bool.
From MJV Require Import Model.Pipeline Proof.PipelineProof Gen.Pipeline.
Import ListNotations.
Open Scope string_scope.
Open Scope list_scope.

Definition FUEL : nat := 20.
Definition prog_monolithic : prog := PSeq PUser (PCall "mj_step" []).
Definition prog_split : prog := PSeq (PCall "mj_step1" []) (PSeq PUser (PCall "mj_step2" [])).
Definition flatten (p : prog) : option (list item) := flat funs stage_order FUEL [] p.

(* assumptions under which the split is compared *)
Definition asm_nocb : list (string * bool) :=
  [("mjcb_control", false); ("flex_has_passive_contact(m)", false)].
Definition asm_cb : list (string * bool) := [("flex_has_passive_contact(m)", false)].

Definition split_prefix (asm : list (string * bool)) (v : string) : option (list item) :=
  match flatten prog_monolithic, flatten prog_split with
  | Some a, Some b => check_split (lsimp asm (Some v) a) (lsimp asm (Some v) b)
  | _, _ => None
  end.

Section Run.
Variable data : Type.
Variable call : string -> list string -> data -> data.
Variable assign : string -> string -> data -> data.
Variable user : data -> data.
Variable atom : string -> data -> bool.
Variable integ : data -> string.

Definition run (p : prog) (d : data) : option data :=
  match flatten p with
  | Some l => exec_list data call assign user atom integ l d
  | None => None
  end.

Lemma split_sound asm v pre :
  (forall s b, lookup s asm = Some b -> forall d, atom s d = b) ->
  (forall d, integ d = v) ->
  split_prefix asm v = Some pre ->
  commutes_list data call assign user atom integ pre ->
  forall d, run prog_split d = run prog_monolithic d.
Proof.
  intros Hasm Hint Hpre Hc d. unfold run, split_prefix in *.
  destruct (flatten prog_monolithic) as [a|]; [|discriminate].
  destruct (flatten prog_split) as [b|]; [|discriminate].
  assert (Hiv : forall v', Some v = Some v' -> forall d, integ d = v').
  { intros v' E d0. inversion E; subst. apply Hint. }
  rewrite <- (lsimp_ok data call assign user atom integ asm (Some v) Hasm Hiv a d).
  rewrite <- (lsimp_ok data call assign user atom integ asm (Some v) Hasm Hiv b d).
  eapply check_split_sound; eassumption.
Qed.
End Run.

Definition split_integrators : list string := ["mjINT_EULER"; "mjINT_IMPLICIT"; "mjINT_IMPLICITFAST"].

(* decided by computation on the regenerated programs *)
Lemma split_nocb_defined : forallb (fun v => match split_prefix asm_nocb v with Some _ => true | None => false end)
                                   split_integrators = true.
Proof. vm_compute. reflexivity. Qed.

Lemma step12_user data call assign user atom integ v :
  In v split_integrators ->
  (forall d, atom "mjcb_control" d = false) ->
  (forall d, atom "flex_has_passive_contact(m)" d = false) ->
  (forall d, integ d = v) ->
  exists pre, split_prefix asm_nocb v = Some pre /\
    (commutes_list data call assign user atom integ pre ->
     forall d, run data call assign user atom integ prog_split d =
               run data call assign user atom integ prog_monolithic d).
Proof.
  intros Hin Hcb Hflex Hint.
  pose proof split_nocb_defined as Hd. rewrite forallb_forall in Hd. specialize (Hd v Hin).
  destruct (split_prefix asm_nocb v) as [pre|] eqn:E; [|discriminate].
  exists pre. split; [reflexivity|]. intros Hc d.
  eapply split_sound; try eassumption.
  intros s b Hl d0. unfold asm_nocb in Hl. simpl in Hl.
  destruct (String.eqb s "mjcb_control") eqn:E1.
  - apply String.eqb_eq in E1. subst. inversion Hl; subst. apply Hcb.
  - destruct (String.eqb s "flex_has_passive_contact(m)") eqn:E2; [|discriminate].
    apply String.eqb_eq in E2. subst. inversion Hl; subst. apply Hflex.
Qed.

(* with a control callback installed and no user update in between (user = identity) *)
Lemma commutes_id data call assign atom integ l :
  commutes_list data call assign (fun d => d) atom integ l.
Proof.
  assert (G : forall i, commutes_item data call assign (fun d => d) atom integ i).
  { induction i as [f a|l0 r| | |c a b IHa IHb] using item_ind2; simpl; auto.
    rewrite !commutes_go. split; [reflexivity|]. split.
    - clear -IHa. induction IHa; simpl; auto.
    - clear -IHb. induction IHb; simpl; auto. }
  induction l; simpl; auto.
Qed.

Lemma split_cb_defined : forallb (fun v => match split_prefix asm_cb v with Some _ => true | None => false end)
                                 split_integrators = true.
Proof. vm_compute. reflexivity. Qed.

Lemma step12_callback data call assign atom integ v :
  In v split_integrators ->
  (forall d, atom "flex_has_passive_contact(m)" d = false) ->
  (forall d, integ d = v) ->
  forall d, run data call assign (fun d => d) atom integ prog_split d =
            run data call assign (fun d => d) atom integ prog_monolithic d.
Proof.
  intros Hin Hflex Hint d.
  pose proof split_cb_defined as Hd. rewrite forallb_forall in Hd. specialize (Hd v Hin).
  destruct (split_prefix asm_cb v) as [pre|] eqn:E; [|discriminate].
  eapply split_sound; try eassumption; [|apply commutes_id].
  intros s b Hl d0. unfold asm_cb in Hl. simpl in Hl.
  destruct (String.eqb s "flex_has_passive_contact(m)") eqn:E2; [|discriminate].
  apply String.eqb_eq in E2. subst. inversion Hl; subst. apply Hflex.
Qed.

