(* C34 — proofs about Model/Names.v *)
From Coq Require Import List ZArith Bool Lia.
From MJV Require Import Model.Names.
Import ListNotations.
Open Scope nat_scope.

(* ---------------- names ---------------- *)
Lemma name_eqb_spec : forall a b : name, name_eqb a b = true <-> a = b.
Proof.
  induction a as [|x a IH]; destruct b as [|y b]; simpl; split; intro H; try discriminate; auto.
  - apply andb_true_iff in H. destruct H as [H1 H2]. apply Z.eqb_eq in H1. apply IH in H2. congruence.
  - inversion H; subst. apply andb_true_iff. split; [apply Z.eqb_refl | apply IH; reflexivity].
Qed.

Lemma is_empty_spec : forall s : name, is_empty s = true <-> s = [].
Proof. destruct s; simpl; split; intro H; auto; discriminate. Qed.

(* ---------------- probe sequence: exactly one table cycle ---------------- *)
Lemma probe_length : forall h size, h <= size -> length (probe_seq h size) = size.
Proof. intros. unfold probe_seq. rewrite app_length, !seq_length. lia. Qed.

Lemma probe_in : forall h size q, h < size -> q < size -> In q (probe_seq h size).
Proof.
  intros h size q Hh Hq. unfold probe_seq. apply in_or_app.
  destruct (Nat.lt_ge_cases q h); [right | left]; apply in_seq; lia.
Qed.

Lemma probe_lt : forall h size q, h < size -> In q (probe_seq h size) -> q < size.
Proof.
  intros h size q Hh Hq. unfold probe_seq in Hq. apply in_app_or in Hq.
  destruct Hq as [Hq|Hq]; apply in_seq in Hq; lia.
Qed.

(* ---------------- tables ---------------- *)
Lemma update_length : forall tbl p v, length (update tbl p v) = length tbl.
Proof. induction tbl as [|x r IH]; destruct p; simpl; auto. Qed.

Lemma slot_update_same : forall tbl p v, p < length tbl -> slot (update tbl p v) p = v.
Proof.
  unfold slot. induction tbl as [|x r IH]; destruct p; simpl; intros v H; try lia; auto.
  apply IH. lia.
Qed.

Lemma slot_update_other : forall tbl p q v, p <> q -> slot (update tbl p v) q = slot tbl q.
Proof.
  unfold slot. induction tbl as [|x r IH]; destruct p, q; simpl; intros v H; try lia; auto.
Qed.

Lemma find_free_some : forall tbl ps p, find_free tbl ps = Some p ->
    exists pre post, ps = pre ++ p :: post /\ slot tbl p = None /\ forall q, In q pre -> slot tbl q <> None.
Proof.
  induction ps as [|a r IH]; simpl; intros p H; [discriminate|].
  destruct (slot tbl a) as [j|] eqn:E.
  - destruct (IH _ H) as (pre & post & A & B & C). exists (a :: pre), post. subst. split; [reflexivity|]. split; auto.
    intros q [<-|Hq]; [congruence | auto].
  - inversion H; subst. exists [], r. split; [reflexivity|]. split; [assumption|]. intros q [].
Qed.

Lemma find_free_none : forall tbl ps, find_free tbl ps = None -> forall q, In q ps -> slot tbl q <> None.
Proof.
  induction ps as [|a r IH]; simpl; intros H q Hq; [destruct Hq|].
  destruct (slot tbl a) eqn:E; [|discriminate]. destruct Hq as [<-|Hq]; [congruence | auto].
Qed.

Definition is_some {A} (o : option A) : bool := match o with Some _ => true | None => false end.
Definition used (tbl : table) : nat := length (filter is_some tbl).

Lemma used_update : forall tbl p i, p < length tbl -> slot tbl p = None -> used (update tbl p (Some i)) = S (used tbl).
Proof.
  unfold used, slot. induction tbl as [|x r IH]; destruct p; simpl; intros i H E; try lia.
  - subst x. reflexivity.
  - destruct x; simpl; rewrite IH by (auto; lia); reflexivity.
Qed.

Lemma all_used : forall tbl, (forall q, q < length tbl -> slot tbl q <> None) -> used tbl = length tbl.
Proof.
  unfold used, slot. induction tbl as [|x r IH]; simpl; intros H; auto.
  destruct x as [j|]; [|exfalso; apply (H 0); [lia | reflexivity]].
  simpl. f_equal. apply IH. intros q Hq. apply (H (S q)). lia.
Qed.

Lemma used_repeat : forall k, used (repeat None k) = 0.
Proof. unfold used. induction k; simpl; auto. Qed.

Lemma slot_repeat : forall k p, slot (repeat None k) p = None.
Proof. unfold slot. induction k; destruct p; simpl; auto. Qed.

Lemma lookup_seq_some : forall rd eqn ps j, lookup_seq rd eqn ps = Some j ->
    exists p, In p ps /\ rd p = Some j /\ eqn j = true.
Proof.
  induction ps as [|p r IH]; simpl; intros j H; [discriminate|].
  destruct (rd p) as [k|] eqn:E; [|discriminate]. destruct (eqn k) eqn:Ek.
  - inversion H; subst. exists p. auto.
  - destruct (IH _ H) as (q & A & B & C). exists q. auto.
Qed.

Lemma lookup_seq_ext : forall rd rd' eqn eqn' ps,
    (forall p, In p ps -> rd p = rd' p) ->
    (forall p j, In p ps -> rd p = Some j -> eqn j = eqn' j) ->
    lookup_seq rd eqn ps = lookup_seq rd' eqn' ps.
Proof.
  induction ps as [|p r IH]; simpl; intros H1 H2; auto.
  rewrite <- (H1 p) by auto. destruct (rd p) as [j|] eqn:E; auto.
  rewrite <- (H2 p j) by auto. destruct (eqn j); auto.
  apply IH.
  - intros q Hq. apply H1. right; assumption.
  - intros q k Hq Hk. apply (H2 q k); [right; assumption | assumption].
Qed.

(* ------------------------------------------------------------------------------------------ *)
Section TableProofs.
  Variable hash : name -> nat -> nat.
  Hypothesis hash_range : forall s size, 0 < size -> hash s size < size.

  (* reachability: every slot probed before p, starting at the home slot of s, is occupied *)
  Definition reach (tbl : table) (size : nat) (s : name) (p : nat) : Prop :=
    exists pre post, probe_seq (hash s size) size = pre ++ p :: post /\ forall q, In q pre -> slot tbl q <> None.

  (* invariant of the insertion loop after the ids below i have been processed *)
  Record Inv (names : list name) (size : nat) (tbl : table) (i : nat) : Prop := {
    inv_len : length tbl = size;
    inv_used : used tbl <= i;
    inv_stored : forall p k, slot tbl p = Some k -> k < i /\ nth k names [] <> [] /\ reach tbl size (nth k names []) p;
    inv_complete : forall k, k < i -> nth k names [] <> [] -> exists p, slot tbl p = Some k
  }.

  Lemma inv_init : forall names size, Inv names size (repeat None size) 0.
  Proof.
    intros. constructor.
    - apply repeat_length.
    - rewrite used_repeat. lia.
    - intros p k H. rewrite slot_repeat in H. discriminate.
    - intros k H. lia.
  Qed.

  Lemma build_from_inv : forall all size rest done tbl,
      all = done ++ rest -> length all <= size ->
      Inv all size tbl (length done) ->
      exists tbl', build_from hash tbl size (length done) rest = Some tbl' /\ Inv all size tbl' (length all).
  Proof.
    intros all size. induction rest as [|s r IH]; intros done tbl Hall Hsize HI.
    - simpl. exists tbl. split; auto. subst all. rewrite app_nil_r in *. assumption.
    - assert (Hnth : nth (length done) all [] = s).
      { subst all. rewrite app_nth2 by lia. rewrite Nat.sub_diag. reflexivity. }
      assert (Hlt : length done < length all) by (subst all; rewrite app_length; simpl; lia).
      assert (Hall' : all = (done ++ [s]) ++ r) by (subst all; rewrite <- app_assoc; reflexivity).
      assert (Hlen' : length (done ++ [s]) = S (length done)) by (rewrite app_length; simpl; lia).
      simpl. destruct (is_empty s) eqn:Es.
      + apply is_empty_spec in Es.
        specialize (IH (done ++ [s]) tbl Hall' Hsize). rewrite Hlen' in IH. apply IH.
        destruct HI as [A B C D]. constructor; auto.
        * intros p k H. destruct (C p k H) as (C1 & C2 & C3). auto.
        * intros k Hk Hn. destruct (Nat.eq_dec k (length done)) as [->|Hne].
          -- exfalso. apply Hn. rewrite Hnth. assumption.
          -- apply D; [lia | assumption].
      + assert (Hne : s <> []) by (intro E; apply is_empty_spec in E; congruence).
        assert (Hpos : 0 < size) by lia.
        pose proof (hash_range s size Hpos) as Hh.
        destruct HI as [A B C D].
        unfold insert. destruct (find_free tbl (probe_seq (hash s size) size)) as [p|] eqn:Ef.
        * destruct (find_free_some _ _ _ Ef) as (pre & post & Hsplit & Hfree & Hpre).
          assert (Hp : p < size).
          { apply (probe_lt (hash s size) size p Hh). rewrite Hsplit. apply in_or_app. right. left. reflexivity. }
          specialize (IH (done ++ [s]) (update tbl p (Some (length done))) Hall' Hsize). rewrite Hlen' in IH. apply IH.
          constructor.
          -- rewrite update_length. assumption.
          -- rewrite used_update by (auto; lia). lia.
          -- intros p' k H. destruct (Nat.eq_dec p p') as [<-|Hpp].
             ++ rewrite slot_update_same in H by lia. inversion H; subst k.
                split; [lia|]. rewrite Hnth. split; [assumption|].
                exists pre, post. split; [assumption|]. intros q Hq.
                rewrite slot_update_other; [apply Hpre; assumption|]. intro; subst q. apply (Hpre p Hq). assumption.
             ++ rewrite slot_update_other in H by assumption.
                destruct (C p' k H) as (C1 & C2 & (pre' & post' & S1 & S2)).
                split; [lia|]. split; [assumption|]. exists pre', post'. split; [assumption|].
                intros q Hq. destruct (Nat.eq_dec p q) as [<-|Hpq].
                ** rewrite slot_update_same by lia. discriminate.
                ** rewrite slot_update_other by assumption. apply S2. assumption.
          -- intros k Hk Hn. destruct (Nat.eq_dec k (length done)) as [->|Hkne].
             ++ exists p. apply slot_update_same. lia.
             ++ destruct (D k) as [pk Hpk]; [lia | assumption |]. exists pk.
                rewrite slot_update_other; [assumption|]. intro; subst pk. congruence.
        * (* no free slot: impossible, fewer entries than slots *)
          exfalso. pose proof (find_free_none _ _ Ef) as Hfull.
          assert (used tbl = length tbl).
          { apply all_used. intros q Hq. apply Hfull. apply probe_in; lia. }
          lia.
  Qed.

  (* the table of one type is always built (M >= 1) and satisfies the invariant *)
  Theorem build_ok : forall M names, 1 <= M ->
      exists tbl, build hash M names = Some tbl /\ Inv names (M * length names) tbl (length names).
  Proof.
    intros M names HM. unfold build.
    apply (build_from_inv names (M * length names) names [] (repeat None (M * length names))); auto.
    - nia.
    - apply inv_init.
  Qed.

  Section Lookup.
    Variable M : nat.
    Variable names : list name.
    Variable tbl : table.
    Hypothesis HM : 1 <= M.
    Hypothesis HI : Inv names (M * length names) tbl (length names).
    Hypothesis Hdist : distinct_names names.

    (* a named object is found under its name *)
    Theorem lookup_hit : forall k, k < length names -> nth k names [] <> [] ->
        name2id1 hash M names tbl (nth k names []) = Some k.
    Proof.
      intros k Hk Hn. unfold name2id1.
      assert (Hsz : M * length names <> 0) by nia.
      apply Nat.eqb_neq in Hsz. rewrite Hsz.
      destruct HI as [A B C D]. destruct (D k Hk Hn) as [p Hp].
      destruct (C p k Hp) as (_ & _ & (pre & post & Hsplit & Hpre)). rewrite Hsplit.
      clear Hsplit. induction pre as [|q pre IH]; simpl.
      - rewrite Hp. assert (E : name_eqb (nth k names []) (nth k names []) = true) by (apply name_eqb_spec; reflexivity).
        rewrite E. reflexivity.
      - destruct (slot tbl q) as [k'|] eqn:Eq; [|exfalso; apply (Hpre q); [left; reflexivity | assumption]].
        destruct (name_eqb (nth k names []) (nth k' names [])) eqn:En.
        + apply name_eqb_spec in En. destruct (C q k' Eq) as (Hk' & _ & _).
          f_equal. symmetry. apply (Hdist k k'); auto.
        + apply IH. intros q' Hq'. apply Hpre. right. assumption.
    Qed.

    (* whatever is found is a named object of this type carrying that name *)
    Theorem lookup_sound : forall s j, name2id1 hash M names tbl s = Some j ->
        j < length names /\ nth j names [] = s /\ s <> [].
    Proof.
      intros s j H. unfold name2id1 in H. destruct (M * length names =? 0); [discriminate|].
      apply lookup_seq_some in H. destruct H as (p & _ & Hp & He).
      apply name_eqb_spec in He. destruct HI as [A B C D]. destruct (C p j Hp) as (C1 & C2 & _).
      split; [assumption|]. split; [symmetry; assumption|]. rewrite He. assumption.
    Qed.

    (* a string that names no object of this type is not found *)
    Theorem lookup_miss : forall s, (forall k, k < length names -> nth k names [] <> [] -> nth k names [] <> s) ->
        name2id1 hash M names tbl s = None.
    Proof.
      intros s H. destruct (name2id1 hash M names tbl s) as [j|] eqn:E; auto.
      apply lookup_sound in E. destruct E as (E1 & E2 & E3). exfalso. apply (H j E1); [rewrite E2; assumption | assumption].
    Qed.

    Theorem lookup_empty : name2id1 hash M names tbl [] = None.
    Proof.
      destruct (name2id1 hash M names tbl []) as [j|] eqn:E; auto.
      apply lookup_sound in E. destruct E as (_ & _ & E3). exfalso. apply E3. reflexivity.
    Qed.
  End Lookup.

  (* id2name *)
  Theorem id2name1_spec : forall names i,
      (id2name1 names i = None <-> (i < 0 \/ Z.of_nat (length names) <= i \/ nth (Z.to_nat i) names [] = []))%Z /\
      (forall s, id2name1 names i = Some s -> (0 <= i < Z.of_nat (length names))%Z /\ s = nth (Z.to_nat i) names [] /\ s <> []).
  Proof.
    intros names i. unfold id2name1.
    destruct (0 <=? i)%Z eqn:E0; destruct (i <? Z.of_nat (length names))%Z eqn:E1; simpl;
      try apply Z.leb_le in E0; try apply Z.leb_gt in E0; try apply Z.ltb_lt in E1; try apply Z.ltb_ge in E1.
    - destruct (is_empty (nth (Z.to_nat i) names [])) eqn:Ee.
      + apply is_empty_spec in Ee. split; [split; auto|discriminate].
      + assert (Hne : nth (Z.to_nat i) names [] <> []) by (intro E; apply is_empty_spec in E; congruence).
        split.
        * split; [discriminate|]. intros [H|[H|H]]; try lia. contradiction.
        * intros s H. inversion H; subst. repeat split; auto; lia.
    - split; [split; auto; intros; right; left; lia | discriminate].
    - split; [split; auto; intros; left; lia | discriminate].
    - split; [split; auto; intros; left; lia | discriminate].
  Qed.

  (* the property, for one type: name2id inverts id2name *)
  Theorem roundtrip1 : forall M names tbl, 1 <= M ->
      build hash M names = Some tbl -> distinct_names names ->
      forall i s, id2name1 names i = Some s -> name2id1 hash M names tbl s = Some (Z.to_nat i).
  Proof.
    intros M names tbl HM Hb Hd i s H.
    destruct (build_ok M names HM) as [tbl' [Hb' HI]]. rewrite Hb in Hb'. inversion Hb'; subst tbl'.
    destruct (id2name1_spec names i) as [_ Hs]. destruct (Hs s H) as (Hr & -> & Hne).
    apply lookup_hit; auto. lia.
  Qed.
End TableProofs.

(* ---------------- mj_hashString lands in the table ---------------- *)
Theorem hashN_range : forall s size, 0 < size -> hashN s size < size.
Proof.
  intros s size H. unfold hashN, hashString.
  assert (0 <= hash64 s mod Z.of_nat size < Z.of_nat size)%Z by (apply Z.mod_pos_bound; lia).
  lia.
Qed.

Theorem hash64_range : forall s, name_ok s -> (0 <= hash64 s < m64)%Z.
Proof.
  intros s Hs. unfold hash64.
  assert (G : forall l h, name_ok l -> (0 <= h < m64)%Z -> (0 <= fold_left hash_step l h < m64)%Z).
  { induction l as [|c l IH]; simpl; intros h Hl Hh; auto.
    inversion Hl; subst. apply IH; auto. unfold hash_step.
    assert (A : (0 <= (h * 33) mod m64 < m64)%Z) by (apply Z.mod_pos_bound; reflexivity).
    assert (B : (0 <= sext c < m64)%Z).
    { unfold sext, m64 in *. destruct (c <? 128)%Z eqn:E; [apply Z.ltb_lt in E | apply Z.ltb_ge in E]; lia. }
    split.
    - apply Z.lxor_nonneg. lia.
    - unfold m64 in *.
      destruct (Z.eq_dec (Z.lxor ((h * 33) mod 2 ^ 64) (sext c)) 0) as [E0|E0]; [rewrite E0; reflexivity|].
      apply Z.log2_lt_pow2; [pose proof (proj2 (Z.lxor_nonneg ((h * 33) mod 2 ^ 64) (sext c))); lia|].
      eapply Z.le_lt_trans; [apply Z.log2_lxor; lia|].
      apply Z.max_lub_lt.
      + destruct (Z.eq_dec ((h * 33) mod 2 ^ 64) 0) as [E|E]; [rewrite E; simpl; lia|]. apply Z.log2_lt_pow2; lia.
      + destruct (Z.eq_dec (sext c) 0) as [E|E]; [rewrite E; simpl; lia|]. apply Z.log2_lt_pow2; lia. }
  apply G; auto. unfold m64. lia.
Qed.

(* ------------------------------------------------------------------------------------------ *)
(* The whole model: offsets, slices of names_map, the names buffer                              *)

Lemma sum_app : forall a b, sum (a ++ b) = sum a + sum b.
Proof. induction a; simpl; intros; auto. rewrite IHa. lia. Qed.

(* the offset _getnumadr reaches by subtracting from the end is the offset CopyNames reaches by adding from the start *)
Theorem mapadr_eq : forall M types k, mapadr_switch M types k = mapadr_copy M types k.
Proof.
  intros M types k. unfold mapadr_switch, mapadr_copy, nnames_map.
  rewrite <- (firstn_skipn k types) at 1. rewrite map_app, sum_app. nia.
Qed.

Lemma firstn_S_nth : forall {A} (l : list A) k d, k < length l -> firstn (S k) l = firstn k l ++ [nth k l d].
Proof.
  induction l as [|x r IH]; intros k d Hk; simpl in Hk; [lia|].
  destruct k; simpl; [reflexivity|]. f_equal. apply IH. lia.
Qed.

(* tables of different types do not overlap: each starts where the previous one ends *)
Theorem mapadr_next : forall M types k, k < length types ->
    mapadr_copy M types (S k) = mapadr_copy M types k + M * length (nth k types []).
Proof.
  intros M types k Hk. unfold mapadr_copy. rewrite (firstn_S_nth types k [] Hk).
  rewrite map_app, sum_app. simpl. nia.
Qed.

Theorem mapadr_total : forall M types, mapadr_copy M types (length types) = nnames_map M types.
Proof. intros. unfold mapadr_copy, nnames_map. rewrite firstn_all. reflexivity. Qed.

Lemma build_from_length : forall hash rest tbl size i t, build_from hash tbl size i rest = Some t -> length t = length tbl.
Proof.
  induction rest as [|s r IH]; simpl; intros tbl size i t H.
  - inversion H; reflexivity.
  - destruct (is_empty s); [eauto|]. unfold insert in H.
    destruct (find_free tbl _); [|discriminate]. apply IH in H. rewrite update_length in H. assumption.
Qed.

Lemma build_length : forall hash M ns t, build hash M ns = Some t -> length t = M * length ns.
Proof. unfold build. intros hash M ns t H. apply build_from_length in H. rewrite repeat_length in H. assumption. Qed.

Lemma mapM_nth : forall {A B} (f : A -> option B) l ys dA dB, mapM f l = Some ys ->
    length ys = length l /\ forall k, k < length l -> f (nth k l dA) = Some (nth k ys dB).
Proof.
  induction l as [|x r IH]; simpl; intros ys dA dB H.
  - inversion H. split; auto. intros; lia.
  - destruct (f x) eqn:Ex; [|discriminate]. destruct (mapM f r) eqn:Er; [|discriminate].
    inversion H; subst. destruct (IH _ dA dB eq_refl) as [A1 A2]. split; [simpl; lia|].
    intros [|k] Hk; simpl; auto. apply A2. lia.
Qed.

Lemma concat_firstn_length : forall hash M types tbls, mapM (build hash M) types = Some tbls ->
    forall k, length (concat (firstn k tbls)) = mapadr_copy M types k.
Proof.
  intros hash M. unfold mapadr_copy. induction types as [|t r IH]; simpl; intros tbls H k.
  - inversion H; subst. destruct k; simpl; lia.
  - destruct (build hash M t) eqn:Eb; [|discriminate]. destruct (mapM _ r) eqn:Er; [|discriminate].
    inversion H; subst. destruct k; simpl; [lia|].
    rewrite app_length. rewrite (IH _ eq_refl k). apply build_length in Eb. nia.
Qed.

Lemma concat_slot : forall (tbls : list table) k p, k < length tbls -> p < length (nth k tbls []) ->
    slot (concat tbls) (length (concat (firstn k tbls)) + p) = slot (nth k tbls []) p.
Proof.
  unfold slot. induction tbls as [|t r IH]; intros k p Hk Hp; simpl in Hk; [lia|].
  destruct k; simpl in *.
  - apply app_nth1. assumption.
  - rewrite app_length. rewrite app_nth2 by lia.
    replace (length t + length (concat (firstn k r)) + p - length t) with (length (concat (firstn k r)) + p) by lia.
    apply IH; [lia | assumption].
Qed.

(* names buffer *)
Lemma flat_cstr_length : forall ns, length (flat_map cstr ns) = blen ns.
Proof.
  unfold blen. induction ns as [|s r IH]; simpl; auto. unfold cstr at 1. rewrite !app_length, IH. simpl. lia.
Qed.

Lemma skipn_app_len : forall {A} (a b : list A) n, skipn (length a + n) (a ++ b) = skipn n b.
Proof.
  intros A a b n. rewrite skipn_app. rewrite skipn_all2 by lia. simpl.
  replace (length a + n - length a) with n by lia. reflexivity.
Qed.

Lemma blen_cons : forall s l, blen (s :: l) = length (cstr s) + blen l.
Proof. intros. unfold blen, cstr. simpl. rewrite app_length. simpl. lia. Qed.

Lemma skipn_type : forall ns j, j < length ns ->
    skipn (blen (firstn j ns)) (flat_map cstr ns) = cstr (nth j ns []) ++ flat_map cstr (skipn (S j) ns).
Proof.
  induction ns as [|s r IH]; intros j Hj; simpl in Hj; [lia|].
  destruct j.
  - reflexivity.
  - rewrite firstn_cons, blen_cons.
    change (flat_map cstr (s :: r)) with (cstr s ++ flat_map cstr r).
    rewrite skipn_app_len.
    change (nth (S j) (s :: r) []) with (nth j r []).
    change (skipn (S (S j)) (s :: r)) with (skipn (S j) r).
    apply IH. lia.
Qed.

Lemma skipn_types : forall types k, k < length types ->
    skipn (sum (map blen (firstn k types))) (flat_map (fun ns => flat_map cstr ns) types)
    = flat_map cstr (nth k types []) ++ flat_map (fun ns => flat_map cstr ns) (skipn (S k) types).
Proof.
  induction types as [|t r IH]; intros k Hk; simpl in Hk; [lia|].
  destruct k; simpl.
  - reflexivity.
  - rewrite <- (flat_cstr_length t). rewrite skipn_app_len. apply IH. lia.
Qed.

Lemma skipn_add : forall {A} (l : list A) a b, skipn (a + b) l = skipn b (skipn a l).
Proof. induction l as [|x r IH]; intros a b; destruct a; simpl; auto. destruct b; reflexivity. Qed.

Lemma skipn_buf : forall mn types k j, k < length types -> j < length (nth k types []) ->
    exists rest, skipn (name_adr mn types k j) (names_buf mn types) = nth j (nth k types []) [] ++ 0%Z :: rest.
Proof.
  intros mn types k j Hk Hj. unfold name_adr, names_buf.
  replace (S (length mn)) with (length (cstr mn)) by (unfold cstr; rewrite app_length; simpl; lia).
  rewrite <- Nat.add_assoc. rewrite skipn_app_len.
  rewrite skipn_add.
  rewrite skipn_types by assumption.
  rewrite skipn_app. rewrite skipn_type by assumption.
  assert (Hle : blen (firstn j (nth k types [])) <= length (flat_map cstr (nth k types []))).
  { rewrite flat_cstr_length. rewrite <- (firstn_skipn j (nth k types [])) at 2.
    unfold blen. rewrite map_app, sum_app. apply Nat.le_add_r. }
  rewrite (proj2 (Nat.sub_0_le _ _) Hle).
  simpl. unfold cstr at 1. rewrite <- !app_assoc. simpl. eexists. reflexivity.
Qed.

Lemma strncmp_cstr : forall s t rest n, name_ok s -> name_ok t -> length t < n ->
    strncmp_eq s (t ++ 0%Z :: rest) n = name_eqb s t.
Proof.
  induction s as [|c s IH]; intros t rest n Hs Ht Hn; destruct n as [|n]; try lia; destruct t as [|d t]; simpl.
  - reflexivity.
  - inversion Ht; subst. destruct (Z.eqb_spec d 0); auto. lia.
  - inversion Hs; subst. destruct (Z.eqb_spec c 0); auto. lia.
  - inversion Hs; inversion Ht; subst. rewrite IH; auto. simpl in Hn. lia.
Qed.

Lemma read_cstr_spec : forall t rest, name_ok t -> read_cstr (t ++ 0%Z :: rest) = t.
Proof.
  induction t as [|c t IH]; intros rest H; simpl; auto.
  inversion H; subst. destruct (Z.eqb_spec c 0); [lia|]. rewrite IH; auto.
Qed.

Lemma nth_skipn_hd : forall (l : list Z) a d, nth a l d = nth 0 (skipn a l) d.
Proof. induction l as [|x r IH]; destruct a; simpl; auto. Qed.

Definition names_ok (types : list (list name)) : Prop := forall ns, In ns types -> forall s, In s ns -> name_ok s.

Section Whole.
  Variable hash : name -> nat -> nat.
  Hypothesis hash_range : forall s size, 0 < size -> hash s size < size.
  Variable M : nat.
  Hypothesis HM : 1 <= M.
  Variable mn : name.
  Variable types : list (list name).
  Hypothesis Hok : names_ok types.

  (* CopyNames never fails, and the slice of names_map that mj_name2id reads for type k is the table of type k *)
  Theorem names_map_ok : exists mp, names_map hash M types = Some mp /\ length mp = nnames_map M types /\
      forall k, k < length types ->
        exists tbl, build hash M (nth k types []) = Some tbl /\
                    forall p, p < M * length (nth k types []) -> slot mp (mapadr_switch M types k + p) = slot tbl p.
  Proof.
    unfold names_map.
    assert (Hm : exists tbls, mapM (build hash M) types = Some tbls).
    { clear Hok. induction types as [|t r IH]; simpl; [eexists; reflexivity|].
      destruct (build_ok hash hash_range M t HM) as [tb [Hb _]]. rewrite Hb. destruct IH as [tbls ->]. eexists; reflexivity. }
    destruct Hm as [tbls Hm]. rewrite Hm. simpl. exists (concat tbls). split; [reflexivity|].
    split.
    - destruct (mapM_nth _ _ _ [] [] Hm) as [Hl _].
      replace (concat tbls) with (concat (firstn (length types) tbls)) by (rewrite <- Hl, firstn_all; reflexivity).
      rewrite (concat_firstn_length hash M types tbls Hm). apply mapadr_total.
    - intros k Hk. destruct (mapM_nth _ _ _ [] [] Hm) as [Hl Hn]. exists (nth k tbls []). split; [apply Hn; assumption|].
      intros p Hp. rewrite mapadr_eq. rewrite <- (concat_firstn_length hash M types tbls Hm k).
      apply concat_slot; [exact (eq_ind_r (fun n => k < n) Hk Hl)|]. exact (eq_ind_r (fun n => p < n) Hp (build_length hash M _ _ (Hn k Hk))).
  Qed.

  Theorem name2id_whole : forall mp k s, names_map hash M types = Some mp -> k < length types -> name_ok s ->
      exists tbl, build hash M (nth k types []) = Some tbl /\
                  name2id hash M mn types mp k s = name2id1 hash M (nth k types []) tbl s.
  Proof.
    intros mp k s Hmp Hk Hs. destruct names_map_ok as (mp' & Hmp' & _ & Hsl). rewrite Hmp in Hmp'. inversion Hmp'; subst mp'.
    destruct (Hsl k Hk) as (tbl & Hb & Hslot). exists tbl. split; [assumption|].
    unfold name2id, name2id1. destruct (M * length (nth k types []) =? 0) eqn:Ez; [reflexivity|].
    apply Nat.eqb_neq in Ez.
    assert (Hpos : 0 < M * length (nth k types [])) by lia.
    destruct (build_ok hash hash_range M (nth k types []) HM) as [tbl' [Hb' HI]]. rewrite Hb in Hb'. inversion Hb'; subst tbl'.
    apply lookup_seq_ext.
    - intros p Hp. apply Hslot. apply (probe_lt _ _ _ (hash_range s _ Hpos) Hp).
    - intros p j Hp Hj. rewrite Hslot in Hj by (apply (probe_lt _ _ _ (hash_range s _ Hpos) Hp)).
      destruct HI as [_ _ C _]. destruct (C p j Hj) as (Hjl & _ & _).
      destruct (skipn_buf mn types k j Hk Hjl) as [rest Hr]. rewrite Hr.
      apply strncmp_cstr; auto.
      + apply (Hok (nth k types [])); apply nth_In; assumption.
      + assert (Hlen : length (skipn (name_adr mn types k j) (names_buf mn types)) = length (nth j (nth k types []) [] ++ 0%Z :: rest)) by (rewrite Hr; reflexivity).
        rewrite skipn_length, app_length in Hlen. simpl in Hlen. lia.
  Qed.

  Theorem id2name_whole : forall k i, k < length types -> id2name mn types k i = id2name1 (nth k types []) i.
  Proof.
    intros k i Hk. unfold id2name, id2name1.
    destruct ((0 <=? i)%Z && (i <? Z.of_nat (length (nth k types []))))%Z eqn:E; [|reflexivity].
    apply andb_true_iff in E. destruct E as [E0 E1]. apply Z.leb_le in E0. apply Z.ltb_lt in E1.
    assert (Hj : Z.to_nat i < length (nth k types [])) by lia.
    destruct (skipn_buf mn types k (Z.to_nat i) Hk Hj) as [rest Hr].
    rewrite nth_skipn_hd. rewrite Hr.
    assert (Hn : name_ok (nth (Z.to_nat i) (nth k types []) [])).
    { apply (Hok (nth k types [])); apply nth_In; assumption. }
    destruct (nth (Z.to_nat i) (nth k types []) []) as [|c t] eqn:En; simpl.
    - reflexivity.
    - inversion Hn; subst. destruct (Z.eqb_spec c 0); [lia|]. f_equal. f_equal.
      change (read_cstr (t ++ 0%Z :: rest) = t). apply read_cstr_spec. assumption.
  Qed.

  (* object types outside the table (mjOBJ_UNKNOWN, mjOBJ_DOF, mjOBJ_FRAME, ...): no names *)
  Theorem no_such_type : forall mp k s i, length types <= k ->
      name2id hash M mn types mp k s = None /\ id2name mn types k i = None.
  Proof.
    intros mp k s i Hk. unfold name2id, id2name. rewrite (nth_overflow types []) by assumption. simpl.
    rewrite Nat.mul_0_r. simpl. split; [reflexivity|].
    destruct (0 <=? i)%Z eqn:E0; simpl; auto. destruct (i <? 0)%Z eqn:E1; auto.
    apply Z.leb_le in E0. apply Z.ltb_lt in E1. lia.
  Qed.
End Whole.

(* ------------------------------------------------------------------------------------------ *)
(* The property, for one type and for the whole model                                           *)
Section Final.
  Variable hash : name -> nat -> nat.
  Hypothesis hash_range : forall s size, 0 < size -> hash s size < size.
  Variable M : nat.
  Hypothesis HM : 1 <= M.

  (* one type *)
  Theorem one_type : forall names, distinct_names names ->
      exists tbl, build hash M names = Some tbl /\
        (forall i s, id2name1 names i = Some s -> name2id1 hash M names tbl s = Some (Z.to_nat i)) /\
        (forall s, (forall k, k < length names -> nth k names [] <> [] -> nth k names [] <> s) -> name2id1 hash M names tbl s = None) /\
        (forall s j, name2id1 hash M names tbl s = Some j -> j < length names /\ nth j names [] = s /\ s <> []).
  Proof.
    intros names Hd. destruct (build_ok hash hash_range M names HM) as [tbl [Hb HI]]. exists tbl. split; [assumption|].
    split; [|split].
    - intros i s H. eapply roundtrip1; eauto.
    - apply (lookup_miss hash M names tbl HI).
    - apply (lookup_sound hash M names tbl HI).
  Qed.

  Variable mn : name.
  Variable types : list (list name).
  Hypothesis Hok : names_ok types.
  Hypothesis Hdist : forall ns, In ns types -> distinct_names ns.

  Theorem whole_model :
    exists mp, names_map hash M types = Some mp /\ length mp = nnames_map M types /\
      forall k, k < length types ->
        let ns := nth k types [] in
        (forall i s, id2name mn types k i = Some s -> name2id hash M mn types mp k s = Some (Z.to_nat i)) /\
        (forall i, id2name mn types k i = None <-> (i < 0 \/ Z.of_nat (length ns) <= i \/ nth (Z.to_nat i) ns [] = [])%Z) /\
        (forall i s, id2name mn types k i = Some s -> s = nth (Z.to_nat i) ns [] /\ s <> []) /\
        (forall s, name_ok s -> (forall j, j < length ns -> nth j ns [] <> [] -> nth j ns [] <> s) ->
                   name2id hash M mn types mp k s = None) /\
        (forall s j, name_ok s -> name2id hash M mn types mp k s = Some j -> j < length ns /\ nth j ns [] = s /\ s <> []).
  Proof.
    destruct (names_map_ok hash hash_range M HM types) as (mp & Hmp & Hlen & _).
    exists mp. split; [assumption|]. split; [assumption|]. intros k Hk ns.
    assert (Hin : In ns types) by (apply nth_In; assumption).
    destruct (one_type ns (Hdist ns Hin)) as (tbl & Hb & R1 & R2 & R3).
    assert (Hw : forall s, name_ok s -> name2id hash M mn types mp k s = name2id1 hash M ns tbl s).
    { intros s Hs. destruct (name2id_whole hash hash_range M HM mn types Hok mp k s Hmp Hk Hs) as (tbl' & Hb' & E).
      fold ns in Hb'. rewrite Hb in Hb'. inversion Hb'; subst tbl'. exact E. }
    pose proof (id2name_whole M HM mn types Hok k) as Hi.
    split; [|split; [|split; [|split]]].
    - intros i s H. rewrite Hi in H by assumption. fold ns in H.
      destruct (id2name1_spec ns i) as [_ Hs]. destruct (Hs s H) as (Hr & Hs1 & _).
      rewrite Hw; [apply R1; assumption|]. subst s. apply (Hok ns Hin). apply nth_In. lia.
    - intros i. rewrite Hi by assumption. apply (id2name1_spec ns i).
    - intros i s H. rewrite Hi in H by assumption. destruct (id2name1_spec ns i) as [_ Hs]. destruct (Hs s H) as (_ & A & B). auto.
    - intros s Hs H. rewrite Hw by assumption. apply R2. assumption.
    - intros s j Hs H. rewrite Hw in H by assumption. apply R3. assumption.
  Qed.
End Final.
