(* Proofs about Model/Deriv.v that need Coquelicot (C25): polynomial damping. *)
From Coq Require Import ZArith List PrimFloat Reals Lra Lia Psatz Bool.
From Coquelicot Require Import Coquelicot.
From MJV Require Import Lib.Num Lib.NumR Model.Deriv Proof.DerivProof.
Import ListNotations.
Open Scope R_scope.

(* x * polyP poly x (x^k) has derivative polyD poly x (x^k) (k+2) *)
Lemma polyP_derive (poly : list R) : forall (k : nat) (x : R),
  is_derive (fun y : R => y * polyP poly y (y ^ k)) x (polyD poly x (x ^ k) (Z.of_nat k + 2)%Z).
Proof.
  induction poly as [|p r IH]; intros k x; simpl.
  - apply (is_derive_ext (fun _ : R => 0)); [intros t; simpl; lra|]. apply @is_derive_const.
  - apply (is_derive_ext (fun y : R => p * y ^ (S (S k)) + y * polyP r y (y ^ (S k)))).
    { intros y. replace (y ^ S k) with (y ^ k * y) by (simpl; ring). simpl. ring. }
    replace (IZR (Z.of_nat k + 2) * p * (x ^ k * x) + polyD r x (x ^ k * x) (Z.of_nat k + 2 + 1)%Z)
      with (p * (INR (S (S k)) * x ^ (S k)) + polyD r x (x ^ (S k)) (Z.of_nat (S k) + 2)%Z).
    + apply @is_derive_plus.
      * apply is_derive_scal. 
        replace (INR (S (S k)) * x ^ S k) with (INR (S (S k)) * 1 * x ^ pred (S (S k))) by (simpl; ring).
        apply (is_derive_pow (fun y : R => y) (S (S k)) x 1). apply @is_derive_id.
      * apply IH.
    + replace (Z.of_nat (S k) + 2)%Z with (Z.of_nat k + 2 + 1)%Z by lia.
      replace (x ^ S k) with (x ^ k * x) by (simpl; ring).
      rewrite plus_IZR, <- INR_IZR_INZ. rewrite !S_INR. simpl. ring.
Qed.

Lemma damper_force_pos (b : R) (poly : list R) (y : R) : 0 < y ->
  damper_force b poly y = - (b * y + y * polyP poly y (y ^ 0)).
Proof.
  intros Hy. unfold damper_force, polyForce. rewrite poly_loop_spec. num_R.
  rewrite (Rabs_pos_eq y) by lra. simpl. ring.
Qed.
Lemma damper_force_neg (b : R) (poly : list R) (y : R) : y < 0 ->
  damper_force b poly y = - (b * y) + (- y) * polyP poly (- y) ((- y) ^ 0).
Proof.
  intros Hy. unfold damper_force, polyForce. rewrite poly_loop_spec. num_R.
  rewrite (Rabs_left y) by lra. simpl. ring.
Qed.
Lemma damper_slope_abs (b : R) (poly : list R) (v : R) :
  damper_slope b poly v = - (b + polyD poly (Rabs v) 1 2).
Proof. unfold damper_slope, xPolyForce. rewrite dpoly_loop_spec. num_R. reflexivity. Qed.

(* polynomial damping: for v <> 0 the slope added to qDeriv is the derivative of the damping force *)
Lemma damper_derive (b : R) (poly : list R) (v : R) : v <> 0 ->
  is_derive (fun y : R => damper_force b poly y) v (damper_slope b poly v).
Proof.
  intros Hv. rewrite damper_slope_abs.
  destruct (Rlt_or_le 0 v) as [Pos|Neg].
  - apply (is_derive_ext_loc (fun y : R => - (b * y + y * polyP poly y (y ^ 0)))).
    { exists (mkposreal v Pos). intros y By. symmetry. apply damper_force_pos.
      unfold ball in By; simpl in By; unfold AbsRing_ball, abs, minus, plus, opp in By; simpl in By.
      apply Rabs_def2 in By. lra. }
    rewrite (Rabs_pos_eq v) by lra.
    replace (- (b + polyD poly v 1 2)) with (opp (b * 1 + polyD poly v (v ^ 0) (Z.of_nat 0 + 2)%Z)) by (unfold opp; simpl; ring).
    apply @is_derive_opp. apply @is_derive_plus.
    + apply (is_derive_ext (fun y : R => scal y b)); [intros t; unfold scal; simpl; unfold mult; simpl; ring|].
      replace (b * 1) with (scal 1 b) by (unfold scal; simpl; unfold mult; simpl; ring).
      apply (is_derive_scal_l (fun y : R => y) v 1 b). apply @is_derive_id.
    + apply polyP_derive.
  - assert (Neg' : v < 0) by lra.
    assert (Pos' : 0 < - v) by lra.
    apply (is_derive_ext_loc (fun y : R => - (b * y) + (- y) * polyP poly (- y) ((- y) ^ 0))).
    { exists (mkposreal (- v) Pos'). intros y By. symmetry. apply damper_force_neg.
      unfold ball in By; simpl in By; unfold AbsRing_ball, abs, minus, plus, opp in By; simpl in By.
      apply Rabs_def2 in By. lra. }
    rewrite (Rabs_left v) by lra.
    replace (- (b + polyD poly (- v) 1 2)) with (plus (- b) (scal (-1) (polyD poly (- v) ((- v) ^ 0) (Z.of_nat 0 + 2)%Z)))
      by (unfold plus, scal; simpl; unfold mult; simpl; ring).
    apply @is_derive_plus.
    + apply (is_derive_ext (fun y : R => scal y (- b))); [intros t; unfold scal; simpl; unfold mult; simpl; ring|].
      assert (H1 : is_derive (fun y : R => scal y (- b)) v (scal 1 (- b))) by (apply (is_derive_scal_l (fun y : R => y) v 1 (- b)); apply @is_derive_id).
      replace (scal 1 (- b)) with (- b) in H1 by (unfold scal; simpl; unfold mult; simpl; ring). exact H1.
    + apply (is_derive_comp (fun z : R => z * polyP poly z (z ^ 0)) (fun y : R => - y) v).
      * apply polyP_derive.
      * apply (is_derive_ext (fun y : R => opp y)); [intros; reflexivity|].
        replace (-1) with (opp 1) by (unfold opp; simpl; ring). apply @is_derive_opp. apply @is_derive_id.
Qed.
