(* C04: skip stages of mj_inverseSkip on the REGENERATED program (src/engine/engine_inverse.c).
   Unlike mj_forwardSkip the skipped stages are not a prefix of the full program (stack mark and
   local declarations come first), so the checker finds a decomposition
       full = pre ++ mid ++ post      skip = pre ++ post
   and the theorem says: the skipping call equals the full call on every data on which the removed
   middle segment, run after the common prefix, is a no-op. *)
From Coq Require Import String List Bool Arith Lia.
From MJV Require Import Model.Pipeline Proof.PipelineProof Gen.Pipeline Proof.C04Proof.
Import ListNotations.
Open Scope string_scope.
Open Scope list_scope.

Definition inv (stage sens : string) : prog := PCall "mj_inverseSkip" [stage; sens].

Fixpoint find_split (k p n : nat) (full skip : list item) : option nat :=
  match k with
  | O => None
  | S k' =>
      if items_eqb (firstn p full) (firstn p skip) && items_eqb (skipn (p + n) full) (skipn p skip)
      then Some p else find_split k' (S p) n full skip
  end.

Definition skip_mid_of (full skip : list item) : option (list item * list item) :=
  let n := (length full - length skip)%nat in
  match find_split (S (length skip)) 0 n full skip with
  | Some p => Some (firstn p full, firstn n (skipn p full))
  | None => None
  end.

Definition skip_mid (stage sens : string) : option (list item * list item) :=
  match flatten (inv "mjSTAGE_NONE" sens), flatten (inv stage sens) with
  | Some full, Some skip => skip_mid_of (lsimp [] None full) (lsimp [] None skip)
  | _, _ => None
  end.

Definition inv_skip_cases : list (string * string) :=
  [("mjSTAGE_POS", "0"); ("mjSTAGE_VEL", "0"); ("mjSTAGE_POS", "1"); ("mjSTAGE_VEL", "1")].

(* decided by computation on the regenerated program: a decomposition exists and the removed
   segment is not empty *)
Lemma inv_skip_defined :
  forallb (fun c : string * string =>
             match skip_mid (fst c) (snd c) with Some (_, _ :: _) => true | _ => false end) inv_skip_cases = true.
Proof. vm_compute. reflexivity. Qed.

Lemma find_split_ok (k : nat) : forall (p n : nat) (full skip : list item) (q : nat),
  find_split k p n full skip = Some q ->
  firstn q full = firstn q skip /\ skipn (q + n) full = skipn q skip.
Proof.
  induction k as [|k IH]; intros p n full skip q H; simpl in H; [discriminate|].
  destruct (items_eqb (firstn p full) (firstn p skip) && items_eqb (skipn (p + n) full) (skipn p skip)) eqn:E.
  - inversion H; subst. apply andb_true_iff in E. destruct E as [E1 E2].
    split; apply items_eqb_ok; assumption.
  - eapply IH; eassumption.
Qed.

Lemma skipn_skipn_add (p n : nat) : forall l : list item, skipn n (skipn p l) = skipn (p + n) l.
Proof.
  induction p as [|p IH]; intro l; [reflexivity|].
  destruct l as [|x l]; simpl; [destruct n; reflexivity|]. apply IH.
Qed.

Section Inv.
Variable data : Type.
Variable call : string -> list string -> data -> data.
Variable assign : string -> string -> data -> data.
Variable user : data -> data.
Variable atom : string -> data -> bool.
Variable integ : data -> string.
Notation exec := (exec_list data call assign user atom integ).

(* the premise: after the common prefix the removed segment changes nothing *)
Definition mid_noop (pre mid : list item) (d : data) : Prop :=
  match exec pre d with Some d1 => exec mid d1 = Some d1 | None => True end.

Lemma skip_mid_of_sound (full skip pre mid : list item) :
  skip_mid_of full skip = Some (pre, mid) ->
  forall d : data, mid_noop pre mid d -> exec skip d = exec full d.
Proof.
  unfold skip_mid_of, mid_noop. intros H d Hfix.
  destruct (find_split (S (length skip)) 0 (length full - length skip) full skip) as [p|] eqn:E; [|discriminate].
  inversion H as [[E1 E2]]. clear H.
  apply find_split_ok in E. destruct E as [Ep Es].
  set (n := (length full - length skip)%nat) in *.
  assert (Hfull : full = firstn p full ++ (firstn n (skipn p full) ++ skipn (p + n) full)).
  { rewrite <- (firstn_skipn p full) at 1. f_equal.
    rewrite <- (firstn_skipn n (skipn p full)) at 1. f_equal.
    apply skipn_skipn_add. }
  assert (Hskip : skip = firstn p full ++ skipn (p + n) full).
  { rewrite <- (firstn_skipn p skip) at 1. rewrite <- Ep, <- Es. reflexivity. }
  rewrite Hskip. rewrite Hfull at 3.
  rewrite !exec_app. rewrite E1 in *. rewrite E2 in *.
  destruct (exec pre d) as [d1|]; [|reflexivity].
  rewrite exec_app, Hfix. reflexivity.
Qed.

Lemma inv_skip_core (ofull oskip : option (list item)) (pre mid : list item) :
  match ofull, oskip with
  | Some full, Some skip => skip_mid_of (lsimp [] None full) (lsimp [] None skip)
  | _, _ => None
  end = Some (pre, mid) ->
  forall d : data, mid_noop pre mid d ->
    match oskip with Some l => exec l d | None => None end =
    match ofull with Some l => exec l d | None => None end.
Proof.
  intros E d Hfix.
  destruct ofull as [full|]; [|discriminate]. destruct oskip as [skip|]; [|discriminate].
  assert (Hasm : forall (s : string) (b : bool), lookup s [] = Some b -> forall d0 : data, atom s d0 = b)
    by (intros s b Hl; discriminate).
  assert (Hiv : forall v' : string, @None string = Some v' -> forall d0 : data, integ d0 = v') by (intros; discriminate).
  rewrite <- (lsimp_ok data call assign user atom integ [] None Hasm Hiv full d).
  rewrite <- (lsimp_ok data call assign user atom integ [] None Hasm Hiv skip d).
  eapply skip_mid_of_sound; eassumption.
Qed.

Lemma inv_skip_gen (stage sens : string) (pre mid : list item) :
  skip_mid stage sens = Some (pre, mid) ->
  forall d : data, mid_noop pre mid d ->
            run data call assign user atom integ (inv stage sens) d =
            run data call assign user atom integ (inv "mjSTAGE_NONE" sens) d.
Proof.
  exact (inv_skip_core (flatten (inv "mjSTAGE_NONE" sens)) (flatten (inv stage sens)) pre mid).
Qed.

Lemma inv_skip_sound (stage sens : string) :
  In (stage, sens) inv_skip_cases ->
  exists pre mid : list item, skip_mid stage sens = Some (pre, mid) /\ mid <> [] /\
    forall d : data, mid_noop pre mid d ->
              run data call assign user atom integ (inv stage sens) d =
              run data call assign user atom integ (inv "mjSTAGE_NONE" sens) d.
Proof.
  intros Hin.
  pose proof inv_skip_defined as Hd. rewrite forallb_forall in Hd. specialize (Hd (stage, sens) Hin).
  cbv beta iota delta [fst snd] in Hd.
  destruct (skip_mid stage sens) as [[pre [|m0 mid]]|] eqn:E; try discriminate.
  exists pre, (m0 :: mid). split; [reflexivity|]. split; [discriminate|].
  intros d Hfix. eapply inv_skip_gen; eassumption.
Qed.

(* mj_inverse is mj_inverseSkip(mjSTAGE_NONE, 0) *)
Lemma inverse_is_skip_none (d : data) :
  run data call assign user atom integ (PCall "mj_inverse" []) d =
  run data call assign user atom integ (inv "mjSTAGE_NONE" "0") d.
Proof. unfold run. replace (flatten (PCall "mj_inverse" [])) with (flatten (inv "mjSTAGE_NONE" "0")); [reflexivity|]. vm_compute. reflexivity. Qed.
End Inv.
