(* Proofs about Model/Broadphase.v: filters, body-level masks, sweep and prune. *)
From Coq Require Import List ZArith Bool Lia Permutation Sorted Arith.
From MJV Require Import Model.Sort Proof.SortProof Model.Broadphase.
Import ListNotations.
Open Scope Z_scope.

(* ================================================================== filters *)

Lemma land_zero_bits a b :
  Z.land a b = 0 <-> forall k, 0 <= k -> Z.testbit a k && Z.testbit b k = false.
Proof.
  split.
  - intros H k Hk. rewrite <- Z.land_spec, H. apply Z.bits_0.
  - intro H. apply Z.bits_inj'. intros n Hn. rewrite Z.land_spec, Z.bits_0. apply H; assumption.
Qed.

Lemma nonzero_bit x : x <> 0 -> exists k, 0 <= k /\ Z.testbit x k = true.
Proof.
  intro H. destruct (Z.lt_trichotomy x 0) as [Hn | [He | Hp]].
  - exists (Z.log2 (Z.abs x) + 1). split.
    + pose proof (Z.log2_nonneg (Z.abs x)). lia.
    + apply (Z.bits_iff_neg x (Z.log2 (Z.abs x) + 1)); lia.
  - contradiction.
  - exists (Z.log2 x). split; [apply Z.log2_nonneg | apply Z.bit_log2; assumption].
Qed.

Lemma land_nonzero_bits a b :
  Z.land a b <> 0 <-> exists k, 0 <= k /\ Z.testbit a k = true /\ Z.testbit b k = true.
Proof.
  split.
  - intro H. destruct (nonzero_bit _ H) as (k & Hk & Hb). exists k. split; [assumption|].
    rewrite Z.land_spec in Hb. apply andb_true_iff in Hb. exact Hb.
  - intros (k & Hk & Ha & Hb) H0. rewrite land_zero_bits in H0. specialize (H0 k Hk).
    rewrite Ha, Hb in H0. discriminate.
Qed.

(* two geoms may collide iff the contype of one shares a bit with the conaffinity of the other *)
Definition compatible (c1 a1 c2 a2 : Z) : Prop :=
  exists k, 0 <= k /\ ((Z.testbit c1 k = true /\ Z.testbit a2 k = true) \/
                       (Z.testbit c2 k = true /\ Z.testbit a1 k = true)).

Lemma filterBitmask_false c1 a1 c2 a2 :
  filterBitmask c1 a1 c2 a2 = false <-> compatible c1 a1 c2 a2.
Proof.
  unfold filterBitmask, compatible. rewrite andb_false_iff, !Z.eqb_neq, !land_nonzero_bits. split.
  - intros [(k & Hk & H) | (k & Hk & H)]; exists k; split; auto.
  - intros (k & Hk & [H | H]); [left | right]; exists k; split; auto.
Qed.

Lemma filterBitmask_true c1 a1 c2 a2 :
  filterBitmask c1 a1 c2 a2 = true <-> ~ compatible c1 a1 c2 a2.
Proof.
  rewrite <- filterBitmask_false. destruct (filterBitmask c1 a1 c2 a2); split; intro H; congruence.
Qed.

Lemma filterBitmask_sym c1 a1 c2 a2 : filterBitmask c1 a1 c2 a2 = filterBitmask c2 a2 c1 a1.
Proof. unfold filterBitmask. apply andb_comm. Qed.

(* the documented rule table of the body-pair filter *)
Definition bodypair_rule (w1 p1 s1 d1 w2 p2 s2 d2 dsbl : Z) : Prop :=
  w1 = w2 \/                                            (* same (welded) body *)
  (d1 = 0 /\ d2 = 0) \/                                 (* both without degrees of freedom *)
  (s1 <> 0 /\ s2 <> 0) \/                               (* both asleep *)
  (s1 <> 0 /\ w2 = 0) \/ (s2 <> 0 /\ w1 = 0) \/         (* asleep against world-static *)
  (dsbl = 0 /\ w1 <> 0 /\ w2 <> 0 /\ (w1 = p2 \/ w2 = p1)).   (* parent-child, unless disabled *)

Lemma filterBodyPair_rule w1 p1 s1 d1 w2 p2 s2 d2 dsbl :
  filterBodyPair w1 p1 s1 d1 w2 p2 s2 d2 dsbl = true <-> bodypair_rule w1 p1 s1 d1 w2 p2 s2 d2 dsbl.
Proof.
  unfold filterBodyPair, bodypair_rule, nz.
  destruct (Z.eqb_spec w1 w2); [intuition|].
  destruct (Z.eqb_spec d1 0); destruct (Z.eqb_spec d2 0); simpl; try solve [intuition];
  destruct (Z.eqb_spec s1 0); destruct (Z.eqb_spec s2 0); simpl; try solve [intuition];
  destruct (Z.eqb_spec w1 0); destruct (Z.eqb_spec w2 0); simpl; try solve [intuition];
  destruct (Z.eqb_spec dsbl 0); simpl; try solve [intuition];
  destruct (Z.eqb_spec w1 p2); destruct (Z.eqb_spec w2 p1); simpl; intuition (try lia; try discriminate).
Qed.

Lemma filterBodyPair_sym w1 p1 s1 d1 w2 p2 s2 d2 dsbl :
  filterBodyPair w1 p1 s1 d1 w2 p2 s2 d2 dsbl = filterBodyPair w2 p2 s2 d2 w1 p1 s1 d1 dsbl.
Proof.
  apply eq_true_iff_eq. rewrite !filterBodyPair_rule. unfold bodypair_rule. intuition.
Qed.

Lemma canCollide_spec ct ca : canCollide ct ca = true <-> (ct <> 0 \/ ca <> 0).
Proof.
  unfold canCollide, nz. destruct (Z.eqb_spec ct 0); destruct (Z.eqb_spec ca 0); simpl; intuition.
Qed.

Lemma filters_spec :
  (forall c1 a1 c2 a2, filterBitmask c1 a1 c2 a2 = true <-> ~ compatible c1 a1 c2 a2) /\
  (forall c1 a1 c2 a2, filterBitmask c1 a1 c2 a2 = filterBitmask c2 a2 c1 a1) /\
  (forall c1 a1 c2 a2, canCollide2 c1 a1 c2 a2 = negb (filterBitmask c1 a1 c2 a2)) /\
  (forall ct ca, canCollide ct ca = true <-> (ct <> 0 \/ ca <> 0)) /\
  (forall w1 p1 s1 d1 w2 p2 s2 d2 dsbl,
     filterBodyPair w1 p1 s1 d1 w2 p2 s2 d2 dsbl = true <-> bodypair_rule w1 p1 s1 d1 w2 p2 s2 d2 dsbl) /\
  (forall w1 p1 s1 d1 w2 p2 s2 d2 dsbl,
     filterBodyPair w1 p1 s1 d1 w2 p2 s2 d2 dsbl = filterBodyPair w2 p2 s2 d2 w1 p1 s1 d1 dsbl).
Proof.
  repeat split; intros.
  - apply filterBitmask_true; assumption.
  - apply filterBitmask_true; assumption.
  - apply filterBitmask_sym.
  - apply canCollide_spec; assumption.
  - apply canCollide_spec; assumption.
  - apply filterBodyPair_rule; assumption.
  - apply filterBodyPair_rule; assumption.
  - apply filterBodyPair_sym.
Qed.

(* ---------- body-level OR masks never reject a body pair with a compatible geom pair *)
Lemma fold_lor_bit (f : Z * Z -> Z) (gs : list (Z * Z)) : forall acc k, 0 <= k ->
  Z.testbit (fold_left (fun a g => Z.lor a (f g)) gs acc) k = true <->
  (Z.testbit acc k = true \/ exists g, In g gs /\ Z.testbit (f g) k = true).
Proof.
  induction gs as [|g r IH]; intros acc k Hk; simpl.
  - split; [auto | intros [H | (g & [] & _)]; exact H].
  - rewrite IH by assumption. rewrite Z.lor_spec, orb_true_iff. split.
    + intros [[H | H] | (g' & Hin & H)]; [left; exact H | right; exists g; auto | right; exists g'; auto].
    + intros [H | (g' & [E | Hin] & H)]; [left; left; exact H | subst; left; right; exact H | right; exists g'; auto].
Qed.

Lemma or_types_bit gs k : 0 <= k ->
  Z.testbit (or_types gs) k = true <-> exists g, In g gs /\ Z.testbit (fst g) k = true.
Proof.
  intro Hk. unfold or_types. rewrite (fold_lor_bit fst gs 0 k Hk), Z.bits_0. split.
  - intros [H | H]; [discriminate | exact H].
  - intro H; right; exact H.
Qed.

Lemma or_affs_bit gs k : 0 <= k ->
  Z.testbit (or_affs gs) k = true <-> exists g, In g gs /\ Z.testbit (snd g) k = true.
Proof.
  intro Hk. unfold or_affs. rewrite (fold_lor_bit snd gs 0 k Hk), Z.bits_0. split.
  - intros [H | H]; [discriminate | exact H].
  - intro H; right; exact H.
Qed.

Lemma bodymask_complete gs1 gs2 g1 g2 :
  In g1 gs1 -> In g2 gs2 ->
  filterBitmask (fst g1) (snd g1) (fst g2) (snd g2) = false ->
  filterBitmask (or_types gs1) (or_affs gs1) (or_types gs2) (or_affs gs2) = false.
Proof.
  intros H1 H2. rewrite !filterBitmask_false. intros (k & Hk & [[Ha Hb] | [Ha Hb]]); exists k; split; try assumption.
  - left. split; [apply or_types_bit | apply or_affs_bit]; try assumption; eauto.
  - right. split; [apply or_types_bit | apply or_affs_bit]; try assumption; eauto.
Qed.

(* and conversely the body-level test only passes when some geom pair is compatible *)
Lemma bodymask_sound gs1 gs2 :
  filterBitmask (or_types gs1) (or_affs gs1) (or_types gs2) (or_affs gs2) = false ->
  exists g1 g2, In g1 gs1 /\ In g2 gs2 /\
    (Z.land (fst g1) (snd g2) <> 0 \/ Z.land (fst g2) (snd g1) <> 0).
Proof.
  rewrite filterBitmask_false. intros (k & Hk & [[Ha Hb] | [Ha Hb]]).
  - apply or_types_bit in Ha; [|assumption]. apply or_affs_bit in Hb; [|assumption].
    destruct Ha as (g1 & I1 & B1). destruct Hb as (g2 & I2 & B2).
    exists g1, g2. repeat split; try assumption. left. apply land_nonzero_bits. exists k; auto.
  - apply or_types_bit in Ha; [|assumption]. apply or_affs_bit in Hb; [|assumption].
    destruct Ha as (g2 & I2 & B2). destruct Hb as (g1 & I1 & B1).
    exists g1, g2. repeat split; try assumption. right. apply land_nonzero_bits. exists k; auto.
Qed.

(* ================================================================== lists: relative order *)
Section Precedes.
Context {A : Type}.

(* x occurs, and y occurs somewhere after that occurrence *)
Definition precedes (l : list A) (x y : A) : Prop := exists l1 l2, l = l1 ++ x :: l2 /\ In y l2.

Lemma precedes_in l x y : precedes l x y -> In x l /\ In y l.
Proof.
  intros (l1 & l2 & E & H). subst. split; apply in_or_app; right; [left; reflexivity | right; exact H].
Qed.

Lemma precedes_total l x y : In x l -> In y l -> x <> y -> precedes l x y \/ precedes l y x.
Proof.
  intros Hx Hy Hne. destruct (in_split _ _ Hx) as (l1 & l2 & E). subst.
  apply in_app_or in Hy. destruct Hy as [Hy | [Hy | Hy]].
  - right. destruct (in_split _ _ Hy) as (m1 & m2 & E). subst.
    exists m1, (m2 ++ x :: l2). split; [rewrite <- app_assoc; reflexivity|].
    apply in_or_app. right. left. reflexivity.
  - congruence.
  - left. exists l1, l2. auto.
Qed.

Lemma precedes_sorted (R : A -> A -> Prop) l x y : StronglySorted R l -> precedes l x y -> R x y.
Proof.
  intros HS (l1 & l2 & E & Hy). subst. induction l1 as [|a r IH]; simpl in HS.
  - apply StronglySorted_inv in HS. destruct HS as [_ HF]. rewrite Forall_forall in HF. apply HF; assumption.
  - apply StronglySorted_inv in HS. apply IH. tauto.
Qed.

Lemma precedes_filter (p : A -> bool) l x y :
  precedes l x y -> p x = true -> p y = true -> precedes (filter p l) x y.
Proof.
  intros (l1 & l2 & E & Hy) Hx Hpy. subst. exists (filter p l1), (filter p l2). split.
  - rewrite filter_app. simpl. rewrite Hx. reflexivity.
  - apply filter_In. auto.
Qed.

Lemma precedes_prefix l x y l' : precedes l x y -> precedes (l ++ l') x y.
Proof.
  intros (l1 & l2 & E & Hy). subst. exists l1, (l2 ++ l'). split.
  - rewrite <- app_assoc. reflexivity.
  - apply in_or_app; auto.
Qed.

Lemma precedes_antisym l x y : NoDup l -> precedes l x y -> precedes l y x -> False.
Proof.
  intros ND (l1 & l2 & E & Hy) (m1 & m2 & E2 & Hx). subst.
  revert m1 E2 ND. induction l1 as [|a r IH]; intros m1 E2 ND; simpl in *.
  - destruct m1 as [|b m1]; simpl in E2; injection E2 as E1 E2.
    + subst. inversion ND; subst. contradiction.
    + subst. inversion ND as [|? ? Hn _]; subst. apply Hn. apply in_or_app. right. right. assumption.
  - destruct m1 as [|b m1]; simpl in E2; injection E2 as E1 E2.
    + subst. inversion ND as [|? ? Hn _]; subst. apply Hn. apply in_or_app. right. right. assumption.
    + subst. inversion ND; subst. eapply IH; eauto.
Qed.

Lemma precedes_not_eq l x : NoDup l -> precedes l x x -> False.
Proof.
  intros ND (l1 & l2 & E & Hy). subst. apply NoDup_remove_2 in ND. apply ND. apply in_or_app; auto.
Qed.

End Precedes.

Lemma precedes_map {A B} (f : A -> B) l x y : precedes l x y -> precedes (map f l) (f x) (f y).
Proof.
  intros (l1 & l2 & E & Hy). subst. exists (map f l1), (map f l2). split.
  - rewrite map_app. reflexivity.
  - apply in_map; assumption.
Qed.

(* order lifted through an injective projection *)
Lemma precedes_antisym_map {A B} (f : A -> B) l x y :
  NoDup (map f l) -> precedes l x y -> precedes l y x -> False.
Proof.
  intros ND H1 H2. apply (@precedes_antisym B (map f l) (f x) (f y) ND); apply precedes_map; assumption.
Qed.

Lemma precedes_map_inv {A B} (f : A -> B) l u v :
  precedes (map f l) u v -> exists x y, f x = u /\ f y = v /\ precedes l x y.
Proof.
  intros (m1 & m2 & E & Hv).
  apply map_eq_app in E. destruct E as (l1 & l2' & E & E1 & E2). subst.
  apply map_eq_cons in E2. destruct E2 as (x & l2 & E & Ex & E2). subst.
  apply in_map_iff in Hv. destruct Hv as (y & Ey & Hy).
  exists x, y. repeat split; try assumption. exists l1, l2. auto.
Qed.

Lemma NoDup_snoc {A} (l : list A) x : NoDup l -> ~ In x l -> NoDup (l ++ [x]).
Proof.
  induction l as [|a r IH]; simpl; intros ND Hn.
  - constructor; [intros [] | constructor].
  - inversion ND; subst. constructor.
    + intro Hin. apply in_app_or in Hin. destruct Hin as [Hin | [E | []]]; [contradiction|].
      subst. apply Hn. left. reflexivity.
    + apply IH; [assumption|]. intro Hin. apply Hn. right. exact Hin.
Qed.

Lemma NoDup_app_intro {A} (l1 l2 : list A) :
  NoDup l1 -> NoDup l2 -> (forall x, In x l1 -> ~ In x l2) -> NoDup (l1 ++ l2).
Proof.
  induction l1 as [|a r IH]; simpl; intros N1 N2 Hd; [assumption|].
  inversion N1; subst. constructor.
  - intro Hin. apply in_app_or in Hin. destruct Hin as [Hin | Hin]; [contradiction|].
    apply (Hd a); [left; reflexivity | assumption].
  - apply IH; [assumption | assumption|]. intros x Hx. apply Hd. right. exact Hx.
Qed.

(* ================================================================== sweep and prune *)
Section SAPProof.
Variable K : Type.
Variable kcmp : K -> K -> Z.
Variable rnd : K -> K.
Hypothesis kcmp_anti : forall a b, kcmp a b < 0 <-> 0 < kcmp b a.
Hypothesis kcmp_trans : forall a b c, kcmp a b <= 0 -> kcmp b c <= 0 -> kcmp a c <= 0.

Notation kle a b := (kcmp a b <= 0).
Notation klt a b := (kcmp a b < 0).
Notation entry := (entry K).
Notation box := (box K).
Notation ecmp := (ecmp K kcmp).

Lemma kcmp_zero_sym a b : kcmp a b = 0 -> kcmp b a = 0.
Proof.
  intro E. destruct (Z.lt_trichotomy (kcmp b a) 0) as [L | [L | L]]; [|exact L|].
  - apply kcmp_anti in L. lia.
  - assert (L' : kcmp a b < 0) by (apply kcmp_anti; exact L). lia.
Qed.

Lemma ecmp_cases (a b : entry) :
  (kcmp (fst a) (fst b) < 0 /\ ecmp a b = -1) \/
  (kcmp (fst a) (fst b) = 0 /\ ecmp a b = b2z (snd (snd a)) - b2z (snd (snd b))) \/
  (0 < kcmp (fst a) (fst b) /\ ecmp a b = 1).
Proof.
  unfold Broadphase.ecmp. destruct (Z.ltb_spec (kcmp (fst a) (fst b)) 0); [left; auto|].
  destruct (Z.eqb_spec (kcmp (fst a) (fst b)) 0); [right; left; auto | right; right; split; [lia | reflexivity]].
Qed.

Lemma ecmp_le_kle (a b : entry) : ecmp a b <= 0 -> kle (fst a) (fst b).
Proof. destruct (ecmp_cases a b) as [[H E] | [[H E] | [H E]]]; lia. Qed.

Lemma ecmp_total : forall a b : entry, 0 < ecmp a b -> ecmp b a <= 0.
Proof.
  intros a b H.
  destruct (ecmp_cases a b) as [[H1 E1] | [[H1 E1] | [H1 E1]]]; destruct (ecmp_cases b a) as [[H2 E2] | [[H2 E2] | [H2 E2]]];
    try lia.
  - apply kcmp_zero_sym in H1. lia.
  - apply kcmp_zero_sym in H2. lia.
  - apply kcmp_anti in H2. lia.
Qed.

Lemma ecmp_trans : forall a b c : entry, ecmp a b <= 0 -> ecmp b c <= 0 -> ecmp a c <= 0.
Proof.
  intros a b c H1 H2.
  pose proof (kcmp_trans _ _ _ (ecmp_le_kle _ _ H1) (ecmp_le_kle _ _ H2)) as Hac.
  destruct (ecmp_cases a c) as [[H3 E3] | [[H3 E3] | [H3 E3]]]; [lia | | lia].
  (* a and c have equal values: b is squeezed between them *)
  assert (Hca : kle (fst c) (fst a)) by (apply kcmp_zero_sym in H3; lia).
  assert (Hba : kle (fst b) (fst a)) by (exact (kcmp_trans _ _ _ (ecmp_le_kle _ _ H2) Hca)).
  assert (Hcb : kle (fst c) (fst b)) by (exact (kcmp_trans _ _ _ Hca (ecmp_le_kle _ _ H1))).
  assert (Eab : kcmp (fst a) (fst b) = 0).
  { destruct (Z.lt_trichotomy (kcmp (fst a) (fst b)) 0) as [L | [L | L]]; [|exact L|].
    - apply kcmp_anti in L. lia.
    - pose proof (ecmp_le_kle _ _ H1). lia. }
  assert (Ebc : kcmp (fst b) (fst c) = 0).
  { destruct (Z.lt_trichotomy (kcmp (fst b) (fst c)) 0) as [L | [L | L]]; [|exact L|].
    - apply kcmp_anti in L. lia.
    - pose proof (ecmp_le_kle _ _ H2). lia. }
  destruct (ecmp_cases a b) as [[H4 E4] | [[H4 E4] | [H4 E4]]]; try lia.
  destruct (ecmp_cases b c) as [[H5 E5] | [[H5 E5] | [H5 E5]]]; try lia.
Qed.

Lemma kle_lt_false a b : kle a b -> klt b a -> False.
Proof. intros H1 H2. apply kcmp_anti in H2. lia. Qed.

(* ---------- the active list *)
Fixpoint run_act (act : list nat) (s : list tag) : list nat :=
  match s with
  | [] => act
  | (i, false) :: r => run_act (act ++ [i]) r
  | (i, true) :: r => run_act (remove1 i act) r
  end.

Lemma remove1_in x a l : In a (remove1 x l) -> In a l.
Proof.
  induction l as [|y r IH]; simpl; [auto|]. destruct (Nat.eqb_spec y x); simpl; intuition.
Qed.

Lemma remove1_NoDup x l : NoDup l -> NoDup (remove1 x l).
Proof.
  induction l as [|y r IH]; simpl; intro H; [constructor|].
  inversion H; subst. destruct (Nat.eqb_spec y x); [assumption|].
  constructor; [|auto]. intro Hin. apply remove1_in in Hin. contradiction.
Qed.

Lemma remove1_in_iff x a l : NoDup l -> (In a (remove1 x l) <-> In a l /\ a <> x).
Proof.
  induction l as [|y r IH]; simpl; intro H; [tauto|].
  inversion H; subst. destruct (Nat.eqb_spec y x).
  - subst. split.
    + intro Hin. split; [auto|]. intro; subst; contradiction.
    + intros [[E | Hin] Hne]; [congruence | assumption].
  - simpl. rewrite (IH H3). split.
    + intros [E | [Hin Hne]]; [subst; auto | auto].
    + intros [[E | Hin] Hne]; [auto | auto].
Qed.

Lemma remove1_length x l : (length (remove1 x l) <= length l)%nat.
Proof. induction l as [|y r IH]; simpl; [lia|]. destruct (Nat.eqb y x); simpl; lia. Qed.

(* emission: (a, b) is emitted at the min entry of b for every active a that survives the pruning *)
Lemma sweep_in keep : forall s act a b,
  In (a, b) (sweep keep act s) <->
  exists s1 s2, s = s1 ++ (b, false) :: s2 /\ In a (run_act act s1) /\ keep a b = true.
Proof.
  induction s as [|[i m] r IH]; intros act a b; simpl.
  - split; [tauto|]. intros (s1 & s2 & E & _). destruct s1; discriminate.
  - destruct m.
    + rewrite IH. split.
      * intros (s1 & s2 & E & Ha & Hk). exists ((i, true) :: s1), s2. subst. simpl. auto.
      * intros (s1 & s2 & E & Ha & Hk). destruct s1 as [|t s1]; simpl in E; injection E as E1 E2; [discriminate|].
        subst. simpl in Ha. exists s1, s2. auto.
    + rewrite in_app_iff, in_map_iff, IH. split.
      * intros [(a' & E & Hf) | (s1 & s2 & E & Ha & Hk)].
        -- injection E as E1 E2. subst. apply filter_In in Hf. exists [], r. simpl. tauto.
        -- exists ((i, false) :: s1), s2. subst. simpl. auto.
      * intros (s1 & s2 & E & Ha & Hk). destruct s1 as [|t s1]; simpl in E; injection E as E1 E2.
        -- subst. left. exists a. split; [reflexivity|]. apply filter_In. simpl in Ha. auto.
        -- subst. right. simpl in Ha. exists s1, s2. auto.
Qed.

(* well-bracketed tag lists: every max entry is preceded by the min entry of the same id *)
Definition bracketed (act : list nat) (s : list tag) : Prop :=
  forall s1 s2 a, s = s1 ++ (a, true) :: s2 -> In a act \/ In (a, false) s1.

Lemma run_act_spec : forall s act,
  NoDup act -> NoDup s -> (forall a, In a act -> ~ In (a, false) s) -> bracketed act s ->
  NoDup (run_act act s) /\
  forall a, In a (run_act act s) <-> (In a act \/ In (a, false) s) /\ ~ In (a, true) s.
Proof.
  induction s as [|[i m] r IH]; intros act NDa NDs Hdis Hbr; simpl.
  - split; [assumption|]. intro a. tauto.
  - apply NoDup_cons_iff in NDs. destruct NDs as [Hni NDr]. destruct m.
    + (* max entry *)
      assert (Hi : In i act).
      { destruct (Hbr [] r i eq_refl) as [H | []]. exact H. }
      destruct (IH (remove1 i act)) as (ND' & Hspec).
      * apply remove1_NoDup; assumption.
      * assumption.
      * intros a Ha Hin. apply remove1_in in Ha. apply (Hdis a Ha). right. exact Hin.
      * intros s1 s2 a E. subst r.
        destruct (Hbr ((i, true) :: s1) s2 a eq_refl) as [H | [H | H]].
        -- left. apply remove1_in_iff; [assumption|]. split; [assumption|].
           intro E; subst a. apply Hni. apply in_or_app. right. left. reflexivity.
        -- discriminate.
        -- right. exact H.
      * split; [assumption|]. intro a. rewrite Hspec, (remove1_in_iff i a act NDa). split.
        -- intros [[[Ha Hne] | Hin] Hn]; (split; [auto|]); intros [E | H]; try contradiction; injection E as E; subst a.
           ++ congruence.
           ++ apply (Hdis i Hi). right. exact Hin.
        -- intros [[Ha | [E | Hin]] Hn]; try discriminate.
           ++ split; [|tauto]. left. split; [assumption|]. intro E; subst a. apply Hn. left. reflexivity.
           ++ split; [|tauto]. right. exact Hin.
    + (* min entry *)
      assert (Hi : ~ In i act). { intro H. apply (Hdis i H). left. reflexivity. }
      destruct (IH (act ++ [i])) as (ND' & Hspec).
      * apply NoDup_snoc; assumption.
      * assumption.
      * intros a Ha Hin. apply in_app_or in Ha. destruct Ha as [Ha | [E | []]].
        -- apply (Hdis a Ha). right. exact Hin.
        -- subst. contradiction.
      * intros s1 s2 a E. subst r.
        destruct (Hbr ((i, false) :: s1) s2 a eq_refl) as [H | [H | H]].
        -- left. apply in_or_app. auto.
        -- injection H as H; subst. left. apply in_or_app. right. left. reflexivity.
        -- right. exact H.
      * split; [assumption|]. intro a. rewrite Hspec, in_app_iff. simpl. split.
        -- intros [[[Ha | [E | []]] | Hin] Hn].
           ++ split; [auto|]. intros [E | H]; [discriminate | contradiction].
           ++ subst. split; [auto|]. intros [E | H]; [discriminate | contradiction].
           ++ split; [auto|]. intros [E | H]; [discriminate | contradiction].
        -- intros [[Ha | [E | Hin]] Hn].
           ++ split; [auto | tauto].
           ++ injection E as E; subst. split; [auto | tauto].
           ++ split; [auto | tauto].
Qed.

Lemma bracketed_prefix s1 s2 : bracketed [] (s1 ++ s2) -> bracketed [] s1.
Proof.
  intros H t1 t2 a E. subst. apply (H t1 (t2 ++ s2) a). rewrite <- app_assoc. reflexivity.
Qed.

Lemma NoDup_app_l {A} (l1 l2 : list A) : NoDup (l1 ++ l2) -> NoDup l1.
Proof.
  induction l1 as [|a r IH]; simpl; intro H; [constructor|].
  inversion H; subst. constructor; [|auto]. intro Hin. apply H2. apply in_or_app; auto.
Qed.

(* emitted pairs of a well-bracketed duplicate-free tag list *)
Lemma sweep_spec keep s a b : NoDup s -> bracketed [] s ->
  (In (a, b) (sweep keep [] s) <->
   exists s1 s2, s = s1 ++ (b, false) :: s2 /\ In (a, false) s1 /\ ~ In (a, true) s1 /\ keep a b = true).
Proof.
  intros ND Hbr. rewrite sweep_in. split.
  - intros (s1 & s2 & E & Ha & Hk). exists s1, s2. split; [assumption|].
    subst s. destruct (run_act_spec s1 []) as (_ & Hs).
    + constructor.
    + eapply NoDup_app_l; eassumption.
    + intros ? [].
    + eapply bracketed_prefix; eassumption.
    + apply Hs in Ha. destruct Ha as [[[] | Ha] Hn]. auto.
  - intros (s1 & s2 & E & Ha & Hn & Hk). exists s1, s2. split; [assumption|]. split; [|assumption].
    subst s. destruct (run_act_spec s1 []) as (_ & Hs).
    + constructor.
    + eapply NoDup_app_l; eassumption.
    + intros ? [].
    + eapply bracketed_prefix; eassumption.
    + apply Hs. auto.
Qed.

(* every emitted pair has its second component's min entry in the list *)
Lemma sweep_snd keep s : forall act a b, In (a, b) (sweep keep act s) -> In (b, false) s.
Proof.
  intros act a b H. apply sweep_in in H. destruct H as (s1 & s2 & E & _). subst.
  apply in_or_app. right. left. reflexivity.
Qed.


Lemma sweep_NoDup keep : forall s act,
  NoDup act -> NoDup s -> (forall a, In a act -> ~ In (a, false) s) -> NoDup (sweep keep act s).
Proof.
  induction s as [|[i m] r IH]; intros act NDa NDs Hdis; simpl; [constructor|].
  apply NoDup_cons_iff in NDs. destruct NDs as [Hni NDr]. destruct m.
  - apply IH; [apply remove1_NoDup; assumption | assumption|].
    intros a Ha Hin. apply remove1_in in Ha. apply (Hdis a Ha). right. exact Hin.
  - assert (Hi : ~ In i act). { intro H. apply (Hdis i H). left. reflexivity. }
    apply NoDup_app_intro.
    + apply FinFun.Injective_map_NoDup; [intros x y E; injection E; auto | apply NoDup_filter; assumption].
    + apply IH; [apply NoDup_snoc; assumption | assumption|].
      intros a Ha Hin. apply in_app_or in Ha. destruct Ha as [Ha | [E | []]].
      * apply (Hdis a Ha). right. exact Hin.
      * subst a. contradiction.
    + intros [a b] H1 H2. apply in_map_iff in H1. destruct H1 as (a' & E & _). injection E as E1 E2. subst.
      apply sweep_snd in H2. contradiction.
Qed.

Lemma perm_filter_length {A} (p : A -> bool) l l' : Permutation l l' -> length (filter p l) = length (filter p l').
Proof.
  induction 1; simpl; try congruence.
  - destruct (p x); simpl; congruence.
  - destruct (p x), (p y); reflexivity.
Qed.

Lemma filter_len_le {A} (p : A -> bool) l : (length (filter p l) <= length l)%nat.
Proof. induction l as [|a r IH]; simpl; [lia|]. destruct (p a); simpl; lia. Qed.

(* size: with m min entries and an active list of length a, at most a*m + m(m-1)/2 pairs *)
Definition nmin (s : list tag) : nat := length (filter (fun t => negb (snd t)) s).

Lemma sweep_length keep : forall s act,
  2 * Z.of_nat (length (sweep keep act s)) <=
  2 * Z.of_nat (length act) * Z.of_nat (nmin s) + Z.of_nat (nmin s) * Z.of_nat (nmin s) - Z.of_nat (nmin s).
Proof.
  induction s as [|[i m] r IH]; intros act; unfold nmin in *; cbn -[Z.mul Z.of_nat Z.add Z.sub]; [lia|].
  destruct m; cbn -[Z.mul Z.of_nat Z.add Z.sub].
  - specialize (IH (remove1 i act)). pose proof (remove1_length i act) as H.
    apply Nat2Z.inj_le in H.
    pose proof (Nat2Z.is_nonneg (length (remove1 i act))). pose proof (Nat2Z.is_nonneg (length act)).
    pose proof (Nat2Z.is_nonneg (length (filter (fun t : tag => negb (snd t)) r))).
    nia.
  - specialize (IH (act ++ [i])). rewrite app_length, map_length. rewrite app_length in IH. cbn -[Z.mul Z.of_nat Z.add Z.sub] in IH.
    pose proof (filter_len_le (fun a => keep a i) act) as H. apply Nat2Z.inj_le in H.
    pose proof (Nat2Z.is_nonneg (length act)).
    pose proof (Nat2Z.is_nonneg (length (filter (fun t : tag => negb (snd t)) r))).
    rewrite !Nat2Z.inj_add, ?Nat2Z.inj_succ in *. change (Z.of_nat 1) with 1 in *. nia.
Qed.

(* ---------- the initial entry list *)
Variable axis : Z.

Definition emin (i : nat) (b : box) : entry := (rnd (bmin K axis b), (i, false)).
Definition emax (i : nat) (b : box) : entry := (rnd (bmax K axis b), (i, true)).

Lemma init_in : forall bs k e,
  In e (init_entries K rnd axis k bs) <->
  exists i b, nth_error bs i = Some b /\ (e = emin (k + i) b \/ e = emax (k + i) b).
Proof.
  induction bs as [|b0 r IH]; intros k e; simpl.
  - split; [tauto|]. intros (i & b & H & _). destruct i; discriminate.
  - rewrite IH. split.
    + intros [E | [E | (i & b & Hn & H)]].
      * exists 0%nat, b0. rewrite Nat.add_0_r. unfold emin. simpl. auto.
      * exists 0%nat, b0. rewrite Nat.add_0_r. unfold emax. simpl. auto.
      * exists (S i), b. rewrite Nat.add_succ_r. simpl. auto.
    + intros (i & b & Hn & H). destruct i as [|i]; simpl in Hn.
      * injection Hn as Hn; subst. rewrite Nat.add_0_r in H. unfold emin, emax in H. destruct H; auto.
      * right. right. exists i, b. rewrite Nat.add_succ_r in H. simpl. auto.
Qed.

Lemma init_tag_range bs : forall k t, In t (map snd (init_entries K rnd axis k bs)) ->
  (k <= fst t < k + length bs)%nat.
Proof.
  intros k t H. apply in_map_iff in H. destruct H as (e & E & H). apply init_in in H.
  destruct H as (i & b & Hn & H). assert (i < length bs)%nat by (apply nth_error_Some; congruence).
  destruct H; subst; simpl; lia.
Qed.

Lemma init_tags_NoDup : forall bs k, NoDup (map snd (init_entries K rnd axis k bs)).
Proof.
  induction bs as [|b0 r IH]; intros k; simpl; [constructor|].
  constructor; [|constructor].
  - intros [E | H]; [discriminate|]. apply init_tag_range in H. simpl in H. lia.
  - intro H. apply init_tag_range in H. simpl in H. lia.
  - apply IH.
Qed.

Lemma precedes_cons {A} (a : A) l x y : precedes l x y -> precedes (a :: l) x y.
Proof. intros (l1 & l2 & E & H). subst. exists (a :: l1), l2. auto. Qed.

Lemma init_precedes : forall bs k i b, nth_error bs i = Some b ->
  precedes (init_entries K rnd axis k bs) (emin (k + i) b) (emax (k + i) b).
Proof.
  induction bs as [|b0 r IH]; intros k i b Hn; [destruct i; discriminate|].
  destruct i as [|i]; simpl in Hn.
  - injection Hn as Hn; subst. rewrite Nat.add_0_r. simpl. exists [], (emax k b :: init_entries K rnd axis (S k) r).
    split; [reflexivity | left; reflexivity].
  - simpl. apply precedes_cons, precedes_cons. rewrite Nat.add_succ_r. apply (IH (S k) i b Hn).
Qed.

Lemma init_nmin : forall bs k, nmin (map snd (init_entries K rnd axis k bs)) = length bs.
Proof. induction bs as [|b0 r IH]; intros k; unfold nmin in *; simpl; [reflexivity|]. rewrite IH. reflexivity. Qed.

(* ---------- the sorted list *)
Variable bs : list box.
Hypothesis rnd_mono : forall a b, kle a b -> kle (rnd a) (rnd b).
Hypothesis boxes_wf : forall b, In b bs -> kle (bmin K axis b) (bmax K axis b).

Let E0 := init_entries K rnd axis 0 bs.
Let S := mjsort entry ecmp E0.
Let T := sorted_tags K kcmp rnd axis bs.

Lemma T_def : T = map snd S.
Proof. reflexivity. Qed.

Lemma S_sorted : StronglySorted (fun a b => ecmp a b <= 0) S.
Proof. destruct (mjsort_spec entry ecmp ecmp_total ecmp_trans E0) as (H & _). exact H. Qed.
Lemma S_perm : Permutation S E0.
Proof. destruct (mjsort_spec entry ecmp ecmp_total ecmp_trans E0) as (_ & H & _). exact H. Qed.
Lemma S_stable z : filter (eqv entry ecmp z) S = filter (eqv entry ecmp z) E0.
Proof. destruct (mjsort_spec entry ecmp ecmp_total ecmp_trans E0) as (_ & _ & H). apply H. Qed.

Lemma S_in e : In e S <-> In e E0.
Proof. split; apply Permutation_in; [exact S_perm | apply Permutation_sym; exact S_perm]. Qed.

Lemma T_NoDup : NoDup T.
Proof.
  rewrite T_def. apply (Permutation_NoDup (l := map snd E0)).
  - apply Permutation_sym, Permutation_map, S_perm.
  - apply init_tags_NoDup.
Qed.

Lemma E0_in e : In e E0 <-> exists i b, nth_error bs i = Some b /\ (e = emin i b \/ e = emax i b).
Proof. unfold E0. rewrite init_in. simpl. tauto. Qed.

Lemma E0_emin i b : nth_error bs i = Some b -> In (emin i b) E0.
Proof. intro H. apply E0_in. eauto. Qed.
Lemma E0_emax i b : nth_error bs i = Some b -> In (emax i b) E0.
Proof. intro H. apply E0_in. eauto. Qed.

(* the tag determines the entry *)
Lemma E0_tag v i m : In (v, (i, m)) E0 ->
  exists b, nth_error bs i = Some b /\ v = rnd (if m then bmax K axis b else bmin K axis b).
Proof.
  intro H. apply E0_in in H. destruct H as (j & b & Hn & [E | E]); unfold emin, emax in E;
  injection E as E1 E2 E3; subst; exists b; auto.
Qed.

Lemma T_in i m : In (i, m) T <-> exists b, nth_error bs i = Some b.
Proof.
  rewrite T_def, in_map_iff. split.
  - intros ([v t] & E & H). simpl in E. subst t. apply S_in, E0_tag in H. destruct H as (b & H & _). eauto.
  - intros (b & H). destruct m.
    + exists (emax i b). split; [reflexivity | apply S_in, E0_emax, H].
    + exists (emin i b). split; [reflexivity | apply S_in, E0_emin, H].
Qed.

(* order in T implies order of the entries under SAPcmp, hence of the values *)
Lemma T_precedes_ecmp t1 t2 v1 v2 :
  In (v1, t1) E0 -> In (v2, t2) E0 -> precedes T t1 t2 -> ecmp (v1, t1) (v2, t2) <= 0.
Proof.
  intros H1 H2 HP. rewrite T_def in HP. apply precedes_map_inv in HP.
  destruct HP as ([x1 u1] & [x2 u2] & E1 & E2 & HP). simpl in E1, E2. subst u1 u2.
  destruct (precedes_in _ _ _ HP) as (I1 & I2). apply S_in in I1. apply S_in in I2.
  pose proof (precedes_sorted _ _ _ _ S_sorted HP) as Hle.
  destruct t1 as [i1 m1], t2 as [i2 m2].
  destruct (E0_tag _ _ _ H1) as (b1 & N1 & V1). destruct (E0_tag _ _ _ I1) as (b1' & N1' & V1').
  destruct (E0_tag _ _ _ H2) as (b2 & N2 & V2). destruct (E0_tag _ _ _ I2) as (b2' & N2' & V2').
  assert (b1' = b1) by congruence. assert (b2' = b2) by congruence. subst. exact Hle.
Qed.

Lemma T_precedes_le t1 t2 v1 v2 :
  In (v1, t1) E0 -> In (v2, t2) E0 -> precedes T t1 t2 -> kle v1 v2.
Proof. intros H1 H2 HP. exact (ecmp_le_kle _ _ (T_precedes_ecmp _ _ _ _ H1 H2 HP)). Qed.

Lemma klt_irrefl v : klt v v -> False.
Proof. intro H. pose proof H as H'. apply kcmp_anti in H'. lia. Qed.

(* strictly smaller value implies earlier in T *)
Lemma T_lt_precedes t1 t2 v1 v2 :
  In (v1, t1) E0 -> In (v2, t2) E0 -> klt v1 v2 -> precedes T t1 t2.
Proof.
  intros H1 H2 Hlt.
  assert (Hne : (v1, t1) <> (v2, t2)).
  { intro E. injection E as E1 E2. subst. exact (klt_irrefl _ Hlt). }
  destruct (precedes_total S (v1, t1) (v2, t2)) as [HP | HP]; try (apply S_in; assumption); try assumption.
  - rewrite T_def. apply (precedes_map snd) in HP. exact HP.
  - exfalso. pose proof (precedes_sorted _ _ _ _ S_sorted HP) as Hle. apply ecmp_le_kle in Hle. simpl in Hle.
    exact (kle_lt_false _ _ Hle Hlt).
Qed.

Lemma NoDup_map_filter {A B} (f : A -> B) (p : A -> bool) l : NoDup (map f l) -> NoDup (map f (filter p l)).
Proof.
  induction l as [|a r IH]; simpl; intro H; [constructor|].
  inversion H; subst. destruct (p a); simpl; [|auto]. constructor; [|auto].
  intro Hin. apply H2. apply in_map_iff in Hin. destruct Hin as (x & E & Hx). apply filter_In in Hx.
  apply in_map_iff. exists x. tauto.
Qed.

(* the min entry of a box precedes its max entry: by order of the values, or by the tie-break of SAPcmp *)
Lemma T_min_before_max i b : nth_error bs i = Some b -> precedes T (i, false) (i, true).
Proof.
  intro Hn. rewrite T_def.
  assert (Hle : kle (rnd (bmin K axis b)) (rnd (bmax K axis b))).
  { apply rnd_mono, boxes_wf. eapply nth_error_In; eassumption. }
  assert (Hne : emin i b <> emax i b) by (unfold emin, emax; intro E; discriminate).
  assert (I1 : In (emin i b) S) by (apply S_in, E0_emin; assumption).
  assert (I2 : In (emax i b) S) by (apply S_in, E0_emax; assumption).
  destruct (precedes_total S (emin i b) (emax i b) I1 I2 Hne) as [HP | HP].
  - apply (precedes_map snd) in HP. exact HP.
  - exfalso. pose proof (precedes_sorted _ _ _ _ S_sorted HP) as Hge. cbv beta in Hge.
    destruct (ecmp_cases (emax i b) (emin i b)) as [[H E] | [[H E] | [H E]]]; unfold emin, emax in H; simpl in H.
    + apply kcmp_anti in H. lia.
    + rewrite E in Hge. unfold emin, emax in Hge. simpl in Hge. lia.
    + rewrite E in Hge. lia.
Qed.

(* non-strict overlap: the start of b is swept before the end of a *)
Lemma T_min_before_other_max a b ba bb : nth_error bs a = Some ba -> nth_error bs b = Some bb ->
  kle (rnd (bmin K axis bb)) (rnd (bmax K axis ba)) -> precedes T (b, false) (a, true).
Proof.
  intros Na Nb Hle.
  assert (Ia : In (a, true) T) by (apply T_in; eauto).
  assert (Ib : In (b, false) T) by (apply T_in; eauto).
  destruct (precedes_total T (b, false) (a, true) Ib Ia) as [HP | HP]; [discriminate | exact HP|].
  exfalso. pose proof (T_precedes_ecmp _ _ _ _ (E0_emax a ba Na) (E0_emin b bb Nb) HP) as Hge.
  match type of Hge with (Broadphase.ecmp _ _ ?x ?y <= 0) => destruct (ecmp_cases x y) as [[H E] | [[H E] | [H E]]] end; simpl in H.
  - apply kcmp_anti in H. lia.
  - rewrite E in Hge. simpl in Hge. lia.
  - rewrite E in Hge. lia.
Qed.

Lemma T_bracketed : bracketed [] T.
Proof.
  intros s1 s2 a E. right.
  assert (Ha : In (a, true) T) by (rewrite E; apply in_or_app; right; left; reflexivity).
  apply T_in in Ha. destruct Ha as (b & Hn).
  pose proof (T_min_before_max a b Hn) as HP.
  assert (Hf : In (a, false) T) by (apply T_in; eauto).
  rewrite E in Hf. apply in_app_or in Hf. destruct Hf as [Hf | [Hf | Hf]]; [exact Hf | discriminate|].
  exfalso. apply (precedes_antisym T (a, false) (a, true) T_NoDup HP).
  exists s1, s2. auto.
Qed.

Notation keep := (keep_of K kcmp axis bs).

(* characterisation of the emitted pairs *)
Lemma sap_in d a b :
  In (a, b) (sap K kcmp rnd axis bs d) <->
  exists s1 s2, T = s1 ++ (b, false) :: s2 /\ In (a, false) s1 /\ ~ In (a, true) s1 /\ keep d a b = true.
Proof. unfold sap. apply sweep_spec; [exact T_NoDup | exact T_bracketed]. Qed.

Lemma sap_precedes d a b : In (a, b) (sap K kcmp rnd axis bs d) ->
  precedes T (a, false) (b, false) /\ precedes T (b, false) (a, true) /\ keep d a b = true.
Proof.
  intro H. apply sap_in in H. destruct H as (s1 & s2 & E & Ha & Hn & Hk). repeat split; [| |exact Hk].
  - destruct (in_split _ _ Ha) as (l1 & l2 & E1). subst s1. exists l1, (l2 ++ (b, false) :: s2). split.
    + rewrite E, <- app_assoc. reflexivity.
    + apply in_or_app. right. left. reflexivity.
  - exists s1, s2. split; [exact E|].
    assert (Hm : In (a, true) T).
    { apply T_in. assert (Hf : In (a, false) T) by (rewrite E; apply in_or_app; auto).
      apply T_in in Hf. exact Hf. }
    rewrite E in Hm. apply in_app_or in Hm. destruct Hm as [Hm | [Hm | Hm]]; [contradiction | discriminate | exact Hm].
Qed.

Lemma sap_emit d a b ba bb :
  nth_error bs a = Some ba -> nth_error bs b = Some bb ->
  precedes T (a, false) (b, false) -> kle (rnd (bmin K axis bb)) (rnd (bmax K axis ba)) -> keep d a b = true ->
  In (a, b) (sap K kcmp rnd axis bs d).
Proof.
  intros Na Nb (l1 & l2 & E & Hb) Hle Hk. apply sap_in.
  destruct (in_split _ _ Hb) as (m1 & m2 & E2). subst l2.
  exists (l1 ++ (a, false) :: m1), m2. repeat split.
  - rewrite E, <- app_assoc. reflexivity.
  - apply in_or_app. right. left. reflexivity.
  - intro Hin. destruct (in_split _ _ Hin) as (p1 & p2 & E3).
    assert (HP : precedes T (a, true) (b, false)).
    { exists p1, (p2 ++ (b, false) :: m2). split.
      - transitivity ((l1 ++ (a, false) :: m1) ++ (b, false) :: m2).
        + rewrite E, <- app_assoc. reflexivity.
        + rewrite E3, <- app_assoc. reflexivity.
      - apply in_or_app. right. left. reflexivity. }
    exact (precedes_antisym T _ _ T_NoDup HP (T_min_before_other_max a b ba bb Na Nb Hle)).
  - exact Hk.
Qed.

Lemma kgt_false_iff x y : kgt K kcmp x y = false <-> kle x y.
Proof. unfold kgt. rewrite Z.ltb_ge. tauto. Qed.

Definition yz_overlap (b1 b2 : box) : Prop :=
  kle (bmin K (axis_y axis) b1) (bmax K (axis_y axis) b2) /\
  kle (bmin K (axis_y axis) b2) (bmax K (axis_y axis) b1) /\
  kle (bmin K (axis_z axis) b1) (bmax K (axis_z axis) b2) /\
  kle (bmin K (axis_z axis) b2) (bmax K (axis_z axis) b1).

Lemma pruned_false b1 b2 : pruned K kcmp axis b1 b2 = false <-> yz_overlap b1 b2.
Proof.
  unfold pruned, yz_overlap. rewrite !orb_false_iff, !kgt_false_iff. tauto.
Qed.

Lemma keep_iff d a b ba bb : nth_error bs a = Some ba -> nth_error bs b = Some bb ->
  (keep d a b = true <-> yz_overlap ba bb).
Proof.
  intros Na Nb. unfold keep_of. rewrite (nth_error_nth _ _ d Na), (nth_error_nth _ _ d Nb).
  rewrite negb_true_iff. apply pruned_false.
Qed.

Lemma yz_overlap_sym b1 b2 : yz_overlap b1 b2 -> yz_overlap b2 b1.
Proof. unfold yz_overlap. tauto. Qed.

(* ---------- soundness *)
Theorem sap_sound d a b : In (a, b) (sap K kcmp rnd axis bs d) ->
  exists ba bb, nth_error bs a = Some ba /\ nth_error bs b = Some bb /\ a <> b /\
    kle (rnd (bmin K axis ba)) (rnd (bmax K axis bb)) /\
    kle (rnd (bmin K axis bb)) (rnd (bmax K axis ba)) /\
    yz_overlap ba bb.
Proof.
  intro H. destruct (sap_precedes d a b H) as (P1 & P2 & Hk).
  destruct (precedes_in _ _ _ P1) as (Ia & Ib). apply T_in in Ia. apply T_in in Ib.
  destruct Ia as (ba & Na). destruct Ib as (bb & Nb). exists ba, bb.
  split; [exact Na|]. split; [exact Nb|]. split.
  - intro E. subst b. exact (precedes_not_eq T _ T_NoDup P1).
  - pose proof (T_precedes_le _ _ _ _ (E0_emin a ba Na) (E0_emin b bb Nb) P1) as L1.
    pose proof (T_precedes_le _ _ _ _ (E0_emin b bb Nb) (E0_emax a ba Na) P2) as L2.
    assert (Wb : kle (rnd (bmin K axis bb)) (rnd (bmax K axis bb))).
    { apply rnd_mono, boxes_wf. eapply nth_error_In; eassumption. }
    split; [exact (kcmp_trans _ _ _ L1 Wb)|]. split; [exact L2|].
    apply (keep_iff d a b ba bb Na Nb). exact Hk.
Qed.

(* ---------- completeness and exactly-once *)
Theorem sap_complete d a b ba bb :
  nth_error bs a = Some ba -> nth_error bs b = Some bb -> a <> b ->
  kle (rnd (bmin K axis ba)) (rnd (bmax K axis bb)) ->
  kle (rnd (bmin K axis bb)) (rnd (bmax K axis ba)) ->
  yz_overlap ba bb ->
  In (a, b) (sap K kcmp rnd axis bs d) \/ In (b, a) (sap K kcmp rnd axis bs d).
Proof.
  intros Na Nb Hne L1 L2 Hyz.
  assert (Ia : In (a, false) T) by (apply T_in; eauto).
  assert (Ib : In (b, false) T) by (apply T_in; eauto).
  destruct (precedes_total T (a, false) (b, false) Ia Ib) as [HP | HP]; [congruence | |].
  - left. apply (sap_emit d a b ba bb Na Nb HP L2). apply (keep_iff d a b ba bb Na Nb). exact Hyz.
  - right. apply (sap_emit d b a bb ba Nb Na HP L1). apply (keep_iff d b a bb ba Nb Na). apply yz_overlap_sym. exact Hyz.
Qed.

Theorem sap_NoDup d : NoDup (sap K kcmp rnd axis bs d).
Proof. unfold sap. apply sweep_NoDup; [constructor | exact T_NoDup | intros ? []]. Qed.

Theorem sap_one_orientation d a b :
  In (a, b) (sap K kcmp rnd axis bs d) -> ~ In (b, a) (sap K kcmp rnd axis bs d).
Proof.
  intros H1 H2. destruct (sap_precedes d a b H1) as (P1 & _). destruct (sap_precedes d b a H2) as (P2 & _).
  exact (precedes_antisym T _ _ T_NoDup P1 P2).
Qed.

Definition pair_dec (x y : nat * nat) : {x = y} + {x <> y}.
Proof. decide equality; apply Nat.eq_dec. Defined.

Theorem sap_exactly_once d a b ba bb :
  nth_error bs a = Some ba -> nth_error bs b = Some bb -> a <> b ->
  kle (rnd (bmin K axis ba)) (rnd (bmax K axis bb)) ->
  kle (rnd (bmin K axis bb)) (rnd (bmax K axis ba)) ->
  yz_overlap ba bb ->
  (count_occ pair_dec (sap K kcmp rnd axis bs d) (a, b) + count_occ pair_dec (sap K kcmp rnd axis bs d) (b, a) = 1)%nat.
Proof.
  intros Na Nb Hne L1 L2 Hyz.
  pose proof (sap_NoDup d) as ND. rewrite (NoDup_count_occ' pair_dec) in ND.
  destruct (sap_complete d a b ba bb Na Nb Hne L1 L2 Hyz) as [H | H].
  - rewrite (ND _ H). pose proof (sap_one_orientation d a b H) as Hn.
    apply (count_occ_not_In pair_dec) in Hn. rewrite Hn. reflexivity.
  - rewrite (ND _ H). pose proof (sap_one_orientation d b a H) as Hn.
    apply (count_occ_not_In pair_dec) in Hn. rewrite Hn. reflexivity.
Qed.

(* ---------- size *)
Lemma T_nmin : nmin T = length bs.
Proof.
  rewrite T_def. unfold nmin.
  rewrite (perm_filter_length _ _ _ (Permutation_map snd S_perm)).
  apply (init_nmin bs 0).
Qed.

Theorem sap_count d :
  Z.of_nat (length (sap K kcmp rnd axis bs d)) <= Z.of_nat (length bs) * (Z.of_nat (length bs) - 1) / 2.
Proof.
  unfold sap. pose proof (sweep_length (keep d) T []) as H. fold T. rewrite T_nmin in H.
  change (Z.of_nat (length (@nil nat))) with 0 in H.
  apply Z.div_le_lower_bound; [lia|]. nia.
Qed.


(* ---------- emission order: by the sorted position of the second box's start, then of the first's *)
Definition out_order (p q : nat * nat) : Prop :=
  precedes T (snd p, false) (snd q, false) \/
  (snd p = snd q /\ precedes T (fst p, false) (fst q, false)).

Lemma SS_app_intro {A} (R : A -> A -> Prop) l1 l2 :
  StronglySorted R l1 -> StronglySorted R l2 -> (forall x y, In x l1 -> In y l2 -> R x y) ->
  StronglySorted R (l1 ++ l2).
Proof.
  induction l1 as [|a r IH]; simpl; intros S1 S2 Hc; [assumption|].
  apply StronglySorted_inv in S1. destruct S1 as [S1 F1]. constructor.
  - apply IH; [assumption | assumption|]. intros x y Hx Hy. apply Hc; [right|]; assumption.
  - apply Forall_forall. intros y Hy. apply in_app_or in Hy. destruct Hy as [Hy | Hy].
    + rewrite Forall_forall in F1. apply F1; assumption.
    + apply Hc; [left; reflexivity | assumption].
Qed.

Lemma SS_filter {A} (R : A -> A -> Prop) (p : A -> bool) l : StronglySorted R l -> StronglySorted R (filter p l).
Proof.
  induction l as [|a r IH]; simpl; intro H; [constructor|].
  apply StronglySorted_inv in H. destruct H as [H F]. destruct (p a); [|auto]. constructor; [auto|].
  rewrite Forall_forall in *. intros y Hy. apply filter_In in Hy. apply F. tauto.
Qed.

Lemma SS_map {A B} (R : B -> B -> Prop) (f : A -> B) l :
  StronglySorted (fun x y => R (f x) (f y)) l -> StronglySorted R (map f l).
Proof.
  induction l as [|a r IH]; simpl; intro H; [constructor|].
  apply StronglySorted_inv in H. destruct H as [H F]. constructor; [auto|].
  rewrite Forall_forall in *. intros y Hy. apply in_map_iff in Hy. destruct Hy as (x & E & Hx). subst. apply F; assumption.
Qed.

Lemma remove1_SS (R : nat -> nat -> Prop) x l : StronglySorted R l -> StronglySorted R (remove1 x l).
Proof.
  induction l as [|a r IH]; simpl; intro H; [constructor|].
  apply StronglySorted_inv in H. destruct H as [H F]. destruct (Nat.eqb a x); [assumption|].
  constructor; [auto|]. rewrite Forall_forall in *. intros y Hy. apply remove1_in in Hy. apply F; assumption.
Qed.

Lemma sweep_sorted keepf : forall s pre act, T = pre ++ s ->
  StronglySorted (fun a a' => precedes T (a, false) (a', false)) act ->
  (forall a, In a act -> In (a, false) pre) ->
  StronglySorted out_order (sweep keepf act s).
Proof.
  induction s as [|[i m] r IH]; intros pre act E Sa Hin; simpl; [constructor|].
  destruct m.
  - apply (IH (pre ++ [(i, true)])).
    + rewrite <- app_assoc. exact E.
    + apply remove1_SS; assumption.
    + intros a Ha. apply remove1_in in Ha. apply in_or_app. left. auto.
  - assert (Hbefore : forall a, In a act -> precedes T (a, false) (i, false)).
    { intros a Ha. destruct (in_split _ _ (Hin a Ha)) as (p1 & p2 & Ep). exists p1, (p2 ++ (i, false) :: r). split.
      - rewrite E, Ep, <- app_assoc. reflexivity.
      - apply in_or_app. right. left. reflexivity. }
    apply SS_app_intro.
    + apply SS_map. apply SS_filter. unfold out_order. simpl.
      eapply StronglySorted_ind with (P := fun l => StronglySorted _ l); [constructor | | exact Sa].
      intros a l Sl IHl Fl. constructor; [exact IHl|]. rewrite Forall_forall in *. intros y Hy. right. split; [reflexivity | apply Fl; assumption].
    + apply (IH (pre ++ [(i, false)])).
      * rewrite <- app_assoc. exact E.
      * apply SS_app_intro; [assumption | repeat constructor|].
        intros x y Hx [Hy | []]. subst y. apply Hbefore; assumption.
      * intros a Ha. apply in_app_or in Ha. apply in_or_app. destruct Ha as [Ha | [Ha | []]]; [left; auto | right; left; subst; reflexivity].
    + intros [a b] [a' b'] Hx Hy. apply in_map_iff in Hx. destruct Hx as (a0 & E0' & _). injection E0' as E1 E2. subst.
      apply sweep_snd in Hy. left. simpl. exists pre, r. auto.
Qed.

Theorem sap_sorted d : StronglySorted out_order (sap K kcmp rnd axis bs d).
Proof. unfold sap. apply (sweep_sorted _ T [] []); [reflexivity | constructor | intros ? []]. Qed.

(* the cut of mj_SAP is the identity when the buffer has room for n(n-1)/2 pairs *)
Theorem mj_SAP_nocut d maxpair :
  0 <= axis <= 2 -> Z.of_nat (length bs) < 65536 -> 1 <= maxpair ->
  Z.of_nat (length bs) * (Z.of_nat (length bs) - 1) / 2 <= maxpair ->
  mj_SAP K kcmp rnd axis bs d maxpair =
    (Z.of_nat (length (sap K kcmp rnd axis bs d)), sap K kcmp rnd axis bs d).
Proof.
  intros Hax Hn Hm Hcap. unfold mj_SAP.
  replace (65536 <=? Z.of_nat (length bs)) with false by (symmetry; apply Z.leb_gt; lia).
  replace (axis <? 0) with false by (symmetry; apply Z.ltb_ge; lia).
  replace (2 <? axis) with false by (symmetry; apply Z.ltb_ge; lia).
  replace (maxpair <? 1) with false by (symmetry; apply Z.ltb_ge; lia).
  simpl. pose proof (sap_count d) as Hc.
  destruct (Z.leb_spec maxpair (Z.of_nat (length (sap K kcmp rnd axis bs d)))) as [L | L]; [|reflexivity].
  assert (E : maxpair = Z.of_nat (length (sap K kcmp rnd axis bs d))) by lia.
  rewrite E, Nat2Z.id, firstn_all. reflexivity.
Qed.

End SAPProof.

(* ================================================================== instances and the refutation *)
Lemma zcmp3_anti : forall a b, zcmp3 a b < 0 <-> 0 < zcmp3 b a.
Proof.
  intros a b. unfold zcmp3.
  destruct (Z.ltb_spec a b); destruct (Z.ltb_spec b a); destruct (Z.eqb_spec a b); destruct (Z.eqb_spec b a); lia.
Qed.
Lemma zcmp3_trans : forall a b c, zcmp3 a b <= 0 -> zcmp3 b c <= 0 -> zcmp3 a c <= 0.
Proof.
  intros a b c. unfold zcmp3.
  destruct (Z.ltb_spec a b); destruct (Z.ltb_spec b c); destruct (Z.ltb_spec a c);
  destruct (Z.eqb_spec a b); destruct (Z.eqb_spec b c); destruct (Z.eqb_spec a c); lia.
Qed.
Lemma zcmp3_le a b : zcmp3 a b <= 0 <-> a <= b.
Proof. unfold zcmp3. destruct (Z.ltb_spec a b); destruct (Z.eqb_spec a b); lia. Qed.
Lemma zcmp3_lt a b : zcmp3 a b < 0 <-> a < b.
Proof. unfold zcmp3. destruct (Z.ltb_spec a b); destruct (Z.eqb_spec a b); lia. Qed.

(* a float-like rounding on Z: round down to a multiple of 8 *)
Definition rnd8 (x : Z) : Z := 8 * (x / 8).
Lemma rnd8_mono a b : a <= b -> rnd8 a <= rnd8 b.
Proof. intro H. unfold rnd8. pose proof (Z.div_le_mono a b 8 ltac:(lia) H). lia. Qed.

Definition tie_boxes : list (box Z) := [((0, 0, 0), (9, 1, 1)); ((8, 0, 0), (20, 1, 1))].
Definition zbox0 : box Z := ((0, 0, 0), (0, 0, 0)).

(* the former float-tie witness (rnd8 9 = rnd8 8): reported in both declaration orders *)
Lemma sap_tie_example :
  sap Z zcmp3 rnd8 0 tie_boxes zbox0 = [(0%nat, 1%nat)] /\
  sap Z zcmp3 rnd8 0 (rev tie_boxes) zbox0 = [(1%nat, 0%nat)].
Proof. split; vm_compute; reflexivity. Qed.

(* ================================================================== mj_broadphase (bodies) *)
Lemma sigcmp_total : forall a b, 0 < sigcmp a b -> sigcmp b a <= 0.
Proof. intros a b H. unfold sigcmp in *. apply zcmp3_anti in H. lia. Qed.

Lemma signature_sym b1 b2 : b1 <> b2 -> signature b1 b2 = signature b2 b1.
Proof. intro H. unfold signature. destruct (Z.ltb_spec b1 b2); destruct (Z.ltb_spec b2 b1); try reflexivity; lia. Qed.

Lemma zseq_in n b : In b (zseq n) <-> 0 <= b < Z.of_nat n.
Proof.
  unfold zseq. rewrite in_map_iff. split.
  - intros (k & E & H). apply in_seq in H. lia.
  - intro H. exists (Z.to_nat b). split; [lia|]. apply in_seq. lia.
Qed.

Section BroadphaseProof.
Variable K : Type.
Variable kcmp : K -> K -> Z.
Variable rnd : K -> K.
Hypothesis kcmp_anti : forall a b, kcmp a b < 0 <-> 0 < kcmp b a.
Hypothesis kcmp_trans : forall a b c, kcmp a b <= 0 -> kcmp b c <= 0 -> kcmp a c <= 0.
Hypothesis rnd_mono : forall a b, kcmp a b <= 0 -> kcmp (rnd a) (rnd b) <= 0.
Variable bodies : list bodyrec.
Variable dsbl : Z.
Variable boxes : list (box K).
Variable d : box K.

Notation body b := (nth (Z.to_nat b) bodies dbody).
Notation masks_ok r1 r2 :=
  (filterBitmask (or_types (b_geoms r1)) (or_affs (b_geoms r1)) (or_types (b_geoms r2)) (or_affs (b_geoms r2)) = false).

Lemma broadphase_in x :
  In x (broadphase K kcmp rnd bodies dsbl boxes d) <->
  In x (always_pairs bodies dsbl) \/
  In x (sap_body_pairs bodies dsbl (collidable bodies)
          (if (1 <? length (collidable bodies))%nat then sap K kcmp rnd 0 boxes d else [])).
Proof.
  unfold broadphase. rewrite <- in_app_iff.
  destruct (mjsort_spec Z sigcmp sigcmp_total zcmp3_trans
              (always_pairs bodies dsbl ++ sap_body_pairs bodies dsbl (collidable bodies)
                 (if (1 <? length (collidable bodies))%nat then sap K kcmp rnd 0 boxes d else []))) as (_ & P & _).
  split; apply Permutation_in; [exact P | apply Permutation_sym; exact P].
Qed.

(* pairs with an always-colliding member (world body with geoms, dof-less body with a plane) *)
Theorem broadphase_always b1 b2 :
  0 <= b1 < Z.of_nat (length bodies) -> 0 <= b2 < Z.of_nat (length bodies) ->
  canCollide (b_ct (body b1)) (b_ca (body b1)) = true ->
  canCollide (b_ct (body b2)) (b_ca (body b2)) = true ->
  ((b1 = 0 /\ b_geoms (body b1) <> []) \/ (b_dof (body b1) = 0 /\ b_plane (body b1) = true)) ->
  filterBodyPair (b_weld (body b1)) (b_pweld (body b1)) 0 (b_dof (body b1))
                 (b_weld (body b2)) (b_pweld (body b2)) (b_asleep (body b2)) (b_dof (body b2)) dsbl = false ->
  masks_ok (body b1) (body b2) ->
  In (signature b1 b2) (broadphase K kcmp rnd bodies dsbl boxes d).
Proof.
  intros H1 H2 C1 C2 Hal Hf Hm. apply broadphase_in. left. unfold always_pairs.
  apply in_flat_map. exists b1. split; [apply zseq_in; assumption|].
  rewrite C1. simpl.
  assert (Hc : ((b1 =? 0) && negb (length (b_geoms (body b1)) =? 0)%nat) || ((b_dof (body b1) =? 0) && b_plane (body b1)) = true).
  { apply orb_true_iff. destruct Hal as [[E G] | [E G]].
    - left. apply andb_true_iff. split; [apply Z.eqb_eq; assumption|]. apply negb_true_iff. apply Nat.eqb_neq.
      destruct (b_geoms (body b1)); [congruence | simpl; lia].
    - right. apply andb_true_iff. split; [apply Z.eqb_eq; assumption | assumption]. }
  rewrite Hc. apply in_flat_map. exists b2. split; [apply zseq_in; assumption|].
  rewrite C2, Hf, Hm. simpl. left. reflexivity.
Qed.

(* pairs of collidable bodies found by the sweep: positions i1, i2 in the list of collidable bodies *)
Theorem broadphase_sap i1 i2 b1 b2 x1 x2 :
  length boxes = length (collidable bodies) ->
  (forall b, In b boxes -> kcmp (bmin K 0 b) (bmax K 0 b) <= 0) ->
  nth_error (collidable bodies) i1 = Some b1 -> nth_error (collidable bodies) i2 = Some b2 -> b1 <> b2 ->
  nth_error boxes i1 = Some x1 -> nth_error boxes i2 = Some x2 ->
  kcmp (rnd (bmin K 0 x1)) (rnd (bmax K 0 x2)) <= 0 ->
  kcmp (rnd (bmin K 0 x2)) (rnd (bmax K 0 x1)) <= 0 ->
  yz_overlap K kcmp 0 x1 x2 ->
  filterBodyPair (b_weld (body b1)) (b_pweld (body b1)) (b_asleep (body b1)) (b_dof (body b1))
                 (b_weld (body b2)) (b_pweld (body b2)) (b_asleep (body b2)) (b_dof (body b2)) dsbl = false ->
  masks_ok (body b1) (body b2) ->
  In (signature b1 b2) (broadphase K kcmp rnd bodies dsbl boxes d).
Proof.
  intros Hlen Hwf N1 N2 Hne X1 X2 L1 L2 Hyz Hf Hm. apply broadphase_in. right.
  assert (Hi : i1 <> i2) by (intro; subst; congruence).
  assert (Hl1 : (i1 < length (collidable bodies))%nat) by (apply nth_error_Some; congruence).
  assert (Hl2 : (i2 < length (collidable bodies))%nat) by (apply nth_error_Some; congruence).
  replace (1 <? length (collidable bodies))%nat with true by (symmetry; apply Nat.ltb_lt; lia).
  unfold sap_body_pairs. apply in_flat_map.
  destruct (sap_complete K kcmp rnd kcmp_anti kcmp_trans 0 boxes rnd_mono Hwf d i1 i2 x1 x2 X1 X2 Hi L1 L2 Hyz) as [H | H].
  - exists (i1, i2). split; [exact H|]. simpl.
    rewrite (nth_error_nth _ _ 0 N1), (nth_error_nth _ _ 0 N2), Hf, Hm. simpl. left. reflexivity.
  - exists (i2, i1). split; [exact H|]. simpl.
    rewrite (nth_error_nth _ _ 0 N1), (nth_error_nth _ _ 0 N2).
    rewrite filterBodyPair_sym, Hf, filterBitmask_sym, Hm. simpl. left. apply signature_sym. congruence.
Qed.

End BroadphaseProof.
