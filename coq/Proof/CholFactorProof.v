(* Proofs about mju_cholFactor (Model/Chol.v) at R: when no column is rank-deficient (returned
   rank = n) and mindiag > 0, the in-place column-by-column factorisation leaves L in the lower
   triangle with L L' = A on the lower triangle, positive diagonal, strict upper triangle untouched. *)
From Coq Require Import ZArith List Bool Arith Lia PrimFloat Reals Lra.
From MJV Require Import Lib.Num Lib.NumR Model.Sparse Model.Chol Proof.LinAlgBase Proof.SparseProof
  Proof.SparseSymProof Proof.CholProof.
Import ListNotations.
Open Scope R_scope.

Lemma mapi_from_length : forall (A B : Type) (f : nat -> A -> B) (l : list A) (k : nat),
  length (mapi_from k f l) = length l.
Proof. intros A B f l; induction l as [|x r IH]; intros k; simpl; auto. Qed.

Lemma mapi_from_nth : forall (A B : Type) (f : nat -> A -> B) (l : list A) (k i : nat) (da : A) (db : B),
  (i < length l)%nat -> nth i (mapi_from k f l) db = f (k + i)%nat (nth i l da).
Proof.
  intros A B f l; induction l as [|x r IH]; intros k i da db Hi; simpl in Hi; [lia|].
  destruct i as [|i]; simpl.
  - rewrite Nat.add_0_r. reflexivity.
  - rewrite (IH (S k) i da db) by lia. f_equal. lia.
Qed.

Lemma mapi_nth : forall (A B : Type) (f : nat -> A -> B) (l : list A) (i : nat) (da : A) (db : B),
  (i < length l)%nat -> nth i (mapi f l) db = f i (nth i l da).
Proof. intros. unfold mapi. rewrite (mapi_from_nth A B f l 0 i da db) by auto. reflexivity. Qed.

(* one column, no deficiency *)
Definition col_new (M : list (list R)) (j i : nat) : R :=
  let rj := firstn j (nth j M []) in
  let d := sqrt (dget M j j - dot rj rj) in
  if Nat.ltb i j then dget M i j
  else if Nat.eqb i j then d
  else (dget M i j - dot (firstn j (nth i M [])) rj) * (1 / d).

Lemma cholFactor_col_spec : forall (n : nat) (mindiag : R) (M : list (list R)) (rank : Z) (j : nat),
  mat_dims n M -> (j < n)%nat ->
  let rj := firstn j (nth j M []) in
  let tmp := dget M j j - dot rj rj in
  let st := cholFactor_col mindiag (M, rank) j in
  (snd st <= rank)%Z /\
  (snd st = rank -> Rltb tmp mindiag = false /\ mat_dims n (fst st) /\
     forall i c : nat, (i < n)%nat -> (c < n)%nat ->
       dget (fst st) i c = if Nat.eqb c j then col_new M j i else dget M i c).
Proof.
  intros n mindiag M rank j [Hl Hr] Hj rj tmp st. unfold st, cholFactor_col. fold rj. num_R. subst tmp.
  set (tmp := dget M j j - dot rj rj).
  destruct (Rltb tmp mindiag) eqn:Ed; cbn [fst snd].
  - split; [lia|]. intros H. lia.
  - split; [lia|]. intros _. split; [reflexivity|].
    set (f := fun (i : nat) (ri : list R) =>
                if Nat.ltb i j then ri
                else if Nat.eqb i j then upd j (sqrt tmp) ri
                else upd j ((nth j ri 0 - dot (firstn j ri) rj) * (1 / sqrt tmp)) ri).
    assert (Hrow : forall i : nat, (i < n)%nat -> nth i (mapi f M) [] = f i (nth i M [])).
    { intros i Hi. apply mapi_nth. lia. }
    split.
    + split; [unfold mapi; rewrite mapi_from_length; exact Hl|].
      intros i Hi. rewrite Hrow by auto. unfold f.
      destruct (Nat.ltb i j); [apply Hr; auto|]. destruct (Nat.eqb i j); rewrite upd_length; apply Hr; auto.
    + intros i c Hi Hc. unfold dget at 1. rewrite Hrow by auto. unfold f, col_new. fold rj. fold tmp.
      destruct (Nat.ltb_spec i j).
      * destruct (Nat.eqb_spec c j) as [->|]; reflexivity.
      * destruct (Nat.eqb_spec i j) as [->|Hne].
        -- rewrite nth_upd by (rewrite Hr; auto). rewrite (Nat.eqb_sym c j). destruct (Nat.eqb j c); reflexivity.
        -- rewrite nth_upd by (rewrite Hr; auto). rewrite (Nat.eqb_sym c j). destruct (Nat.eqb j c); reflexivity.
Qed.

Lemma cholFactor_col_rank : forall (mindiag : R) (M : list (list R)) (rank : Z) (j : nat),
  (snd (cholFactor_col mindiag (M, rank) j) <= rank)%Z.
Proof.
  intros mindiag M rank j. unfold cholFactor_col. cbv zeta. cbn [snd].
  match goal with |- context [if ?b then (rank - 1)%Z else rank] => destruct b end; lia.
Qed.

(* state after k columns without deficiency *)
Definition Good (n : nat) (A : list (list R)) (k : nat) (M : list (list R)) : Prop :=
  mat_dims n M /\
  (forall i c : nat, (i < n)%nat -> (c < n)%nat -> (k <= c \/ i < c)%nat -> dget M i c = dget A i c) /\
  (forall c : nat, (c < k)%nat -> 0 < dget M c c) /\
  (forall i c : nat, (c < k)%nat -> (c <= i)%nat -> (i < n)%nat ->
     bsum (S c) (fun t => dget M i t * dget M c t) = dget A i c).

Definition cf_run (mindiag : R) (k : nat) (A : list (list R)) (n : nat) : list (list R) * Z :=
  fold_left (cholFactor_col mindiag) (seq 0 k) (A, Z.of_nat n).

Lemma dot_rows : forall (n : nat) (M : list (list R)) (i j : nat), mat_dims n M -> (i < n)%nat -> (j < n)%nat ->
  dot (firstn j (nth i M [])) (firstn j (nth j M [])) = bsum j (fun t => dget M i t * dget M j t).
Proof.
  intros n M i j [Hl Hr] Hi Hj. rewrite dot_spec. rewrite firstn_length, Hr by auto.
  replace (Nat.min j n) with j by lia. apply bsum_ext. intros t Ht.
  rewrite !nth_firstn_lt by auto. reflexivity.
Qed.

Lemma cf_run_spec : forall (n : nat) (mindiag : R) (A : list (list R)), mat_dims n A -> 0 < mindiag ->
  forall k : nat, (k <= n)%nat ->
  (snd (cf_run mindiag k A n) <= Z.of_nat n)%Z /\
  (snd (cf_run mindiag k A n) = Z.of_nat n -> Good n A k (fst (cf_run mindiag k A n))).
Proof.
  intros n mindiag A HA Hmin. induction k as [|k IH]; intros Hk.
  - unfold cf_run. simpl. split; [lia|]. intros _. split; [exact HA|]. split; [reflexivity|]. split; intros; lia.
  - destruct IH as [Hle Hgood]; [lia|]. unfold cf_run in *. rewrite fold_left_seq_S.
    destruct (fold_left (cholFactor_col mindiag) (seq 0 k) (A, Z.of_nat n)) as [M rank] eqn:Est. cbn [fst snd] in *.
    destruct (Z.eq_dec rank (Z.of_nat n)) as [Hrk|Hrk].
    + destruct (Hgood Hrk) as [Hdim [Hun [Hpos Hsum]]].
      destruct (cholFactor_col_spec n mindiag M rank k Hdim ltac:(lia)) as [Hle2 Hstep]. cbv zeta in *.
      split; [lia|]. intros Hfin. destruct Hstep as [Hnd [Hdim2 Hget]]; [lia|].
      apply Rltb_false in Hnd.
      set (M2 := fst (cholFactor_col mindiag (M, rank) k)) in *.
      set (tmp := dget M k k - dot (firstn k (nth k M [])) (firstn k (nth k M []))) in *.
      assert (Htmp : 0 < tmp) by lra.
      assert (Hdk : tmp = dget A k k - bsum k (fun t => dget M k t * dget M k t)).
      { unfold tmp. rewrite (dot_rows n M k k Hdim) by lia. rewrite (Hun k k) by lia. reflexivity. }
      split; [exact Hdim2|]. split; [|split].
      * intros i c Hi Hc Hcase. rewrite Hget by auto. destruct (Nat.eqb_spec c k) as [->|Hne].
        -- unfold col_new. destruct (Nat.ltb_spec i k); [apply Hun; auto; lia|lia].
        -- apply Hun; auto. lia.
      * intros c Hc. rewrite Hget by lia. destruct (Nat.eqb_spec c k) as [->|Hne].
        -- unfold col_new. destruct (Nat.ltb_spec k k); [lia|]. rewrite Nat.eqb_refl. fold tmp. apply sqrt_lt_R0. exact Htmp.
        -- apply Hpos. lia.
      * intros i c Hc Hci Hi.
        assert (Hold : forall (a b : nat), (a < n)%nat -> (b < k)%nat -> dget M2 a b = dget M a b).
        { intros a b Ha Hb. rewrite Hget by lia. destruct (Nat.eqb_spec b k); [lia|reflexivity]. }
        destruct (Nat.eq_dec c k) as [->|Hne].
        -- (* the new column *)
           simpl bsum. rewrite (bsum_ext k (fun t => dget M2 i t * dget M2 k t) (fun t => dget M i t * dget M k t)).
           2:{ intros t Ht. rewrite !Hold by lia. reflexivity. }
           rewrite !Hget by lia. rewrite Nat.eqb_refl. unfold col_new. fold tmp.
           destruct (Nat.ltb_spec k k); [lia|]. rewrite Nat.eqb_refl.
           destruct (Nat.ltb_spec i k); [lia|].
           destruct (Nat.eqb_spec i k) as [->|Hik].
           ++ rewrite sqrt_sqrt by lra. rewrite Hdk. lra.
           ++ rewrite (dot_rows n M i k Hdim) by lia. rewrite (Hun i k) by lia.
              assert (Hs : sqrt tmp <> 0) by (apply Rgt_not_eq; apply sqrt_lt_R0; exact Htmp).
              field. exact Hs.
        -- rewrite <- (Hsum i c) by lia. apply bsum_ext. intros t Ht. rewrite !Hold by lia. reflexivity.
    + pose proof (cholFactor_col_rank mindiag M rank k) as Hle2.
      split; [lia|]. intros Hfin. lia.
Qed.

(* mju_cholFactor *)
Lemma cholFactor_spec : forall (n : nat) (mindiag : R) (A : list (list R)), mat_dims n A -> 0 < mindiag ->
  snd (cholFactor n mindiag A) = Z.of_nat n ->
  let L := fst (cholFactor n mindiag A) in
  mat_dims n L /\
  (forall i j : nat, (j <= i)%nat -> (i < n)%nat -> LLt n L i j = dget A i j) /\
  (forall i : nat, (i < n)%nat -> 0 < dget L i i) /\
  (forall i j : nat, (i < j)%nat -> (j < n)%nat -> dget L i j = dget A i j).
Proof.
  intros n mindiag A HA Hmin Hrank L.
  destruct (cf_run_spec n mindiag A HA Hmin n (Nat.le_refl n)) as [_ Hg].
  unfold cf_run in Hg. change (fold_left (cholFactor_col mindiag) (seq 0 n) (A, Z.of_nat n)) with (cholFactor n mindiag A) in Hg.
  destruct (Hg Hrank) as [Hdim [Hun [Hpos Hsum]]]. fold L in Hdim, Hun, Hpos, Hsum.
  split; [exact Hdim|]. split; [|split; [exact Hpos|]].
  - intros i j Hji Hi. unfold LLt. rewrite (bsum_split (S j) n) by lia.
    rewrite (bsum_zero (n - S j)).
    2:{ intros t _. unfold low. destruct (Nat.leb_spec (S j + t) j); [lia|]. ring. }
    rewrite Rplus_0_r. rewrite <- (Hsum i j) by lia. apply bsum_ext. intros t Ht.
    unfold low. destruct (Nat.leb_spec t i); [|lia]. destruct (Nat.leb_spec t j); [|lia]. reflexivity.
  - intros i j Hij Hj. apply Hun; lia.
Qed.

(* factor, then solve: (symmetric matrix denoted by the lower triangle of A) x = b *)
Lemma chol_factor_solve : forall (n : nat) (mindiag : R) (A : list (list R)) (b : list R),
  mat_dims n A -> 0 < mindiag -> snd (cholFactor n mindiag A) = Z.of_nat n ->
  let x := cholSolve n (fst (cholFactor n mindiag A)) b in
  length x = n /\
  forall i : nat, (i < n)%nat ->
    bsum n (fun j => (if Nat.leb j i then dget A i j else dget A j i) * nth j x 0) = nth i b 0.
Proof.
  intros n mindiag A b HA Hmin Hrank x.
  destruct (cholFactor_spec n mindiag A HA Hmin Hrank) as [Hdim [HLL [Hpos _]]]. cbv zeta in *.
  set (L := fst (cholFactor n mindiag A)) in *.
  destruct (cholSolve_spec n L b) as [Hlx Hx].
  { intros i Hi. apply Rgt_not_eq. apply Hpos. exact Hi. }
  fold x in Hlx, Hx. split; [exact Hlx|]. intros i Hi. rewrite <- (Hx i Hi). apply bsum_ext. intros j Hj.
  f_equal. destruct (Nat.leb_spec j i).
  - symmetry. apply HLL; auto.
  - rewrite <- (HLL j i) by lia. unfold LLt. apply bsum_ext. intros k _. ring.
Qed.
