(* Proofs about Model/UserPool.v (work queue of user_threadpool.cc) and the asset-compilation instance
   of the ParMap theorem. *)
From Coq Require Import List ZArith Bool Arith Lia Permutation.
From MJV Require Import Model.Island Model.ParMap Proof.ParMapProof Model.UserPool.
Import ListNotations.
Open Scope Z_scope.

(* ------------------------------------------------------------------ projections of the worker list *)
Definition took1 (w : wstate) : list Z := match w with WTook t => [t] | _ => [] end.
Definition run1 (w : wstate) : list Z := match w with WRun t => [t] | _ => [] end.
Definition finc (w : wstate) : list unit := match w with WFin _ => [tt] | _ => [] end.
Definition exc (w : wstate) : list unit := match w with WExit | WJoined => [tt] | _ => [] end.
Definition dead1 (w : wstate) : list unit := match w with WPoison | WExit | WJoined => [tt] | _ => [] end.

Lemma flat_map_set_nth {A : Type} (f : wstate -> list A) :
  forall (l : list wstate) (k : nat) (w w' : wstate),
    nth_error l k = Some w ->
    Permutation (f w ++ flat_map f (set_nth l k w')) (f w' ++ flat_map f l).
Proof.
  induction l as [|x r IH]; intros k w w' H; destruct k as [|k]; simpl in H; try discriminate.
  - inversion H; subst. simpl. rewrite !app_assoc. apply Permutation_app_tail. apply Permutation_app_comm.
  - simpl. specialize (IH k w w' H).
    rewrite !app_assoc.
    eapply Permutation_trans; [apply Permutation_app_tail; apply Permutation_app_comm|].
    rewrite <- !app_assoc. eapply Permutation_trans; [apply Permutation_app_head; exact IH|].
    rewrite !app_assoc. apply Permutation_app_tail. apply Permutation_app_comm.
Qed.

Lemma set_nth_length {A : Type} (l : list A) : forall (k : nat) (x : A), length (set_nth l k x) = length l.
Proof. induction l as [|y r IH]; intros [|k] x; simpl; auto. Qed.

Lemma flat_map_same {A : Type} (f : wstate -> list A) (l : list wstate) (k : nat) (w w' : wstate) :
  nth_error l k = Some w -> f w = f w' -> Permutation (flat_map f (set_nth l k w')) (flat_map f l).
Proof.
  intros H E. pose proof (flat_map_set_nth f l k w w' H) as P. rewrite E in P.
  apply Permutation_app_inv_l in P. exact P.
Qed.

Lemma qtasks_app (a b : list (option Z)) : qtasks (a ++ b) = qtasks a ++ qtasks b.
Proof. induction a as [|[t|] r IH]; simpl; auto. rewrite IH. reflexivity. Qed.

Lemma qtasks_repeat_none (n : nat) : qtasks (repeat None n) = [].
Proof. induction n; simpl; auto. Qed.

Lemma zseq_length (n : nat) : length (zseq n) = n.
Proof. induction n; simpl; auto. rewrite app_length, IHn. simpl. lia. Qed.

Lemma zseq_in (n : nat) (t : Z) : In t (zseq n) <-> 0 <= t < Z.of_nat n.
Proof.
  induction n; simpl.
  - split; [tauto | lia].
  - rewrite in_app_iff, IHn. simpl. split; [intros [H|[H|[]]]; lia | intro H; destruct (Z.eq_dec t (Z.of_nat n)); [right; left; lia | left; lia]].
Qed.


Lemma nodup_app_single {A : Type} (l : list A) (x : A) : NoDup l -> ~ In x l -> NoDup (l ++ [x]).
Proof.
  induction l as [|y r IH]; simpl; intros H N; [constructor; [tauto|constructor]|].
  inversion H; subst. constructor.
  - rewrite in_app_iff. simpl. intros [H1|[H1|[]]]; [tauto | subst; tauto].
  - apply IH; tauto.
Qed.

Lemma zseq_nodup (n : nat) : NoDup (zseq n).
Proof.
  induction n; simpl; [constructor|]. apply nodup_app_single; [assumption|].
  rewrite zseq_in. lia.
Qed.

Lemma perm_snoc {A : Type} (a b z : list A) (x : A) : Permutation (a ++ b) z -> Permutation ((a ++ [x]) ++ b) (z ++ [x]).
Proof.
  intro P. apply Permutation_trans with (x :: a ++ b).
  - rewrite <- app_assoc. simpl. apply Permutation_sym. apply Permutation_middle.
  - eapply Permutation_trans; [apply perm_skip; exact P | apply Permutation_cons_append].
Qed.

(* ------------------------------------------------------------------ invariant *)
Record Inv (n : nat) (s : st) : Prop := {
  V_len : length (ws s) = n;
  V_ns : 0 <= nsched s;
  V_part : Permutation (qtasks (queue s) ++ flat_map took1 (ws s) ++ flat_map run1 (ws s) ++ finished s)
                       (zseq (Z.to_nat (nsched s)));
  V_start : Permutation (started s) (flat_map run1 (ws s) ++ finished s);
  V_ctr : ctr s + Z.of_nat (length (flat_map finc (ws s))) = Z.of_nat (length (finished s)) + Z.of_nat (length (flat_map exc (ws s)));
  V_alive : destroyed s = false -> Forall (fun x : option Z => x <> None) (queue s) /\ flat_map dead1 (ws s) = [] }.

Lemma flat_map_repeat_nil {A : Type} (f : wstate -> list A) (w : wstate) (n : nat) : f w = [] -> flat_map f (repeat w n) = [].
Proof. intro H. induction n; simpl; auto. rewrite H, IHn. reflexivity. Qed.

Lemma inv_init (n : nat) : Inv n (init n).
Proof.
  constructor; simpl.
  - apply repeat_length.
  - lia.
  - rewrite !flat_map_repeat_nil by reflexivity. simpl. constructor.
  - rewrite flat_map_repeat_nil by reflexivity. constructor.
  - rewrite !flat_map_repeat_nil by reflexivity. reflexivity.
  - intros _. split; [constructor | apply flat_map_repeat_nil; reflexivity].
Qed.

Ltac perm_len P := apply Permutation_length in P; rewrite ?app_length in P; simpl in P.

Lemma inv_step (n : nat) (s s' : st) (e : ev) : Inv n s -> step s e = Some s' -> Inv n s'.
Proof.
  intros [Vl Vn Vp Vs Vc Va] H. destruct e as [|k|k t|k t|k|v| |k]; simpl in H.
  - (* schedule *)
    destruct (destroyed s) eqn:D; [discriminate|]. inversion H; subst; clear H. destruct (Va eq_refl) as [Vq Vd].
    constructor; cbn [queue ctr ws nsched started finished destroyed]; auto; try lia.
    + rewrite qtasks_app. simpl qtasks. replace (Z.to_nat (nsched s + 1)) with (S (Z.to_nat (nsched s))) by lia.
      cbn [zseq]. rewrite Z2Nat.id by lia. apply perm_snoc. exact Vp.
    + intros _. split; [|assumption]. apply Forall_app. split; [assumption|]. constructor; [discriminate|constructor].
  - (* take *)
    destruct (nth_error (ws s) k) as [w|] eqn:N; [|discriminate]. destruct w; try discriminate.
    destruct (queue s) as [|[t|] q] eqn:Q; try discriminate; inversion H; subst; clear H.
    + (* a task *)
      pose proof (flat_map_set_nth took1 (ws s) k WWait (WTook t) N) as Pt. simpl in Pt.
      pose proof (flat_map_same run1 (ws s) k WWait (WTook t) N eq_refl) as Pr.
      pose proof (flat_map_same finc (ws s) k WWait (WTook t) N eq_refl) as Pf.
      pose proof (flat_map_same exc (ws s) k WWait (WTook t) N eq_refl) as Pe.
      pose proof (flat_map_same dead1 (ws s) k WWait (WTook t) N eq_refl) as Pd.
      constructor; cbn [queue ctr ws nsched started finished destroyed]; auto.
      * rewrite set_nth_length; auto.
      * simpl in Vp. eapply Permutation_trans; [|exact Vp].
        eapply Permutation_trans; [apply Permutation_app_head; apply Permutation_app; [exact Pt | apply Permutation_app_tail; exact Pr]|].
        simpl. apply Permutation_sym. apply Permutation_middle.
      * eapply Permutation_trans; [exact Vs|]. apply Permutation_app_tail. apply Permutation_sym. exact Pr.
      * rewrite (Permutation_length Pf), (Permutation_length Pe). assumption.
      * intro D. destruct (Va D) as [Vq Vd]. split; [inversion Vq; assumption|].
        apply Permutation_nil. rewrite <- Vd. apply Permutation_sym. exact Pd.
    + (* poison *)
      pose proof (flat_map_same took1 (ws s) k WWait WPoison N eq_refl) as Pt.
      pose proof (flat_map_same run1 (ws s) k WWait WPoison N eq_refl) as Pr.
      pose proof (flat_map_same finc (ws s) k WWait WPoison N eq_refl) as Pf.
      pose proof (flat_map_same exc (ws s) k WWait WPoison N eq_refl) as Pe.
      constructor; cbn [queue ctr ws nsched started finished destroyed]; auto.
      * rewrite set_nth_length; auto.
      * simpl in Vp. eapply Permutation_trans; [|exact Vp].
        apply Permutation_app_head. apply Permutation_app; [exact Pt | apply Permutation_app_tail; exact Pr].
      * eapply Permutation_trans; [exact Vs|]. apply Permutation_app_tail. apply Permutation_sym. exact Pr.
      * rewrite (Permutation_length Pf), (Permutation_length Pe). assumption.
      * intro D. destruct (Va D) as [Vq Vd]. inversion Vq; subst. congruence.
  - (* begin *)
    destruct (nth_error (ws s) k) as [w|] eqn:N; [|discriminate]. destruct w as [|t'| | | | |]; try discriminate.
    destruct (t' =? t) eqn:E; [|discriminate]. apply Z.eqb_eq in E. subst t'. inversion H; subst; clear H.
    pose proof (flat_map_set_nth took1 (ws s) k (WTook t) (WRun t) N) as Pt. simpl in Pt.
    pose proof (flat_map_set_nth run1 (ws s) k (WTook t) (WRun t) N) as Pr. simpl in Pr.
    pose proof (flat_map_same finc (ws s) k (WTook t) (WRun t) N eq_refl) as Pf.
    pose proof (flat_map_same exc (ws s) k (WTook t) (WRun t) N eq_refl) as Pe.
    pose proof (flat_map_same dead1 (ws s) k (WTook t) (WRun t) N eq_refl) as Pd.
    constructor; cbn [queue ctr ws nsched started finished destroyed]; auto.
    + rewrite set_nth_length; auto.
    + eapply Permutation_trans; [|exact Vp]. apply Permutation_app_head.
      (* took' ++ run' ++ fin  ~  took ++ run ++ fin   with took ~ t :: took', run' ~ t :: run *)
      eapply Permutation_trans; [apply Permutation_app_head; apply Permutation_app_tail; exact Pr|]. simpl.
      eapply Permutation_trans; [apply Permutation_sym; apply Permutation_middle|].
      change (t :: flat_map took1 (set_nth (ws s) k (WRun t)) ++ flat_map run1 (ws s) ++ finished s)
        with ((t :: flat_map took1 (set_nth (ws s) k (WRun t))) ++ flat_map run1 (ws s) ++ finished s).
      apply Permutation_app_tail. exact Pt.
    + eapply Permutation_trans; [apply perm_skip; exact Vs|].
      change (t :: flat_map run1 (ws s) ++ finished s) with ((t :: flat_map run1 (ws s)) ++ finished s).
      apply Permutation_app_tail. apply Permutation_sym. exact Pr.
    + rewrite (Permutation_length Pf), (Permutation_length Pe). assumption.
    + intro D. destruct (Va D) as [Vq Vd]. split; [assumption|].
      apply Permutation_nil. rewrite <- Vd. apply Permutation_sym. exact Pd.
  - (* end *)
    destruct (nth_error (ws s) k) as [w|] eqn:N; [|discriminate]. destruct w as [| |t'| | | |]; try discriminate.
    destruct (t' =? t) eqn:E; [|discriminate]. apply Z.eqb_eq in E. subst t'. inversion H; subst; clear H.
    pose proof (flat_map_same took1 (ws s) k (WRun t) (WFin t) N eq_refl) as Pt.
    pose proof (flat_map_set_nth run1 (ws s) k (WRun t) (WFin t) N) as Pr. simpl in Pr.
    pose proof (flat_map_set_nth finc (ws s) k (WRun t) (WFin t) N) as Pf. simpl in Pf.
    pose proof (flat_map_same exc (ws s) k (WRun t) (WFin t) N eq_refl) as Pe.
    pose proof (flat_map_same dead1 (ws s) k (WRun t) (WFin t) N eq_refl) as Pd.
    constructor; cbn [queue ctr ws nsched started finished destroyed]; auto.
    + rewrite set_nth_length; auto.
    + eapply Permutation_trans; [|exact Vp]. apply Permutation_app_head.
      eapply Permutation_trans; [apply Permutation_app_tail; exact Pt|]. apply Permutation_app_head.
      eapply Permutation_trans; [apply Permutation_sym; apply Permutation_middle|].
      change (t :: flat_map run1 (set_nth (ws s) k (WFin t)) ++ finished s)
        with ((t :: flat_map run1 (set_nth (ws s) k (WFin t))) ++ finished s).
      apply Permutation_app_tail. exact Pr.
    + eapply Permutation_trans; [exact Vs|].
      eapply Permutation_trans; [apply Permutation_app_tail; apply Permutation_sym; exact Pr|]. simpl.
      apply Permutation_middle.
    + apply Permutation_length in Pf. simpl in Pf. rewrite (Permutation_length Pe). cbn [length]. lia.
    + intro D. destruct (Va D) as [Vq Vd]. split; [assumption|].
      apply Permutation_nil. rewrite <- Vd. apply Permutation_sym. exact Pd.
  - (* count *)
    destruct (nth_error (ws s) k) as [w|] eqn:N; [|discriminate]. destruct w as [| | |t| | |]; try discriminate; inversion H; subst; clear H.
    + pose proof (flat_map_same took1 (ws s) k (WFin t) WWait N eq_refl) as Pt.
      pose proof (flat_map_same run1 (ws s) k (WFin t) WWait N eq_refl) as Pr.
      pose proof (flat_map_set_nth finc (ws s) k (WFin t) WWait N) as Pf. simpl in Pf.
      pose proof (flat_map_same exc (ws s) k (WFin t) WWait N eq_refl) as Pe.
      pose proof (flat_map_same dead1 (ws s) k (WFin t) WWait N eq_refl) as Pd.
      constructor; cbn [queue ctr ws nsched started finished destroyed]; auto.
      * rewrite set_nth_length; auto.
      * eapply Permutation_trans; [|exact Vp]. apply Permutation_app_head.
        apply Permutation_app; [exact Pt | apply Permutation_app_tail; exact Pr].
      * eapply Permutation_trans; [exact Vs|]. apply Permutation_app_tail. apply Permutation_sym. exact Pr.
      * apply Permutation_length in Pf. simpl in Pf. rewrite (Permutation_length Pe). lia.
      * intro D. destruct (Va D) as [Vq Vd]. split; [assumption|].
        apply Permutation_nil. rewrite <- Vd. apply Permutation_sym. exact Pd.
    + pose proof (flat_map_same took1 (ws s) k WPoison WExit N eq_refl) as Pt.
      pose proof (flat_map_same run1 (ws s) k WPoison WExit N eq_refl) as Pr.
      pose proof (flat_map_same finc (ws s) k WPoison WExit N eq_refl) as Pf.
      pose proof (flat_map_set_nth exc (ws s) k WPoison WExit N) as Pe. simpl in Pe.
      constructor; cbn [queue ctr ws nsched started finished destroyed]; auto.
      * rewrite set_nth_length; auto.
      * eapply Permutation_trans; [|exact Vp]. apply Permutation_app_head.
        apply Permutation_app; [exact Pt | apply Permutation_app_tail; exact Pr].
      * eapply Permutation_trans; [exact Vs|]. apply Permutation_app_tail. apply Permutation_sym. exact Pr.
      * apply Permutation_length in Pe. simpl in Pe. rewrite (Permutation_length Pf). lia.
      * intro D. destruct (Va D) as [Vq Vd].
        pose proof (flat_map_set_nth dead1 (ws s) k WPoison WWait N) as Pd. simpl in Pd. rewrite Vd in Pd.
        apply Permutation_length in Pd. simpl in Pd. lia.
  - (* wait returns *)
    destruct (destroyed s); [discriminate|]. destruct (v <=? ctr s); [|discriminate]. inversion H; subst.
    constructor; auto.
  - (* destroy *)
    destruct (destroyed s) eqn:D; [discriminate|]. inversion H; subst; clear H.
    constructor; cbn [queue ctr ws nsched started finished destroyed]; auto.
    + rewrite qtasks_app, qtasks_repeat_none, app_nil_r. assumption.
    + discriminate.
  - (* join *)
    destruct (nth_error (ws s) k) as [w|] eqn:N; [|discriminate]. destruct w; try discriminate.
    destruct (destroyed s) eqn:D; [|discriminate]. inversion H; subst; clear H.
    pose proof (flat_map_same took1 (ws s) k WExit WJoined N eq_refl) as Pt.
    pose proof (flat_map_same run1 (ws s) k WExit WJoined N eq_refl) as Pr.
    pose proof (flat_map_same finc (ws s) k WExit WJoined N eq_refl) as Pf.
    pose proof (flat_map_same exc (ws s) k WExit WJoined N eq_refl) as Pe.
    constructor; cbn [queue ctr ws nsched started finished destroyed]; auto.
    + rewrite set_nth_length; auto.
    + eapply Permutation_trans; [|exact Vp]. apply Permutation_app_head.
      apply Permutation_app; [exact Pt | apply Permutation_app_tail; exact Pr].
    + eapply Permutation_trans; [exact Vs|]. apply Permutation_app_tail. apply Permutation_sym. exact Pr.
    + rewrite (Permutation_length Pf), (Permutation_length Pe). assumption.
    + discriminate.
Qed.

Lemma inv_reachable (n : nat) (s : st) : reachable n s -> Inv n s.
Proof. induction 1; [apply inv_init | eapply inv_step; eauto]. Qed.

Lemma run_reachable (n : nat) : forall (l : list ev) (s s' : st), reachable n s -> run s l = Some s' -> reachable n s'.
Proof.
  induction l as [|e r IH]; intros s s' R H; simpl in H.
  - inversion H; subst. assumption.
  - destruct (step s e) as [s1|] eqn:E; [|discriminate]. apply (IH s1 s'); [eapply reach_step; eauto | assumption].
Qed.

(* ------------------------------------------------------------------ theorems *)
Theorem pool_once :
  forall (n : nat) (s : st), reachable n s ->
    NoDup (started s) /\ (forall t : Z, In t (started s) -> 0 <= t < nsched s) /\ incl (finished s) (started s) /\
    NoDup (finished s).
Proof.
  intros n s R. destruct (inv_reachable n s R) as [Vl Vn Vp Vs Vc Va].
  assert (ND : NoDup (qtasks (queue s) ++ flat_map took1 (ws s) ++ flat_map run1 (ws s) ++ finished s)).
  { eapply Permutation_NoDup; [apply Permutation_sym; exact Vp | apply zseq_nodup]. }
  assert (ND2 : NoDup (flat_map run1 (ws s) ++ finished s)).
  { apply nd_app_r in ND. apply nd_app_r in ND. exact ND. }
  split; [eapply Permutation_NoDup; [apply Permutation_sym; exact Vs | exact ND2]|].
  split; [|split].
  - intros t Ht. apply (Permutation_in _ Vs) in Ht.
    assert (In t (zseq (Z.to_nat (nsched s)))) as Hz.
    { apply (Permutation_in _ Vp). apply in_or_app. right. apply in_or_app. right. exact Ht. }
    apply zseq_in in Hz. lia.
  - intros t Ht. apply (Permutation_in _ (Permutation_sym Vs)). apply in_or_app. right. exact Ht.
  - apply nd_app_r in ND2. exact ND2.
Qed.

Theorem wait_after_all :
  forall (n : nat) (s s' : st) (v : Z), reachable n s -> step s (EWaitRet v) = Some s' ->
    v <= Z.of_nat (length (finished s)) /\
    (v = nsched s ->
       Permutation (finished s) (zseq (Z.to_nat (nsched s))) /\ qtasks (queue s) = [] /\
       flat_map took1 (ws s) = [] /\ flat_map run1 (ws s) = [] /\ Permutation (started s) (finished s)).
Proof.
  intros n s s' v R H. destruct (inv_reachable n s R) as [Vl Vn Vp Vs Vc Va]. simpl in H.
  destruct (destroyed s) eqn:D; [discriminate|]. destruct (v <=? ctr s) eqn:L; [|discriminate]. apply Z.leb_le in L.
  destruct (Va eq_refl) as [Vq Vd].
  assert (Ex : flat_map exc (ws s) = []).
  { clear -Vd. induction (ws s) as [|w r IH]; simpl in *; auto. destruct w; simpl in *; try discriminate; auto. }
  rewrite Ex in Vc. simpl in Vc.
  split; [lia|]. intro Ev.
  pose proof (Permutation_length Vp) as PL. rewrite !app_length, zseq_length in PL.
  assert (Hq : length (qtasks (queue s)) = 0%nat /\ length (flat_map took1 (ws s)) = 0%nat /\ length (flat_map run1 (ws s)) = 0%nat) by lia.
  destruct Hq as [H1 [H2 H3]].
  apply length_zero_iff_nil in H1. apply length_zero_iff_nil in H2. apply length_zero_iff_nil in H3.
  rewrite H1, H2, H3 in Vp. simpl in Vp. rewrite H3 in Vs. simpl in Vs. auto.
Qed.

(* progress: while fewer completions have been counted than tasks scheduled, some worker step is enabled *)
Theorem worker_progress :
  forall (n : nat) (s : st), reachable n s -> (1 <= n)%nat -> destroyed s = false -> ctr s < nsched s ->
    exists (e : ev) (s' : st), step s e = Some s' /\ (exists k : nat, e = ETake k \/ (exists t : Z, e = EBegin k t \/ e = EEnd k t) \/ e = ECount k).
Proof.
  intros n s R Hn D Hc. destruct (inv_reachable n s R) as [Vl Vn Vp Vs Vc Va].
  destruct (Va D) as [Vq Vd].
  assert (Ex : flat_map exc (ws s) = []).
  { clear -Vd. induction (ws s) as [|w r IH]; simpl in *; auto. destruct w; simpl in *; try discriminate; auto. }
  (* is some worker not waiting? *)
  assert (Hcase : (exists (k : nat) (w : wstate), nth_error (ws s) k = Some w /\ w <> WWait) \/ Forall (fun w : wstate => w = WWait) (ws s)).
  { clear. induction (ws s) as [|w r IH]; [right; constructor|].
    destruct (wstate_eqb w WWait) eqn:E.
    - destruct w; try discriminate. destruct IH as [[k [w' [H1 H2]]]|IH]; [left; exists (S k), w'; auto | right; constructor; auto].
    - left. exists 0%nat, w. split; [reflexivity|]. intro; subst; discriminate. }
  destruct Hcase as [[k [w [N Hw]]]|Hall].
  - destruct w as [|t|t|t| | |]; try congruence.
    + exists (EBegin k t). eexists. simpl. rewrite N, Z.eqb_refl. split; [reflexivity|]. exists k. right. left. exists t. auto.
    + exists (EEnd k t). eexists. simpl. rewrite N, Z.eqb_refl. split; [reflexivity|]. exists k. right. left. exists t. auto.
    + exists (ECount k). eexists. simpl. rewrite N. split; [reflexivity|]. exists k. auto.
    + exfalso. pose proof (flat_map_set_nth dead1 (ws s) k WPoison WWait N) as P. simpl in P. rewrite Vd in P.
      apply Permutation_length in P. simpl in P. lia.
    + exfalso. pose proof (flat_map_set_nth dead1 (ws s) k WExit WWait N) as P. simpl in P. rewrite Vd in P.
      apply Permutation_length in P. simpl in P. lia.
    + exfalso. pose proof (flat_map_set_nth dead1 (ws s) k WJoined WWait N) as P. simpl in P. rewrite Vd in P.
      apply Permutation_length in P. simpl in P. lia.
  - assert (Z1 : flat_map took1 (ws s) = [] /\ flat_map run1 (ws s) = [] /\ flat_map finc (ws s) = []).
    { clear -Hall. induction Hall as [|w r Hw Hr IH]; simpl; auto. subst w. simpl. assumption. }
    destruct Z1 as [Zt [Zr Zf]]. rewrite Zt, Zr in Vp. simpl in Vp. rewrite Zf, Ex in Vc. simpl in Vc.
    pose proof (Permutation_length Vp) as PL. rewrite app_length, zseq_length in PL.
    destruct (queue s) as [|x q] eqn:Q; [simpl in PL; lia|].
    destruct x as [t|]; [|inversion Vq; congruence].
    destruct (ws s) as [|w r] eqn:W; [simpl in Vl; lia|]. inversion Hall; subst.
    exists (ETake 0). eexists. simpl. rewrite W, Q. simpl. split; [reflexivity|]. exists 0%nat. auto.
Qed.

(* ------------------------------------------------------------------ asset compilation as a ParMap batch *)
(* location (a, f): field f of asset a (meshes first, then textures); asset a is owned by task a *)
Definition asset_own (nasset : nat) (l : loc) : owner :=
  if ((0 <=? fst l) && (fst l <? Z.of_nat nasset))%Z then OTask (Z.to_nat (fst l)) else ORead.

Lemma asset_own_no_scratch (n : nat) (l : loc) (t : nat) : asset_own n l <> OScratch t.
Proof. unfold asset_own. destruct ((0 <=? fst l) && (fst l <? Z.of_nat n))%Z; discriminate. Qed.

Theorem assets_schedule_independent :
  forall (V : Type) (nasset : nat) (tasks : nat -> nat -> prog V) (m0 : mem V),
    (forall i t : nat, (i < nasset)%nat -> respects (asset_own nasset) i t (tasks i t)) ->
    scratch_clean (asset_own nasset) nasset tasks ->
    forall c : cfg V, steps tasks (init_cfg nasset m0) c -> final_cfg c ->
      forall l : loc, cmem c l = seq_run tasks nasset m0 l.
Proof.
  intros V n tasks m0 Hr Hc c St Fin l.
  apply (schedule_independent V (asset_own n) n tasks m0 Hr Hc c St Fin l).
  intro t. apply asset_own_no_scratch.
Qed.

(* ------------------------------------------------------------------ hidden per-thread state breaks the hypothesis *)
Lemma tl_task_not_clean : ~ scratch_clean (site_owner tl_site) 2 tl_task.
Proof.
  intro H.
  specialize (H 0%nat 0%nat 0%nat (fun _ : loc => 0%Z) (fun l : loc => if loc_eqb l (22%Z, 0%Z) then 5%Z else 0%Z)).
  assert (Hlt : (0 < 2)%nat) by (repeat constructor).
  specialize (H Hlt).
  assert (A : forall l : loc, site_owner tl_site l = ORead \/ site_owner tl_site l = OTask 0 ->
                (fun _ : loc => 0%Z) l = (fun l0 : loc => if loc_eqb l0 (22%Z, 0%Z) then 5%Z else 0%Z) l).
  { intros l Ho. cbv beta. destruct (loc_eqb l (22%Z, 0%Z)) eqn:E; [|reflexivity]. exfalso.
    apply loc_eqb_eq in E. subst l. vm_compute in Ho. destruct Ho as [Ho|Ho]; discriminate. }
  specialize (H A (1%Z, 0%Z) eq_refl). vm_compute in H. discriminate.
Qed.

(* ------------------------------------------------------------------ strided save / restore of per-object state *)
Lemma save_restore_shift {A : Type} (stride : nat) (a rest : list A) (n : nat) (s : nat) :
  length a = stride ->
  flat_map (fun k : nat => slice (stride * k) stride (a ++ rest)) (seq (S s) n) =
  flat_map (fun k : nat => slice (stride * k) stride rest) (seq s n).
Proof.
  intro La. revert s. induction n as [|n IH]; intro s; simpl; [reflexivity|].
  rewrite IH. f_equal. unfold slice. f_equal.
  replace (stride * S s)%nat with (length a + stride * s)%nat by (rewrite La; lia).
  rewrite skipn_app. rewrite skipn_all2 by lia. simpl.
  replace (length a + stride * s - length a)%nat with (stride * s)%nat by lia. reflexivity.
Qed.

Theorem save_restore_id :
  forall (A : Type) (stride n : nat) (l : list A), length l = (stride * n)%nat -> save_restore stride stride n l = l.
Proof.
  intros A stride n. unfold save_restore. induction n as [|n IH]; intros l Hl.
  - rewrite Nat.mul_0_r in Hl. apply length_zero_iff_nil in Hl. subst. reflexivity.
  - assert (La : length (firstn stride l) = stride) by (rewrite firstn_length; lia).
    assert (Lr : length (skipn stride l) = (stride * n)%nat) by (rewrite skipn_length; lia).
    rewrite <- (firstn_skipn stride l). generalize dependent (skipn stride l). generalize dependent (firstn stride l).
    intros a La r Lr. cbn [seq flat_map]. rewrite (save_restore_shift stride a r n 0 La). rewrite (IH r Lr).
    f_equal. unfold slice. rewrite Nat.mul_0_r. simpl skipn.
    rewrite firstn_app. rewrite La, Nat.sub_diag. simpl. rewrite app_nil_r. apply firstn_all2. lia.
Qed.

(* with one shared offset 3*k for a stride-4 array (mocap_quat) the second object already comes back wrong *)
Lemma save_restore_shared_offset_wrong :
  save_restore 3 4 2 [10; 11; 12; 13; 20; 21; 22; 23]%Z <> [10; 11; 12; 13; 20; 21; 22; 23]%Z /\
  save_restore 3 3 2 [10; 11; 12; 20; 21; 22]%Z = [10; 11; 12; 20; 21; 22]%Z /\
  save_restore 3 4 1 [10; 11; 12; 13]%Z = [10; 11; 12; 13]%Z.
Proof. vm_compute. repeat split; try reflexivity. discriminate. Qed.

(* ------------------------------------------------------------------ CopyList keeps everything that resolves *)
Lemma copy_list_complete {A : Type} (resolves : A -> bool) (l : list A) :
  (forall x : A, In x l -> resolves x = true) <-> copy_list resolves l = l.
Proof.
  unfold copy_list. induction l as [|x r IH]; simpl; [tauto|]. split.
  - intro H. rewrite (H x (or_introl eq_refl)). f_equal. apply IH. intros y Hy. apply H. right. exact Hy.
  - intro H. destruct (resolves x) eqn:E.
    + inversion H as [H1]. rewrite H1. intros y [<-|Hy]; [exact E | apply IH; assumption].
    + exfalso. assert (L : forall q : list A, (length (filter resolves q) <= length q)%nat).
      { induction q as [|y q IHq]; simpl; [lia|]. destruct (resolves y); simpl; lia. }
      specialize (L r). rewrite H in L. simpl in L. lia.
Qed.

(* ------------------------------------------------------------------ frame compile is idempotent *)
Lemma frame_compile_idem (parent local pos0 : Z) :
  frame_compile false parent local (frame_compile false parent local (false, pos0)) = (true, (parent + local)%Z).
Proof. reflexivity. Qed.

Lemma frame_compile_reset_loses_parent (parent local pos0 : Z) :
  parent <> 0%Z -> snd (frame_compile true parent local (frame_compile true parent local (false, pos0))) <> (parent + local)%Z.
Proof. intro H. simpl. lia. Qed.
