(* Real-number theorems about the numeric kernels of Model/Ray.v (ray_quad, ray_sphere, ray_plane,
   ray_box): the returned parameter is the least t >= 0 with pnt + t*vec on the surface. *)
From Coq Require Import ZArith List Bool PrimFloat Reals Lra Lia Psatz.
From MJV Require Import Lib.Num Lib.NumR Model.Ray.
Import ListNotations.
Open Scope R_scope.
Open Scope bool_scope.

Notation mv := (minval (T:=R)).

Lemma minval_pos : 0 < mv.
Proof.
  unfold minval. num_R. unfold Rdec. apply Rdiv_lt_0_compat; [lra|]. apply IZR_lt. reflexivity.
Qed.

Lemma neg1_R : neg1 (T:=R) = -1.
Proof. unfold neg1. num_R. reflexivity. Qed.

(* ------------------------------------------------------------------ ray_quad *)
Definition qpoly (a b c t : R) : R := a * t * t + 2 * b * t + c.

Theorem quad_spec a b c : mv <= a ->
  let r := quad_ret (ray_quad a b c) in
  (0 <= r -> qpoly a b c r = 0 /\ forall t, 0 <= t -> qpoly a b c t = 0 -> r <= t) /\
  (r < 0 -> r = -1 /\ forall t, 0 <= t -> qpoly a b c t <> 0).
Proof.
  intros Ha r. subst r. pose proof minval_pos as Hm.
  assert (Ha0 : 0 < a) by lra.
  unfold ray_quad, quad_ret, qpoly. rewrite !neg1_R. num_R.
  destruct (Rltb (b * b - a * c) 0) eqn:Ed; cbn [orb snd fst].
  { apply Rltb_true in Ed. split; [intro; exfalso; lra|]. intros _. split; [reflexivity|].
    intros t Ht E. assert (a * (a * t * t + 2 * b * t + c) = (a * t + b) * (a * t + b) - (b * b - a * c)) by ring.
    rewrite E, Rmult_0_r in H. pose proof (Rle_0_sqr (a * t + b)) as Hsq. unfold Rsqr in Hsq. lra. }
  apply Rltb_false in Ed.
  destruct (Rltb a mv) eqn:Ea; cbn [orb snd fst].
  { apply Rltb_true in Ea. lra. }
  clear Ea.
  remember (sqrt (b * b - a * c)) as s eqn:Es.
  assert (Hs0 : 0 <= s) by (subst s; apply sqrt_pos).
  assert (Hss : s * s = b * b - a * c) by (subst s; apply sqrt_sqrt; lra).
  remember ((- b - s) / a) as x0 eqn:Ex0. remember ((- b + s) / a) as x1 eqn:Ex1.
  assert (Hx01 : x0 <= x1).
  { subst x0 x1. apply Rmult_le_compat_r; [left; apply Rinv_0_lt_compat; lra | lra]. }
  assert (Hfac : forall t, a * t * t + 2 * b * t + c = a * (t - x0) * (t - x1)).
  { intro t. subst x0 x1. replace c with ((b * b - s * s) / a) by (rewrite Hss; field; lra). field. lra. }
  assert (Hroot : forall t, a * t * t + 2 * b * t + c = 0 -> t = x0 \/ t = x1).
  { intros t E. rewrite Hfac in E. apply Rmult_integral in E. destruct E as [E | E]; [|right; lra].
    apply Rmult_integral in E. destruct E as [E | E]; [lra | left; lra]. }
  clear Es Ex0 Ex1.
  destruct (Rleb 0 x0) eqn:E0; cbn [orb snd fst].
  { apply Rleb_true in E0. split; [|intro; exfalso; lra]. intros _. split.
    - rewrite Hfac. ring.
    - intros t Ht E. destruct (Hroot t E); lra. }
  apply Rleb_false in E0.
  destruct (Rleb 0 x1) eqn:E1; cbn [orb snd fst].
  { apply Rleb_true in E1. split; [|intro; exfalso; lra]. intros _. split.
    - rewrite Hfac. ring.
    - intros t Ht E. destruct (Hroot t E); lra. }
  apply Rleb_false in E1. split; [intro; exfalso; lra|]. intros _. split; [reflexivity|].
  intros t Ht E. destruct (Hroot t E); lra.
Qed.

(* the result is always -1 or non-negative *)
Lemma quad_ret_range a b c : quad_ret (ray_quad a b c) = -1 \/ 0 <= quad_ret (ray_quad a b c).
Proof.
  unfold ray_quad, quad_ret. rewrite !neg1_R. num_R.
  destruct (Rltb (b * b - a * c) 0 || Rltb a mv); cbn [snd fst]; [left; reflexivity|].
  destruct (Rleb 0 ((- b - sqrt (b * b - a * c)) / a)) eqn:E0; [right; apply Rleb_true; exact E0|].
  destruct (Rleb 0 ((- b + sqrt (b * b - a * c)) / a)) eqn:E1; [right; apply Rleb_true; exact E1|].
  left. reflexivity.
Qed.

(* ------------------------------------------------------------------ ray_sphere *)
Definition v3 : Type := (R * R * R)%type.
Definition at_t (pnt vec : v3) (t : R) : v3 :=
  match pnt, vec with (p0, p1, p2), (w0, w1, w2) => (p0 + t * w0, p1 + t * w1, p2 + t * w2) end.
Definition dist2 (p q : v3) : R :=
  match p, q with (p0, p1, p2), (q0, q1, q2) => (p0 - q0) * (p0 - q0) + (p1 - q1) * (p1 - q1) + (p2 - q2) * (p2 - q2) end.

Theorem sphere_spec (pos : v3) (rr : R) (pnt vec : v3) :
  mv <= dot3 vec vec ->
  let r := ray_sphere pos rr pnt vec in
  (0 <= r -> dist2 (at_t pnt vec r) pos = rr /\ forall t, 0 <= t -> dist2 (at_t pnt vec t) pos = rr -> r <= t) /\
  (r < 0 -> r = -1 /\ forall t, 0 <= t -> dist2 (at_t pnt vec t) pos <> rr).
Proof.
  intros Hv r. subst r. unfold ray_sphere.
  destruct pos as [[c0 c1] c2], pnt as [[p0 p1] p2], vec as [[w0 w1] w2].
  set (dif := sub3 (p0, p1, p2) (c0, c1, c2)).
  assert (Hpoly : forall t, dist2 (at_t (p0, p1, p2) (w0, w1, w2) t) (c0, c1, c2) - rr =
            qpoly (dot3 (w0, w1, w2) (w0, w1, w2)) (dot3 (w0, w1, w2) dif) (dot3 dif dif - rr) t).
  { intro t. unfold dist2, at_t, qpoly, dot3, dif, sub3. num_R. ring. }
  destruct (quad_spec _ (dot3 (w0, w1, w2) dif) (dot3 dif dif - rr) Hv) as [H1 H2].
  num_R. split.
  - intro Hr. destruct (H1 Hr) as [E M]. split.
    + specialize (Hpoly (quad_ret (ray_quad (dot3 (w0, w1, w2) (w0, w1, w2)) (dot3 (w0, w1, w2) dif) (dot3 dif dif - rr)))).
      num_R. lra.
    + intros t Ht Et. apply M; [assumption|]. rewrite <- Hpoly. lra.
  - intro Hr. destruct (H2 Hr) as [E M]. split; [assumption|].
    intros t Ht Et. apply (M t Ht). rewrite <- Hpoly. lra.
Qed.

(* ------------------------------------------------------------------ ray_map is linear in t *)
Lemma ray_map_at (pos : v3) (mat : mat9) (pnt vec : v3) t :
  fst (ray_map pos mat (at_t pnt vec t) vec) = at_t (fst (ray_map pos mat pnt vec)) (snd (ray_map pos mat pnt vec)) t.
Proof.
  destruct pos as [[c0 c1] c2], pnt as [[p0 p1] p2], vec as [[w0 w1] w2].
  destruct mat as [[[[[[[[m0 m1] m2] m3] m4] m5] m6] m7] m8].
  unfold ray_map, at_t, mulT, sub3. simpl. num_R. f_equal; [f_equal|]; ring.
Qed.

(* ------------------------------------------------------------------ ray_plane *)
(* local point p is on the rendered rectangle of the plane z = 0 (size <= 0: unbounded) *)
Definition on_plane (size : v3) (p : v3) : Prop :=
  match size, p with (s0, s1, _), (x, y, z) => z = 0 /\ (s0 <= 0 \/ Rabs x <= s0) /\ (s1 <= 0 \/ Rabs y <= s1) end.

Theorem plane_spec (pos : v3) (mat : mat9) (size pnt vec : v3) :
  let lp := fst (ray_map pos mat pnt vec) in
  let lv := snd (ray_map pos mat pnt vec) in
  let vz := snd lv in
  let r := ray_plane pos mat size pnt vec in
  (r = -1 \/ 0 <= r) /\
  (0 <= r -> vz <= - mv /\ on_plane size (at_t lp lv r)) /\
  (forall t, 0 <= t -> vz <= - mv -> on_plane size (at_t lp lv t) -> r = t).
Proof.
  intros lp lv vz r. subst lp lv vz r. pose proof minval_pos as Hm.
  unfold ray_plane. destruct (ray_map pos mat pnt vec) as [[[l0 l1] l2] [[w0 w1] w2]].
  destruct size as [[s0 s1] s2]. simpl fst; simpl snd. rewrite !neg1_R. num_R.
  destruct (Rltb (- mv) w2) eqn:Ef.
  { apply Rltb_true in Ef. split; [left; reflexivity|]. split; [intro; exfalso; lra|]. intros t Ht Hv _. lra. }
  apply Rltb_false in Ef.
  assert (Hw : w2 <> 0) by lra.
  destruct (Rltb (- l2 / w2) 0) eqn:Ex.
  { apply Rltb_true in Ex. split; [left; reflexivity|]. split; [intro; exfalso; lra|].
    intros t Ht Hv Hon. unfold on_plane, at_t in Hon. destruct Hon as [Hz _].
    assert (t = - l2 / w2) by (field_simplify_eq; [lra | assumption]). lra. }
  apply Rltb_false in Ex.
  set (x := - l2 / w2) in *.
  assert (Hzx : l2 + x * w2 = 0) by (unfold x; field; assumption).
  destruct ((Rleb s0 0 || Rleb (Rabs (l0 + x * w0)) s0) && (Rleb s1 0 || Rleb (Rabs (l1 + x * w1)) s1)) eqn:Er.
  - apply andb_true_iff in Er. destruct Er as [Er0 Er1].
    apply orb_true_iff in Er0. apply orb_true_iff in Er1. rewrite !Rleb_true in Er0, Er1.
    split; [right; exact Ex|]. split.
    + intros _. split; [exact Ef|]. unfold on_plane, at_t. auto.
    + intros t Ht Hv Hon. unfold on_plane, at_t in Hon. destruct Hon as [Hz _].
      unfold x. field_simplify_eq; [lra | assumption].
  - split; [left; reflexivity|]. split; [intro; exfalso; lra|].
    intros t Ht Hv Hon. exfalso. unfold on_plane, at_t in Hon. destruct Hon as [Hz [H0 H1]].
    assert (Et : t = x) by (unfold x; field_simplify_eq; [lra | assumption]). subst t.
    apply andb_false_iff in Er. destruct Er as [Er | Er]; apply orb_false_iff in Er; destruct Er as [Ea Eb];
      apply Rleb_false in Ea; apply Rleb_false in Eb; lra.
Qed.

(* ------------------------------------------------------------------ ray_quad: no root means outside *)
Lemma quad_neg_pos a b c : mv <= a -> quad_ret (ray_quad a b c) < 0 ->
  forall t, 0 <= t -> 0 < qpoly a b c t.
Proof.
  intros Ha Hr t Ht. pose proof minval_pos as Hm. assert (Ha0 : 0 < a) by lra.
  revert Hr. unfold ray_quad, quad_ret, qpoly. rewrite !neg1_R. num_R.
  destruct (Rltb (b * b - a * c) 0) eqn:Ed; cbn [orb snd fst].
  { intros _. apply Rltb_true in Ed.
    assert (H : a * (a * t * t + 2 * b * t + c) = (a * t + b) * (a * t + b) - (b * b - a * c)) by ring.
    pose proof (Rle_0_sqr (a * t + b)) as Hsq. unfold Rsqr in Hsq.
    assert (0 < a * (a * t * t + 2 * b * t + c)) by lra.
    apply (Rmult_lt_reg_l a); [assumption | lra]. }
  apply Rltb_false in Ed.
  destruct (Rltb a mv) eqn:Ea; cbn [orb snd fst].
  { apply Rltb_true in Ea. lra. }
  clear Ea.
  remember (sqrt (b * b - a * c)) as s eqn:Es.
  assert (Hs0 : 0 <= s) by (subst s; apply sqrt_pos).
  assert (Hss : s * s = b * b - a * c) by (subst s; apply sqrt_sqrt; lra).
  remember ((- b - s) / a) as x0 eqn:Ex0. remember ((- b + s) / a) as x1 eqn:Ex1.
  assert (Hx01 : x0 <= x1).
  { subst x0 x1. apply Rmult_le_compat_r; [left; apply Rinv_0_lt_compat; lra | lra]. }
  assert (Hfac : a * t * t + 2 * b * t + c = a * (t - x0) * (t - x1)).
  { subst x0 x1. replace c with ((b * b - s * s) / a) by (rewrite Hss; field; lra). field. lra. }
  clear Es Ex0 Ex1.
  destruct (Rleb 0 x0) eqn:E0; cbn [orb snd fst].
  { apply Rleb_true in E0. intro; lra. }
  apply Rleb_false in E0.
  destruct (Rleb 0 x1) eqn:E1; cbn [orb snd fst].
  { apply Rleb_true in E1. intro; lra. }
  apply Rleb_false in E1. intros _. rewrite Hfac.
  apply Rmult_lt_0_compat; [apply Rmult_lt_0_compat|]; lra.
Qed.

(* ------------------------------------------------------------------ ray_box, local coordinates *)
Lemma face_some li vi si lj vj sj lk vk sk side sol :
  box_face li vi si lj vj sj lk vk sk side = Some sol ->
  mv < Rabs vi /\ li + sol * vi = side * si /\ 0 <= sol /\ Rabs (lj + sol * vj) <= sj /\ Rabs (lk + sol * vk) <= sk.
Proof.
  unfold box_face. num_R.
  destruct (Rltb mv (Rabs vi)) eqn:Ev; [|discriminate]. apply Rltb_true in Ev.
  assert (Hv : vi <> 0). { intro E. subst. rewrite Rabs_R0 in Ev. pose proof minval_pos. lra. }
  destruct (Rleb 0 ((side * si - li) / vi)) eqn:Es; [|discriminate]. apply Rleb_true in Es.
  destruct (Rleb (Rabs (lj + (side * si - li) / vi * vj)) sj && Rleb (Rabs (lk + (side * si - li) / vi * vk)) sk) eqn:Er; [|discriminate].
  apply andb_true_iff in Er. destruct Er as [E1 E2]. apply Rleb_true in E1. apply Rleb_true in E2.
  intro E. injection E as E. subst sol. repeat split; try assumption. field. assumption.
Qed.

Lemma face_hit li vi si lj vj sj lk vk sk side t :
  mv < Rabs vi -> 0 <= t -> li + t * vi = side * si -> Rabs (lj + t * vj) <= sj -> Rabs (lk + t * vk) <= sk ->
  box_face li vi si lj vj sj lk vk sk side = Some t.
Proof.
  intros Ev Ht Eq H1 H2. unfold box_face. num_R.
  assert (Hv : vi <> 0). { intro E. subst. rewrite Rabs_R0 in Ev. pose proof minval_pos. lra. }
  assert (Et : (side * si - li) / vi = t) by (rewrite <- Eq; field; assumption).
  rewrite Et.
  replace (Rltb mv (Rabs vi)) with true by (symmetry; apply Rltb_true; assumption).
  replace (Rleb 0 t) with true by (symmetry; apply Rleb_true; assumption).
  replace (Rleb (Rabs (lj + t * vj)) sj) with true by (symmetry; apply Rleb_true; assumption).
  replace (Rleb (Rabs (lk + t * vk)) sk) with true by (symmetry; apply Rleb_true; assumption).
  reflexivity.
Qed.

(* the running minimum over the accepted faces *)
Definition upd_inv (seen : list (option R)) (x : R) : Prop :=
  (x = -1 /\ forall sol, ~ In (Some sol) seen) \/
  (0 <= x /\ In (Some x) seen /\ forall sol, In (Some sol) seen -> x <= sol).

Lemma upd_step seen x c : (forall sol, c = Some sol -> 0 <= sol) ->
  upd_inv seen x -> upd_inv (seen ++ [c]) (box_upd x c).
Proof.
  intros Hc Hinv. unfold box_upd. num_R. destruct c as [sol|].
  - specialize (Hc sol eq_refl).
    destruct Hinv as [(E & Hn) | (Hx & Hin & Hmin)].
    + subst x. replace (Rltb (-1) 0) with true by (symmetry; apply Rltb_true; lra). cbn [orb].
      right. split; [assumption|]. split; [apply in_or_app; right; left; reflexivity|].
      intros s' Hs. apply in_app_or in Hs. destruct Hs as [Hs | [Hs | []]]; [exfalso; exact (Hn s' Hs)|].
      injection Hs as Hs. lra.
    + replace (Rltb x 0) with false by (symmetry; apply Rltb_false; lra). cbn [orb].
      destruct (Rltb sol x) eqn:El.
      * apply Rltb_true in El. right. split; [assumption|]. split; [apply in_or_app; right; left; reflexivity|].
        intros s' Hs. apply in_app_or in Hs. destruct Hs as [Hs | [Hs | []]].
        -- specialize (Hmin s' Hs). lra.
        -- injection Hs as Hs. lra.
      * apply Rltb_false in El. right. split; [assumption|]. split; [apply in_or_app; left; assumption|].
        intros s' Hs. apply in_app_or in Hs. destruct Hs as [Hs | [Hs | []]]; [auto|].
        injection Hs as Hs. lra.
  - destruct Hinv as [(E & Hn) | (Hx & Hin & Hmin)].
    + left. split; [assumption|]. intros s' Hs. apply in_app_or in Hs. destruct Hs as [Hs | [Hs | []]]; [exact (Hn s' Hs) | discriminate].
    + right. split; [assumption|]. split; [apply in_or_app; left; assumption|].
      intros s' Hs. apply in_app_or in Hs. destruct Hs as [Hs | [Hs | []]]; [auto | discriminate].
Qed.

Lemma upd_fold : forall cs seen x, (forall sol, In (Some sol) cs -> 0 <= sol) ->
  upd_inv seen x -> upd_inv (seen ++ cs) (fold_left box_upd cs x).
Proof.
  induction cs as [|c r IH]; intros seen x Hc Hinv; simpl.
  - rewrite app_nil_r. exact Hinv.
  - replace (seen ++ c :: r) with ((seen ++ [c]) ++ r) by (rewrite <- app_assoc; reflexivity).
    apply IH; [intros sol Hs; apply Hc; right; exact Hs|].
    apply upd_step; [|exact Hinv]. intros sol E. apply Hc. left. exact E.
Qed.

(* p is on the surface of the box with half sizes s *)
Definition on_box (s p : v3) : Prop :=
  match s, p with (s0, s1, s2), (x, y, z) =>
    (Rabs x <= s0 /\ Rabs y <= s1 /\ Rabs z <= s2) /\ (Rabs x = s0 \/ Rabs y = s1 \/ Rabs z = s2) end.

(* the direction is not degenerate on axis i: parallel to the faces and not inside a face plane,
   or with a component above the mjMINVAL threshold *)
Definition axis_ok (li vi si : R) : Prop := (vi = 0 /\ Rabs li <> si) \/ mv < Rabs vi.

Lemma abs_side x s : 0 < s -> (Rabs x = s <-> x = -1 * s \/ x = 1 * s).
Proof.
  intro Hs. unfold Rabs. destruct (Rcase_abs x); split; intro H; try lra; destruct H; lra.
Qed.

Theorem box_local_spec (l v s : v3) :
  match l, v, s with (l0, l1, l2), (v0, v1, v2), (s0, s1, s2) =>
    0 < s0 -> 0 < s1 -> 0 < s2 -> axis_ok l0 v0 s0 -> axis_ok l1 v1 s1 -> axis_ok l2 v2 s2 ->
    let r := box_local l v s in
    (r = -1 \/ 0 <= r) /\
    (0 <= r -> on_box s (at_t l v r)) /\
    (forall t, 0 <= t -> on_box s (at_t l v t) -> 0 <= r /\ r <= t)
  end.
Proof.
  destruct l as [[l0 l1] l2], v as [[v0 v1] v2], s as [[s0 s1] s2].
  intros P0 P1 P2 A0 A1 A2 r. subst r. unfold box_local. rewrite !neg1_R. num_R.
  set (cs := [box_face l0 v0 s0 l1 v1 s1 l2 v2 s2 (-1); box_face l0 v0 s0 l1 v1 s1 l2 v2 s2 1;
              box_face l1 v1 s1 l0 v0 s0 l2 v2 s2 (-1); box_face l1 v1 s1 l0 v0 s0 l2 v2 s2 1;
              box_face l2 v2 s2 l0 v0 s0 l1 v1 s1 (-1); box_face l2 v2 s2 l0 v0 s0 l1 v1 s1 1]).
  assert (Hpos : forall sol, In (Some sol) cs -> 0 <= sol).
  { intros sol Hin. unfold cs in Hin. simpl in Hin.
    destruct Hin as [H | [H | [H | [H | [H | [H | []]]]]]]; apply face_some in H; tauto. }
  pose proof (upd_fold cs [] (-1) Hpos) as Hinv. simpl app in Hinv.
  assert (H0 : upd_inv [] (-1)) by (left; split; [reflexivity | intros ? []]).
  specialize (Hinv H0). clear H0.
  assert (Hsound : forall sol, In (Some sol) cs -> on_box (s0, s1, s2) (at_t (l0, l1, l2) (v0, v1, v2) sol)).
  { intros sol Hin. unfold cs in Hin. simpl in Hin. unfold on_box, at_t.
    destruct Hin as [H | [H | [H | [H | [H | [H | []]]]]]]; apply face_some in H; destruct H as (_ & E & _ & B1 & B2);
      (assert (Ea : Rabs (l0 + sol * v0) = s0 \/ Rabs (l1 + sol * v1) = s1 \/ Rabs (l2 + sol * v2) = s2);
       [ first [ left; rewrite E | right; left; rewrite E | right; right; rewrite E ];
         first [ rewrite Rabs_left by lra; lra | rewrite Rabs_right by lra; lra ]
       | split; [|exact Ea]; repeat split; try assumption; rewrite E;
         first [ rewrite Rabs_left by lra; lra | rewrite Rabs_right by lra; lra ] ]). }
  split; [|split].
  - destruct Hinv as [(E & _) | (Hx & _)]; [left; exact E | right; exact Hx].
  - intro Hr. destruct Hinv as [(E & _) | (_ & Hin & _)]; [lra|]. apply Hsound. exact Hin.
  - intros t Ht Hon.
    assert (Hc : In (Some t) cs).
    { unfold on_box, at_t in Hon. destruct Hon as [(B0 & B1 & B2) [E | [E | E]]].
      - destruct A0 as [[Z N] | Av].
        + exfalso. subst v0. rewrite Rmult_0_r, Rplus_0_r in E. contradiction.
        + apply (abs_side _ _ P0) in E. destruct E as [E | E].
          * unfold cs. left. apply face_hit; assumption.
          * unfold cs. right. left. apply face_hit; assumption.
      - destruct A1 as [[Z N] | Av].
        + exfalso. subst v1. rewrite Rmult_0_r, Rplus_0_r in E. contradiction.
        + apply (abs_side _ _ P1) in E. destruct E as [E | E].
          * unfold cs. right. right. left. apply face_hit; assumption.
          * unfold cs. right. right. right. left. apply face_hit; assumption.
      - destruct A2 as [[Z N] | Av].
        + exfalso. subst v2. rewrite Rmult_0_r, Rplus_0_r in E. contradiction.
        + apply (abs_side _ _ P2) in E. destruct E as [E | E].
          * unfold cs. right. right. right. right. left. apply face_hit; assumption.
          * unfold cs. right. right. right. right. right. left. apply face_hit; assumption. }
    destruct Hinv as [(_ & Hn) | (Hx & _ & Hmin)]; [exfalso; exact (Hn t Hc)|].
    split; [exact Hx | exact (Hmin t Hc)].
Qed.

(* ------------------------------------------------------------------ ray_box, global frame *)
Lemma sphere_poly (pos : v3) (rr : R) (pnt vec : v3) t :
  dist2 (at_t pnt vec t) pos - rr =
  qpoly (dot3 vec vec) (dot3 vec (sub3 pnt pos)) (dot3 (sub3 pnt pos) (sub3 pnt pos) - rr) t.
Proof.
  destruct pos as [[c0 c1] c2], pnt as [[p0 p1] p2], vec as [[w0 w1] w2].
  unfold dist2, at_t, qpoly, dot3, sub3. num_R. ring.
Qed.

(* mat preserves lengths (true of every rotation matrix) *)
Definition orth (mat : mat9) : Prop := forall d : v3, dot3 (mulT mat d) (mulT mat d) = dot3 d d.

Lemma abs_sq x s : Rabs x <= s -> x * x <= s * s.
Proof. unfold Rabs. destruct (Rcase_abs x); intro H; nra. Qed.

Theorem box_spec (pos : v3) (mat : mat9) (size pnt vec : v3) :
  let lp := fst (ray_map pos mat pnt vec) in
  let lv := snd (ray_map pos mat pnt vec) in
  orth mat -> mv <= dot3 vec vec ->
  match lp, lv, size with (l0, l1, l2), (v0, v1, v2), (s0, s1, s2) =>
    0 < s0 -> 0 < s1 -> 0 < s2 -> axis_ok l0 v0 s0 -> axis_ok l1 v1 s1 -> axis_ok l2 v2 s2 ->
    let r := ray_box pos mat size pnt vec in
    (r = -1 \/ 0 <= r) /\
    (0 <= r -> on_box size (at_t lp lv r)) /\
    (forall t, 0 <= t -> on_box size (at_t lp lv t) -> 0 <= r /\ r <= t)
  end.
Proof.
  intros lp lv Horth Hvec.
  pose proof (box_local_spec lp lv size) as HL.
  destruct lp as [[l0 l1] l2] eqn:Elp, lv as [[v0 v1] v2] eqn:Elv, size as [[s0 s1] s2] eqn:Esz.
  intros P0 P1 P2 A0 A1 A2 r. specialize (HL P0 P1 P2 A0 A1 A2). subst r.
  unfold ray_box. rewrite neg1_R. num_R.
  fold lp lv. subst lp lv. rewrite Elp, Elv.
  destruct (Rltb (ray_sphere pos (dot3 (s0, s1, s2) (s0, s1, s2)) pnt vec) 0) eqn:Es.
  - apply Rltb_true in Es. split; [left; reflexivity|]. split; [intro; exfalso; lra|].
    intros t Ht Hon. exfalso.
    unfold ray_sphere in Es.
    pose proof (quad_neg_pos _ _ _ Hvec Es t Ht) as Hq. rewrite <- sphere_poly in Hq.
    (* the local point has the same length as the global offset *)
    pose proof (ray_map_at pos mat pnt vec t) as Hm. rewrite Elp, Elv in Hm.
    assert (Hn : dist2 (at_t pnt vec t) pos = dot3 (at_t (l0, l1, l2) (v0, v1, v2) t) (at_t (l0, l1, l2) (v0, v1, v2) t)).
    { rewrite <- Hm. unfold ray_map. cbn [fst]. rewrite Horth.
      destruct (at_t pnt vec t) as [[q0 q1] q2], pos as [[c0 c1] c2]. unfold dist2, dot3, sub3. num_R. ring. }
    unfold on_box, at_t in Hon. destruct Hon as [(B0 & B1 & B2) _].
    apply abs_sq in B0. apply abs_sq in B1. apply abs_sq in B2.
    rewrite Hn in Hq. unfold at_t, dot3 in Hq. num_R. lra.
  - exact HL.
Qed.
