(* Proofs at R about Model/Spatial.v (C24). *)
From Coq Require Import ZArith List PrimFloat Reals Lra Lia Psatz Nsatz Bool String Ascii.
From MJV Require Import Lib.Num Lib.NumR Model.Spatial.
Import ListNotations.
Open Scope R_scope.

Ltac dq q := let a := fresh q "0" in let b := fresh q "1" in let c := fresh q "2" in let d := fresh q "3" in
  destruct q as [[[a b] c] d].
Ltac dv v := let a := fresh v "0" in let b := fresh v "1" in let c := fresh v "2" in
  destruct v as [[a b] c].

Lemma quat_ext (a b c d a' b' c' d' : R) :
  a = a' -> b = b' -> c = c' -> d = d' -> (a, b, c, d) = (a', b', c', d').
Proof. intros; subst; reflexivity. Qed.
Lemma vec_ext (a b c a' b' c' : R) : a = a' -> b = b' -> c = c' -> (a, b, c) = (a', b', c').
Proof. intros; subst; reflexivity. Qed.
Lemma mat_ext (a0 a1 a2 a3 a4 a5 a6 a7 a8 b0 b1 b2 b3 b4 b5 b6 b7 b8 : R) :
  a0 = b0 -> a1 = b1 -> a2 = b2 -> a3 = b3 -> a4 = b4 -> a5 = b5 -> a6 = b6 -> a7 = b7 -> a8 = b8 ->
  (a0, a1, a2, a3, a4, a5, a6, a7, a8) = (b0, b1, b2, b3, b4, b5, b6, b7, b8).
Proof. intros; subst; reflexivity. Qed.

Ltac nR := unfold ntwo in *; num_R.

(* ---- constants *)
Lemma ntwo_R : ntwo (T:=R) = 2. Proof. reflexivity. Qed.
Lemma nhalf_R : nhalf (T:=R) = / 2.
Proof. unfold nhalf; num_R; unfold Rdec; simpl. lra. Qed.
Lemma nquarter_R : nquarter (T:=R) = / 4.
Proof. unfold nquarter; num_R; unfold Rdec; simpl. lra. Qed.
Lemma mjMINVAL_R : mjMINVAL (T:=R) = / 1000000000000000.
Proof. unfold mjMINVAL; num_R; unfold Rdec. replace (10 ^ 15)%Z with 1000000000000000%Z by reflexivity. lra. Qed.
Lemma mjMINVAL_pos : 0 < mjMINVAL (T:=R).
Proof. rewrite mjMINVAL_R. lra. Qed.
Lemma mjMINVAL_lt1 : mjMINVAL (T:=R) < 1.
Proof. rewrite mjMINVAL_R. lra. Qed.

(* ---- basic definitions used in the statements *)
Definition qnorm2 (q : quat R) : R := let '(q0, q1, q2, q3) := q in q0 * q0 + q1 * q1 + q2 * q2 + q3 * q3.
Definition unitq (q : quat R) : Prop := qnorm2 q = 1.
Definition qopp (q : quat R) : quat R := let '(q0, q1, q2, q3) := q in (- q0, - q1, - q2, - q3).
Definition unitv (v : vec3 R) : Prop := dot3 v v = 1.
Definition unitp (p : pose R) : Prop := unitq (snd p).

Lemma isNullQuat_true (q : quat R) : isNullQuat q = true <-> q = (1, 0, 0, 0).
Proof.
  dq q. unfold isNullQuat. num_R. rewrite !andb_true_iff, !Reqb_true. split.
  - intros [[[-> ->] ->] ->]. reflexivity.
  - intros E; inversion E; auto.
Qed.
Lemma isZero3_true (v : vec3 R) : isZero3 v = true <-> v = (0, 0, 0).
Proof.
  dv v. unfold isZero3. num_R. rewrite !andb_true_iff, !Reqb_true. split.
  - intros [[-> ->] ->]. reflexivity.
  - intros E; inversion E; auto.
Qed.

(* ---- group structure of mulQuat *)
Lemma mulQuat_assoc (a b c : quat R) : mulQuat (mulQuat a b) c = mulQuat a (mulQuat b c).
Proof. dq a; dq b; dq c. unfold mulQuat. nR. apply quat_ext; ring. Qed.
Lemma mulQuat_id_l (a : quat R) : mulQuat quatId a = a.
Proof. dq a. unfold mulQuat, quatId. nR. apply quat_ext; ring. Qed.
Lemma mulQuat_id_r (a : quat R) : mulQuat a quatId = a.
Proof. dq a. unfold mulQuat, quatId. nR. apply quat_ext; ring. Qed.
Lemma mulQuat_neg_r (a : quat R) : mulQuat a (negQuat a) = (qnorm2 a, 0, 0, 0).
Proof. dq a. unfold mulQuat, negQuat, qnorm2. nR. apply quat_ext; ring. Qed.
Lemma mulQuat_neg_l (a : quat R) : mulQuat (negQuat a) a = (qnorm2 a, 0, 0, 0).
Proof. dq a. unfold mulQuat, negQuat, qnorm2. nR. apply quat_ext; ring. Qed.
Lemma negQuat_inverse (a : quat R) : unitq a -> mulQuat a (negQuat a) = quatId /\ mulQuat (negQuat a) a = quatId.
Proof. intros U. rewrite mulQuat_neg_r, mulQuat_neg_l, U. split; reflexivity. Qed.
Lemma qnorm2_mul (a b : quat R) : qnorm2 (mulQuat a b) = qnorm2 a * qnorm2 b.
Proof. dq a; dq b. unfold mulQuat, qnorm2. nR. ring. Qed.
Lemma unitq_mul (a b : quat R) : unitq a -> unitq b -> unitq (mulQuat a b).
Proof. unfold unitq. intros. rewrite qnorm2_mul. nra. Qed.
Lemma unitq_neg (a : quat R) : unitq a -> unitq (negQuat a).
Proof. dq a. unfold unitq, negQuat, qnorm2. nR. intros; nra. Qed.
Lemma negQuat_mul (a b : quat R) : negQuat (mulQuat a b) = mulQuat (negQuat b) (negQuat a).
Proof. dq a; dq b. unfold mulQuat, negQuat. nR. apply quat_ext; ring. Qed.

(* ---- quat2Mat: the identity arm agrees with the regular formula *)
Definition quat2Mat_reg (q : quat R) : mat3 R :=
  let '(q0, q1, q2, q3) := q in
  (q0*q0 + q1*q1 - q2*q2 - q3*q3, 2 * (q1*q2 - q0*q3), 2 * (q1*q3 + q0*q2),
   2 * (q1*q2 + q0*q3), q0*q0 - q1*q1 + q2*q2 - q3*q3, 2 * (q2*q3 - q0*q1),
   2 * (q1*q3 - q0*q2), 2 * (q2*q3 + q0*q1), q0*q0 - q1*q1 - q2*q2 + q3*q3).
Lemma quat2Mat_is_reg (q : quat R) : quat2Mat q = quat2Mat_reg q.
Proof.
  unfold quat2Mat. destruct (isNullQuat q) eqn:E.
  - apply isNullQuat_true in E. subst q. unfold matId, quat2Mat_reg. nR. apply mat_ext; ring.
  - dq q. unfold quat2Mat_reg. nR. reflexivity.
Qed.
Lemma quat2Mat_mul (a b : quat R) : quat2Mat (mulQuat a b) = mulMatMat3 (quat2Mat a) (quat2Mat b).
Proof.
  rewrite !quat2Mat_is_reg. dq a; dq b. unfold mulQuat, quat2Mat_reg, mulMatMat3. nR.
  apply mat_ext; ring.
Qed.

(* ---- rotVecQuat *)
Lemma rotVecQuat_is_reg (v : vec3 R) (q : quat R) : rotVecQuat v q = rotVecQuat_reg v q.
Proof.
  unfold rotVecQuat. destruct (isZero3 v) eqn:Z.
  - apply isZero3_true in Z. subst v. dq q. unfold rotVecQuat_reg, zero3. nR. apply vec_ext; ring.
  - destruct (isNullQuat q) eqn:E; [|reflexivity].
    apply isNullQuat_true in E. subst q. dv v. unfold rotVecQuat_reg. nR. apply vec_ext; ring.
Qed.
Lemma rotVecQuat_i_is_reg (v : vec3 R) (q : quat R) : rotVecQuat_i v q = rotVecQuat_reg v q.
Proof.
  unfold rotVecQuat_i. destruct (isNullQuat q) eqn:E; [|reflexivity].
  apply isNullQuat_true in E. subst q. dv v. unfold rotVecQuat_reg. nR. apply vec_ext; ring.
Qed.
Lemma rotVecQuat_reg_mat (v : vec3 R) (q : quat R) :
  unitq q -> rotVecQuat_reg v q = mulMatVec3 (quat2Mat_reg q) v.
Proof.
  dq q; dv v. unfold unitq, qnorm2, rotVecQuat_reg, quat2Mat_reg, mulMatVec3. nR. intros U.
  apply vec_ext.
  - replace (q0*q0) with (1 - q1*q1 - q2*q2 - q3*q3) by lra. ring.
  - replace (q0*q0) with (1 - q1*q1 - q2*q2 - q3*q3) by lra. ring.
  - replace (q0*q0) with (1 - q1*q1 - q2*q2 - q3*q3) by lra. ring.
Qed.
Lemma rotVecQuat_mat (v : vec3 R) (q : quat R) : unitq q -> rotVecQuat v q = mulMatVec3 (quat2Mat q) v.
Proof. intros. rewrite rotVecQuat_is_reg, quat2Mat_is_reg. apply rotVecQuat_reg_mat; auto. Qed.
Lemma rotVecQuat_i_mat (v : vec3 R) (q : quat R) : unitq q -> rotVecQuat_i v q = mulMatVec3 (quat2Mat q) v.
Proof. intros. rewrite rotVecQuat_i_is_reg, quat2Mat_is_reg. apply rotVecQuat_reg_mat; auto. Qed.
Lemma rotVecQuat_i_eq (v : vec3 R) (q : quat R) : rotVecQuat_i v q = rotVecQuat v q.
Proof. rewrite rotVecQuat_is_reg, rotVecQuat_i_is_reg. reflexivity. Qed.

Lemma mat_dot (v : vec3 R) (q : quat R) :
  dot3 (mulMatVec3 (quat2Mat_reg q) v) (mulMatVec3 (quat2Mat_reg q) v) = qnorm2 q * qnorm2 q * dot3 v v.
Proof. dq q; dv v. unfold dot3, mulMatVec3, quat2Mat_reg, qnorm2. nR. ring. Qed.
Lemma rotVecQuat_norm (v : vec3 R) (q : quat R) : unitq q -> norm3 (rotVecQuat v q) = norm3 v.
Proof.
  intros U. unfold norm3. nR. f_equal. rewrite rotVecQuat_is_reg, rotVecQuat_reg_mat by auto.
  rewrite mat_dot, U. ring.
Qed.
Lemma rotVecQuat_i_norm (v : vec3 R) (q : quat R) : unitq q -> norm3 (rotVecQuat_i v q) = norm3 v.
Proof. intros. rewrite rotVecQuat_i_eq. apply rotVecQuat_norm; auto. Qed.

(* ---- quat2Mat q is a rotation matrix for unit q *)
Lemma quat2Mat_orth_gen (q : quat R) :
  mulMatMat3 (quat2Mat_reg q) (transpose3 (quat2Mat_reg q)) =
    (qnorm2 q * qnorm2 q, 0, 0, 0, qnorm2 q * qnorm2 q, 0, 0, 0, qnorm2 q * qnorm2 q) /\
  mulMatMat3 (transpose3 (quat2Mat_reg q)) (quat2Mat_reg q) =
    (qnorm2 q * qnorm2 q, 0, 0, 0, qnorm2 q * qnorm2 q, 0, 0, 0, qnorm2 q * qnorm2 q) /\
  det3 (quat2Mat_reg q) = qnorm2 q * qnorm2 q * qnorm2 q.
Proof.
  dq q. unfold mulMatMat3, transpose3, quat2Mat_reg, det3, qnorm2. nR.
  split; [|split]; try (apply mat_ext; ring). ring.
Qed.
Lemma quat2Mat_rotation (q : quat R) : unitq q ->
  mulMatMat3 (quat2Mat q) (transpose3 (quat2Mat q)) = matId /\
  mulMatMat3 (transpose3 (quat2Mat q)) (quat2Mat q) = matId /\
  det3 (quat2Mat q) = 1.
Proof.
  intros U. rewrite quat2Mat_is_reg. destruct (quat2Mat_orth_gen q) as (A & B & C).
  rewrite A, B, C, U. unfold matId. nR. repeat split; try (apply mat_ext; ring). ring.
Qed.

(* ---- mat2Quat inverts quat2Mat up to sign (unit quaternions) *)

Lemma half_sqrt_sq x : / 2 * sqrt (4 * (x * x)) = Rabs x.
Proof.
  replace (4*(x*x)) with (Rsqr (2*x)) by (unfold Rsqr; ring).
  rewrite sqrt_Rsqr_abs, Rabs_mult, (Rabs_right 2) by lra. field.
Qed.

Lemma normalize4_unit (q : quat R) : unitq q -> normalize4 q = (q, 1).
Proof.
  dq q. unfold unitq, qnorm2, normalize4. nR. intros U. rewrite U, sqrt_1.
  destruct (Rltb 1 mjMINVAL) eqn:E1.
  { apply Rltb_true in E1. pose proof mjMINVAL_lt1. lra. }
  destruct (Rltb mjMINVAL (Rabs (1 - 1))) eqn:E2.
  { apply Rltb_true in E2. replace (1 - 1) with 0 in E2 by ring. rewrite Rabs_R0 in E2. pose proof mjMINVAL_pos. lra. }
  reflexivity.
Qed.

Lemma mat2Quat_raw_roundtrip (q : quat R) : unitq q ->
  fst (mat2Quat_raw (quat2Mat q)) = q \/ fst (mat2Quat_raw (quat2Mat q)) = qopp q.
Proof.
  intros U. rewrite quat2Mat_is_reg. dq q. unfold unitq, qnorm2 in U.
  unfold quat2Mat_reg, mat2Quat_raw, qopp. rewrite nhalf_R, nquarter_R. nR.
  match goal with |- context [if ?c then _ else _] => destruct c eqn:B0 end.
  - apply Rltb_true in B0. cbn [fst].
    replace (1 + (q0 * q0 + q1 * q1 - q2 * q2 - q3 * q3) + (q0 * q0 - q1 * q1 + q2 * q2 - q3 * q3) + (q0 * q0 - q1 * q1 - q2 * q2 + q3 * q3))
      with (4 * (q0 * q0)) by (rewrite <- U; ring).
    rewrite half_sqrt_sq.
    assert (q0 <> 0) by (intros ->; nra).
    destruct (Rcase_abs q0) as [N|N].
    + right. rewrite (Rabs_left _ N). apply quat_ext; field; lra.
    + left. rewrite (Rabs_right _ N). apply quat_ext; field; lra.
  - apply Rltb_false in B0.
    match goal with |- context [if ?c then _ else _] => destruct c eqn:B1 end.
    + apply andb_true_iff in B1. destruct B1 as [B1 B1']. apply Rltb_true in B1, B1'. cbn [fst].
      replace (1 + (q0 * q0 + q1 * q1 - q2 * q2 - q3 * q3) - (q0 * q0 - q1 * q1 + q2 * q2 - q3 * q3) - (q0 * q0 - q1 * q1 - q2 * q2 + q3 * q3))
        with (4 * (q1 * q1)) by (rewrite <- U; ring).
      rewrite half_sqrt_sq.
      assert (q1 <> 0) by (intros ->; nra).
      destruct (Rcase_abs q1) as [N|N].
      * right. rewrite (Rabs_left _ N). apply quat_ext; field; lra.
      * left. rewrite (Rabs_right _ N). apply quat_ext; field; lra.
    + match goal with |- context [if ?c then _ else _] => destruct c eqn:B2 end.
      * apply Rltb_true in B2. cbn [fst].
        replace (1 - (q0 * q0 + q1 * q1 - q2 * q2 - q3 * q3) + (q0 * q0 - q1 * q1 + q2 * q2 - q3 * q3) - (q0 * q0 - q1 * q1 - q2 * q2 + q3 * q3))
          with (4 * (q2 * q2)) by (rewrite <- U; ring).
        rewrite half_sqrt_sq.
        assert (q2 <> 0) by (intros ->; pose proof (Rle_0_sqr q3) as S; unfold Rsqr in S; lra).
        destruct (Rcase_abs q2) as [N|N].
        -- right. rewrite (Rabs_left _ N). apply quat_ext; field; lra.
        -- left. rewrite (Rabs_right _ N). apply quat_ext; field; lra.
      * apply Rltb_false in B2. cbn [fst].
        replace (1 - (q0 * q0 + q1 * q1 - q2 * q2 - q3 * q3) - (q0 * q0 - q1 * q1 + q2 * q2 - q3 * q3) + (q0 * q0 - q1 * q1 - q2 * q2 + q3 * q3))
          with (4 * (q3 * q3)) by (rewrite <- U; ring).
        rewrite half_sqrt_sq.
        assert (q3 <> 0).
        { intros ->. apply andb_false_iff in B1. pose proof (Rle_0_sqr q0) as S0; pose proof (Rle_0_sqr q1) as S1; pose proof (Rle_0_sqr q2) as S2; unfold Rsqr in *;
          destruct B1 as [B1|B1]; apply Rltb_false in B1; lra. }
        destruct (Rcase_abs q3) as [N|N].
        -- right. rewrite (Rabs_left _ N). apply quat_ext; field; lra.
        -- left. rewrite (Rabs_right _ N). apply quat_ext; field; lra.
Qed.

Lemma unitq_qopp (q : quat R) : unitq q -> unitq (qopp q).
Proof. dq q. unfold unitq, qopp, qnorm2. intros; nra. Qed.
Lemma mat2Quat_roundtrip (q : quat R) : unitq q ->
  mat2Quat (quat2Mat q) = q \/ mat2Quat (quat2Mat q) = qopp q.
Proof.
  intros U. unfold mat2Quat. destruct (mat2Quat_raw_roundtrip q U) as [E|E]; rewrite E.
  - left. rewrite normalize4_unit; auto.
  - right. rewrite normalize4_unit; auto using unitq_qopp.
Qed.

(* ---- rotation is an action of unit quaternions *)
Lemma mulMatVec3_mul (A B : mat3 R) (v : vec3 R) :
  mulMatVec3 (mulMatMat3 A B) v = mulMatVec3 A (mulMatVec3 B v).
Proof.
  destruct A as [[[[[[[[a0 a1] a2] a3] a4] a5] a6] a7] a8]. destruct B as [[[[[[[[b0 b1] b2] b3] b4] b5] b6] b7] b8].
  dv v. unfold mulMatVec3, mulMatMat3. nR. apply vec_ext; ring.
Qed.
Lemma rot_mul (v : vec3 R) (a b : quat R) : unitq a -> unitq b ->
  rotVecQuat_i v (mulQuat a b) = rotVecQuat_i (rotVecQuat_i v b) a.
Proof.
  intros Ua Ub. rewrite !rotVecQuat_i_mat by auto using unitq_mul.
  rewrite quat2Mat_mul. apply mulMatVec3_mul.
Qed.
Lemma rot_id (v : vec3 R) : rotVecQuat_i v quatId = v.
Proof. unfold rotVecQuat_i. replace (isNullQuat quatId) with true; auto. symmetry. apply isNullQuat_true. reflexivity. Qed.
Lemma rot_add (u w : vec3 R) (q : quat R) :
  rotVecQuat_i (add3 u w) q = add3 (rotVecQuat_i u q) (rotVecQuat_i w q).
Proof. rewrite !rotVecQuat_i_is_reg. dv u; dv w; dq q. unfold rotVecQuat_reg, add3. nR. apply vec_ext; ring. Qed.
Lemma rot_scl (v : vec3 R) (s : R) (q : quat R) :
  rotVecQuat_i (scl3 v s) q = scl3 (rotVecQuat_i v q) s.
Proof. rewrite !rotVecQuat_i_is_reg. dv v; dq q. unfold rotVecQuat_reg, scl3. nR. apply vec_ext; ring. Qed.
Lemma rot_neg_l (v : vec3 R) (q : quat R) : unitq q -> rotVecQuat_i (rotVecQuat_i v q) (negQuat q) = v.
Proof.
  intros U. rewrite <- rot_mul by auto using unitq_neg.
  destruct (negQuat_inverse q U) as [_ E]. rewrite E. apply rot_id.
Qed.
Lemma rot_neg_r (v : vec3 R) (q : quat R) : unitq q -> rotVecQuat_i (rotVecQuat_i v (negQuat q)) q = v.
Proof.
  intros U. rewrite <- rot_mul by auto using unitq_neg.
  destruct (negQuat_inverse q U) as [E _]. rewrite E. apply rot_id.
Qed.
Lemma add3_assoc (a b c : vec3 R) : add3 (add3 a b) c = add3 a (add3 b c).
Proof. dv a; dv b; dv c. unfold add3. nR. apply vec_ext; ring. Qed.
Lemma unitq_id : unitq quatId.
Proof. unfold unitq, quatId, qnorm2. nR. ring. Qed.

(* ---- poses *)
Lemma mulPose_unit (p1 p2 : pose R) : unitp p1 -> unitp p2 ->
  mulPose p1 p2 = (add3 (rotVecQuat_i (fst p2) (snd p1)) (fst p1), mulQuat (snd p1) (snd p2)).
Proof.
  destruct p1 as [x1 q1], p2 as [x2 q2]. unfold unitp. cbn [fst snd]. intros U1 U2.
  unfold mulPose. rewrite normalize4_unit by auto using unitq_mul. reflexivity.
Qed.
Lemma mulPose_unitp (p1 p2 : pose R) : unitp p1 -> unitp p2 -> unitp (mulPose p1 p2).
Proof. intros U1 U2. rewrite mulPose_unit by auto. unfold unitp in *. cbn [snd]. auto using unitq_mul. Qed.
Lemma mulPose_assoc (p1 p2 p3 : pose R) : unitp p1 -> unitp p2 -> unitp p3 ->
  mulPose (mulPose p1 p2) p3 = mulPose p1 (mulPose p2 p3).
Proof.
  intros U1 U2 U3.
  rewrite (mulPose_unit (mulPose p1 p2) p3) by auto using mulPose_unitp.
  rewrite (mulPose_unit p1 (mulPose p2 p3)) by auto using mulPose_unitp.
  rewrite (mulPose_unit p1 p2), (mulPose_unit p2 p3) by auto.
  destruct p1 as [x1 q1], p2 as [x2 q2], p3 as [x3 q3]. unfold unitp in *. cbn [fst snd] in *.
  f_equal.
  - rewrite rot_mul, rot_add, add3_assoc by auto. reflexivity.
  - apply mulQuat_assoc.
Qed.
Lemma poseId_unitp : unitp (poseId (T:=R)).
Proof. unfold unitp, poseId. cbn [snd]. apply unitq_id. Qed.
Lemma mulPose_id (p : pose R) : unitp p -> mulPose poseId p = p /\ mulPose p poseId = p.
Proof.
  intros U. rewrite !mulPose_unit by auto using poseId_unitp.
  destruct p as [x q]. unfold poseId. cbn [fst snd]. rewrite rot_id, mulQuat_id_l, mulQuat_id_r.
  split; f_equal.
  - dv x. unfold add3, zero3. nR. apply vec_ext; ring.
  - rewrite rotVecQuat_i_is_reg. dv x; dq q. unfold rotVecQuat_reg, add3, zero3. nR. apply vec_ext; ring.
Qed.
Lemma negPose_unitp (p : pose R) : unitp p -> unitp (negPose p).
Proof. destruct p as [x q]. unfold unitp, negPose. cbn [snd]. apply unitq_neg. Qed.
Lemma negPose_inverse (p : pose R) : unitp p ->
  mulPose p (negPose p) = poseId /\ mulPose (negPose p) p = poseId.
Proof.
  intros U. rewrite !mulPose_unit by auto using negPose_unitp.
  destruct p as [x q]. unfold unitp in U. cbn [snd] in U. unfold negPose, poseId. cbn [fst snd].
  destruct (negQuat_inverse q U) as [E1 E2]. rewrite E1, E2. split; f_equal.
  - rewrite rot_scl, rot_neg_r by auto. dv x. unfold add3, scl3, zero3. nR. apply vec_ext; ring.
  - set (y := rotVecQuat_i x (negQuat q)). dv y. unfold add3, scl3, zero3. nR. apply vec_ext; ring.
Qed.
Lemma trnVecPose_action (p1 p2 : pose R) (v : vec3 R) : unitp p1 -> unitp p2 ->
  trnVecPose (mulPose p1 p2) v = trnVecPose p1 (trnVecPose p2 v).
Proof.
  intros U1 U2. rewrite mulPose_unit by auto.
  destruct p1 as [x1 q1], p2 as [x2 q2]. unfold unitp in *. cbn [fst snd] in *. unfold trnVecPose.
  rewrite rot_mul, rot_add, add3_assoc by auto. reflexivity.
Qed.
Lemma trnVecPose_id (v : vec3 R) : trnVecPose poseId v = v.
Proof. unfold trnVecPose, poseId. rewrite rot_id. dv v. unfold add3, zero3. nR. apply vec_ext; ring. Qed.
Lemma trnVecPose_neg (p : pose R) (v : vec3 R) : unitp p -> trnVecPose (negPose p) (trnVecPose p v) = v.
Proof.
  intros U. rewrite <- trnVecPose_action by auto using negPose_unitp.
  destruct (negPose_inverse p U) as [_ E]. rewrite E. apply trnVecPose_id.
Qed.


(* ---- axis-angle *)
Lemma sin2cos2 x : sin x * sin x + cos x * cos x = 1.
Proof. pose proof (sin2_cos2 x) as E. unfold Rsqr in E. exact E. Qed.

Definition axisAngle_reg (ax : vec3 R) (angle : R) : quat R :=
  let '(x0, x1, x2) := ax in
  (cos (angle * / 2), x0 * sin (angle * / 2), x1 * sin (angle * / 2), x2 * sin (angle * / 2)).
Lemma axisAngle2Quat_reg_eq (ax : vec3 R) (angle : R) :
  axisAngle2Quat ax angle = axisAngle_reg ax angle \/
  (angle = 0 /\ axisAngle2Quat ax angle = quatId).
Proof.
  unfold axisAngle2Quat. nR. destruct (Reqb angle 0) eqn:E.
  - right. apply Reqb_true in E. auto.
  - left. dv ax. rewrite nhalf_R. reflexivity.
Qed.

Lemma axisAngle2Quat_unit (ax : vec3 R) (angle : R) : unitv ax -> unitq (axisAngle2Quat ax angle).
Proof.
  intros U. destruct (axisAngle2Quat_reg_eq ax angle) as [E|[_ E]]; rewrite E.
  - dv ax. unfold unitv, dot3 in U. nR. unfold unitq, qnorm2, axisAngle_reg.
    pose proof (sin2cos2 (angle * / 2)). nra.
  - apply unitq_id.
Qed.

(* Rodrigues' formula  I + sin(t) K + (1 - cos(t)) K^2,  K the cross-product matrix of the axis *)
Definition skew (a : vec3 R) : mat3 R := let '(x0, x1, x2) := a in (0, - x2, x1, x2, 0, - x0, - x1, x0, 0).
Definition madd (a b : mat3 R) : mat3 R :=
  let '(a0, a1, a2, a3, a4, a5, a6, a7, a8) := a in let '(b0, b1, b2, b3, b4, b5, b6, b7, b8) := b in
  (a0 + b0, a1 + b1, a2 + b2, a3 + b3, a4 + b4, a5 + b5, a6 + b6, a7 + b7, a8 + b8).
Definition mscl (a : mat3 R) (s : R) : mat3 R :=
  let '(a0, a1, a2, a3, a4, a5, a6, a7, a8) := a in
  (a0 * s, a1 * s, a2 * s, a3 * s, a4 * s, a5 * s, a6 * s, a7 * s, a8 * s).
Definition rodrigues (ax : vec3 R) (t : R) : mat3 R :=
  madd matId (madd (mscl (skew ax) (sin t)) (mscl (mulMatMat3 (skew ax) (skew ax)) (1 - cos t))).

Lemma axisAngle2Quat_rodrigues (ax : vec3 R) (angle : R) : unitv ax ->
  quat2Mat (axisAngle2Quat ax angle) = rodrigues ax angle.
Proof.
  intros U. rewrite quat2Mat_is_reg.
  destruct (axisAngle2Quat_reg_eq ax angle) as [E|[Z E]]; rewrite E.
  - dv ax. unfold unitv, dot3 in U. nR.
    unfold rodrigues, quat2Mat_reg, madd, mscl, skew, mulMatMat3, matId, axisAngle_reg. nR.
    replace (sin angle) with (2 * sin (angle * / 2) * cos (angle * / 2)) by (rewrite <- sin_2a; f_equal; field).
    replace (cos angle) with (1 - 2 * sin (angle * / 2) * sin (angle * / 2)) by (rewrite <- cos_2a_sin; f_equal; field).
    set (s := sin (angle * / 2)). set (c := cos (angle * / 2)).
    assert (CS : c * c = 1 - s * s) by (pose proof (sin2cos2 (angle * / 2)); unfold s, c; lra).
    assert (X : ax0 * ax0 = 1 - ax1 * ax1 - ax2 * ax2) by lra.
    apply mat_ext.
    all: first [ring | clear E U; nsatz].
  - subst angle. dv ax. unfold rodrigues, quat2Mat_reg, madd, mscl, skew, mulMatMat3, matId, quatId. nR.
    rewrite sin_0, cos_0. apply mat_ext; ring.
Qed.


(* ---- Euler sequences *)
Definition validEuler (c : ascii) : Prop :=
  c = "x"%char \/ c = "y"%char \/ c = "z"%char \/ c = "X"%char \/ c = "Y"%char \/ c = "Z"%char.
Definition axisOf (c : ascii) : vec3 R :=
  if (Ascii.eqb c "x") || (Ascii.eqb c "X") then (1, 0, 0)
  else if (Ascii.eqb c "y") || (Ascii.eqb c "Y") then (0, 1, 0) else (0, 0, 1).
(* the rotation about the coordinate axis named by c *)
Definition rotOf (c : ascii) (e : R) : quat R := axisAngle2Quat (axisOf c) e.
Definition qprod (l : list (quat R)) : quat R := fold_right mulQuat quatId l.
(* the factors contributed by the lower-case (intrinsic, lower = true) resp. upper-case characters, in order *)
Fixpoint factors (lower : bool) (seq : list ascii) (es : list R) : list (quat R) :=
  match seq, es with
  | c :: seq', e :: es' =>
      if Bool.eqb (isLower c) lower then rotOf c e :: factors lower seq' es' else factors lower seq' es'
  | _, _ => []
  end.

Lemma axisOf_unit c : unitv (axisOf c).
Proof. unfold axisOf. destruct (_ || _); [|destruct (_ || _)]; unfold unitv, dot3; nR; ring. Qed.

Lemma eulerRot_valid c e : validEuler c -> eulerRot c e = Some (rotOf c e).
Proof.
  intros V. unfold rotOf.
  assert (A : forall ax, axisAngle2Quat ax e = axisAngle_reg ax e \/ (e = 0 /\ axisAngle2Quat ax e = quatId))
    by (intros; apply axisAngle2Quat_reg_eq).
  assert (H2 : e / 2 = e * / 2) by reflexivity.
  destruct V as [ -> | [ -> | [ -> | [ -> | [ -> | -> ] ] ] ] ]; unfold eulerRot, axisOf; cbn [Ascii.eqb Bool.eqb orb andb]; nR; rewrite H2; apply f_equal;
    match goal with |- _ = axisAngle2Quat ?ax e => destruct (A ax) as [E|[Z E]]; rewrite E end;
    try (unfold axisAngle_reg; apply quat_ext; ring);
    subst e; replace (0 * / 2) with 0 by field; rewrite sin_0, cos_0; reflexivity.
Qed.
Lemma eulerRot_invalid c e : ~ validEuler c -> eulerRot c e = None (A:=quat R).
Proof.
  intros V. unfold eulerRot.
  destruct (Ascii.eqb c "x") eqn:E1; [apply Ascii.eqb_eq in E1; exfalso; apply V; unfold validEuler; auto|].
  destruct (Ascii.eqb c "X") eqn:E2; [apply Ascii.eqb_eq in E2; exfalso; apply V; unfold validEuler; auto 10|].
  destruct (Ascii.eqb c "y") eqn:E3; [apply Ascii.eqb_eq in E3; exfalso; apply V; unfold validEuler; auto 10|].
  destruct (Ascii.eqb c "Y") eqn:E4; [apply Ascii.eqb_eq in E4; exfalso; apply V; unfold validEuler; auto 10|].
  destruct (Ascii.eqb c "z") eqn:E5; [apply Ascii.eqb_eq in E5; exfalso; apply V; unfold validEuler; auto 10|].
  destruct (Ascii.eqb c "Z") eqn:E6; [apply Ascii.eqb_eq in E6; exfalso; apply V; unfold validEuler; auto 10|].
  reflexivity.
Qed.

Lemma qprod_app l1 l2 : qprod (l1 ++ l2) = mulQuat (qprod l1) (qprod l2).
Proof.
  induction l1; cbn [qprod fold_right app].
  - fold (qprod l2). rewrite mulQuat_id_l. reflexivity.
  - fold (qprod (l1 ++ l2)) (qprod l1). rewrite IHl1, mulQuat_assoc. reflexivity.
Qed.

Lemma eulerLoop_product seq : forall es tmp, Forall validEuler seq ->
  eulerLoop tmp seq es =
    Some (mulQuat (qprod (rev (factors false seq es))) (mulQuat tmp (qprod (factors true seq es)))).
Proof.
  induction seq as [|c seq IH]; intros es tmp V.
  - cbn [eulerLoop factors rev qprod fold_right]. rewrite mulQuat_id_l, mulQuat_id_r. reflexivity.
  - destruct es as [|e es].
    { cbn [eulerLoop factors rev qprod fold_right]. rewrite mulQuat_id_l, mulQuat_id_r. reflexivity. }
    inversion V as [|? ? Vc Vs]; subst.
    cbn [eulerLoop factors]. unfold eulerStep. rewrite (eulerRot_valid c e Vc).
    rewrite IH by assumption.
    destruct (isLower c); cbn [Bool.eqb]; f_equal.
    + cbn [qprod fold_right]. fold (qprod (factors true seq es)). rewrite !mulQuat_assoc. reflexivity.
    + cbn [rev]. rewrite qprod_app. cbn [qprod fold_right]. rewrite mulQuat_id_r.
      fold (qprod (rev (factors false seq es))). rewrite !mulQuat_assoc. reflexivity.
Qed.

Lemma classic_valid c : validEuler c \/ ~ validEuler c.
Proof.
  unfold validEuler.
  destruct (ascii_dec c "x"); [auto|]. destruct (ascii_dec c "y"); [auto|]. destruct (ascii_dec c "z"); [auto|].
  destruct (ascii_dec c "X"); [auto 10|]. destruct (ascii_dec c "Y"); [auto 10|]. destruct (ascii_dec c "Z"); [auto 10|].
  right. intros [|[|[|[|[|]]]]]; contradiction.
Qed.

Lemma eulerLoop_error seq : forall (es : list R) (tmp : quat R),
  eulerLoop tmp seq es = None <-> ~ Forall validEuler (firstn (List.length es) seq).
Proof.
  induction seq as [|c seq IH]; intros es tmp.
  - cbn. rewrite firstn_nil. split; [discriminate|]. intros N; exfalso; apply N; constructor.
  - destruct es as [|e es].
    { cbn. split; [discriminate|]. intros N; exfalso; apply N; constructor. }
    cbn [eulerLoop List.length firstn]. unfold eulerStep.
    destruct (classic_valid c) as [Vc|Vc].
    + rewrite (eulerRot_valid c e Vc). rewrite IH. split.
      * intros N F. inversion F; subst. auto.
      * intros N F. apply N. constructor; auto.
    + rewrite (eulerRot_invalid c e Vc). split; auto. intros _ F. inversion F; subst. auto.
Qed.

Lemma length_list_ascii_of_string s : List.length (list_ascii_of_string s) = String.length s.
Proof. induction s; cbn; auto. Qed.

Lemma euler2Quat_product (euler : vec3 R) (seq : string) :
  String.length seq = 3%nat -> Forall validEuler (list_ascii_of_string seq) ->
  euler2Quat euler seq =
    Some (mulQuat (qprod (rev (factors false (list_ascii_of_string seq) (v2l euler))))
                  (qprod (factors true (list_ascii_of_string seq) (v2l euler)))).
Proof.
  intros L V. unfold euler2Quat. rewrite L. cbn [Nat.eqb].
  rewrite eulerLoop_product by assumption. rewrite mulQuat_id_l. reflexivity.
Qed.
Lemma euler2Quat_error (euler : vec3 R) (seq : string) :
  euler2Quat euler seq = None <->
  (String.length seq <> 3%nat \/ ~ Forall validEuler (list_ascii_of_string seq)).
Proof.
  unfold euler2Quat. destruct (Nat.eqb (String.length seq) 3) eqn:E.
  - apply Nat.eqb_eq in E. rewrite eulerLoop_error.
    replace (List.length (v2l euler)) with (List.length (list_ascii_of_string seq))
      by (rewrite length_list_ascii_of_string, E; dv euler; reflexivity).
    rewrite firstn_all. split; [auto|]. intros [N|N]; [contradiction|assumption].
  - apply Nat.eqb_neq in E. split; auto.
Qed.

(* ---- MJX rotate *)
Lemma mjx_rotate_eq (v : vec3 R) (q : quat R) : unitq q -> mjx_rotate v q = rotVecQuat v q.
Proof.
  rewrite rotVecQuat_is_reg. dq q; dv v. unfold unitq, qnorm2, mjx_rotate, rotVecQuat_reg, add3, scl3, dot3, cross. nR.
  intros U. apply vec_ext.
  - replace (q0*q0) with (1 - q1*q1 - q2*q2 - q3*q3) by lra. ring.
  - replace (q0*q0) with (1 - q1*q1 - q2*q2 - q3*q3) by lra. ring.
  - replace (q0*q0) with (1 - q1*q1 - q2*q2 - q3*q3) by lra. ring.
Qed.

(* ---- subQuat inverts quatIntegrate *)
Lemma Ratan2_half phi : 0 <= phi <= PI / 2 -> Ratan2 (sin phi) (cos phi) = phi.
Proof.
  intros [L U]. unfold Ratan2.
  destruct (Req_dec phi (PI / 2)) as [E|NE].
  - subst phi. rewrite cos_PI2, sin_PI2.
    destruct (Rlt_dec 0 0); [lra|]. destruct (Rlt_dec 0 1); [reflexivity|lra].
  - assert (C : 0 < cos phi) by (apply cos_gt_0; lra).
    destruct (Rlt_dec 0 (cos phi)); [|contradiction].
    change (sin phi / cos phi) with (tan phi). apply atan_tan. lra.
Qed.

Lemma normalize3_snd (v : vec3 R) : snd (normalize3 v) = norm3 v.
Proof. dv v. unfold normalize3, norm3, dot3. nR. destruct (Rltb _ _); reflexivity. Qed.
Lemma normalize3_small (v : vec3 R) : norm3 v < mjMINVAL -> fst (normalize3 v) = (1, 0, 0).
Proof.
  dv v. unfold normalize3, norm3, dot3. nR. intros L. apply Rltb_true in L. rewrite L. reflexivity.
Qed.
Lemma normalize3_big (v : vec3 R) : mjMINVAL <= norm3 v -> fst (normalize3 v) = scl3 v (1 / norm3 v).
Proof.
  dv v. unfold normalize3, norm3, dot3, scl3. nR. intros L. apply Rltb_false in L. rewrite L. reflexivity.
Qed.
Lemma quatIntegrate_eq (q : quat R) (v : vec3 R) (h : R) :
  quatIntegrate q v h = mulQuat (fst (normalize4 q)) (axisAngle2Quat (fst (normalize3 v)) (h * norm3 v)).
Proof. unfold quatIntegrate. rewrite <- normalize3_snd. destruct (normalize3 v). reflexivity. Qed.

Lemma norm3_zero (v : vec3 R) : norm3 v = 0 -> v = (0, 0, 0).
Proof.
  dv v. unfold norm3, dot3. nR. intros E. apply sqrt_eq_0 in E; [|nra].
  assert (v0 = 0) by nra. assert (v1 = 0) by nra. assert (v2 = 0) by nra. subst. reflexivity.
Qed.

Lemma quat2Vel_id : quat2Vel (quatId (T:=R)) 1 = (0, 0, 0).
Proof.
  unfold quat2Vel, quatId, normalize3. nR.
  replace (0 * 0 + 0 * 0 + 0 * 0) with 0 by ring. rewrite sqrt_0.
  pose proof mjMINVAL_pos as P. apply Rltb_true in P. rewrite P.
  unfold Ratan2. destruct (Rlt_dec 0 1); [|lra]. replace (0 / 1) with 0 by field. rewrite atan_0.
  replace (2 * 0) with 0 by ring.
  assert (F : Rltb PI 0 = false) by (apply Rltb_false; pose proof PI_RGT_0; lra). rewrite F.
  unfold scl3. nR. apply vec_ext; field.
Qed.

Lemma quat2Vel_axisAngle (a : vec3 R) (t : R) :
  unitv a -> Rabs t <= PI -> mjMINVAL <= Rabs (sin (t * / 2)) ->
  quat2Vel (axisAngle_reg a t) 1 = scl3 a t.
Proof.
  intros U T S. dv a. unfold unitv, dot3 in U. nR.
  unfold axisAngle_reg, quat2Vel.
  set (s := sin (t * / 2)) in *. set (c := cos (t * / 2)).
  pose proof mjMINVAL_pos as MP.
  assert (TB : - PI <= t <= PI) by (unfold Rabs in T; destruct (Rcase_abs t); lra).
  assert (S0 : s <> 0) by (intros Z; rewrite Z, Rabs_R0 in S; lra).
  assert (N : normalize3 (a0 * s, a1 * s, a2 * s) =
              ((a0 * s * (1 / Rabs s), a1 * s * (1 / Rabs s), a2 * s * (1 / Rabs s)), Rabs s)).
  { unfold normalize3. nR.
    replace (a0 * s * (a0 * s) + a1 * s * (a1 * s) + a2 * s * (a2 * s)) with (Rsqr s)
      by (unfold Rsqr; replace (s * s) with (s * s * (a0 * a0 + a1 * a1 + a2 * a2)) by (rewrite U; ring); ring).
    rewrite sqrt_Rsqr_abs. apply Rltb_false in S. rewrite S. reflexivity. }
  rewrite N. nR.
  assert (A : 2 * Ratan2 (Rabs s) c = Rabs t).
  { destruct (Rle_dec 0 t) as [P|P].
    - rewrite (Rabs_right t) by lra.
      assert (0 <= s) by (apply sin_ge_0; lra).
      rewrite (Rabs_right s) by lra. unfold s, c. rewrite Ratan2_half by lra. field.
    - rewrite (Rabs_left t) by lra.
      assert (E1 : s = - sin (- t * / 2)) by (unfold s; rewrite <- sin_neg; f_equal; field).
      assert (E2 : c = cos (- t * / 2)) by (unfold c; rewrite <- cos_neg; f_equal; field).
      assert (0 <= sin (- t * / 2)) by (apply sin_ge_0; lra).
      rewrite (Rabs_left1 s) by lra. rewrite E1, Ropp_involutive, E2, Ratan2_half by lra. field. }
  rewrite A.
  assert (F : Rltb PI (Rabs t) = false) by (apply Rltb_false; lra). rewrite F.
  unfold scl3. nR.
  destruct (Rle_dec 0 t) as [P|P].
  - assert (0 <= s) by (apply sin_ge_0; lra).
    rewrite (Rabs_right t), (Rabs_right s) by lra. apply vec_ext; field; lra.
  - assert (E1 : s = - sin (- t * / 2)) by (unfold s; rewrite <- sin_neg; f_equal; field).
    assert (0 <= sin (- t * / 2)) by (apply sin_ge_0; lra).
    rewrite (Rabs_left t), (Rabs_left1 s) by lra. apply vec_ext; field; lra.
Qed.

Lemma scl3_unit (v : vec3 R) : 0 < norm3 v -> unitv (scl3 v (1 / norm3 v)).
Proof.
  dv v. unfold norm3, unitv, scl3, dot3. nR. intros P.
  set (d := v0 * v0 + v1 * v1 + v2 * v2) in *.
  assert (D : 0 < d).
  { destruct (Rlt_le_dec 0 d) as [L|L]; [assumption|]. rewrite (sqrt_neg_0 _ L) in P. lra. }
  assert (RR : sqrt d * sqrt d = d) by (apply sqrt_sqrt; lra).
  set (r := sqrt d) in *. clearbody r.
  transitivity (d / (r * r)); [unfold d; field; lra | rewrite RR; field; lra].
Qed.

Lemma sub_integrate (q : quat R) (v : vec3 R) (h : R) :
  unitq q -> Rabs (h * norm3 v) <= PI ->
  (h * norm3 v = 0 \/ (mjMINVAL <= norm3 v /\ mjMINVAL <= Rabs (sin (h * norm3 v * / 2)))) ->
  subQuat (quatIntegrate q v h) q = scl3 v h.
Proof.
  intros U T C. rewrite quatIntegrate_eq, normalize4_unit by assumption. cbn [fst].
  unfold subQuat. rewrite <- mulQuat_assoc. destruct (negQuat_inverse q U) as [_ E]. rewrite E, mulQuat_id_l.
  pose proof mjMINVAL_pos as MP.
  destruct C as [Z|[N S]].
  - rewrite Z. replace (axisAngle2Quat (fst (normalize3 v)) 0) with (quatId (T:=R)).
    2:{ unfold axisAngle2Quat. nR. replace (Reqb 0 0) with true by (symmetry; apply Reqb_true; reflexivity). reflexivity. }
    change (none (T:=R)) with 1. rewrite quat2Vel_id.
    apply Rmult_integral in Z. destruct Z as [Z|Z].
    + subst h. dv v. unfold scl3. nR. apply vec_ext; ring.
    + apply norm3_zero in Z. subst v. unfold scl3. nR. apply vec_ext; ring.
  - assert (TN : h * norm3 v <> 0).
    { intros Z. rewrite Z in S. replace (0 * / 2) with 0 in S by field. rewrite sin_0, Rabs_R0 in S. lra. }
    destruct (axisAngle2Quat_reg_eq (fst (normalize3 v)) (h * norm3 v)) as [A|[Z _]]; [|contradiction].
    rewrite A, normalize3_big by assumption. change (none (T:=R)) with 1.
    rewrite quat2Vel_axisAngle; auto.
    + dv v. unfold scl3. nR. apply vec_ext; field; lra.
    + apply scl3_unit. lra.
Qed.

(* ---- non-unit quaternions: what rotVecQuat and quat2Mat compute *)
Lemma rotVecQuat_nonunit (v : vec3 R) (q : quat R) :
  rotVecQuat v q = add3 (mulMatVec3 (quat2Mat q) v) (scl3 v (1 - qnorm2 q)).
Proof.
  rewrite rotVecQuat_is_reg, quat2Mat_is_reg. dq q; dv v.
  unfold rotVecQuat_reg, quat2Mat_reg, mulMatVec3, add3, scl3, qnorm2. nR. apply vec_ext; ring.
Qed.
Lemma quat2Mat_scaled (q : quat R) :
  mulMatMat3 (quat2Mat q) (transpose3 (quat2Mat q)) =
    (qnorm2 q * qnorm2 q, 0, 0, 0, qnorm2 q * qnorm2 q, 0, 0, 0, qnorm2 q * qnorm2 q) /\
  det3 (quat2Mat q) = qnorm2 q * qnorm2 q * qnorm2 q.
Proof. rewrite quat2Mat_is_reg. destruct (quat2Mat_orth_gen q) as (A & _ & C). auto. Qed.

(* ---- satisfiability of the hypotheses (used by the Examples of Props/C24.v) *)
Lemma unitq_example : unitq (/ 2, / 2, - / 2, / 2) /\ ~ isNullQuat (T:=R) (/ 2, / 2, - / 2, / 2) = true.
Proof.
  split. { unfold unitq, qnorm2. field. }
  rewrite isNullQuat_true. intros E. inversion E. lra.
Qed.
Lemma sub_integrate_example :
  let q : quat R := (0, 1, 0, 0) in let v : vec3 R := (0, 0, PI) in let h := 1 in
  unitq q /\ Rabs (h * norm3 v) <= PI /\ h * norm3 v <> 0 /\
  mjMINVAL <= norm3 v /\ mjMINVAL <= Rabs (sin (h * norm3 v * / 2)) /\
  subQuat (quatIntegrate q v h) q = (0, 0, PI).
Proof.
  cbv zeta. pose proof PI2_1 as P1. pose proof PI_4 as P4. pose proof mjMINVAL_lt1 as M.
  assert (N : norm3 (T:=R) (0, 0, PI) = PI).
  { unfold norm3, dot3. nR. replace (0 * 0 + 0 * 0 + PI * PI) with (PI * PI) by ring. apply sqrt_square. lra. }
  assert (S : sin (1 * PI * / 2) = 1) by (replace (1 * PI * / 2) with (PI / 2) by field; apply sin_PI2).
  assert (U : unitq (0, 1, 0, 0)) by (unfold unitq, qnorm2; ring).
  rewrite N, S, Rabs_R1. rewrite (Rabs_right (1 * PI)) by lra.
  repeat split; try lra; auto.
  rewrite sub_integrate; auto.
  - unfold scl3. nR. apply vec_ext; ring.
  - rewrite N, (Rabs_right (1 * PI)) by lra. lra.
  - right. rewrite N, S, Rabs_R1. lra.
Qed.


(* ---- small algebraic identities *)
Lemma mulQuatAxis_eq (q : quat R) (a : vec3 R) :
  mulQuatAxis q a = mulQuat q (let '(a0, a1, a2) := a in (0, a0, a1, a2)).
Proof. dq q; dv a. unfold mulQuatAxis, mulQuat. nR. apply quat_ext; ring. Qed.
Lemma derivQuat_eq (q : quat R) (w : vec3 R) :
  derivQuat q w = (let '(p0, p1, p2, p3) := mulQuat (let '(w0, w1, w2) := w in (0, w0, w1, w2)) q in
                   (/ 2 * p0, / 2 * p1, / 2 * p2, / 2 * p3)).
Proof. dq q; dv w. unfold derivQuat, mulQuat. rewrite nhalf_R. nR. apply quat_ext; ring. Qed.

(* ---- MJX quat_integrate / quat_sub agree with the C functions on the regular domain *)
Definition tol8 : R := Rdec 1 (-8).
Lemma tol8_pos : 0 < tol8. Proof. unfold tol8, Rdec. replace (10 ^ 8)%Z with 100000000%Z by reflexivity. lra. Qed.
Lemma tol8_lt1 : tol8 < / 2. Proof. unfold tol8, Rdec. replace (10 ^ 8)%Z with 100000000%Z by reflexivity. lra. Qed.
Definition notTiny3 (v : vec3 R) : Prop := let '(v0, v1, v2) := v in tol8 < Rabs v0 \/ tol8 < Rabs v1 \/ tol8 < Rabs v2.

Lemma mjx_den_pos n : n <> 0 -> mjx_den n = n.
Proof. intros N. unfold mjx_den. nR. replace (Reqb n 0) with false by (symmetry; apply Reqb_false; assumption). ring. Qed.

Lemma sq_abs_le a t : 0 <= t -> Rabs a <= t -> a * a <= t * t.
Proof. intros T A. rewrite <- (Rabs_right t) in A by lra. apply Rsqr_le_abs_1 in A. unfold Rsqr in A. exact A. Qed.
Lemma sq_abs_gt a t : 0 <= t -> t < Rabs a -> t * t < a * a.
Proof. intros T A. rewrite <- (Rabs_right t) in A by lra. apply Rsqr_lt_abs_1 in A. unfold Rsqr in A. exact A. Qed.

Lemma mjx_norm3_notTiny (v : vec3 R) : notTiny3 v -> mjx_norm3 v = norm3 v /\ tol8 < norm3 v.
Proof.
  dv v. unfold notTiny3, mjx_norm3, norm3, dot3. nR. fold tol8. intros N.
  pose proof tol8_pos as TP.
  assert (F : Rleb (Rabs v0) tol8 && Rleb (Rabs v1) tol8 && Rleb (Rabs v2) tol8 = false).
  { destruct N as [N|[N|N]]; apply Rleb_false in N; rewrite N; rewrite ?andb_false_r; reflexivity. }
  rewrite F. split; [reflexivity|].
  assert (S : tol8 * tol8 < v0 * v0 + v1 * v1 + v2 * v2).
  { destruct N as [N|[N|N]]; apply sq_abs_gt in N; nra. }
  rewrite <- (sqrt_square tol8) by lra. apply sqrt_lt_1; nra.
Qed.

Lemma mjx_norm4_unit (q : quat R) : unitq q -> mjx_norm4 q = 1.
Proof.
  dq q. unfold unitq, qnorm2, mjx_norm4. nR. fold tol8. intros U. pose proof tol8_pos. pose proof tol8_lt1.
  destruct (Rleb (Rabs q0) tol8 && Rleb (Rabs q1) tol8 && Rleb (Rabs q2) tol8 && Rleb (Rabs q3) tol8) eqn:E.
  - rewrite !andb_true_iff, !Rleb_true in E. destruct E as [[[A B] C] D].
    apply sq_abs_le in A, B, C, D; try lra. nra.
  - rewrite U. apply sqrt_1.
Qed.
Lemma mjx_normalize4_unit (q : quat R) : unitq q -> mjx_normalize4 q = q.
Proof.
  intros U. unfold mjx_normalize4. rewrite (mjx_norm4_unit q U), mjx_den_pos by lra.
  dq q. nR. apply quat_ext; field.
Qed.

Lemma mjx_axis_angle_eq (a : vec3 R) (t : R) : mjx_axis_angle_to_quat a t = axisAngle_reg a t.
Proof. dv a. unfold mjx_axis_angle_to_quat, axisAngle_reg. rewrite nhalf_R. nR. reflexivity. Qed.

Lemma axisAngle_reg_zero (a : vec3 R) : axisAngle_reg a 0 = quatId.
Proof. dv a. unfold axisAngle_reg, quatId. replace (0 * / 2) with 0 by field. rewrite sin_0, cos_0. nR. apply quat_ext; ring. Qed.
Lemma axisAngle2Quat_is_reg (a : vec3 R) (t : R) : axisAngle2Quat a t = axisAngle_reg a t.
Proof. destruct (axisAngle2Quat_reg_eq a t) as [E|[Z E]]; [exact E|]. rewrite E, Z, axisAngle_reg_zero. reflexivity. Qed.

Lemma mjx_quat_integrate_eq (q : quat R) (v : vec3 R) (dt : R) :
  unitq q -> (v = (0, 0, 0) \/ notTiny3 v) -> mjx_quat_integrate q v dt = quatIntegrate q v dt.
Proof.
  intros U C. rewrite quatIntegrate_eq, normalize4_unit by assumption. cbn [fst].
  unfold mjx_quat_integrate. pose proof tol8_pos as TP. pose proof mjMINVAL_R as MV.
  destruct C as [Z|N].
  - subst v. assert (N0 : norm3 (T:=R) (0, 0, 0) = 0).
    { unfold norm3, dot3. nR. replace (0 * 0 + 0 * 0 + 0 * 0) with 0 by ring. apply sqrt_0. }
    assert (M0 : mjx_normalize3 (T:=R) (0, 0, 0) = ((0 / mjx_den 0, 0 / mjx_den 0, 0 / mjx_den 0), 0)).
    { unfold mjx_normalize3, mjx_norm3. nR. fold tol8. rewrite Rabs_R0.
      replace (Rleb 0 tol8) with true by (symmetry; apply Rleb_true; lra). reflexivity. }
    rewrite M0, N0. cbv beta iota. nR. replace (dt * 0) with 0 by ring.
    rewrite mjx_axis_angle_eq, axisAngle2Quat_is_reg, !axisAngle_reg_zero, mulQuat_id_r.
    apply mjx_normalize4_unit; assumption.
  - destruct (mjx_norm3_notTiny v N) as [E L].
    assert (NP : norm3 v <> 0) by lra.
    assert (BIG : mjMINVAL <= norm3 v).
    { rewrite MV. unfold tol8, Rdec in L. replace (10 ^ 8)%Z with 100000000%Z in L by reflexivity. lra. }
    assert (M : mjx_normalize3 v = (scl3 v (1 / norm3 v), norm3 v)).
    { unfold mjx_normalize3. rewrite E, mjx_den_pos by assumption. dv v. unfold scl3. nR. apply quat_ext; try reflexivity; field; assumption. }
    rewrite M. cbv beta iota. nR. rewrite normalize3_big, mjx_axis_angle_eq, axisAngle2Quat_is_reg by assumption.
    apply mjx_normalize4_unit. apply unitq_mul; [assumption|].
    rewrite <- axisAngle2Quat_is_reg. apply axisAngle2Quat_unit. apply scl3_unit. lra.
Qed.

Lemma mjx_quat_inv_eq (v : quat R) : mjx_quat_inv v = negQuat v.
Proof. dq v. unfold mjx_quat_inv, negQuat. nR. apply quat_ext; ring. Qed.

Lemma Ratan2_0 (x : R) : 2 * Ratan2 0 x = 0 \/ 2 * Ratan2 0 x = 2 * PI.
Proof.
  unfold Ratan2. destruct (Rlt_dec 0 x).
  - left. unfold Rdiv. rewrite Rmult_0_l, atan_0. ring.
  - destruct (Rlt_dec x 0).
    + right. destruct (Rle_dec 0 0); [|lra]. unfold Rdiv. rewrite Rmult_0_l, atan_0. ring.
    + left. destruct (Rlt_dec 0 0); [lra|]. ring.
Qed.

Lemma mjx_axis_angle_vel (p : quat R) :
  (let '(p0, p1, p2, p3) := p in (p1, p2, p3) = (0, 0, 0) \/ notTiny3 (p1, p2, p3)) ->
  (let '(axis, angle) := mjx_quat_to_axis_angle p in scl3 axis angle) = quat2Vel p 1.
Proof.
  dq p. intros C. unfold mjx_quat_to_axis_angle, quat2Vel. pose proof tol8_pos as TP. pose proof mjMINVAL_R as MV.
  pose proof PI_RGT_0 as PP.
  destruct C as [Z|N].
  - inversion Z; subst.
    assert (M0 : mjx_normalize3 (T:=R) (0, 0, 0) = ((0 / mjx_den 0, 0 / mjx_den 0, 0 / mjx_den 0), 0)).
    { unfold mjx_normalize3, mjx_norm3. nR. fold tol8. rewrite Rabs_R0.
      replace (Rleb 0 tol8) with true by (symmetry; apply Rleb_true; lra). reflexivity. }
    assert (C0 : normalize3 (T:=R) (0, 0, 0) = ((1, 0, 0), 0)).
    { unfold normalize3. nR. replace (0 * 0 + 0 * 0 + 0 * 0) with 0 by ring. rewrite sqrt_0.
      replace (Rltb 0 mjMINVAL) with true by (symmetry; apply Rltb_true; apply mjMINVAL_pos). reflexivity. }
    rewrite M0, C0. cbv beta iota. nR. unfold scl3. nR.
    destruct (Ratan2_0 p0) as [A|A]; rewrite A.
    + replace (Rltb PI 0) with false by (symmetry; apply Rltb_false; lra). apply vec_ext; unfold Rdiv; ring.
    + replace (Rltb PI (2 * PI)) with true by (symmetry; apply Rltb_true; lra). apply vec_ext; unfold Rdiv; ring.
  - destruct (mjx_norm3_notTiny _ N) as [E L].
    assert (NP : norm3 (p1, p2, p3) <> 0) by lra.
    assert (BIG : mjMINVAL <= norm3 (p1, p2, p3)).
    { rewrite MV. unfold tol8, Rdec in L. replace (10 ^ 8)%Z with 100000000%Z in L by reflexivity. lra. }
    assert (M : mjx_normalize3 (p1, p2, p3) = (scl3 (p1, p2, p3) (1 / norm3 (p1, p2, p3)), norm3 (p1, p2, p3))).
    { unfold mjx_normalize3. rewrite E, mjx_den_pos by assumption. unfold scl3. nR. apply quat_ext; try reflexivity; field; assumption. }
    assert (Cn : normalize3 (p1, p2, p3) = (scl3 (p1, p2, p3) (1 / norm3 (p1, p2, p3)), norm3 (p1, p2, p3))).
    { rewrite (surjective_pairing (normalize3 (p1, p2, p3))), normalize3_big, normalize3_snd by assumption. reflexivity. }
    rewrite M, Cn. cbv beta iota. nR.
    set (sp := if Rltb PI _ then _ else _). unfold scl3. nR. apply vec_ext; field; assumption.
Qed.

Lemma mjx_quat_sub_eq (u v : quat R) :
  (let '(p0, p1, p2, p3) := mulQuat (negQuat v) u in (p1, p2, p3) = (0, 0, 0) \/ notTiny3 (p1, p2, p3)) ->
  mjx_quat_sub u v = subQuat u v.
Proof.
  intros C. unfold mjx_quat_sub, subQuat. rewrite mjx_quat_inv_eq. change (none (T:=R)) with 1.
  apply mjx_axis_angle_vel. exact C.
Qed.

(* ---- the combined statements of Props/C24.v *)
Lemma mulQuat_identity (a : quat R) : mulQuat quatId a = a /\ mulQuat a quatId = a.
Proof. split; [apply mulQuat_id_l | apply mulQuat_id_r]. Qed.
Lemma negQuat_inverse_full (q : quat R) :
    mulQuat q (negQuat q) = (qnorm2 q, 0, 0, 0) /\ mulQuat (negQuat q) q = (qnorm2 q, 0, 0, 0) /\
    (unitq q -> mulQuat q (negQuat q) = quatId /\ mulQuat (negQuat q) q = quatId /\ unitq (negQuat q)) /\
    (forall p, qnorm2 (mulQuat q p) = qnorm2 q * qnorm2 p).
Proof.
  split; [apply mulQuat_neg_r|]. split; [apply mulQuat_neg_l|]. split.
  - intros U. destruct (negQuat_inverse q U). auto using unitq_neg.
  - intros p. apply qnorm2_mul.
Qed.
Lemma rotVecQuat_matrix_both (v : vec3 R) (q : quat R) : unitq q ->
    rotVecQuat v q = mulMatVec3 (quat2Mat q) v /\ rotVecQuat_i v q = mulMatVec3 (quat2Mat q) v.
Proof. intros. split; [apply rotVecQuat_mat | apply rotVecQuat_i_mat]; assumption. Qed.
Lemma rotVecQuat_norm_both (v : vec3 R) (q : quat R) : unitq q ->
    norm3 (rotVecQuat v q) = norm3 v /\ norm3 (rotVecQuat_i v q) = norm3 v.
Proof. intros. split; [apply rotVecQuat_norm | apply rotVecQuat_i_norm]; assumption. Qed.
Lemma rotVecQuat_nonunit_both (v : vec3 R) (q : quat R) :
    rotVecQuat v q = add3 (mulMatVec3 (quat2Mat q) v) (scl3 v (1 - qnorm2 q)) /\
    rotVecQuat_i v q = rotVecQuat v q.
Proof. split; [apply rotVecQuat_nonunit | apply rotVecQuat_i_eq]. Qed.
Lemma mulPose_group (p1 p2 p3 : pose R) : unitp p1 -> unitp p2 -> unitp p3 ->
    mulPose (mulPose p1 p2) p3 = mulPose p1 (mulPose p2 p3) /\
    unitp (mulPose p1 p2) /\ unitp (negPose p1) /\
    mulPose poseId p1 = p1 /\ mulPose p1 poseId = p1 /\
    mulPose p1 (negPose p1) = poseId /\ mulPose (negPose p1) p1 = poseId.
Proof.
  intros U1 U2 U3.
  destruct (mulPose_id p1 U1). destruct (negPose_inverse p1 U1).
  repeat split; auto using mulPose_assoc, mulPose_unitp, negPose_unitp.
Qed.
Lemma trnVecPose_action_full (p1 p2 : pose R) (v : vec3 R) : unitp p1 -> unitp p2 ->
    trnVecPose (mulPose p1 p2) v = trnVecPose p1 (trnVecPose p2 v) /\
    trnVecPose poseId v = v /\
    trnVecPose (negPose p1) (trnVecPose p1 v) = v.
Proof. intros. repeat split; auto using trnVecPose_action, trnVecPose_id, trnVecPose_neg. Qed.
Lemma euler_examples (e0 e1 e2 : R) :
    euler2Quat (e0, e1, e2) "xyz" = Some (mulQuat (rotOf "x" e0) (mulQuat (rotOf "y" e1) (rotOf "z" e2))) /\
    euler2Quat (e0, e1, e2) "XYZ" = Some (mulQuat (rotOf "Z" e2) (mulQuat (rotOf "Y" e1) (rotOf "X" e0))) /\
    euler2Quat (e0, e1, e2) "xYz" = Some (mulQuat (rotOf "Y" e1) (mulQuat (rotOf "x" e0) (rotOf "z" e2))).
Proof.
  assert (V : forall s, In s ["xyz"%string; "XYZ"%string; "xYz"%string] -> Forall validEuler (list_ascii_of_string s)).
  { intros s [<-|[<-|[<-|[]]]]; cbn; repeat (apply Forall_cons; [unfold validEuler; auto 10|]); apply Forall_nil. }
  repeat split; (rewrite euler2Quat_product; [|reflexivity|apply V; cbn; auto]);
    cbn [list_ascii_of_string v2l factors isLower Ascii.eqb Bool.eqb orb andb rev app qprod fold_right];
    rewrite ?mulQuat_id_r, ?mulQuat_id_l, ?mulQuat_assoc; reflexivity.
Qed.
