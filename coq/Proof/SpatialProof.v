(* Proofs at R about Model/Spatial.v (C24). *)
From Coq Require Import ZArith List PrimFloat Reals Lra Lia Psatz Bool String Ascii.
From MJV Require Import Lib.Num Lib.NumR Model.Spatial.
Import ListNotations.
Open Scope R_scope.

Ltac dq q := let a := fresh q "0" in let b := fresh q "1" in let c := fresh q "2" in let d := fresh q "3" in
  destruct q as [[[a b] c] d].
Ltac dv v := let a := fresh v "0" in let b := fresh v "1" in let c := fresh v "2" in
  destruct v as [[a b] c].

Lemma quat_ext (a b c d a' b' c' d' : R) :
  a = a' -> b = b' -> c = c' -> d = d' -> (a, b, c, d) = (a', b', c', d').
Proof. intros; subst; reflexivity. Qed.
Lemma vec_ext (a b c a' b' c' : R) : a = a' -> b = b' -> c = c' -> (a, b, c) = (a', b', c').
Proof. intros; subst; reflexivity. Qed.
Lemma mat_ext (a0 a1 a2 a3 a4 a5 a6 a7 a8 b0 b1 b2 b3 b4 b5 b6 b7 b8 : R) :
  a0 = b0 -> a1 = b1 -> a2 = b2 -> a3 = b3 -> a4 = b4 -> a5 = b5 -> a6 = b6 -> a7 = b7 -> a8 = b8 ->
  (a0, a1, a2, a3, a4, a5, a6, a7, a8) = (b0, b1, b2, b3, b4, b5, b6, b7, b8).
Proof. intros; subst; reflexivity. Qed.

Lemma mulQuat_assoc (a b c : quat R) : mulQuat (mulQuat a b) c = mulQuat a (mulQuat b c).
Proof. dq a; dq b; dq c. unfold mulQuat. num_R. apply quat_ext; ring. Qed.
