(* C37 — mjXSchema::Check (Model/Schema.v) accepts exactly the conforming trees (Model/SchemaSpec.v). *)
From Coq Require Import String List Bool ZArith Arith Lia.
From MJV Require Import Model.Schema Model.SchemaSpec.
Import ListNotations.
Open Scope string_scope.

(* ---------------------------------------------------------------- generic list facts *)
Lemma mem_In : forall (a : string) (l : list string), mem a l = true <-> In a l.
Proof.
  intros a l. unfold mem. rewrite existsb_exists. split.
  - intros [x [Hin Heq]]. apply String.eqb_eq in Heq. subst. exact Hin.
  - intros H. exists a. split; [exact H | apply String.eqb_refl].
Qed.

Lemma mem_false_In : forall (a : string) (l : list string), mem a l = false <-> ~ In a l.
Proof.
  intros a l. split.
  - intros H Hin. apply mem_In in Hin. congruence.
  - intros H. destruct (mem a l) eqn:E; [| reflexivity]. apply mem_In in E. contradiction.
Qed.

Lemma first_some_none : forall (A E : Type) (f : A -> option E) (l : list A),
  first_some f l = None <-> (forall x : A, In x l -> f x = None).
Proof.
  intros A E f l. induction l as [| x r IH]; simpl.
  - split; [intros _ y [] | reflexivity].
  - destruct (f x) eqn:Ex.
    + split; [discriminate |]. intros H. rewrite <- Ex. apply H. left. reflexivity.
    + rewrite IH. split.
      * intros H y [Hy | Hy]; [subst; exact Ex | apply H; exact Hy].
      * intros H y Hy. apply H. right. exact Hy.
Qed.

Lemma filter_len_zero : forall (A : Type) (p : A -> bool) (l : list A),
  length (filter p l) = 0 <-> (forall x : A, In x l -> p x = false).
Proof.
  intros A p l. induction l as [| x r IH]; simpl.
  - split; [intros _ y [] | reflexivity].
  - destruct (p x) eqn:Ex; simpl.
    + split; [discriminate |]. intros H. specialize (H x (or_introl eq_refl)). congruence.
    + rewrite IH. split.
      * intros H y [Hy | Hy]; [subst; exact Ex | apply H; exact Hy].
      * intros H y Hy. apply H. right. exact Hy.
Qed.

Lemma filter_len_le : forall (A : Type) (p : A -> bool) (l : list A), length (filter p l) <= length l.
Proof.
  intros A p l. induction l as [| x r IH]; simpl; [lia |]. destruct (p x); simpl; lia.
Qed.

Lemma filter_len_full : forall (A : Type) (p : A -> bool) (l : list A),
  length (filter p l) = length l <-> (forall x : A, In x l -> p x = true).
Proof.
  intros A p l. induction l as [| x r IH]; simpl.
  - split; [intros _ y [] | reflexivity].
  - destruct (p x) eqn:Ex; simpl.
    + split.
      * intros H y [Hy | Hy]; [subst; exact Ex |]. apply IH; [lia | exact Hy].
      * intros H. f_equal. apply IH. intros y Hy. apply H. right. exact Hy.
    + split.
      * intros H. pose proof (filter_len_le A p r). lia.
      * intros H. specialize (H x (or_introl eq_refl)). congruence.
Qed.

Lemma filter_len_amo : forall (A : Type) (p : A -> bool) (l : list A),
  length (filter p l) <= 1 <-> AtMostOne p l.
Proof.
  intros A p l. induction l as [| x r IH]; simpl.
  - split; [intros _; constructor | lia].
  - destruct (p x) eqn:Ex; simpl.
    + split.
      * intros H. apply AMO_take; [exact Ex |]. apply filter_len_zero. lia.
      * intros H. inversion H; subst; [congruence |].
        match goal with Hz : forall y, In y r -> p y = false |- _ => apply filter_len_zero in Hz; lia end.
    + rewrite IH. split.
      * intros H. apply AMO_skip; assumption.
      * intros H. inversion H; subst; [assumption | congruence].
Qed.

Lemma existsb_filter_len : forall (A : Type) (p : A -> bool) (l : list A),
  length (filter p l) <> 0 <-> (exists x : A, In x l /\ p x = true).
Proof.
  intros A p l. split.
  - intros H. destruct (filter p l) as [| y t] eqn:E; [simpl in H; congruence |].
    exists y. apply filter_In. rewrite E. left. reflexivity.
  - intros [x [Hin Hp]] Hz. apply filter_len_zero with (x := x) in Hz; [congruence | exact Hin].
Qed.

(* ---------------------------------------------------------------- presence constraints *)
Lemma bundle_any_spec : forall (attrs b : list string), bundle_any attrs b = true <-> some_present attrs b.
Proof.
  intros attrs b. unfold bundle_any, some_present, present. rewrite existsb_exists. split.
  - intros [a [Hin Hm]]. exists a. split; [exact Hin | apply mem_In; exact Hm].
  - intros [a [Hin Hm]]. exists a. split; [exact Hin | apply mem_In; exact Hm].
Qed.

Lemma bundle_all_spec : forall (attrs b : list string), bundle_all attrs b = true <-> all_present attrs b.
Proof.
  intros attrs b. unfold bundle_all, all_present, present. rewrite forallb_forall. split.
  - intros H a Ha. apply mem_In. apply H. exact Ha.
  - intros H a Ha. apply mem_In. apply H. exact Ha.
Qed.

Lemma con_violated_false : forall (attrs : list string) (c : constraint),
  con_violated attrs c = false <-> con_ok attrs c.
Proof.
  intros attrs [k bs]. unfold con_violated, con_ok. simpl. destruct k.
  - (* exclusive *)
    rewrite Nat.ltb_ge. unfold n_any. apply filter_len_amo.
  - (* together *)
    unfold n_present, n_attr. split.
    + intros H. apply andb_false_iff in H. destruct H as [H | H]; apply negb_false_iff in H; apply Nat.eqb_eq in H.
      * right. intros a Ha. apply mem_false_In. unfold present in H.
        apply (proj1 (filter_len_zero _ _ _) H a Ha).
      * left. intros a Ha. apply mem_In. apply (proj1 (filter_len_full _ _ _) H a Ha).
    + intros [H | H]; apply andb_false_iff.
      * right. apply negb_false_iff. apply Nat.eqb_eq. apply filter_len_full.
        intros a Ha. apply mem_In. apply H. exact Ha.
      * left. apply negb_false_iff. apply Nat.eqb_eq. apply filter_len_zero.
        intros a Ha. apply mem_false_In. apply H. exact Ha.
  - (* requires *)
    unfold n_any, present. split.
    + intros H [b [Hb Hs]] H0.
      destruct (mem (head_of bs 1) attrs) eqn:E1; [apply mem_In; exact E1 |].
      exfalso. apply mem_In in H0. rewrite H0 in H. simpl in H.
      rewrite !andb_true_r in H. apply negb_false_iff in H. apply Nat.eqb_eq in H.
      apply bundle_any_spec in Hs.
      apply (proj1 (filter_len_zero _ _ _) H b) in Hb. congruence.
    + intros H.
      destruct (negb (length (filter (bundle_any attrs) bs) =? 0)%nat) eqn:E0; [| reflexivity].
      destruct (mem (head_of bs 0) attrs) eqn:E1; [| reflexivity]. simpl.
      apply negb_false_iff. apply mem_In. apply H.
      * apply negb_true_iff in E0. apply Nat.eqb_neq in E0. apply existsb_filter_len in E0.
        destruct E0 as [b [Hb Hs]]. exists b. split; [exact Hb | apply bundle_any_spec; exact Hs].
      * apply mem_In. exact E1.
  - (* oneof *)
    unfold n_all. split.
    + intros H. apply Nat.eqb_neq in H. apply existsb_filter_len in H.
      destruct H as [b [Hb Hs]]. exists b. split; [exact Hb | apply bundle_all_spec; exact Hs].
    + intros [b [Hb Hs]]. apply Nat.eqb_neq. apply existsb_filter_len.
      exists b. split; [exact Hb | apply bundle_all_spec; exact Hs].
  - split; [intros _; exact I | reflexivity].
Qed.

Lemma check_constraints_none : forall (cns : list constraint) (attrs : list string),
  check_constraints cns attrs = None <-> (forall c : constraint, In c cns -> con_ok attrs c).
Proof.
  intros cns attrs. unfold check_constraints. rewrite first_some_none. split.
  - intros H c Hc. apply con_violated_false. specialize (H c Hc).
    destruct (con_violated attrs c); [discriminate | reflexivity].
  - intros H c Hc. apply H in Hc. apply con_violated_false in Hc. rewrite Hc. reflexivity.
Qed.

(* ---------------------------------------------------------------- attributes *)
Lemma find_unknown_none : forall (known attrs : list string),
  find (fun a => negb (mem a known)) attrs = None <-> (forall a : string, In a attrs -> In a known).
Proof.
  intros known attrs. split.
  - intros H a Ha. apply mem_In. pose proof (find_none _ _ H a Ha) as Hn. simpl in Hn.
    apply negb_false_iff in Hn. exact Hn.
  - intros H. induction attrs as [| x r IH]; simpl; [reflexivity |].
    assert (Hx : mem x known = true) by (apply mem_In; apply H; left; reflexivity).
    rewrite Hx. simpl. apply IH. intros a Ha. apply H. right. exact Ha.
Qed.

(* ---------------------------------------------------------------- cardinalities *)
Lemma card_violation_none : forall (c : card) (nm : string) (cnt : nat),
  card_violation c nm cnt = None <-> card_ok c cnt.
Proof.
  intros c nm cnt. unfold card_violation, card_ok. destruct c; try (split; [intros _; exact I | reflexivity]).
  - destruct (1 <? cnt)%nat eqn:E1.
    + apply Nat.ltb_lt in E1. split; [discriminate | lia].
    + apply Nat.ltb_ge in E1. destruct (cnt <? 1)%nat eqn:E2.
      * apply Nat.ltb_lt in E2. split; [discriminate | lia].
      * apply Nat.ltb_ge in E2. split; [lia | reflexivity].
  - destruct (1 <? cnt)%nat eqn:E1.
    + apply Nat.ltb_lt in E1. split; [discriminate | lia].
    + apply Nat.ltb_ge in E1. split; [lia | reflexivity].
Qed.

Lemma card_scan_none : forall (allsubs subs : list schema) (lvl : nat) (kids : list dom) (i : nat) (acc : option ekind),
  card_scan allsubs subs lvl kids i acc = None <->
  (acc = None /\ forall (j : nat) (sub : schema), nth_error subs j = Some sub ->
                   card_ok (scard sub) (refcnt allsubs lvl kids (i + j))).
Proof.
  intros allsubs subs lvl kids. induction subs as [| s r IH]; intros i acc; simpl.
  - split.
    + intros H. split; [exact H |]. intros j sub Hj. destruct j; discriminate.
    + intros [H _]. exact H.
  - rewrite IH. split.
    + intros [Hacc Hall].
      destruct (card_violation (scard s) (sname s) (refcnt allsubs lvl kids i)) eqn:Ev; [discriminate |].
      split; [exact Hacc |]. intros j sub Hj. destruct j as [| j].
      * simpl in Hj. inversion Hj; subst. rewrite Nat.add_0_r. apply card_violation_none in Ev. exact Ev.
      * simpl in Hj. replace (i + S j) with (S i + j) by lia. apply Hall. exact Hj.
    + intros [Hacc Hall]. subst acc.
      assert (Ev : card_violation (scard s) (sname s) (refcnt allsubs lvl kids i) = None).
      { apply card_violation_none. specialize (Hall 0 s eq_refl). rewrite Nat.add_0_r in Hall. exact Hall. }
      rewrite Ev. split; [reflexivity |]. intros j sub Hj.
      replace (S i + j) with (i + S j) by lia. apply Hall. exact Hj.
Qed.

(* ---------------------------------------------------------------- induction principle for dom *)
Lemma dom_ind2 : forall P : dom -> Prop,
  (forall (n : string) (a : list string) (l : Z) (ks : list dom), Forall P ks -> P (Elem n a l ks)) ->
  forall d : dom, P d.
Proof.
  intros P H. fix IH 1. intros [n a l ks]. apply H.
  induction ks as [| k r IHr]; constructor; [apply IH | exact IHr].
Qed.

(* ---------------------------------------------------------------- unfolding of check *)
Lemma check_eq : forall (bnm : bool) (s : schema) (lvl : nat) (n : string) (attrs : list string) (line : Z) (kids : list dom),
  check bnm s lvl (Elem n attrs line kids) =
      if negb (name_match (sname s) lvl n) then Some (mkErr EUnrecElem n line) else
      match find (fun a => negb (mem a (sattrs s))) attrs with
      | Some a => Some (mkErr (EUnrecAttr a) n line)
      | None =>
      match check_constraints (scons s) attrs with
      | Some k => Some (mkErr (ECon k) n line)
      | None =>
      match (if is_rec (scard s)
             then first_some (fun k => if rec_pred bnm (sname s) (S lvl) (dname k) then check bnm s (S lvl) k else None) kids
             else None) with
      | Some x => Some x
      | None =>
      match first_some (fun k =>
                match governs (ssubs s) (S lvl) (dname k) with
                | Some (_, sub) => check bnm sub (S lvl) k
                | None => if is_rec (scard s) && name_match (sname s) (S lvl) (dname k) then None
                          else Some (mkErr EUnrecElem (dname k) (dline k))
                end) kids with
      | Some x => Some x
      | None =>
      match card_scan (ssubs s) (ssubs s) (S lvl) kids 0 None with
      | Some ekd => Some (mkErr ekd n line)
      | None => None
      end end end end end.
Proof. intros. reflexivity. Qed.

Lemma is_rec_true : forall c : card, is_rec c = true <-> c = CRec.
Proof. intros c. destruct c; simpl; split; intros H; try discriminate; reflexivity. Qed.

(* ---------------------------------------------------------------- main theorem *)
Theorem check_iff_conforms : forall (bnm : bool) (e : dom) (s : schema) (lvl : nat),
  check bnm s lvl e = None <-> Conforms bnm s lvl e.
Proof.
  intros bnm e. induction e as [n attrs line kids IH] using dom_ind2. intros s lvl.
  rewrite Forall_forall in IH. rewrite check_eq. split.
  - (* check = None -> Conforms *)
    intros H.
    destruct (name_match (sname s) lvl n) eqn:Hnm; simpl in H; [| discriminate].
    destruct (find (fun a => negb (mem a (sattrs s))) attrs) eqn:Hfind; [discriminate |].
    destruct (check_constraints (scons s) attrs) eqn:Hcon; [discriminate |].
    destruct (if is_rec (scard s)
              then first_some (fun k => if rec_pred bnm (sname s) (S lvl) (dname k) then check bnm s (S lvl) k else None) kids
              else None) eqn:Hrec; [discriminate |].
    match type of H with match ?X with _ => _ end = _ => destruct X eqn:Hkids; [discriminate |] end.
    destruct (card_scan (ssubs s) (ssubs s) (S lvl) kids 0 None) eqn:Hcard; [discriminate |].
    rewrite first_some_none in Hkids.
    apply Conf.
    + exact Hnm.
    + apply find_unknown_none. exact Hfind.
    + apply check_constraints_none. exact Hcon.
    + intros k i sub Hk Hg. specialize (Hkids k Hk). rewrite Hg in Hkids. apply IH; assumption.
    + intros k Hk Hg. specialize (Hkids k Hk). rewrite Hg in Hkids.
      destruct (is_rec (scard s) && name_match (sname s) (S lvl) (dname k)) eqn:E; [| discriminate].
      apply andb_true_iff in E. destruct E as [E1 E2]. split; [apply is_rec_true; exact E1 | exact E2].
    + intros HR k Hk Hp. apply is_rec_true in HR. rewrite HR in Hrec. rewrite first_some_none in Hrec.
      specialize (Hrec k Hk). rewrite Hp in Hrec. apply IH; assumption.
    + intros i sub Hi. apply card_scan_none in Hcard. destruct Hcard as [_ Hc].
      specialize (Hc i sub Hi). simpl in Hc. exact Hc.
  - (* Conforms -> check = None *)
    intros H. inversion H as [s0 lvl0 n0 attrs0 line0 kids0 Hnm Hattr Hcon Hgov Hnone Hrec Hcard]; subst.
    rewrite Hnm. simpl.
    rewrite (proj2 (find_unknown_none (sattrs s) attrs) Hattr).
    rewrite (proj2 (check_constraints_none (scons s) attrs) Hcon).
    assert (E1 : (if is_rec (scard s)
              then first_some (fun k => if rec_pred bnm (sname s) (S lvl) (dname k) then check bnm s (S lvl) k else None) kids
              else None) = None).
    { destruct (is_rec (scard s)) eqn:ER; [| reflexivity]. apply is_rec_true in ER.
      apply first_some_none. intros k Hk.
      destruct (rec_pred bnm (sname s) (S lvl) (dname k)) eqn:Hp; [| reflexivity].
      apply IH; [exact Hk |]. apply Hrec; assumption. }
    rewrite E1.
    assert (E2 : first_some (fun k =>
                match governs (ssubs s) (S lvl) (dname k) with
                | Some (_, sub) => check bnm sub (S lvl) k
                | None => if is_rec (scard s) && name_match (sname s) (S lvl) (dname k) then None
                          else Some (mkErr EUnrecElem (dname k) (dline k))
                end) kids = None).
    { apply first_some_none. intros k Hk.
      destruct (governs (ssubs s) (S lvl) (dname k)) as [[i sub] |] eqn:Hg.
      - apply IH; [exact Hk |]. apply (Hgov k i sub Hk Hg).
      - destruct (Hnone k Hk Hg) as [HR HN]. rewrite HR, HN. reflexivity. }
    rewrite E2.
    assert (E3 : card_scan (ssubs s) (ssubs s) (S lvl) kids 0 None = None).
    { apply card_scan_none. split; [reflexivity |]. intros j sub Hj. simpl. apply Hcard. exact Hj. }
    rewrite E3. reflexivity.
Qed.

Corollary check_doc_iff : forall (bnm : bool) (s : schema) (root : dom),
  check_doc bnm s root = None <-> ConformsDoc bnm s root.
Proof. intros. unfold check_doc, ConformsDoc. apply check_iff_conforms. Qed.

(* ---------------------------------------------------------------- the two readings of the recursion loop *)
(* the strong meaning implies the weak one: a check by exact name never rejects a tree that conforms
   in the strong sense ("conforming documents are not rejected for schema reasons" holds for both
   variants of the code) *)
Lemma rec_pred_weaker : forall (sn : string) (lvl : nat) (n : string),
  rec_pred false sn lvl n = true -> rec_pred true sn lvl n = true.
Proof.
  intros sn lvl n H. unfold rec_pred in *. apply String.eqb_eq in H. subst n.
  unfold name_match. rewrite String.eqb_refl. apply orb_true_r.
Qed.

Lemma conforms_strong_weak : forall (e : dom) (s : schema) (lvl : nat),
  Conforms true s lvl e -> Conforms false s lvl e.
Proof.
  intros e. induction e as [n attrs line kids IH] using dom_ind2. intros s lvl H.
  rewrite Forall_forall in IH.
  inversion H as [s0 lvl0 n0 attrs0 line0 kids0 Hnm Hattr Hcon Hgov Hnone Hrec Hcard]; subst.
  apply Conf; try assumption.
  - intros k i sub Hk Hg. apply IH; [exact Hk |]. apply (Hgov k i sub Hk Hg).
  - intros HR k Hk Hp. apply IH; [exact Hk |]. apply Hrec; [exact HR | exact Hk |].
    apply rec_pred_weaker. exact Hp.
Qed.

Theorem exact_name_never_rejects_conforming : forall (s : schema) (root : dom) (e : err),
  check_doc false s root = Some e -> ~ ConformsDoc true s root.
Proof.
  intros s root e H HC. unfold ConformsDoc in HC. apply conforms_strong_weak in HC.
  apply check_iff_conforms in HC. unfold check_doc in H. congruence.
Qed.

(* the exact-name variant accepts trees that do not conform: two unique children below an alias tag *)
Definition wit_schema : schema :=
  Sch "mujoco" COne [] [] [Sch "body" CRec ["name"] [] [Sch "inertial" COpt ["mass"] [] []]].
Definition wit_doc : dom :=
  Elem "mujoco" [] 1 [Elem "worldbody" [] 2 [Elem "frame" [] 3 [Elem "inertial" ["mass"] 4 []; Elem "inertial" ["mass"] 5 []]]].

Theorem exact_name_accepts_nonconforming :
  exists (s : schema) (root : dom), check_doc false s root = None /\ ~ ConformsDoc true s root.
Proof.
  exists wit_schema, wit_doc. split; [vm_compute; reflexivity |].
  intros H. apply check_doc_iff in H. vm_compute in H. discriminate.
Qed.

Theorem conforming_not_rejected : forall (bnm : bool) (tbl : schema) (doc : dom),
  ConformsFull tbl doc -> check_doc bnm tbl doc = None.
Proof.
  intros bnm tbl doc H. destruct bnm.
  - apply (check_doc_iff true). exact H.
  - destruct (check_doc false tbl doc) eqn:E; [| reflexivity].
    exfalso. exact (exact_name_never_rejects_conforming tbl doc e E H).
Qed.
