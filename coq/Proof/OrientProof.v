(* Proofs about Model/Orient.v. *)
From Coq Require Import ZArith List PrimFloat Reals Lra Lia Psatz Bool String Ascii.
From MJV Require Import Lib.Num Lib.NumR Model.Spatial Proof.SpatialProof Model.Inertia Proof.InertiaProof Model.Orient.
Import ListNotations.
Open Scope R_scope.

(* ---- default classes: the innermost class that sets an attribute wins *)
Section Defaults.
Context {V : Type}.
Lemma resolveClass_spec (chain : list (@attrs V)) : forall (builtin : Z -> V) (a : Z),
  resolveClass builtin chain a = match innermost chain a with Some v => v | None => builtin a end.
Proof.
  induction chain as [|c r IH]; intros builtin a; simpl; [reflexivity|].
  rewrite IH. destruct (innermost r a); [reflexivity|]. unfold override. destruct (c a); reflexivity.
Qed.
Lemma resolveElement_spec (builtin : Z -> V) (chain : list (@attrs V)) (own : @attrs V) (a : Z) :
  resolveElement builtin chain own a =
  match own a with Some v => v | None => match innermost chain a with Some v => v | None => builtin a end end.
Proof. unfold resolveElement, override. rewrite resolveClass_spec. reflexivity. Qed.
End Defaults.

(* ------------------------------------------------------------------------------------------ *)
(* mjuu_normvec at the reals *)
Lemma mjEPS_R : mjEPS (T:=R) = / 100000000000000.
Proof. unfold mjEPS. num_R. unfold Rdec. replace (10 ^ 14)%Z with 100000000000000%Z by reflexivity. field. Qed.
Lemma mjEPS_pos : 0 < mjEPS (T:=R). Proof. rewrite mjEPS_R. lra. Qed.
Lemma mjEPS_lt1 : mjEPS (T:=R) < 1. Proof. rewrite mjEPS_R. lra. Qed.

Lemma normvec4_unit (q : quat R) : unitq q -> normvec4 q = q.
Proof.
  intros U. dq q. unfold unitq, qnorm2 in U. unfold normvec4. num_R. rewrite U.
  pose proof mjEPS_pos. pose proof mjEPS_lt1.
  destruct (Rltb 1 mjEPS) eqn:E1; [apply Rltb_true in E1; lra|].
  rewrite sqrt_1. replace (1 - 1) with 0 by ring. rewrite Rabs_R0.
  destruct (Rltb mjEPS 0) eqn:E2; [apply Rltb_true in E2; lra | reflexivity].
Qed.
Lemma uu_mulquat_unit (a b : quat R) : unitq a -> unitq b -> uu_mulquat a b = mulQuat a b.
Proof. intros. unfold uu_mulquat. apply normvec4_unit. apply unitq_mul; assumption. Qed.

(* regular arm of mjuu_normvec(.,3): the vector is scaled to unit length; the second hypothesis excludes the window
   0 < | |v| - 1 | <= mjEPS in which the C function leaves a slightly non-unit vector untouched *)
Lemma normvec3_spec (v : vec3 R) :
  mjEPS <= dot3 v v -> (norm3 v = 1 \/ mjEPS < Rabs (norm3 v - 1)) ->
  normvec3 v = (scl3 v (/ norm3 v), norm3 v) /\ unitv (scl3 v (/ norm3 v)) /\ mjEPS <= norm3 v.
Proof.
  intros B W. dv v. unfold normvec3, norm3, dot3, unitv, scl3 in *. num_R.
  pose proof mjEPS_pos as P. pose proof mjEPS_lt1 as P1.
  set (n2 := v0 * v0 + v1 * v1 + v2 * v2) in *.
  assert (N2 : 0 < n2) by lra.
  assert (SP : 0 < sqrt n2) by (apply sqrt_lt_R0; assumption).
  assert (SS : sqrt n2 * sqrt n2 = n2) by (apply sqrt_sqrt; lra).
  assert (LB : mjEPS <= sqrt n2).
  { destruct (Rle_dec 1 (sqrt n2)); [lra|]. assert (sqrt n2 < 1) by lra.
    assert (n2 <= sqrt n2) by nra. lra. }
  destruct (Rltb n2 mjEPS) eqn:E1; [apply Rltb_true in E1; lra|].
  split; [|split; [|assumption]].
  - destruct (Rltb mjEPS (Rabs (sqrt n2 - 1))) eqn:E2.
    + reflexivity.
    + apply Rltb_false in E2. destruct W as [W|W]; [|lra]. rewrite W.
      replace (v0 * / 1) with v0 by field. replace (v1 * / 1) with v1 by field. replace (v2 * / 1) with v2 by field. reflexivity.
  - unfold dot3. num_R. transitivity (n2 * (/ sqrt n2 * / sqrt n2)); [unfold n2; ring|].
    rewrite <- SS at 1. field. lra.
Qed.
Lemma normvec3_small (v : vec3 R) : dot3 v v < mjEPS -> normvec3 v = (v, 0).
Proof.
  intros B. dv v. unfold normvec3, dot3 in *. num_R.
  destruct (Rltb _ mjEPS) eqn:E1; [reflexivity | apply Rltb_false in E1; lra].
Qed.

(* ------------------------------------------------------------------------------------------ *)
(* axisangle *)
Lemma toRad_deg (a : R) : toRad true a = a / 180 * PI.
Proof. unfold toRad, n180. num_R. reflexivity. Qed.
Lemma toRad_rad (a : R) : toRad false a = a.
Proof. reflexivity. Qed.

Lemma resolveAxisAngle_spec (degree : bool) (ax : vec3 R) (angle : R) :
  mjEPS <= dot3 ax ax -> (norm3 ax = 1 \/ mjEPS < Rabs (norm3 ax - 1)) ->
  let a := scl3 ax (/ norm3 ax) in
  let q := axisAngle_reg a (toRad degree angle) in
  resolveAxisAngle degree ax angle = Some q /\ unitq q /\ quat2Mat q = rodrigues a (toRad degree angle).
Proof.
  intros B W a q. destruct (normvec3_spec ax B W) as (E & U & L).
  unfold resolveAxisAngle. rewrite E. fold a in U |- *.
  destruct (norm3 ax <? mjEPS)%num eqn:E1; [num_R; apply Rltb_true in E1; lra|].
  assert (Q : q = axisAngle2Quat a (toRad degree angle) \/ toRad degree angle = 0).
  { destruct (axisAngle2Quat_reg_eq a (toRad degree angle)) as [X|[Z X]]; [left; symmetry; exact X | right; exact Z]. }
  split.
  - destruct a as [[a0 a1] a2]. subst q. unfold axisAngle_reg, ntwo. num_R. apply f_equal.
    change (toRad degree angle / 2) with (toRad degree angle * / 2). apply quat_ext; ring.
  - assert (UQ : unitq q).
    { destruct a as [[a0 a1] a2]. subst q. unfold unitv, dot3 in U. num_R. unfold unitq, qnorm2, axisAngle_reg.
      pose proof (sin2cos2 (toRad degree angle * / 2)). nra. }
    split; [exact UQ|].
    destruct Q as [Q|Z].
    + rewrite Q. apply axisAngle2Quat_rodrigues. exact U.
    + subst q. rewrite Z. rewrite quat2Mat_is_reg. destruct a as [[a0 a1] a2].
      unfold rodrigues, quat2Mat_reg, madd, mscl, skew, mulMatMat3, matId, axisAngle_reg. num_R.
      replace (0 * / 2) with 0 by field. rewrite sin_0, cos_0. apply mat_ext; ring.
Qed.
Lemma resolveAxisAngle_small (degree : bool) (ax : vec3 R) (angle : R) :
  dot3 ax ax < mjEPS -> resolveAxisAngle degree ax angle = None.
Proof.
  intros B. unfold resolveAxisAngle. rewrite (normvec3_small ax B). num_R.
  destruct (Rltb 0 mjEPS) eqn:E; [reflexivity | apply Rltb_false in E; pose proof mjEPS_pos; lra].
Qed.
(* degrees: the same rotation as the angle converted to radians *)
Lemma resolveAxisAngle_degree (ax : vec3 R) (angle : R) :
  resolveAxisAngle true ax angle = resolveAxisAngle false ax (angle / 180 * PI).
Proof. unfold resolveAxisAngle. rewrite toRad_deg, toRad_rad. reflexivity. Qed.

(* ------------------------------------------------------------------------------------------ *)
(* euler: the user-side loop (product + mjuu_normvec at every step) is the engine's loop on unit quaternions *)
Lemma eulerRot_unit (c : ascii) (e : R) (r : quat R) : eulerRot c e = Some r -> unitq r.
Proof.
  intros E. destruct (classic_valid c) as [V|V].
  - rewrite (eulerRot_valid c e V) in E. inversion E. apply axisAngle2Quat_unit. apply axisOf_unit.
  - rewrite (eulerRot_invalid c e V) in E. discriminate.
Qed.
Lemma uuEulerStep_eq (q : quat R) (c : ascii) (e : R) : unitq q -> uuEulerStep q c e = eulerStep q c e.
Proof.
  intros U. unfold uuEulerStep, eulerStep.
  change (if (Ascii.eqb c "x") || (Ascii.eqb c "X") then Some (ncos (e / ntwo)%num, nsin (e / ntwo)%num, nzero, nzero)
          else if (Ascii.eqb c "y") || (Ascii.eqb c "Y") then Some (ncos (e / ntwo)%num, nzero, nsin (e / ntwo)%num, nzero)
          else if (Ascii.eqb c "z") || (Ascii.eqb c "Z") then Some (ncos (e / ntwo)%num, nzero, nzero, nsin (e / ntwo)%num)
          else None) with (eulerRot c e).
  destruct (eulerRot c e) as [r|] eqn:E; [|reflexivity].
  pose proof (eulerRot_unit c e r E) as UR.
  destruct (isLower c); rewrite uu_mulquat_unit by assumption; reflexivity.
Qed.
Lemma eulerStep_unit (q : quat R) (c : ascii) (e : R) (q' : quat R) : unitq q -> eulerStep q c e = Some q' -> unitq q'.
Proof.
  intros U. unfold eulerStep. destruct (eulerRot c e) as [r|] eqn:E; [|discriminate].
  pose proof (eulerRot_unit c e r E). intros X. inversion X. destruct (isLower c); apply unitq_mul; assumption.
Qed.
Lemma uuEulerLoop_eq (seq : list ascii) : forall (es : list R) (q : quat R), unitq q ->
  uuEulerLoop q seq es = eulerLoop q seq es /\ (forall q' : quat R, eulerLoop q seq es = Some q' -> unitq q').
Proof.
  induction seq as [|c seq IH]; intros es q U.
  - simpl. split; [reflexivity | intros q' E; inversion E; subst; exact U].
  - destruct es as [|e es]; [simpl; split; [reflexivity | intros q' E; inversion E; subst; exact U]|].
    cbn [uuEulerLoop eulerLoop]. rewrite (uuEulerStep_eq q c e U).
    destruct (eulerStep q c e) as [q1|] eqn:E; [|split; [reflexivity | discriminate]].
    apply IH. eapply eulerStep_unit; eassumption.
Qed.

(* the Euler spelling is the ordered product: extrinsic (upper-case) factors in reverse order on the left, intrinsic
   (lower-case) factors in order on the right; each factor is the rotation about the named coordinate axis;
   only the first three characters are read; a shorter or invalid sequence is an error *)
Lemma resolveEuler_spec (degree : bool) (c0 c1 c2 : ascii) (rest : list ascii) (e : vec3 R) :
  Forall validEuler [c0; c1; c2] ->
  let es := map (toRad degree) (v2l e) in
  let q := mulQuat (qprod (rev (factors false [c0; c1; c2] es))) (qprod (factors true [c0; c1; c2] es)) in
  resolveEuler degree (c0 :: c1 :: c2 :: rest) e = Some q /\ unitq q.
Proof.
  intros V es q. dv e. unfold resolveEuler.
  destruct (uuEulerLoop_eq [c0; c1; c2] [toRad degree e0; toRad degree e1; toRad degree e2] quatId unitq_id) as [E UQ].
  rewrite E. pose proof (eulerLoop_product [c0; c1; c2] [toRad degree e0; toRad degree e1; toRad degree e2] quatId V) as P.
  rewrite mulQuat_id_l in P. rewrite P. specialize (UQ _ P).
  split; [f_equal; apply normvec4_unit; exact UQ | exact UQ].
Qed.
Lemma resolveEuler_invalid (degree : bool) (seq : list ascii) (e : vec3 R) :
  ~ Forall validEuler (firstn 3 seq) \/ (List.length seq < 3)%nat -> resolveEuler degree seq e = None.
Proof.
  intros H. dv e. unfold resolveEuler.
  destruct seq as [|c0 [|c1 [|c2 rest]]]; try reflexivity.
  destruct H as [H|H]; [|simpl in H; lia]. cbn [firstn] in H.
  destruct (uuEulerLoop_eq [c0; c1; c2] [toRad degree e0; toRad degree e1; toRad degree e2] quatId unitq_id) as [E _].
  rewrite E.
  assert (X : eulerLoop quatId [c0; c1; c2] [toRad degree e0; toRad degree e1; toRad degree e2] = None).
  { apply eulerLoop_error. exact H. }
  rewrite X. reflexivity.
Qed.
Lemma resolveEuler_degree (seq : list ascii) (e : vec3 R) :
  resolveEuler true seq e = resolveEuler false seq (let '(e0, e1, e2) := e in (e0 / 180 * PI, e1 / 180 * PI, e2 / 180 * PI)).
Proof. dv e. unfold resolveEuler. rewrite !toRad_deg, !toRad_rad. reflexivity. Qed.

(* ------------------------------------------------------------------------------------------ *)
(* frames: mjuu_frameaccum on unit quaternions is the pose product; nesting is associative *)
Lemma frameaccum_unit (a b : pose R) : unitp a -> unitp b ->
  frameaccum a b = (add3 (fst a) (mulMatVec3 (quat2Mat (snd a)) (fst b)), mulQuat (snd a) (snd b)) /\ unitp (frameaccum a b).
Proof.
  destruct a as [pa qa]. destruct b as [pb qb]. unfold unitp. simpl. intros Ua Ub.
  unfold frameaccum. rewrite uu_mulquat_unit by assumption.
  destruct (mulMatVec3 (quat2Mat qa) pb) as [[w0 w1] w2]. dv pa. unfold add3. num_R.
  split; [reflexivity | simpl; apply unitq_mul; assumption].
Qed.
Lemma mulMatVec3_add (m : mat3 R) (u v : vec3 R) : mulMatVec3 m (add3 u v) = add3 (mulMatVec3 m u) (mulMatVec3 m v).
Proof.
  destruct m as [[[[[[[[m0 m1] m2] m3] m4] m5] m6] m7] m8]. dv u; dv v. unfold mulMatVec3, add3. num_R. apply vec_ext; ring.
Qed.
Lemma frameaccum_assoc (a b c : pose R) : unitp a -> unitp b -> unitp c ->
  frameaccum (frameaccum a b) c = frameaccum a (frameaccum b c).
Proof.
  intros Ua Ub Uc.
  destruct (frameaccum_unit a b Ua Ub) as [Eab Uab]. destruct (frameaccum_unit b c Ub Uc) as [Ebc Ubc].
  destruct (frameaccum_unit (frameaccum a b) c Uab Uc) as [E1 _]. destruct (frameaccum_unit a (frameaccum b c) Ua Ubc) as [E2 _].
  rewrite E1, E2, Eab, Ebc. cbn [fst snd].
  rewrite quat2Mat_mul, mulMatVec3_add, <- mulMatVec3_mul, add3_assoc, mulQuat_assoc. reflexivity.
Qed.
Lemma frameCompile_unit (parent : option (pose R)) (f : pose R) :
  match parent with Some p => unitp p | None => True end -> unitp f ->
  frameCompile parent f = match parent with Some p => frameaccum p f | None => f end /\ unitp (frameCompile parent f).
Proof.
  intros Up Uf. unfold frameCompile.
  assert (X : unitp (match parent with Some p => frameaccum p f | None => f end)).
  { destruct parent as [p|]; [apply frameaccum_unit; assumption | exact Uf]. }
  destruct (match parent with Some p => frameaccum p f | None => f end) as [pp qq]. unfold unitp in X. simpl in X.
  rewrite normvec4_unit by exact X. split; [reflexivity | exact X].
Qed.
Lemma elementWrittenOut_unit (frames : list (pose R)) (own : pose R) :
  Forall unitp frames -> unitp own -> unitp (elementWrittenOut frames own).
Proof.
  induction 1; intros Uo; simpl; [exact Uo|]. apply frameaccum_unit; [assumption | apply IHForall; exact Uo].
Qed.
Lemma framesCompile_acc (frames : list (pose R)) (own : pose R) : Forall unitp frames -> unitp own ->
  forall acc : pose R, unitp acc ->
  match framesCompile (Some acc) frames with Some f => frameaccum f own | None => own end
  = frameaccum acc (elementWrittenOut frames own).
Proof.
  intros F Uo. induction F as [|f r Uf Fr IH]; intros acc Ua; simpl; [reflexivity|].
  destruct (frameCompile_unit (Some acc) f Ua Uf) as [E U]. rewrite E. rewrite IH by (rewrite <- E; exact U).
  apply frameaccum_assoc; [exact Ua | exact Uf | apply elementWrittenOut_unit; assumption].
Qed.
Lemma elementInFrames_eq (frames : list (pose R)) (own : pose R) : Forall unitp frames -> unitp own ->
  elementInFrames frames own = elementWrittenOut frames own.
Proof.
  intros F Uo. unfold elementInFrames. destruct frames as [|f r]; [reflexivity|].
  inversion F; subst. cbn [framesCompile elementWrittenOut fold_right].
  destruct (frameCompile_unit None f I H1) as [E U]. rewrite E. apply framesCompile_acc; assumption.
Qed.

(* ------------------------------------------------------------------------------------------ *)
(* xyaxes *)
Lemma frame2quat_raw (m0 m1 m2 m3 m4 m5 m6 m7 m8 : R) :
  frame2quat (m0, m3, m6) (m1, m4, m7) (m2, m5, m8) = normvec4 (fst (mat2Quat_raw (m0, m1, m2, m3, m4, m5, m6, m7, m8))).
Proof.
  unfold frame2quat, mat2Quat_raw. num_R.
  destruct (Rltb 0 (m0 + m4 + m8)); [reflexivity|].
  destruct (Rltb m4 m0 && Rltb m8 m0)%bool; [reflexivity|].
  destruct (Rltb m8 m4); reflexivity.
Qed.
Lemma frame2quat_cols (p : quat R) : unitq p ->
  let m := quat2Mat p in
  frame2quat (col3 m 0) (col3 m 1) (col3 m 2) = p \/ frame2quat (col3 m 0) (col3 m 1) (col3 m 2) = qopp p.
Proof.
  intros U m. pose proof (mat2Quat_raw_roundtrip p U) as RT. fold m in RT.
  destruct m as [[[[[[[[m0 m1] m2] m3] m4] m5] m6] m7] m8]. unfold col3. rewrite frame2quat_raw.
  destruct RT as [E|E]; rewrite E; [left; apply normvec4_unit; exact U | right; apply normvec4_unit; apply unitq_qopp; exact U].
Qed.

Lemma norm3_scl (a : vec3 R) (s : R) : unitv a -> 0 <= s -> dot3 (scl3 a s) (scl3 a s) = s * s /\ norm3 (scl3 a s) = s.
Proof.
  intros U S. assert (D : dot3 (scl3 a s) (scl3 a s) = s * s).
  { dv a. unfold unitv, dot3, scl3 in *. num_R. transitivity (s * s * (a0 * a0 + a1 * a1 + a2 * a2)); [ring | rewrite U; ring]. }
  split; [exact D|]. unfold norm3. num_R. rewrite D. apply sqrt_square. exact S.
Qed.
Lemma cross_unit (a b : vec3 R) : unitv a -> unitv b -> dot3 a b = 0 -> unitv (cross a b).
Proof.
  dv a; dv b. unfold unitv, dot3, cross. num_R. intros Ua Ub O.
  transitivity ((a0 * a0 + a1 * a1 + a2 * a2) * (b0 * b0 + b1 * b1 + b2 * b2) - (a0 * b0 + a1 * b1 + a2 * b2) * (a0 * b0 + a1 * b1 + a2 * b2)); [ring|].
  rewrite Ua, Ub, O. ring.
Qed.
Lemma normvec3_unitv (v : vec3 R) : unitv v -> normvec3 v = (v, 1).
Proof.
  intros U. assert (N : norm3 v = 1) by (unfold norm3; num_R; rewrite U; apply sqrt_1).
  pose proof mjEPS_lt1. destruct (normvec3_spec v) as (E & _ & _); [rewrite U; lra | left; exact N|].
  rewrite E, N. f_equal. dv v. unfold scl3. num_R. apply vec_ext; field.
Qed.

(* x = s a, y = t b + k x for an orthonormal pair (a, b), positive scales s, t outside the mjEPS window, any skew k:
   the result is the quaternion of the frame (a, b, a x b) *)
Lemma resolveXYAxes_frame (a b : vec3 R) (s t k : R) :
  unitv a -> unitv b -> dot3 a b = 0 -> 0 < s -> 0 < t ->
  mjEPS <= s * s -> (s = 1 \/ mjEPS < Rabs (s - 1)) -> mjEPS <= t * t -> (t = 1 \/ mjEPS < Rabs (t - 1)) ->
  resolveXYAxes (scl3 a s) (add3 (scl3 b t) (scl3 (scl3 a s) k)) = Some (frame2quat a b (cross a b)).
Proof.
  intros Ua Ub O Hs Ht Bs Ws Bt Wt. pose proof mjEPS_pos as EP.
  destruct (norm3_scl a s Ua (Rlt_le _ _ Hs)) as [Dx Nx].
  destruct (normvec3_spec (scl3 a s)) as (Ex & _ & Lx); [rewrite Dx; exact Bs | rewrite Nx; exact Ws|].
  rewrite Nx in Ex, Lx.
  assert (Xa : scl3 (scl3 a s) (/ s) = a) by (dv a; unfold scl3; num_R; apply vec_ext; field; lra).
  rewrite Xa in Ex. unfold resolveXYAxes. rewrite Ex.
  destruct (s <? mjEPS)%num eqn:E1; [num_R; apply Rltb_true in E1; lra|].
  (* orthogonalised y *)
  assert (Y : (let '(x0, x1, x2) := a in let '(y0, y1, y2) := add3 (scl3 b t) (scl3 (scl3 a s) k) in
               let d := dot3 a (add3 (scl3 b t) (scl3 (scl3 a s) k)) in
               ((y0 - x0 * d)%num, (y1 - x1 * d)%num, (y2 - x2 * d)%num)) = scl3 b t).
  { dv a; dv b. unfold unitv, dot3, add3, scl3 in *. num_R. apply vec_ext.
    - transitivity (b0 * t + a0 * s * k * (1 - (a0 * a0 + a1 * a1 + a2 * a2)) - a0 * t * (a0 * b0 + a1 * b1 + a2 * b2)); [ring | rewrite Ua, O; ring].
    - transitivity (b1 * t + a1 * s * k * (1 - (a0 * a0 + a1 * a1 + a2 * a2)) - a1 * t * (a0 * b0 + a1 * b1 + a2 * b2)); [ring | rewrite Ua, O; ring].
    - transitivity (b2 * t + a2 * s * k * (1 - (a0 * a0 + a1 * a1 + a2 * a2)) - a2 * t * (a0 * b0 + a1 * b1 + a2 * b2)); [ring | rewrite Ua, O; ring]. }
  destruct a as [[a0 a1] a2] eqn:EA. destruct (add3 (scl3 b t) (scl3 (scl3 (a0, a1, a2) s) k)) as [[y0 y1] y2] eqn:EY.
  cbv zeta in Y. rewrite Y. rewrite <- EA in *.
  destruct (norm3_scl b t Ub (Rlt_le _ _ Ht)) as [Dy Ny].
  destruct (normvec3_spec (scl3 b t)) as (Ey & _ & Ly); [rewrite Dy; exact Bt | rewrite Ny; exact Wt|].
  rewrite Ny in Ey, Ly.
  assert (Yb : scl3 (scl3 b t) (/ t) = b) by (dv b; unfold scl3; num_R; apply vec_ext; field; lra).
  rewrite Yb in Ey. rewrite Ey.
  destruct (t <? mjEPS)%num eqn:E2; [num_R; apply Rltb_true in E2; lra|].
  rewrite (normvec3_unitv (cross a b) (cross_unit a b Ua Ub O)).
  num_R. destruct (Rltb 1 mjEPS) eqn:E3; [apply Rltb_true in E3; pose proof mjEPS_lt1; lra|].
  reflexivity.
Qed.

(* columns of the rotation matrix of a unit quaternion form a right-handed orthonormal frame *)
Lemma cols_frame (p : quat R) : unitq p ->
  let m := quat2Mat p in
  unitv (col3 m 0) /\ unitv (col3 m 1) /\ dot3 (col3 m 0) (col3 m 1) = 0 /\ cross (col3 m 0) (col3 m 1) = col3 m 2.
Proof.
  intros U m. split; [apply col3_unit; exact U|]. split; [apply col3_unit; exact U|].
  subst m. rewrite quat2Mat_is_reg. dq p. unfold unitq, qnorm2 in U. unfold quat2Mat_reg, col3, dot3, cross. num_R.
  split; [ring|]. apply vec_ext.
  - transitivity ((p0 * p0 + p1 * p1 + p2 * p2 + p3 * p3) * (2 * (p1 * p3 + p0 * p2))); [ring | rewrite U; ring].
  - transitivity ((p0 * p0 + p1 * p1 + p2 * p2 + p3 * p3) * (2 * (p2 * p3 - p0 * p1))); [ring | rewrite U; ring].
  - transitivity ((p0 * p0 + p1 * p1 + p2 * p2 + p3 * p3) * (p0 * p0 - p1 * p1 - p2 * p2 + p3 * p3)); [ring | rewrite U; ring].
Qed.

(* the xyaxes spelling of the rotation p (first two columns of its matrix, scaled, y skewed along x) resolves to p or -p *)
Lemma resolveXYAxes_spec (p : quat R) (s t k : R) : unitq p -> 0 < s -> 0 < t ->
  mjEPS <= s * s -> (s = 1 \/ mjEPS < Rabs (s - 1)) -> mjEPS <= t * t -> (t = 1 \/ mjEPS < Rabs (t - 1)) ->
  let m := quat2Mat p in
  let x := scl3 (col3 m 0) s in
  let y := add3 (scl3 (col3 m 1) t) (scl3 x k) in
  resolveXYAxes x y = Some p \/ resolveXYAxes x y = Some (qopp p).
Proof.
  intros U Hs Ht Bs Ws Bt Wt m x y. destruct (cols_frame p U) as (U0 & U1 & O & C). fold m in U0, U1, O, C.
  subst x y. rewrite (resolveXYAxes_frame (col3 m 0) (col3 m 1) s t k U0 U1 O Hs Ht Bs Ws Bt Wt). rewrite C.
  destruct (frame2quat_cols p U) as [E|E]; fold m in E; rewrite E; auto.
Qed.

(* ------------------------------------------------------------------------------------------ *)
(* zaxis *)
Lemma Ratan2_circle (y x : R) : x * x + y * y = 1 -> 0 <= y -> sin (Ratan2 y x) = y /\ cos (Ratan2 y x) = x.
Proof.
  intros C Y. unfold Ratan2.
  destruct (Rlt_dec 0 x) as [P|NP].
  - assert (S1 : 1 + Rsqr (y / x) = Rsqr (/ x)) by (unfold Rsqr; transitivity ((x * x + y * y) * (/ x * / x)); [field; lra | rewrite C; ring]).
    assert (IP : 0 < / x) by (apply Rinv_0_lt_compat; exact P).
    rewrite sin_atan, cos_atan, S1, sqrt_Rsqr by lra. split; field; lra.
  - destruct (Rlt_dec x 0) as [N|NN].
    + destruct (Rle_dec 0 y) as [_|F]; [|contradiction].
      assert (S1 : 1 + Rsqr (y / x) = Rsqr (/ x)) by (unfold Rsqr; transitivity ((x * x + y * y) * (/ x * / x)); [field; lra | rewrite C; ring]).
      assert (IN : / x < 0) by (apply Rinv_lt_0_compat; exact N).
      rewrite neg_sin, neg_cos, sin_atan, cos_atan, S1, sqrt_Rsqr_abs, (Rabs_left _ IN). split; field; lra.
    + assert (X0 : x = 0) by lra. subst x. assert (Y1 : y = 1) by nra. subst y.
      destruct (Rlt_dec 0 1) as [_|F]; [|lra]. rewrite sin_PI2, cos_PI2. split; reflexivity.
Qed.

Lemma z2quat_core (c0 c1 h z : R) : c0 * c0 + c1 * c1 = 1 -> z = 0 ->
  let q : quat R := (cos h, c0 * sin h, c1 * sin h, z * sin h) in
  unitq q /\ col3 (quat2Mat q) 2 = (sin (2 * h) * c1, - (sin (2 * h) * c0), cos (2 * h)).
Proof.
  intros C Z q. subst z. subst q. rewrite quat2Mat_is_reg. unfold unitq, qnorm2, quat2Mat_reg, col3.
  rewrite sin_2a, cos_2a. pose proof (sin2cos2 h) as SC. set (s := sin h) in *. set (c := cos h) in *.
  split.
  - transitivity (c * c + s * s * (c0 * c0 + c1 * c1)); [ring | rewrite C; lra].
  - apply vec_ext; try ring.
    transitivity (c * c - s * s * (c0 * c0 + c1 * c1)); [ring | rewrite C; ring].
Qed.

(* mjuu_z2quat on a unit vector v: the result is a unit quaternion with zero z component (rotation axis in the xy plane:
   the minimal rotation) that maps the z axis onto v.  sig2 = v0^2 + v1^2 is the squared sine of the angle; the hypothesis
   excludes 0 < sig2 < mjEPS (where the C code treats v as +-z) and the mjEPS window of mjuu_normvec around 1 *)
Lemma z2quat_spec (v : vec3 R) : unitv v ->
  let sig2 := fst (fst v) * fst (fst v) + snd (fst v) * snd (fst v) in
  (sig2 = 0 \/ (mjEPS <= sig2 /\ (sqrt sig2 = 1 \/ mjEPS < Rabs (sqrt sig2 - 1)))) ->
  let q := z2quat v in
  unitq q /\ col3 (quat2Mat q) 2 = v /\ snd q = 0.
Proof.
  intros U sig2 H q. dv v. cbn [fst snd] in sig2. unfold unitv, dot3 in U. num_R.
  pose proof mjEPS_pos as EP.
  assert (CD : dot3 (cross (T:=R) (nzero, nzero, none) (v0, v1, v2)) (cross (T:=R) (nzero, nzero, none) (v0, v1, v2)) = sig2)
    by (unfold cross, dot3, sig2; num_R; ring).
  assert (T10 : Rdec 1 (-10) = / 10000000000) by (unfold Rdec; replace (10 ^ 10)%Z with 10000000000%Z by reflexivity; field).
  subst q. unfold z2quat, ntwo.
  destruct H as [Z|[B W]].
  - (* v = +-z *)
    assert (V0 : v0 = 0) by (unfold sig2 in Z; nra). assert (V1 : v1 = 0) by (unfold sig2 in Z; nra). subst v0 v1.
    rewrite normvec3_small by (rewrite CD; unfold sig2; lra).
    num_R. rewrite T10. destruct (Rltb 0 (/ 10000000000)) eqn:E; [|apply Rltb_false in E; lra].
    destruct (Ratan2_circle 0 v2) as [S C]; [lra | lra|].
    destruct (z2quat_core 1 0 (Ratan2 0 v2 / 2) 0) as [UQ COL]; [ring | reflexivity|].
    replace (2 * (Ratan2 0 v2 / 2)) with (Ratan2 0 v2) in COL by field. rewrite S, C in COL.
    split; [exact UQ|]. split; [rewrite COL; apply vec_ext; ring | cbn [snd]; ring].
  - (* regular arm *)
    assert (S2 : 0 < sig2) by lra.
    assert (SP : 0 < sqrt sig2) by (apply sqrt_lt_R0; exact S2).
    assert (SS : sqrt sig2 * sqrt sig2 = sig2) by (apply sqrt_sqrt; lra).
    destruct (normvec3_spec (cross (T:=R) (nzero, nzero, none) (v0, v1, v2))) as (E & UC & L);
      [rewrite CD; exact B | unfold norm3; num_R; rewrite CD; exact W|].
    rewrite E. unfold norm3. num_R. rewrite CD, T10.
    destruct (Rltb (sqrt sig2) (/ 10000000000)) eqn:E10.
    { apply Rltb_true in E10. rewrite mjEPS_R in B. assert (sig2 < / 10000000000 * / 10000000000) by nra. lra. }
    unfold cross, scl3, norm3. num_R.
    replace (dot3 (T:=R) (0 * v2 - 1 * v1, 1 * v0 - 0 * v2, 0 * v1 - 0 * v0) (0 * v2 - 1 * v1, 1 * v0 - 0 * v2, 0 * v1 - 0 * v0)) with sig2
      by (unfold dot3, sig2; num_R; ring).
    destruct (Ratan2_circle (sqrt sig2) v2) as [S C]; [rewrite SS; unfold sig2; lra | lra|].
    destruct (z2quat_core ((0 * v2 - 1 * v1) * / sqrt sig2) ((1 * v0 - 0 * v2) * / sqrt sig2) (Ratan2 (sqrt sig2) v2 / 2) ((0 * v1 - 0 * v0) * / sqrt sig2)) as [UQ COL].
    { transitivity ((v0 * v0 + v1 * v1) * (/ sqrt sig2 * / sqrt sig2)); [ring|]. fold sig2. rewrite <- SS at 1. field. lra. }
    { ring. }
    replace (2 * (Ratan2 (sqrt sig2) v2 / 2)) with (Ratan2 (sqrt sig2) v2) in COL by field. rewrite S, C in COL.
    split; [exact UQ|]. split; [rewrite COL; apply vec_ext; field; lra | cbn [snd]; ring].
Qed.

Lemma resolveZAxis_spec (z : vec3 R) :
  mjEPS <= dot3 z z -> (norm3 z = 1 \/ mjEPS < Rabs (norm3 z - 1)) ->
  let v := scl3 z (/ norm3 z) in
  let sig2 := fst (fst v) * fst (fst v) + snd (fst v) * snd (fst v) in
  (sig2 = 0 \/ (mjEPS <= sig2 /\ (sqrt sig2 = 1 \/ mjEPS < Rabs (sqrt sig2 - 1)))) ->
  exists q : quat R, resolveZAxis z = Some q /\ unitq q /\ col3 (quat2Mat q) 2 = v /\ snd q = 0.
Proof.
  intros B W v sig2 H. destruct (normvec3_spec z B W) as (E & U & L). fold v in E, U.
  unfold resolveZAxis. rewrite E.
  destruct (norm3 z <? mjEPS)%num eqn:E1; [num_R; apply Rltb_true in E1; pose proof mjEPS_pos; lra|].
  exists (z2quat v). split; [reflexivity|]. apply z2quat_spec; assumption.
Qed.
Lemma resolveZAxis_small (z : vec3 R) : dot3 z z < mjEPS -> resolveZAxis z = None.
Proof.
  intros B. unfold resolveZAxis. rewrite (normvec3_small z B). num_R.
  destruct (Rltb 0 mjEPS) eqn:E; [reflexivity | apply Rltb_false in E; pose proof mjEPS_pos; lra].
Qed.

(* ------------------------------------------------------------------------------------------ *)
(* fusing (mass-property algebra only): the tensor of a set of geoms about ANY point c is its tensor about its own centre
   of mass c2 plus the point-mass term of the total mass at c2 - c; hence replacing the set by one lumped body
   (mass M at c2 with that central tensor) changes neither the mass, nor the first moment, nor the tensor about c *)
Lemma lumped_equivalent (l : list (cgeom R)) (c : vec3 R) : sumM l <> 0 ->
  let M := sumM l in
  let c2 := scl3 (sumMP l) (/ M) in
  scl3 c2 M = sumMP l /\
  sum6 (map (tensorAbout c) l) = add6 (sum6 (map (tensorAbout c2) l)) (offcenter M (sub3 c2 c)).
Proof.
  intros NZ M c2. split.
  - subst c2. destruct (sumMP l) as [[s0 s1] s2]. unfold scl3. num_R. apply vec_ext; field; exact NZ.
  - rewrite (sum_offcenter_shift l c), (sum_offcenter_shift l c2). subst c2. fold M.
    destruct (sumMP l) as [[s0 s1] s2]. dv c. destruct (sum6 (map _ l)) as [[[[[t0 t1] t2] t3] t4] t5].
    unfold scl3, sub3, add6, sub6, offcenter. iR. apply sym_ext; field; exact NZ.
Qed.

(* ------------------------------------------------------------------------------------------ *)
(* angle-valued joint attributes: the degree spelling of an angle compiles to the angle *)
Lemma degFactor_R : degFactor (T:=R) = PI / 180.
Proof. unfold degFactor, n180. num_R. reflexivity. Qed.
Lemma convNonzero_R (x : R) : convNonzero x = x * (PI / 180).
Proof.
  unfold convNonzero. rewrite degFactor_R. num_R. destruct (Reqb x 0) eqn:E; [|reflexivity].
  apply Reqb_true in E. subst x. ring.
Qed.
Lemma jointRange_degree (jtype : Z) (limited : bool) (lo hi : R) :
  jointRange true jtype limited (if (limited && ((jtype =? 3)%Z || (jtype =? 1)%Z))%bool then (lo * 180 / PI, hi * 180 / PI) else (lo, hi))
  = (lo, hi) /\ jointRange false jtype limited (lo, hi) = (lo, hi).
Proof.
  pose proof PI_RGT_0 as P. split.
  - unfold jointRange. destruct limited; cbn [andb]; [|reflexivity].
    destruct ((jtype =? 3)%Z || (jtype =? 1)%Z)%bool; [|reflexivity].
    cbn [fst snd]. rewrite !convNonzero_R. f_equal; field; lra.
  - unfold jointRange. rewrite andb_false_r. reflexivity.
Qed.
Lemma jointRef_degree (jtype : Z) (x : R) :
  jointRef true jtype (if (jtype =? 3)%Z then x * 180 / PI else x) = x /\ jointRef false jtype x = x.
Proof.
  pose proof PI_RGT_0 as P. unfold jointRef. split; [|reflexivity]. cbn [andb].
  destruct (jtype =? 3)%Z; [|reflexivity]. rewrite degFactor_R. num_R. field. lra.
Qed.

(* ------------------------------------------------------------------------------------------ *)
(* mjCBody::AccumulateInertia (fusestatic / bodyToFrame): the child's tensor enters rotated by the child's body orientation *)
Lemma mulMatMat3_assoc (a b c : mat3 R) : mulMatMat3 (mulMatMat3 a b) c = mulMatMat3 a (mulMatMat3 b c).
Proof.
  destruct a as [[[[[[[[a0 a1] a2] a3] a4] a5] a6] a7] a8]. destruct b as [[[[[[[[b0 b1] b2] b3] b4] b5] b6] b7] b8].
  destruct c as [[[[[[[[c0 c1] c2] c3] c4] c5] c6] c7] c8]. unfold mulMatMat3. num_R. apply mat_ext; ring.
Qed.
Lemma transpose3_mul (a b : mat3 R) : transpose3 (mulMatMat3 a b) = mulMatMat3 (transpose3 b) (transpose3 a).
Proof.
  destruct a as [[[[[[[[a0 a1] a2] a3] a4] a5] a6] a7] a8]. destruct b as [[[[[[[[b0 b1] b2] b3] b4] b5] b6] b7] b8].
  unfold mulMatMat3, transpose3. num_R. apply mat_ext; ring.
Qed.
(* R(q a) D R(q a)^T = R(q) (R(a) D R(a)^T) R(q)^T : composing the inertial quaternion with the body quaternion rotates the tensor *)
Lemma globalinertia_compose (d : vec3 R) (q a : quat R) :
  mat6 (globalinertia d (mulQuat q a)) =
  mulMatMat3 (mulMatMat3 (quat2Mat q) (mat6 (globalinertia d a))) (transpose3 (quat2Mat q)).
Proof.
  rewrite !globalinertia_matrix, quat2Mat_mul, transpose3_mul, !mulMatMat3_assoc. reflexivity.
Qed.
Lemma accInertia2_eq (c : vec3 R) (l : list (cgeom R)) : accInertia2 c l = accInertia c l.
Proof.
  unfold accInertia2, accInertia.
  assert (G : forall (l : list (cgeom R)) (t : sym6 R),
             fold_left (fun (t : sym6 R) (g : cgeom R) => let '(a, b) := geomTensorAbout c g in add6 t (add6 a b)) l t =
             fold_left (fun (t : sym6 R) (g : cgeom R) => let '(a, b) := geomTensorAbout c g in add6 (add6 t a) b) l t).
  { induction l0 as [|g r IH]; intros t; simpl; [reflexivity|]. destruct (geomTensorAbout c g) as [a b].
    rewrite <- add6_assoc. apply IH. }
  apply G.
Qed.
Lemma accumulateInertia_spec (res : cgeom R) (opose : pose R) (m2 : R) (ip2 : vec3 R) (iq2 : quat R) (in2 : vec3 R) :
  unitp opose -> unitq iq2 ->
  let child := (m2, add3 (fst opose) (mulMatVec3 (quat2Mat (snd opose)) ip2), mulQuat (snd opose) iq2, in2) in
  let l := [res; child] in
  mjMINVAL <= accMass l ->
  accumulateInertia res opose (m2, ip2, iq2, in2) =
    IFull (accMass l) (scl3 (accCom l) (/ accMass l)) (accInertia (scl3 (accCom l) (/ accMass l)) l).
Proof.
  intros Uo Ui child l B. unfold accumulateInertia.
  destruct (frameaccum_unit opose (ip2, iq2) Uo Ui) as [E _]. cbn [fst snd] in E. rewrite E.
  fold child. fold l. num_R.
  destruct (Rltb (accMass l) mjMINVAL) eqn:E1; [apply Rltb_true in E1; lra|].
  destruct (accCom l) as [[c0 c1] c2]. rewrite accInertia2_eq. unfold scl3. num_R. reflexivity.
Qed.

(* ------------------------------------------------------------------------------------------ *)
(* nested attachment: FindSpec returns the spec that owns the compiler, at any nesting depth (never an intermediate spec),
   and finds every compiler that occurs in the attachment tree *)
Fixpoint spectree_size (t : spectree) : nat :=
  match t with SNode _ ch => S (fold_right (fun s n => (spectree_size s + n)%nat) 0%nat ch) end.
Lemma findSpec_spec_aux (n : nat) : forall (t : spectree) (c : Z), (spectree_size t <= n)%nat ->
  (forall x : Z, findSpec t c = Some x -> x = c) /\ (In c (compilers t) -> findSpec t c = Some c).
Proof.
  induction n as [|n IH]; intros [id ch] c Hs; [simpl in Hs; lia|].
  simpl in Hs. cbn [findSpec compilers].
  destruct (id =? c)%Z eqn:E.
  - apply Z.eqb_eq in E. subst id. split; [intros x X; inversion X; reflexivity | intros _; reflexivity].
  - apply Z.eqb_neq in E.
    assert (G : forall l : list spectree, (fold_right (fun s k => (spectree_size s + k)%nat) 0%nat l <= n)%nat ->
              (forall x : Z, (fix go (l : list spectree) : option Z := match l with [] => None | s :: r => match findSpec s c with Some x => Some x | None => go r end end) l = Some x -> x = c) /\
              (In c (flat_map compilers l) -> (fix go (l : list spectree) : option Z := match l with [] => None | s :: r => match findSpec s c with Some x => Some x | None => go r end end) l = Some c)).
    { induction l as [|s r IHl]; intros Hl; simpl in Hl.
      - split; [discriminate | intros []].
      - destruct (IH s c ltac:(lia)) as [A B]. destruct (IHl ltac:(lia)) as [A' B'].
        split.
        + intros x. destruct (findSpec s c) as [y|] eqn:F; [intros X; inversion X; subst; apply A; reflexivity | apply A'].
        + intros I. simpl in I. apply in_app_or in I. destruct (findSpec s c) as [y|] eqn:F.
          * f_equal. apply A. reflexivity.
          * destruct I as [I|I]; [pose proof (B I); congruence | apply B'; exact I]. }
    destruct (G ch ltac:(lia)) as [A B]. split; [exact A|]. intros [I|I]; [contradiction | apply B; exact I].
Qed.
Lemma findSpec_spec (t : spectree) (c : Z) :
  (forall x : Z, findSpec t c = Some x -> x = c) /\ (In c (compilers t) -> findSpec t c = Some c).
Proof. apply (findSpec_spec_aux (spectree_size t)). lia. Qed.
