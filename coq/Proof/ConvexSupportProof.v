(* Proofs at R about Model/ConvexSupport.v (C15). *)
From Coq Require Import ZArith List PrimFloat Reals Lra Lia Psatz Bool.
From MJV Require Import Lib.Num Lib.NumR Model.Spatial Model.CollidePrim Model.ConvexSupport Proof.CollidePrimProof.
Import ListNotations.
Open Scope R_scope.

Ltac dm9 m := destruct m as [[[[[[[[?m0 ?m1] ?m2] ?m3] ?m4] ?m5] ?m6] ?m7] ?m8].

Lemma cs_minval2_pos : 0 < mjMINVAL2 (T:=R).
Proof. unfold mjMINVAL2. nR. pose proof cp_minval_pos. nra. Qed.

(* <mat l + pos, dir> = <pos, dir> + <l, mat^T dir>  (any matrix) *)
Lemma localToGlobal_dot (mat : mat3 R) (l pos dir : vec3 R) :
  dot3 (localToGlobal mat l pos) dir = dot3 pos dir + dot3 l (mulMatTVec3 mat dir).
Proof. dm9 mat; dv l; dv pos; dv dir. unfold localToGlobal, add3, mulMatVec3, mulMatTVec3, dot3. nR. ring. Qed.

(* a rotation matrix preserves the norm: |mat^T d| = |d| when mat mat^T = I *)
Definition orthonormal (mat : mat3 R) : Prop := mulMatMat3 mat (transpose3 mat) = matId.
Lemma mulMatT_norm (mat : mat3 R) (d : vec3 R) : orthonormal mat ->
  dot3 (mulMatTVec3 mat d) (mulMatTVec3 mat d) = dot3 d d.
Proof.
  dm9 mat; dv d. unfold orthonormal, mulMatMat3, transpose3, matId, mulMatTVec3, dot3. nR. intros E.
  injection E as E0 E1 E2 E3 E4 E5 E6 E7 E8.
  transitivity (d0 * d0 * (m0*m0 + m1*m1 + m2*m2) + d1 * d1 * (m3*m3 + m4*m4 + m5*m5) + d2 * d2 * (m6*m6 + m7*m7 + m8*m8)
                + 2 * d0 * d1 * (m0*m3 + m1*m4 + m2*m5) + 2 * d0 * d2 * (m0*m6 + m1*m7 + m2*m8) + 2 * d1 * d2 * (m3*m6 + m4*m7 + m5*m8)).
  ring. rewrite E0, E1, E2, E4, E5, E8. ring.
Qed.

(* ---- generic transfer from the geom frame to the world frame *)
Lemma support_transfer (mat : mat3 R) (pos dir lstar : vec3 R) (P : vec3 R -> Prop) :
  (forall l : vec3 R, P l -> dot3 l (mulMatTVec3 mat dir) <= dot3 lstar (mulMatTVec3 mat dir)) ->
  forall l : vec3 R, P l -> dot3 (localToGlobal mat l pos) dir <= dot3 (localToGlobal mat lstar pos) dir.
Proof. intros Hm l Pl. rewrite !localToGlobal_dot. pose proof (Hm l Pl). lra. Qed.

(* ---- sphere *)
Lemma sphereSupport_eq (pos : vec3 R) (r : R) (dir : vec3 R) : sphereSupport pos r dir = add3 pos (scl3 dir r).
Proof. dv pos; dv dir. unfold sphereSupport, add3, scl3. nR. apply vec_ext; ring. Qed.
Lemma sphere_support (pos : vec3 R) (r : R) (dir : vec3 R) :
  0 <= r -> dot3 dir dir = 1 ->
  norm3 (sub3 (sphereSupport pos r dir) pos) <= r /\
  forall x : vec3 R, norm3 (sub3 x pos) <= r -> dot3 x dir <= dot3 (sphereSupport pos r dir) dir.
Proof.
  intros R0 U. rewrite sphereSupport_eq. pose proof (norm3_unit dir U) as N. split.
  - replace (sub3 (add3 pos (scl3 dir r)) pos) with (scl3 dir r)
      by (dv pos; dv dir; unfold sub3, add3, scl3; nR; apply vec_ext; ring).
    rewrite norm3_scl, N, Rabs_pos_eq by lra. lra.
  - intros x X. rewrite dot3_add_l, dot3_scl_l, U.
    pose proof (cauchy_schwarz (sub3 x pos) dir) as C. rewrite dot3_sub_l, N in C. lra.
Qed.

(* ---- line (capsule segment): pos + t a, |t| <= len, a = z-axis column of mat *)
Lemma lineSupport_eq (mat : mat3 R) (pos : vec3 R) (len : R) (dir : vec3 R) :
  lineSupport mat pos len dir =
  add3 pos (scl3 (zaxis mat) (if Rle_dec 0 (dot3 (zaxis mat) dir) then len else - len)).
Proof.
  dm9 mat; dv pos; dv dir. unfold lineSupport, zaxis, add3, scl3, dot3. nR.
  destruct (Rle_dec 0 (m2 * dir0 + m5 * dir1 + m8 * dir2)) as [L|L].
  - apply Rleb_true in L. rewrite L. apply vec_ext; ring.
  - apply Rnot_le_lt in L. apply Rleb_false in L. rewrite L. apply vec_ext; ring.
Qed.
Lemma line_support (mat : mat3 R) (pos : vec3 R) (len : R) (dir : vec3 R) :
  0 <= len ->
  (exists t : R, - len <= t <= len /\ lineSupport mat pos len dir = add3 pos (scl3 (zaxis mat) t)) /\
  forall t : R, - len <= t <= len ->
    dot3 (add3 pos (scl3 (zaxis mat) t)) dir <= dot3 (lineSupport mat pos len dir) dir.
Proof.
  intros L. rewrite lineSupport_eq. split.
  - eexists. split; [|reflexivity]. destruct (Rle_dec _ _); lra.
  - intros t T. rewrite !dot3_add_l, !dot3_scl_l. set (k := dot3 (zaxis mat) dir). clearbody k.
    destruct (Rle_dec 0 k) as [K|K].
    + assert (0 <= (len - t) * k) by (apply Rmult_le_pos; lra). lra.
    + assert (0 <= (t + len) * (- k)) by (apply Rmult_le_pos; lra). lra.
Qed.

(* ---- capsule (geom frame): points within r of the segment (0,0,t), |t| <= h *)
Definition inCapsule (r h : R) (l : vec3 R) : Prop :=
  exists t : R, - h <= t <= h /\ norm3 (sub3 l (0, 0, t)) <= r.
Lemma capsule_local (r h : R) (ld : vec3 R) :
  0 <= r -> 0 <= h -> dot3 ld ld = 1 ->
  inCapsule r h (capsuleLocal r h ld) /\
  forall l : vec3 R, inCapsule r h l -> dot3 l ld <= dot3 (capsuleLocal r h ld) ld.
Proof.
  intros R0 H0 U. pose proof (norm3_unit ld U) as N. dv ld. unfold capsuleLocal. nR.
  set (e := if Rleb 0 ld2 then h else - h).
  assert (E : - h <= e <= h /\ e * ld2 = h * Rabs ld2).
  { unfold e. destruct (Rleb 0 ld2) eqn:A; [apply Rleb_true in A|apply Rleb_false in A].
    - rewrite Rabs_pos_eq by lra. lra.
    - rewrite Rabs_left by lra. lra. }
  destruct E as [E1 E2]. split.
  - exists e. split; [exact E1|].
    replace (sub3 (ld0 * r, ld1 * r, ld2 * r + e) (0, 0, e)) with (scl3 (ld0, ld1, ld2) r)
      by (unfold sub3, scl3; nR; apply vec_ext; ring).
    rewrite norm3_scl, N, Rabs_pos_eq by lra. lra.
  - intros l [t [T B]].
    pose proof (cauchy_schwarz (sub3 l (0, 0, t)) (ld0, ld1, ld2)) as C. rewrite N in C.
    assert (D : dot3 l (ld0, ld1, ld2) = dot3 (sub3 l (0, 0, t)) (ld0, ld1, ld2) + t * ld2)
      by (dv l; unfold dot3, sub3; nR; ring).
    assert (T2 : t * ld2 <= h * Rabs ld2).
    { unfold Rabs. destruct (Rcase_abs ld2).
      - assert (0 <= (t + h) * (- ld2)) by (apply Rmult_le_pos; lra). lra.
      - assert (0 <= (h - t) * ld2) by (apply Rmult_le_pos; lra). lra. }
    assert (RHS : dot3 (ld0 * r, ld1 * r, ld2 * r + e) (ld0, ld1, ld2) = r + h * Rabs ld2).
    { rewrite <- E2. unfold dot3 in U |- *. nR.
      transitivity (r * (ld0 * ld0 + ld1 * ld1 + ld2 * ld2) + e * ld2); [ring|]. rewrite U. ring. }
    rewrite D, RHS. lra.
Qed.

(* ---- ellipsoid (geom frame) *)
Definition inEllipsoid (size l : vec3 R) : Prop :=
  let '(s0, s1, s2) := size in let '(l0, l1, l2) := l in
  (l0 / s0) * (l0 / s0) + (l1 / s1) * (l1 / s1) + (l2 / s2) * (l2 / s2) <= 1.
Lemma ellipsoid_local (size ld : vec3 R) :
  (let '(s0, s1, s2) := size in 0 < s0 /\ 0 < s1 /\ 0 < s2) ->
  mjMINVAL2 <= ellipsoidNorm2 size ld ->
  inEllipsoid size (ellipsoidLocal size ld) /\
  forall l : vec3 R, inEllipsoid size l -> dot3 l ld <= dot3 (ellipsoidLocal size ld) ld.
Proof.
  dv size; dv ld. intros [S0 [S1 S2]] B. pose proof cs_minval2_pos as P.
  unfold ellipsoidLocal. set (N2 := ellipsoidNorm2 (size0, size1, size2) (ld0, ld1, ld2)) in *.
  assert (N2e : N2 = ld0 * size0 * (ld0 * size0) + ld1 * size1 * (ld1 * size1) + ld2 * size2 * (ld2 * size2))
    by (unfold N2, ellipsoidNorm2; nR; reflexivity).
  nR. set (N := sqrt N2). assert (NP : 0 < N) by (apply sqrt_lt_R0; lra).
  assert (NN : N * N = N2) by (apply sqrt_sqrt; lra).
  split.
  - unfold inEllipsoid. cbv beta iota. apply Req_le.
    transitivity (N2 / (N * N)); [|rewrite NN; field; lra].
    rewrite N2e. field. repeat split; lra.
  - intros l I. dv l. unfold inEllipsoid in I.
    set (u := (l0 / size0, l1 / size1, l2 / size2)). set (a := (ld0 * size0, ld1 * size1, ld2 * size2)).
    pose proof (cauchy_schwarz u a) as C.
    assert (Na : norm3 a = N) by (apply norm3_eq; [lra|unfold a, dot3; nR; rewrite NN, N2e; ring]).
    assert (Nu : norm3 u <= 1).
    { apply sq_le; [lra|]. rewrite norm3_sq. unfold u, dot3. nR. lra. }
    assert (D1 : dot3 (l0, l1, l2) (ld0, ld1, ld2) = dot3 u a) by (unfold u, a, dot3; nR; field; repeat split; lra).
    assert (D2 : dot3 (ld0 * size0 * (1 / N * size0), ld1 * size1 * (1 / N * size1), ld2 * size2 * (1 / N * size2)) (ld0, ld1, ld2) = N).
    { unfold dot3. nR. transitivity (N2 / N); [rewrite N2e; field; lra|]. rewrite <- NN. field. lra. }
    rewrite D1, D2, Na in *. pose proof (norm3_nonneg u). nra.
Qed.
(* the "too small to normalise" arm returns the +x pole, a point of the ellipsoid *)
Lemma ellipsoid_pole (size : vec3 R) :
  (let '(s0, s1, s2) := size in 0 < s0 /\ 0 < s1 /\ 0 < s2) ->
  inEllipsoid size (let '(s0, _, _) := size in (s0, 0, 0)).
Proof. dv size. intros [S0 [S1 S2]]. unfold inEllipsoid. cbv beta iota. apply Req_le. field. repeat split; lra. Qed.
Lemma ellipsoidSupport_cases (mat : mat3 R) (pos size dir : vec3 R) :
  let ld := mulMatTVec3 mat dir in
  ellipsoidSupport mat pos size dir =
  if Rlt_dec (ellipsoidNorm2 size ld) mjMINVAL2 then localToGlobal mat (let '(s0, _, _) := size in (s0, 0, 0)) pos
  else localToGlobal mat (ellipsoidLocal size ld) pos.
Proof.
  intros ld. unfold ellipsoidSupport. fold ld. nR. destruct (Rlt_dec _ _) as [L|L].
  - apply Rltb_true in L. rewrite L. dm9 mat; dv pos; dv size. unfold localToGlobal, mulMatVec3, add3. nR. apply vec_ext; ring.
  - apply Rnot_lt_le in L. apply Rltb_false in L. rewrite L. reflexivity.
Qed.

(* ---- cylinder (geom frame) *)
Definition inCylinder (r h : R) (l : vec3 R) : Prop :=
  let '(l0, l1, l2) := l in l0 * l0 + l1 * l1 <= r * r /\ - h <= l2 <= h.
Lemma cylinder_local (r h : R) (ld : vec3 R) :
  0 <= r -> 0 <= h ->
  let n2 := (let '(d0, d1, _) := ld in d0 * d0 + d1 * d1) in
  inCylinder r h (cylinderLocal r h ld) /\
  forall l : vec3 R, inCylinder r h l ->
    dot3 l ld <= dot3 (cylinderLocal r h ld) ld + (if Rlt_dec n2 mjMINVAL2 then r * sqrt n2 else 0).
Proof.
  intros R0 H0. dv ld. cbv zeta. unfold cylinderLocal. nR. pose proof cs_minval2_pos as P.
  set (n2 := ld0 * ld0 + ld1 * ld1). assert (N0 : 0 <= n2) by (unfold n2; nra).
  set (e := if Rleb 0 ld2 then h else - h).
  assert (E : - h <= e <= h /\ e * ld2 = h * Rabs ld2).
  { unfold e. destruct (Rleb 0 ld2) eqn:A; [apply Rleb_true in A|apply Rleb_false in A].
    - rewrite Rabs_pos_eq by lra. lra.
    - rewrite Rabs_left by lra. lra. }
  destruct E as [E1 E2].
  assert (NN : sqrt n2 * sqrt n2 = n2) by (apply sqrt_sqrt; lra). pose proof (sqrt_pos n2) as SP.
  assert (SPP : mjMINVAL2 <= n2 -> 0 < sqrt n2) by (intros; apply sqrt_lt_R0; lra).
  remember (sqrt n2) as sq eqn:Esq.
  (* planar Cauchy-Schwarz *)
  assert (CS : forall l0 l1 : R, l0 * l0 + l1 * l1 <= r * r -> l0 * ld0 + l1 * ld1 <= r * sq).
  { intros l0 l1 I. apply sq_le; [nra|].
    assert (Lg : (l0 * ld0 + l1 * ld1) * (l0 * ld0 + l1 * ld1) = (l0*l0 + l1*l1) * n2 - (l0 * ld1 - l1 * ld0) * (l0 * ld1 - l1 * ld0))
      by (unfold n2; ring).
    pose proof (Rle_0_sqr (l0 * ld1 - l1 * ld0)) as Q. unfold Rsqr in Q.
    replace (r * sq * (r * sq)) with (r * r * n2) by (rewrite <- NN; ring).
    assert ((l0 * l0 + l1 * l1) * n2 <= r * r * n2) by (apply Rmult_le_compat_r; lra). lra. }
  assert (T2 : forall t : R, - h <= t <= h -> t * ld2 <= h * Rabs ld2).
  { intros t T. unfold Rabs. destruct (Rcase_abs ld2).
    - assert (0 <= (t + h) * (- ld2)) by (apply Rmult_le_pos; lra). lra.
    - assert (0 <= (h - t) * ld2) by (apply Rmult_le_pos; lra). lra. }
  destruct (Rlt_dec n2 mjMINVAL2) as [S|S].
  - assert (F : Rleb mjMINVAL2 n2 = false) by (apply Rleb_false; lra). rewrite F. split.
    + unfold inCylinder. split; [nra|exact E1].
    + intros l I. dv l. destruct I as [I1 I2]. unfold dot3. nR. pose proof (CS l0 l1 I1). pose proof (T2 l2 I2). lra.
  - apply Rnot_lt_le in S. assert (F : Rleb mjMINVAL2 n2 = true) by (apply Rleb_true; lra). rewrite F.
    assert (SP' : 0 < sq) by (apply SPP; lra). split.
    + unfold inCylinder. split; [|exact E1].
      apply Req_le. transitivity (r * r * n2 / (sq * sq)); [unfold n2; field; lra|]. rewrite NN. field. lra.
    + intros l I. dv l. destruct I as [I1 I2]. unfold dot3. nR. pose proof (CS l0 l1 I1). pose proof (T2 l2 I2).
      assert (D : r / sq * ld0 * ld0 + r / sq * ld1 * ld1 = r * sq).
      { transitivity (r * n2 / sq); [unfold n2; field; lra|]. rewrite <- NN. field. lra. }
      lra.
Qed.

(* ---- box (geom frame) *)
Definition inBox (size l : vec3 R) : Prop :=
  let '(s0, s1, s2) := size in let '(l0, l1, l2) := l in
  - s0 <= l0 <= s0 /\ - s1 <= l1 <= s1 /\ - s2 <= l2 <= s2.
Lemma sign_pick (s d : R) : 0 <= s ->
  let e := if Rleb 0 d then s else - s in
  - s <= e <= s /\ forall t : R, - s <= t <= s -> t * d <= e * d.
Proof.
  intros S e. unfold e. destruct (Rleb 0 d) eqn:A; [apply Rleb_true in A|apply Rleb_false in A]; split; try lra; intros t T.
  - assert (0 <= (s - t) * d) by (apply Rmult_le_pos; lra). lra.
  - assert (0 <= (t + s) * (- d)) by (apply Rmult_le_pos; lra). lra.
Qed.
Lemma box_local (size ld : vec3 R) :
  (let '(s0, s1, s2) := size in 0 <= s0 /\ 0 <= s1 /\ 0 <= s2) ->
  inBox size (boxLocal size ld) /\
  forall l : vec3 R, inBox size l -> dot3 l ld <= dot3 (boxLocal size ld) ld.
Proof.
  dv size; dv ld. intros [S0 [S1 S2]]. unfold boxLocal, inBox. nR.
  destruct (sign_pick size0 ld0 S0) as [A0 B0]. destruct (sign_pick size1 ld1 S1) as [A1 B1].
  destruct (sign_pick size2 ld2 S2) as [A2 B2]. cbv zeta in *. split; [auto|].
  intros l I. dv l. destruct I as [I0 [I1 I2]]. unfold dot3. nR.
  pose proof (B0 l0 I0). pose proof (B1 l1 I1). pose proof (B2 l2 I2). lra.
Qed.
(* vertindex encodes the signs of the chosen corner (for positive sizes) *)
Lemma box_vertindex (size ld : vec3 R) :
  (let '(s0, s1, s2) := size in 0 < s0 /\ 0 < s1 /\ 0 < s2) ->
  let '(d0, d1, d2) := ld in
  boxVertIndex (boxLocal size ld) =
  ((if Rle_dec 0 d0 then 1 else 0) + (if Rle_dec 0 d1 then 2 else 0) + (if Rle_dec 0 d2 then 4 else 0))%Z.
Proof.
  dv size; dv ld. intros [S0 [S1 S2]]. unfold boxVertIndex, boxLocal. nR.
  assert (G : forall s d : R, 0 < s -> Rltb 0 (if Rleb 0 d then s else - s) = if Rle_dec 0 d then true else false).
  { intros s d S. destruct (Rle_dec 0 d) as [L|L].
    - apply Rleb_true in L. rewrite L. apply Rltb_true. lra.
    - apply Rnot_le_lt in L. apply Rleb_false in L. rewrite L. apply Rltb_false. lra. }
  rewrite !G by assumption. destruct (Rle_dec 0 ld0), (Rle_dec 0 ld1), (Rle_dec 0 ld2); reflexivity.
Qed.

(* ---- mesh: exhaustive scan *)
Lemma meshScan_spec (ld : vec3 R) (verts : list (vec3 R)) : forall (i imax : Z) (max : R),
  let r := meshScan ld verts i imax max in
  max <= snd r /\ (forall v : vec3 R, In v verts -> dot3 ld v <= snd r) /\
  ((fst r = imax /\ snd r = max) \/
   (exists k : nat, (k < length verts)%nat /\ fst r = (i + Z.of_nat k)%Z /\ snd r = dot3 ld (nth k verts zero3))).
Proof.
  induction verts as [|v0 rest IH]; intros i imax max; cbn [meshScan].
  - cbn. repeat split; try lra. intros v []. left; auto.
  - nR. destruct (Rltb max (dot3 ld v0)) eqn:A; [apply Rltb_true in A|apply Rltb_false in A]; cbv zeta.
    + destruct (IH (i + 1)%Z i (dot3 ld v0)) as [B1 [B2 B3]]. repeat split.
      * lra.
      * intros v [<-|J]; [exact B1|apply B2; exact J].
      * right. destruct B3 as [[E1 E2]|[k [K [E1 E2]]]].
        -- exists 0%nat. cbn [length nth]. repeat split; [lia|rewrite E1; lia|exact E2].
        -- exists (S k). cbn [length nth]. repeat split; [lia|rewrite E1; lia|exact E2].
    + destruct (IH (i + 1)%Z imax max) as [B1 [B2 B3]]. repeat split.
      * exact B1.
      * intros v [<-|J]; [lra|apply B2; exact J].
      * destruct B3 as [B3|[k [K [E1 E2]]]]; [left; exact B3|right].
        exists (S k). cbn [length nth]. repeat split; [lia|rewrite E1; lia|exact E2].
Qed.

Lemma mesh_support (mat : mat3 R) (pos : vec3 R) (verts : list (vec3 R)) (vertindex : Z) (dir : vec3 R) :
  let ld := mulMatTVec3 mat dir in
  ((vertindex < 0)%Z /\ (exists v : vec3 R, In v verts /\ - fltMax < dot3 ld v)) \/
  ((0 <= vertindex < Z.of_nat (length verts))%Z) ->
  let r := meshSupport mat pos verts vertindex dir in
  exists k : nat, (k < length verts)%nat /\ snd r = Z.of_nat k /\
    fst r = localToGlobal mat (nth k verts zero3) pos /\
    (forall v : vec3 R, In v verts -> dot3 ld v <= dot3 ld (nth k verts zero3)) /\
    (forall v : vec3 R, In v verts -> dot3 (localToGlobal mat v pos) dir <= dot3 (fst r) dir).
Proof.
  intros ld Hs r.
  assert (G : exists k : nat, (k < length verts)%nat /\ snd r = Z.of_nat k /\
              fst r = localToGlobal mat (nth k verts zero3) pos /\
              (forall v : vec3 R, In v verts -> dot3 ld v <= dot3 ld (nth k verts zero3))).
  { unfold r, meshSupport. fold ld. nR. destruct Hs as [[Hn [v [Iv Dv]]]|Hc].
    - assert (F : (0 <=? vertindex)%Z = false) by (apply Z.leb_gt; lia). rewrite F.
      pose proof (meshScan_spec ld verts 0%Z 0%Z (- fltMax)) as S. cbv zeta in S.
      destruct (meshScan ld verts 0 0 (- fltMax)) as [j m]. cbn [fst snd] in *. destruct S as [S1 [S2 S3]].
      destruct S3 as [[E1 E2]|[k [K [E1 E2]]]].
      + exfalso. pose proof (S2 v Iv). nR. lra.
      + exists k. assert (Ej : j = Z.of_nat k) by lia. clear E1. subst j. rewrite Nat2Z.id. repeat split; auto. intros w Iw. rewrite <- E2. apply S2; auto.
    - assert (F : (0 <=? vertindex)%Z = true) by (apply Z.leb_le; lia). rewrite F.
      pose proof (meshScan_spec ld verts 0%Z vertindex (dot3 ld (nth (Z.to_nat vertindex) verts zero3))) as S. cbv zeta in S.
      destruct (meshScan ld verts 0 vertindex _) as [j m]. cbn [fst snd] in *. destruct S as [S1 [S2 S3]].
      destruct S3 as [[E1 E2]|[k [K [E1 E2]]]].
      + exists (Z.to_nat vertindex). subst j. rewrite Z2Nat.id by lia. repeat split; auto; [lia|].
        intros w Iw. rewrite <- E2. apply S2; auto.
      + exists k. assert (Ej : j = Z.of_nat k) by lia. clear E1. subst j. rewrite Nat2Z.id. repeat split; auto. intros w Iw. rewrite <- E2. apply S2; auto. }
  destruct G as [k [K [E1 [E2 E3]]]]. exists k. repeat split; auto.
  intros v Iv. rewrite E2, !localToGlobal_dot. fold ld. rewrite !(dot3_comm _ ld). pose proof (E3 v Iv). lra.
Qed.

(* ---- Minkowski difference *)
Lemma addMargin_eq (v dir : vec3 R) (margin : R) :
  addMargin v dir margin = if Rlt_dec 0 margin then add3 v (scl3 dir (margin / 2)) else v.
Proof.
  unfold addMargin. nR. destruct (Rlt_dec 0 margin) as [L|L].
  - apply Rltb_true in L. rewrite L. dv v; dv dir. unfold add3, scl3. nR. rewrite cp_half. apply vec_ext; field.
  - apply Rnot_lt_le in L. apply Rltb_false in L. rewrite L. reflexivity.
Qed.
(* adding margin/2 along a unit direction is the support of the set inflated by a ball of radius margin/2 *)
Lemma addMargin_support (A : vec3 R -> Prop) (s dir : vec3 R) (margin : R) :
  dot3 dir dir = 1 -> (forall a : vec3 R, A a -> dot3 a dir <= dot3 s dir) ->
  forall (a e : vec3 R), A a -> norm3 e <= Rmax 0 margin / 2 ->
    dot3 (add3 a e) dir <= dot3 (addMargin s dir margin) dir.
Proof.
  intros U Hs a e Aa E. rewrite addMargin_eq. pose proof (norm3_unit dir U) as N.
  pose proof (cauchy_schwarz e dir) as C. rewrite N in C. pose proof (Hs a Aa). rewrite dot3_add_l.
  pose proof (norm3_nonneg e).
  unfold Rmax in E. destruct (Rlt_dec 0 margin); destruct (Rle_dec 0 margin);
    try (rewrite dot3_add_l, dot3_scl_l, U); lra.
Qed.
Lemma mink_support (A B : vec3 R -> Prop) (s1 s2 : vec3 R -> vec3 R) (dir : vec3 R) :
  let dneg := scl3 dir (-1) in
  (forall a : vec3 R, A a -> dot3 a dir <= dot3 (s1 dir) dir) ->
  (forall b : vec3 R, B b -> dot3 b dneg <= dot3 (s2 dneg) dneg) ->
  let '(v, v1, v2) := minkSupport s1 s2 0 0 dir dneg in
  v = sub3 v1 v2 /\ v1 = s1 dir /\ v2 = s2 dneg /\
  forall a b : vec3 R, A a -> B b -> dot3 (sub3 a b) dir <= dot3 v dir.
Proof.
  intros dneg H1 H2. unfold minkSupport. rewrite !addMargin_eq.
  destruct (Rlt_dec 0 0); [lra|]. repeat split.
  intros a b Aa Bb. rewrite !dot3_sub_l. pose proof (H1 a Aa). pose proof (H2 b Bb) as Q.
  unfold dneg in *. rewrite !dot3_scl_r in Q. lra.
Qed.
Lemma gjkSupport_eq (s1 s2 : vec3 R -> vec3 R) (m1 m2 : R) (x : vec3 R) :
  0 < norm3 x ->
  let dneg := scl3 x (1 / norm3 x) in
  let dir := scl3 dneg (-1) in
  gjkSupport s1 s2 m1 m2 x (norm3 x) = minkSupport s1 s2 m1 m2 dir dneg /\
  dot3 dir dir = 1 /\ dneg = scl3 dir (-1).
Proof.
  intros P dneg dir. split; [|split].
  - unfold gjkSupport. nR. replace (- (1)) with (-1) by lra. reflexivity.
  - unfold dir. rewrite dot3_scl_l, dot3_scl_r. unfold dneg. rewrite scl_inv_unit by assumption. ring.
  - unfold dir. dv dneg. unfold scl3. nR. apply vec_ext; ring.
Qed.

(* ============================================================================================ *)
(* final statements, restated verbatim in Props/C15.v *)
Lemma C15_support_sphere_l :
forall (pos : vec3 R) (r : R) (dir : vec3 R),
  0 <= r -> dot3 dir dir = 1 ->
  norm3 (sub3 (sphereSupport pos r dir) pos) <= r /\
  forall x : vec3 R, norm3 (sub3 x pos) <= r -> dot3 x dir <= dot3 (sphereSupport pos r dir) dir.
Proof.
  exact sphere_support.
Qed.

Lemma C15_support_line_l :
forall (mat : mat3 R) (pos : vec3 R) (len : R) (dir : vec3 R),
  0 <= len ->
  (exists t : R, - len <= t <= len /\ lineSupport mat pos len dir = add3 pos (scl3 (zaxis mat) t)) /\
  forall t : R, - len <= t <= len ->
    dot3 (add3 pos (scl3 (zaxis mat) t)) dir <= dot3 (lineSupport mat pos len dir) dir.
Proof.
  exact line_support.
Qed.

Lemma C15_support_capsule_l :
forall (mat : mat3 R) (pos : vec3 R) (r h : R) (dir : vec3 R),
  0 <= r -> 0 <= h -> mulMatMat3 mat (transpose3 mat) = matId -> dot3 dir dir = 1 ->
  let inCap := fun l : vec3 R => exists t : R, - h <= t <= h /\ norm3 (sub3 l (0, 0, t)) <= r in
  exists lstar : vec3 R,
    capsuleSupport mat pos r h dir = localToGlobal mat lstar pos /\ inCap lstar /\
    forall l : vec3 R, inCap l -> dot3 (localToGlobal mat l pos) dir <= dot3 (capsuleSupport mat pos r h dir) dir.
Proof.
  intros mat pos r h dir R0 H0 O U inCap.
  assert (UL : dot3 (mulMatTVec3 mat dir) (mulMatTVec3 mat dir) = 1) by (rewrite mulMatT_norm; assumption).
  destruct (capsule_local r h (mulMatTVec3 mat dir) R0 H0 UL) as [A B].
  exists (capsuleLocal r h (mulMatTVec3 mat dir)). split; [reflexivity|]. split; [exact A|].
  intros l I. unfold capsuleSupport. apply (support_transfer mat pos dir _ (inCapsule r h)); [exact B|exact I].
Qed.

Lemma C15_support_ellipsoid_l :
forall (mat : mat3 R) (pos size dir : vec3 R),
  (let '(s0, s1, s2) := size in 0 < s0 /\ 0 < s1 /\ 0 < s2) ->
  let inEll := fun l : vec3 R =>
    let '(s0, s1, s2) := size in let '(l0, l1, l2) := l in
    (l0 / s0) * (l0 / s0) + (l1 / s1) * (l1 / s1) + (l2 / s2) * (l2 / s2) <= 1 in
  exists lstar : vec3 R,
    ellipsoidSupport mat pos size dir = localToGlobal mat lstar pos /\ inEll lstar /\
    (mjMINVAL2 <= ellipsoidNorm2 size (mulMatTVec3 mat dir) ->
     forall l : vec3 R, inEll l -> dot3 (localToGlobal mat l pos) dir <= dot3 (ellipsoidSupport mat pos size dir) dir).
Proof.
  intros mat pos size dir SP inEll. pose proof (ellipsoidSupport_cases mat pos size dir) as E. cbv zeta in E.
  destruct (Rlt_dec (ellipsoidNorm2 size (mulMatTVec3 mat dir)) mjMINVAL2) as [L|L].
  - eexists. split; [exact E|]. split; [apply (ellipsoid_pole size SP)|]. intros B. lra.
  - apply Rnot_lt_le in L. destruct (ellipsoid_local size (mulMatTVec3 mat dir) SP L) as [A B].
    eexists. split; [exact E|]. split; [exact A|]. intros _ l I. rewrite E.
    apply (support_transfer mat pos dir _ (inEllipsoid size)); [exact B|exact I].
Qed.

Lemma C15_support_cylinder_l :
forall (mat : mat3 R) (pos : vec3 R) (r h : R) (dir : vec3 R),
  0 <= r -> 0 <= h ->
  let inCyl := fun l : vec3 R => let '(l0, l1, l2) := l in l0 * l0 + l1 * l1 <= r * r /\ - h <= l2 <= h in
  let n2 := (let '(d0, d1, _) := mulMatTVec3 mat dir in d0 * d0 + d1 * d1) in
  exists lstar : vec3 R,
    cylinderSupport mat pos r h dir = localToGlobal mat lstar pos /\ inCyl lstar /\
    forall l : vec3 R, inCyl l ->
      dot3 (localToGlobal mat l pos) dir <=
      dot3 (cylinderSupport mat pos r h dir) dir + (if Rlt_dec n2 mjMINVAL2 then r * sqrt n2 else 0).
Proof.
  intros mat pos r h dir R0 H0 inCyl n2.
  destruct (cylinder_local r h (mulMatTVec3 mat dir) R0 H0) as [A B].
  exists (cylinderLocal r h (mulMatTVec3 mat dir)). split; [reflexivity|]. split; [exact A|].
  intros l I. unfold cylinderSupport. rewrite !localToGlobal_dot. pose proof (B l I) as Q. fold n2 in Q. lra.
Qed.

Lemma C15_support_box_l :
forall (mat : mat3 R) (pos size dir : vec3 R),
  (let '(s0, s1, s2) := size in 0 < s0 /\ 0 < s1 /\ 0 < s2) ->
  let inBx := fun l : vec3 R =>
    let '(s0, s1, s2) := size in let '(l0, l1, l2) := l in - s0 <= l0 <= s0 /\ - s1 <= l1 <= s1 /\ - s2 <= l2 <= s2 in
  exists lstar : vec3 R,
    fst (boxSupport mat pos size dir) = localToGlobal mat lstar pos /\ inBx lstar /\
    (forall l : vec3 R, inBx l -> dot3 (localToGlobal mat l pos) dir <= dot3 (fst (boxSupport mat pos size dir)) dir) /\
    snd (boxSupport mat pos size dir) =
      (let '(d0, d1, d2) := mulMatTVec3 mat dir in
       ((if Rle_dec 0 d0 then 1 else 0) + (if Rle_dec 0 d1 then 2 else 0) + (if Rle_dec 0 d2 then 4 else 0))%Z).
Proof.
  intros mat pos size dir SP inBx.
  assert (SP0 : let '(s0, s1, s2) := size in 0 <= s0 /\ 0 <= s1 /\ 0 <= s2) by (dv size; lra).
  destruct (box_local size (mulMatTVec3 mat dir) SP0) as [A B].
  exists (boxLocal size (mulMatTVec3 mat dir)). split; [reflexivity|]. split; [exact A|]. split.
  - intros l I. apply (support_transfer mat pos dir _ (inBox size)); [exact B|exact I].
  - pose proof (box_vertindex size (mulMatTVec3 mat dir) SP) as V. unfold boxSupport. cbv zeta. cbn [snd].
    destruct (mulMatTVec3 mat dir) as [[d0 d1] d2]. exact V.
Qed.

Lemma C15_support_mesh_l :
forall (mat : mat3 R) (pos : vec3 R) (verts : list (vec3 R)) (vertindex : Z) (dir : vec3 R),
  let ld := mulMatTVec3 mat dir in
  ((vertindex < 0)%Z /\ (exists v : vec3 R, In v verts /\ - fltMax < dot3 ld v)) \/
  ((0 <= vertindex < Z.of_nat (length verts))%Z) ->
  let r := meshSupport mat pos verts vertindex dir in
  exists k : nat, (k < length verts)%nat /\ snd r = Z.of_nat k /\
    fst r = localToGlobal mat (nth k verts zero3) pos /\
    (forall v : vec3 R, In v verts -> dot3 ld v <= dot3 ld (nth k verts zero3)) /\
    (forall v : vec3 R, In v verts -> dot3 (localToGlobal mat v pos) dir <= dot3 (fst r) dir).
Proof.
  exact mesh_support.
Qed.

Lemma C15_minkowski_l :
forall (A B : vec3 R -> Prop) (s1 s2 : vec3 R -> vec3 R) (dir : vec3 R),
  let dneg := scl3 dir (-1) in
  (forall a : vec3 R, A a -> dot3 a dir <= dot3 (s1 dir) dir) ->
  (forall b : vec3 R, B b -> dot3 b dneg <= dot3 (s2 dneg) dneg) ->
  let '(v, v1, v2) := minkSupport s1 s2 0 0 dir dneg in
  v = sub3 v1 v2 /\ v1 = s1 dir /\ v2 = s2 dneg /\
  forall a b : vec3 R, A a -> B b -> dot3 (sub3 a b) dir <= dot3 v dir.
Proof.
  exact mink_support.
Qed.

Lemma C15_minkowski_margin_l :
(forall (A : vec3 R -> Prop) (s dir : vec3 R) (margin : R),
   dot3 dir dir = 1 -> (forall a : vec3 R, A a -> dot3 a dir <= dot3 s dir) ->
   forall (a e : vec3 R), A a -> norm3 e <= Rmax 0 margin / 2 ->
     dot3 (add3 a e) dir <= dot3 (addMargin s dir margin) dir) /\
(forall (s1 s2 : vec3 R -> vec3 R) (m1 m2 : R) (x : vec3 R),
   0 < norm3 x ->
   let dneg := scl3 x (1 / norm3 x) in
   let dir := scl3 dneg (-1) in
   gjkSupport s1 s2 m1 m2 x (norm3 x) = minkSupport s1 s2 m1 m2 dir dneg /\
   dot3 dir dir = 1 /\ dneg = scl3 dir (-1)).
Proof.
  split; [exact addMargin_support|exact gjkSupport_eq].
Qed.
