(* C17: union-find invariants, refinement to connectivity, island numbering *)
From Coq Require Import List ZArith Bool Lia Arith.
From MJV Require Import Model.Island Model.IslandSpec.
Import ListNotations.
Open Scope Z_scope.

(* ---------- arrays *)
Lemma len_nonneg l : 0 <= len l.
Proof. unfold len. lia. Qed.

Lemma length_setn l : forall i v, length (setn l i v) = length l.
Proof. induction l as [|a l IH]; intros [|i] v; simpl; auto. Qed.

Lemma len_set l i v : len (set l i v) = len l.
Proof. unfold set, len. destruct (i <? 0); [reflexivity|]. rewrite length_setn. reflexivity. Qed.

Lemma nth_setn_eq l : forall i v d, (i < length l)%nat -> nth i (setn l i v) d = v.
Proof. induction l as [|a l IH]; intros [|i] v d H; simpl in *; try lia; auto. apply IH. lia. Qed.

Lemma nth_setn_neq l : forall i j v d, i <> j -> nth j (setn l i v) d = nth j l d.
Proof.
  induction l as [|a l IH]; intros [|i] [|j] v d H; simpl; auto; try lia.
Qed.

Lemma get_set_eq l i v : 0 <= i < len l -> get (set l i v) i = v.
Proof.
  unfold get, set, len. intro H. destruct (Z.ltb_spec i 0); [lia|].
  apply nth_setn_eq. lia.
Qed.

Lemma get_set_neq l i j v : i <> j -> get (set l i v) j = get l j.
Proof.
  unfold get, set. intro H. destruct (Z.ltb_spec j 0); [reflexivity|].
  destruct (Z.ltb_spec i 0); [reflexivity|]. apply nth_setn_neq. lia.
Qed.

Lemma get_set l i j v : 0 <= i < len l -> get (set l i v) j = if j =? i then v else get l j.
Proof.
  intro H. destruct (Z.eqb_spec j i) as [->|N]; [apply get_set_eq; exact H| apply get_set_neq; auto].
Qed.

Lemma inb_true l i : inb l i = true <-> 0 <= i < len l.
Proof. unfold inb. rewrite andb_true_iff, Z.leb_le, Z.ltb_lt. tauto. Qed.

Lemma get_oob l i : ~ (0 <= i < len l) -> get l i = OOB.
Proof.
  unfold get, len. intro H. destruct (Z.ltb_spec i 0); [reflexivity|].
  apply nth_overflow. lia.
Qed.

Lemma nth_repeat_in (v d : Z) n : forall i, (i < n)%nat -> nth i (repeat v n) d = v.
Proof. induction n as [|n IH]; intros [|i] H; simpl; try lia; auto. apply IH. lia. Qed.

Lemma get_repeat v n i : 0 <= i < Z.of_nat n -> get (repeat v n) i = v.
Proof.
  unfold get. intro H. destruct (Z.ltb_spec i 0); [lia|]. apply nth_repeat_in. lia.
Qed.

(* ---------- Root *)
Lemma Root_facts p t r : Root p t r -> 0 <= r <= t /\ t < len p /\ get p r = r /\ get p t <> -1.
Proof.
  induction 1 as [t Ht Hg | t q r Ht Hg Hq _ IH].
  - repeat split; lia.
  - destruct IH as (? & ? & ? & ?). repeat split; lia.
Qed.

Lemma Root_root p t r : Root p t r -> Root p r r.
Proof.
  intro H. pose proof (Root_facts _ _ _ H) as (? & ? & ? & ?).
  apply Root_base; lia.
Qed.

Lemma Root_det p t r1 : Root p t r1 -> forall r2, Root p t r2 -> r1 = r2.
Proof.
  induction 1 as [t Ht Hg | t q r Ht Hg Hq _ IH]; intros r2 H2.
  - inversion H2; subst; [reflexivity| lia].
  - inversion H2; subst; [lia|]. apply IH. assumption.
Qed.

Lemma Root_parent p t r : Root p t r -> Root p (get p t) r.
Proof.
  intro H. inversion H; subst.
  - rewrite H1. exact H.
  - assumption.
Qed.

Lemma Root_exists p : wf p -> forall t, 0 <= t < len p -> get p t <> -1 -> exists r, Root p t r.
Proof.
  intros W t. assert (G : forall n : nat, forall t, (Z.to_nat t < n)%nat -> 0 <= t < len p -> get p t <> -1 ->
                            exists r, Root p t r).
  { induction n as [|n IH]; intros t0 Hn Ht Ha; [lia|].
    destruct (W t0 Ht) as [E|[Hr Hp]]; [contradiction|].
    destruct (Z.eq_dec (get p t0) t0) as [E|N].
    - exists t0. apply Root_base; assumption.
    - destruct (IH (get p t0)) as [r Hr']; try lia; auto.
      exists r. eapply Root_step; eauto. lia. }
  apply (G (S (Z.to_nat t))). lia.
Qed.

Lemma find_root_spec p t r : Root p t r -> forall fuel, (Z.to_nat t < fuel)%nat -> find_root fuel p t = Some r.
Proof.
  induction 1 as [t Ht Hg | t q r Ht Hg Hq _ IH]; intros fuel Hf; (destruct fuel as [|f]; [lia|]); simpl.
  - rewrite (proj2 (inb_true p t) Ht). rewrite Hg, Z.eqb_refl. reflexivity.
  - rewrite (proj2 (inb_true p t) Ht). rewrite Hg.
    destruct (Z.eqb_spec q t); [lia|]. apply IH. lia.
Qed.

(* redirecting a tree to its own root keeps well-formedness and all roots *)
Lemma set_to_root p t r : wf p -> Root p t r ->
  let p1 := set p t r in
  wf p1 /\ (forall x s, Root p x s -> Root p1 x s) /\ (forall x, get p1 x = -1 <-> get p x = -1).
Proof.
  intros W H p1. pose proof (Root_facts _ _ _ H) as (Hr & Ht & Hrr & Hta).
  assert (Ht' : 0 <= t < len p) by lia.
  assert (L1 : len p1 = len p) by apply len_set.
  split; [|split].
  - intros x Hx. rewrite L1 in Hx. unfold p1. rewrite get_set by exact Ht'.
    destruct (Z.eqb_spec x t) as [->|N].
    + right. split; [lia|]. rewrite get_set by exact Ht'.
      destruct (Z.eqb_spec r t); lia.
    + destruct (W x Hx) as [E|[E1 E2]]; [left; exact E|right]. split; [exact E1|].
      rewrite get_set by exact Ht'. destruct (Z.eqb_spec (get p x) t); [lia| exact E2].
  - intros x s Hxs. induction Hxs as [x Hx Hg | x q s Hx Hg Hq Hqs IH].
    + destruct (Z.eq_dec x t) as [->|N].
      * assert (r = t) by (eapply Root_det; [exact H| apply Root_base; assumption]). subst r.
        apply Root_base; [lia|]. unfold p1. rewrite get_set_eq; auto.
      * apply Root_base; [lia|]. unfold p1. rewrite get_set_neq; auto.
    + destruct (Z.eq_dec x t) as [->|N].
      * assert (s = r) by (eapply Root_det; [eapply Root_step; eauto| exact H]). subst s.
        assert (r <> t) by (intro; subst; lia).
        eapply Root_step with (q := r); [lia| unfold p1; apply get_set_eq; exact Ht'| lia|].
        apply Root_base; [lia|]. unfold p1. rewrite get_set_neq; auto.
      * eapply Root_step with (q := q); [lia| unfold p1; rewrite get_set_neq; auto| lia| exact IH].
  - intro x. unfold p1. rewrite get_set by exact Ht'. destruct (Z.eqb_spec x t) as [->|N]; [|tauto].
    split; intro; lia.
Qed.

Lemma compress_spec fuel : forall p t r, wf p -> Root p t r -> (Z.to_nat t < fuel)%nat ->
  exists p', compress fuel p t r = Some p' /\ wf p' /\ len p' = len p /\
             (forall x s, Root p x s -> Root p' x s) /\ (forall x, get p' x = -1 <-> get p x = -1).
Proof.
  induction fuel as [|f IH]; intros p t r W H Hf; [lia|].
  pose proof (Root_facts _ _ _ H) as (Hr & Ht & Hrr & Hta).
  simpl. rewrite (proj2 (inb_true p t)) by lia.
  destruct (Z.eqb_spec (get p t) t) as [E|N].
  - exists p. repeat split; auto; tauto.
  - destruct (set_to_root p t r W H) as (W1 & R1 & A1).
    inversion H; subst; [contradiction|].
    destruct (IH (set p t r) (get p t) r W1 (R1 _ _ H3)) as (p' & C & W' & L' & R' & A'); [lia|].
    exists p'. split; [exact C|]. split; [exact W'|]. split; [rewrite L'; apply len_set|]. split.
    + intros x s Hx. apply R'. apply R1. exact Hx.
    + intro x. rewrite A'. apply A1.
Qed.

Lemma len_length p : Z.to_nat (len p) = length p.
Proof. unfold len. lia. Qed.

Lemma dsuRoot_spec p t r : wf p -> Root p t r ->
  exists p', dsuRoot p t = Some (p', r) /\ wf p' /\ len p' = len p /\
             (forall x s, Root p x s -> Root p' x s) /\ (forall x, get p' x = -1 <-> get p x = -1).
Proof.
  intros W H. pose proof (Root_facts _ _ _ H) as (Hr & Ht & _).
  assert (Hf : (Z.to_nat t < S (length p))%nat) by (unfold len in Ht; lia).
  unfold dsuRoot. rewrite (find_root_spec p t r H _ Hf).
  destruct (compress_spec _ p t r W H Hf) as (p' & C & Rest). rewrite C.
  exists p'. split; [reflexivity| exact Rest].
Qed.

(* roots are preserved in both directions by an operation that keeps activity and forward roots *)
Lemma Root_back p p' : wf p -> len p' = len p ->
  (forall x s, Root p x s -> Root p' x s) -> (forall x, get p' x = -1 <-> get p x = -1) ->
  forall x s, Root p' x s -> Root p x s.
Proof.
  intros W L F A x s H. pose proof (Root_facts _ _ _ H) as (Hr & Ht & _ & Ha).
  destruct (Root_exists p W x) as [s' Hs']; [lia| rewrite <- A; exact Ha|].
  rewrite (Root_det _ _ _ H _ (F _ _ Hs')). exact Hs'.
Qed.

Lemma dsu_root_full :
  forall p t, wf p -> 0 <= t < len p -> get p t <> -1 ->
    exists p' r, dsuRoot p t = Some (p', r) /\ Root p t r /\ 0 <= r <= t /\ get p r = r /\
      wf p' /\ len p' = len p /\
      (forall x s, Root p x s <-> Root p' x s) /\ (forall x, get p' x = -1 <-> get p x = -1).
Proof.
  intros p t W Ht Ha. destruct (Root_exists p W t Ht Ha) as [r Hr].
  destruct (dsuRoot_spec p t r W Hr) as (p' & D & W' & L & F & A).
  pose proof (Root_facts _ _ _ Hr) as (H1 & H2 & H3 & H4).
  exists p', r. split; [exact D|]. split; [exact Hr|]. split; [exact H1|]. split; [exact H3|].
  split; [exact W'|]. split; [exact L|]. split; [|exact A].
  intros x s. split; [apply F| apply (Root_back p p' W L F A)].
Qed.

(* ---------- activation of an inactive tree *)
Lemma activate_spec p t : wf p -> 0 <= t < len p -> get p t = -1 ->
  let p1 := set p t t in
  wf p1 /\ len p1 = len p /\ Root p1 t t /\ (forall x s, Root p x s -> Root p1 x s) /\
  (forall x, get p1 x = -1 <-> (get p x = -1 /\ x <> t)) /\
  (forall x s, Root p1 x s -> x <> t -> Root p x s).
Proof.
  intros W Ht E p1.
  assert (L1 : len p1 = len p) by apply len_set.
  assert (G : forall x, get p1 x = if x =? t then t else get p x) by (intro x; apply get_set; exact Ht).
  assert (NP : forall x, 0 <= x < len p -> get p x <> -1 -> get p x <> t).
  { intros x Hx Hn Hc. destruct (W x Hx) as [?|[_ C]]; [contradiction|]. rewrite Hc in C. contradiction. }
  split; [|split; [exact L1|split; [|split; [|split]]]].
  - intros x Hx. rewrite L1 in Hx. rewrite G. destruct (Z.eqb_spec x t) as [->|N].
    + right. split; [lia|]. rewrite G, Z.eqb_refl. lia.
    + destruct (W x Hx) as [E1|[E1 E2]]; [left; exact E1|right]. split; [exact E1|].
      rewrite G. destruct (Z.eqb_spec (get p x) t); [lia| exact E2].
  - apply Root_base; [lia|]. rewrite G, Z.eqb_refl. reflexivity.
  - intros x s H. induction H as [x Hx Hg | x q s Hx Hg Hq Hqs IH].
    + apply Root_base; [lia|]. rewrite G. destruct (Z.eqb_spec x t); [subst; lia| exact Hg].
    + eapply Root_step with (q := q); [lia| | lia| exact IH].
      rewrite G. destruct (Z.eqb_spec x t); [subst; lia| exact Hg].
  - intro x. rewrite G. destruct (Z.eqb_spec x t) as [->|N]; [split; [lia| tauto]| tauto].
  - intros x s H. induction H as [x Hx Hg | x q s Hx Hg Hq Hqs IH]; intro N.
    + apply Root_base; [lia|]. rewrite G in Hg. destruct (Z.eqb_spec x t); [contradiction| exact Hg].
    + rewrite G in Hg. destruct (Z.eqb_spec x t); [contradiction|].
      assert (Hx' : 0 <= x < len p) by lia.
      eapply Root_step with (q := q); [exact Hx'| exact Hg| lia|]. apply IH.
      subst q. apply NP; [exact Hx'|]. lia.
Qed.

(* ---------- linking the larger root under the smaller one *)
Lemma link_spec p r1 r2 : wf p -> Root p r1 r1 -> Root p r2 r2 -> r1 < r2 ->
  let p1 := set p r2 r1 in
  wf p1 /\ len p1 = len p /\ (forall x, get p1 x = -1 <-> get p x = -1) /\
  (forall x s, Root p x s -> Root p1 x (if s =? r2 then r1 else s)).
Proof.
  intros W H1 H2 Hlt p1.
  pose proof (Root_facts _ _ _ H1) as (Hr1 & Ht1 & Hg1 & Ha1).
  pose proof (Root_facts _ _ _ H2) as (Hr2 & Ht2 & Hg2 & Ha2).
  assert (Hi2 : 0 <= r2 < len p) by lia.
  assert (L1 : len p1 = len p) by apply len_set.
  assert (G : forall x, get p1 x = if x =? r2 then r1 else get p x) by (intro x; apply get_set; exact Hi2).
  assert (R11 : Root p1 r1 r1).
  { apply Root_base; [lia|]. rewrite G. destruct (Z.eqb_spec r1 r2); [lia| exact Hg1]. }
  split; [|split; [exact L1|split]].
  - intros x Hx. rewrite L1 in Hx. rewrite G. destruct (Z.eqb_spec x r2) as [->|N].
    + right. split; [lia|]. rewrite G. destruct (Z.eqb_spec r1 r2); lia.
    + destruct (W x Hx) as [E1|[E1 E2]]; [left; exact E1|right]. split; [exact E1|].
      rewrite G. destruct (Z.eqb_spec (get p x) r2); [lia| exact E2].
  - intro x. rewrite G. destruct (Z.eqb_spec x r2) as [->|N]; [|tauto]. split; intro; lia.
  - intros x s H. induction H as [x Hx Hg | x q s Hx Hg Hq Hqs IH].
    + destruct (Z.eqb_spec x r2) as [->|N].
      * eapply Root_step with (q := r1); [lia| rewrite G, Z.eqb_refl; reflexivity| lia| exact R11].
      * apply Root_base; [lia|]. rewrite G. destruct (Z.eqb_spec x r2); [contradiction| exact Hg].
    + assert (x <> r2) by (intro; subst; lia).
      eapply Root_step with (q := q); [lia| | lia| exact IH].
      rewrite G. destruct (Z.eqb_spec x r2); [contradiction| exact Hg].
Qed.

(* ---------- merge sequences refine connectivity *)
(* invariant relating a parent array to the merges seen so far: ms0 are the merges whose
   endpoints already share a root, ms' (a superset) bounds what is connected/active *)
Definition J (n : Z) (ms0 ms' : list (Z * Z)) (p : list Z) : Prop :=
  wf p /\ len p = n /\
  (forall t r, Root p t r -> conn ms' t r) /\
  (forall e0, In e0 ms0 -> exists r, Root p (end1 e0) r /\ Root p (end2 e0) r) /\
  (forall t, 0 <= t < n -> get p t <> -1 -> active ms' t) /\
  (forall t, active ms0 t -> 0 <= t < n /\ get p t <> -1).

Lemma active_app ms e t : active ms t -> active (ms ++ [e]) t.
Proof. intros (e0 & Hin & H). exists e0. split; [apply in_or_app; left; exact Hin| exact H]. Qed.

Lemma conn_app ms e a b : conn ms a b -> conn (ms ++ [e]) a b.
Proof.
  induction 1.
  - apply conn_refl. apply active_app. assumption.
  - apply conn_edge. apply in_or_app. left. assumption.
  - apply conn_sym. assumption.
  - eapply conn_trans; eassumption.
Qed.

Lemma J_weaken n ms e p : J n ms ms p -> J n ms (ms ++ [e]) p.
Proof.
  intros (W & L & S & C & A1 & A2).
  split; [exact W|]. split; [exact L|]. split; [|split; [exact C|split; [|exact A2]]].
  - intros t r H. apply conn_app. auto.
  - intros t Ht Ha. apply active_app. auto.
Qed.

Lemma J_activate n ms0 ms' p t : J n ms0 ms' p -> 0 <= t < n -> get p t = -1 -> active ms' t ->
  J n ms0 ms' (set p t t) /\ (forall x, get (set p t t) x = -1 <-> (get p x = -1 /\ x <> t)).
Proof.
  intros (W & L & S & C & A1 & A2) Ht E Ha.
  destruct (activate_spec p t W) as (W1 & L1 & Rt & Rf & Act & Rb); [lia| exact E|].
  split; [|exact Act].
  split; [exact W1|]. split; [lia|]. split; [|split; [|split]].
  - intros x s H. destruct (Z.eq_dec x t) as [->|N].
    + rewrite (Root_det _ _ _ H _ Rt). apply conn_refl. exact Ha.
    + apply S. apply Rb; assumption.
  - intros e0 Hin. destruct (C e0 Hin) as (r & H1 & H2). exists r. split; apply Rf; assumption.
  - intros x Hx Hn. destruct (Z.eq_dec x t) as [->|N]; [exact Ha|].
    apply A1; [exact Hx|]. intro Hc. apply Hn. apply Act. split; assumption.
  - intros x Hx. destruct (A2 x Hx) as [R Hn]. split; [exact R|].
    intro Hc. apply Act in Hc. destruct Hc as [Hc _]. exact (Hn Hc).
Qed.

Lemma J_transfer n ms0 ms' p p' : J n ms0 ms' p -> wf p' -> len p' = len p ->
  (forall x s, Root p x s -> Root p' x s) -> (forall x, get p' x = -1 <-> get p x = -1) ->
  J n ms0 ms' p'.
Proof.
  intros (W & L & S & C & A1 & A2) W' L' F A.
  pose proof (Root_back p p' W L' F A) as B.
  split; [exact W'|]. split; [lia|]. split; [|split; [|split]].
  - intros t r H. apply S. apply B. exact H.
  - intros e0 Hin. destruct (C e0 Hin) as (r & H1 & H2). exists r. split; apply F; assumption.
  - intros t Ht Hn. apply A1; [exact Ht|]. rewrite <- A. exact Hn.
  - intros t Ht. rewrite A. apply A2. exact Ht.
Qed.

Lemma active_last ms e t : active (ms ++ [e]) t -> active ms t \/ t = end1 e \/ t = end2 e.
Proof.
  intros (e0 & Hin & H). apply in_app_or in Hin. destruct Hin as [Hin|[<-|[]]].
  - left. exists e0. split; assumption.
  - right. exact H.
Qed.

Lemma J_close n ms e p r : J n ms (ms ++ [e]) p -> Root p (end1 e) r -> Root p (end2 e) r ->
  J n (ms ++ [e]) (ms ++ [e]) p.
Proof.
  intros (W & L & S & C & A1 & A2) H1 H2.
  split; [exact W|]. split; [exact L|]. split; [exact S|]. split; [|split; [exact A1|]].
  - intros e0 Hin. apply in_app_or in Hin. destruct Hin as [Hin|[<-|[]]]; [apply C; exact Hin|].
    exists r. split; assumption.
  - intros t Ht. apply active_last in Ht. destruct Ht as [Ht|[->| ->]]; [apply A2; exact Ht| |].
    + pose proof (Root_facts _ _ _ H1). split; [lia| tauto].
    + pose proof (Root_facts _ _ _ H2). split; [lia| tauto].
Qed.

(* linking rb under ra (ra < rb), where ra, rb are the roots of the two endpoints of e (either order) *)
Lemma J_link n ms e p ra rb a b : J n ms (ms ++ [e]) p ->
  ((a = end1 e /\ b = end2 e) \/ (a = end2 e /\ b = end1 e)) ->
  Root p a ra -> Root p b rb -> ra < rb ->
  J n (ms ++ [e]) (ms ++ [e]) (set p rb ra).
Proof.
  intros (W & L & S & C & A1 & A2) Hab Ha Hb Hlt.
  destruct (link_spec p ra rb W (Root_root _ _ _ Ha) (Root_root _ _ _ Hb) Hlt) as (W1 & L1 & Act & F).
  assert (Cab : conn (ms ++ [e]) b a).
  { destruct Hab as [[-> ->]|[-> ->]].
    - apply conn_sym. apply conn_edge. apply in_or_app. right. left. reflexivity.
    - apply conn_edge. apply in_or_app. right. left. reflexivity. }
  assert (Fa : Root (set p rb ra) a ra).
  { pose proof (F _ _ Ha) as G. destruct (Z.eqb_spec ra rb); [lia| exact G]. }
  assert (Fb : Root (set p rb ra) b ra).
  { pose proof (F _ _ Hb) as G. rewrite Z.eqb_refl in G. exact G. }
  split; [exact W1|]. split; [lia|]. split; [|split; [|split]].
  - intros t r H.
    pose proof (Root_facts _ _ _ H) as (Ht0 & Ht & _ & Hact).
    destruct (Root_exists p W t) as [s Hs]; [rewrite <- L1; lia| rewrite <- Act; exact Hact|].
    pose proof (F _ _ Hs) as G. rewrite (Root_det _ _ _ H _ G).
    destruct (Z.eqb_spec s rb) as [->|N]; [|apply S; exact Hs].
    eapply conn_trans; [apply S; exact Hs|].
    eapply conn_trans; [apply conn_sym; apply S; exact Hb|].
    eapply conn_trans; [exact Cab| apply S; exact Ha].
  - intros e0 Hin. apply in_app_or in Hin. destruct Hin as [Hin|[<-|[]]].
    + destruct (C e0 Hin) as (r & H1 & H2). exists (if r =? rb then ra else r). split; apply F; assumption.
    + exists ra. destruct Hab as [[<- <-]|[<- <-]]; split; assumption.
  - intros t Ht Hn. apply A1; [exact Ht|]. rewrite <- Act. exact Hn.
  - intros t Ht. apply active_last in Ht. rewrite Act.
    pose proof (Root_facts _ _ _ Ha) as Fa'. pose proof (Root_facts _ _ _ Hb) as Fb'.
    destruct Ht as [Ht|Ht]; [apply A2; exact Ht|].
    assert (t = a \/ t = b) as [->| ->] by (destruct Hab as [[-> ->]|[-> ->]]; tauto);
      (split; [lia| tauto]).
Qed.

Lemma admissible_ends n e : admissible n e -> 0 <= end1 e < n /\ 0 <= end2 e < n.
Proof.
  unfold admissible, end2, end1. destruct e as [t1 t2]. simpl. intros (H1 & H2 & H3).
  destruct (Z.eqb_spec t1 (-1)); destruct (Z.eqb_spec t2 (-1)); lia.
Qed.

Lemma dsuMerge_step n ms p e : J n ms ms p -> admissible n e ->
  exists p', dsuMerge p (fst e) (snd e) = Some p' /\ J n (ms ++ [e]) (ms ++ [e]) p'.
Proof.
  intros HJ Hadm. pose proof (admissible_ends n e Hadm) as (Ha & Hb).
  pose proof (J_weaken n ms e p HJ) as J0.
  assert (Ln : len p = n) by apply HJ.
  unfold dsuMerge.
  assert (E0 : (fst e =? -1) && (snd e =? -1) = false).
  { destruct Hadm as (_ & _ & H). destruct (Z.eqb_spec (fst e) (-1)); destruct (Z.eqb_spec (snd e) (-1)); simpl; auto.
    exfalso. apply H. split; assumption. }
  rewrite E0.
  change (if fst e =? -1 then snd e else fst e) with (end1 e).
  change (if snd e =? -1 then end1 e else snd e) with (end2 e).
  set (a := end1 e) in *. set (b := end2 e) in *.
  rewrite (proj2 (inb_true p a)) by lia. rewrite (proj2 (inb_true p b)) by lia. cbn [andb negb].
  assert (Acta : active (ms ++ [e]) a).
  { exists e. split; [apply in_or_app; right; left; reflexivity| left; reflexivity]. }
  assert (Actb : active (ms ++ [e]) b).
  { exists e. split; [apply in_or_app; right; left; reflexivity| right; reflexivity]. }
  (* activation of a *)
  set (p1 := if get p a =? -1 then set p a a else p).
  assert (J1 : J n ms (ms ++ [e]) p1 /\ get p1 a <> -1).
  { unfold p1. destruct (Z.eqb_spec (get p a) (-1)) as [E|N].
    - destruct (J_activate n ms (ms ++ [e]) p a J0 Ha E Acta) as (J1 & Act). split; [exact J1|].
      intro Hc. apply Act in Hc. lia.
    - split; assumption. }
  destruct J1 as (J1 & Na).
  set (p2 := if get p1 b =? -1 then set p1 b b else p1).
  assert (J2 : J n ms (ms ++ [e]) p2 /\ get p2 a <> -1 /\ get p2 b <> -1).
  { unfold p2. destruct (Z.eqb_spec (get p1 b) (-1)) as [E|N].
    - destruct (J_activate n ms (ms ++ [e]) p1 b J1 Hb E Actb) as (J2 & Act). split; [exact J2|].
      split; intro Hc; apply Act in Hc; lia.
    - split; [exact J1|]. split; assumption. }
  destruct J2 as (J2 & Na2 & Nb2).
  assert (W2 : wf p2) by apply J2. assert (L2 : len p2 = n) by apply J2.
  destruct (Root_exists p2 W2 a) as [ra Hra]; [lia| exact Na2|].
  destruct (Root_exists p2 W2 b) as [rb Hrb]; [lia| exact Nb2|].
  destruct (Z.eqb_spec (get p2 a) (get p2 b)) as [E|N].
  - exists p2. split; [reflexivity|].
    apply (J_close n ms e p2 ra J2 Hra).
    pose proof (Root_parent _ _ _ Hra) as Q1. pose proof (Root_parent _ _ _ Hrb) as Q2.
    rewrite E in Q1. rewrite (Root_det _ _ _ Q1 _ Q2). exact Hrb.
  - destruct (dsuRoot_spec p2 a ra W2 Hra) as (p3 & D3 & W3 & L3 & F3 & A3). rewrite D3.
    pose proof (J_transfer n ms (ms ++ [e]) p2 p3 J2 W3 L3 F3 A3) as J3.
    destruct (dsuRoot_spec p3 b rb W3 (F3 _ _ Hrb)) as (p4 & D4 & W4 & L4 & F4 & A4). rewrite D4.
    pose proof (J_transfer n ms (ms ++ [e]) p3 p4 J3 W4 L4 F4 A4) as J4.
    assert (Ha4 : Root p4 a ra) by (apply F4, F3; exact Hra).
    assert (Hb4 : Root p4 b rb) by (apply F4, F3; exact Hrb).
    destruct (Z.ltb_spec ra rb) as [Hlt|Hge].
    + exists (set p4 rb ra). split; [reflexivity|].
      apply (J_link n ms e p4 ra rb a b J4); auto.
    + destruct (Z.ltb_spec rb ra) as [Hlt|Hge2].
      * exists (set p4 ra rb). split; [reflexivity|].
        apply (J_link n ms e p4 rb ra b a J4); auto.
      * exists p4. split; [reflexivity|]. assert (ra = rb) by lia. subst rb.
        apply (J_close n ms e p4 ra J4); assumption.
Qed.

Lemma J_init n : J (Z.of_nat n) [] [] (dsu_init n).
Proof.
  unfold dsu_init.
  assert (G : forall t, 0 <= t < Z.of_nat n -> get (repeat (-1) n) t = -1) by (intros; apply get_repeat; assumption).
  assert (L : len (repeat (-1) n) = Z.of_nat n) by (unfold len; rewrite repeat_length; reflexivity).
  split; [|split; [exact L|split; [|split; [|split]]]].
  - intros t Ht. left. apply G. lia.
  - intros t r H. exfalso. pose proof (Root_facts _ _ _ H) as (? & ? & ? & Hn). apply Hn. apply G. lia.
  - intros e0 [].
  - intros t Ht Hn. exfalso. apply Hn. apply G. exact Ht.
  - intros t (e0 & [] & _).
Qed.

Lemma merges_snoc p ms e : merges p (ms ++ [e]) =
  match merges p ms with None => None | Some q => dsuMerge q (fst e) (snd e) end.
Proof. unfold merges. rewrite fold_left_app. reflexivity. Qed.

Lemma merges_J n ms : Forall (admissible (Z.of_nat n)) ms ->
  exists p, merges (dsu_init n) ms = Some p /\ J (Z.of_nat n) ms ms p.
Proof.
  induction ms as [|e ms IH] using rev_ind; intro HF.
  - exists (dsu_init n). split; [reflexivity| apply J_init].
  - apply Forall_app in HF. destruct HF as [HF He]. inversion He; subst.
    destruct (IH HF) as (p & Hm & HJ).
    destruct (dsuMerge_step _ ms p e HJ H1) as (p' & Hd & HJ').
    exists p'. split; [|exact HJ']. rewrite merges_snoc, Hm. exact Hd.
Qed.

Lemma conn_active ms a b : conn ms a b -> active ms a /\ active ms b.
Proof.
  induction 1 as [t Ht|e Hin|a b _ [H1 H2]|a b c _ [H1 _] _ [_ H2]]; auto.
  split; exists e; auto.
Qed.

Lemma J_conn_same_root n ms p a b : J n ms ms p -> conn ms a b ->
  exists r, Root p a r /\ Root p b r.
Proof.
  intros (W & L & S & C & A1 & A2) H.
  induction H as [t Ht|e Hin|a b _ (r & H1 & H2)|a b c _ (r1 & H1 & H2) _ (r2 & H3 & H4)].
  - destruct (A2 t Ht) as [Rg Hn]. rewrite <- L in Rg.
    destruct (Root_exists p W t Rg Hn) as [r Hr]. exists r. split; assumption.
  - apply C. exact Hin.
  - exists r. split; assumption.
  - exists r1. split; [exact H1|]. rewrite (Root_det _ _ _ H2 _ H3). exact H4.
Qed.

(* the refinement theorem *)
Theorem merges_components n ms : Forall (admissible (Z.of_nat n)) ms ->
  exists p, merges (dsu_init n) ms = Some p /\ wf p /\ len p = Z.of_nat n /\
    (forall t, 0 <= t < Z.of_nat n -> (get p t <> -1 <-> active ms t)) /\
    (forall t, active ms t -> exists r, Root p t r) /\
    (forall a b ra rb, Root p a ra -> Root p b rb -> (ra = rb <-> conn ms a b)) /\
    (forall a r, Root p a r -> conn ms a r /\ forall b, conn ms a b -> r <= b).
Proof.
  intro HF. destruct (merges_J n ms HF) as (p & Hm & HJ).
  exists p. split; [exact Hm|].
  pose proof HJ as (W & L & S & C & A1 & A2).
  split; [exact W|]. split; [exact L|]. split; [|split; [|split]].
  - intros t Ht. split; [apply A1; exact Ht| apply A2].
  - intros t Ht. destruct (J_conn_same_root _ _ _ t t HJ (conn_refl _ _ Ht)) as (r & H & _). exists r. exact H.
  - intros a b ra rb Ha Hb. split.
    + intros <-. eapply conn_trans; [apply S; exact Ha| apply conn_sym; apply S; exact Hb].
    + intro Hc. destruct (J_conn_same_root _ _ _ a b HJ Hc) as (r & H1 & H2).
      rewrite (Root_det _ _ _ Ha _ H1), (Root_det _ _ _ Hb _ H2). reflexivity.
  - intros a r Ha. split; [apply S; exact Ha|].
    intros b Hc. destruct (J_conn_same_root _ _ _ a b HJ Hc) as (r' & H1 & H2).
    rewrite (Root_det _ _ _ Ha _ H1). apply (Root_facts _ _ _ H2).
Qed.

(* ---------- mj_dsuAssign *)
Lemma get_app1 l1 l2 i : 0 <= i < len l1 -> get (l1 ++ l2) i = get l1 i.
Proof.
  unfold get, len. intro H. destruct (Z.ltb_spec i 0); [reflexivity|]. apply app_nth1. lia.
Qed.

Lemma get_snoc l v : get (l ++ [v]) (len l) = v.
Proof.
  unfold get, len. destruct (Z.ltb_spec (Z.of_nat (length l)) 0); [lia|].
  rewrite app_nth2 by lia. replace (Z.to_nat (Z.of_nat (length l)) - length l)%nat with 0%nat by lia.
  reflexivity.
Qed.

Lemma len_snoc l v : len (l ++ [v]) = len l + 1.
Proof. unfold len. rewrite app_length. simpl. lia. Qed.

Lemma nroots_S p k : nroots p (S k) = nroots p k + (if get p (Z.of_nat k) =? Z.of_nat k then 1 else 0).
Proof.
  unfold nroots. rewrite seq_S, map_app, filter_app, app_length. simpl.
  destruct (get p (Z.of_nat k) =? Z.of_nat k); simpl; lia.
Qed.

Lemma nroots_mono p a b : (a <= b)%nat -> nroots p a <= nroots p b.
Proof.
  induction 1 as [|b _ IH]; [lia|]. rewrite nroots_S. destruct (_ =? _); lia.
Qed.

Lemma nroots_lt p a b : (a < b)%nat -> get p (Z.of_nat a) = Z.of_nat a -> nroots p a < nroots p b.
Proof.
  intros H E. pose proof (nroots_mono p (S a) b H) as M. rewrite nroots_S, E, Z.eqb_refl in M. lia.
Qed.

Definition assign_inv (p0 dofnum : list Z) (k : nat) (isl p : list Z) (nis nid : Z) : Prop :=
  len isl = Z.of_nat k /\ len p = len p0 /\
  (forall x, 0 <= x < Z.of_nat k ->
     (get p0 x = -1 -> get p x = -1 /\ get isl x = -1) /\
     (forall r, Root p0 x r -> get p x = r /\ get isl x = nroots p0 (Z.to_nat r))) /\
  (forall x, Z.of_nat k <= x -> get p x = get p0 x) /\
  nis = nroots p0 k /\ nid = active_dofs p0 dofnum k.

Lemma assign_loop_spec p0 dofnum : wf p0 -> forall todo k isl p nis nid,
  (k + todo = length p0)%nat -> assign_inv p0 dofnum k isl p nis nid ->
  exists isl' p', assign_loop todo (Z.of_nat k) isl p dofnum nis nid =
                  Some (isl', p', nroots p0 (length p0), active_dofs p0 dofnum (length p0)) /\
    assign_inv p0 dofnum (length p0) isl' p' (nroots p0 (length p0)) (active_dofs p0 dofnum (length p0)).
Proof.
  intros W. induction todo as [|todo IH]; intros k isl p nis nid Hk Inv.
  - replace k with (length p0) in * by lia. destruct Inv as (I1 & I2 & I3 & I4 & -> & ->).
    exists isl, p. split; [reflexivity|].
    split; [exact I1|split; [exact I2|split; [exact I3|split; [exact I4|split; reflexivity]]]].
  - destruct Inv as (I1 & I2 & I3 & I4 & -> & ->).
    assert (Hkr : 0 <= Z.of_nat k < len p0) by (unfold len; lia).
    cbn [assign_loop]. cbv zeta. rewrite (I4 (Z.of_nat k)) by lia.
    replace (Z.of_nat k + 1) with (Z.of_nat (S k)) by lia.
    assert (Hold : forall (v : Z) x, 0 <= x < Z.of_nat k -> get (isl ++ [v]) x = get isl x).
    { intros v x Hx. apply get_app1. lia. }
    assert (Hnew : forall v : Z, get (isl ++ [v]) (Z.of_nat k) = v).
    { intro v. rewrite <- I1. apply get_snoc. }
    destruct (Z.eqb_spec (get p0 (Z.of_nat k)) (-1)) as [E|N].
    + (* inactive *)
      apply IH; [lia|].
      split; [rewrite len_snoc; lia|]. split; [exact I2|]. split; [|split; [|split]].
      * intros x Hx. destruct (Z.eq_dec x (Z.of_nat k)) as [->|Nx].
        -- split.
           ++ intros _. split; [rewrite I4 by lia; exact E| apply Hnew].
           ++ intros r Hr. exfalso. apply (Root_facts _ _ _ Hr). exact E.
        -- rewrite Hold by lia. apply I3. lia.
      * intros x Hx. apply I4. lia.
      * rewrite nroots_S. destruct (Z.eqb_spec (get p0 (Z.of_nat k)) (Z.of_nat k)); [lia|lia].
      * simpl. rewrite E. simpl. lia.
    + destruct (Z.eqb_spec (get p0 (Z.of_nat k)) (Z.of_nat k)) as [E|N2].
      * (* a root *)
        assert (Rk : Root p0 (Z.of_nat k) (Z.of_nat k)) by (apply Root_base; assumption).
        apply IH; [lia|].
        split; [rewrite len_snoc; lia|]. split; [exact I2|]. split; [|split; [|split]].
        -- intros x Hx. destruct (Z.eq_dec x (Z.of_nat k)) as [->|Nx].
           ++ split; [intro; lia|]. intros r Hr. rewrite (Root_det _ _ _ Hr _ Rk).
              split; [rewrite I4 by lia; exact E|]. rewrite Hnew. f_equal. lia.
           ++ rewrite Hold by lia. apply I3. lia.
        -- intros x Hx. apply I4. lia.
        -- rewrite nroots_S, E, Z.eqb_refl. reflexivity.
        -- simpl. destruct (Z.eqb_spec (get p0 (Z.of_nat k)) (-1)); [lia|]. reflexivity.
      * (* a non-root: its parent has already been compressed *)
        destruct (W _ Hkr) as [?|[Hpt Hact]]; [contradiction|].
        set (pt := get p0 (Z.of_nat k)) in *.
        assert (Hpt' : 0 <= pt < Z.of_nat k) by lia.
        destruct (Root_exists p0 W pt) as [r Hr]; [lia| exact Hact|].
        pose proof (Root_facts _ _ _ Hr) as (Hr0 & _ & Hrr & _).
        destruct (I3 pt Hpt') as [_ G]. destruct (G r Hr) as [Gp _].
        rewrite Gp.
        assert (Rk : Root p0 (Z.of_nat k) r) by (eapply Root_step with (q := pt); eauto; lia).
        destruct (I3 r ltac:(lia)) as [_ G2]. destruct (G2 r (Root_root _ _ _ Hr)) as [_ Gi].
        destruct (Z.leb_spec 0 r); [|lia]. destruct (Z.ltb_spec r (Z.of_nat k)); [|lia]. cbn [andb].
        apply IH; [lia|].
        assert (Hkp : 0 <= Z.of_nat k < len p) by lia.
        split; [rewrite len_snoc; lia|]. split; [rewrite len_set; exact I2|]. split; [|split; [|split]].
        -- intros x Hx. destruct (Z.eq_dec x (Z.of_nat k)) as [->|Nx].
           ++ split; [intro; contradiction|]. intros r' Hr'. rewrite (Root_det _ _ _ Hr' _ Rk).
              split; [apply get_set_eq; exact Hkp|]. rewrite Hnew. exact Gi.
           ++ rewrite Hold by lia. rewrite get_set_neq by auto. apply I3. lia.
        -- intros x Hx. rewrite get_set_neq by lia. apply I4. lia.
        -- rewrite nroots_S. fold pt. destruct (Z.eqb_spec pt (Z.of_nat k)); [lia|]. lia.
        -- simpl. fold pt. destruct (Z.eqb_spec pt (-1)); [lia|]. reflexivity.
Qed.

Theorem dsuAssign_spec p0 dofnum : wf p0 ->
  exists isl p',
    dsuAssign p0 dofnum = Some (isl, p', nroots p0 (length p0), active_dofs p0 dofnum (length p0)) /\
    len isl = len p0 /\ len p' = len p0 /\
    (forall x, 0 <= x < len p0 -> get p0 x = -1 -> get p' x = -1 /\ get isl x = -1) /\
    (forall x r, Root p0 x r -> get p' x = r /\ get isl x = nroots p0 (Z.to_nat r)).
Proof.
  intro W. unfold dsuAssign.
  destruct (assign_loop_spec p0 dofnum W (length p0) 0 [] p0 0 0) as (isl & p' & E & I1 & I2 & I3 & _).
  { lia. }
  { split; [reflexivity|]. split; [reflexivity|]. split; [intros; lia|]. split; [reflexivity|].
    split; reflexivity. }
  exists isl, p'. split; [exact E|]. split; [exact I1|]. split; [exact I2|]. split.
  - intros x Hx. apply I3. exact Hx.
  - intros x r H. pose proof (Root_facts _ _ _ H). apply I3; [unfold len in *; lia| exact H].
Qed.

(* ---------- union phase + numbering: islands are the connectivity classes, numbered by least tree *)
Definition least (ms : list (Z * Z)) (a m : Z) : Prop := conn ms a m /\ forall b, conn ms a b -> m <= b.

Lemma nroots_nonneg p k : 0 <= nroots p k.
Proof. unfold nroots. lia. Qed.

Lemma nroots_onto p k : forall j, 0 <= j < nroots p k ->
  exists r, (r < k)%nat /\ get p (Z.of_nat r) = Z.of_nat r /\ nroots p r = j.
Proof.
  induction k as [|k IH]; intros j Hj.
  - unfold nroots in Hj. simpl in Hj. lia.
  - rewrite nroots_S in Hj. destruct (Z.eqb_spec (get p (Z.of_nat k)) (Z.of_nat k)) as [E|N].
    + destruct (Z.eq_dec j (nroots p k)) as [->|Nj].
      * exists k. split; [lia|]. split; [exact E| reflexivity].
      * destruct (IH j) as (r & H1 & H2 & H3); [lia|]. exists r. split; [lia|]. split; assumption.
    + destruct (IH j) as (r & H1 & H2 & H3); [lia|]. exists r. split; [lia|]. split; assumption.
Qed.

Theorem islands_spec n ms dofnum : Forall (admissible (Z.of_nat n)) ms ->
  exists p isl p' nisland nidof,
    merges (dsu_init n) ms = Some p /\ dsuAssign p dofnum = Some (isl, p', nisland, nidof) /\
    len isl = Z.of_nat n /\
    (forall t, 0 <= t < Z.of_nat n -> (get p t <> -1 <-> active ms t)) /\
    (forall t, 0 <= t < Z.of_nat n -> ~ active ms t -> get isl t = -1) /\
    (forall t, active ms t -> 0 <= get isl t < nisland) /\
    (forall a b, active ms a -> active ms b -> (get isl a = get isl b <-> conn ms a b)) /\
    (forall a b ma mb, least ms a ma -> least ms b mb -> ma < mb -> get isl a < get isl b) /\
    (forall j, 0 <= j < nisland -> exists t, active ms t /\ get isl t = j) /\
    nidof = active_dofs p dofnum n.
Proof.
  intro HF. destruct (merges_components n ms HF) as (p & Hm & W & L & A & Ex & Same & Least).
  destruct (dsuAssign_spec p dofnum W) as (isl & p' & Hd & L1 & L2 & Inact & Act).
  assert (Ln : length p = n) by (unfold len in L; lia).
  exists p, isl, p', (nroots p (length p)), (active_dofs p dofnum (length p)).
  split; [exact Hm|]. split; [exact Hd|]. split; [lia|]. split; [exact A|].
  assert (Mono : forall ra rb, Root p ra ra -> Root p rb rb -> ra < rb ->
                 nroots p (Z.to_nat ra) < nroots p (Z.to_nat rb)).
  { intros ra rb Ha Hb Hlt. pose proof (Root_facts _ _ _ Ha) as (? & ? & E & _).
    apply nroots_lt; [lia|]. rewrite Z2Nat.id by lia. exact E. }
  assert (Inj : forall ra rb, Root p ra ra -> Root p rb rb ->
                nroots p (Z.to_nat ra) = nroots p (Z.to_nat rb) -> ra = rb).
  { intros ra rb Ha Hb E. destruct (Z.lt_trichotomy ra rb) as [H|[H|H]]; [|exact H|].
    - pose proof (Mono _ _ Ha Hb H). lia.
    - pose proof (Mono _ _ Hb Ha H). lia. }
  split; [|split; [|split; [|split; [|split]]]].
  - intros t Ht Hna. apply Inact; [lia|].
    destruct (Z.eq_dec (get p t) (-1)) as [E|N]; [exact E|]. exfalso. apply Hna. apply A; assumption.
  - intros t Ht. destruct (Ex t Ht) as [r Hr]. destruct (Act _ _ Hr) as [_ ->].
    pose proof (Root_facts _ _ _ Hr) as (? & ? & E & _).
    split; [apply nroots_nonneg|]. apply nroots_lt; [unfold len in *; lia|].
    rewrite Z2Nat.id by lia. exact E.
  - intros a b Ha Hb. destruct (Ex a Ha) as [ra Hra]. destruct (Ex b Hb) as [rb Hrb].
    destruct (Act _ _ Hra) as [_ ->]. destruct (Act _ _ Hrb) as [_ ->].
    rewrite <- (Same a b ra rb Hra Hrb). split; [|intros ->; reflexivity].
    apply Inj; eapply Root_root; eassumption.
  - intros a b ma mb (Ca & La) (Cb & Lb) Hlt.
    destruct (conn_active _ _ _ Ca) as [Aa _]. destruct (conn_active _ _ _ Cb) as [Ab _].
    destruct (Ex a Aa) as [ra Hra]. destruct (Ex b Ab) as [rb Hrb].
    destruct (Least _ _ Hra) as (Cra & Lra). destruct (Least _ _ Hrb) as (Crb & Lrb).
    assert (ma = ra) by (pose proof (La _ Cra); pose proof (Lra _ Ca); lia).
    assert (mb = rb) by (pose proof (Lb _ Crb); pose proof (Lrb _ Cb); lia). subst.
    destruct (Act _ _ Hra) as [_ ->]. destruct (Act _ _ Hrb) as [_ ->].
    apply Mono; [eapply Root_root; eassumption| eapply Root_root; eassumption| exact Hlt].
  - intros j Hj. destruct (nroots_onto p (length p) j Hj) as (r & H1 & H2 & H3).
    assert (Rr : Root p (Z.of_nat r) (Z.of_nat r)) by (apply Root_base; [unfold len; lia| exact H2]).
    exists (Z.of_nat r). split.
    + apply A; [lia|]. apply (Root_facts _ _ _ Rr).
    + destruct (Act _ _ Rr) as [_ ->]. rewrite Nat2Z.id. exact H3.
  - rewrite Ln. reflexivity.
Qed.

(* ---------- unionConstraintTrees on per-row tree lists *)
Lemma active_incl ms ms' t : incl ms ms' -> active ms t -> active ms' t.
Proof. intros I (e & Hin & H). exists e. split; [apply I; exact Hin| exact H]. Qed.

Lemma conn_incl ms ms' a b : incl ms ms' -> conn ms a b -> conn ms' a b.
Proof.
  intros I. induction 1.
  - apply conn_refl. eapply active_incl; eassumption.
  - apply conn_edge. apply I. assumption.
  - apply conn_sym. assumption.
  - eapply conn_trans; eassumption.
Qed.

Lemma ends_nonneg a b : a <> -1 -> b <> -1 -> end1 (a, b) = a /\ end2 (a, b) = b.
Proof.
  intros Ha Hb. unfold end2, end1. simpl.
  destruct (Z.eqb_spec a (-1)); [contradiction|]. destruct (Z.eqb_spec b (-1)); [contradiction|]. auto.
Qed.

Lemma chain_spec n r : forall t1, 0 <= t1 < n -> Forall (fun t => 0 <= t < n) r ->
  Forall (admissible n) (chain t1 r) /\
  forall t, In t r -> conn (chain t1 r) t1 t.
Proof.
  induction r as [|t2 r IH]; intros t1 H1 HF; simpl.
  - split; [constructor| intros t []].
  - inversion HF as [|? ? H2 HF']; subst.
    destruct (IH t2 H2 HF') as (A & C).
    destruct (ends_nonneg t1 t2 ltac:(lia) ltac:(lia)) as (E1 & E2).
    assert (Edge : conn ((t1, t2) :: chain t2 r) t1 t2).
    { pose proof (conn_edge ((t1, t2) :: chain t2 r) (t1, t2) (or_introl eq_refl)) as X.
      rewrite E1, E2 in X. exact X. }
    split.
    + constructor; [|exact A]. unfold admissible. simpl. lia.
    + intros t [<-|Hin]; [exact Edge|].
      eapply conn_trans; [exact Edge|]. eapply conn_incl; [|apply C; exact Hin].
      intros e He. right. exact He.
Qed.

Lemma row_local n ts : row_ok n ts ->
  Forall (admissible n) (row_merges ts) /\ 0 <= row_tree ts < n /\ active (row_merges ts) (row_tree ts) /\
  forall t, In t ts -> 0 <= t -> conn (row_merges ts) (row_tree ts) t.
Proof.
  destruct ts as [|t1 [|t2 [|t3 r]]]; simpl; intro H.
  - contradiction.
  - assert (E : end1 (t1, -1) = t1 /\ end2 (t1, -1) = t1).
    { unfold end2, end1. simpl. destruct (Z.eqb_spec t1 (-1)); [lia|]. auto. }
    assert (A : active [(t1, -1)] t1).
    { exists (t1, -1). split; [left; reflexivity| left; symmetry; apply E]. }
    split; [constructor; [unfold admissible; simpl; lia| constructor]|]. split; [exact H|]. split; [exact A|].
    intros t [<-|[]] _. apply conn_refl. exact A.
  - pose proof (admissible_ends n (t1, t2) H) as (R1 & R2).
    assert (In1 : In (t1, t2) [(t1, t2)]) by (left; reflexivity).
    split; [constructor; [exact H| constructor]|].
    unfold admissible in H. simpl in H.
    destruct (Z.leb_spec 0 t1) as [H0|H0].
    + assert (E1 : end1 (t1, t2) = t1) by (unfold end1; simpl; destruct (Z.eqb_spec t1 (-1)); lia).
      assert (A : active [(t1, t2)] t1) by (exists (t1, t2); split; [exact In1| left; symmetry; exact E1]).
      split; [lia|]. split; [exact A|].
      intros t [<-|[<-|[]]] Ht; [apply conn_refl; exact A|].
      assert (E2 : end2 (t1, t2) = t2) by (unfold end2; simpl; destruct (Z.eqb_spec t2 (-1)); lia).
      pose proof (conn_edge [(t1, t2)] (t1, t2) In1) as X. rewrite E1, E2 in X. exact X.
    + assert (t1 = -1) by lia. subst t1.
      assert (E2 : end2 (-1, t2) = t2) by (unfold end2, end1; simpl; destruct (Z.eqb_spec t2 (-1)); lia).
      assert (A : active [(-1, t2)] t2) by (exists (-1, t2); split; [exact In1| right; symmetry; exact E2]).
      split; [lia|]. split; [exact A|].
      intros t [<-|[<-|[]]] Ht; [lia|]. apply conn_refl. exact A.
  - inversion H as [|? ? H1 HF]; subst.
    destruct (chain_spec n (t2 :: t3 :: r) t1 H1 HF) as (A & C).
    split; [exact A|]. destruct (Z.leb_spec 0 t1); [|lia]. split; [exact H1|].
    assert (Act : active (chain t1 (t2 :: t3 :: r)) t1).
    { apply (conn_active _ t1 t2). apply C. left. reflexivity. }
    split; [exact Act|].
    intros t [<-|Hin] _; [apply conn_refl; exact Act| apply C; exact Hin].
Qed.

Theorem rows_spec n rows : Forall (row_ok n) rows ->
  let ms := concat (map row_merges rows) in
  Forall (admissible n) ms /\
  forall ts, In ts rows ->
    0 <= row_tree ts < n /\ active ms (row_tree ts) /\
    forall t, In t ts -> 0 <= t -> conn ms (row_tree ts) t.
Proof.
  intros HF ms. split.
  - unfold ms. rewrite Forall_forall in *. intros e He. apply in_concat in He.
    destruct He as (l & Hl & He). apply in_map_iff in Hl. destruct Hl as (ts & <- & Hts).
    destruct (row_local n ts (HF ts Hts)) as (A & _). rewrite Forall_forall in A. apply A. exact He.
  - intros ts Hts. rewrite Forall_forall in HF.
    destruct (row_local n ts (HF ts Hts)) as (_ & R & A & C).
    assert (I : incl (row_merges ts) ms).
    { intros e He. unfold ms. apply in_concat. exists (row_merges ts). split; [|exact He].
      apply in_map. exact Hts. }
    split; [exact R|]. split; [eapply active_incl; eassumption|].
    intros t Ht H0. eapply conn_incl; [exact I| apply C; assumption].
Qed.

(* every constraint row lies in the island of each of its (dynamic) trees *)
Theorem rows_islands (n : nat) rows dofnum : Forall (row_ok (Z.of_nat n)) rows ->
  exists p isl p' nisland nidof,
    merges (dsu_init n) (concat (map row_merges rows)) = Some p /\
    dsuAssign p dofnum = Some (isl, p', nisland, nidof) /\
    forall ts, In ts rows ->
      0 <= row_tree ts < Z.of_nat n /\ 0 <= get isl (row_tree ts) < nisland /\
      forall t, In t ts -> 0 <= t -> get isl t = get isl (row_tree ts).
Proof.
  intro HF. destruct (rows_spec _ rows HF) as (Adm & Rows).
  destruct (islands_spec n _ dofnum Adm) as (p & isl & p' & ni & nd & Hm & Hd & _ & _ & _ & Rng & Same & _).
  exists p, isl, p', ni, nd. split; [exact Hm|]. split; [exact Hd|].
  intros ts Hts. destruct (Rows ts Hts) as (R & A & C).
  split; [exact R|]. split; [apply Rng; exact A|].
  intros t Ht H0. pose proof (C t Ht H0) as Hc. destruct (conn_active _ _ _ Hc) as [_ At].
  symmetry. apply Same; assumption.
Qed.
