(* Proofs about Model/Deriv.v (C25). *)
From Coq Require Import ZArith List PrimFloat Reals Lra Lia Psatz Bool.
From MJV Require Import Lib.Num Lib.NumR Model.StateAPI Model.Deriv Proof.StateAPIProof Props.C26.
Import ListNotations.

(* ================================================================== 1. linear terms (over R) *)
Open Scope R_scope.

Definition vadd (v w : list R) : list R := map (fun p => fst p + snd p) (combine v w).
Definition vsub (v w : list R) : list R := map (fun p => fst p - snd p) (combine v w).
Definition allzero (poly : list R) : Prop := Forall (fun p : R => p = 0) poly.

Lemma ndot_fold (J : list R) : forall (v : list R) (s : R),
  fold_left (fun (s : R) (p : R * R) => s + fst p * snd p) (combine J v) s =
  s + fold_left (fun (s : R) (p : R * R) => s + fst p * snd p) (combine J v) 0.
Proof.
  induction J as [|j r IH]; intros v s; simpl; [lra|].
  destruct v as [|x v]; simpl; [lra|].
  rewrite IH. rewrite (IH v (0 + j * x)). lra.
Qed.

Lemma ndot_R (J v : list R) :
  ndot J v = fold_left (fun (s : R) (p : R * R) => s + fst p * snd p) (combine J v) 0.
Proof. unfold ndot. num_R. reflexivity. Qed.

Lemma ndot_cons (j x : R) (J v : list R) : ndot (j :: J) (x :: v) = j * x + ndot J v.
Proof. rewrite !ndot_R. simpl. rewrite ndot_fold. lra. Qed.
Lemma ndot_nil_l (v : list R) : ndot [] v = 0.
Proof. rewrite ndot_R. reflexivity. Qed.
Lemma ndot_nil_r (J : list R) : ndot J [] = 0.
Proof. rewrite ndot_R. destruct J; reflexivity. Qed.

Lemma ndot_add (J : list R) : forall v w : list R, length v = length w ->
  ndot J (vadd v w) = ndot J v + ndot J w.
Proof.
  induction J as [|j r IH]; intros v w L.
  - rewrite !ndot_nil_l. lra.
  - destruct v as [|x v]; destruct w as [|y w]; simpl in L; try discriminate.
    + unfold vadd. simpl. rewrite !ndot_nil_r. lra.
    + unfold vadd. simpl. fold (vadd v w). rewrite !ndot_cons. rewrite IH by lia. lra.
Qed.

Lemma ndot_scale (c : R) (J : list R) : forall w : list R, ndot (map (fun Jp : R => c * Jp) J) w = c * ndot J w.
Proof.
  induction J as [|j r IH]; intros w; simpl.
  - rewrite !ndot_nil_l. lra.
  - destruct w as [|y w]; [rewrite !ndot_nil_r; lra|]. rewrite !ndot_cons, IH. lra.
Qed.

Lemma vsub_map (f g : R -> R) (J : list R) : vsub (map f J) (map g J) = map (fun Jk : R => f Jk - g Jk) J.
Proof. unfold vsub. induction J as [|j r IH]; simpl; [reflexivity|]. rewrite IH. reflexivity. Qed.

Lemma poly_loop_zero (poly : list R) : allzero poly -> forall x xpow res : R, poly_loop poly x xpow res = res.
Proof.
  induction 1 as [|p r P0 _ IH]; intros x xpow res; simpl; [reflexivity|].
  rewrite IH. subst p. num_R. lra.
Qed.
Lemma dpoly_loop_zero (poly : list R) : allzero poly -> forall (x xpow res : R) (k : Z), dpoly_loop poly x xpow res k = res.
Proof.
  induction 1 as [|p r P0 _ IH]; intros x xpow res k; simpl; [reflexivity|].
  rewrite IH. subst p. num_R. lra.
Qed.

(* linear damping: the force is -b v and the slope added to qDeriv is -b *)
Lemma damper_linear (b : R) (poly : list R) : allzero poly ->
  (forall v : R, damper_force b poly v = - b * v) /\ (forall v : R, damper_slope b poly v = - b).
Proof.
  intros Z0. split; intros v.
  - unfold damper_force, polyForce. rewrite poly_loop_zero by exact Z0. num_R. lra.
  - unfold damper_slope, xPolyForce. rewrite dpoly_loop_zero by exact Z0. num_R. reflexivity.
Qed.

Lemma mulMatVec_jtbj (J : list R) (B : R) (w : list R) :
  mulMatVec (jtbj J B) w = map (fun Jk : R => Jk * (B * ndot J w)) J.
Proof.
  unfold mulMatVec, jtbj. rewrite map_map. apply map_ext. intros Jk.
  num_R. rewrite (ndot_scale (Jk * B) J w). lra.
Qed.

(* dof damping (diagonal), tendon damping and affine actuators: exact secant = analytic slope *)
Lemma linear_terms :
  (forall (b : R) (poly : list R) (v h : R), allzero poly ->
     damper_force b poly (v + h) - damper_force b poly v = damper_slope b poly v * h) /\
  (forall (J : list R) (b : R) (poly : list R) (v w : list R), allzero poly -> length v = length w ->
     vsub (tendon_damper_qfrc J b poly (vadd v w)) (tendon_damper_qfrc J b poly v) =
     mulMatVec (jtbj J (damper_slope b poly (trn_vel J v))) w) /\
  (forall (J : list R) (g b : R * R * R) (input len : R) (v w : list R), length v = length w ->
     vsub (act_qfrc J g b input len (vadd v w)) (act_qfrc J g b input len v) =
     mulMatVec (jtbj J (act_slope g b input)) w).
Proof.
  split; [|split].
  - intros b poly v h Z0. destruct (damper_linear b poly Z0) as [Hf Hs]. rewrite !Hf, Hs. lra.
  - intros J b poly v w Z0 L. destruct (damper_linear b poly Z0) as [Hf Hs].
    unfold tendon_damper_qfrc, trn_frc, trn_vel. rewrite vsub_map, mulMatVec_jtbj, Hs, !Hf.
    rewrite ndot_add by exact L. apply map_ext. intros Jk. num_R. lra.
  - intros J [[g0 g1] g2] [[b0 b1] b2] input len v w L.
    unfold act_qfrc, trn_frc, trn_vel, act_force, act_slope. rewrite vsub_map, mulMatVec_jtbj.
    rewrite ndot_add by exact L. apply map_ext. intros Jk. num_R. lra.
Qed.

(* ---- clamped differences (over R): exact slope of affine outputs, whichever directions are allowed *)
Lemma fd_aff (a : list R) : forall (c0 : list R) (u1 u2 h : R), h <> 0 -> length a = length c0 -> u2 - u1 = h ->
  fd_diff (aff a c0 u1) (aff a c0 u2) h = a.
Proof.
  induction a as [|ai r IH]; intros c0 u1 u2 h Hh L E; destruct c0 as [|ci c0]; simpl in L; try discriminate; [reflexivity|].
  unfold fd_diff, aff in *. simpl. f_equal.
  - num_R. replace (ai * u2 + ci - (ai * u1 + ci)) with (ai * h) by (rewrite <- E; ring). field. exact Hh.
  - apply IH; [exact Hh | lia | exact E].
Qed.

Lemma zeros_aff (a c0 : list R) (u : R) : length a = length c0 ->
  map (fun _ : R => nzero (T:=R)) (aff a c0 u) = map (fun _ : R => 0) a.
Proof.
  revert c0. induction a as [|ai r IH]; intros c0 L; destruct c0 as [|ci c0]; simpl in L; try discriminate; [reflexivity|].
  unfold aff in *. simpl. f_equal. apply IH. lia.
Qed.

Lemma clampedDiff_affine (a c0 : list R) (u h : R) : 0 < h -> length a = length c0 ->
  clampedDiff (aff a c0 u) (Some (aff a c0 (u + h))) None h = a /\
  clampedDiff (aff a c0 u) None (Some (aff a c0 (u - h))) h = a /\
  clampedDiff (aff a c0 u) (Some (aff a c0 (u + h))) (Some (aff a c0 (u - h))) h = a /\
  clampedDiff (aff a c0 u) None None h = map (fun _ : R => 0) a.
Proof.
  intros Hh L. unfold clampedDiff. repeat split.
  - apply fd_aff; [lra | exact L | ring].
  - apply fd_aff; [lra | exact L | ring].
  - apply fd_aff; [unfold ntwo; num_R; lra | exact L | unfold ntwo; num_R; ring].
  - apply zeros_aff. exact L.
Qed.

Lemma inRange_true (x1 x2 lo hi : R) : inRange x1 x2 lo hi = true <-> lo <= x1 <= hi /\ lo <= x2 <= hi.
Proof.
  unfold inRange. num_R. rewrite !andb_true_iff, !Rleb_true. tauto.
Qed.

Lemma clipc_inside (x lo hi : R) : lo <= x <= hi -> clipc x lo hi = x.
Proof.
  intros [A B]. unfold clipc. num_R.
  destruct (Rltb x lo) eqn:E1; [apply Rltb_true in E1; lra|].
  destruct (Rltb hi x) eqn:E2; [apply Rltb_true in E2; lra|]. reflexivity.
Qed.

(* the control loop of mjd_stepFD on an output that is affine in the (clamped) control: the row is the exact
   slope whenever at least one nudge is allowed and zero otherwise; nudged evaluations never leave the range *)
Lemma ctrl_column_affine (a c0 : list R) (limited centered : bool) (c eps lo hi : R) :
  0 < eps -> length a = length c0 ->
  ctrl_column limited centered c eps lo hi (gclip limited lo hi a c0) =
    (if nudge_fwd limited c eps lo hi || nudge_back limited centered c eps lo hi then a else map (fun _ : R => 0) a) /\
  (limited = true -> nudge_fwd limited c eps lo hi = true -> lo <= c <= hi /\ lo <= c + eps <= hi) /\
  (limited = true -> nudge_back limited centered c eps lo hi = true -> lo <= c - eps <= hi /\ lo <= c <= hi).
Proof.
  intros He L.
  assert (Bf : limited = true -> nudge_fwd limited c eps lo hi = true -> lo <= c <= hi /\ lo <= c + eps <= hi).
  { intros -> F. unfold nudge_fwd in F. simpl in F. num_R. apply inRange_true in F. exact F. }
  assert (Bb : limited = true -> nudge_back limited centered c eps lo hi = true -> lo <= c - eps <= hi /\ lo <= c <= hi).
  { intros -> B. unfold nudge_back in B. apply andb_true_iff in B. destruct B as [_ B]. simpl in B. num_R. apply inRange_true in B. exact B. }
  split; [|split; assumption].
  destruct (clampedDiff_affine a c0 c eps He L) as [F1 [F2 [F3 F4]]].
  unfold ctrl_column.
  assert (G0 : (nudge_fwd limited c eps lo hi || nudge_back limited centered c eps lo hi) = true -> gclip limited lo hi a c0 c = aff a c0 c).
  { intros O. unfold gclip. destruct limited; [|reflexivity]. rewrite clipc_inside; [reflexivity|].
    apply orb_true_iff in O. destruct O as [O|O]; [destruct (Bf eq_refl O) | destruct (Bb eq_refl O)]; lra. }
  assert (Gp : nudge_fwd limited c eps lo hi = true -> gclip limited lo hi a c0 (c + eps) = aff a c0 (c + eps)).
  { intros O. unfold gclip. destruct limited; [|reflexivity]. rewrite clipc_inside; [reflexivity|]. destruct (Bf eq_refl O); lra. }
  assert (Gm : nudge_back limited centered c eps lo hi = true -> gclip limited lo hi a c0 (c - eps) = aff a c0 (c - eps)).
  { intros O. unfold gclip. destruct limited; [|reflexivity]. rewrite clipc_inside; [reflexivity|]. destruct (Bb eq_refl O); lra. }
  num_R.
  destruct (nudge_fwd limited c eps lo hi) eqn:EF; destruct (nudge_back limited centered c eps lo hi) eqn:EB; simpl orb; cbv iota.
  - rewrite G0, Gp, Gm by reflexivity. exact F3.
  - rewrite G0, Gp by reflexivity. exact F1.
  - rewrite G0, Gm by reflexivity. exact F2.
  - unfold clampedDiff, gclip. apply zeros_aff. exact L.
Qed.

(* polynomial damping, away from v = 0 on the positive side: the loops compute
   P(x) = b + sum p_i x^(i+1) and b + sum (i+2) p_i x^(i+1), and the second is the derivative of
   x P(x) in the sense of the exact second-order expansion below (coefficient-wise product rule) *)
Fixpoint polyP (poly : list R) (x xpow : R) : R :=
  match poly with [] => 0 | p :: r => p * (xpow * x) + polyP r x (xpow * x) end.
Fixpoint polyD (poly : list R) (x xpow : R) (k : Z) : R :=
  match poly with [] => 0 | p :: r => IZR k * p * (xpow * x) + polyD r x (xpow * x) (k + 1)%Z end.
Lemma poly_loop_spec (poly : list R) : forall x xpow res : R, poly_loop poly x xpow res = res + polyP poly x xpow.
Proof. induction poly as [|p r IH]; intros; simpl; [lra|]. rewrite IH. num_R. lra. Qed.
Lemma dpoly_loop_spec (poly : list R) : forall (x xpow res : R) (k : Z), dpoly_loop poly x xpow res k = res + polyD poly x xpow k.
Proof. induction poly as [|p r IH]; intros; simpl; [lra|]. rewrite IH. num_R. lra. Qed.

Close Scope R_scope.

(* ================================================================== 2. finite-difference skeletons *)
Section FDProofs.
  Variable V : Type.
  Variable toBool : V -> V.
  Variable F : Type.
  Variable feqb : F -> F -> bool.
  Hypothesis feqb_spec : forall a b : F, feqb a b = true <-> a = b.
  Variable n : nat.
  Variable elems : nat -> option (elem F).
  Hypothesis Hinj : fields_injective F elems.

  Notation wf := (wf V toBool F elems).
  Notation mjdata := (mjdata V F).

  Definition restored (spec : Z) (d0 d1 : mjdata) : Prop :=
    forall (i : nat) (e : elem F), In i (bits n spec) -> elems i = Some e -> d1 (e_field e) = d0 (e_field e).

  Lemma wf_after_set (spec : Z) (d d' d'' : mjdata) :
    wf d -> wf d' -> restored spec d d'' ->
    (forall f : F, (forall (i : nat) (e : elem F), In i (bits n spec) -> elems i = Some e -> e_field e <> f) -> d'' f = d' f) ->
    wf d''.
  Proof.
    intros W W' R1 R2 j ej Hj.
    destruct (in_dec Nat.eq_dec j (bits n spec)) as [I|NI].
    - rewrite (R1 j ej I Hj). exact (W j ej Hj).
    - rewrite R2; [exact (W' j ej Hj)|].
      intros i e Ii He Heq. apply NI. rewrite <- (Hinj i j e ej He Hj Heq). exact Ii.
  Qed.

  Lemma fd_loop_restores (spec : Z) (d0 : mjdata) (full : list V) :
    wf d0 -> getState V F n elems d0 spec = Some full ->
    forall (evals : list (mjdata -> mjdata)) (d : mjdata),
      Forall (fun ev : mjdata -> mjdata => forall x : mjdata, wf x -> wf (ev x)) evals ->
      wf d -> restored spec d0 d ->
      exists d' : mjdata, fd_loop V toBool F feqb n elems full spec evals d = Some d' /\ wf d' /\ restored spec d0 d'.
  Proof.
    intros W0 G evals. induction evals as [|ev r IH]; intros d Hev W R0.
    - exists d. simpl. auto.
    - inversion Hev as [|? ? Hev1 Hevr]; subst. simpl.
      destruct (C26_set_get V toBool F feqb feqb_spec n elems Hinj d0 (ev d) spec full W0 (Hev1 d W) G) as [d'' [S [R1 R2]]].
      rewrite S. apply IH; [exact Hevr | | exact R1].
      exact (wf_after_set spec d0 (ev d) d'' W0 (Hev1 d W) R1 R2).
  Qed.

  (* mjd_stepFD (hence mjd_transitionFD): whatever the evaluations do to mjData (as long as they keep the
     array sizes), no state-API error occurs and every component of the restore signature ends with its
     initial contents; with no perturbation requested the un-nudged step is still undone *)
  Lemma stepFD_restores (spec : Z) (first : mjdata -> mjdata) (evals : list (mjdata -> mjdata)) (d : mjdata) :
    wf d -> (exists es : list (nat * elem F), resolve F n elems spec = Some es) ->
    (forall x : mjdata, wf x -> wf (first x)) ->
    Forall (fun ev : mjdata -> mjdata => forall x : mjdata, wf x -> wf (ev x)) evals ->
    exists d' : mjdata, stepFD V toBool F feqb n elems spec first evals d = Some d' /\ wf d' /\ restored spec d d'.
  Proof.
    intros W [es E] Hf Hev. unfold stepFD.
    assert (G : getState V F n elems d spec = Some (getE V F d es)) by (unfold getState; rewrite E; reflexivity).
    rewrite G. apply (fd_loop_restores spec d _ W G (first :: evals) d); [constructor; assumption | exact W |].
    intros i e _ _. reflexivity.
  Qed.

  (* ---- mjd_inverseFD *)
  Lemma set_nth_restore (l : list V) : forall (i : nat) (t y : V), nth_error l i = Some t -> set_nth V i (set_nth V i l y) t = l.
  Proof.
    induction l as [|x r IH]; intros i t y E; destruct i; simpl in *; try discriminate.
    - inversion E. reflexivity.
    - rewrite IH by exact E. reflexivity.
  Qed.

  Definition nudge_field (p : nudge V F) : F := match p with NudgeEntry _ _ f _ _ => f | NudgeField _ _ f _ => f end.

  Lemma inv_eval_keeps (inputs : list F) (call : mjdata -> mjdata) :
    (forall (x : mjdata) (f : F), In f inputs -> call x f = x f) ->
    forall (d : mjdata) (p : nudge V F) (f0 : F), In (nudge_field p) inputs -> In f0 inputs ->
      inv_eval V F feqb call d p f0 = d f0.
  Proof.
    intros Hc d p f0 Hp H0. destruct p as [f i nv|f nv]; simpl in *.
    - destruct (nth_error (d f) i) as [t|] eqn:E; [|reflexivity].
      destruct (feqb f0 f) eqn:Q.
      + apply feqb_spec in Q. subst f0. rewrite (upd_same V F feqb feqb_spec).
        rewrite (Hc _ f Hp), (upd_same V F feqb feqb_spec). apply set_nth_restore. exact E.
      + assert (Ne : f0 <> f) by (intro X; apply feqb_spec in X; congruence).
        rewrite (upd_other V F feqb feqb_spec) by exact Ne.
        rewrite (Hc _ f0 H0). rewrite (upd_other V F feqb feqb_spec) by exact Ne. reflexivity.
    - destruct (feqb f0 f) eqn:Q.
      + apply feqb_spec in Q. subst f0. rewrite (upd_same V F feqb feqb_spec). reflexivity.
      + assert (Ne : f0 <> f) by (intro X; apply feqb_spec in X; congruence).
        rewrite (upd_other V F feqb feqb_spec) by exact Ne.
        rewrite (Hc _ f0 H0). rewrite (upd_other V F feqb feqb_spec) by exact Ne. reflexivity.
  Qed.

  Lemma inverseFD_restores (inputs : list F) (call : mjdata -> mjdata) (ps : list (nudge V F)) (d : mjdata) :
    (forall (x : mjdata) (f : F), In f inputs -> call x f = x f) ->
    Forall (fun p : nudge V F => In (nudge_field p) inputs) ps ->
    forall f0 : F, In f0 inputs -> inverseFD V F feqb call ps d f0 = d f0.
  Proof.
    intros Hc Hps f0 H0. unfold inverseFD.
    assert (Gen : forall (l : list (nudge V F)) (x : mjdata), Forall (fun p : nudge V F => In (nudge_field p) inputs) l ->
              fold_left (inv_eval V F feqb call) l x f0 = x f0).
    { induction l as [|p r IH]; intros x Hl; simpl; [reflexivity|].
      inversion Hl; subst. rewrite IH by assumption. apply (inv_eval_keeps inputs call Hc); assumption. }
    rewrite Gen by exact Hps. apply Hc. exact H0.
  Qed.
End FDProofs.

(* ---- the signature mjd_stepFD restores, on the table of the working tree: no state-API error for any model *)
Lemma restore_spec_resolves (env : String.string -> Z) (spec : Z) :
  (0 <= spec < 2 ^ Z.of_nat (Z.to_nat (t_nstate gen_tables)))%Z ->
  exists es : list (nat * elem String.string),
    resolve String.string (Z.to_nat (t_nstate gen_tables)) (elems_of gen_tables env) spec = Some es.
Proof.
  intros B. destruct (C26_generated_table env) as [AV _].
  apply (StateAPIProof.resolve_total String.string _ _ AV).
  unfold valid_sig. apply andb_true_intro. split; [apply Z.leb_le | apply Z.ltb_lt]; lia.
Qed.

(* ---- the fields mjd_stepFD restores, by name, on the table of the working tree (8287 = mjSTATE_FULLPHYSICS | mjSTATE_CTRL,
   8319 = the same with mjSTATE_WARMSTART; the driver checks these values against the header) *)
Section Named.
Import String.
Lemma named_fields (V : Type) (env : String.string -> Z) (spec : Z) (d d' : mjdata V String.string) :
  (spec = 8287 \/ spec = 8319)%Z ->
  restored V String.string (Z.to_nat (t_nstate gen_tables)) (elems_of gen_tables env) spec d d' ->
  d' "time"%string = d "time"%string /\ d' "qpos"%string = d "qpos"%string /\ d' "qvel"%string = d "qvel"%string /\
  d' "act"%string = d "act"%string /\ d' "ctrl"%string = d "ctrl"%string /\ d' "plugin_state"%string = d "plugin_state"%string /\
  (spec = 8319%Z -> d' "qacc_warmstart"%string = d "qacc_warmstart"%string).
Proof.
  intros S R.
  assert (H : forall (i : nat) (f : String.string) (sz : nat) (b : bool),
            In i (bits (Z.to_nat (t_nstate gen_tables)) spec) -> elems_of gen_tables env i = Some (mkElem f sz b) -> d' f = d f).
  { intros i f sz b Hi He. exact (R i (mkElem f sz b) Hi He). }
  repeat split.
  - eapply (H 0%nat); [| vm_compute; reflexivity]; destruct S; subst; vm_compute; tauto.
  - eapply (H 1%nat); [| vm_compute; reflexivity]; destruct S; subst; vm_compute; tauto.
  - eapply (H 2%nat); [| vm_compute; reflexivity]; destruct S; subst; vm_compute; tauto.
  - eapply (H 3%nat); [| vm_compute; reflexivity]; destruct S; subst; vm_compute; tauto.
  - eapply (H 6%nat); [| vm_compute; reflexivity]; destruct S; subst; vm_compute; tauto.
  - eapply (H 13%nat); [| vm_compute; reflexivity]; destruct S; subst; vm_compute; tauto.
  - intros ->. eapply (H 5%nat); [| vm_compute; reflexivity]; vm_compute; tauto.
Qed.

Lemma stepFD_restores_mjdata (V : Type) (toBool : V -> V) (env : String.string -> Z) (spec : Z)
      (first : mjdata V String.string -> mjdata V String.string) (evals : list (mjdata V String.string -> mjdata V String.string))
      (d : mjdata V String.string) :
  (spec = 8287 \/ spec = 8319)%Z ->
  wf V toBool String.string (elems_of gen_tables env) d ->
  (forall x : mjdata V String.string, wf V toBool String.string (elems_of gen_tables env) x -> wf V toBool String.string (elems_of gen_tables env) (first x)) ->
  Forall (fun ev : mjdata V String.string -> mjdata V String.string =>
            forall x : mjdata V String.string, wf V toBool String.string (elems_of gen_tables env) x -> wf V toBool String.string (elems_of gen_tables env) (ev x)) evals ->
  exists d' : mjdata V String.string,
    stepFD V toBool String.string String.eqb (Z.to_nat (t_nstate gen_tables)) (elems_of gen_tables env) spec first evals d = Some d' /\
    d' "time"%string = d "time"%string /\ d' "qpos"%string = d "qpos"%string /\ d' "qvel"%string = d "qvel"%string /\
    d' "act"%string = d "act"%string /\ d' "ctrl"%string = d "ctrl"%string /\ d' "plugin_state"%string = d "plugin_state"%string /\
    (spec = 8319%Z -> d' "qacc_warmstart"%string = d "qacc_warmstart"%string).
Proof.
  intros S W Hf Hev.
  destruct (C26_generated_table env) as [_ [Inj _]].
  assert (B : (0 <= spec < 2 ^ Z.of_nat (Z.to_nat (t_nstate gen_tables)))%Z) by (destruct S; subst; vm_compute; split; congruence).
  destruct (stepFD_restores V toBool String.string String.eqb String.eqb_eq (Z.to_nat (t_nstate gen_tables)) (elems_of gen_tables env) Inj
              spec first evals d W (restore_spec_resolves env spec B) Hf Hev) as [d' [E [_ R]]].
  exists d'. split; [exact E|]. exact (named_fields V env spec d d' S R).
Qed.
End Named.

(* non-vacuity of the numeric statements *)
Open Scope R_scope.
Lemma linear_example :
  act_slope (T:=R) (1, 2, 3) (4, 5, 6) 2 = 12 /\ damper_slope (T:=R) 3 [0; 0] 7 = -3 /\
  damper_slope (T:=R) 3 [1; 0] 2 = -7.
Proof.
  unfold act_slope, damper_slope, xPolyForce. simpl. num_R. unfold Rabs.
  repeat split; try lra. destruct (Rcase_abs 2); lra.
Qed.
