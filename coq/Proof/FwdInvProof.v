(* Proofs for Props/C09.v: forward / inverse dynamics identities (pure algebra over finite sums). *)
From Coq Require Import ZArith List Bool Reals Lra Lia Classical.
From MJV Require Import Lib.Num Lib.NumR Model.SolverSpec Model.FwdInv Proof.SolverProof.
Open Scope R_scope.

(* qfrc_inverse(a) - applied = residual of the forward equation at a, for EVERY a *)
Lemma inverse_minus_applied (n m : nat) (M J : mat) (aref : vec) (f : vec -> vec)
                            (passive bias applied actuator xfrcq a : vec) (i : nat) :
  qfrc_inverse n m M J aref f passive bias a i - applied_total applied actuator xfrcq i =
  forward_residual n m M J aref f (qfrc_smooth passive bias applied actuator xfrcq) a i.
Proof. unfold qfrc_inverse, applied_total, forward_residual, qfrc_smooth, inverse_row, smooth_row. num_R. ring. Qed.

Lemma fwdinv_identity (n m : nat) (M J : mat) (aref : vec) (f : vec -> vec)
                      (passive bias applied actuator xfrcq a : vec) :
  forward_solution n m M J aref f (qfrc_smooth passive bias applied actuator xfrcq) a <->
  eqn n (qfrc_inverse n m M J aref f passive bias a) (applied_total applied actuator xfrcq).
Proof.
  unfold forward_solution. split; intros H i Hi.
  - pose proof (inverse_minus_applied n m M J aref f passive bias applied actuator xfrcq a i) as E.
    rewrite (H i Hi) in E. unfold vzero in E. lra.
  - pose proof (inverse_minus_applied n m M J aref f passive bias applied actuator xfrcq a i) as E.
    rewrite (H i Hi) in E. unfold vzero. lra.
Qed.

(* a positive-definite M is injective on the first n entries *)
Lemma posdef_injective (n : nat) (M : mat) (x y : vec) :
  posdef n M -> eqn n (mulMV n M x) (mulMV n M y) -> eqn n x y.
Proof.
  intros Mpd E.
  destruct (classic (eqn n (vsub x y) vzero)) as [Z|Z].
  - intros i Hi. specialize (Z i Hi). unfold vsub, vzero in Z. lra.
  - exfalso. pose proof (Mpd _ Z) as P.
    assert (bil n M (vsub x y) (vsub x y) = 0).
    { unfold bil, dotn. rewrite (sumn_ext n _ (fun _ => 0)); [apply sumn_zero|].
      intros i Hi. rewrite mulMV_sub. rewrite (E i Hi). ring. }
    lra.
Qed.

(* the quantities of inverse dynamics depend on the first n entries of the acceleration only *)
Lemma efc_force_ext (n : nat) (J : mat) (aref : vec) (f : vec -> vec) (a b : vec) :
  pointwise f -> eqn n a b -> forall r : nat, efc_force_at n J aref f a r = efc_force_at n J aref f b r.
Proof.
  intros Pf E r. unfold efc_force_at. apply Pf. intros i. unfold vsub. rewrite (mulMV_ext n J a b E i). reflexivity.
Qed.

Lemma qfrc_inverse_ext (n m : nat) (M J : mat) (aref : vec) (f : vec -> vec) (passive bias a b : vec) :
  pointwise f -> eqn n a b -> forall i : nat, qfrc_inverse n m M J aref f passive bias a i = qfrc_inverse n m M J aref f passive bias b i.
Proof.
  intros Pf E i. unfold qfrc_inverse, qfrc_constraint_at, mulMTV.
  rewrite (mulMV_ext n M a b E i).
  rewrite (sumn_ext m (fun r => J r i * efc_force_at n J aref f a r) (fun r => J r i * efc_force_at n J aref f b r)).
  - reflexivity.
  - intros r _. rewrite (efc_force_ext n J aref f a b Pf E r). reflexivity.
Qed.

(* discrete-time inverse dynamics: the integrator produced a_d from the continuous solution a_c by
   A a_d = qfrc_smooth + qfrc_constraint(a_c) (= M a_c); mj_discreteAcc computes qfrc = A a_d and solves M a' = qfrc.
   Then a' = a_c, the inverse at a' returns the applied forces and the same constraint forces. *)
Lemma discrete_identity (n m : nat) (M A J : mat) (aref : vec) (f : vec -> vec)
                        (passive bias applied actuator xfrcq ac ad a' : vec) :
  posdef n M -> pointwise f ->
  forward_solution n m M J aref f (qfrc_smooth passive bias applied actuator xfrcq) ac ->
  (forall i : nat, (i < n)%nat ->
     mulMV n A ad i = qfrc_smooth passive bias applied actuator xfrcq i + qfrc_constraint_at n m J aref f ac i) ->
  eqn n (mulMV n M a') (mulMV n A ad) ->
  eqn n a' ac /\
  eqn n (qfrc_inverse n m M J aref f passive bias a') (applied_total applied actuator xfrcq) /\
  (forall r : nat, efc_force_at n J aref f a' r = efc_force_at n J aref f ac r).
Proof.
  intros Mpd Pf Hf Hint Hinv.
  assert (E : eqn n a' ac).
  { apply (posdef_injective n M a' ac Mpd). intros i Hi. rewrite (Hinv i Hi), (Hint i Hi).
    specialize (Hf i Hi). unfold forward_residual, vzero in Hf. lra. }
  split; [exact E|]. split.
  - intros i Hi. rewrite (qfrc_inverse_ext n m M J aref f passive bias a' ac Pf E i).
    apply (proj1 (fwdinv_identity n m M J aref f passive bias applied actuator xfrcq ac) Hf i Hi).
  - apply (efc_force_ext n J aref f a' ac Pf E).
Qed.

(* the integrator matrices: products with the discrete acceleration *)
Lemma euler_matrix_mul (n : nat) (M : mat) (h : R) (B x : vec) (i : nat) : (i < n)%nat ->
  mulMV n (euler_matrix M h B) x i = mulMV n M x i + h * B i * x i.
Proof.
  intros Hi. unfold mulMV, euler_matrix.
  rewrite (sumn_ext n _ (fun j => M i j * x j + (if Nat.eqb i j then h * B i else 0) * x j)) by (intros; ring).
  rewrite sumn_plus. f_equal.
  clear M. induction n as [|n IH]; [lia|]. simpl.
  destruct (Nat.eq_dec i n) as [->|Hne].
  - rewrite Nat.eqb_refl. rewrite (sumn_ext n _ (fun _ => 0)).
    + rewrite sumn_zero. ring.
    + intros j Hj. destruct (Nat.eqb n j) eqn:E; [apply Nat.eqb_eq in E; lia|ring].
  - rewrite IH by lia. destruct (Nat.eqb i n) eqn:E; [apply Nat.eqb_eq in E; lia|ring].
Qed.

Lemma implicit_matrix_mul (n : nat) (M : mat) (h : R) (Dq : mat) (x : vec) (i : nat) :
  mulMV n (implicit_matrix M h Dq) x i = mulMV n M x i - h * mulMV n Dq x i.
Proof.
  unfold mulMV, implicit_matrix. rewrite <- sumn_scal, <- sumn_minus. apply sumn_ext. intros; ring.
Qed.

(* concrete instance, nv = nefc = 1: M = 2, J = 1, aref = 0, limit-like law f(x) = max(0, -x) (D = 1),
   passive = -1/2, bias = 1, applied = 1/4, actuator = 1/4, xfrc = 0:  qfrc_smooth = -1;
   forward solution a = -1/3 (2a = -1 + max(0, -a)); Euler with damping B = 3, h = 1/10: A = 23/10 *)
Lemma example_fwdinv :
  let M : mat := fun _ _ => 2 in let J : mat := fun _ _ => 1 in let aref : vec := fun _ => 0 in
  let f : vec -> vec := fun x r => Rmax 0 (- x r) in
  let passive : vec := fun _ => - / 2 in let bias : vec := fun _ => 1 in
  let applied : vec := fun _ => / 4 in let actuator : vec := fun _ => / 4 in let xfrcq : vec := fun _ => 0 in
  let ac : vec := fun _ => - / 3 in let ad : vec := fun _ => - (20 / 69) in
  posdef 1 M /\ pointwise f /\
  forward_solution 1 1 M J aref f (qfrc_smooth passive bias applied actuator xfrcq) ac /\
  qfrc_inverse 1 1 M J aref f passive bias ac 0%nat = / 2 /\
  (forall i : nat, (i < 1)%nat ->
     mulMV 1 (euler_matrix M (/ 10) (fun _ => 3)) ad i =
     qfrc_smooth passive bias applied actuator xfrcq i + qfrc_constraint_at 1 1 J aref f ac i).
Proof.
  intros M J aref f passive bias applied actuator xfrcq ac ad.
  assert (Fa : forall r : nat, efc_force_at 1 J aref f ac r = / 3).
  { intros r. unfold efc_force_at, f, vsub, mulMV, J, ac, aref. simpl. rewrite Rmax_right; lra. }
  split.
  { intros x Hx. unfold bil, dotn, mulMV, M. simpl.
    assert (x 0%nat <> 0).
    { intros E. apply Hx. intros i Hi. assert (i = 0)%nat by lia. subst. unfold vzero. assumption. }
    nra. }
  split.
  { intros x y E r. unfold f. rewrite (E r). reflexivity. }
  split.
  { intros i Hi. assert (i = 0)%nat by lia. subst i.
    unfold forward_residual, qfrc_constraint_at, mulMTV, vzero. simpl. rewrite Fa.
    unfold mulMV, M, J, ac, qfrc_smooth, smooth_row, passive, bias, applied, actuator, xfrcq. num_R. simpl. field. }
  split.
  { unfold qfrc_inverse, inverse_row, qfrc_constraint_at, mulMTV. num_R. simpl. rewrite Fa.
    unfold mulMV, M, J, ac, passive, bias. simpl. field. }
  intros i Hi. assert (i = 0)%nat by lia. subst i.
  rewrite euler_matrix_mul by lia. unfold qfrc_constraint_at, mulMTV. simpl. rewrite Fa.
  unfold mulMV, M, J, ad, qfrc_smooth, smooth_row, passive, bias, applied, actuator, xfrcq. num_R. simpl. field.
Qed.
