(* The supernode vector of Model/SparseSuper.v meets its definition: entry r counts exactly the
   maximal run of rows after r with the same column list. *)
From Coq Require Import ZArith List Bool Arith Lia.
From MJV Require Import Lib.Num Model.Sparse Model.SparseSuper.
Import ListNotations.

Lemma list_eqb_spec : forall a b : list nat, list_eqb a b = true <-> a = b.
Proof.
  induction a as [|x a IH]; intros [|y b]; simpl; split; intros H; try discriminate; auto.
  - apply andb_true_iff in H. destruct H as [H1 H2]. apply Nat.eqb_eq in H1. apply IH in H2. subst. reflexivity.
  - inversion H; subst. rewrite Nat.eqb_refl. simpl. apply IH. reflexivity.
Qed.

Lemma super_rows_length : forall rs : list (list nat), length (super_rows rs) = length rs.
Proof.
  induction rs as [|r rest IH]; simpl; auto. destruct rest as [|r2 t]; simpl in *; auto.
Qed.

Lemma super_rows_spec : forall (rs : list (list nat)) (r : nat), (r < length rs)%nat ->
  let k := nth r (super_rows rs) 0%nat in
  (r + k < length rs)%nat /\
  (forall t : nat, (t <= k)%nat -> nth (r + t) rs [] = nth r rs []) /\
  ((r + k + 1 < length rs)%nat -> nth (r + k + 1) rs [] <> nth r rs []).
Proof.
  induction rs as [|x rest IH]; intros r Hr; simpl in Hr; [lia|].
  destruct r as [|r].
  - destruct rest as [|r2 t].
    + simpl. split; [lia|]. split; [intros t Ht; replace t with 0%nat by lia; reflexivity|intros; lia].
    + specialize (IH 0%nat ltac:(simpl; lia)). cbv zeta in IH. destruct IH as [H1 [H2 H3]].
      change (super_rows (x :: r2 :: t)) with
        ((if list_eqb x r2 then S (hd 0%nat (super_rows (r2 :: t))) else 0%nat) :: super_rows (r2 :: t)).
      cbv zeta. cbn [nth].
      assert (Hhd : hd 0%nat (super_rows (r2 :: t)) = nth 0 (super_rows (r2 :: t)) 0%nat).
      { destruct (super_rows (r2 :: t)); reflexivity. }
      rewrite Hhd. set (k' := nth 0 (super_rows (r2 :: t)) 0%nat) in *.
      destruct (list_eqb x r2) eqn:E.
      * apply list_eqb_spec in E. subst r2. simpl length in *. split; [lia|]. split.
        -- intros u Hu. destruct u as [|u]; [reflexivity|]. simpl. specialize (H2 u ltac:(lia)). simpl in H2. exact H2.
        -- intros Hlt. replace (0 + S k' + 1)%nat with (S (0 + k' + 1)) by lia. simpl nth.
           specialize (H3 ltac:(simpl in *; lia)). simpl in H3. exact H3.
      * simpl. split; [lia|]. split; [intros u Hu; replace u with 0%nat by lia; reflexivity|].
        intros _ Heq. assert (list_eqb x r2 = true) by (apply list_eqb_spec; auto). congruence.
  - specialize (IH r ltac:(lia)). cbv zeta in *.
    assert (Hn : nth (S r) (super_rows (x :: rest)) 0%nat = nth r (super_rows rest) 0%nat).
    { destruct rest as [|r2 t]; [simpl in Hr; lia|]. reflexivity. }
    rewrite Hn. destruct IH as [H1 [H2 H3]]. simpl length. split; [lia|]. split.
    + intros t Ht. apply (H2 t Ht).
    + intros Hlt. apply H3. lia.
Qed.
