(* C46 — the in-bounds statement read at binary64 is false: concrete witness, by computation. *)
From Coq Require Import ZArith List Bool PrimFloat.
From MJV Require Import Lib.Num Lib.NumF Model.LeastSquares.
Import ListNotations.

(* one variable, box [-1.3, 0.9], start 0.4, residual r(x) = x + 5 (minimiser far below the box),
   no scaling, default parameters of least_squares, one outer iteration *)
Definition w_box : list (Bnd (T:=float)) := [mkBnd (-0x1.4cccccccccccdp+0)%float 0x1.ccccccccccccdp-1%float].
Definition w_x0 : list float := [0x1.999999999999ap-2%float].
Definition w_res : list float -> list float := resfam [[1%float]] [[0%float]] [(-5)%float].
Definition w_eps : float := 0x1p-26%float.
Definition w_mu_min : float := 0x1.0c6f7a0b5ed8dp-20%float.     (* 1e-6 *)
Definition w_mu_max : float := 0x1.7d784p+26%float.             (* 1e8 *)
Definition w_mu_factor : float := 0x1.4248ef8fc2604p+0%float.   (* 10 ** 0.1 *)
Definition w_tol : float := 0x1.5798ee2308c3ap-27%float.        (* 1e-8 *)
Definition w_result : Result (T:=float) :=
  least_squares w_res qp_lower w_box [1%float] false false w_eps w_mu_min w_mu_max w_mu_factor w_tol w_tol 200 1 w_x0.

Lemma qp_lower_contract : qp_contract (T:=float) qp_lower.
Proof.
  intros k h g dl du dx. unfold qp_lower.
  destruct (andb (between3 dl dl du) (nleb (vdot g dl) nzero)) eqn:E; intros Q; inversion Q; subst.
  apply andb_true_iff in E. exact E.
Qed.

Lemma w_problem_ok : problem_ok w_box [1%float] w_eps w_x0.
Proof. repeat split; vm_compute; reflexivity. Qed.

Lemma w_outside : ~ concl_in_bounds w_box w_result.
Proof. intros (A & B). vm_compute in B. discriminate. Qed.

(* the candidate evaluated by the residual and the returned point are both 0x1.4cccccccccccep+0 in
   magnitude, one ulp below the lower bound -1.3 *)
Lemma w_values :
  rs_x w_result = [(-0x1.4cccccccccccep+0)%float] /\
  In [(-0x1.4cccccccccccep+0)%float] (rs_evals w_result) /\
  PrimFloat.ltb (-0x1.4cccccccccccep+0)%float (-0x1.4cccccccccccdp+0)%float = true.
Proof. vm_compute. repeat split; auto. Qed.

(* with the candidate clipped to the bounds before the evaluation (clipcand = true) the same problem
   stays inside the box *)
Lemma w_repaired :
  concl_in_bounds w_box
    (least_squares w_res qp_lower w_box [1%float] false true w_eps w_mu_min w_mu_max w_mu_factor w_tol w_tol 200 100 w_x0).
Proof. split; vm_compute; reflexivity. Qed.

Lemma float_refuted :
  exists (res : list float -> list float) qp box Dfix adaptive eps mu_min mu_max mu_factor xtol gtol inner_fuel max_iter x0,
    problem_ok box Dfix eps x0 /\ qp_contract qp /\
    ~ concl_in_bounds box (least_squares res qp box Dfix adaptive false eps mu_min mu_max mu_factor xtol gtol inner_fuel max_iter x0).
Proof.
  exists w_res, qp_lower, w_box, [1%float], false, w_eps, w_mu_min, w_mu_max, w_mu_factor, w_tol, w_tol, 200%nat, 1%nat, w_x0.
  split; [exact w_problem_ok|]. split; [exact qp_lower_contract | exact w_outside].
Qed.
