(* C17: the counting-sort construction of the island address arrays and index maps in mj_island *)
From Coq Require Import List ZArith Bool Lia Arith.
From MJV Require Import Model.Island Model.IslandSpec Proof.IslandProof.
Import ListNotations.
Open Scope Z_scope.

(* ---------- counting with filters *)
Definition flen (f : Z -> bool) (l : list Z) : Z := Z.of_nat (length (filter f l)).

Lemma flen_nil f : flen f [] = 0.
Proof. reflexivity. Qed.
Lemma flen_cons f x l : flen f (x :: l) = (if f x then 1 else 0) + flen f l.
Proof. unfold flen. cbn [filter]. destruct (f x); cbn [length]; lia. Qed.
Lemma flen_app f l1 l2 : flen f (l1 ++ l2) = flen f l1 + flen f l2.
Proof. unfold flen. rewrite filter_app, app_length. lia. Qed.
Lemma flen_nonneg f l : 0 <= flen f l.
Proof. unfold flen. lia. Qed.

Lemma flen_mono f g l : (forall x, In x l -> f x = true -> g x = true) -> flen f l <= flen g l.
Proof.
  induction l as [|a l IH]; intro H; [reflexivity|]. rewrite !flen_cons.
  assert (IH' : flen f l <= flen g l) by (apply IH; intros; apply H; simpl; auto).
  destruct (f a) eqn:E; [rewrite (H a (or_introl eq_refl) E); lia| destruct (g a); lia].
Qed.

Lemma flen_split f g h l :
  (forall x, In x l -> h x = f x || g x) -> (forall x, In x l -> f x && g x = false) ->
  flen h l = flen f l + flen g l.
Proof.
  induction l as [|a l IH]; intros H1 H2; [reflexivity|]. rewrite !flen_cons.
  rewrite IH; [|intros; apply H1; simpl; auto|intros; apply H2; simpl; auto].
  pose proof (H1 a (or_introl eq_refl)) as E1. pose proof (H2 a (or_introl eq_refl)) as E2.
  destruct (f a), (g a), (h a); simpl in E1, E2; try congruence; lia.
Qed.

Lemma flen_ext f g l : (forall x, In x l -> f x = g x) -> flen f l = flen g l.
Proof.
  induction l as [|a l IH]; intro H; [reflexivity|]. rewrite !flen_cons.
  rewrite IH by (intros; apply H; simpl; auto). rewrite (H a) by (simpl; auto). reflexivity.
Qed.

Lemma flen_true l : flen (fun _ => true) l = Z.of_nat (length l).
Proof. induction l as [|a l IH]; [reflexivity|]. rewrite flen_cons, IH. cbn [length]. lia. Qed.

(* the spec counters of Model/IslandSpec.v in terms of flen *)
Lemma count_eq_flen key k n : count_eq key k n = flen (fun x => x =? k) (firstn n key).
Proof. reflexivity. Qed.
Lemma count_below_flen key k : count_below key k = flen (fun x => (0 <=? x) && (x <? k)) key.
Proof. reflexivity. Qed.
Lemma count_nonneg_flen key : count_nonneg key = flen (fun x => 0 <=? x) key.
Proof. reflexivity. Qed.

Lemma firstn_S_nth (l : list Z) i d : (i < length l)%nat -> firstn (S i) l = firstn i l ++ [nth i l d].
Proof.
  revert i. induction l as [|a l IH]; intros [|i] H; simpl in *; try lia; auto.
  f_equal. apply IH. lia.
Qed.

Lemma get_nth (l : list Z) (i : nat) : get l (Z.of_nat i) = nth i l OOB.
Proof. unfold get. destruct (Z.ltb_spec (Z.of_nat i) 0); [lia|]. rewrite Nat2Z.id. reflexivity. Qed.

Lemma count_eq_S key k i : (i < length key)%nat ->
  count_eq key k (S i) = count_eq key k i + (if get key (Z.of_nat i) =? k then 1 else 0).
Proof.
  intro H. rewrite !count_eq_flen. rewrite (firstn_S_nth key i OOB H), flen_app, flen_cons, flen_nil.
  rewrite get_nth. lia.
Qed.

Lemma count_eq_mono key k i j : (i <= j)%nat -> count_eq key k i <= count_eq key k j.
Proof.
  intro H. rewrite !count_eq_flen.
  replace (firstn i key) with (firstn i (firstn j key)) by (rewrite firstn_firstn; f_equal; lia).
  rewrite <- (firstn_skipn i (firstn j key)) at 2. rewrite flen_app.
  pose proof (flen_nonneg (fun x => x =? k) (skipn i (firstn j key))). lia.
Qed.

Lemma count_eq_all key k n : (length key <= n)%nat -> count_eq key k n = flen (fun x => x =? k) key.
Proof. intro H. rewrite count_eq_flen, firstn_all2 by lia. reflexivity. Qed.

(* an item is counted in its own class only after it has been seen *)
Lemma count_eq_self key i : (i < length key)%nat ->
  count_eq key (get key (Z.of_nat i)) i < count_eq key (get key (Z.of_nat i)) (length key).
Proof.
  intro H. pose proof (count_eq_mono key (get key (Z.of_nat i)) (S i) (length key) ltac:(lia)) as M.
  rewrite count_eq_S in M by exact H. rewrite Z.eqb_refl in M. lia.
Qed.

(* ---------- positions of the stable counting sort *)
Section Keys.
Variable K : Z.
Variable key : list Z.
Hypothesis key_range : Forall (fun x => -1 <= x < K) key.

Let N := length key.
Definition before (x : Z) : Z := if 0 <=? x then count_below key x else count_nonneg key.
Definition total (x : Z) : Z := count_eq key x (length key).
Definition posf (i : nat) : Z :=
  before (get key (Z.of_nat i)) + count_eq key (get key (Z.of_nat i)) i.

Lemma key_in i : (i < N)%nat -> -1 <= get key (Z.of_nat i) < K.
Proof.
  intro H. rewrite get_nth. rewrite Forall_forall in key_range. apply key_range. apply nth_In. exact H.
Qed.

Lemma below_succ x : 0 <= x -> count_below key (x + 1) = count_below key x + total x.
Proof.
  intro Hx. unfold total. rewrite count_eq_all by lia. rewrite !count_below_flen.
  apply flen_split; intros y _.
  - destruct (Z.leb_spec 0 y), (Z.ltb_spec y (x + 1)), (Z.ltb_spec y x), (Z.eqb_spec y x); simpl; try reflexivity; lia.
  - destruct (Z.leb_spec 0 y), (Z.ltb_spec y x), (Z.eqb_spec y x); simpl; try reflexivity; lia.
Qed.

Lemma below_mono x y : x <= y -> count_below key x <= count_below key y.
Proof.
  intro H. rewrite !count_below_flen. apply flen_mono. intros z _ E.
  destruct (Z.leb_spec 0 z), (Z.ltb_spec z x), (Z.ltb_spec z y); simpl in *; try discriminate; try reflexivity; lia.
Qed.

Lemma below_le_nonneg x : count_below key x <= count_nonneg key.
Proof.
  rewrite count_below_flen, count_nonneg_flen. apply flen_mono. intros z _ E.
  destruct (0 <=? z); simpl in *; [reflexivity| discriminate].
Qed.

Lemma nonneg_plus_static : count_nonneg key + total (-1) = Z.of_nat N.
Proof.
  unfold total. rewrite count_eq_all by lia. rewrite count_nonneg_flen.
  transitivity (flen (fun _ => true) key).
  - symmetry. apply flen_split; intros y Hy.
    + rewrite Forall_forall in key_range. pose proof (key_range y Hy).
      destruct (Z.leb_spec 0 y), (Z.eqb_spec y (-1)); simpl; try reflexivity; lia.
    + destruct (Z.leb_spec 0 y), (Z.eqb_spec y (-1)); simpl; try reflexivity; lia.
  - apply flen_true.
Qed.

(* class order: 0 < 1 < ... < K-1 < -1 *)
Definition prec (x y : Z) : Prop := (0 <= x /\ x < y) \/ (0 <= x /\ y = -1).

Lemma next_le_before x y : -1 <= x -> -1 <= y -> prec x y -> before x + total x <= before y.
Proof.
  intros Hx Hy [[H0 H1]|[H0 ->]]; unfold before.
  - destruct (Z.leb_spec 0 x); [|lia]. destruct (Z.leb_spec 0 y); [|lia].
    rewrite <- below_succ by lia. apply below_mono. lia.
  - destruct (Z.leb_spec 0 x); [|lia]. simpl. rewrite <- below_succ by lia. apply below_le_nonneg.
Qed.

Lemma before_nonneg x : 0 <= before x.
Proof. unfold before, count_below, count_nonneg. destruct (0 <=? x); lia. Qed.

Lemma next_le_N x : -1 <= x -> before x + total x <= Z.of_nat N.
Proof.
  intro Hx. destruct (Z.eq_dec x (-1)) as [->|Nx].
  - unfold before. simpl. rewrite nonneg_plus_static. lia.
  - pose proof (next_le_before x (-1) Hx ltac:(lia) ltac:(right; lia)) as H.
    unfold before at 2 in H. simpl in H.
    pose proof nonneg_plus_static. unfold total in *. pose proof (flen_nonneg (fun z => z =? -1) key).
    rewrite (count_eq_all key (-1)) in * by lia. lia.
Qed.

Lemma posf_range i : (i < N)%nat -> 0 <= posf i < Z.of_nat N.
Proof.
  intro H. unfold posf. pose proof (key_in i H) as Hk.
  pose proof (count_eq_self key i H) as S. pose proof (next_le_N _ (proj1 Hk)) as B.
  pose proof (before_nonneg (get key (Z.of_nat i))). unfold total in B.
  assert (0 <= count_eq key (get key (Z.of_nat i)) i) by (unfold count_eq; lia). lia.
Qed.

Lemma posf_lt_same i j : (i < j)%nat -> (j < N)%nat -> get key (Z.of_nat i) = get key (Z.of_nat j) ->
  posf i < posf j.
Proof.
  intros Hij Hj E. unfold posf. rewrite E.
  pose proof (count_eq_mono key (get key (Z.of_nat j)) (S i) j ltac:(lia)) as M.
  rewrite count_eq_S in M by lia. rewrite E, Z.eqb_refl in M. lia.
Qed.

Lemma posf_lt_prec i j : (i < N)%nat -> (j < N)%nat -> prec (get key (Z.of_nat i)) (get key (Z.of_nat j)) ->
  posf i < posf j.
Proof.
  intros Hi Hj P. unfold posf.
  pose proof (key_in i Hi) as Ki. pose proof (key_in j Hj) as Kj.
  pose proof (next_le_before _ _ (proj1 Ki) (proj1 Kj) P) as B. unfold total in B.
  pose proof (count_eq_self key i Hi).
  assert (0 <= count_eq key (get key (Z.of_nat j)) j) by (unfold count_eq; lia). lia.
Qed.

Lemma posf_inj i j : (i < N)%nat -> (j < N)%nat -> posf i = posf j -> i = j.
Proof.
  intros Hi Hj E. pose proof (key_in i Hi) as Ki. pose proof (key_in j Hj) as Kj.
  destruct (Z.eq_dec (get key (Z.of_nat i)) (get key (Z.of_nat j))) as [Ek|Nk].
  - destruct (Nat.lt_trichotomy i j) as [H|[H|H]]; [|exact H|].
    + pose proof (posf_lt_same i j H Hj Ek). lia.
    + pose proof (posf_lt_same j i H Hi (eq_sym Ek)). lia.
  - exfalso.
    assert (prec (get key (Z.of_nat i)) (get key (Z.of_nat j)) \/ prec (get key (Z.of_nat j)) (get key (Z.of_nat i)))
      as [P|P] by (unfold prec; lia).
    + pose proof (posf_lt_prec i j Hi Hj P). lia.
    + pose proof (posf_lt_prec j i Hj Hi P). lia.
Qed.

End Keys.

(* ---------- the model's counts / scan / csort compute these quantities *)
Lemma flen_false l : flen (fun _ => false) l = 0.
Proof. induction l as [|a l IH]; [reflexivity|]. rewrite flen_cons, IH. reflexivity. Qed.

Lemma len_incr c x : len (incr c x) = len c.
Proof. apply len_set. Qed.

Lemma get_incr c x k : 0 <= x < len c -> get (incr c x) k = get c k + (if k =? x then 1 else 0).
Proof.
  intro H. unfold incr. rewrite get_set by exact H. destruct (Z.eqb_spec k x) as [->|N]; lia.
Qed.

Lemma counts_fold K l : forall c, len c = K -> Forall (fun x => -1 <= x < K) l ->
  let out := fold_left (fun c k => if 0 <=? k then incr c k else c) l c in
  len out = K /\ forall k, 0 <= k < K -> get out k = get c k + flen (fun x => x =? k) l.
Proof.
  induction l as [|a l IH]; intros c Hc HF; cbn [fold_left]; cbv zeta.
  - split; [exact Hc|]. intros k Hk. rewrite flen_nil. lia.
  - inversion HF as [|? ? Ha HF']; subst.
    destruct (Z.leb_spec 0 a) as [H0|H0].
    + destruct (IH (incr c a)) as (L & G); [rewrite len_incr; reflexivity| exact HF'|].
      split; [exact L|]. intros k Hk. rewrite (G k Hk), get_incr by lia. rewrite flen_cons.
      rewrite (Z.eqb_sym a k). lia.
    + destruct (IH c eq_refl HF') as (L & G). split; [exact L|]. intros k Hk.
      rewrite (G k Hk), flen_cons. destruct (Z.eqb_spec a k); lia.
Qed.

Lemma len_repeat (v : Z) n : len (repeat v n) = Z.of_nat n.
Proof. unfold len. rewrite repeat_length. reflexivity. Qed.

Lemma counts_spec (nisland : nat) key : Forall (fun x => -1 <= x < Z.of_nat nisland) key ->
  len (counts nisland key) = Z.of_nat nisland /\
  forall k, 0 <= k < Z.of_nat nisland -> get (counts nisland key) k = count_eq key k (length key).
Proof.
  intro HF. destruct (counts_fold (Z.of_nat nisland) key (repeat 0 nisland) (len_repeat 0 nisland) HF) as (L & G).
  split; [exact L|]. intros k Hk. unfold counts. rewrite (G k Hk), get_repeat by lia.
  rewrite count_eq_all by lia. lia.
Qed.

Fixpoint psum (cnt : list Z) (k : nat) {struct k} : Z :=
  match k with
  | O => 0
  | S k' => match cnt with [] => 0 | c :: r => c + psum r k' end
  end.

Lemma scan_length cnt : forall acc, length (scan acc cnt) = length cnt.
Proof. induction cnt as [|c r IH]; intro acc; simpl; auto. Qed.

Lemma scan_nth cnt : forall acc k, (k < length cnt)%nat -> nth k (scan acc cnt) OOB = acc + psum cnt k.
Proof.
  induction cnt as [|c r IH]; intros acc k H; [simpl in H; lia|].
  destruct k as [|k]; [simpl; lia|].
  change (nth (S k) (scan acc (c :: r)) OOB) with (nth k (scan (acc + c) r) OOB).
  rewrite IH by (simpl in H; lia). simpl. lia.
Qed.

Lemma psum_S cnt : forall k, (k < length cnt)%nat -> psum cnt (S k) = psum cnt k + nth k cnt OOB.
Proof.
  induction cnt as [|c r IH]; intros k H; [simpl in H; lia|].
  destruct k as [|k].
  - simpl. lia.
  - change (psum (c :: r) (S (S k))) with (c + psum r (S k)).
    change (psum (c :: r) (S k)) with (c + psum r k).
    rewrite (IH k) by (simpl in H; lia). simpl. lia.
Qed.

Lemma count_below_0 key : count_below key 0 = 0.
Proof.
  rewrite count_below_flen. rewrite <- (flen_false key). apply flen_ext. intros x _.
  destruct (Z.leb_spec 0 x), (Z.ltb_spec x 0); simpl; try reflexivity; lia.
Qed.

Lemma last_nth (l : list Z) : l <> [] -> last l 0 = nth (length l - 1) l OOB.
Proof.
  induction l as [|a [|b l'] IHl]; intro Hn; [contradiction| reflexivity|].
  change (last (a :: b :: l') 0) with (last (b :: l') 0). rewrite IHl by discriminate.
  simpl. rewrite Nat.sub_0_r. reflexivity.
Qed.

Lemma scan_spec key cnt : (forall k, 0 <= k < len cnt -> get cnt k = count_eq key k (length key)) ->
  len (scan 0 cnt) = len cnt /\
  (forall k, 0 <= k < len cnt -> get (scan 0 cnt) k = count_below key k) /\
  lastsum (scan 0 cnt) cnt = (if len cnt =? 0 then 0 else count_below key (len cnt)).
Proof.
  intro H.
  assert (P : forall k, (k <= length cnt)%nat -> psum cnt k = count_below key (Z.of_nat k)).
  { induction k as [|k IH]; intro Hk; [simpl; symmetry; apply count_below_0|].
    rewrite psum_S by lia. rewrite IH by lia. rewrite <- get_nth. rewrite H by (unfold len; lia).
    replace (Z.of_nat (S k)) with (Z.of_nat k + 1) by lia. rewrite below_succ by lia. reflexivity. }
  split; [unfold len; rewrite scan_length; reflexivity|]. split.
  - intros k Hk. unfold len in Hk. replace k with (Z.of_nat (Z.to_nat k)) by lia.
    rewrite get_nth, scan_nth by lia. rewrite P by lia. lia.
  - unfold lastsum. destruct cnt as [|c0 r] eqn:E; [reflexivity|]. rewrite <- E in *.
    assert (Hl : (0 < length cnt)%nat) by (rewrite E; simpl; lia).
    destruct (Z.eqb_spec (len cnt) 0) as [Hc|_]; [unfold len in Hc; lia|].
    assert (Nn : cnt <> []) by (rewrite E; discriminate).
    assert (Ns : scan 0 cnt <> []).
    { intro Hs. apply (f_equal (@length Z)) in Hs. rewrite scan_length in Hs. simpl in Hs. lia. }
    rewrite (last_nth _ Ns), (last_nth _ Nn). rewrite scan_length.
    rewrite scan_nth by lia. rewrite P by lia.
    rewrite <- get_nth. rewrite H by (unfold len; lia).
    pose proof (below_succ key (Z.of_nat (length cnt - 1)) ltac:(lia)) as B. unfold total in B.
    replace (len cnt) with (Z.of_nat (length cnt - 1) + 1) by (unfold len; lia). lia.
Qed.

Section Csort.
Variable nisland : nat.
Variable key adr : list Z.
Variable base : Z.
Let K := Z.of_nat nisland.
Hypothesis key_range : Forall (fun x => -1 <= x < K) key.
Hypothesis adr_ok : forall k, 0 <= k < K -> get adr k = count_below key k.
Hypothesis base_ok : base = count_nonneg key \/ Forall (fun x => 0 <= x) key.

Definition place_inv (i : nat) (st : list Z * list Z * list Z) : Prop :=
  let '(cnt2, fwd, inv) := st in
  len cnt2 = K + 1 /\
  (forall k, 0 <= k < K -> get cnt2 k = count_eq key k i) /\
  get cnt2 K = count_eq key (-1) i /\
  len fwd = Z.of_nat i /\ (forall j, (j < i)%nat -> get fwd (Z.of_nat j) = posf key j) /\
  len inv = len key /\ (forall j, (j < i)%nat -> get inv (posf key j) = Z.of_nat j).

Lemma place_step i st : (i < length key)%nat -> place_inv i st ->
  place_inv (S i) (place K base adr st (Z.of_nat i) (get key (Z.of_nat i))).
Proof.
  intros Hi Inv. destruct st as [[cnt2 fwd] inv]. destruct Inv as (L2 & C1 & C2 & Lf & F & Li & I).
  set (x := get key (Z.of_nat i)).
  pose proof (key_in K key key_range i Hi) as Hx. fold x in Hx.
  unfold place. fold x.
  set (slot := if 0 <=? x then x else K).
  assert (Hslot : 0 <= slot < len cnt2) by (unfold slot; destruct (Z.leb_spec 0 x); lia).
  assert (Hpos : (if 0 <=? x then get adr x else base) + get cnt2 slot = posf key i).
  { unfold posf, before, slot. fold x. destruct (Z.leb_spec 0 x) as [H0|H0].
    - rewrite adr_ok by lia. rewrite C1 by lia. reflexivity.
    - assert (x = -1) by lia. rewrite C2. destruct base_ok as [->|HF]; [congruence|].
      exfalso. rewrite Forall_forall in HF. assert (0 <= x); [|lia].
      apply HF. unfold x. rewrite get_nth. apply nth_In. exact Hi. }
  rewrite Hpos.
  pose proof (posf_range K key key_range i Hi) as Hr.
  split; [rewrite len_incr; exact L2|]. split; [|split; [|split; [|split; [|split]]]].
  - intros k Hk. rewrite get_incr by exact Hslot. rewrite C1 by exact Hk. rewrite count_eq_S by exact Hi.
    fold x. unfold slot. destruct (Z.leb_spec 0 x); destruct (Z.eqb_spec k x); destruct (Z.eqb_spec x k); try lia.
    destruct (Z.eqb_spec k K); lia.
  - rewrite get_incr by exact Hslot. rewrite C2. rewrite count_eq_S by exact Hi. fold x. unfold slot.
    destruct (Z.leb_spec 0 x); destruct (Z.eqb_spec x (-1)); try lia.
    + destruct (Z.eqb_spec K x); lia.
    + rewrite Z.eqb_refl. lia.
  - rewrite len_snoc. lia.
  - intros j Hj. destruct (Nat.eq_dec j i) as [->|N].
    + rewrite <- Lf. apply get_snoc.
    + rewrite get_app1 by lia. apply F. lia.
  - rewrite len_set. exact Li.
  - intros j Hj. destruct (Nat.eq_dec j i) as [->|N].
    + apply get_set_eq. unfold len in *. lia.
    + rewrite get_set_neq; [apply I; lia|]. intro E. apply N.
      symmetry. apply (posf_inj K key key_range); [lia| lia| exact E].
Qed.

Lemma place_all_inv suf : forall pre st, key = pre ++ suf -> place_inv (length pre) st ->
  place_inv (length key) (place_all K base adr st (Z.of_nat (length pre)) suf).
Proof.
  induction suf as [|x suf IH]; intros pre st E Inv.
  - simpl. rewrite E, app_nil_r. exact Inv.
  - cbn [place_all].
    assert (Hx : get key (Z.of_nat (length pre)) = x).
    { rewrite get_nth, E. rewrite app_nth2 by lia. rewrite Nat.sub_diag. reflexivity. }
    assert (Hi : (length pre < length key)%nat) by (rewrite E, app_length; simpl; lia).
    pose proof (place_step (length pre) st Hi Inv) as Stp. rewrite Hx in Stp.
    specialize (IH (pre ++ [x]) (place K base adr st (Z.of_nat (length pre)) x)).
    rewrite app_length in IH. simpl in IH.
    replace (Z.of_nat (length pre) + 1) with (Z.of_nat (length pre + 1)) by lia.
    apply IH; [rewrite <- app_assoc; exact E|]. replace (length pre + 1)%nat with (S (length pre)) by lia.
    exact Stp.
Qed.

Lemma NoDup_map_in {A B} (f : A -> B) (l : list A) :
  (forall x y, In x l -> In y l -> f x = f y -> x = y) -> NoDup l -> NoDup (map f l).
Proof.
  induction l as [|a l IH]; intros Hinj Hnd; [constructor|].
  inversion Hnd; subst. simpl. constructor.
  - intro Hin. apply in_map_iff in Hin. destruct Hin as (y & Hy & Hin).
    assert (y = a) by (apply Hinj; simpl; auto). subst. contradiction.
  - apply IH; [intros; apply Hinj; simpl; auto| assumption].
Qed.

Lemma posf_onto j : 0 <= j < len key -> exists i, (i < length key)%nat /\ posf key i = j.
Proof.
  intro Hj. set (N := length key).
  set (L := map (posf key) (seq 0 N)). set (T := map Z.of_nat (seq 0 N)).
  assert (ND : NoDup L).
  { apply NoDup_map_in; [|apply seq_NoDup]. intros x y Hx Hy. rewrite in_seq in Hx, Hy.
    apply (posf_inj K key key_range); lia. }
  assert (Incl : incl L T).
  { intros z Hz. apply in_map_iff in Hz. destruct Hz as (i & <- & Hi). rewrite in_seq in Hi.
    pose proof (posf_range K key key_range i ltac:(lia)) as R. apply in_map_iff.
    exists (Z.to_nat (posf key i)). split; [lia|]. apply in_seq. unfold N in *. lia. }
  assert (Incl2 : incl T L).
  { apply NoDup_length_incl; [exact ND| unfold L, T; rewrite !map_length; lia| exact Incl]. }
  assert (Hin : In j T).
  { apply in_map_iff. exists (Z.to_nat j). split; [lia|]. apply in_seq. unfold N, len in *. lia. }
  apply Incl2 in Hin. apply in_map_iff in Hin. destruct Hin as (i & E & Hi). rewrite in_seq in Hi.
  exists i. split; [unfold N in *; lia| exact E].
Qed.

(* the index maps built by one placement loop *)
Theorem csort_spec :
  let '(cnt2, fwd, inv) := csort nisland base adr key in
  len fwd = len key /\ len inv = len key /\
  (forall k, 0 <= k < K -> get cnt2 k = count_eq key k (length key)) /\
  (forall i, 0 <= i < len key -> get fwd i = posf key (Z.to_nat i)) /\
  (forall i, 0 <= i < len key -> 0 <= get fwd i < len key /\ get inv (get fwd i) = i) /\
  (forall j, 0 <= j < len key -> 0 <= get inv j < len key /\ get fwd (get inv j) = j).
Proof.
  unfold csort. fold K.
  pose proof (place_all_inv key [] (repeat 0 (S nisland), [], repeat OOB (length key)) eq_refl) as H.
  simpl length in H. simpl Z.of_nat in H.
  destruct (place_all K base adr (repeat 0 (S nisland), [], repeat OOB (length key)) 0 key) as [[cnt2 fwd] inv].
  destruct H as (L2 & C1 & C2 & Lf & F & Li & I).
  { split; [rewrite len_repeat; unfold K; lia|]. split; [|split; [|split; [reflexivity|split; [|split]]]].
    - intros k Hk. rewrite get_repeat by (unfold K in *; lia). reflexivity.
    - rewrite get_repeat by (unfold K in *; lia). reflexivity.
    - intros j Hj. lia.
    - apply len_repeat.
    - intros j Hj. lia. }
  assert (Fz : forall i, 0 <= i < len key -> get fwd i = posf key (Z.to_nat i)).
  { intros i Hi. unfold len in Hi. rewrite <- (F (Z.to_nat i)) by lia. f_equal. lia. }
  split; [exact Lf|]. split; [exact Li|]. split; [exact C1|]. split; [exact Fz|]. split.
  - intros i Hi. rewrite Fz by exact Hi. unfold len in Hi.
    pose proof (posf_range K key key_range (Z.to_nat i) ltac:(lia)) as R. split; [unfold len; lia|].
    rewrite I by lia. lia.
  - intros j Hj. destruct (posf_onto j Hj) as (i & Hi & E).
    rewrite <- E. rewrite I by exact Hi. split; [unfold len; lia|].
    rewrite Fz by (unfold len; lia). rewrite Nat2Z.id. reflexivity.
Qed.

End Csort.

Lemma count_below_top K key : Forall (fun x => -1 <= x < K) key -> count_below key K = count_nonneg key.
Proof.
  intro HF. rewrite count_below_flen, count_nonneg_flen. apply flen_ext. intros x Hx.
  rewrite Forall_forall in HF. pose proof (HF x Hx).
  destruct (Z.leb_spec 0 x), (Z.ltb_spec x K); simpl; try reflexivity; lia.
Qed.

(* counts -> prefix sums -> placement, as used three times by mj_island (trees, dofs, rows) *)
Theorem pipeline_spec (nisland : nat) (key : list Z) (base : Z) :
  Forall (fun x => -1 <= x < Z.of_nat nisland) key ->
  base = count_nonneg key \/ Forall (fun x => 0 <= x) key ->
  let cnt := counts nisland key in
  let adr := scan 0 cnt in
  let '(cnt2, fwd, inv) := csort nisland base adr key in
  (* per-island counts and their prefix sums *)
  len cnt = Z.of_nat nisland /\ len adr = Z.of_nat nisland /\
  (forall k, 0 <= k < Z.of_nat nisland ->
     get cnt k = count_eq key k (length key) /\ get adr k = count_below key k /\ get cnt2 k = get cnt k) /\
  ((0 < nisland)%nat -> lastsum adr cnt = count_nonneg key) /\
  (* the two maps are mutually inverse permutations of 0 .. n-1 *)
  len fwd = len key /\ len inv = len key /\
  (forall i, 0 <= i < len key -> 0 <= get fwd i < len key /\ get inv (get fwd i) = i) /\
  (forall j, 0 <= j < len key -> 0 <= get inv j < len key /\ get fwd (get inv j) = j) /\
  (* items of island k occupy adr[k] .. adr[k]+cnt[k]-1 in their original order; items of no island
     follow all others, in their original order *)
  (forall i, 0 <= i < len key ->
     get fwd i = (if 0 <=? get key i then get adr (get key i) else count_nonneg key) + count_eq key (get key i) (Z.to_nat i)) /\
  (forall i, 0 <= i < len key -> 0 <= get key i ->
     get adr (get key i) <= get fwd i < get adr (get key i) + get cnt (get key i)) /\
  (forall i, 0 <= i < len key -> (0 <= get key i <-> get fwd i < count_nonneg key)).
Proof.
  intros HF Hb cnt adr.
  destruct (counts_spec nisland key HF) as (Lc & Gc). fold cnt in Lc, Gc.
  assert (Gc' : forall k, 0 <= k < len cnt -> get cnt k = count_eq key k (length key)) by (intros; apply Gc; lia).
  destruct (scan_spec key cnt Gc') as (La & Ga & Ls). fold adr in La, Ga, Ls.
  assert (Ga' : forall k, 0 <= k < Z.of_nat nisland -> get adr k = count_below key k) by (intros; apply Ga; lia).
  pose proof (csort_spec nisland key adr base HF Ga' Hb) as CS.
  destruct (csort nisland base adr key) as [[cnt2 fwd] inv].
  destruct CS as (Lf & Li & C2 & Fp & FI & IF).
  assert (KI : forall i, 0 <= i < len key -> -1 <= get key i < Z.of_nat nisland).
  { intros i Hi. unfold len in Hi. replace i with (Z.of_nat (Z.to_nat i)) by lia.
    apply (key_in _ key HF). lia. }
  assert (Formula : forall i, 0 <= i < len key ->
     get fwd i = (if 0 <=? get key i then get adr (get key i) else count_nonneg key) + count_eq key (get key i) (Z.to_nat i)).
  { intros i Hi. rewrite (Fp i Hi). unfold posf, before. unfold len in Hi. rewrite Z2Nat.id by lia.
    destruct (Z.leb_spec 0 (get key i)); [|reflexivity]. rewrite Ga'; [reflexivity|].
    pose proof (KI i ltac:(unfold len; lia)). lia. }
  assert (Self : forall i, 0 <= i < len key ->
            0 <= count_eq key (get key i) (Z.to_nat i) < count_eq key (get key i) (length key)).
  { intros i Hi. unfold len in Hi. split; [unfold count_eq; lia|].
    pose proof (count_eq_self key (Z.to_nat i) ltac:(lia)) as S. rewrite Z2Nat.id in S by lia. exact S. }
  split; [exact Lc|]. split; [lia|]. split; [|split; [|split; [exact Lf|split; [exact Li|split; [exact FI|split; [exact IF|split; [exact Formula|split]]]]]]].
  - intros k Hk. split; [apply Gc; exact Hk|]. split; [apply Ga'; exact Hk|]. rewrite C2, Gc by exact Hk. reflexivity.
  - intro Hn. rewrite Ls. destruct (Z.eqb_spec (len cnt) 0); [lia|]. rewrite Lc. apply count_below_top. exact HF.
  - intros i Hi H0. rewrite (Formula i Hi). destruct (Z.leb_spec 0 (get key i)); [|lia].
    pose proof (KI i Hi). rewrite (Gc (get key i)) by lia. pose proof (Self i Hi). lia.
  - intros i Hi. rewrite (Formula i Hi). pose proof (KI i Hi) as Hk. pose proof (Self i Hi) as Hs.
    destruct (Z.leb_spec 0 (get key i)) as [H0|H0].
    + split; [intros _|lia]. rewrite Ga' by lia.
      pose proof (below_succ key (get key i) H0) as B. unfold total in B.
      pose proof (below_le_nonneg key (get key i + 1)). lia.
    + split; [lia|]. intro. lia.
Qed.
