(* Proofs at R about Model/Kinematics.v (C07); built on the C24 lemmas of Proof/SpatialProof.v. *)
From Coq Require Import ZArith List PrimFloat Reals Lra Lia Psatz Nsatz Bool.
From Coquelicot Require Import Coquelicot.
From MJV Require Import Lib.Num Lib.NumR Model.Spatial Proof.SpatialProof Model.Kinematics.
Import ListNotations.
Open Scope R_scope.

Lemma some_inj {A : Type} (x y : A) : Some x = Some y -> x = y.
Proof. congruence. Qed.
Lemma pair_inj {A B : Type} (a a' : A) (b b' : B) : (a, b) = (a', b') -> a = a' /\ b = b'.
Proof. intros E; split; congruence. Qed.
(* Some (a, b, c) = Some (a', b', c') without any reduction of the components *)
Ltac inv3 E := apply some_inj in E; apply pair_inj in E; destruct E as [E ?]; apply pair_inj in E; destruct E as [? ?]; subst.
Ltac inv2 E := apply some_inj in E; apply pair_inj in E; destruct E as [? ?]; subst.

(* ================================================================== frames *)
Definition near_unit (q : quat R) : Prop := Rabs (sqrt (qnorm2 q) - 1) <= mjMINVAL.
Definition isRot (m : mat3 R) : Prop :=
  mulMatMat3 m (transpose3 m) = matId /\ mulMatMat3 (transpose3 m) m = matId /\ det3 m = 1.

Lemma normalize4_near_unit (q : quat R) : near_unit (fst (normalize4 q)).
Proof.
  dq q. unfold normalize4, near_unit, qnorm2. nR.
  set (n := sqrt (q0 * q0 + q1 * q1 + q2 * q2 + q3 * q3)).
  pose proof mjMINVAL_pos as HM.
  destruct (Rltb n mjMINVAL) eqn:E; cbn [fst].
  - unfold quatId. nR. replace (1 * 1 + 0 * 0 + 0 * 0 + 0 * 0) with 1 by ring. rewrite sqrt_1.
    replace (1 - 1) with 0 by ring. rewrite Rabs_R0. lra.
  - apply Rltb_false in E.
    destruct (Rltb mjMINVAL (Rabs (n - 1))) eqn:E2; cbn [fst].
    + assert (Hs : 0 <= q0 * q0 + q1 * q1 + q2 * q2 + q3 * q3) by nra.
      assert (Hnn : n * n = q0 * q0 + q1 * q1 + q2 * q2 + q3 * q3) by (apply sqrt_sqrt; auto).
      replace (q0 * (1 / n) * (q0 * (1 / n)) + q1 * (1 / n) * (q1 * (1 / n)) + q2 * (1 / n) * (q2 * (1 / n)) +
               q3 * (1 / n) * (q3 * (1 / n))) with 1.
      * rewrite sqrt_1. replace (1 - 1) with 0 by ring. rewrite Rabs_R0. lra.
      * field_simplify_eq; [|lra]. nra.
    + apply Rltb_false in E2. fold n. exact E2.
Qed.

Lemma near_unit_id : near_unit quatId.
Proof.
  unfold near_unit, quatId, qnorm2. nR. replace (1 * 1 + 0 * 0 + 0 * 0 + 0 * 0) with 1 by ring.
  rewrite sqrt_1. replace (1 - 1) with 0 by ring. rewrite Rabs_R0. pose proof mjMINVAL_pos. lra.
Qed.

(* what holds of every frame without any hypothesis on the inputs *)
Definition frameAny (f : frame R) : Prop := let '(_, q, m) := f in near_unit q /\ m = quat2Mat q.
(* what holds when the inputs are unit *)
Definition frameUnit (f : frame R) : Prop := let '(_, q, m) := f in unitq q /\ m = quat2Mat q.

Lemma finishBody_any (p : vec3 R) (q : quat R) : frameAny (finishBody p q).
Proof. unfold finishBody, frameAny. split; [apply normalize4_near_unit | reflexivity]. Qed.

Lemma bodyFrame_any (frames : list (frame R)) (b : body R) (f : frame R) (ja : list (janchor R)) :
  bodyFrame frames b = Some (f, ja) -> frameAny f.
Proof.
  unfold bodyFrame. destruct (freeJoint (b_joints b)) as [j|].
  - intros E. inversion E. apply finishBody_any.
  - destruct (bodyStart frames b) as [st|]; [|discriminate].
    destruct (jointsLoop (b_joints b) st) as [[[p q] l]|]; [|discriminate].
    intros E. inversion E. apply finishBody_any.
Qed.

Lemma kinLoop_any (bs : list (body R)) : forall (frames : list (frame R)) (jas : list (list (janchor R)))
    (fr : list (frame R)) (ja : list (list (janchor R))),
  List.Forall frameAny frames -> kinLoop bs frames jas = Some (fr, ja) ->
  List.Forall frameAny fr /\ length fr = (length frames + length bs)%nat.
Proof.
  induction bs as [|b r IH]; intros frames jas fr ja HF E; simpl in E.
  - inversion E; subst. split; [assumption | simpl; lia].
  - destruct (bodyFrame frames b) as [[f l]|] eqn:EB; [|discriminate].
    apply IH in E.
    + destruct E as [A B]. split; [exact A|]. rewrite B, app_length. simpl. lia.
    + apply Forall_app. split; [assumption|]. constructor; [|constructor]. eapply bodyFrame_any; eauto.
Qed.

Lemma worldFrame_any : frameAny worldFrame.
Proof.
  unfold worldFrame, frameAny. split; [apply near_unit_id|].
  unfold quat2Mat. replace (isNullQuat (quatId (T:=R))) with true; [reflexivity|].
  symmetry. apply isNullQuat_true. reflexivity.
Qed.

Lemma frameAny_scaled (f : frame R) : frameAny f ->
  let '(_, q, m) := f in
  m = quat2Mat q /\ Rabs (sqrt (qnorm2 q) - 1) <= mjMINVAL /\
  mulMatMat3 m (transpose3 m) =
    (qnorm2 q * qnorm2 q, 0, 0, 0, qnorm2 q * qnorm2 q, 0, 0, 0, qnorm2 q * qnorm2 q) /\
  det3 m = qnorm2 q * qnorm2 q * qnorm2 q.
Proof.
  destruct f as [[p q] m]. intros [N E]. subst m.
  destruct (quat2Mat_scaled q) as [A B]. repeat split; auto.
Qed.

Lemma frames_any (bs : list (body R)) (frs : list (frame R)) (jas : list (list (janchor R))) :
  kinematics bs = Some (frs, jas) ->
  length frs = S (length bs) /\
  List.Forall (fun f : frame R => let '(_, q, m) := f in
            m = quat2Mat q /\ Rabs (sqrt (qnorm2 q) - 1) <= mjMINVAL /\
            mulMatMat3 m (transpose3 m) =
              (qnorm2 q * qnorm2 q, 0, 0, 0, qnorm2 q * qnorm2 q, 0, 0, 0, qnorm2 q * qnorm2 q) /\
            det3 m = qnorm2 q * qnorm2 q * qnorm2 q) frs.
Proof.
  unfold kinematics. intros E. apply kinLoop_any in E.
  - destruct E as [A B]. split; [rewrite B; reflexivity|].
    eapply Forall_impl; [|exact A]. intros f Hf. apply (frameAny_scaled f Hf).
  - constructor; [apply worldFrame_any | constructor].
Qed.

(* ---- unit inputs *)
Definition goodJoint (j : joint R) : Prop :=
  match j_type j with
  | JFree => unitq (qq4 j 3)
  | JBall => unitq (qq4 j 0)
  | JSlide => True
  | JHinge => unitv (j_axis j)
  end.
Definition goodBody (b : body R) : Prop :=
  unitq (b_quat b) /\
  match b_mocap b with Some (_, mq) => unitq mq | None => True end /\
  List.Forall goodJoint (b_joints b).

Lemma jointStep_unit (j : joint R) (p p' : vec3 R) (q q' : quat R) (ja : janchor R) :
  goodJoint j -> unitq q -> jointStep j (p, q) = Some (p', q', ja) -> unitq q'.
Proof.
  unfold goodJoint, jointStep. destruct (j_type j); intros G U E.
  - discriminate.
  - inv3 E. apply unitq_mul; [assumption|]. rewrite (normalize4_unit _ G). exact G.
  - inv3 E. assumption.
  - inv3 E. apply unitq_mul; [assumption | apply axisAngle2Quat_unit; assumption].
Qed.

Lemma jointsLoop_unit (js : list (joint R)) : forall (p p' : vec3 R) (q q' : quat R) (l : list (janchor R)),
  List.Forall goodJoint js -> unitq q -> jointsLoop js (p, q) = Some (p', q', l) -> unitq q'.
Proof.
  induction js as [|j r IH]; intros p p' q q' l G U E; cbn [jointsLoop] in E.
  - cbn [fst snd] in E. inv3 E. assumption.
  - inversion G as [|? ? Gj Gr]; subst.
    destruct (jointStep j (p, q)) as [[[p1 q1] ja]|] eqn:ES; [|discriminate E].
    destruct (jointsLoop r (p1, q1)) as [[[p2 q2] l2]|] eqn:EL; [|discriminate E].
    inv3 E. eapply IH; [exact Gr | | exact EL]. eapply jointStep_unit; eauto.
Qed.

Lemma finishBody_unit (p : vec3 R) (q : quat R) : unitq q -> frameUnit (finishBody p q) /\ finishBody p q = (p, q, quat2Mat q).
Proof.
  intros U. unfold finishBody, frameUnit. rewrite normalize4_unit by assumption. cbn [fst]. auto.
Qed.

Lemma bodyStart_unit (frames : list (frame R)) (b : body R) (p : vec3 R) (q : quat R) :
  List.Forall frameUnit frames -> goodBody b -> bodyStart frames b = Some (p, q) -> unitq q.
Proof.
  intros HF (UQ & UM & _). unfold bodyStart.
  assert (UB : unitq (snd (match b_mocap b with
                           | Some (mp, mq) => (mp, fst (normalize4 mq))
                           | None => (b_pos b, b_quat b) end))).
  { destruct (b_mocap b) as [[mp mq]|]; cbn [snd]; [rewrite normalize4_unit by assumption|]; auto. }
  destruct (match b_mocap b with Some (mp, mq) => (mp, fst (normalize4 mq)) | None => (b_pos b, b_quat b) end)
    as [bp bq]. cbn [snd] in UB.
  destruct (Nat.eqb (b_parent b) 0).
  - intros E; inversion E; subst; assumption.
  - destruct (nth_error frames (b_parent b)) as [[[pp pq] pm]|] eqn:EN; [|discriminate].
    intros E; inversion E; subst.
    apply nth_error_In in EN. rewrite Forall_forall in HF. apply HF in EN. destruct EN as [UP _].
    apply unitq_mul; assumption.
Qed.

Lemma freeJoint_some (js : list (joint R)) (j : joint R) :
  freeJoint js = Some j -> js = (j :: nil) /\ j_type j = JFree.
Proof.
  unfold freeJoint. destruct js as [|j0 [|j1 r]]; try discriminate.
  destruct (j_type j0) eqn:T; try discriminate. intros E; inversion E; subst. auto.
Qed.

Lemma bodyFrame_unit (frames : list (frame R)) (b : body R) (f : frame R) (ja : list (janchor R)) :
  List.Forall frameUnit frames -> goodBody b -> bodyFrame frames b = Some (f, ja) -> frameUnit f.
Proof.
  intros HF G. unfold bodyFrame. destruct (freeJoint (b_joints b)) as [j|] eqn:EF.
  - apply freeJoint_some in EF. destruct EF as [EJ TJ]. destruct G as (_ & _ & GJ).
    rewrite EJ in GJ. inversion GJ as [|? ? Gj _]; subst. unfold goodJoint in Gj. rewrite TJ in Gj.
    intros E; inv2 E. apply finishBody_unit. rewrite (normalize4_unit _ Gj). exact Gj.
  - destruct (bodyStart frames b) as [[p q]|] eqn:ES; [|discriminate].
    destruct (jointsLoop (b_joints b) (p, q)) as [[[p' q'] l]|] eqn:EL; [|discriminate].
    intros E; inv2 E. apply finishBody_unit.
    eapply jointsLoop_unit; [exact (proj2 (proj2 G)) | | exact EL].
    eapply bodyStart_unit; eauto.
Qed.

Lemma kinLoop_unit (bs : list (body R)) : forall (frames : list (frame R)) (jas : list (list (janchor R)))
    (fr : list (frame R)) (ja : list (list (janchor R))),
  List.Forall frameUnit frames -> List.Forall goodBody bs -> kinLoop bs frames jas = Some (fr, ja) ->
  List.Forall frameUnit fr.
Proof.
  induction bs as [|b r IH]; intros frames jas fr ja HF G E; simpl in E.
  - inversion E; subst. assumption.
  - inversion G as [|? ? Gb Gr]; subst.
    destruct (bodyFrame frames b) as [[f l]|] eqn:EB; [|discriminate].
    eapply IH; [| exact Gr | exact E].
    apply Forall_app. split; [assumption|]. constructor; [|constructor]. eapply bodyFrame_unit; eauto.
Qed.

Lemma worldFrame_unit : frameUnit worldFrame.
Proof. destruct worldFrame_any as [_ E]. split; [apply unitq_id | exact E]. Qed.

Lemma frames_unit (bs : list (body R)) (frs : list (frame R)) (jas : list (list (janchor R))) :
  List.Forall goodBody bs -> kinematics bs = Some (frs, jas) ->
  List.Forall (fun f : frame R => let '(_, q, m) := f in unitq q /\ m = quat2Mat q /\ isRot m) frs.
Proof.
  unfold kinematics. intros G E. eapply kinLoop_unit in E; [| |exact G].
  - eapply Forall_impl; [|exact E]. intros [[p q] m] [U M]. subst m. repeat split; auto; apply quat2Mat_rotation; auto.
  - constructor; [apply worldFrame_unit | constructor].
Qed.

(* ---- mj_local2Global *)
Lemma local2Global_rot (fr : frame R) (ifr : vec3 R * mat3 R) (pos : vec3 R) (q : quat R) (sf : Z) :
  frameUnit fr -> isRot (snd ifr) -> unitq q -> isRot (snd (local2Global fr ifr pos q sf)).
Proof.
  destruct fr as [[xp xq] xm]. destruct ifr as [ip im]. intros [U M] RI UQ. subst xm.
  unfold local2Global. cbn [snd].
  destruct (sf =? 0)%Z.
  - apply quat2Mat_rotation. apply unitq_mul; assumption.
  - destruct ((sf =? 1)%Z || (sf =? 3)%Z); [apply quat2Mat_rotation; assumption | exact RI].
Qed.

Lemma matId_rot : isRot (matId (T:=R)).
Proof.
  unfold isRot, matId, mulMatMat3, transpose3, det3. nR. repeat split; try (apply mat_ext; ring). ring.
Qed.

Lemma inertialFrame_rot (fr : frame R) (pos : vec3 R) (q : quat R) (sf : Z) :
  frameUnit fr -> unitq q -> isRot (snd (inertialFrame fr pos q sf)).
Proof. intros. apply local2Global_rot; auto. apply matId_rot. Qed.

(* ---- the recursion is defined on well-formed trees *)
Definition noFree (js : list (joint R)) : Prop := List.Forall (fun j : joint R => j_type j <> JFree) js.
Definition wfJoints (js : list (joint R)) : Prop := freeJoint js <> None \/ noFree js.
(* bodies k, k+1, ...: parent index smaller than own index *)
Fixpoint wfTree (k : nat) (bs : list (body R)) : Prop :=
  match bs with
  | [] => True
  | b :: r => (b_parent b < k)%nat /\ wfJoints (b_joints b) /\ wfTree (S k) r
  end.

Lemma jointsLoop_defined (js : list (joint R)) : forall (st : vec3 R * quat R),
  noFree js -> jointsLoop js st <> None.
Proof.
  induction js as [|j r IH]; intros [p q] NF; simpl; [discriminate|].
  inversion NF as [|? ? Nj Nr]; subst.
  unfold jointStep. destruct (j_type j) eqn:T; try congruence.
  - match goal with |- context [jointsLoop r ?s] => specialize (IH s Nr); destruct (jointsLoop r s) as [[[? ?] ?]|] end; congruence.
  - match goal with |- context [jointsLoop r ?s] => specialize (IH s Nr); destruct (jointsLoop r s) as [[[? ?] ?]|] end; congruence.
  - match goal with |- context [jointsLoop r ?s] => specialize (IH s Nr); destruct (jointsLoop r s) as [[[? ?] ?]|] end; congruence.
Qed.

Lemma bodyFrame_defined (frames : list (frame R)) (b : body R) :
  (b_parent b < length frames)%nat -> wfJoints (b_joints b) -> bodyFrame frames b <> None.
Proof.
  intros HP W. unfold bodyFrame. destruct (freeJoint (b_joints b)) as [j|] eqn:EF; [discriminate|].
  destruct W as [W|W]; [congruence|].
  unfold bodyStart.
  destruct (match b_mocap b with Some (mp, mq) => (mp, fst (normalize4 mq)) | None => (b_pos b, b_quat b) end) as [bp bq].
  destruct (Nat.eqb (b_parent b) 0).
  - pose proof (jointsLoop_defined (b_joints b) (bp, bq) W) as D.
    destruct (jointsLoop (b_joints b) (bp, bq)) as [[[? ?] ?]|]; congruence.
  - destruct (nth_error frames (b_parent b)) as [[[pp pq] pm]|] eqn:EN.
    + match goal with |- context [jointsLoop _ ?s] => pose proof (jointsLoop_defined (b_joints b) s W) as D;
        destruct (jointsLoop (b_joints b) s) as [[[? ?] ?]|] end; congruence.
    + apply nth_error_None in EN. lia.
Qed.

Lemma kinLoop_defined (bs : list (body R)) : forall (frames : list (frame R)) (jas : list (list (janchor R))),
  wfTree (length frames) bs -> kinLoop bs frames jas <> None.
Proof.
  induction bs as [|b r IH]; intros frames jas W; simpl; [discriminate|].
  destruct W as (HP & WJ & WR).
  pose proof (bodyFrame_defined frames b HP WJ) as D.
  destruct (bodyFrame frames b) as [[f l]|]; [|congruence].
  apply IH. rewrite app_length. simpl. replace (length frames + 1)%nat with (S (length frames)) by lia. exact WR.
Qed.

Lemma kinematics_defined (bs : list (body R)) : wfTree 1 bs -> kinematics bs <> None.
Proof. intros W. unfold kinematics. apply kinLoop_defined. exact W. Qed.

(* ================================================================== differentiatePos o integratePos *)
(* the condition under which C24's subQuat/quatIntegrate lemma applies: rotation angle |h||w| at most pi
   and no mjMINVAL guard of mju_normalize3 / mju_quat2Vel fires *)
Definition principal (h : R) (w : vec3 R) : Prop :=
  Rabs (h * norm3 w) <= PI /\
  (h * norm3 w = 0 \/ (mjMINVAL <= norm3 w /\ mjMINVAL <= Rabs (sin (h * norm3 w * / 2)))).

(* qpos / qvel have the sizes given by the joint types, quaternions are unit, angular velocities principal *)
Fixpoint goodQV (js : list jtype) (qpos qvel : list R) (h : R) : Prop :=
  match js with
  | nil => qvel = nil
  | JFree :: r =>
      match qpos, qvel with
      | _ :: _ :: _ :: a :: b :: c :: d :: qp, _ :: _ :: _ :: w0 :: w1 :: w2 :: qv =>
          unitq (a, b, c, d) /\ principal h (w0, w1, w2) /\ goodQV r qp qv h
      | _, _ => False
      end
  | JBall :: r =>
      match qpos, qvel with
      | a :: b :: c :: d :: qp, w0 :: w1 :: w2 :: qv =>
          unitq (a, b, c, d) /\ principal h (w0, w1, w2) /\ goodQV r qp qv h
      | _, _ => False
      end
  | _ :: r =>
      match qpos, qvel with
      | _ :: qp, _ :: qv => goodQV r qp qv h
      | _, _ => False
      end
  end.

Lemma ball_roundtrip (q : quat R) (w : vec3 R) (h : R) :
  h <> 0 -> unitq q -> principal h w ->
  v2l (scl3 (subQuat (quatIntegrate q w h) q) (1 / h)) = v2l w.
Proof.
  intros H0 U [P1 P2]. rewrite sub_integrate by assumption.
  dv w. unfold scl3, v2l. nR. repeat f_equal; field; assumption.
Qed.

Lemma diff_integrate (js : list jtype) : forall (qpos qvel : list R) (h : R),
  h <> 0 -> goodQV js qpos qvel h ->
  differentiatePos js h qpos (integratePos js qpos qvel h) = qvel.
Proof.
  induction js as [|j r IH]; intros qpos qvel h H0 G.
  - simpl in *. subst. reflexivity.
  - destruct j.
    + (* free *)
      destruct qpos as [|p0 [|p1 [|p2 [|a [|b [|c [|d qp]]]]]]]; simpl in G; try contradiction.
      destruct qvel as [|v0 [|v1 [|v2 [|w0 [|w1 [|w2 qv]]]]]]; try contradiction.
      destruct G as (U & P & G).
      cbn [integratePos].
      pose proof (ball_roundtrip (a, b, c, d) (w0, w1, w2) h H0 U P) as RT.
      destruct (quatIntegrate (a, b, c, d) (w0, w1, w2) h) as [[[a2 b2] c2] d2] eqn:EQ.
      cbn [q2l app differentiatePos]. nR. rewrite RT. cbn [v2l app].
      rewrite (IH qp qv h H0 G). nR. repeat f_equal; field; assumption.
    + (* ball *)
      destruct qpos as [|a [|b [|c [|d qp]]]]; simpl in G; try contradiction.
      destruct qvel as [|w0 [|w1 [|w2 qv]]]; try contradiction.
      destruct G as (U & P & G).
      cbn [integratePos].
      pose proof (ball_roundtrip (a, b, c, d) (w0, w1, w2) h H0 U P) as RT.
      destruct (quatIntegrate (a, b, c, d) (w0, w1, w2) h) as [[[a2 b2] c2] d2] eqn:EQ.
      cbn [q2l app differentiatePos]. nR. rewrite RT. cbn [v2l app].
      rewrite (IH qp qv h H0 G). reflexivity.
    + (* slide *)
      destruct qpos as [|p qp]; simpl in G; try contradiction.
      destruct qvel as [|v qv]; try contradiction.
      cbn [integratePos differentiatePos]. rewrite (IH qp qv h H0 G). nR. f_equal. field; assumption.
    + (* hinge *)
      destruct qpos as [|p qp]; simpl in G; try contradiction.
      destruct qvel as [|v qv]; try contradiction.
      cbn [integratePos differentiatePos]. rewrite (IH qp qv h H0 G). nR. f_equal. field; assumption.
Qed.

(* sizes: goodQV forces the qvel size, and the qpos size up to a tail that is left untouched *)
Lemma goodQV_sizes (js : list jtype) : forall (qpos qvel : list R) (h : R),
  goodQV js qpos qvel h -> length qvel = nv_of js /\ (nq_of js <= length qpos)%nat.
Proof.
  induction js as [|j r IH]; intros qpos qvel h G.
  - simpl in *. subst. simpl. split; lia.
  - destruct j.
    + destruct qpos as [|p0 [|p1 [|p2 [|a [|b [|c [|d qp]]]]]]]; simpl in G; try contradiction.
      destruct qvel as [|v0 [|v1 [|v2 [|w0 [|w1 [|w2 qv]]]]]]; try contradiction.
      destruct G as (_ & _ & G). apply IH in G. simpl. lia.
    + destruct qpos as [|a [|b [|c [|d qp]]]]; simpl in G; try contradiction.
      destruct qvel as [|w0 [|w1 [|w2 qv]]]; try contradiction.
      destruct G as (_ & _ & G). apply IH in G. simpl. lia.
    + destruct qpos as [|p qp]; simpl in G; try contradiction.
      destruct qvel as [|v qv]; try contradiction. apply IH in G. simpl. lia.
    + destruct qpos as [|p qp]; simpl in G; try contradiction.
      destruct qvel as [|v qv]; try contradiction. apply IH in G. simpl. lia.
Qed.

(* ================================================================== Jacobian columns: algebra *)
Lemma cross_sub_cancel (a c p x : vec3 R) :
  add3 (cross a (sub3 c x)) (cross a (sub3 p c)) = cross a (sub3 p x).
Proof. dv a; dv c; dv p; dv x. unfold add3, cross, sub3. nR. apply vec_ext; ring. Qed.

(* what mj_comPos + mj_jac write for the dof of a hinge joint: for ANY com *)
Lemma jac_hinge (xmat : mat3 R) (ja : janchor R) (com point : vec3 R) :
  map (fun c : mvec R => jacCol c (sub3 point com)) (jointCdof JHinge xmat ja com) =
    ((cross (snd ja) (sub3 point (fst ja)), snd ja) :: nil).
Proof.
  destruct ja as [xanchor xaxis]. unfold jointCdof.
  destruct xmat as [[[[[[[[m0 m1] m2] m3] m4] m5] m6] m7] m8].
  cbn [map dofCom fst snd]. unfold jacCol. cbn [fst snd]. rewrite cross_sub_cancel. reflexivity.
Qed.

Lemma jac_slide (xmat : mat3 R) (ja : janchor R) (com point : vec3 R) :
  map (fun c : mvec R => jacCol c (sub3 point com)) (jointCdof JSlide xmat ja com) =
    ((snd ja, zero3) :: nil).
Proof.
  destruct ja as [xanchor xaxis]. unfold jointCdof.
  destruct xmat as [[[[[[[[m0 m1] m2] m3] m4] m5] m6] m7] m8].
  cbn [map dofCom fst snd]. unfold jacCol. cbn [fst snd]. f_equal. f_equal.
  dv xaxis. set (o := sub3 point com). dv o. unfold add3, cross, zero3. nR. apply vec_ext; ring.
Qed.

Lemma jacColJoint_eq (t : jtype) (xmat : mat3 R) (ja : janchor R) (com point : vec3 R) :
  t = JHinge \/ t = JSlide ->
  map (fun c : mvec R => jacCol c (sub3 point com)) (jointCdof t xmat ja com) = (jacColJoint t ja com point :: nil).
Proof.
  destruct ja as [xanchor xaxis]. destruct xmat as [[[[[[[[m0 m1] m2] m3] m4] m5] m6] m7] m8].
  intros [-> | ->]; reflexivity.
Qed.

(* ball / free rotational dofs: the three columns are (body axis k) x (point - xanchor), rotation part = body axis k *)
Lemma jac_ball (xmat : mat3 R) (ja : janchor R) (com point : vec3 R) :
  map (fun c : mvec R => jacCol c (sub3 point com)) (jointCdof JBall xmat ja com) =
    let '(m0, m1, m2, m3, m4, m5, m6, m7, m8) := xmat in
    ((cross (m0, m3, m6) (sub3 point (fst ja)), (m0, m3, m6)) ::
     (cross (m1, m4, m7) (sub3 point (fst ja)), (m1, m4, m7)) ::
     (cross (m2, m5, m8) (sub3 point (fst ja)), (m2, m5, m8)) :: nil).
Proof.
  destruct ja as [xanchor xaxis]. unfold jointCdof.
  destruct xmat as [[[[[[[[m0 m1] m2] m3] m4] m5] m6] m7] m8].
  cbn [map dofCom fst snd]. unfold jacCol. cbn [fst snd]. rewrite !cross_sub_cancel. reflexivity.
Qed.

(* ================================================================== Jacobian columns: derivative *)
Definition is_derive3 (f : R -> vec3 R) (x : R) (d : vec3 R) : Prop :=
  is_derive (fun t : R => fst (fst (f t))) x (fst (fst d)) /\
  is_derive (fun t : R => snd (fst (f t))) x (snd (fst d)) /\
  is_derive (fun t : R => snd (f t)) x (snd d).

Lemma is_derive3_ext (f g : R -> vec3 R) (x : R) (d : vec3 R) :
  (forall t : R, f t = g t) -> is_derive3 f x d -> is_derive3 g x d.
Proof.
  intros E (A & B & C). unfold is_derive3.
  split; [|split]; [eapply is_derive_ext; [|exact A] | eapply is_derive_ext; [|exact B] | eapply is_derive_ext; [|exact C]];
    intros t; cbv beta; rewrite (E t); reflexivity.
Qed.

Ltac vec_ring :=
  repeat match goal with v : vec3 R |- _ => destruct v as [[? ?] ?] end;
  unfold add3, sub3, scl3, cross, zero3; nR; apply vec_ext; ring.

(* the local motion of a hinge: w rotated about the unit axis a by the angle t - c *)
Definition hingeRot (a w : vec3 R) (phi : R) : vec3 R := rotVecQuat_reg w (axisAngle_reg a phi).

Lemma hingeRot_derive (a w : vec3 R) (c x : R) : unitv a ->
  is_derive3 (fun t : R => hingeRot a w (t - c)) x (cross a (hingeRot a w (x - c))).
Proof.
  dv a; dv w. unfold unitv, dot3. nR. intros U.
  unfold is_derive3, hingeRot, axisAngle_reg, rotVecQuat_reg, cross. nR. cbn [fst snd].
  split; [|split].
  - auto_derive; [exact I|]. unfold Rminus.
    generalize (sin ((x + - c) * / 2)) (cos ((x + - c) * / 2)) (sin2cos2 ((x + - c) * / 2)). intros S C SC.
    assert (HH : 2 * / 2 = 1) by lra. revert HH. generalize (/ 2). intros hf HH.
    nsatz.
  - auto_derive; [exact I|]. unfold Rminus.
    generalize (sin ((x + - c) * / 2)) (cos ((x + - c) * / 2)) (sin2cos2 ((x + - c) * / 2)). intros S C SC.
    assert (HH : 2 * / 2 = 1) by lra. revert HH. generalize (/ 2). intros hf HH.
    nsatz.
  - auto_derive; [exact I|]. unfold Rminus.
    generalize (sin ((x + - c) * / 2)) (cos ((x + - c) * / 2)) (sin2cos2 ((x + - c) * / 2)). intros S C SC.
    assert (HH : 2 * / 2 = 1) by lra. revert HH. generalize (/ 2). intros hf HH.
    nsatz.
Qed.

(* ---- linear maps and constants under the derivative *)
Lemma lin3_derive (k0 k1 k2 : R) (f0 f1 f2 : R -> R) (x d0 d1 d2 : R) :
  is_derive f0 x d0 -> is_derive f1 x d1 -> is_derive f2 x d2 ->
  is_derive (fun t : R => k0 * f0 t + k1 * f1 t + k2 * f2 t) x (k0 * d0 + k1 * d1 + k2 * d2).
Proof.
  intros A B C.
  apply (is_derive_plus (fun t : R => k0 * f0 t + k1 * f1 t) (fun t : R => k2 * f2 t)).
  - apply (is_derive_plus (fun t : R => k0 * f0 t) (fun t : R => k1 * f1 t)); apply is_derive_scal; assumption.
  - apply is_derive_scal; assumption.
Qed.

Lemma const_plus_derive (a : R) (f : R -> R) (x d : R) :
  is_derive f x d -> is_derive (fun t : R => f t + a) x d.
Proof.
  intros A. apply is_derive_Reals. apply is_derive_Reals in A.
  replace d with (d + 0) by ring.
  change (derivable_pt_lim (plus_fct f (fct_cte a)) x (d + 0)).
  apply derivable_pt_lim_plus; [exact A | apply derivable_pt_lim_const].
Qed.

Lemma mulMatVec3_derive (M : mat3 R) (f : R -> vec3 R) (x : R) (d : vec3 R) :
  is_derive3 f x d -> is_derive3 (fun t : R => mulMatVec3 M (f t)) x (mulMatVec3 M d).
Proof.
  destruct M as [[[[[[[[m0 m1] m2] m3] m4] m5] m6] m7] m8]. dv d. intros (A & B & C). cbn [fst snd] in A, B, C.
  unfold is_derive3. cbn [mulMatVec3 fst snd]. nR.
  split; [|split].
  - eapply is_derive_ext; [|exact (lin3_derive m0 m1 m2 _ _ _ x d0 d1 d2 A B C)].
    intros t. cbv beta. destruct (f t) as [[v0 v1] v2]. reflexivity.
  - eapply is_derive_ext; [|exact (lin3_derive m3 m4 m5 _ _ _ x d0 d1 d2 A B C)].
    intros t. cbv beta. destruct (f t) as [[v0 v1] v2]. reflexivity.
  - eapply is_derive_ext; [|exact (lin3_derive m6 m7 m8 _ _ _ x d0 d1 d2 A B C)].
    intros t. cbv beta. destruct (f t) as [[v0 v1] v2]. reflexivity.
Qed.

Lemma add3_const_derive (a : vec3 R) (f : R -> vec3 R) (x : R) (d : vec3 R) :
  is_derive3 f x d -> is_derive3 (fun t : R => add3 (f t) a) x d.
Proof.
  dv a. intros (A & B & C). unfold is_derive3.
  split; [|split].
  - eapply is_derive_ext; [|exact (const_plus_derive a0 _ x _ A)].
    intros t. cbv beta. destruct (f t) as [[v0 v1] v2]. reflexivity.
  - eapply is_derive_ext; [|exact (const_plus_derive a1 _ x _ B)].
    intros t. cbv beta. destruct (f t) as [[v0 v1] v2]. reflexivity.
  - eapply is_derive_ext; [|exact (const_plus_derive a2 _ x _ C)].
    intros t. cbv beta. destruct (f t) as [[v0 v1] v2]. reflexivity.
Qed.

(* a scaled rotation matrix maps cross products to cross products *)
Lemma mat_cross (q : quat R) (a b : vec3 R) :
  cross (mulMatVec3 (quat2Mat_reg q) a) (mulMatVec3 (quat2Mat_reg q) b) =
    scl3 (mulMatVec3 (quat2Mat_reg q) (cross a b)) (qnorm2 q).
Proof. dq q; dv a; dv b. unfold cross, mulMatVec3, quat2Mat_reg, scl3, qnorm2. nR. apply vec_ext; ring. Qed.

Lemma rot_is_mat (v : vec3 R) (q : quat R) : unitq q -> rotVecQuat_i v q = mulMatVec3 (quat2Mat_reg q) v.
Proof. intros U. rewrite rotVecQuat_i_is_reg. apply rotVecQuat_reg_mat. exact U. Qed.

Lemma rot_cross (a b : vec3 R) (q : quat R) : unitq q ->
  rotVecQuat_i (cross a b) q = cross (rotVecQuat_i a q) (rotVecQuat_i b q).
Proof.
  intros U. rewrite !rot_is_mat by assumption. rewrite mat_cross, U.
  set (y := mulMatVec3 (quat2Mat_reg q) (cross a b)). dv y. unfold scl3. nR. apply vec_ext; ring.
Qed.

Lemma rot_sub (u w : vec3 R) (q : quat R) :
  rotVecQuat_i (sub3 u w) q = sub3 (rotVecQuat_i u q) (rotVecQuat_i w q).
Proof. rewrite !rotVecQuat_i_is_reg. dv u; dv w; dq q. unfold rotVecQuat_reg, sub3. nR. apply vec_ext; ring. Qed.

Lemma rot_zero (q : quat R) : rotVecQuat_i zero3 q = zero3.
Proof. rewrite rotVecQuat_i_is_reg. dq q. unfold rotVecQuat_reg, zero3. nR. apply vec_ext; ring. Qed.

(* ---- equivariance of everything downstream of a joint under a rigid motion of the state *)
Definition act (g s : vec3 R * quat R) : vec3 R * quat R :=
  (add3 (rotVecQuat_i (fst s) (snd g)) (fst g), mulQuat (snd g) (snd s)).

Definition goodStep (c : @cstep R) : Prop :=
  match c with
  | CJoint j => j_type j <> JFree /\ goodJoint j
  | CFinish => True
  | CChild _ q => unitq q
  end.

Ltac abs_rot :=
  repeat match goal with
         | |- context [rotVecQuat_i ?v ?q] => let x := fresh "rv" in generalize (rotVecQuat_i v q); intro x
         end.

Lemma chainStep_equiv (c : @cstep R) (g s : vec3 R * quat R) :
  unitq (snd g) -> unitq (snd s) -> goodStep c ->
  exists s' : vec3 R * quat R,
    chainStep c s = Some s' /\ unitq (snd s') /\ chainStep c (act g s) = Some (act g s').
Proof.
  destruct g as [c0 r], s as [p q]. cbn [fst snd]. intros Ur Uq G.
  destruct c as [j| |pos qc]; cbn [goodStep] in G.
  - destruct G as [NF GJ]. unfold chainStep, act, jointStep, goodJoint in *. cbn [fst snd].
    destruct (j_type j) eqn:T.
    + congruence.
    + rewrite (normalize4_unit _ GJ). cbn [fst].
      eexists. split; [reflexivity|]. cbn [fst snd]. split; [apply unitq_mul; assumption|].
      f_equal. rewrite (mulQuat_assoc r q). f_equal.
      rewrite !rot_mul, rot_sub, rot_add by (auto using unitq_mul). abs_rot. vec_ring.
    + eexists. split; [reflexivity|]. cbn [fst snd]. split; [assumption|].
      f_equal. f_equal.
      rewrite !rot_mul, rot_add, rot_scl by (auto using unitq_mul). abs_rot.
      generalize (qs j - j_q0 j). intros dd. vec_ring.
    + assert (UA : unitq (axisAngle2Quat (j_axis j) (qs j - j_q0 j))) by (apply axisAngle2Quat_unit; exact GJ).
      eexists. split; [reflexivity|]. cbn [fst snd]. split; [apply unitq_mul; assumption|].
      f_equal. rewrite (mulQuat_assoc r q). f_equal.
      rewrite !rot_mul, rot_sub, rot_add by (auto using unitq_mul). abs_rot. vec_ring.
  - unfold chainStep, act. cbn [fst snd].
    rewrite (normalize4_unit _ Uq), (normalize4_unit _ (unitq_mul _ _ Ur Uq)). cbn [fst].
    eexists. split; [reflexivity|]. cbn [fst snd]. split; [assumption | reflexivity].
  - unfold chainStep, act. cbn [fst snd].
    eexists. split; [reflexivity|]. cbn [fst snd]. split; [apply unitq_mul; assumption|].
    f_equal. rewrite (mulQuat_assoc r q). f_equal.
    rewrite <- !rotVecQuat_i_mat by (auto using unitq_mul).
    rewrite !rot_mul, rot_add by (auto using unitq_mul). abs_rot. vec_ring.
Qed.

Lemma chainFK_equiv (cs : list (@cstep R)) : forall g s : vec3 R * quat R,
  unitq (snd g) -> unitq (snd s) -> List.Forall goodStep cs ->
  exists s' : vec3 R * quat R,
    chainFK cs s = Some s' /\ unitq (snd s') /\ chainFK cs (act g s) = Some (act g s').
Proof.
  induction cs as [|c r IH]; intros g s Ug Us G.
  - exists s. cbn [chainFK]. auto.
  - inversion G as [|? ? Gc Gr]; subst.
    destruct (chainStep_equiv c g s Ug Us Gc) as (s1 & E1 & U1 & E2).
    destruct (IH g s1 Ug U1 Gr) as (s2 & F1 & U2 & F2).
    exists s2. cbn [chainFK]. rewrite E1, E2. auto.
Qed.

Lemma act_id (g : vec3 R * quat R) : act g (zero3, quatId) = g.
Proof.
  destruct g as [c0 r]. unfold act. cbn [fst snd]. rewrite rot_zero, mulQuat_id_r. f_equal.
  dv c0. unfold add3, zero3. nR. apply vec_ext; ring.
Qed.

Lemma chain_from_id (cs : list (@cstep R)) (g : vec3 R * quat R) :
  unitq (snd g) -> List.Forall goodStep cs ->
  exists L : vec3 R * quat R,
    chainFK cs (zero3, quatId) = Some L /\ unitq (snd L) /\ chainFK cs g = Some (act g L).
Proof.
  intros Ug G. destruct (chainFK_equiv cs g (zero3, quatId) Ug unitq_id G) as (L & A & B & C).
  exists L. rewrite act_id in C. auto.
Qed.

Lemma pointOf_act (g L : vec3 R * quat R) (loc : vec3 R) :
  unitq (snd g) -> unitq (snd L) ->
  pointOf (act g L) loc = add3 (rotVecQuat_i (pointOf L loc) (snd g)) (fst g).
Proof.
  destruct g as [c0 r], L as [pL qL]. cbn [fst snd]. intros Ur UL. unfold pointOf, act. cbn [fst snd].
  rewrite <- !rotVecQuat_i_mat by (auto using unitq_mul).
  rewrite rot_mul, rot_add by assumption. abs_rot. vec_ring.
Qed.

Lemma dir_act (g L : vec3 R * quat R) (u : vec3 R) :
  unitq (snd g) -> unitq (snd L) ->
  mulMatVec3 (quat2Mat (snd (act g L))) u = rotVecQuat_i (mulMatVec3 (quat2Mat (snd L)) u) (snd g).
Proof.
  destruct g as [c0 r], L as [pL qL]. cbn [fst snd]. intros Ur UL. unfold act. cbn [fst snd].
  rewrite <- !rotVecQuat_i_mat by (auto using unitq_mul). apply rot_mul; assumption.
Qed.

(* ---- a joint coordinate as a variable *)
Definition setq (j : joint R) (x : R) : joint R :=
  mkJoint (j_type j) (j_pos j) (j_axis j) (x :: nil)%list (j_q0 j).

(* the state (xpos, xquat) reached at the end of the chain cs that follows joint j, as a function of the
   coordinate of j; st is the state just before the joint *)
Definition stateAt (j : joint R) (st : vec3 R * quat R) (cs : list (@cstep R)) (x : R) : option (vec3 R * quat R) :=
  match jointStep (setq j x) st with
  | Some (p, q, _) => chainFK cs (p, q)
  | None => None
  end.
(* world position of the point with coordinates loc in the frame at the end of the chain *)
Definition pointAt (j : joint R) (st : vec3 R * quat R) (cs : list (@cstep R)) (loc : vec3 R) (x : R) : vec3 R :=
  match stateAt j st cs x with Some s => pointOf s loc | None => zero3 end.
(* world coordinates of the direction u fixed in that frame: xmat * u *)
Definition dirAt (j : joint R) (st : vec3 R * quat R) (cs : list (@cstep R)) (u : vec3 R) (x : R) : vec3 R :=
  match stateAt j st cs x with Some s => mulMatVec3 (quat2Mat (snd s)) u | None => zero3 end.
(* (xanchor, xaxis) written by mj_kinematics1 for the joint *)
Definition anchorAt (j : joint R) (st : vec3 R * quat R) : janchor R :=
  match jointStep j st with Some (_, _, ja) => ja | None => (zero3, zero3) end.

Lemma hinge_closed_form (j : joint R) (p : vec3 R) (q : quat R) (cs : list (@cstep R)) :
  j_type j = JHinge -> unitv (j_axis j) -> unitq q -> List.Forall goodStep cs ->
  exists L : vec3 R * quat R, unitq (snd L) /\
    let xanchor := add3 (rotVecQuat_i (j_pos j) q) p in
    let M := quat2Mat_reg q in
    (forall x : R, anchorAt (setq j x) (p, q) = (xanchor, rotVecQuat_i (j_axis j) q)) /\
    (forall x : R, stateAt j (p, q) cs x <> None) /\
    (forall (loc : vec3 R) (x : R), pointAt j (p, q) cs loc x =
       add3 (mulMatVec3 M (hingeRot (j_axis j) (sub3 (pointOf L loc) (j_pos j)) (x - j_q0 j))) xanchor) /\
    (forall (u : vec3 R) (x : R), dirAt j (p, q) cs u x =
       mulMatVec3 M (hingeRot (j_axis j) (mulMatVec3 (quat2Mat (snd L)) u) (x - j_q0 j))).
Proof.
  intros T UA Uq G.
  destruct (chainFK_equiv cs (zero3, quatId) (zero3, quatId) unitq_id unitq_id G) as (L & EL & UL & _).
  exists L. split; [exact UL|]. cbv zeta.
  assert (ST : forall x : R, jointStep (setq j x) (p, q) =
            Some (sub3 (add3 (rotVecQuat_i (j_pos j) q) p)
                       (rotVecQuat_i (j_pos j) (mulQuat q (axisAngle2Quat (j_axis j) (x - j_q0 j)))),
                  mulQuat q (axisAngle2Quat (j_axis j) (x - j_q0 j)),
                  (add3 (rotVecQuat_i (j_pos j) q) p, rotVecQuat_i (j_axis j) q))).
  { intros x. unfold jointStep, setq, qs. cbn [j_type j_pos j_axis j_q j_q0 List.nth]. rewrite T. reflexivity. }
  assert (UX : forall x : R, unitq (mulQuat q (axisAngle2Quat (j_axis j) (x - j_q0 j)))).
  { intros x. apply unitq_mul; [assumption | apply axisAngle2Quat_unit; assumption]. }
  assert (FK : forall x : R, stateAt j (p, q) cs x =
            Some (act (sub3 (add3 (rotVecQuat_i (j_pos j) q) p)
                            (rotVecQuat_i (j_pos j) (mulQuat q (axisAngle2Quat (j_axis j) (x - j_q0 j)))),
                       mulQuat q (axisAngle2Quat (j_axis j) (x - j_q0 j))) L)).
  { intros x. unfold stateAt. rewrite ST.
    match goal with |- chainFK cs ?g = _ => destruct (chain_from_id cs g (UX x) G) as (L' & EL' & _ & E) end.
    rewrite EL in EL'. apply some_inj in EL'. subst L'. exact E. }
  split; [|split; [|split]].
  - intros x. unfold anchorAt. rewrite ST. reflexivity.
  - intros x. rewrite FK. discriminate.
  - intros loc x. unfold pointAt. rewrite FK, pointOf_act by (cbn [snd]; auto). cbn [fst snd].
    rewrite <- rot_is_mat by assumption. unfold hingeRot.
    rewrite <- axisAngle2Quat_is_reg, <- rotVecQuat_i_is_reg, <- rot_mul by (auto using axisAngle2Quat_unit).
    rewrite rot_sub. abs_rot. vec_ring.
  - intros u x. unfold dirAt. rewrite FK, dir_act by (cbn [snd]; auto). cbn [fst snd].
    rewrite <- rot_is_mat by assumption. unfold hingeRot.
    rewrite <- axisAngle2Quat_is_reg, <- rotVecQuat_i_is_reg, <- rot_mul by (auto using axisAngle2Quat_unit).
    reflexivity.
Qed.

Lemma slide_closed_form (j : joint R) (p : vec3 R) (q : quat R) (cs : list (@cstep R)) :
  j_type j = JSlide -> unitq q -> List.Forall goodStep cs ->
  exists L : vec3 R * quat R, unitq (snd L) /\
    let xaxis := rotVecQuat_i (j_axis j) q in
    (forall x : R, anchorAt (setq j x) (p, q) = (add3 (rotVecQuat_i (j_pos j) q) p, xaxis)) /\
    (forall x : R, stateAt j (p, q) cs x <> None) /\
    (forall (loc : vec3 R) (x : R), pointAt j (p, q) cs loc x =
       add3 (scl3 xaxis (x - j_q0 j)) (add3 (rotVecQuat_i (pointOf L loc) q) p)) /\
    (forall (u : vec3 R) (x : R), dirAt j (p, q) cs u x = rotVecQuat_i (mulMatVec3 (quat2Mat (snd L)) u) q).
Proof.
  intros T Uq G.
  destruct (chainFK_equiv cs (zero3, quatId) (zero3, quatId) unitq_id unitq_id G) as (L & EL & UL & _).
  exists L. split; [exact UL|]. cbv zeta.
  assert (ST : forall x : R, jointStep (setq j x) (p, q) =
            Some (add3 p (scl3 (rotVecQuat_i (j_axis j) q) (x - j_q0 j)), q,
                  (add3 (rotVecQuat_i (j_pos j) q) p, rotVecQuat_i (j_axis j) q))).
  { intros x. unfold jointStep, setq, qs. cbn [j_type j_pos j_axis j_q j_q0 List.nth]. rewrite T. reflexivity. }
  assert (FK : forall x : R, stateAt j (p, q) cs x =
            Some (act (add3 p (scl3 (rotVecQuat_i (j_axis j) q) (x - j_q0 j)), q) L)).
  { intros x. unfold stateAt. rewrite ST.
    match goal with |- chainFK cs ?g = _ => destruct (chain_from_id cs g Uq G) as (L' & EL' & _ & E) end.
    rewrite EL in EL'. apply some_inj in EL'. subst L'. exact E. }
  split; [|split; [|split]].
  - intros x. unfold anchorAt. rewrite ST. reflexivity.
  - intros x. rewrite FK. discriminate.
  - intros loc x. unfold pointAt. rewrite FK, pointOf_act by (cbn [snd]; auto). cbn [fst snd].
    abs_rot. generalize (x - j_q0 j). intros dd. vec_ring.
  - intros u x. unfold dirAt. rewrite FK, dir_act by (cbn [snd]; auto). reflexivity.
Qed.

Lemma const3_derive (a : vec3 R) (x : R) : is_derive3 (fun _ : R => a) x zero3.
Proof.
  unfold is_derive3, zero3. nR. cbn [fst snd].
  split; [|split]; apply is_derive_Reals;
    match goal with |- derivable_pt_lim (fun _ : R => ?c) _ _ => change (derivable_pt_lim (fct_cte c) x 0) end;
    apply derivable_pt_lim_const.
Qed.

Lemma cross_zero_l (v : vec3 R) : cross zero3 v = zero3.
Proof. dv v. unfold cross, zero3. nR. apply vec_ext; ring. Qed.

(* the column of mj_jac (through cdof of mj_comPos, any com) for a hinge or slide joint is the derivative of the
   world position of every point carried by a serial chain below the joint; the rotation column is the
   angular velocity of the carried frame *)
Lemma jac_column (j : joint R) (st : vec3 R * quat R) (cs : list (@cstep R)) (loc com : vec3 R) (x : R) :
  (j_type j = JHinge /\ unitv (j_axis j)) \/ j_type j = JSlide ->
  unitq (snd st) -> List.Forall goodStep cs ->
  let col := jacColJoint (j_type j) (anchorAt (setq j x) st) com (pointAt j st cs loc x) in
  (forall t : R, stateAt j st cs t <> None) /\
  is_derive3 (pointAt j st cs loc) x (fst col) /\
  (forall u : vec3 R, is_derive3 (dirAt j st cs u) x (cross (snd col) (dirAt j st cs u x))).
Proof.
  destruct st as [p q]. cbn [snd]. intros [[T UA]|T] Uq G; cbv zeta.
  - destruct (hinge_closed_form j p q cs T UA Uq G) as (L & UL & AN & DEF & PT & DIR).
    split; [exact DEF|]. rewrite T, AN. unfold jacColJoint, jacCol, dofCom. cbn [fst snd].
    rewrite cross_sub_cancel.
    assert (UM : unitq q) by assumption.
    split.
    + eapply is_derive3_ext; [intros t; symmetry; apply PT|].
      rewrite PT.
      replace (sub3 (add3 (mulMatVec3 (quat2Mat_reg q) (hingeRot (j_axis j) (sub3 (pointOf L loc) (j_pos j)) (x - j_q0 j)))
                          (add3 (rotVecQuat_i (j_pos j) q) p)) (add3 (rotVecQuat_i (j_pos j) q) p))
        with (mulMatVec3 (quat2Mat_reg q) (hingeRot (j_axis j) (sub3 (pointOf L loc) (j_pos j)) (x - j_q0 j)))
        by (abs_rot; generalize (mulMatVec3 (quat2Mat_reg q) (hingeRot (j_axis j) (sub3 (pointOf L loc) (j_pos j)) (x - j_q0 j))); intros mv; vec_ring).
      rewrite (rot_is_mat (j_axis j) q Uq), mat_cross, UM.
      replace (scl3 (mulMatVec3 (quat2Mat_reg q) (cross (j_axis j) (hingeRot (j_axis j) (sub3 (pointOf L loc) (j_pos j)) (x - j_q0 j)))) 1)
        with (mulMatVec3 (quat2Mat_reg q) (cross (j_axis j) (hingeRot (j_axis j) (sub3 (pointOf L loc) (j_pos j)) (x - j_q0 j))))
        by (generalize (mulMatVec3 (quat2Mat_reg q) (cross (j_axis j) (hingeRot (j_axis j) (sub3 (pointOf L loc) (j_pos j)) (x - j_q0 j)))); intros mv; vec_ring).
      apply add3_const_derive. apply mulMatVec3_derive. apply hingeRot_derive. exact UA.
    + intros u. eapply is_derive3_ext; [intros t; symmetry; apply DIR|].
      rewrite DIR, (rot_is_mat (j_axis j) q Uq), mat_cross, UM.
      replace (scl3 (mulMatVec3 (quat2Mat_reg q) (cross (j_axis j) (hingeRot (j_axis j) (mulMatVec3 (quat2Mat (snd L)) u) (x - j_q0 j)))) 1)
        with (mulMatVec3 (quat2Mat_reg q) (cross (j_axis j) (hingeRot (j_axis j) (mulMatVec3 (quat2Mat (snd L)) u) (x - j_q0 j))))
        by (generalize (mulMatVec3 (quat2Mat_reg q) (cross (j_axis j) (hingeRot (j_axis j) (mulMatVec3 (quat2Mat (snd L)) u) (x - j_q0 j)))); intros mv; vec_ring).
      apply mulMatVec3_derive. apply hingeRot_derive. exact UA.
  - destruct (slide_closed_form j p q cs T Uq G) as (L & UL & AN & DEF & PT & DIR).
    split; [exact DEF|]. rewrite T, AN. unfold jacColJoint, jacCol, dofCom. cbn [fst snd].
    rewrite cross_zero_l.
    split.
    + eapply is_derive3_ext; [intros t; symmetry; apply PT|].
      apply add3_const_derive.
      generalize (rotVecQuat_i (j_axis j) q). intros ax. dv ax.
      unfold is_derive3, scl3, add3, zero3. nR. cbn [fst snd].
      split; [|split]; auto_derive; try exact I; ring.
    + intros u. eapply is_derive3_ext; [intros t; symmetry; apply DIR|].
      rewrite cross_zero_l. apply const3_derive.
Qed.

(* ================================================================== a body of a tree is one segment of a chain *)
Lemma chainFK_joints (js : list (joint R)) : forall (st : vec3 R * quat R) (rest : list (@cstep R))
    (p : vec3 R) (q : quat R) (l : list (janchor R)),
  jointsLoop js st = Some (p, q, l) ->
  chainFK (map (@CJoint R) js ++ rest)%list st = chainFK rest (p, q).
Proof.
  induction js as [|j r IH]; intros st rest p q l E; cbn [jointsLoop] in E.
  - destruct st as [p0 q0]. cbn [fst snd] in E. inv3 E. reflexivity.
  - cbn [map app chainFK chainStep].
    destruct (jointStep j st) as [[[p1 q1] ja]|] eqn:ES; [|discriminate E].
    destruct (jointsLoop r (p1, q1)) as [[[p2 q2] l2]|] eqn:EL; [|discriminate E].
    inv3 E. eapply IH. exact EL.
Qed.

(* a regular (not free-floating, not mocap) body whose parent is not the world: its frame is obtained from the
   parent's frame by the chain  child offset :: its joints :: end of body  -- the steps of C07_jac_column_partial *)
Lemma bodyFrame_is_chain (frames : list (frame R)) (b : body R) (pp : vec3 R) (pq : quat R)
      (f : frame R) (ja : list (janchor R)) :
  freeJoint (b_joints b) = None -> b_mocap b = None -> b_parent b <> O ->
  nth_error frames (b_parent b) = Some (pp, pq, quat2Mat pq) ->
  bodyFrame frames b = Some (f, ja) ->
  chainFK (CChild (b_pos b) (b_quat b) :: map (@CJoint R) (b_joints b) ++ CFinish :: nil)%list (pp, pq) =
    Some (fst (fst f), snd (fst f)) /\
  snd f = quat2Mat (snd (fst f)).
Proof.
  intros NF NM NP EN. unfold bodyFrame, bodyStart. rewrite NF, NM, EN.
  replace (Nat.eqb (b_parent b) 0) with false by (symmetry; apply Nat.eqb_neq; exact NP).
  destruct (jointsLoop (b_joints b) (add3 (mulMatVec3 (quat2Mat pq) (b_pos b)) pp, mulQuat pq (b_quat b)))
    as [[[p q] l]|] eqn:EL; [|discriminate].
  intros E. inv2 E. cbn [chainFK chainStep fst snd].
  rewrite (chainFK_joints _ _ _ _ _ _ EL). cbn [chainFK chainStep fst snd].
  unfold finishBody. cbn [fst snd]. split; reflexivity.
Qed.

Lemma firstn_prefix {A : Type} (l pre : list A) (x : A) :
  firstn (length pre + 1) l = (pre ++ x :: nil)%list -> firstn (length pre) l = pre.
Proof.
  intros E. transitivity (firstn (length pre) (firstn (length pre + 1) l)).
  - rewrite firstn_firstn. f_equal. lia.
  - rewrite E, firstn_app, firstn_all, Nat.sub_diag. simpl. apply app_nil_r.
Qed.

Lemma nth_error_firstn_some {A : Type} (l : list A) : forall (n k : nat) (x : A),
  nth_error (firstn n l) k = Some x -> nth_error l k = Some x.
Proof.
  induction l as [|y r IH]; intros [|n] [|k] x E; simpl in *; try discriminate; auto. eapply IH; eauto.
Qed.

(* every body of a tree is computed by bodyFrame from the frames of the bodies before it *)
Lemma kinLoop_nth (bs : list (body R)) : forall (frames : list (frame R)) (jas : list (list (janchor R)))
    (frs : list (frame R)) (jr : list (list (janchor R))) (k : nat) (b : body R),
  kinLoop bs frames jas = Some (frs, jr) -> nth_error bs k = Some b ->
  exists (f : frame R) (ja : list (janchor R)),
    bodyFrame (firstn (length frames + k) frs) b = Some (f, ja) /\
    nth_error frs (length frames + k) = Some f /\
    firstn (length frames) frs = frames.
Proof.
  induction bs as [|b0 r IH]; intros frames jas frs jr k b E EN; [destruct k; discriminate EN|].
  cbn [kinLoop] in E. destruct (bodyFrame frames b0) as [[f0 ja0]|] eqn:EB; [|discriminate E].
  assert (PRE : forall (l : list (body R)) (fr : list (frame R)) (js : list (list (janchor R)))
                  (out : list (frame R)) (oj : list (list (janchor R))),
            kinLoop l fr js = Some (out, oj) -> firstn (length fr) out = fr).
  { induction l as [|x l IHl]; intros fr js out oj K; cbn [kinLoop] in K.
    - inv2 K. apply firstn_all.
    - destruct (bodyFrame fr x) as [[fx jx]|]; [|discriminate K].
      apply IHl in K. rewrite app_length in K. simpl in K.
      eapply firstn_prefix. exact K. }
  pose proof (PRE r (frames ++ f0 :: nil)%list (jas ++ ja0 :: nil)%list frs jr E) as P1.
  rewrite app_length in P1. simpl in P1.
  assert (P0 : firstn (length frames) frs = frames).
  { eapply firstn_prefix. exact P1. }
  destruct k as [|k].
  - cbn [nth_error] in EN. apply some_inj in EN. subst b0. exists f0, ja0.
    rewrite Nat.add_0_r, P0. split; [exact EB|]. split; [|reflexivity].
    assert (NE : nth_error (firstn (length frames + 1) frs) (length frames) = Some f0).
    { rewrite P1. rewrite nth_error_app2 by lia. rewrite Nat.sub_diag. reflexivity. }
    eapply nth_error_firstn_some. exact NE.
  - cbn [nth_error] in EN.
    destruct (IH _ _ _ _ k b E EN) as (f & ja & A & B & _).
    rewrite app_length in A, B. simpl in A, B.
    replace (length frames + 1 + k)%nat with (length frames + S k)%nat in A, B by lia.
    exists f, ja. auto.
Qed.

Lemma nth_error_firstn_lt {A : Type} (l : list A) : forall (n k : nat), (k < n)%nat -> nth_error (firstn n l) k = nth_error l k.
Proof. induction l as [|y r IH]; intros [|n] [|k] L; simpl; auto; try lia. apply IH. lia. Qed.

(* in a tree (any shape): the frame of every regular body whose parent is not the world is the chain
   child offset :: joints :: end of body  applied to the frame of its parent *)
Lemma tree_body_chain (bs : list (body R)) (frs : list (frame R)) (jas : list (list (janchor R))) (k : nat) (b : body R) :
  kinematics bs = Some (frs, jas) -> nth_error bs k = Some b ->
  freeJoint (b_joints b) = None -> b_mocap b = None -> b_parent b <> O -> (b_parent b < S k)%nat ->
  exists (pp xpos : vec3 R) (pq xquat : quat R),
    nth_error frs (b_parent b) = Some (pp, pq, quat2Mat pq) /\
    nth_error frs (S k) = Some (xpos, xquat, quat2Mat xquat) /\
    chainFK (CChild (b_pos b) (b_quat b) :: map (@CJoint R) (b_joints b) ++ CFinish :: nil)%list (pp, pq) =
      Some (xpos, xquat).
Proof.
  intros K EN NF NM NP LT.
  destruct (frames_any bs frs jas K) as [_ FA].
  unfold kinematics in K.
  destruct (kinLoop_nth bs _ _ frs jas k b K EN) as (f & ja & BF & NF1 & _). cbn [length Nat.add] in BF, NF1.
  assert (BF' := BF). unfold bodyFrame in BF'. rewrite NF in BF'. unfold bodyStart in BF'. rewrite NM in BF'.
  replace (Nat.eqb (b_parent b) 0) with false in BF' by (symmetry; apply Nat.eqb_neq; exact NP).
  destruct (nth_error (firstn (S k) frs) (b_parent b)) as [[[pp pq] pm]|] eqn:EP; [|discriminate BF'].
  clear BF'.
  assert (EP2 : nth_error frs (b_parent b) = Some (pp, pq, pm)) by (eapply nth_error_firstn_some; exact EP).
  assert (PM : pm = quat2Mat pq).
  { apply nth_error_In in EP2. rewrite Forall_forall in FA. apply FA in EP2. destruct EP2 as [E _]. exact E. }
  subst pm.
  destruct (bodyFrame_is_chain _ b pp pq f ja NF NM NP EP BF) as [CH FM].
  destruct f as [[xpos xquat] xm]. cbn [fst snd] in CH, FM. subst xm.
  exists pp, xpos, pq, xquat. auto.
Qed.

(* ================================================================== satisfiability of the hypotheses (Examples of Props/C07.v) *)
Lemma goodQV_example :
  goodQV (JHinge :: JBall :: JSlide :: nil)%list (3 :: 0 :: 1 :: 0 :: 0 :: 7 :: nil)%list (2 :: 0 :: 0 :: PI :: -1 :: nil)%list 1.
Proof.
  destruct sub_integrate_example as (U & A & B & C & D & _).
  cbn [goodQV]. repeat split; auto.
Qed.

Lemma chain_example :
  let j : joint R := mkJoint JHinge (1, 0, 0) (0, 0, 1) (0 :: nil)%list 0 in
  let s : joint R := mkJoint JSlide (0, 0, 0) (0, 3, 0) (5 :: nil)%list 1 in
  let b : joint R := mkJoint JBall (0, 1, 0) (0, 0, 1) (0 :: 0 :: 1 :: 0 :: nil)%list 0 in
  List.Forall goodStep (CJoint s :: CFinish :: CChild (0, 0, 2) (0, 1, 0, 0) :: CJoint b :: CJoint j :: CFinish :: nil)%list /\
  unitv (j_axis j) /\ unitq (snd ((1, 2, 3), (0, 0, 0, 1)) : quat R).
Proof.
  cbv zeta. split; [|split].
  - repeat (apply Forall_cons); try apply Forall_nil; cbn [goodStep]; try exact I.
    + split; [cbn [j_type]; discriminate | unfold goodJoint; cbn [j_type]; exact I].
    + unfold unitq, qnorm2. ring.
    + split; [cbn [j_type]; discriminate | unfold goodJoint; cbn [j_type]].
      unfold unitq, qnorm2, qq4. cbn [j_q List.nth Nat.add]. nR. ring.
    + split; [cbn [j_type]; discriminate | unfold goodJoint; cbn [j_type]].
      unfold unitv, dot3. cbn [j_axis]. nR. ring.
  - unfold unitv, dot3. cbn [j_axis]. nR. ring.
  - cbn [snd]. unfold unitq, qnorm2. ring.
Qed.

(* ================================================================== statements as used by Props/C07.v *)
Lemma local2Global_both (fr : frame R) (ifr : vec3 R * mat3 R) (pos : vec3 R) (q : quat R) (sf : Z) :
  frameUnit fr -> isRot (snd ifr) -> unitq q ->
  isRot (snd (local2Global fr ifr pos q sf)) /\ isRot (snd (inertialFrame fr pos q sf)).
Proof. intros. split; [apply local2Global_rot | apply inertialFrame_rot]; assumption. Qed.

Lemma diff_integrate_full (js : list jtype) (qpos qvel : list R) (h : R) :
  h <> 0 -> goodQV js qpos qvel h ->
  differentiatePos js h qpos (integratePos js qpos qvel h) = qvel /\
  length qvel = nv_of js /\ (nq_of js <= length qpos)%nat.
Proof. intros. split; [apply diff_integrate | eapply goodQV_sizes]; eassumption. Qed.

Lemma jac_column_algebra (xmat : mat3 R) (ja : janchor R) (com point : vec3 R) :
  map (fun c : mvec R => jacCol c (sub3 point com)) (jointCdof JHinge xmat ja com) =
    ((cross (snd ja) (sub3 point (fst ja)), snd ja) :: nil) /\
  map (fun c : mvec R => jacCol c (sub3 point com)) (jointCdof JSlide xmat ja com) =
    ((snd ja, zero3) :: nil) /\
  map (fun c : mvec R => jacCol c (sub3 point com)) (jointCdof JBall xmat ja com) =
    (let '(m0, m1, m2, m3, m4, m5, m6, m7, m8) := xmat in
     (cross (m0, m3, m6) (sub3 point (fst ja)), (m0, m3, m6)) ::
     (cross (m1, m4, m7) (sub3 point (fst ja)), (m1, m4, m7)) ::
     (cross (m2, m5, m8) (sub3 point (fst ja)), (m2, m5, m8)) :: nil) /\
  (forall t : jtype, t = JHinge \/ t = JSlide ->
     map (fun c : mvec R => jacCol c (sub3 point com)) (jointCdof t xmat ja com) = (jacColJoint t ja com point :: nil)).
Proof.
  split; [apply jac_hinge | split; [apply jac_slide | split; [apply jac_ball | intros; apply jacColJoint_eq; assumption]]].
Qed.

(* the subtree_com used for the point offset must be the one used in cdof (the tree root's): with another one the hinge
   column is off by xaxis x (com_cdof - com_offset); this is what distinguishes mj_jac / mj_jacSparse / mj_jacSparseSimple,
   which all take subtree_com[body_rootid[body]], from a variant reading the com of the body itself *)
Lemma jac_hinge_com_mismatch (xmat : mat3 R) (ja : janchor R) (com com' point : vec3 R) :
  map (fun c : mvec R => jacCol c (sub3 point com')) (jointCdof JHinge xmat ja com) =
    ((add3 (cross (snd ja) (sub3 point (fst ja))) (cross (snd ja) (sub3 com com')), snd ja) :: nil).
Proof.
  destruct ja as [xanchor xaxis]. unfold jointCdof.
  destruct xmat as [[[[[[[[m0 m1] m2] m3] m4] m5] m6] m7] m8].
  cbn [map dofCom fst snd]. unfold jacCol. cbn [fst snd]. f_equal. f_equal.
  dv xaxis; dv xanchor; dv com; dv com'; dv point. unfold add3, cross, sub3. nR. apply vec_ext; ring.
Qed.
