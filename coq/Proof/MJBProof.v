(* C31 — proofs about Model/MJB.v (the MJB codec model), for every layout table *)
From Coq Require Import ZArith List Bool Lia.
From MJV Require Import Model.MJB.
Import ListNotations.
Open Scope Z_scope.
Arguments take : simpl never.

(* ================================================================== little-endian integers *)
Lemma le_enc_length : forall n z, length (le_enc n z) = n.
Proof. induction n; simpl; intros; [reflexivity | now rewrite IHn]. Qed.

Lemma le_dec_enc_u : forall n z, le_dec_u (le_enc n z) = z mod 256 ^ Z.of_nat n.
Proof.
  induction n; intros z.
  - simpl. now rewrite Z.mod_1_r.
  - cbn [le_enc le_dec_u]. rewrite IHn.
    replace (256 ^ Z.of_nat (S n)) with (256 * 256 ^ Z.of_nat n)
      by (rewrite Nat2Z.inj_succ, Z.pow_succ_r; lia).
    rewrite Z.rem_mul_r; [reflexivity | lia | apply Z.pow_pos_nonneg; lia].
Qed.

Lemma mod_signed : forall z M, 0 < M -> - M <= z < M -> z mod (2 * M) = if z <? 0 then z + 2 * M else z.
Proof.
  intros z M HM Hz. destruct (Z.ltb_spec z 0).
  - symmetry. apply Z.mod_unique with (q := -1); lia.
  - apply Z.mod_small. lia.
Qed.

Lemma le_s4 : forall z, - W31 <= z < W31 -> le_dec_s 4 (le_enc 4 z) = z.
Proof.
  intros z Hz. unfold le_dec_s. rewrite le_dec_enc_u.
  change (256 ^ Z.of_nat 4) with (2 * W31). change (2 ^ (8 * Z.of_nat 4 - 1)) with W31.
  rewrite mod_signed by (unfold W31 in *; lia).
  unfold W31 in *. destruct (Z.ltb_spec z 0).
  - destruct (Z.ltb_spec (z + 2 * 2147483648) 2147483648); lia.
  - destruct (Z.ltb_spec z 2147483648); lia.
Qed.

Lemma le_s8 : forall z, - (I64MAX + 1) <= z <= I64MAX -> le_dec_s 8 (le_enc 8 z) = z.
Proof.
  intros z Hz. unfold le_dec_s. rewrite le_dec_enc_u.
  change (256 ^ Z.of_nat 8) with (2 * (I64MAX + 1)). change (2 ^ (8 * Z.of_nat 8 - 1)) with (I64MAX + 1).
  rewrite mod_signed by (unfold I64MAX in *; lia).
  unfold I64MAX in *. destruct (Z.ltb_spec z 0).
  - destruct (Z.ltb_spec (z + 2 * (9223372036854775807 + 1)) (9223372036854775807 + 1)); lia.
  - destruct (Z.ltb_spec z (9223372036854775807 + 1)); lia.
Qed.

(* ================================================================== lists *)
Lemma zlen_app : forall A (a b : list A), zlen (a ++ b) = zlen a + zlen b.
Proof. intros. unfold zlen. rewrite app_length. lia. Qed.
Lemma zlen_nonneg : forall A (a : list A), 0 <= zlen a.
Proof. intros. unfold zlen. lia. Qed.
Lemma zlen_cons : forall A (x : A) l, zlen (x :: l) = 1 + zlen l.
Proof. intros. unfold zlen. simpl length. lia. Qed.

Lemma take_app : forall a b, take (zlen a) (a ++ b) = (a, b).
Proof.
  intros. unfold take, zlen. rewrite Nat2Z.id. f_equal.
  - rewrite firstn_app, Nat.sub_diag, firstn_all. simpl. apply app_nil_r.
  - rewrite skipn_app, Nat.sub_diag, skipn_all. reflexivity.
Qed.

Lemma firstn_zlen_app : forall (a b : list Z), firstn (Z.to_nat (zlen a)) (a ++ b) = a.
Proof. intros. pose proof (take_app a b) as H. unfold take in H. now apply (f_equal fst) in H. Qed.
Lemma skipn_zlen_app : forall (a b : list Z), skipn (Z.to_nat (zlen a)) (a ++ b) = b.
Proof. intros. pose proof (take_app a b) as H. unfold take in H. now apply (f_equal snd) in H. Qed.

Lemma take_app_eq : forall n a b, n = zlen a -> take n (a ++ b) = (a, b).
Proof. intros; subst; apply take_app. Qed.

Lemma firstn_app_l : forall A n (a b : list A), length a = n -> firstn n (a ++ b) = a.
Proof. intros. subst. rewrite firstn_app, Nat.sub_diag, firstn_all. simpl. apply app_nil_r. Qed.
Lemma skipn_app_l : forall A n (a b : list A), length a = n -> skipn n (a ++ b) = b.
Proof. intros. subst. rewrite skipn_app, Nat.sub_diag, skipn_all. reflexivity. Qed.

Lemma chunks_enc : forall w zs rest,
  chunks w (length zs) (enc_ints w zs ++ rest) = map (le_enc w) zs.
Proof.
  induction zs; intros; simpl; [reflexivity|].
  unfold enc_ints in *. simpl. rewrite <- app_assoc.
  rewrite firstn_app_l, skipn_app_l by apply le_enc_length. now rewrite IHzs.
Qed.

Lemma chunks_length : forall w cnt l, length (chunks w cnt l) = cnt.
Proof. induction cnt; simpl; intros; [reflexivity | now rewrite IHcnt]. Qed.
Lemma ints_length : forall w cnt l, length (ints w cnt l) = cnt.
Proof. intros. unfold ints. now rewrite map_length, chunks_length. Qed.

Lemma enc_ints_zlen : forall w zs, zlen (enc_ints w zs) = Z.of_nat w * zlen zs.
Proof.
  induction zs; unfold enc_ints in *; simpl.
  - unfold zlen. simpl. lia.
  - rewrite zlen_app, IHzs, zlen_cons. unfold zlen at 1. rewrite le_enc_length. lia.
Qed.

Lemma ints4_enc : forall zs rest, forallb in_i32 zs = true ->
  ints 4 (length zs) (enc_ints 4 zs ++ rest) = zs.
Proof.
  intros. unfold ints. rewrite chunks_enc, map_map.
  induction zs; simpl in *; [reflexivity|].
  apply andb_prop in H. destruct H as [Ha Hr]. rewrite IHzs by assumption. f_equal.
  unfold in_i32 in Ha. apply andb_prop in Ha. destruct Ha. apply le_s4. lia.
Qed.

Lemma ints8_enc : forall zs rest, forallb in_i64 zs = true ->
  ints 8 (length zs) (enc_ints 8 zs ++ rest) = zs.
Proof.
  intros. unfold ints. rewrite chunks_enc, map_map.
  induction zs; simpl in *; [reflexivity|].
  apply andb_prop in H. destruct H as [Ha Hr]. rewrite IHzs by assumption. f_equal.
  unfold in_i64 in Ha. apply andb_prop in Ha. destruct Ha. apply le_s8. lia.
Qed.

Lemma mismatch_refl : forall l i, mismatch i l l = None.
Proof. induction l; simpl; intros; [reflexivity|]. rewrite Z.eqb_refl. apply IHl. Qed.

Lemma mismatch_none : forall got want i, length got = length want ->
  mismatch i got want = None -> got = want.
Proof.
  induction got; destruct want; simpl; intros; try discriminate; [reflexivity|].
  destruct (Z.eqb_spec a z); [|discriminate]. subst. f_equal. eapply IHgot; eauto.
Qed.

Lemma mismatch_some : forall got want i k, mismatch i got want = Some k ->
  (i <= k)%nat /\ nth (k - i) got 0 <> nth (k - i) want 0 /\
  firstn (k - i) got = firstn (k - i) want.
Proof.
  induction got; destruct want; simpl; intros; try discriminate.
  destruct (Z.eqb_spec a z).
  - subst. apply IHgot in H. destruct H as (H1 & H2 & H3).
    replace (k - i)%nat with (S (k - S i)) by lia. simpl. repeat split; [lia | assumption | now f_equal].
  - inversion H; subst. rewrite Nat.sub_diag. simpl. repeat split; [lia | assumption].
Qed.

(* ================================================================== round trip *)
Lemma zsum_app : forall a b, zsum (a ++ b) = zsum a + zsum b.
Proof. induction a; simpl; intros; [reflexivity | rewrite IHa; lia]. Qed.

Lemma concat_zlen_cons : forall (l : list Z) ls, zlen (concat (l :: ls)) = zlen l + zlen (concat ls).
Proof. intros. simpl. apply zlen_app. Qed.

Lemma take_list_concat : forall ns blobs ptr rest,
  lens_eq ns blobs = true ->
  exists rds, take_list ns ptr (concat blobs ++ rest) = (blobs, ptr + zsum ns, rest, rds)
              /\ zlen (concat blobs) = zsum ns.
Proof.
  induction ns; destruct blobs; simpl; intros; try discriminate.
  - exists []. split; [f_equal; f_equal; f_equal; lia | reflexivity].
  - apply andb_prop in H. destruct H as [Hl Hr]. apply Z.eqb_eq in Hl.
    rewrite <- app_assoc, <- Hl. rewrite firstn_zlen_app, skipn_zlen_app.
    destruct (IHns blobs (ptr + zlen l) rest Hr) as (rds & E & Ez). rewrite E.
    exists ((ptr, zlen l) :: rds). split; [f_equal; f_equal; f_equal; lia|].
    rewrite zlen_app, Ez. reflexivity.
Qed.

Lemma mod_small_W64 : forall x, 0 <= x <= INT_MAX -> x mod W64 = x.
Proof. intros. apply Z.mod_small. unfold INT_MAX, W64 in *. lia. Qed.

Lemma read_arrays_ok : forall s len arrs plan blobs ptr rest k,
  lens_ok s arrs plan blobs = true -> 0 <= ptr -> ptr + zlen (concat blobs) <= len -> len <= INT_MAX ->
  exists rds wrs, read_arrays s len ptr (concat blobs ++ rest) k arrs plan
                  = (RA_ok (ptr + zlen (concat blobs)) rest blobs, rds, wrs).
Proof.
  induction arrs; destruct plan, blobs; simpl lens_ok; intros; try discriminate.
  - simpl. exists [], []. f_equal. f_equal. f_equal. unfold zlen. simpl. lia.
  - destruct p; discriminate.
  - destruct p as (mo, q).
    apply andb_prop in H. destruct H as [H Hr]. apply andb_prop in H. destruct H as [Hl Hq].
    apply Z.eqb_eq in Hl. apply Z.eqb_eq in Hq.
    rewrite concat_zlen_cons in *.
    pose proof (zlen_nonneg _ l). pose proof (zlen_nonneg _ (concat blobs)).
    cbn [read_arrays]. rewrite <- Hl.
    rewrite (mod_small_W64 (zlen l)) by lia.
    rewrite (mod_small_W64 (ptr + zlen l)) by lia.
    destruct (Z.gtb_spec (ptr + zlen l) len); [lia|].
    destruct (Z.leb_spec W31 (zlen l)); [unfold W31, INT_MAX in *; lia|].
    simpl concat. rewrite <- app_assoc, take_app. cbn [hd tl].
    destruct (IHarrs plan blobs (ptr + zlen l) rest (S k) Hr) as (rds & wrs & E); try lia.
    rewrite E. eexists. eexists. f_equal. f_equal. f_equal. lia.
Qed.

Lemma wf_model_inv : forall L m, wf_modelb L m = true ->
  length (m_sizes m) = l_nsize L /\ forallb in_i64 (m_sizes m) = true /\
  (exists nb plan, make_model L (m_sizes m) = inr (nb, plan) /\ nb = sz (m_sizes m) (l_nsize L - 1) /\
                   lens_ok (m_sizes m) (l_arrays L) plan (m_arrays m) = true) /\
  lens_eq (l_structs L) (m_structs m) = true /\ zlen (encode L m) <= INT_MAX /\
  sz (m_sizes m) (l_mapidx L) = sz (alloc_sizes L (m_sizes m)) (l_mapidx L) /\
  validate_all L m = None.
Proof.
  intros L m H. unfold wf_modelb in H.
  repeat (apply andb_prop in H; destruct H as [H ?]).
  apply Nat.eqb_eq in H. repeat split; try assumption.
  - destruct (make_model L (m_sizes m)) as [r | [nb plan]]; [discriminate|].
    apply andb_prop in H4. destruct H4 as [Hn Hl]. apply Z.eqb_eq in Hn.
    exists nb, plan. auto.
  - apply Z.leb_le. assumption.
  - apply Z.eqb_eq. assumption.
  - destruct (validate_all L m); [discriminate | reflexivity].
Qed.

Lemma wf_layout_inv : forall L, wf_layout L = true ->
  forallb in_i32 (l_hdr L) = true /\ 0 < l_align L /\ forallb (fun n => 0 <=? n) (l_structs L) = true /\
  forallb (fun a => 0 <=? a_esz a) (l_arrays L) = true /\ (1 <= l_nsize L)%nat.
Proof.
  intros L H. unfold wf_layout in H. repeat (apply andb_prop in H; destruct H as [H ?]).
  repeat split; try assumption; [now apply Z.ltb_lt | now apply Nat.leb_le].
Qed.

(* a buffer that starts with a correct header and the size fields s *)
Lemma file_hdr_enc : forall L s rest, forallb in_i32 (l_hdr L) = true ->
  file_hdr L (enc_ints 4 (l_hdr L) ++ enc_ints 8 s ++ rest) = l_hdr L.
Proof.
  intros. unfold file_hdr, hdr_bytes.
  rewrite take_app_eq by (rewrite enc_ints_zlen; reflexivity).
  cbn [fst]. rewrite <- (app_nil_r (enc_ints 4 (l_hdr L))). apply ints4_enc. assumption.
Qed.

Lemma file_sizes_enc : forall L s rest, length s = l_nsize L -> forallb in_i64 s = true ->
  file_sizes L (enc_ints 4 (l_hdr L) ++ enc_ints 8 s ++ rest) = s.
Proof.
  intros. unfold file_sizes, hdr_bytes, sizes_bytes.
  rewrite take_app_eq by (rewrite enc_ints_zlen; reflexivity). cbn [snd].
  rewrite take_app_eq by (rewrite enc_ints_zlen; unfold zlen; rewrite H; reflexivity).
  cbn [fst]. rewrite <- H. rewrite <- (app_nil_r (enc_ints 8 s)). apply ints8_enc. assumption.
Qed.

Lemma rest_after_sizes : forall L s rest, length s = l_nsize L ->
  snd (take (sizes_bytes L) (snd (take (hdr_bytes L) (enc_ints 4 (l_hdr L) ++ enc_ints 8 s ++ rest)))) = rest.
Proof.
  intros. unfold hdr_bytes, sizes_bytes.
  rewrite take_app_eq by (rewrite enc_ints_zlen; reflexivity). cbn [snd].
  rewrite take_app_eq by (rewrite enc_ints_zlen; unfold zlen; rewrite H; reflexivity). reflexivity.
Qed.

Lemma encode_zlen : forall L m,
  zlen (encode L m) = hdr_bytes L + 8 * zlen (m_sizes m) + zlen (concat (m_structs m)) + zlen (concat (m_arrays m)).
Proof.
  intros. unfold encode, hdr_bytes. rewrite !zlen_app, !enc_ints_zlen. lia.
Qed.

Lemma lens_ok_sum : forall s arrs plan blobs, lens_ok s arrs plan blobs = true ->
  zlen (concat blobs) <= INT_MAX ->
  zsum (map (fun a => arr_bytes s a mod W64) arrs) = zlen (concat blobs).
Proof.
  induction arrs; destruct plan, blobs; simpl lens_ok; intros; try discriminate.
  - reflexivity.
  - destruct p; discriminate.
  - destruct p as (mo, q).
    apply andb_prop in H. destruct H as [H Hr]. apply andb_prop in H. destruct H as [Hl Hq].
    apply Z.eqb_eq in Hl. rewrite concat_zlen_cons in *.
    pose proof (zlen_nonneg _ l). pose proof (zlen_nonneg _ (concat blobs)).
    simpl. rewrite <- Hl, mod_small_W64 by lia. rewrite (IHarrs plan blobs Hr) by lia. reflexivity.
Qed.

Lemma wrap64s_small : forall x, 0 <= x <= INT_MAX -> wrap64s x = x.
Proof.
  intros. unfold wrap64s. rewrite mod_small_W64 by assumption.
  destruct (Z.leb_spec x I64MAX); [reflexivity | unfold INT_MAX, I64MAX in *; lia].
Qed.

Theorem size_model_length : forall L m, wf_modelb L m = true -> zlen (encode L m) = sizeModel L m.
Proof.
  intros L m H. destruct (wf_model_inv _ _ H) as (Hn & Hi & (nb & plan & Hmk & Hnb & Hlens) & Hst & Hmax & Hmp & Hv).
  pose proof (encode_zlen L m) as E. rewrite E in Hmax.
  destruct (take_list_concat _ _ 0 [] Hst) as (rds & _ & Ezs).
  pose proof (zlen_nonneg _ (concat (m_arrays m))). pose proof (zlen_nonneg _ (concat (m_structs m))).
  pose proof (zlen_nonneg _ (m_sizes m)). pose proof (zlen_nonneg _ (l_hdr L)).
  unfold hdr_bytes in *.
  unfold sizeModel. rewrite (lens_ok_sum _ _ _ _ Hlens) by lia.
  rewrite E. unfold zlen at 2. rewrite Hn. rewrite Ezs.
  rewrite wrap64s_small; [reflexivity|].
  unfold zlen in Hmax at 2. rewrite Hn in Hmax. rewrite Ezs in Hmax. lia.
Qed.

Theorem decode_encode : forall L m, wf_layout L = true -> wf_modelb L m = true ->
  decode L (encode L m) = Ok m.
Proof.
  intros L m HL H.
  destruct (wf_layout_inv _ HL) as (Hh & Hal & Hs0 & He0 & Hn1).
  destruct (wf_model_inv _ _ H) as (Hn & Hi & (nb & plan & Hmk & Hnb & Hlens) & Hst & Hmax & Hmp & Hv).
  pose proof (encode_zlen L m) as E.
  destruct (take_list_concat _ _ (hdr_bytes L + sizes_bytes L) (concat (m_arrays m)) Hst) as (rd3 & Etl & Ezs).
  pose proof (zlen_nonneg _ (concat (m_arrays m))). pose proof (zlen_nonneg _ (concat (m_structs m))).
  pose proof (zlen_nonneg _ (l_hdr L)).
  assert (Esb : sizes_bytes L = 8 * zlen (m_sizes m)) by (unfold sizes_bytes, zlen; rewrite Hn; reflexivity).
  assert (0 <= sizes_bytes L) by (unfold sizes_bytes; lia).
  assert (Hfh : file_hdr L (encode L m) = l_hdr L) by (unfold encode; apply file_hdr_enc; assumption).
  assert (Hfs : file_sizes L (encode L m) = m_sizes m) by (unfold encode; apply file_sizes_enc; assumption).
  assert (Hrs : snd (take (sizes_bytes L) (snd (take (hdr_bytes L) (encode L m)))) = concat (m_structs m) ++ concat (m_arrays m))
    by (unfold encode; apply rest_after_sizes; assumption).
  unfold decode, decode_i.
  destruct (Z.ltb_spec (zlen (encode L m)) (hdr_bytes L)); [unfold hdr_bytes in *; lia|].
  rewrite Hfh, mismatch_refl.
  destruct (Z.gtb_spec (hdr_bytes L + sizes_bytes L) (zlen (encode L m))); [lia|].
  rewrite Hfs, Hrs.
  unfold decode_body. rewrite Hmk.
  rewrite <- Hnb, Z.eqb_refl. cbn [negb].
  assert (Hmap : (l_mapchk L && negb (sz (m_sizes m) (l_mapidx L) =? sz (alloc_sizes L (m_sizes m)) (l_mapidx L))) = false).
  { rewrite <- Hmp, Z.eqb_refl. apply andb_false_r. }
  rewrite Hmap.
  destruct (Z.gtb_spec (hdr_bytes L + sizes_bytes L + zsum (l_structs L)) (zlen (encode L m))); [lia|].
  rewrite Etl.
  unfold decode_arrays.
  assert (Hs0' : 0 <= zsum (l_structs L)) by lia.
  destruct (read_arrays_ok (m_sizes m) (zlen (encode L m)) (l_arrays L) plan (m_arrays m)
             (hdr_bytes L + sizes_bytes L + zsum (l_structs L)) [] 0 Hlens) as (rds & wrs & Er);
    [unfold hdr_bytes in *; lia | lia | lia |].
  rewrite app_nil_r in Er. rewrite Er.
  replace (hdr_bytes L + sizes_bytes L + zsum (l_structs L) + zlen (concat (m_arrays m)) =? zlen (encode L m)) with true
    by (symmetry; apply Z.eqb_eq; lia).
  cbn [negb]. destruct m as [ms mst mar]. cbn [m_sizes m_structs m_arrays] in *. rewrite Hv. reflexivity.
Qed.

(* ================================================================== inversion of an accepted load *)
Lemma take_list_ptr : forall ns ptr rest bl p r rds,
  take_list ns ptr rest = (bl, p, r, rds) -> p = ptr + zsum ns.
Proof.
  induction ns; cbn [take_list]; intros.
  - inversion H. subst. symmetry. apply Z.add_0_r.
  - change (zsum (a :: ns)) with (a + zsum ns).
    destruct (take a rest) as [blob rest'].
    destruct (take_list ns (ptr + a) rest') as [[[b1 p1] r1] rd1] eqn:E.
    inversion H; subst. apply IHns in E. lia.
Qed.

Definition arr_sum (fsz : list Z) (arrs : list arrdesc) : Z :=
  zsum (map (fun a => arr_bytes fsz a mod W64) arrs).

Lemma read_arrays_ptr : forall fsz len arrs plan ptr rest k p4 r4 blobs rds wrs,
  read_arrays fsz len ptr rest k arrs plan = (RA_ok p4 r4 blobs, rds, wrs) ->
  p4 = ptr + arr_sum fsz arrs.
Proof.
  unfold arr_sum. induction arrs; cbn [read_arrays map]; intros.
  - inversion H. subst. symmetry. apply Z.add_0_r.
  - destruct (Z.gtb_spec ((ptr + arr_bytes fsz a mod W64) mod W64) len); [discriminate|].
    destruct (Z.leb_spec W31 (arr_bytes fsz a mod W64)); [discriminate|].
    destruct (take (arr_bytes fsz a mod W64) rest) as [blob rest'].
    destruct (hd (0, 0) plan) as [mo q].
    destruct (read_arrays fsz len (ptr + arr_bytes fsz a mod W64) rest' (S k) arrs (tl plan)) as [[res rd1] wr1] eqn:E.
    destruct res; inversion H; subst. apply IHarrs in E.
    match goal with |- _ = _ + zsum (?x :: ?y) => change (zsum (x :: y)) with (x + zsum y) end. lia.
Qed.

Lemma decode_arrays_ok_inv : forall L len fsz plan p3 r3 sblobs m rds wrs,
  decode_arrays L len fsz plan p3 r3 sblobs = (Ok m, rds, wrs) ->
  exists r4 blobs, read_arrays fsz len p3 r3 0 (l_arrays L) plan = (RA_ok len r4 blobs, rds, wrs) /\
                   m = mkModel fsz sblobs blobs /\ validate_all L m = None.
Proof.
  unfold decode_arrays. intros.
  destruct (read_arrays fsz len p3 r3 0 (l_arrays L) plan) as [[res rd1] wr1] eqn:E.
  destruct res; try discriminate.
  destruct (Z.eqb_spec ptr len); cbn [negb] in H; [|discriminate]. subst ptr.
  destruct (validate_all L (mkModel fsz sblobs blobs)) eqn:Ev; [discriminate|].
  inversion H; subst. eauto.
Qed.

Lemma decode_body_ok_inv : forall L len fsz p2 r2 m rds wrs nb,
  decode_body L len fsz p2 r2 = (Ok m, rds, wrs, nb) ->
  exists plan, make_model L fsz = inr (nb, plan) /\ nb = sz fsz (l_nsize L - 1) /\
    (l_mapchk L = true -> sz fsz (l_mapidx L) = sz (alloc_sizes L fsz) (l_mapidx L)) /\
    p2 + zsum (l_structs L) <= len /\
    exists sblobs r3 rd3 rd4 r4 blobs,
      take_list (l_structs L) p2 r2 = (sblobs, p2 + zsum (l_structs L), r3, rd3) /\
      read_arrays fsz len (p2 + zsum (l_structs L)) r3 0 (l_arrays L) plan = (RA_ok len r4 blobs, rd4, wrs) /\
      rds = rd3 ++ rd4 /\ m = mkModel fsz sblobs blobs /\ validate_all L m = None.
Proof.
  unfold decode_body. intros.
  destruct (make_model L fsz) as [r | [nb0 plan]]; [discriminate|].
  destruct (Z.eqb_spec nb0 (sz fsz (l_nsize L - 1))); cbn [negb] in H; [|discriminate].
  destruct (l_mapchk L && negb (sz fsz (l_mapidx L) =? sz (alloc_sizes L fsz) (l_mapidx L))) eqn:Emap; [discriminate|].
  destruct (Z.gtb_spec (p2 + zsum (l_structs L)) len); [discriminate|].
  destruct (take_list (l_structs L) p2 r2) as [[[sblobs p3] r3] rd3] eqn:Etl.
  destruct (decode_arrays L len fsz plan p3 r3 sblobs) as [[o rd4] wr4] eqn:Eda.
  inversion H; subst.
  pose proof (take_list_ptr _ _ _ _ _ _ _ Etl). subst p3.
  apply decode_arrays_ok_inv in Eda. destruct Eda as (r4 & blobs & Er & Em & Ev).
  exists plan. repeat split; try assumption; try reflexivity.
  - intros Hc. rewrite Hc in Emap. cbn [andb] in Emap.
    destruct (Z.eqb_spec (sz fsz (l_mapidx L)) (sz (alloc_sizes L fsz) (l_mapidx L))); [assumption | discriminate].
  - exists sblobs, r3, rd3, rd4, r4, blobs. auto.
Qed.

Lemma decode_ok_inv : forall L b m, decode L b = Ok m ->
  hdr_bytes L + sizes_bytes L <= zlen b /\ file_hdr L b = l_hdr L /\ m_sizes m = file_sizes L b /\
  exists rds wrs nb,
    decode_body L (zlen b) (file_sizes L b) (hdr_bytes L + sizes_bytes L)
                (snd (take (sizes_bytes L) (snd (take (hdr_bytes L) b)))) = (Ok m, rds, wrs, nb).
Proof.
  unfold decode, decode_i. intros L b m H.
  destruct (Z.ltb_spec (zlen b) (hdr_bytes L)); [discriminate|].
  destruct (mismatch 0 (file_hdr L b) (l_hdr L)) eqn:Emis; [discriminate|].
  destruct (Z.gtb_spec (hdr_bytes L + sizes_bytes L) (zlen b)); [discriminate|].
  destruct (decode_body L (zlen b) (file_sizes L b) (hdr_bytes L + sizes_bytes L)
             (snd (take (sizes_bytes L) (snd (take (hdr_bytes L) b))))) as [[[o rds] wrs] nb] eqn:Eb.
  cbn [fst] in H. subst o.
  split; [lia|]. split.
  - apply mismatch_none in Emis; [assumption|]. unfold file_hdr. apply ints_length.
  - pose proof Eb as Eb'. apply decode_body_ok_inv in Eb'.
    destruct Eb' as (plan & _ & _ & _ & _ & sblobs & r3 & rd3 & rd4 & r4 & blobs & _ & _ & _ & Em & _).
    subst m. split; [reflexivity|]. eauto.
Qed.

(* acceptance implies that the buffer is exactly as long as mj_sizeModel says for the loaded model *)
Theorem accept_exact_length : forall L b m, decode L b = Ok m -> zlen b <= INT_MAX -> zlen b = sizeModel L m.
Proof.
  intros L b m H Hmax. destruct (decode_ok_inv _ _ _ H) as (Hlen & Hh & Hs & rds & wrs & nb & Eb).
  apply decode_body_ok_inv in Eb.
  destruct Eb as (plan & _ & _ & _ & Hst & sblobs & r3 & rd3 & rd4 & r4 & blobs & Etl & Er & _ & Em & _).
  apply read_arrays_ptr in Er. unfold arr_sum in Er.
  unfold sizeModel. rewrite Hs. unfold hdr_bytes, sizes_bytes in *.
  replace (4 * zlen (l_hdr L) + 8 * Z.of_nat (l_nsize L) + zsum (l_structs L) +
           zsum (map (fun a => arr_bytes (file_sizes L b) a mod W64) (l_arrays L))) with (zlen b) by lia.
  symmetry. apply wrap64s_small. pose proof (zlen_nonneg _ b). lia.
Qed.

Theorem accept_header : forall L b m, decode L b = Ok m -> file_hdr L b = l_hdr L.
Proof. intros. now destruct (decode_ok_inv _ _ _ H) as (_ & Hh & _). Qed.

Theorem header_mismatch_rejected : forall L b, hdr_bytes L <= zlen b -> file_hdr L b <> l_hdr L ->
  exists i, decode L b = Reject (RHdr i) /\ nth i (file_hdr L b) 0 <> nth i (l_hdr L) 0 /\
            firstn i (file_hdr L b) = firstn i (l_hdr L).
Proof.
  intros L b Hlen Hne. unfold decode, decode_i.
  destruct (Z.ltb_spec (zlen b) (hdr_bytes L)); [lia|].
  destruct (mismatch 0 (file_hdr L b) (l_hdr L)) eqn:Emis.
  - apply mismatch_some in Emis. destruct Emis as (_ & H1 & H2). rewrite Nat.sub_0_r in *.
    exists n. auto.
  - exfalso. apply Hne. apply mismatch_none in Emis; [assumption|]. unfold file_hdr. apply ints_length.
Qed.

(* ================================================================== truncation / trailing bytes *)
Lemma firstn_app_ge : forall A k (a b : list A), (length a <= k)%nat ->
  firstn k (a ++ b) = a ++ firstn (k - length a) b.
Proof. intros. rewrite firstn_app. f_equal. apply firstn_all2. assumption. Qed.

Lemma sizeModel_sizes : forall L m1 m2, m_sizes m1 = m_sizes m2 -> sizeModel L m1 = sizeModel L m2.
Proof. intros. unfold sizeModel. now rewrite H. Qed.

Lemma read_arrays_abort : forall fsz len arrs plan ptr rest k k' rds wrs,
  read_arrays fsz len ptr rest k arrs plan = (RA_abort k', rds, wrs) ->
  exists a, In a arrs /\ W31 <= arr_bytes fsz a mod W64.
Proof.
  induction arrs; cbn [read_arrays]; intros.
  - discriminate.
  - destruct (Z.gtb_spec ((ptr + arr_bytes fsz a mod W64) mod W64) len); [discriminate|].
    destruct (Z.leb_spec W31 (arr_bytes fsz a mod W64)).
    + exists a. split; [now left | assumption].
    + destruct (take (arr_bytes fsz a mod W64) rest) as [blob rest'].
      destruct (hd (0, 0) plan) as [mo q].
      destruct (read_arrays fsz len (ptr + arr_bytes fsz a mod W64) rest' (S k) arrs (tl plan)) as [[res rd1] wr1] eqn:E.
      destruct res; inversion H; subst. apply IHarrs in E. destruct E as (a' & Hin & Hb).
      exists a'. split; [now right | assumption].
Qed.

Lemma lens_ok_small : forall s arrs plan blobs, lens_ok s arrs plan blobs = true ->
  zlen (concat blobs) <= INT_MAX -> forall a, In a arrs -> arr_bytes s a mod W64 < W31.
Proof.
  induction arrs; destruct plan, blobs; simpl lens_ok; intros; try discriminate.
  - destruct H1.
  - destruct p; discriminate.
  - destruct p as (mo, q).
    apply andb_prop in H. destruct H as [H Hr]. apply andb_prop in H. destruct H as [Hl Hq].
    apply Z.eqb_eq in Hl. rewrite concat_zlen_cons in *.
    pose proof (zlen_nonneg _ l). pose proof (zlen_nonneg _ (concat blobs)).
    destruct H1 as [-> | Hin].
    + rewrite <- Hl, mod_small_W64 by lia. unfold W31, INT_MAX in *. lia.
    + eapply IHarrs; eauto. lia.
Qed.

Lemma decode_abort_inv : forall L b k, decode L b = Abort k ->
  hdr_bytes L + sizes_bytes L <= zlen b /\
  exists a, In a (l_arrays L) /\ W31 <= arr_bytes (file_sizes L b) a mod W64.
Proof.
  unfold decode, decode_i. intros L b k H.
  destruct (Z.ltb_spec (zlen b) (hdr_bytes L)); [discriminate|].
  destruct (mismatch 0 (file_hdr L b) (l_hdr L)) eqn:Emis; [discriminate|].
  destruct (Z.gtb_spec (hdr_bytes L + sizes_bytes L) (zlen b)); [discriminate|].
  split; [lia|].
  destruct (decode_body L (zlen b) (file_sizes L b) (hdr_bytes L + sizes_bytes L)
             (snd (take (sizes_bytes L) (snd (take (hdr_bytes L) b))))) as [[[o rds] wrs] nb] eqn:Eb.
  cbn [fst] in H. subst o. unfold decode_body in Eb.
  destruct (make_model L (file_sizes L b)) as [r | [nb0 plan]]; [discriminate|].
  destruct (negb (nb0 =? sz (file_sizes L b) (l_nsize L - 1))); [discriminate|].
  destruct (l_mapchk L && negb (sz (file_sizes L b) (l_mapidx L) =? sz (alloc_sizes L (file_sizes L b)) (l_mapidx L))); [discriminate|].
  destruct (hdr_bytes L + sizes_bytes L + zsum (l_structs L) >? zlen b); [discriminate|].
  destruct (take_list (l_structs L) (hdr_bytes L + sizes_bytes L)
             (snd (take (sizes_bytes L) (snd (take (hdr_bytes L) b))))) as [[[sblobs p3] r3] rd3].
  unfold decode_arrays in Eb.
  destruct (read_arrays (file_sizes L b) (zlen b) p3 r3 0 (l_arrays L) plan) as [[res rd1] wr1] eqn:E.
  destruct res.
  - destruct (negb (ptr =? zlen b)); [discriminate|].
    destruct (validate_all L (mkModel (file_sizes L b) sblobs blobs)); discriminate.
  - discriminate.
  - eapply read_arrays_abort; eauto.
Qed.

(* a buffer that starts with the header and size fields of a well-formed model m but has another
   length than the file of m is never accepted and never reaches the wild bufread *)
Lemma wrong_length_rejected : forall L m rest, wf_layout L = true -> wf_modelb L m = true ->
  let b := enc_ints 4 (l_hdr L) ++ enc_ints 8 (m_sizes m) ++ rest in
  zlen b <= INT_MAX -> zlen b <> zlen (encode L m) -> exists r, decode L b = Reject r.
Proof.
  intros L m rest HL H b Hmax Hne.
  destruct (wf_layout_inv _ HL) as (Hh & Hal & Hs0 & He0 & Hn1).
  destruct (wf_model_inv _ _ H) as (Hn & Hi & (nb & plan & Hmk & Hnb & Hlens) & Hst & HmaxE & Hmp & Hv).
  assert (Hfs : file_sizes L b = m_sizes m) by (apply file_sizes_enc; assumption).
  destruct (decode L b) as [m' | r | k] eqn:D.
  - exfalso. pose proof (accept_exact_length _ _ _ D Hmax) as Hx.
    destruct (decode_ok_inv _ _ _ D) as (_ & _ & Hs & _).
    rewrite (sizeModel_sizes L m' m) in Hx by (rewrite Hs; assumption).
    rewrite <- (size_model_length _ _ H) in Hx. contradiction.
  - eauto.
  - exfalso. apply decode_abort_inv in D. destruct D as (_ & a & Hin & Hbig).
    rewrite Hfs in Hbig.
    pose proof (lens_ok_small _ _ _ _ Hlens) as Hsm.
    pose proof (encode_zlen L m) as E. pose proof (zlen_nonneg _ (concat (m_structs m))).
    pose proof (zlen_nonneg _ (m_sizes m)). pose proof (zlen_nonneg _ (l_hdr L)). unfold hdr_bytes in E.
    specialize (Hsm ltac:(lia) a Hin). lia.
Qed.

Theorem truncation_rejected : forall L m k, wf_layout L = true -> wf_modelb L m = true ->
  (k < length (encode L m))%nat -> exists r, decode L (firstn k (encode L m)) = Reject r.
Proof.
  intros L m k HL H Hk.
  destruct (wf_model_inv _ _ H) as (Hn & Hi & _ & _ & HmaxE & _).
  assert (Hzl : zlen (firstn k (encode L m)) = Z.of_nat k)
    by (unfold zlen; rewrite firstn_length; f_equal; lia).
  assert (HkE : Z.of_nat k < zlen (encode L m)) by (unfold zlen; lia).
  set (H4 := enc_ints 4 (l_hdr L)). set (S8 := enc_ints 8 (m_sizes m)).
  destruct (le_lt_dec (length H4 + length S8) k) as [Hge | Hlt].
  - (* the header and the size fields are intact *)
    assert (Eb : firstn k (encode L m) = H4 ++ S8 ++ firstn (k - length H4 - length S8) (concat (m_structs m) ++ concat (m_arrays m))).
    { unfold encode. fold H4 S8. rewrite firstn_app_ge by lia. f_equal. rewrite firstn_app_ge by lia. reflexivity. }
    rewrite Eb. apply wrong_length_rejected; try assumption; fold H4 S8; rewrite <- Eb; lia.
  - (* cut inside the header or the size fields *)
    assert (Hshort : zlen (firstn k (encode L m)) < hdr_bytes L + sizes_bytes L).
    { rewrite Hzl. unfold hdr_bytes, sizes_bytes. rewrite <- Hn.
      pose proof (enc_ints_zlen 4 (l_hdr L)) as E4. pose proof (enc_ints_zlen 8 (m_sizes m)) as E8.
      fold H4 in E4. fold S8 in E8. unfold zlen in *. lia. }
    unfold decode, decode_i.
    destruct (Z.ltb_spec (zlen (firstn k (encode L m))) (hdr_bytes L)); [eexists; reflexivity|].
    destruct (mismatch 0 (file_hdr L (firstn k (encode L m))) (l_hdr L)); [eexists; reflexivity|].
    destruct (Z.gtb_spec (hdr_bytes L + sizes_bytes L) (zlen (firstn k (encode L m)))); [eexists; reflexivity | lia].
Qed.

Theorem trailing_bytes_rejected : forall L m g, wf_layout L = true -> wf_modelb L m = true ->
  g <> [] -> zlen (encode L m ++ g) <= INT_MAX -> exists r, decode L (encode L m ++ g) = Reject r.
Proof.
  intros L m g HL H Hg Hmax.
  assert (Eb : encode L m ++ g = enc_ints 4 (l_hdr L) ++ enc_ints 8 (m_sizes m) ++
                                  ((concat (m_structs m) ++ concat (m_arrays m)) ++ g))
    by (unfold encode; now rewrite <- !app_assoc).
  rewrite Eb. apply wrong_length_rejected; try assumption; rewrite <- Eb; [assumption|].
  rewrite zlen_app. destruct g; [contradiction|]. rewrite zlen_cons. pose proof (zlen_nonneg _ g). lia.
Qed.

(* ================================================================== every read is inside the input buffer *)
Definition read_ok (len : Z) (r : Z * Z) : Prop := 0 <= fst r /\ 0 <= snd r /\ fst r + snd r <= len.

Lemma zsum_nonneg : forall ns, forallb (fun n => 0 <=? n) ns = true -> 0 <= zsum ns.
Proof.
  induction ns; simpl; intros; [lia|]. apply andb_prop in H. destruct H as [Ha Hr].
  apply Z.leb_le in Ha. specialize (IHns Hr). lia.
Qed.

Lemma take_list_reads : forall ns ptr rest bl p r rds,
  forallb (fun n => 0 <=? n) ns = true -> 0 <= ptr ->
  take_list ns ptr rest = (bl, p, r, rds) ->
  Forall (read_ok (ptr + zsum ns)) rds.
Proof.
  induction ns; cbn [take_list]; intros.
  - inversion H1. constructor.
  - change (zsum (a :: ns)) with (a + zsum ns).
    simpl in H. apply andb_prop in H. destruct H as [Ha Hr]. apply Z.leb_le in Ha.
    pose proof (zsum_nonneg _ Hr).
    destruct (take a rest) as [blob rest'].
    destruct (take_list ns (ptr + a) rest') as [[[b1 p1] r1] rd1] eqn:E.
    inversion H1; subst. constructor.
    + unfold read_ok. cbn [fst snd]. lia.
    + apply IHns in E; [|assumption|lia]. replace (ptr + (a + zsum ns)) with (ptr + a + zsum ns) by lia. assumption.
Qed.

Lemma read_ok_weaken : forall l1 l2 rds, l1 <= l2 -> Forall (read_ok l1) rds -> Forall (read_ok l2) rds.
Proof. intros. eapply Forall_impl; [|eassumption]. unfold read_ok. intros a Ha. lia. Qed.

Lemma read_arrays_reads : forall fsz len arrs plan ptr rest k,
  0 <= ptr <= len -> len <= INT_MAX ->
  Forall (read_ok len) (snd (fst (read_arrays fsz len ptr rest k arrs plan))).
Proof.
  induction arrs; cbn [read_arrays]; intros.
  - constructor.
  - pose proof (Z.mod_pos_bound (arr_bytes fsz a) W64 ltac:(unfold W64; lia)) as Hn.
    destruct (Z.gtb_spec ((ptr + arr_bytes fsz a mod W64) mod W64) len); [constructor|].
    destruct (Z.leb_spec W31 (arr_bytes fsz a mod W64)); [constructor|].
    rewrite Z.mod_small in H1 by (unfold W31, W64, INT_MAX in *; lia).
    destruct (take (arr_bytes fsz a mod W64) rest) as [blob rest'].
    destruct (hd (0, 0) plan) as [mo q].
    specialize (IHarrs (tl plan) (ptr + arr_bytes fsz a mod W64) rest' (S k) ltac:(lia) H0).
    destruct (read_arrays fsz len (ptr + arr_bytes fsz a mod W64) rest' (S k) arrs (tl plan)) as [[res rd1] wr1].
    cbn [fst snd] in *. constructor; [|assumption]. unfold read_ok. cbn [fst snd]. lia.
Qed.

Lemma decode_arrays_reads : forall L len fsz plan p3 r3 sblobs,
  0 <= p3 <= len -> len <= INT_MAX ->
  Forall (read_ok len) (snd (fst (decode_arrays L len fsz plan p3 r3 sblobs))).
Proof.
  intros. unfold decode_arrays.
  pose proof (read_arrays_reads fsz len (l_arrays L) plan p3 r3 0 H H0) as Hr.
  destruct (read_arrays fsz len p3 r3 0 (l_arrays L) plan) as [[res rd1] wr1]. cbn [fst snd] in Hr.
  destruct res; [|assumption|assumption].
  destruct (negb (ptr =? len)); [assumption|].
  destruct (validate_all L (mkModel fsz sblobs blobs)); assumption.
Qed.

Lemma decode_body_reads : forall L len fsz p2 r2, wf_layout L = true ->
  0 <= p2 <= len -> len <= INT_MAX ->
  Forall (read_ok len) (snd (fst (fst (decode_body L len fsz p2 r2)))).
Proof.
  intros L len fsz p2 r2 HL Hp Hmax. destruct (wf_layout_inv _ HL) as (_ & _ & Hs0 & _).
  unfold decode_body.
  destruct (make_model L fsz) as [r | [nb plan]]; [constructor|].
  destruct (negb (nb =? sz fsz (l_nsize L - 1))); [constructor|].
  destruct (l_mapchk L && negb (sz fsz (l_mapidx L) =? sz (alloc_sizes L fsz) (l_mapidx L))); [constructor|].
  destruct (Z.gtb_spec (p2 + zsum (l_structs L)) len); [constructor|].
  destruct (take_list (l_structs L) p2 r2) as [[[sblobs p3] r3] rd3] eqn:Etl.
  pose proof (take_list_ptr _ _ _ _ _ _ _ Etl). subst p3.
  pose proof (zsum_nonneg _ Hs0).
  pose proof (decode_arrays_reads L len fsz plan (p2 + zsum (l_structs L)) r3 sblobs ltac:(lia) Hmax) as Hd.
  destruct (decode_arrays L len fsz plan (p2 + zsum (l_structs L)) r3 sblobs) as [[o rds] wrs].
  cbn [fst snd] in *. apply Forall_app. split; [|assumption].
  apply (read_ok_weaken (p2 + zsum (l_structs L))); [lia|].
  eapply take_list_reads; [exact Hs0 | lia | exact Etl].
Qed.

Theorem reads_in_bounds : forall L b, wf_layout L = true -> zlen b <= INT_MAX ->
  Forall (read_ok (zlen b)) (reads_of L b).
Proof.
  intros L b HL Hmax. unfold reads_of, decode_i.
  pose proof (zlen_nonneg _ (l_hdr L)). assert (0 <= hdr_bytes L) by (unfold hdr_bytes; lia).
  assert (0 <= sizes_bytes L) by (unfold sizes_bytes; lia).
  destruct (Z.ltb_spec (zlen b) (hdr_bytes L)); [constructor|].
  assert (Hh : read_ok (zlen b) (0, hdr_bytes L)) by (unfold read_ok; cbn [fst snd]; lia).
  destruct (mismatch 0 (file_hdr L b) (l_hdr L)); [cbn [fst snd]; constructor; [exact Hh | constructor]|].
  destruct (Z.gtb_spec (hdr_bytes L + sizes_bytes L) (zlen b)); [cbn [fst snd]; constructor; [exact Hh | constructor]|].
  pose proof (decode_body_reads L (zlen b) (file_sizes L b) (hdr_bytes L + sizes_bytes L)
               (snd (take (sizes_bytes L) (snd (take (hdr_bytes L) b)))) HL ltac:(lia) Hmax) as Hb.
  destruct (decode_body L (zlen b) (file_sizes L b) (hdr_bytes L + sizes_bytes L)
             (snd (take (sizes_bytes L) (snd (take (hdr_bytes L) b))))) as [[[o rds] wrs] nb].
  cbn [fst snd] in *. constructor; [assumption|]. constructor; [|assumption].
  unfold read_ok. cbn [fst snd]. lia.
Qed.

(* ================================================================== writes stay inside the model buffer *)
Definition write_ok (off nb : Z) (w : wr) : Prop :=
  let '(mo, n, q) := w in n = q /\ off <= mo /\ 0 <= n /\ mo + n <= nb.

Lemma skip_nonneg : forall align off, 0 < align -> 0 <= skip align off.
Proof. intros. unfold skip. apply Z.mod_pos_bound. assumption. Qed.

Ltac alloc_step H :=
  match type of H with
  | context [(sz ?asz (a_nr ?a) <? 0) || (nc_val ?asz (a_nc ?a) <? 0)] =>
    let E1 := fresh "E1" in let E2 := fresh "E2" in
    destruct ((sz asz (a_nr a) <? 0) || (nc_val asz (a_nc a) <? 0)) eqn:E1; [discriminate|];
    apply orb_false_elim in E1; destruct E1 as [E1 E2]; apply Z.ltb_ge in E1; apply Z.ltb_ge in E2
  end.

Lemma alloc_inv : forall align asz a arrs off k nb plan,
  alloc align asz off k (a :: arrs) = inr (nb, plan) ->
  let q := nc_val asz (a_nc a) * sz asz (a_nr a) * a_esz a in
  0 <= sz asz (a_nr a) /\ 0 <= nc_val asz (a_nc a) /\ q < W64 /\
  exists plan1, alloc align asz (off + (q + skip align off)) (S k) arrs = inr (nb, plan1) /\
                plan = (off + skip align off, q) :: plan1.
Proof.
  cbn [alloc]. intros. alloc_step H.
  destruct (W64 <=? nc_val asz (a_nc a) * sz asz (a_nr a)); [discriminate|].
  destruct (Z.leb_spec W64 (nc_val asz (a_nc a) * sz asz (a_nr a) * a_esz a)); [discriminate|].
  destruct (W64 <=? nc_val asz (a_nc a) * sz asz (a_nr a) * a_esz a + skip align off); [discriminate|].
  destruct (I64MAX <? off + (nc_val asz (a_nc a) * sz asz (a_nr a) * a_esz a + skip align off)); [discriminate|].
  destruct (alloc align asz (off + (nc_val asz (a_nc a) * sz asz (a_nr a) * a_esz a + skip align off)) (S k) arrs)
    as [r | [nb1 plan1]] eqn:E; [discriminate|].
  inversion H; subst. repeat split; try assumption. exists plan1. split; reflexivity.
Qed.

Lemma alloc_mono : forall align asz arrs off k nb plan, 0 < align ->
  forallb (fun a => 0 <=? a_esz a) arrs = true ->
  alloc align asz off k arrs = inr (nb, plan) -> off <= nb.
Proof.
  induction arrs; intros.
  - cbn [alloc] in H1. inversion H1. lia.
  - simpl in H0. apply andb_prop in H0. destruct H0 as [He Hr]. apply Z.leb_le in He.
    apply alloc_inv in H1. cbv zeta in H1. destruct H1 as (Hnr & Hnc & Hq & plan1 & E & _).
    apply IHarrs in E; try assumption.
    pose proof (skip_nonneg align off H).
    assert (0 <= nc_val asz (a_nc a) * sz asz (a_nr a) * a_esz a) by (repeat apply Z.mul_nonneg_nonneg; lia).
    lia.
Qed.

Lemma read_arrays_writes : forall fsz len asz align arrs off k nb plan ptr rest k2,
  0 < align -> forallb (fun a => 0 <=? a_esz a) arrs = true ->
  alloc align asz off k arrs = inr (nb, plan) ->
  (forall a, In a arrs -> arr_bytes fsz a = arr_bytes asz a) ->
  Forall (write_ok off nb) (snd (read_arrays fsz len ptr rest k2 arrs plan)).
Proof.
  induction arrs; intros off k nb plan ptr rest k2 Hal He Hall Heq.
  - cbn [read_arrays snd]. constructor.
  - simpl in He. apply andb_prop in He. destruct He as [He Hr]. apply Z.leb_le in He.
    pose proof Hall as Hall'. apply alloc_inv in Hall'. cbv zeta in Hall'.
    destruct Hall' as (Hnr & Hnc & Hq & plan1 & E & Hp). subst plan.
    cbn [read_arrays]. rewrite (Heq a (or_introl eq_refl)).
    set (q := nc_val asz (a_nc a) * sz asz (a_nr a) * a_esz a) in *.
    assert (Hab : arr_bytes asz a = q) by (unfold arr_bytes, q; ring).
    assert (Hq0 : 0 <= q) by (unfold q; repeat apply Z.mul_nonneg_nonneg; lia).
    rewrite Hab. rewrite (Z.mod_small q W64) by lia.
    destruct (((ptr + q) mod W64) >? len); [cbn [snd]; constructor|].
    destruct (W31 <=? q); [cbn [snd]; constructor|].
    destruct (take q rest) as [blob rest']. cbn [hd tl].
    pose proof (skip_nonneg align off Hal).
    pose proof (alloc_mono _ _ _ _ _ _ _ Hal Hr E) as Hm.
    specialize (IHarrs (off + (q + skip align off)) (S k) nb plan1 (ptr + q) rest' (S k2) Hal Hr E
                       (fun a' Hin => Heq a' (or_intror Hin))).
    destruct (read_arrays fsz len (ptr + q) rest' (S k2) arrs plan1) as [[res rd1] wr1].
    cbn [snd] in *. constructor.
    + unfold write_ok. lia.
    + eapply Forall_impl; [|exact IHarrs]. intros [[mo n] q']. unfold write_ok. lia.
Qed.

Lemma nth_map_seq : forall (f : nat -> Z) n i d, (i < n)%nat -> nth i (map f (seq 0 n)) d = f i.
Proof.
  intros. rewrite (nth_indep _ d (f 0%nat)) by (rewrite map_length, seq_length; assumption).
  rewrite map_nth, seq_nth by assumption. reflexivity.
Qed.

Lemma alloc_sizes_nth : forall L fsz i, length fsz = l_nsize L -> (i < l_nmake L)%nat ->
  sz (alloc_sizes L fsz) i = sz fsz i.
Proof.
  intros. unfold alloc_sizes, sz.
  destruct (lt_dec i (l_nsize L)).
  - rewrite nth_map_seq by assumption.
    destruct (Nat.ltb_spec i (l_nmake L)); [reflexivity | lia].
  - rewrite !nth_overflow; [reflexivity | lia | rewrite map_length, seq_length; lia].
Qed.

Lemma nc_val_checked : forall L fsz t, length fsz = l_nsize L -> nc_idx_ok (l_nmake L) t = true ->
  nc_val fsz t = nc_val (alloc_sizes L fsz) t.
Proof.
  intros. destruct t; cbn [nc_val nc_idx_ok] in *; [reflexivity|].
  apply andb_prop in H0. destruct H0 as [Hi _]. apply Nat.ltb_lt in Hi.
  rewrite alloc_sizes_nth by assumption. reflexivity.
Qed.

Lemma checked_arr_bytes : forall L fsz, length fsz = l_nsize L -> sizes_checked L = true ->
  (l_mapchk L = true -> sz fsz (l_mapidx L) = sz (alloc_sizes L fsz) (l_mapidx L)) ->
  forall a, In a (l_arrays L) -> arr_bytes fsz a = arr_bytes (alloc_sizes L fsz) a.
Proof.
  intros L fsz Hlen Hc Hmap a Hin. unfold sizes_checked in Hc. rewrite forallb_forall in Hc.
  specialize (Hc a Hin). apply andb_prop in Hc. destruct Hc as [Hnr Hnc].
  unfold arr_bytes. rewrite <- (nc_val_checked L fsz _ Hlen Hnc). f_equal. f_equal.
  apply orb_prop in Hnr. destruct Hnr as [Hlt | Hm].
  - apply Nat.ltb_lt in Hlt. symmetry. apply alloc_sizes_nth; assumption.
  - apply andb_prop in Hm. destruct Hm as [Hm1 Hm2]. apply Nat.eqb_eq in Hm2. rewrite Hm2. auto.
Qed.

Lemma make_model_alloc : forall L fsz nb plan, make_model L fsz = inr (nb, plan) ->
  alloc (l_align L) (alloc_sizes L fsz) 0 0 (l_arrays L) = inr (nb, plan).
Proof.
  unfold make_model. intros.
  destruct (check_sizes (l_exempt L) 0 (firstn (l_nmake L) fsz)); [discriminate|].
  destruct (sz fsz (l_nonzero L) =? 0); [discriminate|].
  destruct (INT_MAX / l_mapmul L <=? map_sum L fsz); [discriminate | assumption].
Qed.

Lemma decode_body_writes : forall L len fsz p2 r2, wf_layout L = true -> sizes_checked L = true ->
  length fsz = l_nsize L ->
  let res := decode_body L len fsz p2 r2 in
  Forall (write_ok 0 (snd res)) (snd (fst res)).
Proof.
  intros L len fsz p2 r2 HL Hc Hlen. destruct (wf_layout_inv _ HL) as (_ & Hal & _ & He0 & _).
  cbv zeta. unfold decode_body.
  destruct (make_model L fsz) as [r | [nb plan]] eqn:Hmk; [constructor|].
  destruct (negb (nb =? sz fsz (l_nsize L - 1))); [constructor|].
  destruct (l_mapchk L && negb (sz fsz (l_mapidx L) =? sz (alloc_sizes L fsz) (l_mapidx L))) eqn:Emap; [constructor|].
  destruct (p2 + zsum (l_structs L) >? len); [constructor|].
  destruct (take_list (l_structs L) p2 r2) as [[[sblobs p3] r3] rd3].
  assert (Hmap : l_mapchk L = true -> sz fsz (l_mapidx L) = sz (alloc_sizes L fsz) (l_mapidx L)).
  { intros Hm. rewrite Hm in Emap. cbn [andb] in Emap.
    destruct (Z.eqb_spec (sz fsz (l_mapidx L)) (sz (alloc_sizes L fsz) (l_mapidx L))); [assumption | discriminate]. }
  pose proof (read_arrays_writes fsz len (alloc_sizes L fsz) (l_align L) (l_arrays L) 0 0 nb plan p3 r3 0
               Hal He0 (make_model_alloc _ _ _ _ Hmk) (checked_arr_bytes L fsz Hlen Hc Hmap)) as Hw.
  unfold decode_arrays.
  destruct (read_arrays fsz len p3 r3 0 (l_arrays L) plan) as [[res rd1] wr1]. cbn [snd] in Hw.
  destruct res.
  - destruct (negb (ptr =? len)); [exact Hw|].
    destruct (validate_all L (mkModel fsz sblobs blobs)); exact Hw.
  - exact Hw.
  - exact Hw.
Qed.

Theorem writes_in_model : forall L b, wf_layout L = true -> sizes_checked L = true ->
  Forall (write_ok 0 (nbuffer_of L b)) (writes_of L b).
Proof.
  intros L b HL Hc. unfold writes_of, nbuffer_of, decode_i.
  destruct (zlen b <? hdr_bytes L); [constructor|].
  destruct (mismatch 0 (file_hdr L b) (l_hdr L)); [constructor|].
  destruct (hdr_bytes L + sizes_bytes L >? zlen b); [constructor|].
  pose proof (decode_body_writes L (zlen b) (file_sizes L b) (hdr_bytes L + sizes_bytes L)
               (snd (take (sizes_bytes L) (snd (take (hdr_bytes L) b)))) HL Hc
               ltac:(unfold file_sizes; apply ints_length)) as Hb.
  cbv zeta in Hb.
  destruct (decode_body L (zlen b) (file_sizes L b) (hdr_bytes L + sizes_bytes L)
             (snd (take (sizes_bytes L) (snd (take (hdr_bytes L) b))))) as [[[o rds] wrs] nb].
  exact Hb.
Qed.

(* ================================================================== table part of mj_validateReferences *)
Definition ref_ok (tgt : Z) (p : Z * Z) : Prop := 0 <= snd p /\ -1 <= fst p /\ fst p + snd p <= tgt.

Lemma check_pairs_none : forall j tgt adrs nums, check_pairs true j tgt adrs nums = None ->
  Forall (ref_ok tgt) (combine adrs nums).
Proof.
  induction adrs; destruct nums; cbn [check_pairs combine]; intros; try constructor.
  - destruct (Z.ltb_spec z 0); [discriminate|].
    cbn [adr_max] in H.
    destruct (Z.gtb_spec (a + z) tgt); [discriminate|].
    destruct (Z.ltb_spec a (-1)); [discriminate|]. unfold ref_ok. cbn [fst snd]. lia.
  - destruct (z <? 0); [discriminate|].
    destruct ((adr_max true a z >? tgt) || (a <? -1)); [discriminate|]. eauto.
Qed.

Lemma validate_refs_none : forall wide m refs j, validate_refs wide m j refs = None ->
  forall r, In r refs ->
  exists j', check_pairs wide j' (sz (m_sizes m) (r_tgt r)) (ref_adrs m r) (ref_nums m r) = None.
Proof.
  induction refs; cbn [validate_refs]; intros j H r Hin; [destruct Hin|].
  destruct (check_pairs wide j (sz (m_sizes m) (r_tgt a)) (ref_adrs m a) (ref_nums m a)) eqn:E; [discriminate|].
  destruct Hin as [-> | Hin]; [eauto | eapply IHrefs; eauto].
Qed.

Theorem validate_partial : forall L b m, l_ref64 L = true -> decode L b = Ok m ->
  forall r, In r (l_refs L) ->
  Forall (ref_ok (sz (m_sizes m) (r_tgt r))) (combine (ref_adrs m r) (ref_nums m r)).
Proof.
  intros L b m H64 D r Hin. destruct (decode_ok_inv _ _ _ D) as (_ & _ & _ & rds & wrs & nb & Eb).
  apply decode_body_ok_inv in Eb.
  destruct Eb as (plan & _ & _ & _ & _ & sblobs & r3 & rd3 & rd4 & r4 & blobs & _ & _ & _ & _ & Hv).
  unfold validate_all in Hv.
  destruct (validate_refs (l_ref64 L) m 0 (l_refs L)) eqn:Hv'; [discriminate|].
  rewrite H64 in Hv'. destruct (validate_refs_none _ _ _ _ Hv' r Hin) as (j' & Hc).
  eapply check_pairs_none; eauto.
Qed.

Lemma validate_reqs_none : forall m reqs j, validate_reqs m j reqs = None ->
  forall q, In q reqs -> Forall (fun a => 0 <= a) (req_adrs m q).
Proof.
  induction reqs; cbn [validate_reqs]; intros j H q Hin; [destruct Hin|].
  destruct (forallb (fun a0 => 0 <=? a0) (req_adrs m a)) eqn:E; [|discriminate].
  destruct Hin as [-> | Hin]; [|eapply IHreqs; eauto].
  apply Forall_forall. intros x Hx. rewrite forallb_forall in E. apply Z.leb_le. auto.
Qed.

Theorem validate_required : forall L b m, decode L b = Ok m ->
  forall q, In q (l_reqs L) -> Forall (fun a => 0 <= a) (req_adrs m q).
Proof.
  intros L b m D q Hin. destruct (decode_ok_inv _ _ _ D) as (_ & _ & _ & rds & wrs & nb & Eb).
  apply decode_body_ok_inv in Eb.
  destruct Eb as (plan & _ & _ & _ & _ & sblobs & r3 & rd3 & rd4 & r4 & blobs & _ & _ & _ & _ & Hv).
  unfold validate_all in Hv.
  destruct (validate_refs (l_ref64 L) m 0 (l_refs L)); [discriminate|].
  eapply validate_reqs_none; eauto.
Qed.

(* ================================================================== an accepted buffer is the file of the loaded model *)
Definition is_byte (b : Z) : Prop := 0 <= b < 256.

Lemma le_enc_dec_u : forall l, Forall is_byte l -> le_enc (length l) (le_dec_u l) = l.
Proof.
  induction 1; [reflexivity|]. cbn [length le_enc le_dec_u]. unfold is_byte in H.
  replace (x + 256 * le_dec_u l) with (x + le_dec_u l * 256) by ring.
  rewrite Z.mod_add, Z.div_add by lia. rewrite Z.mod_small, Z.div_small by lia. cbn [Z.add].
  now rewrite IHForall.
Qed.

Lemma le_enc_shift : forall n z k, le_enc n (z + k * 256 ^ Z.of_nat n) = le_enc n z.
Proof.
  induction n; intros; [reflexivity|]. cbn [le_enc].
  replace (256 ^ Z.of_nat (S n)) with (256 * 256 ^ Z.of_nat n) by (rewrite Nat2Z.inj_succ, Z.pow_succ_r; lia).
  f_equal.
  - replace (z + k * (256 * 256 ^ Z.of_nat n)) with (z + (k * 256 ^ Z.of_nat n) * 256) by ring.
    apply Z.mod_add. lia.
  - replace (z + k * (256 * 256 ^ Z.of_nat n)) with (z + (k * 256 ^ Z.of_nat n) * 256) by ring.
    rewrite Z.div_add by lia. apply IHn.
Qed.

Lemma le_enc_dec_s : forall n l, length l = n -> Forall is_byte l -> le_enc n (le_dec_s n l) = l.
Proof.
  intros n l Hn Hb. unfold le_dec_s.
  destruct (le_dec_u l <? 2 ^ (8 * Z.of_nat n - 1)).
  - subst n. now apply le_enc_dec_u.
  - destruct n.
    + destruct l; [reflexivity | discriminate].
    + replace (le_dec_u l - 2 * 2 ^ (8 * Z.of_nat (S n) - 1)) with (le_dec_u l + (-1) * 256 ^ Z.of_nat (S n)).
      * rewrite le_enc_shift. rewrite <- Hn. now apply le_enc_dec_u.
      * replace (256 ^ Z.of_nat (S n)) with (2 * 2 ^ (8 * Z.of_nat (S n) - 1)); [ring|].
        rewrite <- Z.pow_succ_r by lia. replace (Z.succ (8 * Z.of_nat (S n) - 1)) with (8 * Z.of_nat (S n)) by lia.
        change 256 with (2 ^ 8). rewrite <- Z.pow_mul_r by lia. reflexivity.
Qed.

Lemma Forall_firstn : forall A (P : A -> Prop) n l, Forall P l -> Forall P (firstn n l).
Proof. induction n; destruct l; simpl; intros; try constructor; inversion H; auto. Qed.
Lemma Forall_skipn : forall A (P : A -> Prop) n l, Forall P l -> Forall P (skipn n l).
Proof. induction n; destruct l; simpl; intros; auto. inversion H; auto. Qed.

(* re-encoding the ints read from cnt chunks of w bytes gives back those bytes *)
Lemma enc_ints_chunks : forall w cnt l, (w * cnt <= length l)%nat -> Forall is_byte l ->
  enc_ints w (ints w cnt l) = firstn (w * cnt) l.
Proof.
  induction cnt; intros.
  - rewrite Nat.mul_0_r. reflexivity.
  - unfold ints, enc_ints in *. cbn [chunks map concat].
    rewrite IHcnt by (try (rewrite skipn_length; lia); apply Forall_skipn; assumption).
    rewrite le_enc_dec_s by (try (rewrite firstn_length; lia); apply Forall_firstn; assumption).
    replace (w * S cnt)%nat with (w + w * cnt)%nat by lia.
    rewrite <- (firstn_skipn w l) at 3. rewrite firstn_app.
    rewrite firstn_length, Nat.min_l by lia.
    rewrite (firstn_all2 (firstn w l)) by (rewrite firstn_length; lia).
    replace (w + w * cnt - w)%nat with (w * cnt)%nat by lia. reflexivity.
Qed.

Lemma take_list_split : forall ns ptr rest bl p r rds, take_list ns ptr rest = (bl, p, r, rds) ->
  concat bl ++ r = rest.
Proof.
  induction ns; cbn [take_list]; intros.
  - inversion H. reflexivity.
  - unfold take in H.
    destruct (take_list ns (ptr + a) (skipn (Z.to_nat a) rest)) as [[[b1 p1] r1] rd1] eqn:E.
    inversion H; subst. apply IHns in E. cbn [concat]. rewrite <- app_assoc, E. apply firstn_skipn.
Qed.

Lemma zlen_skipn : forall (l : list Z) n, 0 <= n <= zlen l -> zlen (skipn (Z.to_nat n) l) = zlen l - n.
Proof. intros. unfold zlen in *. rewrite skipn_length. lia. Qed.

Lemma take_list_len : forall ns ptr rest bl p r rds len,
  forallb (fun n => 0 <=? n) ns = true -> ptr + zsum ns <= len -> zlen rest = len - ptr ->
  take_list ns ptr rest = (bl, p, r, rds) -> zlen r = len - p.
Proof.
  induction ns; cbn [take_list]; intros.
  - inversion H2; subst. assumption.
  - change (zsum (a :: ns)) with (a + zsum ns) in H0.
    simpl in H. apply andb_prop in H. destruct H as [Ha Hr]. apply Z.leb_le in Ha.
    pose proof (zsum_nonneg _ Hr). unfold take in H2.
    destruct (take_list ns (ptr + a) (skipn (Z.to_nat a) rest)) as [[[b1 p1] r1] rd1] eqn:E.
    inversion H2; subst. eapply IHns in E; eauto; [lia|]. rewrite zlen_skipn by lia. lia.
Qed.

Lemma read_arrays_split : forall fsz len arrs plan ptr rest k p4 r4 blobs rds wrs,
  0 <= ptr -> zlen rest = len - ptr -> len <= INT_MAX ->
  read_arrays fsz len ptr rest k arrs plan = (RA_ok p4 r4 blobs, rds, wrs) ->
  concat blobs ++ r4 = rest /\ zlen r4 = len - p4.
Proof.
  induction arrs; cbn [read_arrays]; intros.
  - inversion H2; subst. split; [reflexivity | assumption].
  - pose proof (Z.mod_pos_bound (arr_bytes fsz a) W64 ltac:(unfold W64; lia)) as Hn.
    destruct (Z.gtb_spec ((ptr + arr_bytes fsz a mod W64) mod W64) len); [discriminate|].
    destruct (Z.leb_spec W31 (arr_bytes fsz a mod W64)); [discriminate|].
    pose proof (zlen_nonneg _ rest).
    rewrite Z.mod_small in H3 by (unfold W31, W64, INT_MAX in *; lia).
    unfold take in H2. destruct (hd (0, 0) plan) as [mo q].
    destruct (read_arrays fsz len (ptr + arr_bytes fsz a mod W64) (skipn (Z.to_nat (arr_bytes fsz a mod W64)) rest)
                (S k) arrs (tl plan)) as [[res rd1] wr1] eqn:E.
    destruct res; inversion H2; subst.
    apply IHarrs in E; [|lia| rewrite zlen_skipn by lia; lia | assumption].
    destruct E as [E1 E2]. split; [|assumption].
    cbn [concat]. rewrite <- app_assoc, E1. apply firstn_skipn.
Qed.

Lemma zlen_zero_nil : forall (l : list Z), zlen l = 0 -> l = [].
Proof. destruct l; [reflexivity|]. rewrite zlen_cons. pose proof (zlen_nonneg _ l). lia. Qed.

(* an accepted buffer is exactly the file mj_saveModel writes for the loaded model *)
Theorem accept_resave_identical : forall L b m, wf_layout L = true -> zlen b <= INT_MAX ->
  Forall is_byte b -> decode L b = Ok m -> encode L m = b.
Proof.
  intros L b m HL Hmax Hb D.
  destruct (wf_layout_inv _ HL) as (_ & _ & Hs0 & _ & _).
  destruct (decode_ok_inv _ _ _ D) as (Hlen & Hh & Hs & rds & wrs & nb & Eb).
  apply decode_body_ok_inv in Eb.
  destruct Eb as (plan & _ & _ & _ & Hst & sblobs & r3 & rd3 & rd4 & r4 & blobs & Etl & Er & _ & Em & _).
  pose proof (zlen_nonneg _ (l_hdr L)).
  assert (Hhb : 0 <= hdr_bytes L) by (unfold hdr_bytes; lia).
  assert (Hsb : 0 <= sizes_bytes L) by (unfold sizes_bytes; lia).
  set (b1 := skipn (Z.to_nat (hdr_bytes L)) b) in *.
  set (r2 := skipn (Z.to_nat (sizes_bytes L)) b1) in *.
  assert (Hb1 : zlen b1 = zlen b - hdr_bytes L) by (apply zlen_skipn; lia).
  assert (Hr2 : zlen r2 = zlen b - (hdr_bytes L + sizes_bytes L)) by (unfold r2; rewrite zlen_skipn; lia).
  unfold take in Etl, Er. cbn [snd] in Etl. fold b1 in Etl. fold r2 in Etl.
  pose proof (take_list_split _ _ _ _ _ _ _ Etl) as E2.
  pose proof (take_list_len _ _ _ _ _ _ _ (zlen b) Hs0 Hst Hr2 Etl) as L3.
  pose proof (zsum_nonneg _ Hs0).
  assert (Hp3 : 0 <= hdr_bytes L + sizes_bytes L + zsum (l_structs L)) by lia.
  destruct (read_arrays_split _ _ _ _ _ _ _ _ _ _ _ _ Hp3 L3 Hmax Er) as [E3 L4].
  rewrite Z.sub_diag in L4. apply zlen_zero_nil in L4. subst r4. rewrite app_nil_r in E3.
  (* header and sizes *)
  assert (E0 : enc_ints 4 (l_hdr L) = firstn (Z.to_nat (hdr_bytes L)) b).
  { rewrite <- Hh. unfold file_hdr, take. cbn [fst].
    rewrite enc_ints_chunks.
    - apply firstn_all2. rewrite firstn_length. unfold hdr_bytes, zlen in *. lia.
    - rewrite firstn_length. unfold hdr_bytes, zlen in *. lia.
    - apply Forall_firstn. assumption. }
  assert (E1 : enc_ints 8 (file_sizes L b) = firstn (Z.to_nat (sizes_bytes L)) b1).
  { unfold file_sizes, take. cbn [fst snd]. fold b1.
    rewrite enc_ints_chunks.
    - apply firstn_all2. rewrite firstn_length. unfold sizes_bytes, zlen in *. lia.
    - rewrite firstn_length. unfold sizes_bytes, zlen in *. lia.
    - apply Forall_firstn. apply Forall_skipn. assumption. }
  subst m. unfold encode. cbn [m_sizes m_structs m_arrays].
  rewrite E0, E1, E3, E2. unfold r2. rewrite firstn_skipn. unfold b1. apply firstn_skipn.
Qed.

(* ================================================================== witness file for an unchecked derived size *)
Definition set_nth (l : list Z) (i : nat) (v : Z) : list Z := patch l i v.

(* smallest model a layout admits: every size 0 except nbody = 1, nnames_map and nbuffer as mj_makeModel computes them *)
Definition min_sizes (L : layout) : list Z :=
  let s0 := map (fun i => if Nat.eqb i (l_nonzero L) then 1 else 0) (seq 0 (l_nsize L)) in
  let s1 := alloc_sizes L s0 in
  match alloc (l_align L) s1 0 0 (l_arrays L) with
  | inr (nb, _) => set_nth s1 (l_nsize L - 1) nb
  | inl _ => s1
  end.

(* the file of the smallest model with the derived size field raised by k and the arrays governed by it
   lengthened accordingly: a self-consistent file whose nnames_map is not what mj_makeModel allocates for *)
Definition overflow_file (L : layout) (k : Z) : list Z :=
  let s := min_sizes L in
  let s' := set_nth s (l_mapidx L) (sz s (l_mapidx L) + k) in
  encode L (mkModel s' (map (fun n => repeat 0 (Z.to_nat n)) (l_structs L))
                    (map (fun a => repeat 0 (Z.to_nat (arr_bytes s' a))) (l_arrays L))).
Definition overflow_witness (L : layout) : list Z := overflow_file L 1024.
