(* C26 — proofs about Model/StateAPI.v *)
From Coq Require Import String Ascii List ZArith Bool Lia.
From MJV Require Import Model.StateAPI Gen.StateTable.
Import ListNotations.
Open Scope Z_scope.
Open Scope list_scope.

(* the tables regenerated from the working tree *)
Definition gen_tables : tables := mkTables enum_bits nstate size_cases ptr_cases specials field_dims.

(* ------------------------------------------------------------------------------------------ *)
Section GenericProofs.
  Variable V : Type.
  Variable toBool : V -> V.
  Variable F : Type.
  Variable feqb : F -> F -> bool.
  Hypothesis feqb_spec : forall a b, feqb a b = true <-> a = b.
  Variable n : nat.
  Variable elems : nat -> option (elem F).

  Notation data := (data V F).
  Notation getE := (getE V F).
  Notation setE := (setE V toBool F feqb).
  Notation copyE := (copyE V F feqb).
  Notation extE := (extE V F).
  Notation sizeE := (sizeE F).
  Notation maskE := (maskE F).
  Notation rd := (rd V F).
  Notation wr := (wr V toBool F feqb).
  Notation cp := (cp V F feqb).
  Notation upd := (upd V F feqb).
  Notation over := (over V).
  Notation resolve := (resolve F n elems).
  Notation bits := (bits n).
  Notation wf := (wf V toBool F elems).
  Notation fields_injective := (fields_injective F elems).

  Definition fld (ie : nat * elem F) : F := e_field (snd ie).

  Lemma feqb_refl : forall a, feqb a a = true.
  Proof. intro a. apply feqb_spec. reflexivity. Qed.

  Lemma feqb_neq : forall a b, a <> b -> feqb a b = false.
  Proof. intros a b H. destruct (feqb a b) eqn:E; auto. apply feqb_spec in E. contradiction. Qed.

  Lemma upd_same : forall d f l, upd d f l f = l.
  Proof. intros. unfold StateAPI.upd. rewrite feqb_refl. reflexivity. Qed.

  Lemma upd_other : forall d f l g, g <> f -> upd d f l g = d g.
  Proof. intros. unfold StateAPI.upd. rewrite feqb_neq; auto. Qed.

  (* ---------------- list facts ---------------- *)
  Lemma over_full : forall old new : list V, length old = length new -> over old new = new.
  Proof.
    intros old new H. unfold StateAPI.over. rewrite <- H. rewrite skipn_all. apply app_nil_r.
  Qed.

  Lemma firstn_app_exact : forall (A : Type) (a b : list A) k, length a = k -> firstn k (a ++ b) = a.
  Proof.
    intros A a b k H. subst k. rewrite firstn_app. rewrite Nat.sub_diag. simpl. rewrite app_nil_r. apply firstn_all.
  Qed.

  Lemma skipn_app_exact : forall (A : Type) (a b : list A) k, length a = k -> skipn k (a ++ b) = b.
  Proof.
    intros A a b k H. subst k. rewrite skipn_app. rewrite Nat.sub_diag. rewrite skipn_all. reflexivity.
  Qed.

  Lemma map_fixed : forall (l : list V), Forall (fun x => toBool x = x) l -> map toBool l = l.
  Proof. induction 1; simpl; congruence. Qed.

  (* ---------------- resolve ---------------- *)
  Definition good (es : list (nat * elem F)) : Prop :=
    NoDup (map fst es) /\ forall ie, In ie es -> elems (fst ie) = Some (snd ie).

  Lemma mapM_spec : forall l ys,
      mapM (fun i => option_map (pair i) (elems i)) l = Some ys ->
      map fst ys = l /\ forall ie, In ie ys -> elems (fst ie) = Some (snd ie).
  Proof.
    induction l as [|x r IH]; simpl; intros ys H.
    - inversion H. split; [reflexivity | intros ? []].
    - destruct (elems x) as [e|] eqn:Ex; simpl in H; [|discriminate].
      destruct (mapM _ r) as [ys'|] eqn:Er; [|discriminate].
      inversion H; subst. destruct (IH _ eq_refl) as [A B]. split.
      + simpl. rewrite A. reflexivity.
      + intros ie [<-|Hin]; simpl; auto.
  Qed.

  Lemma mapM_none : forall l i, In i l -> elems i = None ->
      mapM (fun i => option_map (pair i) (elems i)) l = None.
  Proof.
    induction l as [|x r IH]; simpl; intros i Hi Hn; [destruct Hi|]. destruct Hi as [->|Hin].
    - rewrite Hn. reflexivity.
    - destruct (elems x); simpl; auto. rewrite (IH _ Hin Hn). reflexivity.
  Qed.

  Lemma mapM_some : forall l, (forall i, In i l -> elems i <> None) ->
      exists ys, mapM (fun i => option_map (pair i) (elems i)) l = Some ys.
  Proof.
    induction l as [|x r IH]; simpl; intros H.
    - eexists; reflexivity.
    - destruct (elems x) as [e|] eqn:Ex; [|exfalso; apply (H x); auto].
      destruct IH as [ys Hy]; [intros; apply H; auto|]. rewrite Hy. simpl. eexists; reflexivity.
  Qed.

  Lemma mapM_filter : forall (p : nat -> bool) l ys,
      mapM (fun i => option_map (pair i) (elems i)) l = Some ys ->
      mapM (fun i => option_map (pair i) (elems i)) (filter p l) = Some (filter (fun ie => p (fst ie)) ys).
  Proof.
    induction l as [|x r IH]; simpl; intros ys H.
    - inversion H. reflexivity.
    - destruct (elems x) as [e|] eqn:Ex; simpl in H; [|discriminate].
      destruct (mapM _ r) as [ys'|] eqn:Er; [|discriminate].
      inversion H; subst. simpl. destruct (p x); simpl.
      + rewrite Ex. simpl. rewrite (IH _ eq_refl). reflexivity.
      + apply IH. reflexivity.
  Qed.

  Lemma bits_nodup : forall sig, NoDup (bits sig).
  Proof. intro. unfold StateAPI.bits. apply NoDup_filter. apply seq_NoDup. Qed.

  Lemma bits_in : forall sig i, In i (bits sig) <-> (i < n)%nat /\ Z.testbit sig (Z.of_nat i) = true.
  Proof.
    intros. unfold StateAPI.bits. rewrite filter_In, in_seq. intuition lia.
  Qed.

  Lemma resolve_spec : forall sig es, resolve sig = Some es ->
      valid_sig n sig = true /\ map fst es = bits sig /\ good es.
  Proof.
    unfold StateAPI.resolve. intros sig es H. destruct (valid_sig n sig) eqn:Ev; [|discriminate].
    apply mapM_spec in H. destruct H as [A B]. split; [reflexivity|]. split; [assumption|].
    split; [rewrite A; apply bits_nodup | assumption].
  Qed.

  Lemma resolve_invalid : forall sig, valid_sig n sig = false -> resolve sig = None.
  Proof. unfold StateAPI.resolve. intros sig H. rewrite H. reflexivity. Qed.

  Lemma resolve_bad_elem : forall sig i, In i (bits sig) -> elems i = None -> resolve sig = None.
  Proof.
    unfold StateAPI.resolve. intros sig i Hin Hn. destruct (valid_sig n sig); auto. eapply mapM_none; eauto.
  Qed.

  Lemma resolve_total : all_valid F n elems -> forall sig, valid_sig n sig = true -> exists es, resolve sig = Some es.
  Proof.
    unfold StateAPI.resolve. intros Hv sig H. rewrite H. apply mapM_some.
    intros i Hi. apply bits_in in Hi. apply Hv. tauto.
  Qed.

  (* sub-signatures *)
  Lemma valid_sub : forall s t, valid_sig n s = true -> Z.land s t = t -> valid_sig n t = true.
  Proof.
    unfold valid_sig. intros s t Hs Ht. apply andb_true_iff in Hs. destruct Hs as [H0 H1].
    apply Z.leb_le in H0. apply Z.ltb_lt in H1.
    assert (Hs : s mod 2 ^ Z.of_nat n = s) by (apply Z.mod_small; lia).
    assert (T0 : 0 <= t) by (rewrite <- Ht; apply Z.land_nonneg; auto).
    assert (Tm : t mod 2 ^ Z.of_nat n = t).
    { apply Z.bits_inj'. intros k Hk. destruct (Z.lt_ge_cases k (Z.of_nat n)).
      - apply Z.mod_pow2_bits_low. lia.
      - rewrite Z.mod_pow2_bits_high by lia. rewrite <- Ht. rewrite Z.land_spec.
        rewrite <- Hs. rewrite Z.mod_pow2_bits_high by lia. reflexivity. }
    apply andb_true_iff. split; [apply Z.leb_le; lia|].
    apply Z.ltb_lt. rewrite <- Tm. apply Z.mod_pos_bound. apply Z.pow_pos_nonneg; lia.
  Qed.

  Lemma bits_sub : forall s t, Z.land s t = t ->
      bits t = filter (fun i => Z.testbit t (Z.of_nat i)) (bits s).
  Proof.
    intros s t H. unfold StateAPI.bits.
    induction (seq 0 n) as [|x r IH]; simpl; auto.
    destruct (Z.testbit t (Z.of_nat x)) eqn:Et.
    - assert (Es : Z.testbit s (Z.of_nat x) = true).
      { rewrite <- H in Et. rewrite Z.land_spec in Et. apply andb_true_iff in Et. tauto. }
      rewrite Es. simpl. rewrite Et. rewrite IH. reflexivity.
    - destruct (Z.testbit s (Z.of_nat x)); simpl; [rewrite Et|]; apply IH.
  Qed.

  Lemma resolve_sub : forall s t es, resolve s = Some es -> Z.land s t = t ->
      resolve t = Some (filter (fun ie => Z.testbit t (Z.of_nat (fst ie))) es).
  Proof.
    intros s t es H Ht. unfold StateAPI.resolve in *.
    destruct (valid_sig n s) eqn:Ev; [|discriminate].
    rewrite (valid_sub s t Ev Ht). rewrite (bits_sub s t Ht).
    apply (mapM_filter (fun i => Z.testbit t (Z.of_nat i))). assumption.
  Qed.

  (* ---------------- frame properties of the writers ---------------- *)
  Lemma setE_frame : forall es d v f, ~ In f (map fld es) -> setE d v es f = d f.
  Proof.
    induction es as [|ie r IH]; simpl; intros d v f H; auto.
    rewrite IH by tauto. unfold StateAPI.wr. apply upd_other. intro; apply H; left; unfold fld; congruence.
  Qed.

  Lemma copyE_frame : forall es src dst f, ~ In f (map fld es) -> copyE src dst es f = dst f.
  Proof.
    induction es as [|ie r IH]; simpl; intros src dst f H; auto.
    rewrite IH by tauto. unfold StateAPI.cp. apply upd_other. intro; apply H; left; unfold fld; congruence.
  Qed.

  Lemma setE_ext : forall es d1 d2 v, (forall f, d1 f = d2 f) -> forall f, setE d1 v es f = setE d2 v es f.
  Proof.
    induction es as [|ie r IH]; simpl; intros d1 d2 v H f; auto.
    apply IH. intro g. unfold StateAPI.wr, StateAPI.upd. rewrite H. destruct (feqb g _); auto.
  Qed.

  (* pairwise distinct fields inside a resolved list *)
  Lemma good_fields_nodup : fields_injective -> forall es, good es -> NoDup (map fld es).
  Proof.
    intros Hinj es [Hnd Hel]. induction es as [|ie r IH]; simpl; [constructor|].
    inversion Hnd as [|? ? Hni Hnd']; subst. constructor.
    - intro Hin. apply in_map_iff in Hin. destruct Hin as [je [Hf Hje]].
      apply Hni. apply in_map_iff. exists je. split; auto.
      apply (Hinj (fst je) (fst ie) (snd je) (snd ie)); auto.
      + apply Hel. right. assumption.
      + apply Hel. left. reflexivity.
    - apply IH; auto. intros; apply Hel; right; assumption.
  Qed.

  (* lengths of the arrays named by a resolved list *)
  Definition lens_ok (d : data) (es : list (nat * elem F)) : Prop :=
    forall ie, In ie es -> length (d (fld ie)) = e_size (snd ie).

  Definition bools_ok (d : data) (es : list (nat * elem F)) : Prop :=
    forall ie, In ie es -> e_bool (snd ie) = true -> Forall (fun x => toBool x = x) (d (fld ie)).

  Lemma wf_lens : forall d es, wf d -> good es -> lens_ok d es /\ bools_ok d es.
  Proof.
    intros d es Hwf [_ Hel]. split; intros ie Hin; destruct (Hwf _ _ (Hel _ Hin)) as [A B]; auto.
  Qed.

  Lemma rd_len : forall d ie, length (d (fld ie)) = e_size (snd ie) -> rd d (snd ie) = d (fld ie).
  Proof. intros d ie H. unfold StateAPI.rd, fld in *. rewrite <- H. apply firstn_all. Qed.

  (* ---------------- T1 : size ---------------- *)
  Lemma getE_length : forall d es, lens_ok d es -> length (getE d es) = sizeE es.
  Proof.
    induction es as [|ie r IH]; simpl; intros H; auto.
    rewrite app_length. rewrite IH by (intros x Hx; apply H; right; assumption).
    rewrite rd_len by (apply H; left; reflexivity). rewrite (H ie) by (left; reflexivity). reflexivity.
  Qed.

  (* ---------------- T2 : set after get restores ---------------- *)
  Definition conv (b : bool) (l : list V) : list V := if b then map toBool l else l.

  Lemma setE_getE : forall es d d',
      NoDup (map fld es) -> lens_ok d es -> bools_ok d es -> lens_ok d' es ->
      (forall ie, In ie es -> setE d' (getE d es) es (fld ie) = d (fld ie)) /\
      (forall f, ~ In f (map fld es) -> setE d' (getE d es) es f = d' f).
  Proof.
    intros es d d' Hnd Hl Hb Hl'. split; [|intros; apply setE_frame; assumption].
    revert d' Hnd Hl Hb Hl'. induction es as [|ie r IH]; intros d' Hnd Hl Hb Hl' je Hin; [destruct Hin|].
    inversion Hnd as [|? ? Hni Hnd']; subst.
    assert (Hr : rd d (snd ie) = d (fld ie)) by (apply rd_len; apply Hl; left; reflexivity).
    assert (Hlen : length (d (fld ie)) = e_size (snd ie)) by (apply Hl; left; reflexivity).
    simpl. rewrite Hr.
    rewrite skipn_app_exact by assumption.
    set (d1 := wr d' (snd ie) (d (fld ie) ++ getE d r)).
    assert (Hd1 : d1 (fld ie) = d (fld ie)).
    { unfold d1, StateAPI.wr. unfold fld. rewrite upd_same. fold (fld ie).
      rewrite firstn_app_exact by assumption.
      assert (Hc : (if e_bool (snd ie) then map toBool (d (fld ie)) else d (fld ie)) = d (fld ie)).
      { destruct (e_bool (snd ie)) eqn:Eb; auto. apply map_fixed. apply Hb; [left; reflexivity | assumption]. }
      rewrite Hc. apply over_full. rewrite Hlen. apply Hl'. left; reflexivity. }
    assert (Hd1o : forall g, g <> fld ie -> d1 g = d' g).
    { intros g Hg. unfold d1, StateAPI.wr. apply upd_other. exact Hg. }
    destruct Hin as [<-|Hin].
    - rewrite setE_frame by assumption. exact Hd1.
    - apply IH; auto.
      + intros x Hx; apply Hl; right; assumption.
      + intros x Hx; apply Hb; right; assumption.
      + intros x Hx. rewrite Hd1o; [apply Hl'; right; assumption|].
        intro E. apply Hni. rewrite <- E. apply in_map. assumption.
  Qed.

  (* ---------------- T3 : get after set ---------------- *)
  Lemma applyMask_app : forall m1 m2 v1 v2, length m1 = length v1 ->
      applyMask V toBool (m1 ++ m2) (v1 ++ v2) = applyMask V toBool m1 v1 ++ applyMask V toBool m2 v2.
  Proof.
    induction m1 as [|b m1 IH]; intros m2 v1 v2 H; destruct v1 as [|x v1]; simpl in *; try discriminate; auto.
    rewrite IH by lia. reflexivity.
  Qed.

  Lemma applyMask_repeat : forall b v, applyMask V toBool (repeat b (length v)) v = conv b v.
  Proof.
    intros b v. induction v as [|x v IH]; simpl; [destruct b; reflexivity|].
    rewrite IH. destruct b; reflexivity.
  Qed.

  Lemma conv_length : forall b l, length (conv b l) = length l.
  Proof. intros [] l; simpl; auto. apply map_length. Qed.

  Lemma getE_setE : forall es d v,
      NoDup (map fld es) -> lens_ok d es -> length v = sizeE es ->
      getE (setE d v es) es = applyMask V toBool (maskE es) v.
  Proof.
    induction es as [|ie r IH]; intros d v Hnd Hl Hv.
    - simpl. destruct v; reflexivity.
    - inversion Hnd as [|? ? Hni Hnd']; subst. simpl in Hv.
      assert (Hsplit : v = firstn (e_size (snd ie)) v ++ skipn (e_size (snd ie)) v) by (symmetry; apply firstn_skipn).
      set (v1 := firstn (e_size (snd ie)) v) in *. set (v2 := skipn (e_size (snd ie)) v) in *.
      assert (Hv1 : length v1 = e_size (snd ie)) by (unfold v1; rewrite firstn_length; lia).
      assert (Hv2 : length v2 = sizeE r) by (unfold v2; rewrite skipn_length; lia).
      simpl. fold v2.
      set (d1 := wr d (snd ie) v).
      assert (Hd1 : d1 (fld ie) = conv (e_bool (snd ie)) v1).
      { unfold d1, StateAPI.wr, fld. rewrite upd_same. fold v1. fold (conv (e_bool (snd ie)) v1).
        apply over_full. rewrite conv_length, Hv1. apply Hl. left; reflexivity. }
      assert (Hd1o : forall g, g <> fld ie -> d1 g = d g).
      { intros g Hg. unfold d1, StateAPI.wr. apply upd_other. exact Hg. }
      assert (Hrd : rd (setE d1 v2 r) (snd ie) = conv (e_bool (snd ie)) v1).
      { unfold StateAPI.rd. fold (fld ie). rewrite setE_frame by assumption. rewrite Hd1.
        rewrite <- Hv1. rewrite <- (conv_length (e_bool (snd ie)) v1). apply firstn_all. }
      rewrite Hrd.
      assert (Hget : getE (setE d1 v2 r) r = applyMask V toBool (maskE r) v2).
      { apply IH; auto. intros x Hx. rewrite Hd1o; [apply Hl; right; assumption|].
        intro E. apply Hni. rewrite <- E. apply in_map. assumption. }
      assert (Hge : forall D, getE D (ie :: r) = rd D (snd ie) ++ getE D r) by reflexivity.
      change (flat_map (fun ie0 => rd (setE d1 v2 r) (snd ie0)) r) with (getE (setE d1 v2 r) r).
      rewrite Hget. rewrite Hsplit.
      rewrite applyMask_app by (rewrite repeat_length; lia).
      rewrite <- Hv1. rewrite applyMask_repeat. reflexivity.
  Qed.

  (* ---------------- T4 : extract ---------------- *)
  Lemma extE_getE : forall es d t, lens_ok d es ->
      extE (getE d es) t es = getE d (filter (fun ie => Z.testbit t (Z.of_nat (fst ie))) es).
  Proof.
    induction es as [|ie r IH]; intros d t Hl; simpl; auto.
    assert (Hlen : length (rd d (snd ie)) = e_size (snd ie)).
    { rewrite rd_len by (apply Hl; left; reflexivity). apply Hl. left; reflexivity. }
    rewrite firstn_app_exact by assumption. rewrite skipn_app_exact by assumption.
    rewrite IH by (intros x Hx; apply Hl; right; assumption).
    destruct (Z.testbit t (Z.of_nat (fst ie))); reflexivity.
  Qed.

  (* ---------------- T5 : copy = set after get ---------------- *)
  Lemma copyE_setE : forall es src dst,
      lens_ok src es -> bools_ok src es ->
      forall f, copyE src dst es f = setE dst (getE src es) es f.
  Proof.
    induction es as [|ie r IH]; intros src dst Hl Hb f; simpl; auto.
    assert (Hlen : length (rd src (snd ie)) = e_size (snd ie)).
    { rewrite rd_len by (apply Hl; left; reflexivity). apply Hl. left; reflexivity. }
    rewrite skipn_app_exact by assumption.
    rewrite IH; [| intros x Hx; apply Hl; right; assumption | intros x Hx; apply Hb; right; assumption].
    apply setE_ext. intro g. unfold StateAPI.cp, StateAPI.wr.
    rewrite firstn_app_exact by assumption.
    assert (Hc : (if e_bool (snd ie) then map toBool (rd src (snd ie)) else rd src (snd ie)) = rd src (snd ie)).
    { destruct (e_bool (snd ie)) eqn:Eb; auto. apply map_fixed.
      rewrite rd_len by (apply Hl; left; reflexivity). apply Hb; [left; reflexivity | assumption]. }
    rewrite Hc. reflexivity.
  Qed.

  (* setState keeps an mjData well-formed: lengths and 0/1 contents of mjtBool arrays *)
  Lemma wr_length : forall d e src f, length (d (e_field e)) = e_size e ->
      length (wr d e src f) = length (d f).
  Proof.
    intros d e src f H. unfold StateAPI.wr, StateAPI.upd. destruct (feqb f (e_field e)) eqn:E; auto.
    apply feqb_spec in E. subst f. unfold StateAPI.over.
    set (new := if e_bool e then map toBool (firstn (e_size e) src) else firstn (e_size e) src).
    assert (Hn : (length new <= e_size e)%nat).
    { unfold new. destruct (e_bool e); [rewrite map_length|]; rewrite firstn_length; lia. }
    rewrite app_length, skipn_length. lia.
  Qed.

  (* ---------------- API level ---------------- *)
  Section API.
    Hypothesis Hinj : fields_injective.

    Theorem size_get : forall d sig, wf d ->
        option_map (@length V) (getState V F n elems d sig) = stateSize F n elems sig.
    Proof.
      intros d sig Hwf. unfold getState, stateSize. destruct (resolve sig) as [es|] eqn:E; simpl; auto.
      apply resolve_spec in E. destruct E as (_ & _ & Hg).
      rewrite getE_length; auto. apply (wf_lens d es Hwf Hg).
    Qed.

    Theorem set_get : forall d d' sig v, wf d -> wf d' ->
        getState V F n elems d sig = Some v ->
        exists d'', setState V toBool F feqb n elems d' v sig = Some d'' /\
          (forall i e, In i (bits sig) -> elems i = Some e -> d'' (e_field e) = d (e_field e)) /\
          (forall f, (forall i e, In i (bits sig) -> elems i = Some e -> e_field e <> f) -> d'' f = d' f).
    Proof.
      intros d d' sig v Hwf Hwf' Hget. unfold getState, setState in *.
      destruct (resolve sig) as [es|] eqn:E; simpl in *; [|discriminate].
      inversion Hget; subst v. eexists. split; [reflexivity|].
      apply resolve_spec in E. destruct E as (_ & Hbits & Hg).
      destruct (wf_lens d es Hwf Hg) as [Hl Hb]. destruct (wf_lens d' es Hwf' Hg) as [Hl' _].
      destruct (setE_getE es d d' (good_fields_nodup Hinj es Hg) Hl Hb Hl') as [A B].
      split.
      - intros i e Hi He. rewrite <- Hbits in Hi. apply in_map_iff in Hi. destruct Hi as [ie [Hfi Hin]].
        destruct Hg as [_ Hel]. specialize (Hel _ Hin). rewrite Hfi, He in Hel. inversion Hel as [Hse].
        specialize (A _ Hin). unfold fld in A. congruence.
      - intros f Hf. apply B. intro Hin. apply in_map_iff in Hin. destruct Hin as [ie [Hfe Hin]].
        destruct Hg as [_ Hel]. apply (Hf (fst ie) (snd ie)); auto.
        rewrite <- Hbits. apply in_map. assumption.
    Qed.

    Theorem get_set : forall d sig v size m, wf d ->
        stateSize F n elems sig = Some size -> length v = size -> stateMask F n elems sig = Some m ->
        exists d', setState V toBool F feqb n elems d v sig = Some d' /\
                   getState V F n elems d' sig = Some (applyMask V toBool m v).
    Proof.
      intros d sig v size m Hwf Hs Hv Hm. unfold stateSize, stateMask, setState, getState in *.
      destruct (resolve sig) as [es|] eqn:E; simpl in *; [|discriminate].
      inversion Hs; inversion Hm; subst. eexists. split; [reflexivity|].
      apply resolve_spec in E. destruct E as (_ & _ & Hg).
      f_equal. apply getE_setE; auto.
      - apply (good_fields_nodup Hinj es Hg).
      - apply (wf_lens d es Hwf Hg).
    Qed.

    (* entries stored through mjtBool that already are 0/1 come back unchanged *)
    Lemma applyMask_fixed : forall m v,
        (forall k b x, nth_error m k = Some b -> nth_error v k = Some x -> b = true -> toBool x = x) ->
        length m = length v -> applyMask V toBool m v = v.
    Proof.
      induction m as [|b m IH]; intros v H Hl; destruct v as [|x v]; simpl in *; try discriminate; auto.
      f_equal.
      - destruct b; auto. apply (H 0%nat true x); reflexivity.
      - apply IH; [|lia]. intros k b' x' A B C. apply (H (S k) b' x'); assumption.
    Qed.

    Lemma maskE_length : forall es, length (maskE es) = sizeE es.
    Proof.
      induction es as [|ie r IH]; simpl; auto. rewrite app_length, repeat_length, IH. reflexivity.
    Qed.

    Theorem get_set_bool : forall d sig v size m, wf d ->
        stateSize F n elems sig = Some size -> length v = size -> stateMask F n elems sig = Some m ->
        (forall k x, nth_error m k = Some true -> nth_error v k = Some x -> toBool x = x) ->
        exists d', setState V toBool F feqb n elems d v sig = Some d' /\
                   getState V F n elems d' sig = Some v.
    Proof.
      intros d sig v size m Hwf Hs Hv Hm Hb.
      destruct (get_set d sig v size m Hwf Hs Hv Hm) as [d' [A B]]. exists d'. split; auto.
      rewrite B. f_equal. apply applyMask_fixed.
      - intros k b x Hk Hx ->. eapply Hb; eauto.
      - unfold stateSize, stateMask in *. destruct (resolve sig); simpl in *; [|discriminate].
        inversion Hs; inversion Hm; subst. rewrite maskE_length. lia.
    Qed.

    Theorem extract_get : forall d s t v, wf d ->
        getState V F n elems d s = Some v -> Z.land s t = t ->
        extractState V F n elems v s t = getState V F n elems d t.
    Proof.
      intros d s t v Hwf Hget Ht. unfold getState, extractState in *.
      destruct (resolve s) as [es|] eqn:E; simpl in *; [|discriminate].
      inversion Hget; subst v. rewrite (resolve_sub s t es E Ht). simpl.
      rewrite Ht, Z.eqb_refl. f_equal.
      apply resolve_spec in E. destruct E as (_ & _ & Hg).
      apply extE_getE. apply (wf_lens d es Hwf Hg).
    Qed.

    Theorem copy_set_get : forall src dst sig, wf src ->
        match copyState V F feqb n elems src dst sig, getState V F n elems src sig with
        | Some d1, Some v =>
            match setState V toBool F feqb n elems dst v sig with
            | Some d2 => forall f, d1 f = d2 f
            | None => False
            end
        | None, None => setState V toBool F feqb n elems dst [] sig = None
        | _, _ => False
        end.
    Proof.
      intros src dst sig Hwf. unfold copyState, getState, setState.
      destruct (resolve sig) as [es|] eqn:E; simpl; auto.
      apply resolve_spec in E. destruct E as (_ & _ & Hg).
      destruct (wf_lens src es Hwf Hg). apply copyE_setE; assumption.
    Qed.
  End API.

  (* error outcomes (no hypothesis on the table) *)
  Theorem errors_invalid_sig : forall sig, (sig < 0 \/ 2 ^ Z.of_nat n <= sig) ->
      stateSize F n elems sig = None /\
      (forall d, getState V F n elems d sig = None) /\
      (forall d v, setState V toBool F feqb n elems d v sig = None) /\
      (forall src dst, copyState V F feqb n elems src dst sig = None) /\
      (forall v t, extractState V F n elems v sig t = None).
  Proof.
    intros sig H.
    assert (Hv : valid_sig n sig = false).
    { unfold valid_sig. destruct H.
      - replace (0 <=? sig) with false; auto. symmetry. apply Z.leb_gt. lia.
      - replace (sig <? 2 ^ Z.of_nat n) with false; [apply andb_false_r|]. symmetry. apply Z.ltb_ge. lia. }
    pose proof (resolve_invalid sig Hv) as R.
    unfold stateSize, getState, setState, copyState, extractState. rewrite R. simpl. repeat split; auto.
  Qed.

  Theorem errors_not_subset : forall v s t, Z.land s t <> t -> extractState V F n elems v s t = None.
  Proof.
    intros v s t H. unfold extractState. destruct (resolve s); auto.
    destruct (Z.land s t =? t) eqn:E; auto. apply Z.eqb_eq in E. contradiction.
  Qed.

  Theorem errors_invalid_elem : forall sig i, (i < n)%nat -> Z.testbit sig (Z.of_nat i) = true -> elems i = None ->
      stateSize F n elems sig = None /\
      (forall d, getState V F n elems d sig = None) /\
      (forall d v, setState V toBool F feqb n elems d v sig = None) /\
      (forall src dst, copyState V F feqb n elems src dst sig = None) /\
      (forall v t, extractState V F n elems v sig t = None).
  Proof.
    intros sig i Hi Hb He.
    assert (R : resolve sig = None) by (apply (resolve_bad_elem sig i); auto; apply bits_in; auto).
    unfold stateSize, getState, setState, copyState, extractState. rewrite R. simpl. repeat split; auto.
  Qed.

  Theorem no_error_when_valid : all_valid F n elems -> forall sig, 0 <= sig < 2 ^ Z.of_nat n ->
      stateSize F n elems sig <> None /\
      (forall d, getState V F n elems d sig <> None) /\
      (forall d v, setState V toBool F feqb n elems d v sig <> None) /\
      (forall src dst, copyState V F feqb n elems src dst sig <> None) /\
      (forall v t, Z.land sig t = t -> extractState V F n elems v sig t <> None).
  Proof.
    intros Hv sig H.
    assert (V0 : valid_sig n sig = true).
    { unfold valid_sig. apply andb_true_iff. split; [apply Z.leb_le | apply Z.ltb_lt]; lia. }
    destruct (resolve_total Hv sig V0) as [es R].
    unfold stateSize, getState, setState, copyState, extractState. rewrite R. simpl.
    repeat split; try discriminate. intros v t Ht. rewrite Ht, Z.eqb_refl. discriminate.
  Qed.
End GenericProofs.

(* ------------------------------------------------------------------------------------------ *)
(* The generated tables satisfy the hypotheses of the generic theorems (given the computed checks) *)
Section Instance.
  Variable T : tables.
  Variable env : string -> Z.
  Hypothesis Hok : table_ok T = true.

  Let N := Z.to_nat (t_nstate T).

  Lemma static_length : length (static T) = N.
  Proof. unfold static. rewrite map_length, seq_length. reflexivity. Qed.

  Lemma table_ok_parts :
    forallb (fun o => match o with Some se => selem_ok T se | None => false end) (static T) = true /\
    nodupb (static_fields T) = true.
  Proof.
    pose proof Hok as H. unfold table_ok in H. repeat (apply andb_true_iff in H; destruct H as [H ?]). split; assumption.
  Qed.

  Lemma static_some : forall i, (i < N)%nat -> exists se, nth_error (static T) i = Some (Some se) /\ selem_ok T se = true.
  Proof.
    intros i Hi. destruct table_ok_parts as [Hall _].
    destruct (nth_error (static T) i) as [o|] eqn:E.
    - pose proof (nth_error_In _ _ E) as Hin. rewrite forallb_forall in Hall. specialize (Hall _ Hin).
      destruct o as [se|]; [|discriminate]. exists se. split; auto.
    - apply nth_error_None in E. rewrite static_length in E. lia.
  Qed.

  Lemma inst_valid : all_valid string N (elems_of T env).
  Proof.
    intros i Hi. destruct (static_some i Hi) as [[[[c f] sz] b] [E _]].
    unfold elems_of, elems_of_static. rewrite E. discriminate.
  Qed.

  Lemma elems_of_static_inv : forall i e, elems_of T env i = Some e ->
      exists c sz, nth_error (static T) i = Some (Some (c, e_field e, sz, e_bool e)) /\ e_size e = Z.to_nat (dimval env sz).
  Proof.
    intros i e H. unfold elems_of, elems_of_static in H.
    destruct (nth_error (static T) i) as [[[[[c f] sz] b]|]|]; try discriminate.
    inversion H; subst. simpl. exists c, sz. split; reflexivity.
  Qed.

  Lemma nth_in_fields : forall st j c f sz b, nth_error st j = Some (Some (c, f, sz, b)) ->
      In f (flat_map (fun o : option selem => match o with Some (_, f, _, _) => [f] | None => [] end) st).
  Proof.
    intros st j c f sz b H. apply in_flat_map. exists (Some (c, f, sz, b)). split.
    - eapply nth_error_In; eauto.
    - left; reflexivity.
  Qed.

  Lemma nodupb_notin : forall x l, negb (existsb (String.eqb x) l) = true -> ~ In x l.
  Proof.
    intros x l H Hin. apply negb_true_iff in H.
    assert (existsb (String.eqb x) l = true) by (apply existsb_exists; exists x; split; auto; apply String.eqb_refl).
    congruence.
  Qed.

  Lemma nodup_static : forall st,
      nodupb (flat_map (fun o : option selem => match o with Some (_, f, _, _) => [f] | None => [] end) st) = true ->
      forall i j ci szi bi cj szj bj f,
        nth_error st i = Some (Some (ci, f, szi, bi)) -> nth_error st j = Some (Some (cj, f, szj, bj)) -> i = j.
  Proof.
    induction st as [|o r IH]; intros Hnd i j ci szi bi cj szj bj f Hi Hj.
    - destruct i; discriminate.
    - destruct o as [[[[c0 f0] sz0] b0]|]; simpl in Hnd.
      + apply andb_true_iff in Hnd. destruct Hnd as [Hni Hnd]. apply nodupb_notin in Hni.
        destruct i as [|i], j as [|j]; simpl in *; auto.
        * inversion Hi; subst. exfalso. apply Hni. eapply nth_in_fields; eauto.
        * inversion Hj; subst. exfalso. apply Hni. eapply nth_in_fields; eauto.
        * f_equal. eapply IH; eauto.
      + destruct i as [|i], j as [|j]; simpl in *; try discriminate. f_equal. eapply IH; eauto.
  Qed.

  Lemma inst_inj : fields_injective string (elems_of T env).
  Proof.
    intros i j ei ej Hi Hj Hf. destruct table_ok_parts as [_ Hnd].
    apply elems_of_static_inv in Hi. apply elems_of_static_inv in Hj.
    destruct Hi as (ci & szi & Hi & _). destruct Hj as (cj & szj & Hj & _).
    rewrite Hf in Hi. eapply (nodup_static (static T) Hnd); eauto.
  Qed.

  (* the size mj_stateElemSize returns is the length of the array per MJDATA_POINTERS / MJDATA_SCALAR *)
  Lemma inst_len : forall i e, (i < N)%nat -> elems_of T env i = Some e ->
      field_len T env (e_field e) = Some (e_size e).
  Proof.
    intros i e Hi He. destruct (static_some i Hi) as [se [E Hs]].
    apply elems_of_static_inv in He. destruct He as (c & sz & E' & Hsz).
    rewrite E in E'. inversion E'; subst se. unfold selem_ok in Hs. destruct sz as [coef dim].
    unfold field_len. destruct (assoc (e_field e) (t_fields T)) as [[ty [nc nr]]|]; [|discriminate].
    apply andb_true_iff in Hs. destruct Hs as [Hs _]. apply andb_true_iff in Hs. destruct Hs as [H1 H2].
    apply Z.eqb_eq in H1. apply String.eqb_eq in H2. subst. rewrite Hsz. reflexivity.
  Qed.

  (* elements stored through mjtBool are exactly those whose field is declared mjtBool *)
  Lemma inst_bool : forall i e, (i < N)%nat -> elems_of T env i = Some e ->
      exists ty d, assoc (e_field e) (t_fields T) = Some (ty, d) /\ (e_bool e = true <-> ty = "mjtBool"%string).
  Proof.
    intros i e Hi He. destruct (static_some i Hi) as [se [E Hs]].
    apply elems_of_static_inv in He. destruct He as (c & sz & E' & Hsz).
    rewrite E in E'. inversion E'; subst se. unfold selem_ok in Hs. destruct sz as [coef dim].
    destruct (assoc (e_field e) (t_fields T)) as [[ty [nc nr]]|]; [|discriminate].
    exists ty, (nc, nr). split; auto.
    apply andb_true_iff in Hs. destruct Hs as [_ Hs]. destruct (e_bool e).
    - apply andb_true_iff in Hs. destruct Hs as [Hs _]. apply String.eqb_eq in Hs. tauto.
    - apply andb_true_iff in Hs. destruct Hs as [Hs _]. apply String.eqb_eq in Hs. subst. split; discriminate.
  Qed.
End Instance.

(* ------------------------------------------------------------------------------------------ *)
(* Reset                                                                                        *)
Section ResetProofs.
  Variable V : Type.
  Variable zero : V.
  Variable toBool : V -> V.

  Notation resetData := (resetData V zero).
  Notation makeData := (makeData V zero).
  Notation resetDataKeyframe := (resetDataKeyframe V zero).

  (* every field except plugin_state is independent of the previous contents *)
  Theorem reset_independent : forall m d1 d2 f, f <> "plugin_state"%string -> resetData m d1 f = resetData m d2 f.
  Proof.
    intros m d1 d2 f Hf. unfold StateAPI.resetData, reset_field.
    repeat match goal with |- context [String.eqb f ?s] => destruct (String.eqb f s) eqn:? end; auto.
    exfalso. apply Hf. apply String.eqb_eq. assumption.
  Qed.

  (* with a plugin reset callback that overwrites its whole state, a reset mjData equals a fresh one *)
  Theorem reset_fresh : forall m, (forall a b, r_plugin_reset V m a = r_plugin_reset V m b) ->
      forall d raw f, resetData m d f = makeData m raw f.
  Proof.
    intros m Hp d raw f. unfold StateAPI.makeData, StateAPI.resetData, reset_field.
    repeat match goal with |- context [String.eqb f ?s] => destruct (String.eqb f s) eqn:? end; auto.
  Qed.

  Theorem reset_key_invalid : forall m d f, resetDataKeyframe m d None f = resetData m d f.
  Proof. reflexivity. Qed.

  (* fields a keyframe does not store keep their reset value *)
  Lemma key_assoc_none : forall k f, ~ In f key_names -> assoc f (key_fields V k) = None.
  Proof.
    intros k f H. unfold key_fields. simpl.
    repeat match goal with |- context [String.eqb f ?s] =>
      let E := fresh in destruct (String.eqb f s) eqn:E;
      [exfalso; apply H; apply String.eqb_eq in E; subst; simpl; tauto|] end.
    reflexivity.
  Qed.

  Theorem reset_key_other : forall m d k f, ~ In f key_names -> resetDataKeyframe m d (Some k) f = resetData m d f.
  Proof. intros. unfold StateAPI.resetDataKeyframe. rewrite key_assoc_none; auto. Qed.

  (* keyframe reset = reset followed by mj_setState of the key arrays with the signature key_sig *)
  Section KeyIsSet.
    Variable T : tables.
    Variable env : string -> Z.
    Hypothesis Hok : table_ok T = true.
    Hypothesis Hkey : key_ok T = true.

    Let N := Z.to_nat (t_nstate T).
    Let E := elems_of T env.

    Lemma olist_eqb_spec : forall l1 l2, olist_eqb l1 l2 = true -> l1 = map Some l2.
    Proof.
      induction l1 as [|[a|] r IH]; intros [|b l2] H; simpl in *; try discriminate; auto.
      apply andb_true_iff in H. destruct H as [H1 H2]. apply String.eqb_eq in H1. subst.
      rewrite (IH _ H2). reflexivity.
    Qed.

    Lemma key_bits_fields : map (sfield T) (bits N (key_sig T)) = map Some key_names.
    Proof.
      unfold key_ok in Hkey. apply andb_true_iff in Hkey. destruct Hkey as [H _].
      apply olist_eqb_spec. exact H.
    Qed.

    Lemma sfield_elems : forall i e, E i = Some e -> sfield T i = Some (e_field e).
    Proof.
      intros i e H. apply elems_of_static_inv in H. destruct H as (c & sz & H & _).
      unfold sfield. rewrite H. reflexivity.
    Qed.

    Theorem reset_key_is_set : forall m d k,
        wf V toBool string E (resetData m d) ->
        wf V toBool string E (resetDataKeyframe m d (Some k)) ->
        exists v d'',
          getState V string N E (resetDataKeyframe m d (Some k)) (key_sig T) = Some v /\
          setState V toBool string String.eqb N E (resetData m d) v (key_sig T) = Some d'' /\
          forall f, d'' f = resetDataKeyframe m d (Some k) f.
    Proof.
      intros m d k HwR HwD.
      assert (Hv : valid_sig N (key_sig T) = true).
      { unfold key_ok in Hkey. apply andb_true_iff in Hkey. tauto. }
      destruct (resolve_total string N E (inst_valid T env Hok) (key_sig T) Hv) as [es Hes].
      set (D := resetDataKeyframe m d (Some k)) in *.
      assert (Hget : getState V string N E D (key_sig T) = Some (getE V string D es)).
      { unfold getState. rewrite Hes. reflexivity. }
      destruct (set_get V toBool string String.eqb String.eqb_eq N E (inst_inj T env Hok) D (resetData m d)
                        (key_sig T) _ HwD HwR Hget) as [d'' [Hset [A B]]].
      exists (getE V string D es), d''. split; [assumption|]. split; [assumption|].
      intro f. destruct (in_dec string_dec f key_names) as [Hin|Hnin].
      - (* f is one of the key arrays: some element of key_sig lives in it *)
        assert (Hin' : In (Some f) (map (sfield T) (bits N (key_sig T)))).
        { rewrite key_bits_fields. apply in_map. assumption. }
        apply in_map_iff in Hin'. destruct Hin' as [i [Hsf Hi]].
        assert (Hlt : (i < N)%nat).
        { pose proof Hi as Hi'. unfold bits in Hi'. apply filter_In in Hi'. destruct Hi' as [Hi' _]. apply in_seq in Hi'. lia. }
        destruct (E i) as [e|] eqn:Ee; [|exfalso; eapply (inst_valid T env Hok); eauto].
        pose proof (sfield_elems i e Ee) as Hsf'. rewrite Hsf in Hsf'. inversion Hsf'; subst f.
        apply (A i e); assumption.
      - rewrite B.
        + unfold D. symmetry. apply reset_key_other. assumption.
        + intros i e Hi Ee Hf. apply Hnin. subst f.
          assert (Hin' : In (Some (e_field e)) (map Some key_names)).
          { rewrite <- key_bits_fields. apply in_map_iff. exists i. split; auto. apply sfield_elems. assumption. }
          apply in_map_iff in Hin'. destruct Hin' as [g [Hg Hin']]. inversion Hg; subst. assumption.
    Qed.
  End KeyIsSet.
End ResetProofs.
