(* C21 — proofs about the allocation protocol model (Model/AllocProto.v):
   (1) the executable monitor heap_after/safe_trace is sound and complete for the declarative
       small-step definition Safe, and Safe excludes double free, free/use of a block that is not
       live and use of NULL, stated positionally on the trace;
   (2) run p o n is one of paths p n for EVERY oracle o (and every element of paths p n is the run
       of some oracle), so a property of all oracles follows from a finite check over paths;
   (3) the protocol theorems for every source variant, contract mode, scenario and oracle. *)
From Coq Require Import List Bool Arith Lia.
From MJV Require Import Model.AllocProto.
Import ListNotations.

(* ------------------------------------------------------------------ declarative safety *)
Inductive Step : list nat -> event -> list nat -> Prop :=
| SAlloc (h : list nat) (id s : nat) : ~ In id h -> Step h (Alloc id s) (id :: h)
| SAllocFail (h : list nat) (n s : nat) : Step h (AllocFail n s) h
| SFree (h : list nat) (id : nat) : In id h -> Step h (Free id) (del id h)
| SUse (h : list nat) (id : nat) : In id h -> Step h (Use (Some id)) h
| SError (h : list nat) (c : nat) : Step h (Error c) h
| SWarn (h : list nat) (c : nat) : Step h (Warn c) h
| SReturn (h : list nat) (r : retv) : Step h (Return r) h.

Inductive Safe : list nat -> trace -> list nat -> Prop :=
| SafeNil (h : list nat) : Safe h [] h
| SafeCons (h h1 h2 : list nat) (e : event) (t : trace) :
    Step h e h1 -> Safe h1 t h2 -> Safe h (e :: t) h2.

Lemma mem_In : forall (x : nat) (l : list nat), mem x l = true <-> In x l.
Proof.
  intros x l. induction l as [|y r IH]; simpl.
  - split; [discriminate | tauto].
  - destruct (Nat.eqb x y) eqn:E.
    + apply Nat.eqb_eq in E. subst. tauto.
    + apply Nat.eqb_neq in E. rewrite IH. split; [tauto | intros [H|H]; [congruence | exact H]].
Qed.

Lemma mem_false_In : forall (x : nat) (l : list nat), mem x l = false <-> ~ In x l.
Proof.
  intros x l. rewrite <- mem_In. destruct (mem x l); split; congruence.
Qed.

Lemma In_del : forall (x y : nat) (l : list nat), In y (del x l) <-> In y l /\ y <> x.
Proof.
  intros x y l. induction l as [|z r IH]; simpl.
  - tauto.
  - destruct (Nat.eqb x z) eqn:E.
    + apply Nat.eqb_eq in E. subst. rewrite IH. split.
      * tauto.
      * intros [[H|H] N]; [congruence | tauto].
    + apply Nat.eqb_neq in E. simpl. rewrite IH. split.
      * intros [H|[H N]]; [subst; split; [tauto | congruence] | tauto].
      * tauto.
Qed.

Lemma step_heap_Step : forall (h : list nat) (e : event) (h' : list nat),
  step_heap h e = Some h' <-> Step h e h'.
Proof.
  intros h e h'. split.
  - destruct e as [id s|n s|id|[id|]|c|c|r]; simpl; intro H.
    + destruct (mem id h) eqn:E; [discriminate|]. inversion H. subst.
      constructor. apply mem_false_In. exact E.
    + inversion H. constructor.
    + destruct (mem id h) eqn:E; [|discriminate]. inversion H. subst.
      constructor. apply mem_In. exact E.
    + destruct (mem id h) eqn:E; [|discriminate]. inversion H. subst.
      constructor. apply mem_In. exact E.
    + discriminate.
    + inversion H. constructor.
    + inversion H. constructor.
    + inversion H. constructor.
  - intro H. destruct H; simpl.
    + apply mem_false_In in H. rewrite H. reflexivity.
    + reflexivity.
    + apply mem_In in H. rewrite H. reflexivity.
    + apply mem_In in H. rewrite H. reflexivity.
    + reflexivity.
    + reflexivity.
    + reflexivity.
Qed.

Lemma heap_after_Safe : forall (t : trace) (h h' : list nat),
  heap_after h t = Some h' <-> Safe h t h'.
Proof.
  induction t as [|e r IH]; intros h h'; simpl.
  - split.
    + intro H. inversion H. constructor.
    + intro H. inversion H. reflexivity.
  - split.
    + destruct (step_heap h e) as [h1|] eqn:E; [|discriminate].
      intro H. apply SafeCons with h1.
      * apply step_heap_Step. exact E.
      * apply IH. exact H.
    + intro H. inversion H as [|a h1 b c d S1 S2]. subst.
      apply step_heap_Step in S1. rewrite S1. apply IH. exact S2.
Qed.

Lemma safe_trace_sound : forall t : trace, safe_trace t = true <-> exists h : list nat, Safe [] t h.
Proof.
  intro t. unfold safe_trace. split.
  - destruct (heap_after [] t) as [h|] eqn:E; [|discriminate].
    intros _. exists h. apply heap_after_Safe. exact E.
  - intros [h H]. apply heap_after_Safe in H. rewrite H. reflexivity.
Qed.

Lemma heap_after_app : forall (t1 t2 : trace) (h : list nat),
  heap_after h (t1 ++ t2) =
  match heap_after h t1 with Some h1 => heap_after h1 t2 | None => None end.
Proof.
  induction t1 as [|e r IH]; intros t2 h; simpl.
  - reflexivity.
  - destruct (step_heap h e); [apply IH | reflexivity].
Qed.

(* id was allocated in t and not freed afterwards *)
Definition allocated_in (t : trace) (id : nat) : Prop :=
  exists (t1 t2 : trace) (s : nat), t = t1 ++ Alloc id s :: t2 /\ ~ In (Free id) t2.

Lemma allocated_in_cons : forall (e : event) (t : trace) (id : nat),
  allocated_in t id -> allocated_in (e :: t) id.
Proof.
  intros e t id [t1 [t2 [s [H N]]]]. exists (e :: t1), t2, s. subst. split; [reflexivity | exact N].
Qed.

Lemma allocated_in_inv : forall (e : event) (t : trace) (id : nat),
  allocated_in (e :: t) id ->
  allocated_in t id \/ (exists s : nat, e = Alloc id s) /\ ~ In (Free id) t.
Proof.
  intros e t id [t1 [t2 [s [H N]]]]. destruct t1 as [|e1 r1]; simpl in H.
  - inversion H. subst. right. split; [exists s; reflexivity | exact N].
  - inversion H. subst. left. exists r1, t2, s. split; [reflexivity | exact N].
Qed.

Lemma live_characterisation : forall (t : trace) (h0 h : list nat) (id : nat),
  heap_after h0 t = Some h ->
  (In id h <-> allocated_in t id \/ (In id h0 /\ ~ In (Free id) t)).
Proof.
  induction t as [|e r IH]; intros h0 h id H; simpl in H.
  - inversion H. subst. split.
    + intro I. right. split; [exact I | simpl; tauto].
    + intros [[t1 [t2 [s [E _]]]]|[I _]]; [destruct t1; discriminate | exact I].
  - destruct (step_heap h0 e) as [h1|] eqn:E; [|discriminate].
    specialize (IH h1 h id H). rewrite IH. clear IH.
    apply step_heap_Step in E. split.
    + intros [A|[I N]].
      * left. apply allocated_in_cons. exact A.
      * inversion E; subst.
        -- destruct I as [I|I].
           ++ subst. left. exists [], r, s. split; [reflexivity | exact N].
           ++ right. split; [exact I | simpl; intros [X|X]; [discriminate | tauto]].
        -- right. split; [exact I | simpl; intros [X|X]; [discriminate | tauto]].
        -- apply In_del in I. destruct I as [I D]. right. split; [exact I|].
           simpl. intros [X|X]; [inversion X; congruence | tauto].
        -- right. split; [exact I | simpl; intros [X|X]; [discriminate | tauto]].
        -- right. split; [exact I | simpl; intros [X|X]; [discriminate | tauto]].
        -- right. split; [exact I | simpl; intros [X|X]; [discriminate | tauto]].
        -- right. split; [exact I | simpl; intros [X|X]; [discriminate | tauto]].
    + intros [A|[I N]].
      * apply allocated_in_inv in A. destruct A as [A|[[s Es] N]]; [left; exact A|].
        subst. inversion E; subst. right. split; [left; reflexivity | exact N].
      * simpl in N. right. split; [|tauto].
        inversion E; subst; try exact I.
        -- right. exact I.
        -- apply In_del. split; [exact I|]. intro X. subst. apply N. left. reflexivity.
Qed.

(* a freed block is live: allocated earlier in the trace and not freed since *)
Lemma safe_free_live : forall (t1 t2 : trace) (id : nat),
  safe_trace (t1 ++ Free id :: t2) = true -> allocated_in t1 id.
Proof.
  intros t1 t2 id. unfold safe_trace. rewrite heap_after_app.
  destruct (heap_after [] t1) as [h1|] eqn:E1; [|discriminate]. simpl.
  destruct (mem id h1) eqn:M; [|discriminate]. intros _.
  apply mem_In in M. apply (live_characterisation t1 [] h1 id E1) in M.
  destruct M as [A|[[] _]]. exact A.
Qed.

(* no double free: between two frees of the same block there is an allocation of it *)
Lemma safe_no_double_free : forall (t1 t2 t3 : trace) (id : nat),
  safe_trace (t1 ++ Free id :: t2 ++ Free id :: t3) = true -> exists s : nat, In (Alloc id s) t2.
Proof.
  intros t1 t2 t3 id. unfold safe_trace. rewrite heap_after_app.
  destruct (heap_after [] t1) as [h1|] eqn:E1; [|discriminate]. simpl.
  destruct (mem id h1) eqn:M1; [|discriminate].
  rewrite heap_after_app.
  destruct (heap_after (del id h1) t2) as [h2|] eqn:E2; [|discriminate]. simpl.
  destruct (mem id h2) eqn:M2; [|discriminate]. intros _.
  apply mem_In in M2. apply (live_characterisation t2 (del id h1) h2 id E2) in M2.
  destruct M2 as [[a [b [s [Eq _]]]]|[I _]].
  - exists s. subst. apply in_or_app. right. left. reflexivity.
  - apply In_del in I. destruct I as [_ N]. congruence.
Qed.

(* no NULL dereference and no use of a block that is not live *)
Lemma safe_use_live : forall (t1 t2 : trace) (p : option nat),
  safe_trace (t1 ++ Use p :: t2) = true -> exists id : nat, p = Some id /\ allocated_in t1 id.
Proof.
  intros t1 t2 p. unfold safe_trace. rewrite heap_after_app.
  destruct (heap_after [] t1) as [h1|] eqn:E1; [|discriminate]. simpl.
  destruct p as [id|]; [|discriminate].
  destruct (mem id h1) eqn:M; [|discriminate]. intros _.
  exists id. split; [reflexivity|].
  apply mem_In in M. apply (live_characterisation t1 [] h1 id E1) in M.
  destruct M as [A|[[] _]]. exact A.
Qed.

(* the live set at the end: exactly the blocks allocated and not freed afterwards *)
Lemma live_at_end_spec : forall (t : trace) (id : nat),
  safe_trace t = true -> (In id (live_at_end t) <-> allocated_in t id).
Proof.
  intros t id. unfold safe_trace, live_at_end.
  destruct (heap_after [] t) as [h|] eqn:E; [|discriminate]. intros _.
  rewrite (live_characterisation t [] h id E). split; [intros [A|[[] _]]; exact A | tauto].
Qed.

(* ------------------------------------------------------------------ all oracles = all paths *)
Lemma run_in_paths : forall (A : Type) (p : prog A) (o : nat -> bool) (n : nat),
  In (run p o n) (paths p n).
Proof.
  intros A p o. induction p as [a|e k IH|s k IH]; intro n; simpl.
  - left. reflexivity.
  - specialize (IH n). destruct (run k o n) as [[a t] q].
    apply (in_map (fun x : A * trace * list bool => let '(a, t, q) := x in (a, e :: t, q))) in IH.
    exact IH.
  - apply in_or_app. destruct (o n).
    + left. specialize (IH None (S n)). destruct (run (k None) o (S n)) as [[a t] q].
      apply (in_map (fun x : A * trace * list bool => let '(a, t, q) := x in (a, AllocFail n s :: t, true :: q))) in IH.
      exact IH.
    + right. specialize (IH (Some n) (S n)). destruct (run (k (Some n)) o (S n)) as [[a t] q].
      apply (in_map (fun x : A * trace * list bool => let '(a, t, q) := x in (a, Alloc n s :: t, false :: q))) in IH.
      exact IH.
Qed.

Lemma run_ext : forall (A : Type) (p : prog A) (o1 o2 : nat -> bool) (n : nat),
  (forall m : nat, n <= m -> o1 m = o2 m) -> run p o1 n = run p o2 n.
Proof.
  intros A p o1 o2. induction p as [a|e k IH|s k IH]; intros n H; simpl.
  - reflexivity.
  - rewrite (IH n H). reflexivity.
  - rewrite <- (H n (le_n n)).
    rewrite (IH None (S n)) by (intros m L; apply H; lia).
    rewrite (IH (Some n) (S n)) by (intros m L; apply H; lia).
    reflexivity.
Qed.

Lemma paths_realised : forall (A : Type) (p : prog A) (n : nat) (x : A * trace * list bool),
  In x (paths p n) -> exists o : nat -> bool, run p o n = x.
Proof.
  intros A p. induction p as [a|e k IH|s k IH]; intros n x H; simpl in H.
  - destruct H as [H|[]]. exists (fun _ => false). simpl. exact H.
  - apply in_map_iff in H. destruct H as [y [E I]]. destruct (IH n y I) as [o R].
    exists o. simpl. rewrite R. exact E.
  - apply in_app_or in H. destruct H as [H|H]; apply in_map_iff in H; destruct H as [y [E I]].
    + destruct (IH None (S n) y I) as [o R].
      exists (fun m => if Nat.eqb m n then true else o m). simpl. rewrite Nat.eqb_refl.
      rewrite (run_ext A (k None) _ o (S n)).
      * rewrite R. exact E.
      * intros m L. destruct (Nat.eqb m n) eqn:Q; [apply Nat.eqb_eq in Q; lia | reflexivity].
    + destruct (IH (Some n) (S n) y I) as [o R].
      exists (fun m => if Nat.eqb m n then false else o m). simpl. rewrite Nat.eqb_refl.
      rewrite (run_ext A (k (Some n)) _ o (S n)).
      * rewrite R. exact E.
      * intros m L. destruct (Nat.eqb m n) eqn:Q; [apply Nat.eqb_eq in Q; lia | reflexivity].
Qed.

(* the answers recorded by run are the oracle's values at n, n+1, ... *)
Lemma run_asked : forall (A : Type) (p : prog A) (o : nat -> bool) (n : nat),
  snd (run p o n) = map o (seq n (length (snd (run p o n)))).
Proof.
  intros A p o. induction p as [a|e k IH|s k IH]; intro n; simpl.
  - reflexivity.
  - specialize (IH n). destruct (run k o n) as [[a t] q]. simpl in *. exact IH.
  - destruct (o n) eqn:E.
    + specialize (IH None (S n)). destruct (run (k None) o (S n)) as [[a t] q]. simpl in *.
      rewrite <- IH. rewrite E. reflexivity.
    + specialize (IH (Some n) (S n)). destruct (run (k (Some n)) o (S n)) as [[a t] q]. simpl in *.
      rewrite <- IH. rewrite E. reflexivity.
Qed.

Lemma existsb_map_seq : forall (o : nat -> bool) (len n : nat),
  existsb (fun b : bool => b) (map o (seq n len)) = true <->
  exists k : nat, n <= k /\ k < n + len /\ o k = true.
Proof.
  intros o len. induction len as [|l IH]; intro n; simpl.
  - split; [discriminate | intros [k [A [B _]]]; lia].
  - rewrite orb_true_iff. rewrite IH. split.
    + intros [H|[k [A [B C]]]].
      * exists n. repeat split; [lia | lia | exact H].
      * exists k. repeat split; [lia | lia | exact C].
    + intros [k [A [B C]]]. destruct (Nat.eq_dec k n) as [E|E].
      * left. subst. exact C.
      * right. exists k. repeat split; [lia | lia | exact C].
Qed.

(* some attempted allocation failed *)
Definition attempted_failure (o : nat -> bool) (attempts : nat) : Prop :=
  exists k : nat, k < attempts /\ o k = true.

Lemma asked_failure : forall (A : Type) (p : prog A) (o : nat -> bool),
  existsb (fun b : bool => b) (snd (run p o 0)) = true <->
  attempted_failure o (length (snd (run p o 0))).
Proof.
  intros A p o. rewrite (run_asked A p o 0) at 1. rewrite existsb_map_seq.
  unfold attempted_failure. split.
  - intros [k [_ [B C]]]. exists k. split; [lia | exact C].
  - intros [k [B C]]. exists k. repeat split; [lia | lia | exact C].
Qed.

(* ------------------------------------------------------------------ finite domains are complete *)
Lemma variant_in : forall v : variant, In v all_variants.
Proof.
  intros [[] [] [] [] [] []]; vm_compute; tauto.
Qed.

Lemma mode_in : forall md : hmode, md <> HReturn -> In md contract_modes.
Proof.
  intros [] H; simpl; [tauto | tauto | congruence].
Qed.

Lemma scenario_in : forall sc : scenario, In sc all_scenarios.
Proof.
  intros [[]|[] []| |[] []|[]|[] []|[]|[]]; vm_compute; tauto.
Qed.

Lemma check_all_spec : forall (f : variant -> hmode -> scenario -> bool),
  check_all f = true ->
  forall (v : variant) (md : hmode) (sc : scenario), md <> HReturn -> f v md sc = true.
Proof.
  intros f H v md sc N. unfold check_all in H.
  rewrite forallb_forall in H. specialize (H v (variant_in v)).
  rewrite forallb_forall in H. specialize (H md (mode_in md N)).
  rewrite forallb_forall in H. exact (H sc (scenario_in sc)).
Qed.

Lemma check_safe_true : check_all f_safe = true. Proof. vm_compute. reflexivity. Qed.
Lemma check_iff_true : check_all f_iff = true. Proof. vm_compute. reflexivity. Qed.
Lemma check_leak_true : check_all f_leak = true. Proof. vm_compute. reflexivity. Qed.
Lemma check_dtor_true : check_all f_dtor = true. Proof. vm_compute. reflexivity. Qed.

Definition trace_of {A : Type} (x : A * trace * list bool) : trace := snd (fst x).
Definition value_of {A : Type} (x : A * trace * list bool) : A := fst (fst x).
Definition asked_of {A : Type} (x : A * trace * list bool) : list bool := snd x.

(* ------------------------------------------------------------------ protocol theorems *)
Lemma protocol_safe_b :
  forall (v : variant) (md : hmode) (sc : scenario) (o : nat -> bool), md <> HReturn ->
    safe_clause_holds v sc = true ->
    safe_trace (trace_of (run (scenario_prog v md sc) o 0)) = true.
Proof.
  intros v md sc o N C.
  pose proof (check_all_spec f_safe check_safe_true v md sc N) as H. unfold f_safe in H.
  rewrite C in H. cbv beta iota delta [negb orb] in H.
  rewrite forallb_forall in H. specialize (H _ (run_in_paths _ (scenario_prog v md sc) o 0)).
  unfold trace_of. destruct (run (scenario_prog v md sc) o 0) as [[r t] q]. exact H.
Qed.

Lemma protocol_safe :
  forall (v : variant) (md : hmode) (sc : scenario) (o : nat -> bool), md <> HReturn ->
    safe_clause_holds v sc = true ->
    exists h : list nat, Safe [] (trace_of (run (scenario_prog v md sc) o 0)) h.
Proof.
  intros v md sc o N C. apply safe_trace_sound. apply protocol_safe_b; assumption.
Qed.

Lemma protocol_failure_iff :
  forall (v : variant) (md : hmode) (sc : scenario) (o : nat -> bool), md <> HReturn ->
    let x := run (scenario_prog v md sc) o 0 in
    abnormal (trace_of x) = true <->
    (attempted_failure o (length (asked_of x)) \/ rejects sc = true).
Proof.
  intros v md sc o N x.
  pose proof (check_all_spec f_iff check_iff_true v md sc N) as H. unfold f_iff in H.
  rewrite forallb_forall in H. specialize (H _ (run_in_paths _ (scenario_prog v md sc) o 0)).
  pose proof (asked_failure _ (scenario_prog v md sc) o) as F.
  fold x in H, F. unfold asked_of, trace_of. destruct x as [[r t] q]. simpl in *.
  apply eqb_prop in H. rewrite H. rewrite orb_true_iff. rewrite F. tauto.
Qed.

Lemma same_set_spec : forall a b : list nat,
  same_set a b = true -> forall id : nat, In id a <-> In id b.
Proof.
  intros a b H id. unfold same_set, subset in H. apply andb_true_iff in H. destruct H as [H1 H2].
  rewrite forallb_forall in H1, H2. split; intro I.
  - apply mem_In. apply H1. exact I.
  - apply mem_In. apply H2. exact I.
Qed.

Lemma protocol_leak_free :
  forall (v : variant) (md : hmode) (sc : scenario) (o : nat -> bool), md <> HReturn ->
    safe_clause_holds v sc = true -> leak_clause_holds v sc = true ->
    forall owned : list nat,
      value_of (run (scenario_prog v md sc) o 0) = Val owned ->
      forall id : nat,
        allocated_in (trace_of (run (scenario_prog v md sc) o 0)) id <-> In id owned.
Proof.
  intros v md sc o N C L owned V id.
  pose proof (check_all_spec f_leak check_leak_true v md sc N) as H. unfold f_leak in H.
  rewrite L, C in H. cbv beta iota delta [negb orb] in H.
  rewrite forallb_forall in H. specialize (H _ (run_in_paths _ (scenario_prog v md sc) o 0)).
  pose proof (protocol_safe_b v md sc o N C) as S.
  unfold value_of, trace_of in *. destruct (run (scenario_prog v md sc) o 0) as [[r t] q]. simpl in *.
  subst r. rewrite <- (live_at_end_spec t id S). apply same_set_spec. exact H.
Qed.

Lemma protocol_ctor_dtor :
  forall (v : variant) (md : hmode) (sc : scenario) (o : nat -> bool), md <> HReturn ->
    safe_clause_holds v sc = true -> leak_clause_holds v sc = true -> keeps sc = false ->
    forall owned : list nat,
      value_of (run (scenario_prog v md sc) o 0) = Val owned ->
      owned = [] /\ forall id : nat, ~ allocated_in (trace_of (run (scenario_prog v md sc) o 0)) id.
Proof.
  intros v md sc o N C L K owned V.
  pose proof (check_all_spec f_dtor check_dtor_true v md sc N) as H. unfold f_dtor in H.
  rewrite L, C, K in H. cbv beta iota delta [negb orb] in H.
  rewrite forallb_forall in H. specialize (H _ (run_in_paths _ (scenario_prog v md sc) o 0)).
  pose proof (protocol_safe_b v md sc o N C) as S.
  unfold value_of, trace_of in *. destruct (run (scenario_prog v md sc) o 0) as [[r t] q]. simpl in *.
  subst r. destruct owned as [|x rr]; [|discriminate]. split; [reflexivity|].
  intros id A. apply (live_at_end_spec t id S) in A.
  destruct (live_at_end t); [exact A | discriminate].
Qed.

(* in-place construction: a failed mj_makeRawData / mjCModel::MakeData on a struct owned by the
   caller leaves an object that mj_deleteData handles: every block live at that point is freed
   exactly once (the trace is safe, so no block is freed twice, and nothing is live at the end) *)
Lemma inplace_failure_deletable :
  forall (v : variant) (md : hmode) (o : nat -> bool), md <> HReturn ->
    negb (v_darena v) || v_dnull v = true ->
    let x := run (scenario_prog v md (SC_INPLACE NP0)) o 0 in
    safe_trace (trace_of x) = true /\
    forall owned : list nat, value_of x = Val owned ->
      forall id : nat, ~ allocated_in (trace_of x) id.
Proof.
  intros v md o N C x. split.
  - apply protocol_safe_b; [exact N | exact C].
  - intros owned V. exact (proj2 (protocol_ctor_dtor v md (SC_INPLACE NP0) o N C eq_refl eq_refl owned V)).
Qed.

(* ------------------------------------------------------------------ where the leak clause fails *)
Definition leaks (x : res (list nat) * trace * list bool) : Prop :=
  exists (owned : list nat) (id : nat),
    value_of x = Val owned /\ safe_trace (trace_of x) = true /\
    abnormal (trace_of x) = true /\
    In id (live_at_end (trace_of x)) /\ ~ In id owned.

(* mju_malloc raises the error itself: the struct allocated just before is lost when the
   compiler's handler longjmps out of mj_makeModel / mj_makeRawData *)
Lemma compile_leak_when_raising :
  forall v : variant, v_mbuf v && v_dbuf v && v_darena v = false ->
    exists k : nat, leaks (run (scenario_prog v HJump (SC_COMPILE NP0 false)) (oracle_of [k]) 0).
Proof.
  intros [[] [] [] l n q] H; try discriminate H.
  all: first
    [ exists 4; exists [], 2; vm_compute; repeat split; try reflexivity; [tauto | tauto]
    | exists 3; exists [], 2; vm_compute; repeat split; try reflexivity; [tauto | tauto]
    | exists 1; exists [], 0; vm_compute; repeat split; try reflexivity; [tauto | tauto] ].
Qed.

(* d = mj_makeData(m) in TryCompile: the object is not yet assigned when a plugin-related
   allocation fails, for every variant *)
Lemma compile_plugin_leak :
  forall v : variant,
    exists k : nat, leaks (run (scenario_prog v HJump (SC_COMPILE NP1 false)) (oracle_of [k]) 0).
Proof.
  intros [[] [] [] l n q]; exists 8; exists [], 5; vm_compute; repeat split; try reflexivity; tauto.
Qed.

(* mj_loadModelBuffer returns NULL without deleting the model *)
Lemma load_structs_leak :
  forall (v : variant) (md : hmode), v_lstructs v = false ->
    leaks (run (scenario_prog v md (SC_LOAD LR_structs false)) (oracle_of []) 0).
Proof.
  intros [a b c [] e q] md H; [discriminate|].
  destruct a, b, c, md; exists [], 0; vm_compute; repeat split; try reflexivity; tauto.
Qed.

(* ------------------------------------------------------------------ where the safety clause fails *)
(* the arena-failure cleanup frees the new buffer but leaves d->buffer pointing at it: in place, the
   caller's mj_deleteData frees it a second time *)
Lemma inplace_dangling_buffer_double_free :
  forall (v : variant) (np : npl), v_darena v = true -> v_dnull v = false ->
    safe_trace (trace_of (run (scenario_prog v HJump (SC_INPLACE NP0)) (oracle_of [4]) 0)) = false /\
    safe_trace (trace_of (run (scenario_prog v HJump (SC_RECOMPILE NP0)) (oracle_of [19]) 0)) = false.
Proof.
  intros [a b [] l [] q] np H1 H2; try discriminate.
  destruct a, b, l, q; vm_compute; split; reflexivity.
Qed.

(* with plugin instances a failed in-place buffer allocation leaves d->nplugin and the pointers into
   the freed buffer in place: the caller's mj_deleteData reads freed memory, for every variant *)
Lemma inplace_plugin_use_after_free :
  forall v : variant, v_npl v = false ->
    safe_trace (trace_of (run (scenario_prog v HJump (SC_INPLACE NP1)) (oracle_of [6]) 0)) = false.
Proof.
  intros [[] [] [] [] [] []] H; try discriminate H; vm_compute; reflexivity.
Qed.
