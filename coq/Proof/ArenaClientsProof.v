(* Proofs about Model/ArenaClients.v: after a failed arena allocation at any of the four sites the
   client state is consistent, and the NULL result is never written through. *)
From Coq Require Import ZArith List Bool Lia.
From MJV Require Import Model.Memory Model.ArenaClients Proof.MemoryProof.
Import ListNotations.
Open Scope Z_scope.

Lemma Inv_forget : forall s g ab, Inv s g ab -> Inv s g [].
Proof.
  intros s g ab [Hwf Hlk Hstk Harn Hms Hma]. constructor; try assumption.
  simpl. apply arn_le in Harn. assumption.
Qed.

Lemma Inv_set_parena : forall s g p, Inv s g [] -> 0 <= p <= parena s -> Inv (set_parena s p) g [].
Proof.
  intros s g p [Hwf Hlk Hstk Harn Hms Hma] Hp. destruct Hwf as [H1 H2 H3 H4 H5 H6].
  constructor; unfold set_parena; simpl; try assumption; try lia.
  - constructor; simpl; lia.
  - unfold Lim. simpl. lia.
Qed.

Lemma Inv_wr : forall s g a len, Inv s g [] -> 0 <= len -> a + len <= Lim s -> Inv (wr s a len) g [].
Proof.
  intros s g a len [Hwf Hlk Hstk Harn Hms Hma] Hlen Hhi. pose proof Hwf as Hwf'. destruct Hwf' as [H1 H2 H3 H4 H5 H6].
  constructor; unfold wr; simpl; try assumption.
  - constructor; simpl; assumption.
  - unfold Top, Bot in *. simpl. apply stk_write_below; [assumption|]. simpl. unfold Lim in *. lia.
Qed.

(* a request as the X-macros produce them; na is d->narena *)
Definition req_ok (ga : bool) (na : Z) (r : Z * Z) : Prop :=
  0 <= fst r < W /\ pow2 (snd r) /\ (fst r + snd r + na <= W \/ (ga = true /\ snd r + na <= W)).

Lemma req_arena_ok : forall ga s r, wf s -> req_ok ga (narena s) r -> arena_ok ga s (fst r) (snd r).
Proof.
  intros ga s r [H1 H2 H3 H4 H5 H6] [_ [_ [H|H]]]; unfold arena_ok; [left; lia|right; assumption].
Qed.

(* what a client may rely on not to change *)
Definition frame (s s' : st) : Prop :=
  base s' = base s /\ narena s' = narena s /\ pstack s' = pstack s /\ pbase s' = pbase s /\
  mem s' = mem s /\ parena s <= parena s'.

(* the arrays lie one after the other in [lo, hi) *)
Fixpoint chain (lo : Z) (ps : list Z) (reqs : list (Z * Z)) (hi : Z) : Prop :=
  match ps, reqs with
  | [], [] => lo <= hi
  | p :: ps', (b, _) :: rs => lo <= p /\ p <> 0 /\ chain (p + b) ps' rs hi
  | _, _ => False
  end.

Lemma AA_cases : forall ga s g r,
  Inv s g [] -> req_ok ga (narena s) r ->
  (exists p s', arena_alloc ga s (fst r) (snd r) = (RPtr p, s') /\ Lim s <= p /\ p <> 0 /\
                p + fst r = Lim s' /\ Lim s' <= Top s' /\ frame s s' /\ maxs s' = maxs s /\ tlock s' = tlock s /\
                Inv s' g [])
  \/ (arena_alloc ga s (fst r) (snd r) = (RNull, s) /\ Avail s < fst r + snd r - 1).
Proof.
  intros ga s g r HI Hr. pose proof (inv_wf _ _ _ HI) as Hwf.
  destruct Hr as [Hb [Hal Hok]].
  destruct (AA_step ga s g [] (fst r) (snd r) HI Hal Hb (req_arena_ok ga s r Hwf (conj Hb (conj Hal Hok))))
    as [H|H]; cbv zeta in H.
  - left. destruct H as [E [_ [Hlo [Hhi [HL HI']]]]].
    eexists. eexists. split; [exact E|].
    destruct Hwf as [H1 H2 H3 H4 H5 H6]. pose proof (apad_bounds (parena s) (snd r) (proj1 (pow2_bounds _ Hal))) as [Hp _].
    split; [assumption|]. split; [unfold Lim in *; lia|]. split; [symmetry; exact HL|].
    split. { rewrite HL. unfold Top, aa_state. simpl. unfold Top in Hhi. lia. }
    split. { unfold frame, aa_state, Lim. simpl. repeat split; try reflexivity. lia. }
    split; [reflexivity|]. split; [reflexivity|]. apply Inv_forget in HI'. assumption.
  - right. assumption.
Qed.

Lemma alloc_list_spec : forall ga reqs s g,
  Inv s g [] -> Forall (req_ok ga (narena s)) reqs ->
  match alloc_list ga s reqs with
  | (Some ps, s') => chain (Lim s) ps reqs (Lim s') /\ Lim s' <= Top s' /\ frame s s' /\ maxs s' = maxs s /\ Inv s' g []
  | (None, s') => frame s s' /\ maxs s' = maxs s /\ Inv s' g []
  end.
Proof.
  intros ga reqs. induction reqs as [|[b a] rs IH]; intros s g HI Hreq; cbn [alloc_list].
  - split; [simpl; lia|]. pose proof (inv_wf _ _ _ HI) as [H1 H2 H3 H4 H5 H6].
    split; [unfold Lim, Top; lia|]. split; [unfold frame; repeat split; lia|]. split; [reflexivity|assumption].
  - inversion Hreq as [|x l Hr Hrs]; subst.
    destruct (AA_cases ga s g (b, a) HI Hr) as [[p [s1 [E [Hlo [Hnz [Hend [Htop [Hfr [Hms [Htl HI1]]]]]]]]]]|[E _]];
      cbn [fst snd] in *; rewrite E.
    + destruct Hfr as [F1 [F2 [F3 [F4 [F5 F6]]]]].
      assert (Hrs' : Forall (req_ok ga (narena s1)) rs) by (rewrite F2; assumption).
      specialize (IH s1 g HI1 Hrs').
      destruct (alloc_list ga s1 rs) as [[ps|] s2].
      * destruct IH as [Hc [Ht [[G1 [G2 [G3 [G4 [G5 G6]]]]] [Gm HI2]]]].
        split. { cbn [chain]. split; [assumption|]. split; [assumption|]. rewrite Hend. assumption. }
        split; [assumption|]. split; [unfold frame; repeat split; try congruence; lia|]. split; [congruence|assumption].
      * destruct IH as [[G1 [G2 [G3 [G4 [G5 G6]]]]] [Gm HI2]].
        split; [unfold frame; repeat split; try congruence; lia|]. split; [congruence|assumption].
    + split; [unfold frame; repeat split; lia|]. split; [reflexivity|assumption].
Qed.

(* ------------------------------------------------------------------ client invariant *)
Record CInv (csz : Z) (c : cl) (g : list gitem) : Prop := {
  ci_inv : Inv (ms c) g [];
  ci_ncon : 0 <= ncon c;
  ci_csz : ncon c * csz <= parena (ms c) }.

Definition all_null (l : list Z) : Prop := Forall (fun p => p = 0) l.
Lemma nulls_all_null : forall l, all_null (nulls l).
Proof. intros. unfold all_null, nulls. apply Forall_forall. intros x Hx. apply in_map_iff in Hx. destruct Hx as [? [? _]]. congruence. Qed.

Lemma ncon_wrap : forall csz c g, CInv csz c g -> 0 < csz -> wrap (ncon c * csz) = ncon c * csz.
Proof.
  intros csz c g [HI Hn Hc] Hcs. pose proof (inv_wf _ _ _ HI) as [H1 H2 H3 H4 H5 H6].
  apply wrap_small. split; [apply Z.mul_nonneg_nonneg; lia|lia].
Qed.

(* mj_addContact *)
Theorem add_contact_thm : forall ga csz cal c g,
  CInv csz c g -> 0 < csz -> req_ok ga (narena (ms c)) (csz, cal) ->
  exists ret c', add_contact ga csz cal c = Done ret c' /\ CInv csz c' g /\
    pstack (ms c') = pstack (ms c) /\ pbase (ms c') = pbase (ms c) /\
    all_null (efcp c') /\ all_null (islp c') /\ nefc c' = 0 /\ nisland c' = 0 /\
    ((ret = 0 /\ ncon c' = ncon c + 1 /\ warns c' = warns c)
     \/ (ret = 1 /\ ncon c' = ncon c /\ parena (ms c') = ncon c * csz /\
         warns c' = (WARN_CONTACTFULL, ncon c) :: warns c /\ mem (ms c') = mem (ms c))).
Proof.
  intros ga csz cal c g HC Hcs Hr. pose proof HC as [HI Hn Hc].
  pose proof (inv_wf _ _ _ HI) as Hwf. pose proof Hwf as [H1 H2 H3 H4 H5 H6].
  unfold add_contact. rewrite (ncon_wrap csz c g HC Hcs).
  assert (Hp : 0 <= ncon c * csz <= parena (ms c)) by (split; [apply Z.mul_nonneg_nonneg; lia|lia]).
  pose proof (Inv_set_parena _ _ _ HI Hp) as HI0.
  set (s0 := set_parena (ms c) (ncon c * csz)) in *.
  cbn [clear_efc with_ms ms ncon nefc nisland efcp islp warns].
  destruct (AA_cases ga s0 g (csz, cal) HI0 Hr) as [[p [s1 [E [Hlo [Hnz [Hend [Htop [Hfr [Hms [Htl HI1]]]]]]]]]]|[E _]];
    cbn [fst snd] in *; rewrite E.
  - destruct Hfr as [F1 [F2 [F3 [F4 [F5 F6]]]]].
    eexists. eexists. split; [reflexivity|]. cbn [ms ncon nefc nisland efcp islp warns].
    split. { constructor; cbn [ms ncon].
             - apply Inv_wr; [assumption|lia|lia].
             - lia.
             - unfold wr. cbn [parena].
               assert (Eb0 : base s0 = base (ms c)) by reflexivity.
               assert (Ep0 : parena s0 = ncon c * csz) by reflexivity.
               unfold Lim in Hlo, Hend. rewrite Ep0 in Hlo. rewrite F1 in Hend.
               replace ((ncon c + 1) * csz) with (ncon c * csz + csz) by ring. lia. }
    split; [unfold wr; cbn [pstack]; rewrite F3; reflexivity|].
    split; [unfold wr; cbn [pbase]; rewrite F4; reflexivity|].
    split; [apply nulls_all_null|]. split; [apply nulls_all_null|]. split; [reflexivity|]. split; [reflexivity|].
    left. repeat split; reflexivity.
  - eexists. eexists. split; [reflexivity|]. cbn [warn ms ncon nefc nisland efcp islp warns].
    split. { constructor; [exact HI0|simpl; lia|simpl; lia]. }
    split; [reflexivity|]. split; [reflexivity|].
    split; [apply nulls_all_null|]. split; [apply nulls_all_null|]. split; [reflexivity|]. split; [reflexivity|].
    right. repeat split; reflexivity.
Qed.

(* arenaAllocEfc *)
Theorem alloc_efc_thm : forall ga csz reqs c g,
  CInv csz c g -> 0 < csz -> Forall (req_ok ga (narena (ms c))) reqs ->
  exists ret c', alloc_efc ga csz reqs c = Done ret c' /\ CInv csz c' g /\
    ncon c' = ncon c /\ pstack (ms c') = pstack (ms c) /\ pbase (ms c') = pbase (ms c) /\
    mem (ms c') = mem (ms c) /\
    ((ret = 1 /\ chain (base (ms c) + ncon c * csz) (efcp c') reqs (Lim (ms c')) /\ Lim (ms c') <= Top (ms c') /\
      nefc c' = nefc c /\ islp c' = islp c /\ warns c' = warns c)
     \/ (ret = 0 /\ parena (ms c') = ncon c * csz /\ all_null (efcp c') /\ all_null (islp c') /\
         nefc c' = 0 /\ nisland c' = 0 /\ warns c' = (WARN_CNSTRFULL, narena (ms c)) :: warns c)).
Proof.
  intros ga csz reqs c g HC Hcs Hr. pose proof HC as [HI Hn Hc].
  pose proof (inv_wf _ _ _ HI) as Hwf. pose proof Hwf as [H1 H2 H3 H4 H5 H6].
  unfold alloc_efc. rewrite (ncon_wrap csz c g HC Hcs).
  assert (Hp : 0 <= ncon c * csz <= parena (ms c)) by (split; [apply Z.mul_nonneg_nonneg; lia|lia]).
  pose proof (Inv_set_parena _ _ _ HI Hp) as HI0.
  set (s0 := set_parena (ms c) (ncon c * csz)) in *.
  pose proof (alloc_list_spec ga reqs s0 g HI0 Hr) as HL.
  destruct (alloc_list ga s0 reqs) as [[ps|] s1].
  - destruct HL as [Hch [Htop [[F1 [F2 [F3 [F4 [F5 F6]]]]] [Hms HI1]]]].
    eexists. eexists. split; [reflexivity|]. cbn [ms ncon nefc nisland efcp islp warns].
    split. { constructor; [exact HI1|simpl; lia|]. unfold s0, set_parena in F6. cbn [parena] in F6. simpl. lia. }
    split; [reflexivity|]. split; [rewrite F3; reflexivity|]. split; [rewrite F4; reflexivity|].
    split; [rewrite F5; reflexivity|].
    left. split; [reflexivity|]. split; [unfold Lim, s0, set_parena in Hch; cbn [base parena] in Hch; exact Hch|].
    split; [assumption|]. repeat split; reflexivity.
  - destruct HL as [[F1 [F2 [F3 [F4 [F5 F6]]]]] [Hms HI1]].
    eexists. eexists. split; [reflexivity|].
    cbn [clear_efc warn with_ms ms ncon nefc nisland efcp islp warns].
    assert (Hp1 : 0 <= ncon c * csz <= parena s1) by (unfold s0, set_parena in F6; cbn [parena] in F6; lia).
    split. { constructor; [cbn [ms]; apply Inv_set_parena; assumption|simpl; lia|simpl; lia]. }
    split; [reflexivity|]. split; [unfold set_parena; cbn [pstack]; rewrite F3; reflexivity|].
    split; [unfold set_parena; cbn [pbase]; rewrite F4; reflexivity|].
    split; [unfold set_parena; cbn [mem]; rewrite F5; reflexivity|].
    right. split; [reflexivity|]. split; [reflexivity|]. split; [apply nulls_all_null|]. split; [apply nulls_all_null|].
    repeat split; reflexivity.
Qed.

(* arenaAllocIsland, both variants of the failure branch *)
Theorem alloc_island_thm : forall ga ic csz reqs c g,
  CInv csz c g -> 0 < csz -> Forall (req_ok ga (narena (ms c))) reqs ->
  exists ret c', alloc_island ga ic csz reqs c = Done ret c' /\ CInv csz c' g /\
    ncon c' = ncon c /\ pstack (ms c') = pstack (ms c) /\ pbase (ms c') = pbase (ms c) /\
    mem (ms c') = mem (ms c) /\
    ((ret = 1 /\ chain (Lim (ms c)) (islp c') reqs (Lim (ms c')) /\ Lim (ms c') <= Top (ms c') /\
      efcp c' = efcp c /\ nefc c' = nefc c /\ nisland c' = nisland c /\ warns c' = warns c)
     \/ (ret = 0 /\ all_null (islp c') /\ nefc c' = 0 /\ nisland c' = 0 /\
         warns c' = (WARN_CNSTRFULL, narena (ms c)) :: warns c /\
         ((ic = false /\ parena (ms c') = parena (ms c) /\ efcp c' = efcp c)
          \/ (ic = true /\ parena (ms c') = ncon c * csz /\ all_null (efcp c'))))).
Proof.
  intros ga ic csz reqs c g HC Hcs Hr. pose proof HC as [HI Hn Hc].
  pose proof (inv_wf _ _ _ HI) as Hwf. pose proof Hwf as [H1 H2 H3 H4 H5 H6].
  unfold alloc_island.
  pose proof (alloc_list_spec ga reqs (ms c) g HI Hr) as HL.
  destruct (alloc_list ga (ms c) reqs) as [[ps|] s1].
  - destruct HL as [Hch [Htop [[F1 [F2 [F3 [F4 [F5 F6]]]]] [Hms HI1]]]].
    eexists. eexists. split; [reflexivity|]. cbn [ms ncon nefc nisland efcp islp warns].
    split. { constructor; [exact HI1|simpl; lia|simpl; lia]. }
    split; [reflexivity|]. split; [assumption|]. split; [assumption|]. split; [assumption|].
    left. repeat split; try reflexivity; assumption.
  - destruct HL as [[F1 [F2 [F3 [F4 [F5 F6]]]]] [Hms HI1]].
    destruct ic.
    + rewrite (ncon_wrap csz c g HC Hcs).
      assert (Hp1 : 0 <= ncon c * csz <= parena s1) by (split; [apply Z.mul_nonneg_nonneg; lia|lia]).
      eexists. eexists. split; [reflexivity|].
      cbn [clear_efc warn with_ms ms ncon nefc nisland efcp islp warns].
      split. { constructor; [cbn [ms]; apply Inv_set_parena; assumption|simpl; lia|simpl; lia]. }
      split; [reflexivity|]. split; [unfold set_parena; cbn [pstack]; assumption|].
      split; [unfold set_parena; cbn [pbase]; assumption|]. split; [unfold set_parena; cbn [mem]; assumption|].
      right. split; [reflexivity|]. split; [apply nulls_all_null|]. split; [reflexivity|]. split; [reflexivity|].
      split; [reflexivity|]. right. split; [reflexivity|]. split; [reflexivity|apply nulls_all_null].
    + eexists. eexists. split; [reflexivity|]. cbn [ms ncon nefc nisland efcp islp warns].
      split. { constructor; [cbn [ms]; apply Inv_set_parena; [assumption|lia]|simpl; lia|simpl; lia]. }
      split; [reflexivity|]. split; [unfold set_parena; cbn [pstack]; assumption|].
      split; [unfold set_parena; cbn [pbase]; assumption|]. split; [unfold set_parena; cbn [mem]; assumption|].
      right. split; [reflexivity|]. split; [apply nulls_all_null|]. split; [reflexivity|]. split; [reflexivity|].
      split; [reflexivity|]. left. repeat split; reflexivity.
Qed.

(* ------------------------------------------------------------------ phased allocation (mj_makeY, mj_makeAR) *)
Definition sreq_ok (gs : bool) (r : Z * Z) : Prop :=
  0 <= fst r < W /\ pow2 (snd r) /\ size_ok gs (fst r) (snd r).
Definition covers (tested : list nat) (n : nat) : Prop := forall i, (i < n)%nat -> In i tested.
Definition phase_ok (gs ga : bool) (na : Z) (ph : phase) : Prop :=
  match ph with (sreqs, areqs, tested) =>
    Forall (sreq_ok gs) sreqs /\ Forall (req_ok ga na) areqs /\ covers tested (length areqs) end.

(* what the steps of a phase keep *)
Definition keeps (s s' : st) : Prop :=
  base s' = base s /\ narena s' = narena s /\ pbase s' = pbase s /\ parena s <= parena s'.

Lemma keeps_refl : forall s, keeps s s.
Proof. intros. unfold keeps. repeat split; lia. Qed.
Lemma keeps_trans : forall a b c, keeps a b -> keeps b c -> keeps a c.
Proof. unfold keeps. intros a b c [A1 [A2 [A3 A4]]] [B1 [B2 [B3 B4]]]. repeat split; try congruence; lia. Qed.

Lemma stack_all_spec : forall gs gt reqs s g,
  Inv s g [] -> Forall (sreq_ok gs) reqs ->
  match stack_all gs gt s reqs with
  | None => True
  | Some s' => exists bl, allGB bl /\ Inv s' (bl ++ g) [] /\ keeps s s' /\ parena s' = parena s
  end.
Proof.
  intros gs gt reqs. induction reqs as [|[b a] r IH]; intros s g HI Hr; cbn [stack_all].
  - exists []. split; [constructor|]. split; [assumption|]. split; [apply keeps_refl|reflexivity].
  - inversion Hr as [|x l [Hb [Hal Hok]] Hrs]; subst. cbn [fst snd] in *.
    destruct (Z.eq_dec b 0) as [->|Hnz].
    + rewrite SA_zero. apply IH; assumption.
    + destruct (SA_step gs gt s g [] b a HI Hal ltac:(lia) Hok) as [H|[H _]]; cbv zeta in H.
      * destruct H as [E [_ [_ [_ [_ HI']]]]]. rewrite E.
        specialize (IH _ _ HI' Hrs).
        destruct (stack_all gs gt (sa_state s (adown (Top s - b) a)) r) as [s'|]; [|exact I].
        destruct IH as [bl [Hbl [HI2 [Hk Hp]]]].
        exists (bl ++ [GB (adown (Top s - b) a) b]). split; [apply allGB_app; [assumption|repeat constructor]|].
        split; [rewrite <- app_assoc; exact HI2|].
        split; [eapply keeps_trans; [|exact Hk]; unfold keeps, sa_state, set_stack; simpl; repeat split; lia|].
        rewrite Hp. reflexivity.
      * rewrite H. exact I.
Qed.

Lemma alloc_all_spec : forall ga reqs s g,
  Inv s g [] -> Forall (req_ok ga (narena s)) reqs ->
  Inv (snd (alloc_all ga s reqs)) g [] /\ keeps s (snd (alloc_all ga s reqs)) /\
  pstack (snd (alloc_all ga s reqs)) = pstack s.
Proof.
  intros ga reqs. induction reqs as [|[b a] r IH]; intros s g HI Hr; cbn [alloc_all].
  - simpl. split; [assumption|]. split; [apply keeps_refl|reflexivity].
  - inversion Hr as [|x l Hr1 Hrs]; subst.
    destruct (AA_cases ga s g (b, a) HI Hr1) as [[p [s1 [E [Hlo [Hnz [Hend [Htop [Hfr [Hms [Htl HI1]]]]]]]]]]|[E _]];
      cbn [fst snd] in *; rewrite E.
    + destruct Hfr as [F1 [F2 [F3 [F4 [F5 F6]]]]].
      assert (Hrs' : Forall (req_ok ga (narena s1)) r) by (rewrite F2; assumption).
      destruct (IH s1 g HI1 Hrs') as [A [B C]].
      destruct (alloc_all ga s1 r) as [ps s2]. cbn [snd] in *.
      split; [assumption|]. split; [|congruence].
      eapply keeps_trans; [|exact B]. unfold keeps. repeat split; try assumption.
    + destruct (IH s g HI Hrs) as [A [B C]].
      destruct (alloc_all ga s r) as [ps s2]. cbn [snd] in *. tauto.
Qed.

Lemma alloc_all_length : forall ga reqs s, length (fst (alloc_all ga s reqs)) = length reqs.
Proof.
  intros ga reqs. induction reqs as [|[b a] r IH]; intros s; cbn [alloc_all]; [reflexivity|].
  destruct (arena_alloc ga s b a) as [[| p | |] s1]; specialize (IH s1);
    destruct (alloc_all ga s1 r) as [ps s2]; simpl in *; congruence.
Qed.

Lemma tested_all : forall tested ps,
  covers tested (length ps) -> test_fails tested ps = false -> has_null ps = false.
Proof.
  intros tested ps Hc Ht. unfold has_null. destruct (existsb (fun p => p =? 0) ps) eqn:E; [|reflexivity].
  apply existsb_exists in E. destruct E as [p [Hin Hp]]. apply Z.eqb_eq in Hp. subst p.
  destruct (In_nth _ _ 1 Hin) as [i [Hi Hn]].
  assert (Hx : test_fails tested ps = true).
  { unfold test_fails. apply existsb_exists. exists i. split; [apply Hc; assumption|]. rewrite Hn. reflexivity. }
  congruence.
Qed.

Lemma has_null_app : forall a b, has_null (a ++ b) = has_null a || has_null b.
Proof. intros. unfold has_null. apply existsb_app. Qed.

Lemma run_phases_spec : forall gs gt ga phs s g acc,
  Inv s g [] -> Forall (phase_ok gs ga (narena s)) phs -> has_null acc = false ->
  match run_phases gs gt ga phs s acc with
  | PNull => False
  | PErr => True
  | PFail s' => exists bl, allGB bl /\ Inv s' (bl ++ g) [] /\ keeps s s'
  | PDone acc' s' => exists bl, allGB bl /\ Inv s' (bl ++ g) [] /\ keeps s s' /\ has_null acc' = false
  end.
Proof.
  intros gs gt ga phs. induction phs as [|[[sreqs areqs] tested] r IH]; intros s g acc HI Hp Hacc; cbn [run_phases].
  - exists []. split; [constructor|]. split; [assumption|]. split; [apply keeps_refl|assumption].
  - inversion Hp as [|x l Hph Hps]; subst. cbn [phase_ok] in Hph. destruct Hph as [Hs [Ha Hc]].
    pose proof (stack_all_spec gs gt sreqs s g HI Hs) as H1.
    destruct (stack_all gs gt s sreqs) as [s1|]; [|exact I].
    destruct H1 as [bl [Hbl [HI1 [Hk1 Hpa1]]]].
    assert (Ha' : Forall (req_ok ga (narena s1)) areqs) by (destruct Hk1 as [_ [-> _]]; assumption).
    destruct (alloc_all_spec ga areqs s1 (bl ++ g) HI1 Ha') as [HI2 [Hk2 Hps2]].
    pose proof (alloc_all_length ga areqs s1) as Hlen.
    destruct (alloc_all ga s1 areqs) as [ps s2]. cbn [fst snd] in *.
    destruct (test_fails tested ps) eqn:Et.
    + exists bl. split; [assumption|]. split; [assumption|]. eapply keeps_trans; eassumption.
    + rewrite (tested_all tested ps ltac:(rewrite Hlen; assumption) Et).
      assert (Hps' : Forall (phase_ok gs ga (narena s2)) r).
      { destruct Hk1 as [_ [E1 _]]. destruct Hk2 as [_ [E2 _]]. rewrite E2, E1. assumption. }
      assert (Hacc' : has_null (acc ++ ps) = false).
      { rewrite has_null_app, Hacc. simpl. apply (tested_all tested ps); [rewrite Hlen; assumption|assumption]. }
      specialize (IH s2 (bl ++ g) (acc ++ ps) HI2 Hps' Hacc').
      destruct (run_phases gs gt ga r s2 (acc ++ ps)) as [acc' s3|s3| |]; try assumption.
      * destruct IH as [bl' [Hbl' [HI3 [Hk3 Hn]]]]. exists (bl' ++ bl).
        split; [apply allGB_app; assumption|]. split; [rewrite <- app_assoc; assumption|].
        split; [eapply keeps_trans; [eapply keeps_trans|]; eassumption|assumption].
      * destruct IH as [bl' [Hbl' [HI3 Hk3]]]. exists (bl' ++ bl).
        split; [apply allGB_app; assumption|]. split; [rewrite <- app_assoc; assumption|].
        eapply keeps_trans; [eapply keeps_trans|]; eassumption.
Qed.

(* mj_makeY / mj_makeAR(dense): with a NULL test that looks at every pointer of each group the
   function never writes through NULL; it either raises mju_error (stack), or returns with the
   stack restored and either all arrays allocated or the failure state of the other sites *)
Theorem alloc_dual_thm : forall gs gt ga csz phs c g,
  CInv csz c g -> 0 < csz -> Forall (phase_ok gs ga (narena (ms c))) phs ->
  alloc_dual gs gt ga csz phs c = ErrExit c \/
  exists ret c', alloc_dual gs gt ga csz phs c = Done ret c' /\ CInv csz c' g /\
    ncon c' = ncon c /\ pstack (ms c') = pstack (ms c) /\ pbase (ms c') = pbase (ms c) /\
    ((ret = 1 /\ has_null (dualp c') = false /\ nefc c' = nefc c /\ efcp c' = efcp c /\ islp c' = islp c /\
      warns c' = warns c)
     \/ (ret = 0 /\ parena (ms c') = ncon c * csz /\ all_null (efcp c') /\ all_null (islp c') /\
         all_null (dualp c') /\ nefc c' = 0 /\ nisland c' = 0 /\
         warns c' = (WARN_CNSTRFULL, narena (ms c)) :: warns c)).
Proof.
  intros gs gt ga csz phs c g HC Hcs Hp. pose proof HC as [HI Hn Hc].
  pose proof (inv_wf _ _ _ HI) as Hwf. pose proof Hwf as [H1 H2 H3 H4 H5 H6].
  unfold alloc_dual.
  destruct (M_step gs (ms c) g [] HI) as [HM|[HM _]]; cbv zeta in HM; [|rewrite HM; left; reflexivity].
  destruct HM as [EM [_ [_ [_ HI1]]]]. rewrite EM.
  set (fa := adown (Top (ms c) - FRAME) FALIGN) in *.
  set (s1 := mark_state (ms c) fa) in *.
  assert (Hp1 : Forall (phase_ok gs ga (narena s1)) phs) by exact Hp.
  pose proof (run_phases_spec gs gt ga phs s1 _ [] HI1 Hp1 eq_refl) as HR.
  destruct (run_phases gs gt ga phs s1 []) as [acc s2|s2| |]; [| |left; reflexivity|contradiction].
  - (* all arrays allocated *)
    destruct HR as [bl [Hbl [HI2 [[K1 [K2 [K3 K4]]] Hnn]]]].
    pose proof (F_step s2 _ [] HI2) as HF. rewrite gpop_skip in HF by assumption. cbn [gpop] in HF.
    destruct HF as [EF [HT HI3]]. rewrite EF. cbn [snd].
    right. eexists. eexists. split; [reflexivity|]. cbn [ms ncon nefc nisland efcp islp warns dualp].
    assert (Eps : pstack (free_state s2 (pbase (ms c)) (Top (ms c))) = pstack (ms c)).
    { unfold free_state, set_stack. cbn [pstack]. unfold Bot, Top. rewrite K1, K2. unfold s1, mark_state, set_stack. cbn [base narena]. lia. }
    split. { constructor; [exact HI3|simpl; lia|].
             cbn [ms ncon]. unfold free_state, set_stack. cbn [parena].
             unfold s1, mark_state, set_stack in K4. cbn [parena] in K4. lia. }
    split; [reflexivity|]. split; [exact Eps|]. split; [reflexivity|].
    left. repeat split; try reflexivity. assumption.
  - (* a group did not fit *)
    destruct HR as [bl [Hbl [HI2 [K1 [K2 [K3 K4]]]]]].
    rewrite (ncon_wrap csz c g HC Hcs).
    assert (Hp2 : 0 <= ncon c * csz <= parena s2).
    { unfold s1, mark_state, set_stack in K4. cbn [parena] in K4. split; [apply Z.mul_nonneg_nonneg; lia|lia]. }
    pose proof (Inv_set_parena _ _ _ HI2 Hp2) as HI2'.
    pose proof (F_step _ _ [] HI2') as HF. rewrite gpop_skip in HF by assumption. cbn [gpop] in HF.
    destruct HF as [EF [HT HI3]]. rewrite EF. cbn [snd].
    right. eexists. eexists. split; [reflexivity|].
    cbn [clear_efc warn with_ms ms ncon nefc nisland efcp islp warns dualp].
    split. { constructor; [exact HI3|simpl; lia|simpl; lia]. }
    split; [reflexivity|].
    split. { unfold free_state, set_stack, set_parena. cbn [pstack base narena]. unfold Bot, Top. cbn [base narena].
             rewrite K1, K2. unfold s1, mark_state, set_stack. cbn [base narena]. lia. }
    split; [reflexivity|].
    right. split; [reflexivity|]. split; [reflexivity|].
    split; [apply nulls_all_null|]. split; [apply nulls_all_null|]. split; [apply nulls_all_null|].
    repeat split; reflexivity.
Qed.

(* a NULL test that leaves out one pointer of a group (here: the second of two, as if mj_makeY tested
   efc_Y_rowadr instead of efc_Y_colind): with room for the first array only, the function writes
   through NULL *)
Definition wit_d : cl := mkcl (mkst 4096 512 0 400 0 400 400 false []) 0 0 0 [] [] [] [0; 0].

Lemma wit_d_inv : CInv 584 wit_d [].
Proof.
  constructor; simpl; try lia.
  constructor; simpl; try reflexivity; try lia;
    try (constructor; simpl; try lia; rewrite W_val; lia);
    unfold Top, Bot, Lim; simpl; lia.
Qed.

Lemma alloc_dual_refuted :
  exists c g, CInv 584 c g /\
    alloc_dual true true true 584 [([], [(64, 8); (32, 4)], [0%nat])] c = NullWrite /\
    alloc_dual true true true 584 [([], [(64, 8); (32, 4)], [0%nat; 1%nat])] c <> NullWrite.
Proof.
  exists wit_d, []. split; [exact wit_d_inv|]. split; [vm_compute; reflexivity|vm_compute; discriminate].
Qed.

(* pushPairArena with the NULL test on the result: a block inside the arena, or mju_error *)
Theorem push_pair_fixed_thm : forall ga csz psz pal c g,
  CInv csz c g -> req_ok ga (narena (ms c)) (psz, pal) ->
  (exists c', push_pair ga true psz pal c = Done 0 c' /\ CInv csz c' g /\ ncon c' = ncon c /\
              pstack (ms c') = pstack (ms c) /\ parena (ms c) + psz <= parena (ms c') /\
              Lim (ms c') <= Top (ms c'))
  \/ (push_pair ga true psz pal c = ErrExit c /\ Avail (ms c) < psz + pal - 1).
Proof.
  intros ga csz psz pal c g HC Hr. pose proof HC as [HI Hn Hc].
  unfold push_pair.
  destruct (AA_cases ga (ms c) g (psz, pal) HI Hr) as [[p [s1 [E [Hlo [Hnz [Hend [Htop [Hfr [Hms [Htl HI1]]]]]]]]]]|[E Hav]];
    cbn [fst snd] in *; rewrite E.
  - left. destruct Hfr as [F1 [F2 [F3 [F4 [F5 F6]]]]]. destruct Hr as [Hb _]. cbn [fst] in Hb.
    eexists. split; [reflexivity|]. cbn [with_ms ms ncon].
    split. { constructor; [cbn [ms]; apply Inv_wr; [assumption|lia|lia]|simpl; lia|simpl; lia]. }
    split; [reflexivity|]. split; [unfold wr; cbn [pstack]; assumption|].
    split. { unfold wr. cbn [parena]. unfold Lim in *. lia. }
    unfold wr, Lim, Top in *. cbn [base narena parena pstack] in *. assumption.
  - right. split; [reflexivity|assumption].
Qed.

(* the code before /repo's repair (NULL test on the argument): with fewer free bytes than sizeof(mjcPair) the function
   writes through NULL *)
Definition wit_c : cl := mkcl (mkst 4096 256 0 240 0 240 240 false []) 0 0 0 [] [] [] [].

Lemma wit_c_inv : CInv 584 wit_c [].
Proof.
  constructor; simpl; try lia.
  constructor; simpl; try reflexivity; try lia;
    try (constructor; simpl; try lia; rewrite W_val; lia);
    unfold Top, Bot, Lim; simpl; lia.
Qed.

Lemma push_pair_refuted :
  exists c g, CInv 584 c g /\ push_pair true false 24 4 c = NullWrite /\ Avail (ms c) < 24.
Proof.
  exists wit_c, []. split; [exact wit_c_inv|]. split; vm_compute; reflexivity.
Qed.
