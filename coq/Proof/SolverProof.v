(* Proofs over R for Props/C10.v: first-order optimality of the documented constraint-solver objective
   (finite sums, all sizes), the duality-gap certificate, the instance for the scalar rows of
   mj_constraintUpdate_impl, monotonicity of accept-or-keep loops, and the PGS projection kernels. *)
From Coq Require Import ZArith List Bool PrimFloat Reals Lra Lia Psatz Classical.
From Coquelicot Require Import Coquelicot.
From MJV Require Import Lib.Num Lib.NumR Model.ConstraintUpdate Model.ConstraintUpdateSpec
                        Proof.ConstraintUpdateProof Model.Solver Model.SolverSpec.
Import ListNotations.
Open Scope R_scope.

(* ------------------------------------------------------------------ finite sums *)
Lemma sumn_ext (n : nat) (g h : nat -> R) :
  (forall i : nat, (i < n)%nat -> g i = h i) -> sumn n g = sumn n h.
Proof.
  induction n as [|n IH]; intros E; simpl; [reflexivity|].
  rewrite IH by (intros; apply E; lia). rewrite E by lia. reflexivity.
Qed.

Lemma sumn_plus (n : nat) (g h : nat -> R) :
  sumn n (fun i => g i + h i) = sumn n g + sumn n h.
Proof. induction n as [|n IH]; simpl; [ring|]. rewrite IH. ring. Qed.

Lemma sumn_minus (n : nat) (g h : nat -> R) :
  sumn n (fun i => g i - h i) = sumn n g - sumn n h.
Proof. induction n as [|n IH]; simpl; [ring|]. rewrite IH. ring. Qed.

Lemma sumn_scal (n : nat) (c : R) (g : nat -> R) :
  sumn n (fun i => c * g i) = c * sumn n g.
Proof. induction n as [|n IH]; simpl; [ring|]. rewrite IH. ring. Qed.

Lemma sumn_zero (n : nat) : sumn n (fun _ => 0) = 0.
Proof. induction n as [|n IH]; simpl; [reflexivity|]. rewrite IH. ring. Qed.

Lemma sumn_le (n : nat) (g h : nat -> R) :
  (forall i : nat, (i < n)%nat -> g i <= h i) -> sumn n g <= sumn n h.
Proof.
  induction n as [|n IH]; intros E; simpl; [lra|].
  assert (A : sumn n g <= sumn n h) by (apply IH; intros; apply E; lia).
  assert (B : g n <= h n) by (apply E; lia). lra.
Qed.

Lemma sumn_swap (n m : nat) (g : nat -> nat -> R) :
  sumn n (fun i => sumn m (fun j => g i j)) = sumn m (fun j => sumn n (fun i => g i j)).
Proof.
  induction n as [|n IH]; simpl.
  - symmetry. apply sumn_zero.
  - rewrite IH. rewrite <- sumn_plus. reflexivity.
Qed.

(* ------------------------------------------------------------------ vectors and matrices *)
Lemma dotn_ext (n : nat) (x x' y y' : vec) : eqn n x x' -> eqn n y y' -> dotn n x y = dotn n x' y'.
Proof. intros Ex Ey. unfold dotn. apply sumn_ext. intros i Hi. rewrite (Ex i Hi), (Ey i Hi). reflexivity. Qed.

Lemma dotn_comm (n : nat) (x y : vec) : dotn n x y = dotn n y x.
Proof. unfold dotn. apply sumn_ext. intros. ring. Qed.

Lemma dotn_add_l (n : nat) (x y z : vec) : dotn n (vadd x y) z = dotn n x z + dotn n y z.
Proof. unfold dotn, vadd. rewrite <- sumn_plus. apply sumn_ext. intros. ring. Qed.

Lemma dotn_sub_l (n : nat) (x y z : vec) : dotn n (vsub x y) z = dotn n x z - dotn n y z.
Proof. unfold dotn, vsub. rewrite <- sumn_minus. apply sumn_ext. intros. ring. Qed.

Lemma dotn_scal_l (n : nat) (t : R) (x z : vec) : dotn n (vscal t x) z = t * dotn n x z.
Proof. unfold dotn, vscal. rewrite <- sumn_scal. apply sumn_ext. intros. ring. Qed.

Lemma mulMV_ext (c : nat) (A : mat) (x y : vec) : eqn c x y -> forall i : nat, mulMV c A x i = mulMV c A y i.
Proof. intros E i. unfold mulMV. apply sumn_ext. intros j Hj. rewrite (E j Hj). reflexivity. Qed.

Lemma mulMV_add (c : nat) (A : mat) (x y : vec) (i : nat) :
  mulMV c A (vadd x y) i = mulMV c A x i + mulMV c A y i.
Proof. unfold mulMV, vadd. rewrite <- sumn_plus. apply sumn_ext. intros. ring. Qed.

Lemma mulMV_sub (c : nat) (A : mat) (x y : vec) (i : nat) :
  mulMV c A (vsub x y) i = mulMV c A x i - mulMV c A y i.
Proof. unfold mulMV, vsub. rewrite <- sumn_minus. apply sumn_ext. intros. ring. Qed.

Lemma mulMV_scal (c : nat) (A : mat) (t : R) (x : vec) (i : nat) :
  mulMV c A (vscal t x) i = t * mulMV c A x i.
Proof. unfold mulMV, vscal. rewrite <- sumn_scal. apply sumn_ext. intros. ring. Qed.

(* y' (A x) = (A' y)' x *)
Lemma adjoint (n m : nat) (A : mat) (x y : vec) :
  dotn m y (mulMV n A x) = dotn n (mulMTV m A y) x.
Proof.
  unfold dotn, mulMV, mulMTV.
  transitivity (sumn m (fun i => sumn n (fun j => y i * (A i j * x j)))).
  { apply sumn_ext. intros i _. rewrite <- sumn_scal. reflexivity. }
  rewrite sumn_swap. apply sumn_ext. intros j _.
  rewrite Rmult_comm. rewrite <- sumn_scal. apply sumn_ext. intros. ring.
Qed.

Lemma bil_ext (n : nat) (M : mat) (x x' y y' : vec) :
  eqn n x x' -> eqn n y y' -> bil n M x y = bil n M x' y'.
Proof.
  intros Ex Ey. unfold bil. apply dotn_ext; [assumption|].
  intros i _. apply mulMV_ext. assumption.
Qed.

Lemma bil_sym (n : nat) (M : mat) (x y : vec) : symmetric n M -> bil n M x y = bil n M y x.
Proof.
  intros S. unfold bil, dotn, mulMV.
  transitivity (sumn n (fun i => sumn n (fun j => x i * (M i j * y j)))).
  { apply sumn_ext. intros i _. rewrite <- sumn_scal. reflexivity. }
  rewrite sumn_swap. apply sumn_ext. intros j Hj.
  rewrite <- sumn_scal. apply sumn_ext. intros i Hi. rewrite (S i j Hi Hj). ring.
Qed.

Lemma bil_add_l (n : nat) (M : mat) (x y z : vec) : bil n M (vadd x y) z = bil n M x z + bil n M y z.
Proof. unfold bil. apply dotn_add_l. Qed.

Lemma bil_add_r (n : nat) (M : mat) (x y z : vec) : bil n M z (vadd x y) = bil n M z x + bil n M z y.
Proof.
  unfold bil, dotn. rewrite <- sumn_plus. apply sumn_ext. intros i _. rewrite mulMV_add. ring.
Qed.

Lemma bil_scal_l (n : nat) (M : mat) (t : R) (x z : vec) : bil n M (vscal t x) z = t * bil n M x z.
Proof. unfold bil. apply dotn_scal_l. Qed.

Lemma bil_scal_r (n : nat) (M : mat) (t : R) (x z : vec) : bil n M z (vscal t x) = t * bil n M z x.
Proof.
  unfold bil, dotn. rewrite <- sumn_scal. apply sumn_ext. intros i _. rewrite mulMV_scal. ring.
Qed.

(* (p + d)' M (p + d) = p' M p + 2 p' M d + d' M d *)
Lemma bil_expand (n : nat) (M : mat) (p d : vec) : symmetric n M ->
  bil n M (vadd p d) (vadd p d) = bil n M p p + 2 * bil n M p d + bil n M d d.
Proof.
  intros S. rewrite bil_add_l, !bil_add_r. rewrite (bil_sym n M d p S). ring.
Qed.

(* ------------------------------------------------------------------ convexity and tangents *)
(* a convex function of one variable lies above each of its tangents *)
Lemma tangent_of_convex (c : R -> R) (x l : R) :
  convex1 c -> is_derive c x l -> forall y : R, c x + l * (y - x) <= c y.
Proof.
  intros Hc Hd y.
  destruct (Req_dec y x) as [->|Hne]; [lra|].
  apply Rnot_lt_le. intros Hlt.
  apply is_derive_Reals in Hd. unfold derivable_pt_lim in Hd.
  set (d := y - x) in *.
  assert (Hd0 : d <> 0) by (unfold d; lra).
  assert (Had : 0 < Rabs d) by (apply Rabs_pos_lt; assumption).
  set (gap := c x + l * d - c y) in *.
  assert (Hgap : 0 < gap) by (unfold gap; lra).
  set (eps := gap / (2 * Rabs d)).
  assert (Heps : 0 < eps) by (unfold eps; apply Rdiv_lt_0_compat; lra).
  destruct (Hd eps Heps) as [delta Hdelta].
  pose proof (cond_pos delta) as Hdp.
  set (t := Rmin 1 (delta / (2 * Rabs d))).
  assert (Ht0 : 0 < t).
  { unfold t. apply Rmin_glb_lt; [lra|]. apply Rdiv_lt_0_compat; lra. }
  assert (Ht1 : t <= 1) by (unfold t; apply Rmin_l).
  assert (Htd : t * Rabs d < delta).
  { assert (t <= delta / (2 * Rabs d)) by (unfold t; apply Rmin_r).
    assert (t * Rabs d <= delta / (2 * Rabs d) * Rabs d) by (apply Rmult_le_compat_r; lra).
    replace (delta / (2 * Rabs d) * Rabs d) with (delta / 2) in H0 by (field; lra). lra. }
  set (h := t * d).
  assert (Hh0 : h <> 0) by (unfold h; apply Rmult_integral_contrapositive_currified; lra).
  assert (Hhd : Rabs h < delta).
  { unfold h. rewrite Rabs_mult. rewrite (Rabs_pos_eq t) by lra. assumption. }
  specialize (Hdelta h Hh0 Hhd).
  (* convexity at the point x + t d = t y + (1 - t) x *)
  pose proof (Hc y x t (conj (Rlt_le _ _ Ht0) Ht1)) as Hcv.
  replace (t * y + (1 - t) * x) with (x + h) in Hcv by (unfold h, d; ring).
  (* |(c (x + h) - c x) / h - l| < eps  gives  c (x + h) - c x > l h - eps |h| *)
  assert (Hq : Rabs ((c (x + h) - c x) - l * h) < eps * Rabs h).
  { replace ((c (x + h) - c x) - l * h) with (((c (x + h) - c x) / h - l) * h) by (field; assumption).
    rewrite Rabs_mult. apply Rmult_lt_compat_r; [apply Rabs_pos_lt; assumption|assumption]. }
  apply Rabs_def2 in Hq. destruct Hq as [_ Hq].
  assert (Hah : Rabs h = t * Rabs d).
  { unfold h. rewrite Rabs_mult. rewrite (Rabs_pos_eq t) by lra. reflexivity. }
  rewrite Hah in Hq.
  assert (He : eps * (t * Rabs d) = t * (gap / 2)).
  { unfold eps. field. lra. }
  rewrite He in Hq. unfold h in Hq, Hcv.
  assert (Hfin : t * (c y - c x) > t * (l * d - gap / 2)) by lra.
  assert (c y - c x > l * d - gap / 2) by nra.
  unfold gap in H. lra.
Qed.

(* the same for functions of finitely many variables with directional derivatives *)
Lemma tangent_of_convexV (m : nat) (s : vec -> R) (f : vec -> vec) :
  depends_on_first m s -> convexV s ->
  (forall x v : vec, is_derive (fun t : R => s (vadd x (vscal t v))) 0 (- dotn m (f x) v)) ->
  forall x y : vec, s x - dotn m (f x) (vsub y x) <= s y.
Proof.
  intros Hdep Hcv Hder x y.
  set (d := vsub y x).
  set (phi := fun t : R => s (vadd x (vscal t d))).
  assert (Hphi : convex1 phi).
  { intros t1 t2 lam Hlam. unfold phi.
    pose proof (Hcv (vadd x (vscal t1 d)) (vadd x (vscal t2 d)) lam Hlam) as H.
    erewrite (Hdep (vadd x (vscal (lam * t1 + (1 - lam) * t2) d))); [exact H|].
    intros i _. unfold vadd, vscal. ring. }
  pose proof (tangent_of_convex phi 0 (- dotn m (f x) d) Hphi (Hder x d) 1) as H.
  unfold phi in H.
  rewrite (Hdep (vadd x (vscal 0 d)) x) in H by (intros i _; unfold vadd, vscal; ring).
  rewrite (Hdep (vadd x (vscal 1 d)) y) in H by (intros i _; unfold vadd, vscal, d, vsub; ring).
  lra.
Qed.

(* ------------------------------------------------------------------ the objective *)
Section Objective.
Variables (n m : nat) (M J : mat) (a0 aref : vec) (s : vec -> R) (f : vec -> vec).
Hypothesis Msym : symmetric n M.
Hypothesis sdep : depends_on_first m s.
Hypothesis scvx : convexV s.
Hypothesis sder : forall x v : vec, is_derive (fun t : R => s (vadd x (vscal t v))) 0 (- dotn m (f x) v).

Let obj := objective n m M J a0 aref s.
Let grad := obj_grad n m M J a0 aref f.

(* obj b >= obj a + grad(a)' (b - a) + 1/2 (b - a)' M (b - a) *)
Lemma objective_lower (a b : vec) :
  obj a + dotn n (grad a) (vsub b a) + / 2 * bil n M (vsub b a) (vsub b a) <= obj b.
Proof.
  unfold obj, grad, objective, obj_grad.
  set (d := vsub b a). set (p := vsub a a0).
  assert (Eb : bil n M (vsub b a0) (vsub b a0) = bil n M p p + 2 * bil n M p d + bil n M d d).
  { rewrite <- (bil_expand n M p d Msym). apply bil_ext; intros i _; unfold vadd, vsub, p, d, vsub; ring. }
  rewrite Eb.
  pose proof (tangent_of_convexV m s f sdep scvx sder (vsub (mulMV n J a) aref) (vsub (mulMV n J b) aref)) as Ht.
  set (xa := vsub (mulMV n J a) aref) in *. set (xb := vsub (mulMV n J b) aref) in *.
  assert (Ed : dotn m (f xa) (vsub xb xa) = dotn n (mulMTV m J (f xa)) d).
  { rewrite <- adjoint. apply dotn_ext; [intros i _; reflexivity|].
    intros i _. unfold xb, xa, vsub. unfold d. rewrite mulMV_sub. unfold vsub. ring. }
  rewrite Ed in Ht.
  rewrite dotn_sub_l.
  assert (Ep : dotn n (mulMV n M p) d = bil n M p d).
  { rewrite (bil_sym n M p d Msym). unfold bil. apply dotn_comm. }
  rewrite Ep. lra.
Qed.

End Objective.

(* stationarity implies global minimality, and uniqueness for positive-definite M *)
Lemma stationary_optimal (n m : nat) (M J : mat) (a0 aref : vec) (s : vec -> R) (f : vec -> vec) :
  symmetric n M -> posdef n M ->
  depends_on_first m s -> convexV s ->
  (forall x v : vec, is_derive (fun t : R => s (vadd x (vscal t v))) 0 (- dotn m (f x) v)) ->
  forall a : vec,
    eqn n (mulMV n M (vsub a a0)) (mulMTV m J (f (vsub (mulMV n J a) aref))) ->
    forall b : vec,
      objective n m M J a0 aref s a <= objective n m M J a0 aref s b /\
      (objective n m M J a0 aref s b <= objective n m M J a0 aref s a -> eqn n b a).
Proof.
  intros Msym Mpd sdep scvx sder a Hst b.
  pose proof (objective_lower n m M J a0 aref s f Msym sdep scvx sder a b) as H.
  assert (G : dotn n (obj_grad n m M J a0 aref f a) (vsub b a) = 0).
  { unfold obj_grad. rewrite dotn_sub_l.
    rewrite (dotn_ext n _ (mulMTV m J (f (vsub (mulMV n J a) aref))) (vsub b a) (vsub b a) Hst (fun i _ => eq_refl)).
    ring. }
  rewrite G in H.
  assert (P : 0 <= bil n M (vsub b a) (vsub b a)).
  { destruct (classic (eqn n (vsub b a) vzero)) as [E|E].
    - rewrite (bil_ext n M _ vzero _ vzero E E). unfold bil, dotn, vzero.
      rewrite (sumn_ext n _ (fun _ => 0)); [rewrite sumn_zero; lra|intros; ring].
    - left. apply Mpd. assumption. }
  split; [lra|].
  intros Hle. intros i Hi.
  destruct (classic (eqn n (vsub b a) vzero)) as [E|E].
  - specialize (E i Hi). unfold vsub, vzero in E. lra.
  - pose proof (Mpd _ E). lra.
Qed.

(* the duality-gap certificate used by mj_solPrimal: with M w = grad(a),
   obj a - obj b <= 1/2 grad(a)' w  for every b *)
Lemma gap_certificate (n m : nat) (M J : mat) (a0 aref : vec) (s : vec -> R) (f : vec -> vec) :
  symmetric n M -> possemidef n M ->
  depends_on_first m s -> convexV s ->
  (forall x v : vec, is_derive (fun t : R => s (vadd x (vscal t v))) 0 (- dotn m (f x) v)) ->
  forall a w : vec,
    eqn n (mulMV n M w) (obj_grad n m M J a0 aref f a) ->
    forall b : vec,
      objective n m M J a0 aref s a - objective n m M J a0 aref s b
        <= / 2 * dotn n (obj_grad n m M J a0 aref f a) w.
Proof.
  intros Msym Mpsd sdep scvx sder a w Hw b.
  pose proof (objective_lower n m M J a0 aref s f Msym sdep scvx sder a b) as H.
  set (g := obj_grad n m M J a0 aref f a) in *. set (d := vsub b a) in *.
  assert (E1 : dotn n g d = bil n M d w).
  { unfold bil. rewrite dotn_comm. apply dotn_ext; [intros i _; reflexivity|]. intros i Hi. symmetry. apply Hw. assumption. }
  assert (E2 : dotn n g w = bil n M w w).
  { unfold bil. rewrite dotn_comm. apply dotn_ext; [intros i _; reflexivity|]. intros i Hi. symmetry. apply Hw. assumption. }
  pose proof (Mpsd (vadd d w)) as P. rewrite (bil_expand n M d w Msym) in P.
  rewrite E1 in H. rewrite E2. lra.
Qed.

(* ------------------------------------------------------------------ separable costs: scalar rows *)
Lemma sep_depends (m : nat) (c : nat -> R -> R) : depends_on_first m (sep_cost m c).
Proof. intros x y E. unfold sep_cost. apply sumn_ext. intros r Hr. rewrite (E r Hr). reflexivity. Qed.

Lemma sep_convex (m : nat) (c : nat -> R -> R) :
  (forall r : nat, (r < m)%nat -> convex1 (c r)) -> convexV (sep_cost m c).
Proof.
  intros Hc x y t Ht. unfold sep_cost.
  rewrite <- !sumn_scal. rewrite <- sumn_plus. apply sumn_le. intros r Hr.
  unfold vadd, vscal. apply (Hc r Hr). assumption.
Qed.

Lemma is_derive_sumn (m : nat) (g : nat -> R -> R) (l : nat -> R) (x : R) :
  (forall r : nat, (r < m)%nat -> is_derive (g r) x (l r)) ->
  is_derive (fun t : R => sumn m (fun r => g r t)) x (sumn m l).
Proof.
  induction m as [|m IH]; intros H; simpl.
  - apply (is_derive_const (K:=R_AbsRing) (V:=R_NormedModule) 0 x).
  - apply (is_derive_plus (K:=R_AbsRing) (V:=R_NormedModule)).
    + apply IH. intros; apply H; lia.
    + apply H; lia.
Qed.

Lemma sep_derive (m : nat) (c g : nat -> R -> R) :
  (forall (r : nat) (x : R), (r < m)%nat -> is_derive (c r) x (- g r x)) ->
  forall x v : vec,
    is_derive (fun t : R => sep_cost m c (vadd x (vscal t v))) 0 (- dotn m (sep_force g x) v).
Proof.
  intros Hd x v. unfold sep_cost, dotn, sep_force.
  replace (- sumn m (fun i => g i (x i) * v i)) with (sumn m (fun r => v r * - g r (x r))).
  2:{ transitivity (sumn m (fun i => -1 * (g i (x i) * v i))); [apply sumn_ext; intros; ring|]. rewrite sumn_scal. ring. }
  apply (is_derive_sumn m (fun r t => c r (vadd x (vscal t v) r)) (fun r => v r * - g r (x r)) 0).
  intros r Hr. unfold vadd, vscal.
  apply (is_derive_comp (c r) (fun t : R => x r + t * v r) 0 (- g r (x r)) (v r)).
  - replace (x r + 0 * v r) with (x r) by ring. apply Hd. assumption.
  - auto_derive; [exact I|ring].
Qed.

(* the row kernels of mj_constraintUpdate_impl *)
Lemma rk_convex (k : rowkind) : rk_ok k -> convex1 (rk_cost k).
Proof.
  destruct k as [D|D|D Rr fl]; simpl; intros H.
  - apply (row_eq_convex D H).
  - apply (row_uni_convex D H).
  - destruct H as (E & HR & Hf). apply (row_fric_convex D Rr fl E HR Hf).
Qed.

Lemma rk_derive (k : rowkind) (x : R) : rk_ok k -> is_derive (rk_cost k) x (- rk_force k x).
Proof.
  destruct k as [D|D|D Rr fl]; simpl; intros H.
  - apply (row_eq_grad D x).
  - apply (row_uni_grad D x).
  - destruct H as (E & HR & Hf). apply (row_fric_grad D Rr fl x E HR Hf).
Qed.

Lemma scalar_rows_optimal (n m : nat) (M J : mat) (a0 aref : vec) (rows : nat -> rowkind) :
  symmetric n M -> posdef n M ->
  (forall r : nat, (r < m)%nat -> rk_ok (rows r)) ->
  forall a : vec,
    eqn n (mulMV n M (vsub a a0))
          (mulMTV m J (sep_force (fun r => rk_force (rows r)) (vsub (mulMV n J a) aref))) ->
    forall b : vec,
      objective n m M J a0 aref (sep_cost m (fun r => rk_cost (rows r))) a <=
      objective n m M J a0 aref (sep_cost m (fun r => rk_cost (rows r))) b /\
      (objective n m M J a0 aref (sep_cost m (fun r => rk_cost (rows r))) b <=
       objective n m M J a0 aref (sep_cost m (fun r => rk_cost (rows r))) a -> eqn n b a).
Proof.
  intros Msym Mpd Hok a Hst b.
  apply (stationary_optimal n m M J a0 aref (sep_cost m (fun r => rk_cost (rows r)))
                            (sep_force (fun r => rk_force (rows r))) Msym Mpd).
  - apply sep_depends.
  - apply sep_convex. intros r Hr. apply rk_convex. apply Hok. assumption.
  - apply (sep_derive m (fun r => rk_cost (rows r)) (fun r => rk_force (rows r))).
    intros r x Hr. apply rk_derive. apply Hok. assumption.
  - assumption.
Qed.

(* a fully concrete one-dimensional instance: nv = nefc = 1, M = 2, J = 1, qacc_smooth = -3, aref = 0,
   one limit row with D = 1: the stationary point is a = -2 (force 2 = -D * (a - aref)) *)
Lemma example_1d :
  let M : mat := fun _ _ => 2 in let J : mat := fun _ _ => 1 in
  let a0 : vec := fun _ => -3 in let aref : vec := fun _ => 0 in
  let rows : nat -> rowkind := fun _ => RowUni 1 in
  let a : vec := fun _ => -2 in
  symmetric 1 M /\ posdef 1 M /\ rk_ok (rows 0%nat) /\
  eqn 1 (mulMV 1 M (vsub a a0)) (mulMTV 1 J (sep_force (fun r => rk_force (rows r)) (vsub (mulMV 1 J a) aref))) /\
  sep_force (fun r => rk_force (rows r)) (vsub (mulMV 1 J a) aref) 0%nat = 2 /\
  objective 1 1 M J a0 aref (sep_cost 1 (fun r => rk_cost (rows r))) a = 3 /\
  forall b : vec, 3 <= objective 1 1 M J a0 aref (sep_cost 1 (fun r => rk_cost (rows r))) b.
Proof.
  intros M J a0 aref rows a.
  assert (S : symmetric 1 M) by (intros i j _ _; reflexivity).
  assert (P : posdef 1 M).
  { intros x Hx. unfold bil, dotn, mulMV, M. simpl.
    assert (x 0%nat <> 0).
    { intros E. apply Hx. intros i Hi. assert (i = 0)%nat by lia. subst. unfold vzero. assumption. }
    nra. }
  assert (K : rk_ok (rows 0%nat)) by (simpl; lra).
  assert (F : sep_force (fun r => rk_force (rows r)) (vsub (mulMV 1 J a) aref) 0%nat = 2).
  { assert (Hx : vsub (mulMV 1 J a) aref 0%nat = -2) by (unfold vsub, mulMV, J, a, aref; simpl; ring).
    unfold sep_force, rows, rk_force. rewrite Hx.
    change (snd (fst (row_uni 0 1 (-2)))) with (r_force (row_uni 0 1 (-2))).
    rewrite row_uni_force. destruct (Rle_dec 0 (-2)); lra. }
  assert (St : eqn 1 (mulMV 1 M (vsub a a0)) (mulMTV 1 J (sep_force (fun r => rk_force (rows r)) (vsub (mulMV 1 J a) aref)))).
  { intros i Hi. assert (i = 0)%nat by lia. subst i. unfold mulMTV. simpl sumn. rewrite F.
    unfold mulMV, M, J, vsub, a, a0. simpl. ring. }
  assert (V : objective 1 1 M J a0 aref (sep_cost 1 (fun r => rk_cost (rows r))) a = 3).
  { assert (Hx : vsub (mulMV 1 J a) aref 0%nat = -2) by (unfold vsub, mulMV, J, a, aref; simpl; ring).
    unfold objective, sep_cost, rows, rk_cost. simpl sumn. rewrite Hx.
    change (fst (fst (row_uni 0 1 (-2)))) with (r_cost (row_uni 0 1 (-2))).
    rewrite row_uni_cost. unfold bil, dotn, mulMV, vsub, M, a, a0. simpl.
    destruct (Rle_dec 0 (-2)); lra. }
  repeat split; try assumption.
  intros b. rewrite <- V.
  apply (scalar_rows_optimal 1 1 M J a0 aref rows S P); [intros r Hr; simpl; lra|assumption].
Qed.

(* ------------------------------------------------------------------ accept-or-keep loops *)
Lemma guarded_loop_monotone (X : Type) (cost : X -> R) (eps : R) (accept : X -> X -> bool)
                            (propose : nat -> X -> option X) :
  0 <= eps -> (forall y x : X, accept y x = true -> cost y <= cost x + eps) ->
  forall (fuel k : nat) (x : X), cost (guarded_loop accept propose fuel k x) <= cost x + INR fuel * eps.
Proof.
  intros He Ha fuel. induction fuel as [|fuel IH]; intros k x.
  - simpl. lra.
  - rewrite S_INR. simpl. destruct (propose k x) as [y|].
    + destruct (accept y x) eqn:E.
      * pose proof (IH (S k) y). pose proof (Ha y x E). nra.
      * pose proof (pos_INR fuel). nra.
    + pose proof (pos_INR fuel). nra.
Qed.

Lemma guarded_sweep_monotone (X : Type) (cost : X -> R) (eps : R) (accept : X -> X -> bool)
                             (propose : nat -> X -> X) :
  0 <= eps -> (forall y x : X, accept y x = true -> cost y <= cost x + eps) ->
  forall (fuel k : nat) (x : X), cost (guarded_sweep accept propose fuel k x) <= cost x + INR fuel * eps.
Proof.
  intros He Ha fuel. induction fuel as [|fuel IH]; intros k x.
  - simpl. lra.
  - rewrite S_INR. simpl.
    pose proof (IH (S k) (if accept (propose k x) x then propose k x else x)) as H.
    destruct (accept (propose k x) x) eqn:E.
    + pose proof (Ha _ _ E). lra.
    + lra.
Qed.

(* a convex line-search function vanishing at 0 is bounded by alpha * slope at every alpha:
   an exit of PrimalSearch at alpha > 0 with |slope| < gtol has cost(alpha) - cost(0) < alpha * gtol,
   and <= 0 when the slope there is <= 0 *)
Lemma linesearch_bound (phi : R -> R) (alpha slope : R) :
  convex1 phi -> phi 0 = 0 -> is_derive phi alpha slope -> phi alpha <= alpha * slope.
Proof.
  intros Hc H0 Hd. pose proof (tangent_of_convex phi alpha slope Hc Hd 0) as H. rewrite H0 in H. lra.
Qed.

(* ------------------------------------------------------------------ PGS projection kernels *)
Lemma mjMINVAL_R : mjMINVAL (T:=R) = / 1000000000000000.
Proof. unfold mjMINVAL; num_R; unfold Rdec. replace (10 ^ 15)%Z with 1000000000000000%Z by reflexivity. lra. Qed.
Lemma mjMINVAL_pos : 0 < mjMINVAL (T:=R).
Proof. rewrite mjMINVAL_R. lra. Qed.

Lemma mju_max_R (a b : R) : a <= mju_max a b /\ b <= mju_max a b.
Proof.
  unfold mju_max. num_R. destruct (Rleb b a) eqn:E.
  - apply Rleb_true in E. lra.
  - apply Rleb_false in E. lra.
Qed.

Fixpoint es (l : list (R * R)) : R :=
  match l with [] => 0 | p :: l' => fst p * fst p / (snd p * snd p) + es l' end.

Lemma es_fold (l : list (R * R)) : forall s : R,
  fold_left (fun (s : R) (p : R * R) => s + fst p * fst p / (snd p * snd p)) l s = s + es l.
Proof. induction l as [|p l IH]; intros s; simpl; [ring|]. rewrite IH. ring. Qed.

Lemma ell_s_R (fric mu : list R) : ell_s fric mu = es (combine fric mu).
Proof. unfold ell_s. num_R. rewrite es_fold. ring. Qed.

Lemma es_ssq : forall ft mu : list R, List.Forall (fun f => f <> 0) (firstn (length ft) mu) ->
  es (combine ft mu) = ssq (map2 Rdiv ft mu).
Proof.
  induction ft as [|x ft IH]; intros mu H; [reflexivity|].
  destruct mu as [|u mu]; [reflexivity|].
  simpl in H. inversion H as [|? ? Hu Hr]; subst. simpl. rewrite (IH mu Hr). field. assumption.
Qed.

Lemma es_scale (c : R) : forall ft mu : list R,
  es (combine (map (fun x => x * c) ft) mu) = c * c * es (combine ft mu).
Proof.
  induction ft as [|x ft IH]; intros mu; [simpl; ring|].
  destruct mu as [|u mu]; [simpl; ring|]. simpl. rewrite IH. unfold Rdiv. ring.
Qed.

Lemma es_zeros : forall ft mu : list R, es (combine (map (fun _ => 0) ft) mu) = 0.
Proof.
  induction ft as [|x ft IH]; intros mu; [reflexivity|].
  destruct mu as [|u mu]; [reflexivity|]. simpl. rewrite IH. unfold Rdiv. ring.
Qed.

Lemma es_nonneg (ft mu : list R) : List.Forall (fun f => f <> 0) (firstn (length ft) mu) -> 0 <= es (combine ft mu).
Proof. intros H. rewrite es_ssq by assumption. apply ssq_nonneg. Qed.

Lemma map_mul_one (l : list R) : map (fun x => x * 1) l = l.
Proof. induction l as [|a l IH]; simpl; [reflexivity|]. rewrite IH. f_equal. ring. Qed.

(* projectEllipsoid with feasible = 1 *)
Lemma project_ellipsoid_spec (ft : list R) (f0 : R) (mu : list R) :
  List.Forall (fun f => f <> 0) (firstn (length ft) mu) ->
  let p := project_ellipsoid ft f0 mu true in
  length p = length ft /\
  es (combine p mu) <= f0 * f0 /\
  (es (combine ft mu) <= f0 * f0 -> p = ft) /\
  exists c : R, 0 <= c <= 1 /\ p = map (fun x => x * c) ft.
Proof.
  intros Hnz. unfold project_ellipsoid. rewrite ell_s_R. num_R. simpl negb. simpl orb.
  pose proof (es_nonneg ft mu Hnz) as Hs0.
  destruct (Rltb (f0 * f0) (es (combine ft mu))) eqn:E.
  - apply Rltb_true in E.
    set (s := es (combine ft mu)) in *.
    destruct (mju_max_R mjMINVAL s) as [Hm1 Hm2]. pose proof mjMINVAL_pos as Hmp.
    set (mx := mju_max mjMINVAL s) in *.
    assert (Hq0 : 0 <= f0 * f0 / mx) by (apply Rmult_le_pos; [nra|left; apply Rinv_0_lt_compat; lra]).
    assert (Hq1 : f0 * f0 / mx <= 1).
    { apply (Rmult_le_reg_r mx); [lra|]. unfold Rdiv. rewrite Rmult_assoc, Rinv_l by lra. lra. }
    set (scl := sqrt (f0 * f0 / mx)).
    assert (Hsq : scl * scl = f0 * f0 / mx) by (unfold scl; apply sqrt_sqrt; assumption).
    assert (Hc0 : 0 <= scl) by (unfold scl; apply sqrt_pos).
    assert (Hc1 : scl <= 1) by (unfold scl; rewrite <- sqrt_1; apply sqrt_le_1_alt; assumption).
    repeat split.
    + apply map_length.
    + rewrite es_scale. fold s. rewrite Hsq.
      assert (s / mx <= 1).
      { apply (Rmult_le_reg_r mx); [lra|]. unfold Rdiv. rewrite Rmult_assoc, Rinv_l by lra. lra. }
      assert (0 <= s / mx) by (apply Rmult_le_pos; [lra|left; apply Rinv_0_lt_compat; lra]).
      replace (f0 * f0 / mx * s) with (f0 * f0 * (s / mx)) by (unfold Rdiv; ring). nra.
    + intros Hle. lra.
    + exists scl. split; [lra|reflexivity].
  - apply Rltb_false in E. repeat split; try assumption; try reflexivity.
    exists 1. split; [lra|]. symmetry. apply map_mul_one.
Qed.

Lemma project_ellipsoid_fix (ft : list R) (f0 : R) (mu : list R) :
  es (combine ft mu) <= f0 * f0 -> project_ellipsoid ft f0 mu true = ft.
Proof.
  intros H. unfold project_ellipsoid. rewrite ell_s_R. num_R. simpl negb. simpl orb.
  destruct (Rltb (f0 * f0) (es (combine ft mu))) eqn:E; [apply Rltb_true in E; lra|reflexivity].
Qed.

(* projectCone on an elliptic contact *)
Lemma project_cone_elliptic (f0 : R) (ft mu : list R) :
  List.Forall (fun f => f <> 0) (firstn (length ft) mu) ->
  let p := project_cone (f0 :: ft) mu true in
  length p = S (length ft) /\
  ell_admissible mu p /\
  project_cone p mu true = p /\
  (ell_admissible mu (f0 :: ft) -> p = f0 :: ft) /\
  (0 <= f0 -> exists c : R, 0 <= c <= 1 /\ p = f0 :: map (fun x => x * c) ft).
Proof.
  intros Hnz. unfold project_cone. num_R.
  destruct (Rltb f0 0) eqn:E0.
  - apply Rltb_true in E0. simpl map.
    assert (Hz : List.Forall (fun f => f <> 0) (firstn (length (map (fun _ : R => 0) ft)) mu)) by (rewrite map_length; assumption).
    repeat split.
    + simpl. rewrite map_length. reflexivity.
    + simpl. lra.
    + simpl. rewrite <- es_ssq by assumption. rewrite es_zeros. lra.
    + destruct (Rltb 0 0) eqn:E1; [apply Rltb_true in E1; lra|].
      rewrite project_ellipsoid_fix; [reflexivity|]. rewrite es_zeros. lra.
    + intros [H _]. lra.
    + intros H. lra.
  - apply Rltb_false in E0.
    destruct (project_ellipsoid_spec ft f0 mu Hnz) as (Hl & Hle & Hid & c & Hc & Hmap).
    set (p := project_ellipsoid ft f0 mu true) in *.
    assert (Hp : List.Forall (fun f => f <> 0) (firstn (length p) mu)) by (rewrite Hl; assumption).
    repeat split.
    + simpl. rewrite Hl. reflexivity.
    + simpl. assumption.
    + simpl. rewrite <- es_ssq by assumption. assumption.
    + destruct (Rltb f0 0) eqn:E1; [apply Rltb_true in E1; lra|].
      rewrite project_ellipsoid_fix by assumption. reflexivity.
    + intros [_ H]. simpl in H. rewrite <- es_ssq in H by assumption. rewrite (Hid H). reflexivity.
    + intros _. exists c. split; [assumption|]. rewrite Hmap. reflexivity.
Qed.

(* projectCone on every other row type: only force[0] is clamped *)
Lemma project_cone_scalar (f0 : R) (ft mu : list R) :
  let p := project_cone (f0 :: ft) mu false in
  p = Rmax 0 f0 :: ft /\ 0 <= nth 0 p 0 /\ project_cone p mu false = p /\ (0 <= f0 -> p = f0 :: ft).
Proof.
  unfold project_cone. num_R.
  destruct (Rltb f0 0) eqn:E0.
  - apply Rltb_true in E0. rewrite Rmax_left by lra.
    split; [reflexivity|]. split; [simpl; lra|]. split.
    + destruct (Rltb 0 0) eqn:E1; [apply Rltb_true in E1; lra|reflexivity].
    + intros; lra.
  - pose proof E0 as B0. apply Rltb_false in E0. rewrite Rmax_right by lra.
    split; [reflexivity|]. split; [simpl; lra|]. split.
    + rewrite B0. reflexivity.
    + intros; reflexivity.
Qed.

(* friction-loss rows: the box clip and the clamp of the sweep are the projection onto [-floss, floss] *)
Lemma clip_friction (f floss : R) : 0 <= floss ->
  mju_clip f (- floss) floss = pgs_clamp_friction f floss /\
  Rabs (mju_clip f (- floss) floss) <= floss /\
  mju_clip (mju_clip f (- floss) floss) (- floss) floss = mju_clip f (- floss) floss /\
  (Rabs f <= floss -> mju_clip f (- floss) floss = f).
Proof.
  intros Hf. unfold mju_clip, pgs_clamp_friction. num_R.
  destruct (Rltb f (- floss)) eqn:E1.
  - apply Rltb_true in E1. repeat split.
    + rewrite Rabs_Ropp, Rabs_pos_eq; lra.
    + destruct (Rltb (- floss) (- floss)) eqn:E2; [apply Rltb_true in E2; lra|].
      destruct (Rltb floss (- floss)) eqn:E3; [apply Rltb_true in E3; lra|reflexivity].
    + intros H. apply Rabs_le_between in H. lra.
  - pose proof E1 as B1. apply Rltb_false in E1. destruct (Rltb floss f) eqn:E2.
    + apply Rltb_true in E2. repeat split.
      * rewrite Rabs_pos_eq; lra.
      * destruct (Rltb floss (- floss)) eqn:E3; [apply Rltb_true in E3; lra|].
        destruct (Rltb floss floss) eqn:E4; [apply Rltb_true in E4; lra|reflexivity].
      * intros H. apply Rabs_le_between in H. lra.
    + pose proof E2 as B2. apply Rltb_false in E2. repeat split.
      * apply Rabs_le_between. lra.
      * rewrite B1, B2. reflexivity.
Qed.

Lemma clamp_unilateral (f : R) :
  pgs_clamp_unilateral f = Rmax 0 f /\ 0 <= pgs_clamp_unilateral f /\
  pgs_clamp_unilateral (pgs_clamp_unilateral f) = pgs_clamp_unilateral f.
Proof.
  unfold pgs_clamp_unilateral. num_R. destruct (Rltb f 0) eqn:E.
  - apply Rltb_true in E. rewrite Rmax_left by lra. repeat split; try lra.
    destruct (Rltb 0 0) eqn:E1; [apply Rltb_true in E1; lra|reflexivity].
  - pose proof E as B. apply Rltb_false in E. rewrite Rmax_right by lra. repeat split; try lra. rewrite B. reflexivity.
Qed.
