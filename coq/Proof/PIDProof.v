(* Lemmas about Model/PID.v at the reals (C51). *)
From Coq Require Import ZArith List Bool PrimFloat Reals Lra Lia.
From MJV Require Import Lib.Num Lib.NumR Model.PID.
Import ListNotations.
Open Scope R_scope.

(* ------------------------------------------------------------------ clip *)
Lemma clip_cases (x lo hi : R) :
  (x < lo /\ mju_clip x lo hi = lo) \/ (lo <= x /\ hi < x /\ mju_clip x lo hi = hi) \/
  (lo <= x /\ x <= hi /\ mju_clip x lo hi = x).
Proof.
  unfold mju_clip; num_R.
  destruct (Rltb x lo) eqn:E1.
  - apply Rltb_true in E1. left; split; auto.
  - apply Rltb_false in E1. destruct (Rltb hi x) eqn:E2.
    + apply Rltb_true in E2. right; left; auto.
    + apply Rltb_false in E2. right; right; auto.
Qed.

Lemma clip_in_range (x lo hi : R) : lo <= hi -> lo <= mju_clip x lo hi <= hi.
Proof. intros L. destruct (clip_cases x lo hi) as [[A B]|[[A [B C]]|[A [B C]]]]; rewrite ?B, ?C; lra. Qed.

Lemma clip_id (x lo hi : R) : lo <= x <= hi -> mju_clip x lo hi = x.
Proof. intros L. destruct (clip_cases x lo hi) as [[A B]|[[A [B C]]|[A [B C]]]]; try lra; auto. Qed.

Lemma clip_abs (x m : R) : 0 <= m -> Rabs (mju_clip x (- m) m) <= m.
Proof. intros L. apply Rabs_le. apply clip_in_range. lra. Qed.

Lemma clip_around (x p r : R) : 0 <= r -> Rabs (mju_clip x (p - r) (p + r) - p) <= r.
Proof.
  intros L. assert (Hc := clip_in_range x (p - r) (p + r)). apply Rabs_le. lra.
Qed.

(* ------------------------------------------------------------------ arrays *)
Lemma upd_nat_length (a : list R) (n : nat) (v : R) : length (upd_nat a n v) = length a.
Proof. revert n; induction a as [|x a IH]; intros [|n]; simpl; auto. Qed.

Lemma upd_length (a : list R) (i : Z) (v : R) : length (upd a i v) = length a.
Proof. unfold upd. destruct (i <? 0)%Z; auto using upd_nat_length. Qed.

Lemma nth_upd_nat_other (a : list R) (n k : nat) (v : R) : n <> k -> nth k (upd_nat a n v) 0 = nth k a 0.
Proof.
  revert n k; induction a as [|x a IH]; intros [|n] [|k] Hne; simpl; auto; try congruence.
Qed.

Lemma rd_upd_other (a : list R) (i j : Z) (v : R) : i <> j -> rd (upd a i v) j = rd a j.
Proof.
  intros Hne. unfold rd, upd. num_R.
  destruct (j <? 0)%Z eqn:Ej; auto.
  destruct (i <? 0)%Z eqn:Ei; auto.
  apply nth_upd_nat_other. apply Z.ltb_ge in Ej. apply Z.ltb_ge in Ei. intro E. apply Hne.
  apply Z2Nat.inj; auto.
Qed.

Lemma apply_writes_other (ws : list (Z * R)) (a : list R) (j : Z) :
  (forall w : Z * R, In w ws -> fst w <> j) -> rd (apply_writes a ws) j = rd a j.
Proof.
  revert a; induction ws as [|w ws IH]; intros a Hw; simpl; auto.
  unfold apply_writes in *. simpl. rewrite IH.
  - apply rd_upd_other. apply Hw. left; auto.
  - intros w' Hin. apply Hw. right; auto.
Qed.

Lemma apply_writes_length (ws : list (Z * R)) (a : list R) : length (apply_writes a ws) = length a.
Proof.
  revert a; induction ws as [|w ws IH]; intros a; simpl; auto.
  unfold apply_writes in *. simpl. rewrite IH. apply upd_length.
Qed.

(* ------------------------------------------------------------------ the force law *)
Lemma pid_force_law (c : @PidCfg R) (a : @ActPrm R) (h : R) (tp : bool) (ctrl len vel act ad : list R) :
  let u := get_ctrl c a h ctrl act ad (get_state c a tp act) (actearly a) in
  let e := u - rd len (aid a) in
  let edot := (if (dyntype a =? 0)%Z then 0 else rd ad (last_adr a)) - rd vel (aid a) in
  let I := if has_i c then integral_update c h (if has_i c then rd act (actadr a) else 0) e else 0 in
  pid_force c a h tp ctrl len vel act ad = kp c * e + ki c * I + kd c * edot.
Proof.
  intros u e edot I. unfold pid_force, pid_integral, pid_error, pid_error_dot. fold u.
  unfold get_state at 1. cbn [integral]. num_R. fold e. fold edot. subst I. num_R. ring.
Qed.

(* ------------------------------------------------------------------ integral clipped *)
Lemma accepted_imax (c : @PidCfg R) (m : R) : cfg_accepted c = true -> imax c = Some m -> 0 <= m.
Proof.
  unfold cfg_accepted. intros Ha Hm. rewrite Hm in Ha. num_R.
  apply andb_true_iff in Ha. destruct Ha as [Ha _]. apply negb_true_iff in Ha. apply Rltb_false in Ha. exact Ha.
Qed.

Lemma accepted_slew (c : @PidCfg R) (s : R) : cfg_accepted c = true -> slew c = Some s -> 0 <= s.
Proof.
  unfold cfg_accepted. intros Ha Hs. rewrite Hs in Ha. num_R.
  apply andb_true_iff in Ha. destruct Ha as [_ Ha]. apply negb_true_iff in Ha. apply Rltb_false in Ha. exact Ha.
Qed.

Lemma integral_update_abs (c : @PidCfg R) (h i e m : R) : imax c = Some m -> 0 <= m -> Rabs (integral_update c h i e) <= m.
Proof. intros Hm L. unfold integral_update. rewrite Hm. apply clip_abs; auto. Qed.

Lemma pid_integral_clipped (c : @PidCfg R) (a : @ActPrm R) (h : R) (tp : bool) (ctrl len act ad : list R) (m : R) :
  cfg_accepted c = true -> imax c = Some m ->
  Rabs (pid_integral c a h tp ctrl len act ad) <= m.
Proof.
  intros Ha Hm. assert (L := accepted_imax c m Ha Hm). unfold pid_integral.
  destruct (has_i c).
  - apply integral_update_abs; auto.
  - num_R. rewrite Rabs_R0. exact L.
Qed.

Lemma truthy_R (x : R) : truthy x = true <-> x <> 0.
Proof.
  unfold truthy. num_R. rewrite negb_true_iff. apply Reqb_false.
Qed.
Lemma truthy_R_false (x : R) : truthy x = false <-> x = 0.
Proof.
  unfold truthy. num_R. rewrite negb_false_iff. apply Reqb_true.
Qed.

Lemma pid_iterm_force_clipped (akp aki akd aslew : option R) (f : R) (a : @ActPrm R) (h : R) (tp : bool)
      (ctrl len act ad : list R) :
  let c := cfg_of_attrs akp aki akd (Some f) aslew in
  cfg_accepted c = true ->
  Rabs (ki c * pid_integral c a h tp ctrl len act ad) <= Rabs f.
Proof.
  intros c Ha.
  destruct (truthy (oget aki)) eqn:Et.
  - assert (Hm : imax c = Some (f / oget aki)) by (unfold c, cfg_of_attrs; cbn [imax]; rewrite Et; reflexivity).
    assert (Hk : ki c = oget aki) by reflexivity.
    apply truthy_R in Et.
    assert (L := accepted_imax c _ Ha Hm).
    assert (B := pid_integral_clipped c a h tp ctrl len act ad _ Ha Hm).
    rewrite Rabs_mult, Hk.
    replace (Rabs f) with (Rabs (oget aki) * (f / oget aki)).
    + apply Rmult_le_compat_l; auto using Rabs_pos.
    + rewrite <- (Rabs_pos_eq (f / oget aki)) by exact L. rewrite <- Rabs_mult. f_equal. field. exact Et.
  - unfold pid_integral. unfold has_i. replace (ki c) with (oget aki) by reflexivity. rewrite Et. num_R.
    rewrite Rmult_0_r, Rabs_R0. apply Rabs_pos.
Qed.

(* ------------------------------------------------------------------ slew *)
Lemma get_ctrl_slew (c : @PidCfg R) (a : @ActPrm R) (h : R) (ctrl act ad : list R) (st : @PState R) (early : bool) (s : R) :
  slew c = Some s -> 0 <= s -> 0 <= h -> previous_ctrl_exists st = true ->
  Rabs (get_ctrl c a h ctrl act ad st early - previous_ctrl st) <= s * h.
Proof.
  intros Hs Ls Lh Hex. unfold get_ctrl. rewrite Hs, Hex. num_R. apply clip_around. nra.
Qed.

(* ------------------------------------------------------------------ histories (Euler-integrated plugin state) *)
Lemma loop_step_int (c : @PidCfg R) (clim : bool) (lo hi h : R) (tp : bool) (s : @Loop R) (u len : R) :
  h <> 0 -> has_i c = true ->
  l_int (loop_step c clim lo hi h tp s (u, len)) =
  integral_update c h (l_int s) (loop_ctrl c clim lo hi h tp s u - len).
Proof.
  intros Hh Hi. unfold loop_step. cbn [l_int]. rewrite Hi. num_R. field. exact Hh.
Qed.

Lemma loop_step_prev (c : @PidCfg R) (clim : bool) (lo hi h : R) (tp : bool) (s : @Loop R) (i : R * R) :
  h <> 0 -> has_slew c = true ->
  l_prev (loop_step c clim lo hi h tp s i) = loop_ctrl c clim lo hi h tp s (fst i).
Proof.
  intros Hh Hs. destruct i as [u len]. unfold loop_step. cbn [l_prev fst]. rewrite Hs. num_R. field. exact Hh.
Qed.

Lemma loop_integral_history (c : @PidCfg R) (clim : bool) (lo hi h m : R) (ins : list (R * R)) :
  h <> 0 -> has_i c = true -> imax c = Some m -> 0 <= m ->
  forall (tp : bool) (s : @Loop R) (s' : @Loop R),
    In s' (loop_run c clim lo hi h tp s ins) -> Rabs (l_int s') <= m.
Proof.
  intros Hh Hi Hm Lm. induction ins as [|[u len] r IH]; intros tp s s' Hin; cbn [loop_run In] in Hin.
  - contradiction.
  - destruct Hin as [E|Hin].
    + subst s'. rewrite loop_step_int by auto. apply integral_update_abs; auto.
    + eapply IH; eauto.
Qed.

Lemma loop_ctrls_length (c : @PidCfg R) (clim : bool) (lo hi h : R) (ins : list (R * R)) :
  forall (tp : bool) (s : @Loop R), length (loop_ctrls c clim lo hi h tp s ins) = length ins.
Proof. induction ins as [|i r IH]; intros tp s; simpl; auto. Qed.

Lemma loop_slew_history (c : @PidCfg R) (clim : bool) (lo hi h sl : R) :
  h <> 0 -> 0 <= h -> slew c = Some sl -> 0 <= sl ->
  forall (ins : list (R * R)) (tp : bool) (s : @Loop R) (k : nat),
    (S k < length ins)%nat ->
    Rabs (nth (S k) (loop_ctrls c clim lo hi h tp s ins) 0 - nth k (loop_ctrls c clim lo hi h tp s ins) 0) <= sl * h.
Proof.
  intros Hh Lh Hs Ls.
  assert (Hhs : has_slew c = true) by (unfold has_slew; rewrite Hs; reflexivity).
  induction ins as [|i r IH]; intros tp s k Hk; simpl in Hk; [lia|].
  destruct r as [|i2 r2]; simpl in Hk; [lia|].
  destruct k as [|k].
  - cbn [loop_ctrls nth].
    set (s1 := loop_step c clim lo hi h tp s i).
    assert (Hp : l_prev s1 = loop_ctrl c clim lo hi h tp s (fst i)) by (apply loop_step_prev; auto).
    rewrite <- Hp. unfold loop_ctrl at 1. rewrite Hs. apply clip_around. nra.
  - change (loop_ctrls c clim lo hi h tp s (i :: i2 :: r2))
      with (loop_ctrl c clim lo hi h tp s (fst i) :: loop_ctrls c clim lo hi h true (loop_step c clim lo hi h tp s i) (i2 :: r2)).
    cbn [nth]. apply IH. simpl. lia.
Qed.

(* ------------------------------------------------------------------ index arithmetic *)
Lemma b2z_range (b : bool) : (0 <= b2z b <= 1)%Z.
Proof. destruct b; simpl; lia. Qed.

Lemma writes_indices (c : @PidCfg R) (a : @ActPrm R) (h : R) (tp : bool) (ctrl len act ad : list R) :
  map fst (pid_actdot_writes c a h tp ctrl len act ad) =
  (if has_i c then [actadr a] else []) ++ (if has_slew c then [slew_adr c a] else []).
Proof. unfold pid_actdot_writes. rewrite map_app. destruct (has_i c), (has_slew c); reflexivity. Qed.

Lemma pid_writes_in_slice (c : @PidCfg R) (a : @ActPrm R) (h : R) (tp : bool) (ctrl len act ad : list R) (w : Z * R) :
  act_valid c a = true -> In w (pid_actdot_writes c a h tp ctrl len act ad) ->
  (actadr a <= fst w < actadr a + act_dim c)%Z /\ (actadr a <= fst w < actadr a + actnum a)%Z /\
  (native_dyn (dyntype a) = true -> fst w <> last_adr a).
Proof.
  intros Hv Hin. apply (in_map fst) in Hin. rewrite writes_indices in Hin.
  unfold act_valid, expected_actnum in Hv. apply Z.eqb_eq in Hv.
  assert (Hn := b2z_range (native_dyn (dyntype a))).
  unfold act_dim, slew_adr, last_adr in *.
  destruct (has_i c), (has_slew c); simpl in Hin; cbn [b2z] in *;
    repeat match goal with H : _ \/ _ |- _ => destruct H | H : False |- _ => contradiction end;
    subst; (split; [lia|split; [lia|intros Hnat; rewrite Hnat in *; cbn [b2z] in *; lia]]).
Qed.

Lemma pid_reads_in_slice (c : @PidCfg R) (a : @ActPrm R) (i : Z) :
  act_valid c a = true -> (dyntype a = 0 \/ native_dyn (dyntype a) = true \/ 1 <= actnum a)%Z ->
  In i (pid_reads c a) -> (actadr a <= i < actadr a + actnum a)%Z.
Proof.
  intros Hv Hd Hin.
  unfold act_valid, expected_actnum in Hv. apply Z.eqb_eq in Hv.
  assert (Hn := b2z_range (native_dyn (dyntype a))).
  unfold pid_reads, act_dim, slew_adr, last_adr in *.
  assert (Hnat0 : dyntype a = 0%Z -> native_dyn (dyntype a) = false) by (intros E; rewrite E; reflexivity).
  destruct (dyntype a =? 0)%Z eqn:E0.
  - apply Z.eqb_eq in E0.
    destruct (has_i c), (has_slew c); simpl in Hin; cbn [b2z] in *;
      repeat match goal with H : _ \/ _ |- _ => destruct H | H : False |- _ => contradiction end; subst; lia.
  - apply Z.eqb_neq in E0.
    assert (1 <= actnum a)%Z.
    { destruct Hd as [Hd|[Hd|Hd]]; [congruence| |lia]. rewrite Hd in Hv. cbn [b2z] in Hv.
      assert (A := b2z_range (has_i c)). assert (B := b2z_range (has_slew c)). lia. }
    destruct (has_i c), (has_slew c); simpl in Hin; cbn [b2z] in *;
      repeat match goal with H : _ \/ _ |- _ => destruct H | H : False |- _ => contradiction end; subst; lia.
Qed.

Lemma inst_actdot_frame (c : @PidCfg R) (acts : list (@ActPrm R)) (h : R) (tp : bool) (ctrl len act : list R) (j : Z) :
  (forall a : @ActPrm R, In a acts -> act_valid c a = true) ->
  (forall a : @ActPrm R, In a acts -> ~ (actadr a <= j < actadr a + actnum a)%Z) ->
  forall ad : list R,
    rd (inst_actdot c acts h tp ctrl len act ad) j = rd ad j /\
    length (inst_actdot c acts h tp ctrl len act ad) = length ad.
Proof.
  intros Hv Hout. induction acts as [|a r IH]; intros ad.
  - split; reflexivity.
  - unfold inst_actdot in *. simpl.
    destruct (IH (fun x Hx => Hv x (or_intror Hx)) (fun x Hx => Hout x (or_intror Hx))
                 (apply_writes ad (pid_actdot_writes c a h tp ctrl len act ad))) as [E1 E2].
    rewrite E1, E2. split.
    + apply apply_writes_other. intros w Hw Ej.
      destruct (pid_writes_in_slice c a h tp ctrl len act ad w (Hv a (or_introl eq_refl)) Hw) as [_ [Hs _]].
      apply (Hout a (or_introl eq_refl)). rewrite <- Ej. exact Hs.
    + apply apply_writes_length.
Qed.

(* the native activation slot of a validated actuator keeps the engine's act_dot *)
Lemma inst_actdot_native_slot (c : @PidCfg R) (a : @ActPrm R) (h : R) (tp : bool) (ctrl len act ad : list R) :
  act_valid c a = true -> native_dyn (dyntype a) = true ->
  rd (inst_actdot c [a] h tp ctrl len act ad) (last_adr a) = rd ad (last_adr a).
Proof.
  intros Hv Hn. unfold inst_actdot. simpl. apply apply_writes_other. intros w Hw.
  destruct (pid_writes_in_slice c a h tp ctrl len act ad w Hv Hw) as [_ [_ Hl]]. auto.
Qed.

Lemma inst_compute_frame (c : @PidCfg R) (acts : list (@ActPrm R)) (h : R) (tp : bool) (ctrl len vel act ad : list R) (j : Z) :
  (forall a : @ActPrm R, In a acts -> aid a <> j) ->
  forall force : list R,
    rd (inst_compute c acts h tp ctrl len vel act ad force) j = rd force j /\
    length (inst_compute c acts h tp ctrl len vel act ad force) = length force.
Proof.
  intros Hout. induction acts as [|a r IH]; intros force.
  - split; reflexivity.
  - destruct (IH (fun x Hx => Hout x (or_intror Hx)) (upd force (aid a) (pid_force c a h tp ctrl len vel act ad))) as [E1 E2].
    change (inst_compute c (a :: r) h tp ctrl len vel act ad force)
      with (inst_compute c r h tp ctrl len vel act ad (upd force (aid a) (pid_force c a h tp ctrl len vel act ad))).
    rewrite E1, E2. split.
    + apply rd_upd_other. apply Hout. left; reflexivity.
    + apply upd_length.
Qed.

(* a configuration accepted by Create in which GetCtrl reads below the slice: dyntype muscle (4),
   no integral, no slew, actnum 0 *)
Lemma pid_reads_outside_example :
  let c := @mkCfg R 1 0 0 None None in
  let a := @mkAct R 0 4 false 0 0 false 0 0 false 1 5 0 in
  act_valid c a = true /\ In (actadr a - 1)%Z (pid_reads c a).
Proof.
  intros c a. unfold act_valid, expected_actnum, act_dim, pid_reads, has_i, has_slew, last_adr, c, a.
  cbn [ki slew dyntype actnum actadr native_dyn].
  assert (E : truthy (0:R) = false) by (apply truthy_R_false; reflexivity).
  rewrite E. cbn. split; auto.
Qed.

(* ------------------------------------------------------------------ what ActDot requests and what the engine stores *)
Lemma nth_upd_nat_same (a : list R) (n : nat) (v : R) : (n < length a)%nat -> nth n (upd_nat a n v) 0 = v.
Proof. revert n; induction a as [|x a IH]; intros [|n] Hn; simpl in *; try lia; auto. apply IH. lia. Qed.

Lemma rd_upd_same (a : list R) (i : Z) (v : R) : (0 <= i < Z.of_nat (length a))%Z -> rd (upd a i v) i = v.
Proof.
  intros Hi. unfold rd, upd. num_R.
  assert (E : (i <? 0)%Z = false) by (apply Z.ltb_ge; lia). rewrite E.
  apply nth_upd_nat_same. lia.
Qed.

Lemma advance_slots_length (a : @ActPrm R) (h : R) (act dot : list R) (n : nat) :
  forall (acc : list R) (j : Z), length (advance_slots a h act dot acc j n) = length acc.
Proof. induction n as [|n IH]; intros acc j; simpl; auto. rewrite IH. apply upd_length. Qed.

Lemma advance_slots_below (a : @ActPrm R) (h : R) (act dot : list R) (n : nat) :
  forall (acc : list R) (j i : Z), (i < j)%Z -> rd (advance_slots a h act dot acc j n) i = rd acc i.
Proof.
  induction n as [|n IH]; intros acc j i Hi; simpl; auto.
  rewrite IH by lia. apply rd_upd_other. lia.
Qed.

Lemma advance_slots_rd (a : @ActPrm R) (h : R) (act dot : list R) (n : nat) :
  forall (acc : list R) (j i : Z),
    (0 <= j)%Z -> (j <= i < j + Z.of_nat n)%Z -> (i < Z.of_nat (length acc))%Z ->
    rd (advance_slots a h act dot acc j n) i = next_activation a h (rd act i) (rd dot i).
Proof.
  induction n as [|n IH]; intros acc j i Hj Hi Hl; [lia|].
  cbn [advance_slots].
  destruct (Z.eq_dec i j) as [E|E].
  - subst i. rewrite advance_slots_below by lia. apply rd_upd_same. lia.
  - apply IH; try lia. rewrite upd_length. exact Hl.
Qed.

(* Euler integration without actrange clamp *)
Lemma next_activation_euler (a : @ActPrm R) (h v dv : R) :
  dyntype a <> 3%Z -> actlimited a = false -> next_activation a h v dv = v + dv * h.
Proof.
  intros Hd Hl. unfold next_activation. rewrite Hl.
  destruct (dyntype a =? 3)%Z eqn:E; [apply Z.eqb_eq in E; contradiction|]. reflexivity.
Qed.

Lemma apply_writes_rd_first (ws : list (Z * R)) (a : list R) (i : Z) (v : R) :
  (0 <= i < Z.of_nat (length a))%Z -> (forall w : Z * R, In w ws -> fst w <> i) ->
  rd (apply_writes a ((i, v) :: ws)) i = v.
Proof.
  intros Hi Hw. unfold apply_writes. cbn [fold_left fst snd].
  change (rd (apply_writes (upd a i v) ws) i = v). rewrite apply_writes_other by exact Hw.
  apply rd_upd_same; auto.
Qed.

Lemma actdot_requests (c : @PidCfg R) (a : @ActPrm R) (h : R) (tp : bool) (ctrl len act ad : list R) :
  (0 <= actadr a)%Z -> (actadr a + actnum a <= Z.of_nat (length ad))%Z -> act_valid c a = true ->
  let out := inst_actdot c [a] h tp ctrl len act ad in
  (has_i c = true ->
     rd out (actadr a) = (requested_integral c a h tp ctrl len act ad - rd act (actadr a)) / h) /\
  (has_slew c = true ->
     rd out (slew_adr c a) = (requested_prev_ctrl c a h tp ctrl act ad - rd act (slew_adr c a)) / h).
Proof.
  intros H0 Hlen Hv out. subst out. unfold inst_actdot. cbn [fold_left].
  unfold act_valid, expected_actnum, act_dim in Hv. apply Z.eqb_eq in Hv.
  assert (Hn := b2z_range (native_dyn (dyntype a))).
  unfold pid_actdot_writes, requested_integral, requested_prev_ctrl, slew_adr. num_R.
  destruct (has_i c) eqn:Ei, (has_slew c) eqn:Es; cbn [b2z app] in *; split; intros Hx; try discriminate.
  - rewrite apply_writes_rd_first; [unfold get_state; rewrite Ei; cbn [integral]; reflexivity|lia|].
    intros w [Hw|[]]. subst w. cbn [fst]. lia.
  - unfold apply_writes. cbn [fold_left fst snd]. apply rd_upd_same. rewrite upd_length. lia.
  - rewrite apply_writes_rd_first; [unfold get_state; rewrite Ei; cbn [integral]; reflexivity|lia|].
    intros w [].
  - replace (actadr a + 0)%Z with (actadr a) by lia.
    rewrite apply_writes_rd_first; [reflexivity|lia|]. intros w [].
Qed.

(* with the engine's integration of the slice: under Euler integration without actrange clamp the
   stored plugin state is the requested one *)
Lemma stored_state_euler (c : @PidCfg R) (a : @ActPrm R) (h : R) (tp : bool) (ctrl len act ad : list R) :
  (0 <= actadr a)%Z -> (actadr a + actnum a <= Z.of_nat (length ad))%Z ->
  (actadr a + actnum a <= Z.of_nat (length act))%Z -> act_valid c a = true ->
  h <> 0 -> dyntype a <> 3%Z -> actlimited a = false ->
  let dot := inst_actdot c [a] h tp ctrl len act ad in
  let act' := inst_advance [a] h act dot act in
  (has_i c = true -> rd act' (actadr a) = requested_integral c a h tp ctrl len act ad) /\
  (has_slew c = true -> rd act' (slew_adr c a) = requested_prev_ctrl c a h tp ctrl act ad).
Proof.
  intros H0 Hlen Hlen2 Hv Hh Hd Hl dot act'.
  destruct (actdot_requests c a h tp ctrl len act ad H0 Hlen Hv) as [R1 R2]. fold dot in R1, R2.
  assert (Hv' := Hv). unfold act_valid, expected_actnum, act_dim in Hv'. apply Z.eqb_eq in Hv'.
  assert (Hn := b2z_range (native_dyn (dyntype a))).
  assert (Hi := b2z_range (has_i c)). assert (Hs := b2z_range (has_slew c)).
  subst act'. unfold inst_advance. cbn [fold_left]. split; intros Hx.
  - rewrite Hx in Hv'. cbn [b2z] in Hv'.
    rewrite advance_slots_rd by (rewrite ?Z2Nat.id; lia).
    rewrite next_activation_euler by auto. rewrite (R1 Hx). field. exact Hh.
  - unfold slew_adr in *. rewrite Hx in Hv'. cbn [b2z] in Hv'.
    rewrite advance_slots_rd by (rewrite ?Z2Nat.id; lia).
    rewrite next_activation_euler by auto. rewrite (R2 Hx). field. exact Hh.
Qed.
