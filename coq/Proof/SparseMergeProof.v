(* Proofs about mju_combineSparse (Model/Sparse.v) at R: the backward merge of two sorted sparse
   vectors is a*dst + b*src on the sorted union pattern. *)
From Coq Require Import ZArith List Bool Arith Lia PrimFloat Reals Lra Permutation Sorted.
From MJV Require Import Lib.Num Lib.NumR Model.Sparse Proof.LinAlgBase Proof.SparseProof.
Import ListNotations.
Open Scope R_scope.

Definition inc (l : list entR) : Prop := StronglySorted lt (cols l).
Definition dec (l : list entR) : Prop := StronglySorted gt (cols l).

(* ------------------------------------------------------------------ sortedness and rev *)
Lemma ss_snoc : forall (A : Type) (P : A -> A -> Prop) (l : list A) (x : A),
  StronglySorted P l -> Forall (fun y : A => P y x) l -> StronglySorted P (l ++ [x]).
Proof.
  intros A P l x; induction l as [|y r IH]; intros Hs Hf; simpl.
  - constructor; constructor.
  - inversion Hs as [|a l' Hs' Hall]; subst. inversion Hf as [|a l' Hyx Hf']; subst.
    constructor; auto. apply Forall_app; split; auto.
Qed.

Lemma ss_rev : forall (A : Type) (P : A -> A -> Prop) (l : list A),
  StronglySorted P l -> StronglySorted (fun a b : A => P b a) (rev l).
Proof.
  intros A P l; induction l as [|x r IH]; intros Hs; simpl; [constructor|].
  inversion Hs as [|a l' Hs' Hall]; subst.
  apply ss_snoc; auto. apply Forall_rev. exact Hall.
Qed.

Lemma cols_rev : forall l : list entR, cols (rev l) = rev (cols l).
Proof. intros l. unfold cols. apply map_rev. Qed.

Lemma inc_rev_dec : forall l : list entR, inc l -> dec (rev l).
Proof. intros l Hl. unfold dec. rewrite cols_rev. apply (ss_rev nat lt). exact Hl. Qed.

Lemma dec_rev_inc : forall l : list entR, dec l -> inc (rev l).
Proof. intros l Hl. unfold inc. rewrite cols_rev. apply (ss_rev nat gt). exact Hl. Qed.

Lemma dec_nodup : forall l : list entR, dec l -> NoDup (cols l).
Proof.
  intros l; unfold dec; generalize (cols l) as k; induction k as [|x r IH]; intros Hs; [constructor|].
  inversion Hs as [|a l' Hs' Hf]; subst.
  constructor; auto. intros Hin. rewrite Forall_forall in Hf. apply Hf in Hin. lia.
Qed.

Lemma inc_nodup : forall l : list entR, inc l -> NoDup (cols l).
Proof. intros l Hl. apply sorted_lt_nodup. exact Hl. Qed.

(* ------------------------------------------------------------------ unfolding merge_back *)
Definition sclb (k : R) (e : entR) : entR := (fst e, k * snd e).

Lemma merge_back_nil_l : forall (a b : R) (s : list entR), merge_back a b [] s = map (sclb b) s.
Proof. intros a b s; destruct s; reflexivity. Qed.

Lemma merge_back_nil_r : forall (a b : R) (d : list entR), merge_back a b d [] = map (sclb a) d.
Proof. intros a b d; destruct d as [|[di dv] d']; reflexivity. Qed.

Lemma merge_back_cons : forall (a b : R) (di si : nat) (dv sv : R) (d' s' : list entR),
  merge_back a b ((di, dv) :: d') ((si, sv) :: s') =
  if Nat.eqb di si then (di, a * dv + b * sv) :: merge_back a b d' s'
  else if Nat.ltb si di then (di, a * dv) :: merge_back a b d' ((si, sv) :: s')
  else (si, b * sv) :: merge_back a b ((di, dv) :: d') s'.
Proof. intros. reflexivity. Qed.

Lemma lk_sclb : forall (k : R) (c : nat) (l : list entR), lk c (map (sclb k) l) = k * lk c l.
Proof.
  intros k c l; induction l as [|[c' x] r IH]; simpl; [ring|].
  destruct (Nat.eqb c' c); auto.
Qed.

Lemma cols_sclb : forall (k : R) (l : list entR), cols (map (sclb k) l) = cols l.
Proof. intros k l. unfold cols. rewrite map_map. apply map_ext. intros [c x]; reflexivity. Qed.

Lemma dec_cons_inv : forall (i : nat) (v : R) (l : list entR),
  dec ((i, v) :: l) -> dec l /\ Forall (fun c : nat => (c < i)%nat) (cols l).
Proof.
  intros i v l Hd. unfold dec in *. simpl in Hd. inversion Hd as [|a l' Hs Hf]; subst. split; [exact Hs|].
  eapply Forall_impl; [|exact Hf]. intros c Hc. simpl in Hc. lia.
Qed.

Lemma dec_cons : forall (i : nat) (v : R) (l : list entR),
  dec l -> Forall (fun c : nat => (c < i)%nat) (cols l) -> dec ((i, v) :: l).
Proof.
  intros i v l Hd Hf. unfold dec in *. simpl. constructor; [exact Hd|].
  eapply Forall_impl; [|exact Hf]. intros c Hc. cbv beta in *. unfold gt. lia.
Qed.

(* ------------------------------------------------------------------ the merge *)
Lemma merge_back_spec : forall (a b : R) (d s : list entR), dec d -> dec s ->
  dec (merge_back a b d s) /\
  (forall c : nat, lk c (merge_back a b d s) = a * lk c d + b * lk c s) /\
  (forall c : nat, In c (cols (merge_back a b d s)) <-> In c (cols d) \/ In c (cols s)).
Proof.
  intros a b d; induction d as [|[di dv] d' IHd]; intros s Hd Hs.
  - rewrite merge_back_nil_l. split; [|split].
    + unfold dec. rewrite cols_sclb. exact Hs.
    + intros c. rewrite lk_sclb. simpl. ring.
    + intros c. rewrite cols_sclb. simpl. tauto.
  - induction s as [|[si sv] s' IHs].
    + rewrite merge_back_nil_r. split; [|split].
      * unfold dec. rewrite cols_sclb. exact Hd.
      * intros c. rewrite lk_sclb. simpl. ring.
      * intros c. rewrite cols_sclb. simpl. tauto.
    + rewrite merge_back_cons.
      destruct (dec_cons_inv di dv d' Hd) as [Hd' Hfd].
      destruct (dec_cons_inv si sv s' Hs) as [Hs' Hfs].
      rewrite Forall_forall in Hfd, Hfs.
      destruct (Nat.eqb_spec di si) as [Heq|Hne].
      * subst si. destruct (IHd s' Hd' Hs') as [Hdec [Hlk Hin]].
        split; [|split].
        -- apply dec_cons; auto. apply Forall_forall. intros c Hc. apply Hin in Hc.
           destruct Hc as [Hc|Hc]; auto.
        -- intros c. simpl. destruct (Nat.eqb di c); [ring|apply Hlk].
        -- intros c. simpl. rewrite Hin. tauto.
      * destruct (Nat.ltb_spec si di) as [Hlt|Hge].
        -- destruct (IHd ((si, sv) :: s') Hd' Hs) as [Hdec [Hlk Hin]].
           split; [|split].
           ++ apply dec_cons; auto. apply Forall_forall. intros c Hc. apply Hin in Hc.
              destruct Hc as [Hc|Hc]; auto. simpl in Hc. destruct Hc as [<-|Hc]; auto.
              apply Hfs in Hc. lia.
           ++ intros c. cbn [lk]. destruct (Nat.eqb_spec di c) as [->|Hn].
              ** assert (Hz : lk c ((si, sv) :: s') = 0).
                 { apply lk_notin. simpl. intros [Hc|Hc]; [lia|]. apply Hfs in Hc. lia. }
                 cbn [lk] in Hz. rewrite Hz. ring.
              ** rewrite Hlk. cbn [lk]. reflexivity.
           ++ intros c. cbn [cols map fst In]. rewrite Hin. simpl. tauto.
        -- destruct (IHs Hs') as [Hdec [Hlk Hin]].
           split; [|split].
           ++ apply dec_cons; auto. apply Forall_forall. intros c Hc. apply Hin in Hc.
              destruct Hc as [Hc|Hc]; auto. simpl in Hc. destruct Hc as [<-|Hc]; [lia|].
              apply Hfd in Hc. lia.
           ++ intros c. cbn [lk]. destruct (Nat.eqb_spec si c) as [->|Hn].
              ** assert (Hz : lk c ((di, dv) :: d') = 0).
                 { apply lk_notin. simpl. intros [Hc|Hc]; [lia|]. apply Hfd in Hc. lia. }
                 cbn [lk] in Hz. rewrite Hz. ring.
              ** rewrite Hlk. cbn [lk]. reflexivity.
           ++ intros c. cbn [cols map fst In]. rewrite Hin. simpl. tauto.
Qed.

(* ------------------------------------------------------------------ mju_combineSparse *)
Lemma in_cols_rev : forall (c : nat) (l : list entR), In c (cols (rev l)) <-> In c (cols l).
Proof. intros c l. rewrite cols_rev. symmetry. apply in_rev. Qed.

Lemma combineSparse_spec : forall (a b : R) (dst src : list entR), inc dst -> inc src ->
  inc (combineSparse a b dst src) /\
  (forall c : nat, lk c (combineSparse a b dst src) = a * lk c dst + b * lk c src) /\
  (forall c : nat, In c (cols (combineSparse a b dst src)) <-> In c (cols dst) \/ In c (cols src)).
Proof.
  intros a b dst src Hd Hs. unfold combineSparse.
  destruct (merge_back_spec a b (rev dst) (rev src) (inc_rev_dec dst Hd) (inc_rev_dec src Hs)) as [Hdec [Hlk Hin]].
  split; [apply dec_rev_inc; auto|]. split.
  - intros c. rewrite lk_rev by (apply dec_nodup; auto). rewrite Hlk.
    rewrite (lk_rev c dst) by (apply inc_nodup; auto). rewrite (lk_rev c src) by (apply inc_nodup; auto). reflexivity.
  - intros c. rewrite in_cols_rev, Hin, !in_cols_rev. tauto.
Qed.

(* dense form: the dense vector of the result is a*dense(dst) + b*dense(src) *)
Lemma nth_vadd_vscl : forall (a b : R) (x y : list R) (c : nat), length x = length y ->
  nth c (vadd (vscl a x) (vscl b y)) 0 = a * nth c x 0 + b * nth c y 0.
Proof.
  intros a b x; induction x as [|u x IH]; intros y c Hl; destruct y as [|w y]; simpl in Hl; try discriminate.
  - simpl. destruct c; ring.
  - unfold vadd, vscl in *. num_R. simpl. destruct c as [|c]; [reflexivity|]. apply IH. lia.
Qed.

Lemma combineSparse_dense : forall (nc : nat) (a b : R) (dst src : list entR),
  inc dst -> inc src ->
  Forall (fun c : nat => (c < nc)%nat) (cols dst) -> Forall (fun c : nat => (c < nc)%nat) (cols src) ->
  s2d_row nc (combineSparse a b dst src) = vadd (vscl a (s2d_row nc dst)) (vscl b (s2d_row nc src)) /\
  wf_row nc (combineSparse a b dst src).
Proof.
  intros nc a b dst src Hd Hs Hrd Hrs.
  destruct (combineSparse_spec a b dst src Hd Hs) as [Hinc [Hlk Hin]].
  assert (Hwf : wf_row nc (combineSparse a b dst src)).
  { split; [apply inc_nodup; auto|]. apply Forall_forall. intros c Hc. apply Hin in Hc.
    rewrite Forall_forall in Hrd, Hrs. destruct Hc; auto. }
  split; [|exact Hwf].
  apply (nth_ext_len R 0).
  - rewrite s2d_row_length. unfold vadd, vscl. rewrite map_length, combine_length, !map_length, !s2d_row_length. lia.
  - rewrite s2d_row_length. intros c Hc.
    rewrite nth_vadd_vscl by (rewrite !s2d_row_length; auto).
    rewrite !s2d_row_nth; auto; split; auto using inc_nodup.
Qed.
