(* C41: the code of HEAD - iterative use traversals (no recursion limit).  Totality and soundness of
   parse_string / validate of Model/SchemaLang.v, reusing the lemmas of the recursive variant. *)
From Coq Require Import NArith ZArith List Bool Lia.
From MJV Require Import Model.SchemaLang Model.SchemaLangSpec Proof.SchemaLangProof Proof.SchemaLangSound.
Import ListNotations.
Open Scope N_scope.

Lemma succ_use_ok : forall L groups,
  Forall (fun g => lok L (g_line g) /\ Forall (fun m => lok L (member_line m)) (g_members g)) groups ->
  forall n es, succ_use groups n = SEdges es -> In n (map g_name groups) /\ Forall (edge_ok L (succ_use groups)) es.
Proof.
  intros L groups Hgl n es H. unfold succ_use in H. destruct (find_group groups n) as [g|] eqn:Ef; [|discriminate].
  inversion H; subst es. apply find_group_some in Ef. destruct Ef as [Hg Hn]. split; [rewrite <- Hn; apply in_map; assumption|].
  rewrite Forall_forall in Hgl. destruct (Hgl g Hg) as [_ Hml]. rewrite Forall_forall in Hml.
  apply Forall_forall. intros [b l] Hin. apply use_edges_In in Hin. split.
  - apply (Hml _ Hin).
  - simpl. unfold succ_use. destruct (find_group groups b); discriminate.
Qed.

Lemma use_cycles_spec : forall L X groups,
  Forall (fun g => lok L (g_line g) /\ Forall (fun m => lok L (member_line m)) (g_members g)) groups ->
  vprop (lok L) X (use_cycles groups).
Proof.
  intros L X groups Hgl. unfold use_cycles. apply vprop_vres_of.
  apply dfs_spec with (U := map g_name groups).
  - apply succ_use_ok. assumption.
  - constructor.
  - intros x [].
  - rewrite map_length. simpl. lia.
  - apply Forall_forall. intros [n l] Hin. apply in_map_iff in Hin. destruct Hin as (g & Hg & Hin). inversion Hg; subst.
    rewrite Forall_forall in Hgl. split; [simpl; apply (Hgl g Hin)|]. simpl. unfold succ_use.
    destruct (find_group groups (g_name g)); discriminate.
Qed.

Lemma gpath_snoc : forall succ a b c, gpath succ a b -> gedge succ b c -> gpath succ a c.
Proof.
  intros succ a b c Hp He. induction Hp as [a b H | a b b' H Hp IH].
  - eapply gp_step; [eassumption | apply gp_edge; assumption].
  - eapply gp_step; [eassumption | apply IH; assumption].
Qed.

Lemma use_cycles_acyclic : forall groups, use_cycles groups = VOk -> forall n, ~ gpath (succ_use groups) n n.
Proof.
  intros groups H n Hp. unfold use_cycles in H. apply vres_of_ok in H. destruct H as (d & H).
  pose proof (gpath_head_node _ _ _ Hp) as (es & Es).
  unfold succ_use in Es. destruct (find_group groups n) as [g|] eqn:Ef; [|discriminate].
  apply find_group_some in Ef. destruct Ef as [Hg Hn].
  apply (dfs_acyclic _ _ _ _ H n (g_line g)); [|assumption].
  apply in_map_iff. exists g. split; [rewrite Hn; reflexivity | assumption].
Qed.

Section GroupAttrs.
Variable L : N.
Variable groups : list group.
Hypothesis Hglines : Forall (fun g => lok L (g_line g) /\ Forall (fun m => lok L (member_line m)) (g_members g)) groups.
Hypothesis Huses : forall g, In g groups -> uses_ok groups (g_members g).
Hypothesis Hacyc : forall n, ~ gpath (succ_use groups) n n.

Lemma group_attrs_ok' : forall fuel name path,
  declared groups name -> NoDup path -> incl path (map g_name groups) ->
  (forall p, In p path -> gpath (succ_use groups) p name) ->
  (List.length groups < fuel + List.length path)%nat ->
  exists l, group_attrs groups fuel name = GOk l /\ Forall (fun a => lok L (a_line a)) l.
Proof.
  induction fuel as [|f IH]; intros name path Hd Hnd Hin Hreach Hf.
  - exfalso. pose proof (stack_bound _ _ Hnd Hin). lia.
  - cbn [group_attrs]. destruct (find_group_declared _ _ Hd) as [g Ef]. rewrite Ef.
    pose proof (find_group_some _ _ _ Ef) as [Hg Hname].
    assert (Hnp : ~ In name path) by (intro Hp; apply (Hacyc name); apply Hreach; assumption).
    assert (Hnd' : NoDup (path ++ [name])) by (apply NoDup_snoc; assumption).
    assert (Hin' : incl (path ++ [name]) (map g_name groups)).
    { intros x Hx. apply in_app_iff in Hx. destruct Hx as [Hx|[Hx|[]]]; [auto|]. subst x. rewrite <- Hname. apply in_map. assumption. }
    assert (Hsucc : succ_use groups name = SEdges (use_edges (g_members g))) by (unfold succ_use; rewrite Ef; reflexivity).
    pose proof (Huses g Hg) as Hu.
    assert (Hml : Forall (fun m => lok L (member_line m)) (g_members g)).
    { rewrite Forall_forall in Hglines. apply (Hglines g Hg). }
    assert (Hsub : incl (g_members g) (g_members g)) by apply incl_refl.
    revert Hsub Hml. generalize (g_members g) at 1 3 4 as ms.
    induction ms as [|m ms IHm]; intros Hsub Hml; [exists []; split; [reflexivity | constructor]|].
    apply Forall_cons_iff in Hml. destruct Hml as [Hm Hms].
    assert (Hsub' : incl ms (g_members g)) by (intros x Hx; apply Hsub; right; assumption).
    destruct (IHm Hsub' Hms) as (l2 & El2 & Hl2).
    destruct m.
    + rewrite El2. exists (a :: l2). split; [reflexivity | constructor; assumption].
    + assert (Hmem : In (MUse g0 line) (g_members g)) by (apply Hsub; left; reflexivity).
      assert (Hd0 : declared groups g0) by (apply (Hu g0 line); assumption).
      assert (He : gedge (succ_use groups) name g0).
      { exists (use_edges (g_members g)), line. split; [assumption | apply use_edges_In; assumption]. }
      destruct (IH g0 (path ++ [name]) Hd0 Hnd' Hin') as (l1 & El1 & Hl1).
      * intros p Hp. apply in_app_iff in Hp. destruct Hp as [Hp|[Hp|[]]].
        -- eapply gpath_snoc; [apply Hreach; assumption | assumption].
        -- subst p. apply gp_edge. assumption.
      * rewrite app_length. simpl. lia.
      * rewrite El1, El2. exists (l1 ++ l2). split; [reflexivity | apply Forall_app; split; assumption].
    + exists l2. split; assumption.
    + exists l2. split; assumption.
    + exists l2. split; assumption.
Qed.

Lemma expanded_attrs_spec' : forall ms, uses_ok groups ms ->
  Forall (fun m => lok L (member_line m)) ms ->
  exists l, expanded_attrs groups ms = GOk l /\ Forall (fun a => lok L (a_line a)) l.
Proof.
  intros ms Hu Hml. unfold expanded_attrs.
  induction ms as [|m ms IHm]; [exists []; split; [reflexivity | constructor]|].
  assert (Hu' : uses_ok groups ms) by (intros g' l' Hi; apply (Hu g' l'); right; assumption).
  apply Forall_cons_iff in Hml. destruct Hml as [Hm Hms]. destruct (IHm Hu' Hms) as (l2 & El2 & Hl2).
  destruct m.
  - rewrite El2. exists (a :: l2). split; [reflexivity | constructor; assumption].
  - assert (Hd : declared groups g) by (apply (Hu g line); left; reflexivity).
    destruct (group_attrs_ok' (S (List.length groups)) g [] Hd (NoDup_nil _) (incl_nil_l _)) as (l1 & El1 & Hl1).
    + intros p [].
    + simpl. lia.
    + rewrite El1, El2. exists (l1 ++ l2). split; [reflexivity | apply Forall_app; split; assumption].
  - exists l2. split; assumption.
  - exists l2. split; assumption.
  - exists l2. split; assumption.
Qed.

End GroupAttrs.

Lemma element_check_spec' : forall L sch e,
  Forall (fun g => lok L (g_line g) /\ Forall (fun m => lok L (member_line m)) (g_members g)) (s_groups sch) ->
  (forall g, In g (s_groups sch) -> uses_ok (s_groups sch) (g_members g)) ->
  (forall n, ~ gpath (succ_use (s_groups sch)) n n) ->
  uses_ok (s_groups sch) (e_members e) ->
  lok L (e_line e) -> Forall (fun m => lok L (member_line m)) (e_members e) ->
  vprop (lok L) noexn (element_check sch e).
Proof.
  intros L sch e Hgl Hgu Hac Hu Hel Hml. unfold element_check.
  apply vprop_then.
  { apply vprop_for. intros k _. destruct (fget (e_facets e) k); [apply vprop_check; assumption | exact I]. }
  intro Hf. apply vprop_then.
  { rewrite vfor_ok in Hf. pose proof (Hf f_alias (or_intror (or_introl eq_refl))) as Ha. cbv beta in Ha.
    destruct (fget (e_facets e) f_alias) as [v|]; [|exact I].
    apply vcheck_ok in Ha. destruct v; try discriminate. apply vprop_check. assumption. }
  intros _. apply vprop_then; [apply children_check_spec; assumption|]. intros _.
  destruct (expanded_attrs_spec' L (s_groups sch) Hgl Hgu Hac (e_members e) Hu Hml) as (attrs & Ea & Hx).
  rewrite Ea.
  pose proof (dup_check_spec L (e_line e) attrs [] Hel Hx) as Hd.
  destruct (dup_check (e_line e) [] attrs) as [names|l|x]; [|exact Hd|contradiction].
  apply constraints_check_spec. assumption.
Qed.

Lemma element_check_children' : forall sch e, element_check sch e = VOk ->
  forall n c d l, In (MChild n c d l) (e_members e) -> exists t, find_element (s_elements sch) n = Some t.
Proof.
  intros sch e H. unfold element_check in H.
  apply vthen_ok in H. destruct H as [_ H]. apply vthen_ok in H. destruct H as [_ H].
  apply vthen_ok in H. destruct H as [H _].
  destruct (children_check_ok _ _ _ H (NoDup_nil _)) as (Hc & _ & _). exact Hc.
Qed.

(* _validate of HEAD: SchemaError with a line of the text, or success - nothing else *)
Lemma validate_spec' : forall L sch, schema_lines L sch -> vprop (lok L) noexn (validate sch).
Proof.
  intros L sch (Hl1 & Hl2 & Hl3). unfold validate.
  pose proof Hl2 as Hl2f. rewrite Forall_forall in Hl2f. pose proof Hl3 as Hl3f. rewrite Forall_forall in Hl3f.
  apply vprop_then; [apply use_cycles_spec; assumption|].
  intro Hcc. pose proof (use_cycles_acyclic _ Hcc) as Hac. apply vprop_then.
  { apply vprop_for. intros g Hg. destruct (Hl2f g Hg) as [_ Hml]. apply group_check_spec. assumption. }
  intros _. apply vprop_then.
  { apply vprop_for. intros ms Hms. apply uses_declared_spec.
    apply in_app_iff in Hms. destruct Hms as [Hms|Hms]; apply in_map_iff in Hms; destruct Hms as (c & Hc & Hin); subst ms.
    - apply (Hl2f c Hin).
    - apply (Hl3f c Hin). }
  intro Hud. rewrite vfor_ok in Hud.
  assert (Hgu : forall g, In g (s_groups sch) -> uses_ok (s_groups sch) (g_members g)).
  { intros g Hg. apply uses_declared_ok. apply Hud. apply in_app_iff. left. apply in_map. assumption. }
  assert (Heu : forall e, In e (s_elements sch) -> uses_ok (s_groups sch) (e_members e)).
  { intros e He. apply uses_declared_ok. apply Hud. apply in_app_iff. right. apply in_map. assumption. }
  apply vprop_then.
  { apply vprop_for. intros e He. destruct (Hl3f e He) as [Hel Hml]. apply element_check_spec'; auto. }
  intro Hec. rewrite vfor_ok in Hec. apply vprop_then.
  { unfold child_cycles. apply vprop_vres_of. apply child_dfs_spec.
    - intros e He. eapply element_check_children'. apply Hec. assumption.
    - intros e He. apply (Hl3f e He). }
  intros _. apply vprop_for. intros ms Hms. apply vprop_for. intros a Ha.
  apply validate_attr_spec.
  apply in_member_attrs in Ha.
  apply in_app_iff in Hms. destruct Hms as [Hms|Hms]; apply in_map_iff in Hms; destruct Hms as (c & Hc & Hin); subst ms.
  - destruct (Hl2f c Hin) as [_ Hml]. rewrite Forall_forall in Hml. apply (Hml _ Ha).
  - destruct (Hl3f c Hin) as [_ Hml]. rewrite Forall_forall in Hml. apply (Hml _ Ha).
Qed.

Lemma parse_string_total' : forall text,
  (exists s, parse_string text = Ok s) \/
  (exists l, parse_string text = SchemaErr l /\ 1 <= l <= cnl text + 1).
Proof.
  intro text. unfold parse_string. pose proof (parse_text_spec text) as Hp.
  destruct (parse_text text) as [s|l|e]; [|right; eauto|contradiction].
  destruct Hp as [Hl _]. pose proof (validate_spec' _ s Hl) as Hv.
  destruct (validate s); simpl in Hv; [left; eauto | right; eauto | contradiction].
Qed.

(* ---- soundness *)

Lemma group_attrs_expands' : forall s fuel n l, group_attrs (s_groups s) fuel n = GOk l ->
  exists g, group_named s n g /\ expands s (g_members g) l.
Proof.
  intro s. induction fuel as [|f IH]; intros n l H; simpl in H; [discriminate|].
  destruct (find_group (s_groups s) n) as [g|] eqn:Ef; [|discriminate].
  apply find_group_some in Ef. exists g. split; [exact Ef|]. clear Ef.
  revert l H. induction (g_members g) as [|m ms IHm]; intros l H; [inversion H; constructor|].
  destruct m.
  - match type of H with match ?X with _ => _ end = _ => destruct X eqn:El end; [|discriminate].
    inversion H; subst. constructor. apply IHm. reflexivity.
  - destruct (group_attrs (s_groups s) f g0) eqn:Eg; [|discriminate].
    match type of H with match ?X with _ => _ end = _ => destruct X eqn:El end; [|discriminate].
    inversion H; subst. destruct (IH _ _ Eg) as (g' & Hg' & He'). econstructor; eauto.
  - constructor. apply IHm. assumption.
  - constructor. apply IHm. assumption.
  - constructor. apply IHm. assumption.
Qed.

Lemma expanded_attrs_expands' : forall s ms l, expanded_attrs (s_groups s) ms = GOk l -> expands s ms l.
Proof.
  intros s ms l H. unfold expanded_attrs in H.
  revert l H. induction ms as [|m ms IHm]; intros l H; [inversion H; constructor|].
  destruct m.
  - match type of H with match ?X with _ => _ end = _ => destruct X eqn:El end; [|discriminate].
    inversion H; subst. constructor. apply IHm. reflexivity.
  - destruct (group_attrs (s_groups s) (S (List.length (s_groups s))) g) eqn:Eg; [|discriminate].
    match type of H with match ?X with _ => _ end = _ => destruct X eqn:El end; [|discriminate].
    inversion H; subst. destruct (group_attrs_expands' _ _ _ _ Eg) as (g' & Hg' & He'). econstructor; eauto.
  - constructor. apply IHm. assumption.
  - constructor. apply IHm. assumption.
  - constructor. apply IHm. assumption.
Qed.

Lemma element_check_sound' : forall s e, element_check s e = VOk -> element_rules s e.
Proof.
  intros s e H. unfold element_check in H.
  apply vthen_ok in H. destruct H as [H1 H]. apply vthen_ok in H. destruct H as [H2 H].
  apply vthen_ok in H. destruct H as [H3 H]. rewrite vfor_ok in H1.
  unfold element_rules. split; [|split; [|split; [|split]]].
  - intros k v Hk Hf. assert (Hin : In k [f_xml; f_alias]) by (destruct Hk; subst; simpl; auto).
    specialize (H1 _ Hin). cbv beta in H1. rewrite Hf in H1. apply vcheck_ok in H1. destruct v; try discriminate. eauto.
  - intros n Hf. rewrite Hf in H2. apply vcheck_ok in H2.
    destruct (find_element (s_elements s) n) as [e'|] eqn:Ef; [|discriminate].
    apply find_element_some in Ef. exists e'. exact Ef.
  - intros n c d l Hin. destruct (children_check_ok _ _ _ H3 (NoDup_nil _)) as (Hc & _ & _).
    destruct (Hc _ _ _ _ Hin) as (e' & Ef). apply find_element_some in Ef. exists e'. exact Ef.
  - destruct (children_check_ok _ _ _ H3 (NoDup_nil _)) as (_ & Hc & _). exact Hc.
  - destruct (expanded_attrs (s_groups s) (e_members e)) as [attrs|x] eqn:Ex; [|discriminate].
    destruct (dup_check (e_line e) [] attrs) as [names|l|x] eqn:Ed; try discriminate.
    exists attrs. split; [eapply expanded_attrs_expands'; eassumption|].
    destruct (dup_check_ok _ _ _ _ Ed (NoDup_nil _)) as (Hd1 & _ & Hd3). split; [assumption|].
    intros k bs d l Hin. destruct (constraints_check_ok _ _ H _ _ _ _ Hin) as [Hn Hr]. split; [|assumption].
    intros b x Hb Hx. specialize (Hn b x Hb Hx). apply Hd3 in Hn. destruct Hn as [[]|Hn]. assumption.
Qed.

Lemma validate_sound' : forall s, NoDup (map g_name (s_groups s)) -> NoDup (map e_name (s_elements s)) ->
  validate s = VOk -> schema_rules s.
Proof.
  intros s Hnd Hnde H. unfold validate in H.
  apply vthen_ok in H. destruct H as [H1 H]. apply vthen_ok in H. destruct H as [H2 H].
  apply vthen_ok in H. destruct H as [H3 H]. apply vthen_ok in H. destruct H as [H4 H].
  apply vthen_ok in H. destruct H as [Hcc H5].
  rewrite vfor_ok in H2, H3, H4, H5.
  unfold schema_rules. split; [|split; [|split; [|split; [|split]]]].
  - intros ms n l Hms Hin. pose proof (uses_declared_ok _ _ (H3 ms Hms) n l Hin) as Hd.
    apply declared_group_in in Hd. exact Hd.
  - apply use_cycles_sound; assumption.
  - apply Forall_forall. intros g Hg. apply group_check_sound. apply H2. assumption.
  - apply Forall_forall. intros e He. apply element_check_sound'. apply H4. assumption.
  - intros ms a Hms Hin. apply validate_attr_sound. specialize (H5 ms Hms). rewrite vfor_ok in H5. apply H5.
    unfold member_attrs. apply in_flat_map. exists (MAttr a). split; [assumption | left; reflexivity].
  - apply child_cycles_sound; [assumption| |assumption].
    intros e He. eapply element_check_children'. apply H4. assumption.
Qed.

Lemma parse_string_ok_parse' : forall text s, parse_string text = Ok s -> parse_text text = Ok s /\ validate s = VOk.
Proof.
  intros text s H. unfold parse_string in H. destruct (parse_text text) as [s'|l|e]; try discriminate.
  destruct (validate s') eqn:Ev; inversion H; subst. auto.
Qed.

Lemma parse_string_sound' : forall text s, parse_string text = Ok s ->
  WellFormed s /\ schema_lines (cnl text + 1) s.
Proof.
  intros text s H. apply parse_string_ok_parse' in H. destruct H as [Hp Hv].
  pose proof (parse_text_spec text) as Hs. rewrite Hp in Hs. destruct Hs as [Hl Hsyn].
  split; [|assumption]. split; [assumption|].
  destruct Hsyn as (_ & Hg & He & _). apply validate_sound'; assumption.
Qed.

Lemma rule_breaking_rejected' : forall text s,
  parse_text text = Ok s -> ~ WellFormed s ->
  exists l, parse_string text = SchemaErr l /\ 1 <= l <= cnl text + 1.
Proof.
  intros text s Hp Hw. destruct (parse_string_total' text) as [[s' H]|H]; [|exact H].
  exfalso. apply Hw. pose proof (parse_string_ok_parse' _ _ H) as [Hp' _].
  rewrite Hp in Hp'. inversion Hp'; subst. apply (parse_string_sound' _ _ H).
Qed.

Lemma deep_chain_accepted : is_ok (parse_string (chain_text 1001)) = true.
Proof. vm_compute. reflexivity. Qed.
