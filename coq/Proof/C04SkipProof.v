(* C04: skip stages of mj_forwardSkip on the REGENERATED program *)
From Coq Require Import String List Bool.
From MJV Require Import Model.Pipeline Proof.PipelineProof Gen.Pipeline Proof.C04Proof.
Import ListNotations.
Open Scope string_scope.
Open Scope list_scope.

Definition fwd (stage sens : string) : prog := PCall "mj_forwardSkip" [stage; sens].

Definition skip_prefix_of (full skip : list item) : option (list item) :=
  let n := (length full - length skip)%nat in
  if items_eqb (skipn n full) skip then Some (firstn n full) else None.

Definition skip_prefix (stage sens : string) : option (list item) :=
  match flatten (fwd "mjSTAGE_NONE" sens), flatten (fwd stage sens) with
  | Some full, Some skip => skip_prefix_of (lsimp asm_cb None full) (lsimp asm_cb None skip)
  | _, _ => None
  end.

Definition skip_cases : list (string * string) :=
  [("mjSTAGE_POS", "0"); ("mjSTAGE_VEL", "0"); ("mjSTAGE_POS", "1"); ("mjSTAGE_VEL", "1")].

Lemma skip_defined :
  forallb (fun c => match skip_prefix (fst c) (snd c) with Some (_ :: _) => true | _ => false end) skip_cases = true.
Proof. vm_compute. reflexivity. Qed.

Section Skip.
Variable data : Type.
Variable call : string -> list string -> data -> data.
Variable assign : string -> string -> data -> data.
Variable user : data -> data.
Variable atom : string -> data -> bool.
Variable integ : data -> string.
Notation exec := (exec_list data call assign user atom integ).

Lemma skip_prefix_of_sound (full skip prefix : list item) :
  skip_prefix_of full skip = Some prefix ->
  forall d, exec prefix d = Some d -> exec skip d = exec full d.
Proof.
  unfold skip_prefix_of. intros H d Hfix.
  destruct (items_eqb (skipn (length full - length skip) full) skip) eqn:Eq; [|discriminate].
  inversion H as [E1]. apply items_eqb_ok in Eq.
  rewrite <- (firstn_skipn (length full - length skip) full) at 1.
  rewrite exec_app, E1, Hfix, Eq. reflexivity.
Qed.

Lemma skip_sound_core (ofull oskip : option (list item)) (prefix : list item) :
  (forall d, atom "flex_has_passive_contact(m)" d = false) ->
  match ofull, oskip with
  | Some full, Some skip => skip_prefix_of (lsimp asm_cb None full) (lsimp asm_cb None skip)
  | _, _ => None
  end = Some prefix ->
  forall d, exec prefix d = Some d ->
    match oskip with Some l => exec l d | None => None end =
    match ofull with Some l => exec l d | None => None end.
Proof.
  intros Hflex E d Hfix.
  destruct ofull as [full|]; [|discriminate]. destruct oskip as [skip|]; [|discriminate].
  assert (Hasm : forall s b, lookup s asm_cb = Some b -> forall d, atom s d = b).
  { intros s b Hl d0. unfold asm_cb in Hl. simpl in Hl.
    destruct (String.eqb s "flex_has_passive_contact(m)") eqn:E2; [|discriminate].
    apply String.eqb_eq in E2. subst. inversion Hl; subst. apply Hflex. }
  assert (Hiv : forall v', @None string = Some v' -> forall d, integ d = v') by (intros; discriminate).
  rewrite <- (lsimp_ok data call assign user atom integ asm_cb None Hasm Hiv full d).
  rewrite <- (lsimp_ok data call assign user atom integ asm_cb None Hasm Hiv skip d).
  eapply skip_prefix_of_sound; eassumption.
Qed.

Lemma skip_sound_gen (stage sens : string) (prefix : list item) :
  (forall d, atom "flex_has_passive_contact(m)" d = false) ->
  skip_prefix stage sens = Some prefix ->
  forall d, exec prefix d = Some d ->
            run data call assign user atom integ (fwd stage sens) d =
            run data call assign user atom integ (fwd "mjSTAGE_NONE" sens) d.
Proof.
  exact (skip_sound_core (flatten (fwd "mjSTAGE_NONE" sens)) (flatten (fwd stage sens)) prefix).
Qed.

Lemma skip_sound (stage sens : string) :
  In (stage, sens) skip_cases ->
  (forall d, atom "flex_has_passive_contact(m)" d = false) ->
  exists prefix, skip_prefix stage sens = Some prefix /\ prefix <> [] /\
    forall d, exec prefix d = Some d ->
              run data call assign user atom integ (fwd stage sens) d =
              run data call assign user atom integ (fwd "mjSTAGE_NONE" sens) d.
Proof.
  intros Hin Hflex.
  pose proof skip_defined as Hd. rewrite forallb_forall in Hd. specialize (Hd (stage, sens) Hin).
  cbv beta iota delta [fst snd] in Hd.
  destruct (skip_prefix stage sens) as [[|p0 prefix]|] eqn:E; try discriminate.
  exists (p0 :: prefix). split; [reflexivity|]. split; [discriminate|].
  intros d Hfix. eapply skip_sound_gen; eassumption.
Qed.
End Skip.
