(* Shared infrastructure for the proofs about Model/Sparse.v, Model/Chol.v, Model/SparseM.v at R:
   finite sums, list/array lemmas, the lane-wise dot products equal plain sums, lookups in
   entry lists. *)
From Coq Require Import ZArith List Bool Arith Lia PrimFloat Reals Lra Permutation.
From MJV Require Import Lib.Num Lib.NumR Model.Sparse.
Import ListNotations.
Open Scope R_scope.

(* ------------------------------------------------------------------ arrays *)
Lemma upd_length : forall (A : Type) (i : nat) (v : A) (l : list A), length (upd i v l) = length l.
Proof. intros A i v l; revert i; induction l as [|x r IH]; intros [|i]; simpl; auto. Qed.

Lemma nth_upd_eq : forall (A : Type) (i : nat) (v d : A) (l : list A),
  (i < length l)%nat -> nth i (upd i v l) d = v.
Proof.
  intros A i v d l; revert i; induction l as [|x r IH]; intros [|i] Hi; simpl in *; try lia; auto.
  apply IH; lia.
Qed.

Lemma nth_upd_neq : forall (A : Type) (i j : nat) (v d : A) (l : list A),
  i <> j -> nth j (upd i v l) d = nth j l d.
Proof.
  intros A i j v d l; revert i j; induction l as [|x r IH]; intros [|i] [|j] Hij; simpl; auto; try lia.
Qed.

Lemma nth_upd : forall (A : Type) (i j : nat) (v d : A) (l : list A),
  (i < length l)%nat -> nth j (upd i v l) d = if Nat.eqb i j then v else nth j l d.
Proof.
  intros A i j v d l Hi. destruct (Nat.eqb_spec i j) as [->|Hn].
  - apply nth_upd_eq; auto.
  - apply nth_upd_neq; auto.
Qed.

Lemma upd_out : forall (A : Type) (i : nat) (v : A) (l : list A), (length l <= i)%nat -> upd i v l = l.
Proof.
  intros A i v l; revert i; induction l as [|x r IH]; intros [|i] Hi; simpl in *; auto; try lia.
  f_equal; apply IH; lia.
Qed.

Lemma nth_ext_len : forall (A : Type) (d : A) (l1 l2 : list A),
  length l1 = length l2 -> (forall i : nat, (i < length l1)%nat -> nth i l1 d = nth i l2 d) -> l1 = l2.
Proof. intros A d l1 l2 Hl Hn. apply (nth_ext l1 l2 d d Hl Hn). Qed.

Lemma nth_map_seq : forall (A : Type) (f : nat -> A) (a n i : nat) (d : A),
  (i < n)%nat -> nth i (map f (seq a n)) d = f (a + i)%nat.
Proof.
  intros A f a n i d Hi.
  rewrite (nth_indep _ d (f 0%nat)) by (rewrite map_length, seq_length; auto).
  rewrite (map_nth f (seq a n) 0%nat i). rewrite seq_nth; auto.
Qed.

Lemma fold_left_seq_S : forall (A : Type) (f : A -> nat -> A) (n : nat) (a : A),
  fold_left f (seq 0 (S n)) a = f (fold_left f (seq 0 n) a) n.
Proof. intros A f n a. rewrite seq_S, fold_left_app; simpl; auto. Qed.

(* ------------------------------------------------------------------ finite sums *)
Fixpoint bsum (n : nat) (f : nat -> R) : R :=
  match n with O => 0 | S k => bsum k f + f k end.

Lemma bsum_ext : forall (n : nat) (f g : nat -> R),
  (forall i : nat, (i < n)%nat -> f i = g i) -> bsum n f = bsum n g.
Proof.
  induction n as [|n IH]; intros f g Hfg; simpl; auto.
  rewrite (IH f g), Hfg; auto.
Qed.

Lemma bsum_zero : forall (n : nat) (f : nat -> R), (forall i : nat, (i < n)%nat -> f i = 0) -> bsum n f = 0.
Proof. induction n as [|n IH]; intros f Hf; simpl; auto. rewrite IH, Hf; auto; lra. Qed.

Lemma bsum_plus : forall (n : nat) (f g : nat -> R), bsum n (fun i => f i + g i) = bsum n f + bsum n g.
Proof. induction n as [|n IH]; intros f g; simpl; [lra|]. rewrite IH; lra. Qed.

Lemma bsum_scal : forall (n : nat) (c : R) (f : nat -> R), bsum n (fun i => c * f i) = c * bsum n f.
Proof. induction n as [|n IH]; intros c f; simpl; [lra|]. rewrite IH; lra. Qed.

Lemma bsum_scal_r : forall (n : nat) (c : R) (f : nat -> R), bsum n (fun i => f i * c) = bsum n f * c.
Proof. induction n as [|n IH]; intros c f; simpl; [lra|]. rewrite IH; lra. Qed.

Lemma bsum_delta : forall (n c : nat) (x : nat -> R),
  (c < n)%nat -> bsum n (fun i => if Nat.eqb c i then x i else 0) = x c.
Proof.
  induction n as [|n IH]; intros c x Hc; [lia|]. simpl.
  destruct (Nat.eqb_spec c n) as [->|Hn].
  - rewrite bsum_zero; [lra|]. intros i Hi. destruct (Nat.eqb_spec n i); auto; lia.
  - rewrite IH by lia. lra.
Qed.

Lemma bsum_shift : forall (n : nat) (f : nat -> R), bsum (S n) f = f 0%nat + bsum n (fun i => f (S i)).
Proof. induction n as [|n IH]; intros f; [simpl; lra|]. change (bsum (S (S n)) f) with (bsum (S n) f + f (S n)). rewrite IH. simpl. lra. Qed.

Lemma bsum_swap : forall (n m : nat) (f : nat -> nat -> R),
  bsum n (fun i => bsum m (fun j => f i j)) = bsum m (fun j => bsum n (fun i => f i j)).
Proof.
  induction n as [|n IH]; intros m f; simpl.
  - rewrite bsum_zero; auto.
  - rewrite IH. rewrite <- bsum_plus. auto.
Qed.

Lemma bsum_split : forall (k n : nat) (f : nat -> R),
  (k <= n)%nat -> bsum n f = bsum k f + bsum (n - k) (fun t => f (k + t)%nat).
Proof.
  intros k n f Hk. induction n as [|n IH].
  - assert (k = 0)%nat by lia; subst; simpl; lra.
  - destruct (Nat.eq_dec k (S n)) as [->|Hne].
    + rewrite Nat.sub_diag. simpl. lra.
    + replace (S n - k)%nat with (S (n - k)) by lia. simpl. rewrite IH by lia.
      replace (k + (n - k))%nat with n by lia. lra.
Qed.

(* ------------------------------------------------------------------ list sums, lane-wise dots *)
Definition lsum (l : list R) : R := fold_right Rplus 0 l.

Lemma fold_left_Rplus : forall (l : list R) (s : R), fold_left Rplus l s = s + lsum l.
Proof. induction l as [|x r IH]; intros s; simpl; [lra|]. rewrite IH. lra. Qed.

Lemma lsum_app : forall l1 l2 : list R, lsum (l1 ++ l2) = lsum l1 + lsum l2.
Proof. induction l1 as [|x r IH]; intros l2; simpl; [lra|]. rewrite IH; lra. Qed.

Lemma lsum_rev : forall l : list R, lsum (rev l) = lsum l.
Proof. induction l as [|x r IH]; simpl; auto. rewrite lsum_app, IH. simpl. lra. Qed.

Lemma sum4_spec : forall (n : nat) (l : list R), (length l <= n)%nat ->
  forall a0 a1 a2 a3 : R, sum4 l a0 a1 a2 a3 = a0 + a1 + a2 + a3 + lsum l.
Proof.
  induction n as [|n IH]; intros l Hl a0 a1 a2 a3.
  - destruct l; simpl in *; [num_R; lra | lia].
  - destruct l as [|p0 [|p1 [|p2 [|p3 rest]]]]; simpl; num_R; try lra.
    change (sum4 rest (a0 + p0) (a1 + p1) (a2 + p2) (a3 + p3) = a0 + a1 + a2 + a3 + (p0 + (p1 + (p2 + (p3 + lsum rest))))).
    rewrite IH by (simpl in Hl; lia). lra.
Qed.

Lemma sum4d_spec : forall (n : nat) (l : list R), (length l <= n)%nat ->
  forall a0 a1 a2 a3 : R, sum4d l a0 a1 a2 a3 = a0 + a1 + a2 + a3 + lsum l.
Proof.
  induction n as [|n IH]; intros l Hl a0 a1 a2 a3.
  - destruct l; simpl in *; [num_R; lra | lia].
  - destruct l as [|p0 [|p1 [|p2 [|p3 rest]]]]; simpl; num_R; try lra.
    change (sum4d rest (a0 + p0) (a1 + p1) (a2 + p2) (a3 + p3) = a0 + a1 + a2 + a3 + (p0 + (p1 + (p2 + (p3 + lsum rest))))).
    rewrite IH by (simpl in Hl; lia). lra.
Qed.

(* sum over a list of the image of f equals the finite sum over indices *)
Lemma lsum_map_nth : forall (A : Type) (d : A) (f : A -> R) (l : list A),
  lsum (map f l) = bsum (length l) (fun i => f (nth i l d)).
Proof.
  intros A d f l. induction l as [|x r IH]; simpl length; [reflexivity|].
  rewrite bsum_shift. simpl. rewrite IH. reflexivity.
Qed.

(* mju_dot: plain sum of products, over the indices of the second vector *)
Lemma lsum_combine : forall (a b : list R),
  lsum (map (fun p : R * R => fst p * snd p) (combine a b)) = bsum (length b) (fun j => nth j a 0 * nth j b 0).
Proof.
  induction a as [|x a IH]; intros b.
  - simpl. symmetry. apply bsum_zero. intros i _. destruct i; lra.
  - destruct b as [|y b].
    + simpl. reflexivity.
    + simpl length. rewrite bsum_shift. simpl. rewrite IH. reflexivity.
Qed.

Lemma dot_spec : forall a b : list R, dot a b = bsum (length b) (fun j => nth j a 0 * nth j b 0).
Proof.
  intros a b. unfold dot. num_R.
  rewrite (sum4d_spec (length (map (fun p : R * R => fst p * snd p) (combine a b)))) by auto.
  rewrite lsum_combine. lra.
Qed.

Lemma ndot_spec : forall a b : list R, ndot a b = bsum (length b) (fun j => nth j a 0 * nth j b 0).
Proof.
  intros a b. unfold ndot. num_R. rewrite <- lsum_combine.
  generalize (combine a b) as l. intros l.
  assert (G : forall (s : R), fold_left (fun (s0 : R) (p : R * R) => s0 + fst p * snd p) l s
                              = s + lsum (map (fun p : R * R => fst p * snd p) l)).
  { induction l as [|p l IH]; intros s; simpl; [lra|]. rewrite IH. lra. }
  rewrite G. lra.
Qed.

(* ------------------------------------------------------------------ entry lists *)
Notation entR := (ent R).

Definition cols (es : list entR) : list nat := map fst es.
(* the sparse dot product as a plain sum *)
Definition sdot (es : list entR) (v : list R) : R :=
  lsum (map (fun e : entR => snd e * nth (fst e) v 0) es).

Lemma dotSparse_spec : forall (es : list entR) (v : list R), dotSparse es v = sdot es v.
Proof.
  intros es v. unfold dotSparse, sdot. num_R.
  rewrite (sum4_spec (length (map (fun e : entR => snd e * nth (fst e) v 0) es))) by auto. lra.
Qed.

Lemma lk_notin : forall (c : nat) (es : list entR), ~ In c (cols es) -> lk c es = 0.
Proof.
  intros c es; induction es as [|[c' x] r IH]; intros Hn; simpl; auto.
  destruct (Nat.eqb_spec c' c) as [->|Hne].
  - exfalso; apply Hn; simpl; auto.
  - apply IH. intros Hin; apply Hn; simpl; auto.
Qed.

Lemma lk_in : forall (c : nat) (x : R) (es : list entR), NoDup (cols es) -> In (c, x) es -> lk c es = x.
Proof.
  intros c x es; induction es as [|[c' y] r IH]; intros Hnd Hin; simpl in *; [tauto|].
  inversion Hnd as [|a l Hna Hnd']; subst.
  destruct Hin as [Heq|Hin].
  - inversion Heq; subst. rewrite Nat.eqb_refl; auto.
  - destruct (Nat.eqb_spec c' c) as [->|Hne].
    + exfalso; apply Hna. unfold cols. apply in_map_iff. exists (c, x); auto.
    + apply IH; auto.
Qed.

Lemma lk_app_in : forall (c : nat) (l1 l2 : list entR), In c (cols l1) -> lk c (l1 ++ l2) = lk c l1.
Proof.
  intros c l1 l2; induction l1 as [|[c' y] r IH]; intros Hin; simpl in *; [tauto|].
  destruct (Nat.eqb_spec c' c) as [->|Hne]; auto.
  apply IH. destruct Hin; [congruence|auto].
Qed.

Lemma lk_app_notin : forall (c : nat) (l1 l2 : list entR), ~ In c (cols l1) -> lk c (l1 ++ l2) = lk c l2.
Proof.
  intros c l1 l2; induction l1 as [|[c' y] r IH]; intros Hin; simpl in *; auto.
  destruct (Nat.eqb_spec c' c) as [->|Hne]; [tauto|].
  apply IH. tauto.
Qed.

Lemma lk_perm : forall (c : nat) (l1 l2 : list entR),
  NoDup (cols l1) -> Permutation l1 l2 -> lk c l1 = lk c l2.
Proof.
  intros c l1 l2 Hnd Hp.
  assert (Hnd2 : NoDup (cols l2)).
  { unfold cols. eapply Permutation_NoDup; [apply Permutation_map; exact Hp | exact Hnd]. }
  destruct (in_dec Nat.eq_dec c (cols l1)) as [Hi|Hi].
  - unfold cols in Hi. apply in_map_iff in Hi. destruct Hi as [[c' x] [Hc Hin]]. simpl in Hc; subst c'.
    rewrite (lk_in c x l1 Hnd Hin). symmetry. apply lk_in; auto. eapply Permutation_in; eauto.
  - rewrite lk_notin by auto. symmetry. apply lk_notin. intros Hj; apply Hi.
    unfold cols in *. eapply Permutation_in; [apply Permutation_map; apply Permutation_sym; exact Hp | exact Hj].
Qed.

Lemma lk_rev : forall (c : nat) (l : list entR), NoDup (cols l) -> lk c (rev l) = lk c l.
Proof. intros c l Hnd. symmetry. apply lk_perm; auto. apply Permutation_rev. Qed.

Lemma sdot_app : forall (l1 l2 : list entR) (v : list R), sdot (l1 ++ l2) v = sdot l1 v + sdot l2 v.
Proof. intros l1 l2 v. unfold sdot. rewrite map_app, lsum_app. reflexivity. Qed.

Lemma sdot_rev : forall (l : list entR) (v : list R), sdot (rev l) v = sdot l v.
Proof. intros l v. unfold sdot. rewrite map_rev, lsum_rev. reflexivity. Qed.

(* a sparse dot product is the dense dot product with the looked-up values *)
Lemma sdot_lk : forall (nc : nat) (es : list entR) (v : list R),
  NoDup (cols es) -> Forall (fun c : nat => (c < nc)%nat) (cols es) ->
  sdot es v = bsum nc (fun c => lk c es * nth c v 0).
Proof.
  intros nc es v; induction es as [|[c0 x0] r IH]; intros Hnd Hr.
  - unfold sdot; simpl. symmetry; apply bsum_zero; intros; lra.
  - simpl in Hnd, Hr. inversion Hnd as [|a l Hna Hnd']; subst. inversion Hr as [|a l Hc0 Hr']; subst.
    unfold sdot in *; simpl. rewrite IH by auto.
    rewrite (bsum_ext nc (fun c => (if Nat.eqb c0 c then x0 else lk c r) * nth c v 0)
                         (fun c => (if Nat.eqb c0 c then x0 * nth c v 0 else 0) + lk c r * nth c v 0)).
    + rewrite bsum_plus. rewrite (bsum_delta nc c0 (fun c => x0 * nth c v 0)) by auto. reflexivity.
    + intros c _. destruct (Nat.eqb_spec c0 c) as [->|Hne]; [|lra].
      rewrite (lk_notin c r) by auto. lra.
Qed.

(* ------------------------------------------------------------------ slices of concatenations *)
Lemma slice_concat : forall (A : Type) (rs : list (list A)) (r : nat) (pre : list A),
  (r < length rs)%nat ->
  slice (nth r (psums (length pre) (map (@length A) rs)) 0%nat) (nth r (map (@length A) rs) 0%nat) (pre ++ concat rs)
  = nth r rs [].
Proof.
  intros A rs; induction rs as [|x rs IH]; intros r pre Hr; simpl in Hr; [lia|].
  destruct r as [|r]; simpl.
  - unfold slice. rewrite skipn_app, skipn_all, Nat.sub_diag. simpl.
    rewrite firstn_app, firstn_all, Nat.sub_diag. simpl. apply app_nil_r.
  - replace (length pre + length x)%nat with (length (pre ++ x)) by (rewrite app_length; auto).
    replace (pre ++ x ++ concat rs) with ((pre ++ x) ++ concat rs) by (rewrite app_assoc; auto).
    apply IH. lia.
Qed.

Lemma psums_length : forall (l : list nat) (a : nat), length (psums a l) = length l.
Proof. induction l as [|x r IH]; intros a; simpl; auto. Qed.
