(* Proofs about Model/ThreadPool.v: an inductive invariant of the interleaving semantics, and the
   safety / progress theorems exported by Props/C03.v. *)
From Coq Require Import ZArith List Bool Lia Permutation Wf_nat.
From MJV Require Import Model.ThreadPool.
Import ListNotations.
Open Scope Z_scope.

(* ------------------------------------------------------------------ lists *)
Lemma zseq_nonpos : forall n, n <= 0 -> zseq n = [].
Proof. intros n H. unfold zseq. replace (Z.to_nat n) with O by lia. reflexivity. Qed.

Lemma zseq_succ : forall n, 0 <= n -> zseq (n + 1) = zseq n ++ [n].
Proof.
  intros n H. unfold zseq. replace (Z.to_nat (n + 1)) with (S (Z.to_nat n)) by lia.
  rewrite seq_S, map_app. simpl. rewrite Z2Nat.id by lia. reflexivity.
Qed.

Lemma zseq_in : forall n t, In t (zseq n) <-> 0 <= t < n.
Proof.
  intros n t. unfold zseq. rewrite in_map_iff. split.
  - intros [k [E I]]. apply in_seq in I. lia.
  - intros H. exists (Z.to_nat t). split; [lia|]. apply in_seq. lia.
Qed.

Lemma zseq_nodup : forall n, NoDup (zseq n).
Proof.
  intros n. unfold zseq. apply FinFun.Injective_map_NoDup.
  - intros a b E. lia.
  - apply seq_NoDup.
Qed.

Lemma nth_error_split_upd : forall (A : Type) (l : list A) k w,
  nth_error l k = Some w ->
  exists l1 l2, l = l1 ++ w :: l2 /\ length l1 = k /\ forall x, upd k x l = l1 ++ x :: l2.
Proof.
  induction l as [|a l IH]; intros k w H.
  - destruct k; discriminate.
  - destruct k as [|k]; simpl in H.
    + inversion H; subst. exists [], l. repeat split; reflexivity.
    + destruct (IH _ _ H) as [l1 [l2 [E [L U]]]].
      exists (a :: l1), l2. subst l. repeat split.
      * simpl. now rewrite L.
      * intros x. simpl. now rewrite U.
Qed.

Lemma nth_error_mid : forall (A : Type) (l1 l2 : list A) w, nth_error (l1 ++ w :: l2) (length l1) = Some w.
Proof. intros. rewrite nth_error_app2 by lia. now rewrite Nat.sub_diag. Qed.

Lemma sumZ_app : forall a b, sumZ (a ++ b) = sumZ a + sumZ b.
Proof. induction a; intros; simpl; [reflexivity|rewrite IHa; lia]. Qed.

Lemma sumZ_map_nonneg : forall (A : Type) (f : A -> Z) l, (forall x, 0 <= f x) -> 0 <= sumZ (map f l).
Proof. intros A f l H. induction l; simpl; [lia|]. specialize (H a). lia. Qed.

Lemma sumZ_map_ext_Forall : forall (A : Type) (P : A -> Prop) (f g : A -> Z) l,
  Forall P l -> (forall x, P x -> f x = g x) -> sumZ (map f l) = sumZ (map g l).
Proof. intros A P f g l H E. induction H; simpl; [reflexivity|]. rewrite IHForall, (E _ H). reflexivity. Qed.

Lemma sumZ_map_zero : forall (A : Type) (f : A -> Z) l, (forall x, f x = 0) -> sumZ (map f l) = 0.
Proof. intros A f l H. induction l; simpl; [reflexivity|]. rewrite H, IHl. reflexivity. Qed.

Lemma flat_map_nil_Forall : forall (A B : Type) (P : A -> Prop) (f : A -> list B) l,
  Forall P l -> (forall x, P x -> f x = []) -> flat_map f l = [].
Proof. intros A B P f l H E. induction H; simpl; [reflexivity|]. now rewrite (E _ H), IHForall. Qed.

(* ------------------------------------------------------------------ invariant *)
Definition okB (sg : Z) (w : worker) : Prop :=
  match wp w with
  | WWait s0 => s0 = sg \/ s0 = - sg
  | WLoad => True
  | WClaim s0 | WBegin s0 _ | WEnd s0 _ | WDone s0 => s0 = sg
  | WRet | WExited => False
  end.

Definition okC (w : worker) : Prop :=
  match wp w with
  | WWait s0 => s0 = 1 \/ s0 = -1
  | WLoad | WRet | WExited => True
  | _ => False
  end.

Definition parkedw (sg : Z) (w : worker) : Prop := wp w = WWait sg.

Definition donecount (sg : Z) (w : worker) : Z :=
  match wp w with WWait s0 => if s0 =? sg then 1 else 0 | _ => 0 end.

Definition wpend (w : worker) : list Z := match wp w with WBegin _ t => [t] | _ => [] end.
Definition wrun (w : worker) : list (Z * Z) := match wp w with WEnd _ t => [(wid w, t)] | _ => [] end.
Definition mpend (m : mpc) : list Z := match m with D7 t => [t] | _ => [] end.
Definition mrun (m : mpc) : list (Z * Z) :=
  match m with D8 t => [(0, t)] | MSerRun i _ => [(0, i)] | _ => [] end.
Definition claimed (s : st) : list Z :=
  mpend (mp s) ++ flat_map wpend (ws s) ++ map snd (started s).

Definition wids_ok (l : list worker) : Prop :=
  forall k w, nth_error l k = Some w -> wid w = Z.of_nat k + 1.

Definition full_pool (s : st) : Prop :=
  pool s = true /\ 1 <= nthr s /\ Z.of_nat (length (ws s)) = nthr s.

Definition I_struct (s : st) : Prop :=
  match mp s with
  | PNewInit r n => pool s = false /\ ws s = [] /\ 0 <= r <= 2 /\ 1 <= n
  | PNewSpawn j n => pool s = true /\ n = nthr s /\ j = Z.of_nat (length (ws s)) /\ 0 <= j < n
  | MIdle | MSer _ _ | MSerRun _ _ | PRet => (pool s = false /\ ws s = []) \/ full_pool s
  | PDelJoin j n => full_pool s /\ 0 <= j < nthr s
  | _ => full_pool s
  end.

Definition pm1 (z : Z) : Prop := z = 1 \/ z = -1.

Definition I_sig (s : st) : Prop :=
  match mp s with
  | PDelNotify _ | PDelJoin _ _ => sig s = 0
  | PNewInit _ _ => True
  | PNewSpawn _ _ => sig s = 1
  | D4 v => v = sig s /\ pm1 (sig s)
  | _ => pool s = true -> pm1 (sig s)
  end.

Definition I_workers (s : st) : Prop :=
  match mp s with
  | D5 | D6 | D7 _ | D8 _ | D9 => Forall (okB (sig s)) (ws s)
  | PDelNotify _ | PDelJoin _ _ => Forall okC (ws s)
  | _ => Forall (parkedw (sig s)) (ws s)
  end.

Definition I_count (s : st) : Prop :=
  match mp s with
  | D2 => nxt s = 0
  | D3 | D4 _ => nxt s = 0 /\ ndn s = 0
  | D5 | D6 | D7 _ | D8 _ | D9 => ndn s = sumZ (map (donecount (sig s)) (ws s))
  | _ => True
  end.

Definition Bperm (s : st) : Prop :=
  bk s = ntask s /\ 0 <= nxt s /\ Permutation (claimed s) (zseq (Z.min (nxt s) (ntask s))).

Definition I_batch (s : st) : Prop :=
  match mp s with
  | D1 | D2 | D3 | D4 _ => started s = [] /\ finished s = [] /\ bk s = ntask s
  | D5 | D6 | D7 _ | D8 _ => Bperm s
  | D9 | D10 => Bperm s /\ ntask s <= nxt s
  | MSer i k => bk s = k /\ 0 <= i /\ (i <= k \/ i = 0) /\ Permutation (map snd (started s)) (zseq i)
  | MSerRun i k => bk s = k /\ 0 <= i < k /\ Permutation (map snd (started s)) (zseq (i + 1))
  | MIdle => True
  | _ => started s = [] /\ finished s = []
  end.

Definition I_sf (s : st) : Prop :=
  Permutation (started s) (finished s ++ mrun (mp s) ++ flat_map wrun (ws s)).

Definition I_tid (s : st) : Prop :=
  Forall (fun p => 0 <= fst p <= (if pool s then nthr s else 0)) (started s).

Definition I_uniq (s : st) : Prop :=
  NoDup (map snd (started s)) /\ Forall (fun p => 0 <= snd p < bk s) (started s).

Record Inv (s : st) : Prop := mkInv {
  inv_struct : I_struct s;
  inv_wids : wids_ok (ws s);
  inv_sig : I_sig s;
  inv_workers : I_workers s;
  inv_count : I_count s;
  inv_batch : I_batch s;
  inv_sf : I_sf s;
  inv_tid : I_tid s;
  inv_uniq : I_uniq s }.

Lemma inv_init : Inv init.
Proof.
  constructor; unfold I_struct, wids_ok, I_sig, I_workers, I_count, I_batch, I_sf, I_tid, I_uniq; simpl; auto.
  - intros k w H. destruct k; discriminate.
  - intros; discriminate.
  - split; constructor.
Qed.

(* ------------------------------------------------------------------ tactics *)
Definition zz_dec : forall a b : Z * Z, {a = b} + {a <> b}.
Proof. decide equality; apply Z.eq_dec. Defined.

Ltac bools :=
  repeat match goal with
  | H : _ && _ = true |- _ => apply andb_true_iff in H; destruct H
  | H : _ || _ = true |- _ => apply orb_true_iff in H
  | H : _ && _ = false |- _ => apply andb_false_iff in H
  | H : _ || _ = false |- _ => apply orb_false_iff in H; destruct H
  | H : negb _ = true |- _ => apply negb_true_iff in H
  | H : negb _ = false |- _ => apply negb_false_iff in H
  | H : (_ =? _) = true |- _ => apply Z.eqb_eq in H
  | H : (_ =? _) = false |- _ => apply Z.eqb_neq in H
  | H : (_ <? _) = true |- _ => apply Z.ltb_lt in H
  | H : (_ <? _) = false |- _ => apply Z.ltb_ge in H
  | H : (_ <=? _) = true |- _ => apply Z.leb_le in H
  | H : (_ <=? _) = false |- _ => apply Z.leb_gt in H
  end.

Ltac og H :=
  unfold guard in H;
  repeat match type of H with
  | (if ?c then _ else _) = Some _ => let G := fresh "G" in destruct c eqn:G; try discriminate H
  | match ?c with _ => _ end = Some _ => let G := fresh "G" in destruct c eqn:G; try discriminate H
  end.

Ltac count_perm dec :=
  repeat match goal with H : Permutation _ _ |- _ => rewrite (Permutation_count_occ dec) in H end;
  try rewrite (Permutation_count_occ dec);
  let x := fresh "x" in intros x;
  repeat match goal with H : forall y, count_occ dec _ y = count_occ dec _ y |- _ => specialize (H x) end;
  repeat (rewrite ?count_occ_app in *; simpl in * );
  repeat match goal with
  | |- context [dec ?a x] => destruct (dec a x)
  | H : context [dec ?a x] |- _ => destruct (dec a x)
  end; subst; try congruence; try lia.

(* ------------------------------------------------------------------ preservation: main thread *)
Ltac unfI := unfold I_struct, I_sig, I_workers, I_count, I_batch, I_sf, I_tid, I_uniq, Bperm, claimed, full_pool, pm1, set_mp, set_sig, set_nxt, set_ndn, add_started, add_finished in *.

Lemma parked_wrun : forall sg l, Forall (parkedw sg) l -> flat_map wrun l = [].
Proof. intros. eapply flat_map_nil_Forall; eauto. intros x Hx. unfold wrun. now rewrite Hx. Qed.
Lemma parked_wpend : forall sg l, Forall (parkedw sg) l -> flat_map wpend l = [].
Proof. intros. eapply flat_map_nil_Forall; eauto. intros x Hx. unfold wpend. now rewrite Hx. Qed.
Lemma parked_okB_flip : forall v l, Forall (parkedw v) l -> Forall (okB (- v)) l.
Proof. intros v l H. eapply Forall_impl; [|exact H]. intros a Ha. unfold okB. rewrite Ha. right. lia. Qed.
Lemma parked_donecount_flip : forall v l, v <> 0 -> Forall (parkedw v) l -> sumZ (map (donecount (- v)) l) = 0.
Proof.
  intros v l Hv H. induction H; simpl; [reflexivity|]. rewrite IHForall. unfold donecount. rewrite H.
  destruct (v =? - v) eqn:E; [apply Z.eqb_eq in E; lia|reflexivity].
Qed.
Lemma parked_donecount_all : forall v l, Forall (parkedw v) l -> sumZ (map (donecount v) l) = Z.of_nat (length l).
Proof.
  intros v l H. induction H; simpl length; simpl; [reflexivity|]. rewrite IHForall. unfold donecount. rewrite H.
  rewrite Z.eqb_refl. lia.
Qed.


Lemma claimed_begin : forall L t ms m,
  Permutation L (zseq m) ->
  (forall x, (count_occ Z.eq_dec (t :: ms) x <= count_occ Z.eq_dec L x)%nat) ->
  NoDup (t :: ms) /\ 0 <= t < m.
Proof.
  intros L t ms m HP HC. rewrite (Permutation_count_occ Z.eq_dec) in HP.
  pose proof (zseq_nodup m) as ND. rewrite (NoDup_count_occ Z.eq_dec) in ND. split.
  - rewrite (NoDup_count_occ Z.eq_dec). intros x. specialize (HC x). specialize (HP x). specialize (ND x). lia.
  - apply zseq_in. apply (count_occ_In Z.eq_dec). specialize (HC t). specialize (HP t).
    simpl in HC. destruct (Z.eq_dec t t); [lia|congruence].
Qed.


Ltac count_perm' dec :=
  repeat match goal with H : Permutation _ _ |- _ => rewrite (Permutation_count_occ dec) in H end;
  try rewrite (Permutation_count_occ dec);
  let x := fresh "x" in intros x;
  repeat match goal with H : forall y, count_occ dec _ y = count_occ dec _ y |- _ => specialize (H x) end;
  repeat (rewrite ?count_occ_app in *; cbn [count_occ app] in * );
  repeat match goal with
  | |- context [dec ?a x] => destruct (dec a x)
  | H : context [dec ?a x] |- _ => destruct (dec a x)
  end; subst; try congruence; try lia.

Lemma wids_ok_nil : wids_ok [].
Proof. intros k w H. destruct k; discriminate. Qed.

Lemma wids_ok_app : forall l p, wids_ok l -> wids_ok (l ++ [mkW (Z.of_nat (length l) + 1) p]).
Proof.
  intros l p H k w E. destruct (Nat.lt_ge_cases k (length l)).
  - rewrite nth_error_app1 in E by lia. auto.
  - rewrite nth_error_app2 in E by lia. destruct (k - length l)%nat eqn:D; simpl in E.
    + inversion E; subst; simpl. f_equal. lia.
    + destruct n; discriminate.
Qed.

Lemma count_all_parked : forall sg l, Forall (okB sg) l ->
  Z.of_nat (length l) <= sumZ (map (donecount sg) l) -> Forall (parkedw sg) l.
Proof.
  intros sg l H. 
  assert (B : forall l', sumZ (map (donecount sg) l') <= Z.of_nat (length l')).
  { induction l'; simpl length; simpl; [lia|]. unfold donecount at 1. destruct (wp a); try lia. destruct (s =? sg); lia. }
  induction H as [|a l Ha Hl IH]; intros L; constructor.
  - simpl length in L; simpl in L. specialize (B l). unfold parkedw. unfold donecount in L at 1.
    destruct (wp a); try lia. destruct (s =? sg) eqn:E; [apply Z.eqb_eq in E; now subst|lia].
  - apply IH. simpl length in L; simpl in L. specialize (B l). unfold donecount in L at 1.
    destruct (wp a); try lia. destruct (s =? sg); lia.
Qed.

Lemma parked_okC : forall sg l, pm1 sg -> Forall (parkedw sg) l -> Forall okC l.
Proof. intros sg l P H. eapply Forall_impl; [|exact H]. intros a Ha. unfold okC. rewrite Ha. exact P. Qed.

Lemma okC_wrun : forall l, Forall okC l -> flat_map wrun l = [].
Proof. intros. eapply flat_map_nil_Forall; eauto. intros x Hx. unfold wrun, okC in *. destruct (wp x); tauto. Qed.

Ltac cnt := intros ?x; repeat (rewrite ?count_occ_app; cbn [count_occ app]); repeat match goal with |- context [Z.eq_dec ?a ?b] => destruct (Z.eq_dec a b) end; try lia; try congruence.

Ltac fin :=
  rewrite ?Z.min_l in * by lia; rewrite ?Z.min_r in * by lia; rewrite ?zseq_succ in * by lia;
  try solve [intuition (auto; try lia; try congruence)];
  try solve [repeat split; try constructor; simpl; auto; try lia; try congruence];
  try solve [intuition (auto; try lia; try congruence; count_perm' Z.eq_dec)];
  try solve [intuition (auto; try lia; try congruence; count_perm' zz_dec)].

Lemma inv_mstep : forall s e s', Inv s -> mstep s e = Some s' -> Inv s'.
Proof.
  intros s e s' [Hst Hwid Hsig Hw Hc Hb Hsf Htid Hu] H.
  unfold mstep in H.
  destruct (mp s) eqn:Hmp; destruct e; try discriminate H; og H; inversion H; subst s'; clear H;
  repeat match goal with |- context [if ?a <? ?b then _ else _] => destruct (a <? b) eqn:? 
                       | |- context [if ?a <=? ?b then _ else _] => destruct (a <=? b) eqn:? end;
  bools;
  (constructor; unfI; rewrite ?Hmp in *; simpl in *; auto using wids_ok_nil;
   try (erewrite parked_wrun in * by eauto); try (erewrite parked_wpend in * by eauto); simpl in *;
   fin).
  - (* 1 *) constructor; [simpl; destruct (pool s); intuition (try lia; try congruence)|assumption].
  - (* 2 *) destruct Hb as (Hk & Hi & _ & HP). split.
    + constructor; [|apply Hu]. intro HIn. eapply Permutation_in in HIn; [|exact HP]. apply zseq_in in HIn. lia.
    + constructor; [simpl; lia|apply Hu].
  - (* 3 *) destruct Hsig as [-> _]. apply parked_okB_flip; assumption.
  - (* 4 *) destruct Hsig as [-> P]. rewrite parked_donecount_flip; [tauto|destruct P; lia|assumption].
  - (* 5 *) destruct Hb as (S0 & F0 & K). destruct Hc as [N0 _]. rewrite S0, N0. simpl. repeat split; auto; [lia|].
    rewrite zseq_nonpos by lia. constructor.
  - (* 6 *) constructor; [simpl; destruct Hst as (P & N & _); rewrite P; lia|assumption].
  - (* 7 *) destruct Hb as (K & N0 & HP).
    destruct (claimed_begin _ t (map snd (started s)) _ HP) as [ND R]; [cnt|].
    split; [exact ND|]. constructor; [simpl; lia|apply Hu].
  - (* 8 *) apply count_all_parked; [exact Hw|]. rewrite <- Hc. destruct Hst as (_ & _ & L). lia.
  - (* 9 *) eapply parked_okC; [apply Hsig; apply Hst|exact Hw].
  - destruct Hb as [S0 F0]; rewrite S0, F0; constructor.
  - destruct Hb as [S0 F0]; rewrite S0; constructor.
  - destruct Hb as [S0 F0]; rewrite S0, F0; constructor.
  - destruct Hb as [S0 F0]; rewrite S0; constructor.
  - destruct Hb as [S0 F0]; rewrite S0; constructor.
  - (* spawn, more to come *) rewrite app_length; simpl. intuition lia.
  - destruct Hst as (_ & _ & -> & _). apply wids_ok_app; assumption.
  - apply Forall_app; split; [assumption|]. constructor; [|constructor]. unfold parkedw; simpl. now rewrite Hsig.
  - rewrite flat_map_app. rewrite (parked_wrun _ _ Hw). simpl. exact Hsf.
  - right. rewrite app_length; simpl. intuition lia.
  - destruct Hst as (_ & _ & -> & _). apply wids_ok_app; assumption.
  - apply Forall_app; split; [assumption|]. constructor; [|constructor]. unfold parkedw; simpl. now rewrite Hsig.
  - rewrite flat_map_app. rewrite (parked_wrun _ _ Hw). simpl. exact Hsf.
Qed.

(* ------------------------------------------------------------------ preservation: workers *)
Lemma wids_ok_upd : forall l k w p, wids_ok l -> nth_error l k = Some w -> wids_ok (upd k (mkW (wid w) p) l).
Proof.
  intros l k w p H Hn k' w' E.
  destruct (nth_error_split_upd _ _ _ _ Hn) as (l1 & l2 & El & L & U). rewrite U in E. subst k.
  destruct (Nat.eq_dec k' (length l1)) as [->|NE].
  - rewrite nth_error_mid in E. inversion E; subst w'; simpl. apply H. exact Hn.
  - apply H. rewrite El. 
    destruct (Nat.lt_ge_cases k' (length l1)).
    + rewrite nth_error_app1 in * by lia. exact E.
    + rewrite nth_error_app2 in * by lia. destruct (k' - length l1)%nat eqn:D; [lia|]. simpl in *. exact E.
Qed.

Ltac lnorm := rewrite ?Forall_app, ?Forall_cons_iff, ?map_app, ?sumZ_app, ?flat_map_app, ?app_length in *; simpl in *.

Lemma inv_wstep : forall s k e s', Inv s -> wstep s k e = Some s' -> Inv s'.
Proof.
  intros s k e s' [Hst Hwid Hsig Hw Hc Hb Hsf Htid Hu] H. unfold wstep in H.
  destruct (nth_error (ws s) k) as [w|] eqn:Hn; [|discriminate].
  destruct (wstep_pc s w e) as [[s1 p]|] eqn:Hs; [|discriminate]. inversion H; subst s'; clear H.
  pose proof (wids_ok_upd _ _ _ p Hwid Hn) as Hwid'.
  pose proof (Hwid _ _ Hn) as Hwk.
  destruct (nth_error_split_upd _ _ _ _ Hn) as (l1 & l2 & E & L & U). rewrite U in *. clear U.
  unfold wstep_pc in Hs.
  destruct (wp w) eqn:Hwp; destruct e; try discriminate Hs; og Hs; inversion Hs; subst s1 p; clear Hs; bools;
  destruct (mp s) eqn:Hmp;
  unfold I_workers in Hw; rewrite Hmp, E in Hw; rewrite Forall_app, Forall_cons_iff in Hw; destruct Hw as (Hw1 & Hww & Hw2);
  unfold okB, okC, parkedw in Hww; rewrite Hwp in Hww; try discriminate Hww; try (exfalso; congruence); try (exfalso; tauto).
  all: repeat match goal with |- context [if ?a <? ?b then _ else _] => destruct (a <? b) eqn:? 
                       | |- context [if ?a =? ?b then _ else _] => destruct (a =? b) eqn:? end; bools.
  all: constructor; auto; unfI; unfold set_ws; simpl; rewrite ?Hmp in *; rewrite ?E in *; lnorm;
       unfold okB, okC, parkedw, donecount, wpend, wrun in *; simpl; rewrite ?Hwp in *; simpl in *;
       repeat match goal with H : context [if ?a =? ?b then _ else _] |- _ => destruct (a =? b) eqn:?; bools 
                            | |- context [if ?a =? ?b then _ else _] => destruct (a =? b) eqn:?; bools end; fin.
  all: repeat match goal with H : _ /\ _ |- _ => destruct H end.
  all: try solve [split; [match goal with P : pool _ = true |- _ => rewrite P end; lia | assumption]].
  all: match goal with HP : Permutation ?L (zseq ?m) |- NoDup (?t :: ?ms) /\ _ =>
         destruct (claimed_begin L t ms m HP) as [ND R]; [cnt|] end;
       split; [exact ND|split; [lia|assumption]].
Qed.

(* ------------------------------------------------------------------ reachable states *)
(* unlabelled transition relation: the main thread or any worker takes one step *)
Definition Step (s s' : st) : Prop :=
  (exists e, mstep s e = Some s') \/ (exists k e, wstep s k e = Some s').

Inductive reachable : st -> Prop :=
| reach_init : reachable init
| reach_step : forall s s', reachable s -> Step s s' -> reachable s'.

Lemma inv_Step : forall s s', Inv s -> Step s s' -> Inv s'.
Proof. intros s s' HI [[e H]|[k [e H]]]; [eapply inv_mstep|eapply inv_wstep]; eauto. Qed.

Lemma reachable_inv : forall s, reachable s -> Inv s.
Proof. induction 1; [apply inv_init|eapply inv_Step; eauto]. Qed.

Lemma step_Step : forall s t e s', step s t e = Some s' -> Step s s'.
Proof.
  intros s t e s' H. unfold step in H. destruct (t =? 0); [left; eauto|].
  destruct (pool s && (base s + 1 <=? t)); [right; eauto|discriminate].
Qed.

(* every prefix of an accepted event log is a path of the transition system *)
Lemma run_reachable : forall l s s', reachable s -> run s l = Some s' -> reachable s'.
Proof.
  induction l as [|[t e] l IH]; intros s s' R H; simpl in H.
  - inversion H; subst; exact R.
  - destruct (step s t e) as [s1|] eqn:E; [|discriminate].
    eapply IH; [|exact H]. eapply reach_step; [exact R|]. eapply step_Step; eauto.
Qed.

(* ------------------------------------------------------------------ safety theorems *)
Lemma no_duplicate_in_range : forall s, reachable s ->
  NoDup (map snd (started s)) /\
  (forall tid t, In (tid, t) (started s) ->
     0 <= t < bk s /\ 0 <= tid <= (if pool s then nthr s else 0)).
Proof.
  intros s R. destruct (reachable_inv _ R) as [_ _ _ _ _ _ _ Htid [ND RG]]. split; [exact ND|].
  intros tid t HIn. unfold I_tid in Htid. rewrite Forall_forall in Htid, RG.
  split; [apply (RG _ HIn)|apply (Htid _ HIn)].
Qed.

Lemma return_after_all : forall s s', reachable s -> mstep s ERetDispatch = Some s' ->
  Permutation (map snd (finished s)) (zseq (bk s)) /\
  Permutation (started s) (finished s) /\
  Forall (fun w => wp w = WWait (sig s)) (ws s).
Proof.
  intros s s' R H. destruct (reachable_inv _ R) as [Hst Hwid Hsig Hw Hc Hb Hsf Htid Hu].
  unfold mstep in H. destruct (mp s) eqn:Hmp; try discriminate H; og H; bools;
  unfold I_workers, I_batch, I_sf, Bperm, claimed in *; rewrite Hmp in *; simpl in *;
  rewrite (parked_wrun _ _ Hw) in Hsf; rewrite ?(parked_wpend _ _ Hw) in Hb; simpl in *; rewrite app_nil_r in Hsf.
  - destruct Hb as (K & I0 & IK & HP). repeat split; [|exact Hsf|exact Hw].
    apply Permutation_trans with (map snd (started s)); [apply Permutation_map, Permutation_sym, Hsf|].
    replace (zseq (bk s)) with (zseq i); [exact HP|].
    destruct IK as [IK|IK]; [replace i with k by lia; now rewrite K|].
    subst i. rewrite K. now rewrite !zseq_nonpos by lia.
  - destruct Hb as ((K & N0 & HP) & NT). repeat split; [|exact Hsf|exact Hw].
    apply Permutation_trans with (map snd (started s)); [apply Permutation_map, Permutation_sym, Hsf|].
    rewrite Z.min_r in HP by lia. now rewrite K.
Qed.

Lemma parked_no_wstep : forall s, Forall (parkedw (sig s)) (ws s) -> forall k e, wstep s k e = None.
Proof.
  intros s Hw k e. unfold wstep. destruct (nth_error (ws s) k) as [w|] eqn:Hn; [|reflexivity].
  apply nth_error_In in Hn. rewrite Forall_forall in Hw. specialize (Hw _ Hn). unfold parkedw in Hw.
  unfold wstep_pc. rewrite Hw. destruct e; try reflexivity.
  rewrite (Z.eqb_refl (sig s)). simpl. now rewrite andb_false_r.
Qed.

Lemma parked_between_calls : forall s, reachable s -> mp s = MIdle ->
  ((pool s = false /\ ws s = []) \/
   (pool s = true /\ 1 <= nthr s /\ Z.of_nat (length (ws s)) = nthr s /\
    (sig s = 1 \/ sig s = -1) /\ Forall (fun w => wp w = WWait (sig s)) (ws s))) /\
  (forall k e, wstep s k e = None).
Proof.
  intros s R Hmp. destruct (reachable_inv _ R) as [Hst _ Hsig Hw _ _ _ _ _].
  unfold I_struct, I_sig, I_workers, full_pool, pm1 in *. rewrite Hmp in *. split.
  - destruct Hst as [?|(P & N & L)]; [left; assumption|right]. repeat split; auto.
  - apply parked_no_wstep; assumption.
Qed.

(* the plain batch fields (ntask_, func_, ...) are written by mju_dispatch only while no worker can read them *)
Lemma batch_fields_written_when_parked : forall s k s', reachable s -> mstep s (ECallDispatch k) = Some s' ->
  Forall (fun w => wp w = WWait (sig s)) (ws s) /\ (forall j e, wstep s j e = None).
Proof.
  intros s k s' R H. assert (Hmp : mp s = MIdle).
  { unfold mstep in H. destruct (mp s); try discriminate H; reflexivity. }
  destruct (reachable_inv _ R) as [_ _ _ Hw _ _ _ _ _]. unfold I_workers in Hw. rewrite Hmp in Hw.
  split; [exact Hw|apply parked_no_wstep; exact Hw].
Qed.

(* ------------------------------------------------------------------ variant *)
Local Arguments Z.add _ _ : simpl never.
Local Arguments Z.mul _ _ : simpl never.
Local Arguments Z.sub _ _ : simpl never.
Local Arguments Z.max _ _ : simpl never.
Local Arguments Z.opp _ : simpl never.
Local Arguments Z.of_nat _ : simpl never.

Lemma wcost_nonneg : forall ph sg p, 0 <= wcost ph sg p.
Proof. intros ph sg p. destruct ph, p; simpl; try lia. destruct (s =? sg); lia. Qed.

Lemma after_del_pos : forall n, 1 <= after_del n.
Proof. intros n. unfold after_del. destruct (1 <=? n) eqn:E; bools; lia. Qed.

Lemma zmeasure_nonneg : forall s, 0 <= zmeasure s.
Proof.
  intros s. unfold zmeasure.
  assert (0 <= sumZ (map (fun w => wcost (phase_of (mp s)) (sig s) (wp w)) (ws s))).
  { apply sumZ_map_nonneg. intros. apply wcost_nonneg. }
  assert (0 <= mcost s).
  { unfold mcost, max0. pose proof (after_del_pos 0). destruct (mp s); try lia;
    match goal with |- context [after_del ?n] => pose proof (after_del_pos n) end; lia. }
  lia.
Qed.

Lemma st_eta : forall s, mkSt (pool s) (nthr s) (sig s) (nxt s) (ndn s) (ntask s) (ws s) (mp s)
       (onext s) (odone s) (osig s) (nsp s) (base s) (bk s) (started s) (finished s) = s.
Proof. destruct s; reflexivity. Qed.

Lemma variant_mstep : forall s e s', Inv s -> mstep s e = Some s' -> mp s <> MIdle ->
  zmeasure s' < zmeasure s \/ (s' = s /\ mp s = D9 /\ ndn s < nthr s).
Proof.
  intros s e s' [Hst Hwid Hsig Hw Hc Hb Hsf Htid Hu] H NI.
  unfold mstep in H.
  destruct (mp s) eqn:Hmp; try congruence; destruct e; try discriminate H; og H; inversion H; subst s'; clear H;
  repeat match goal with |- context [if ?a <? ?b then _ else _] => destruct (a <? b) eqn:? 
                       | |- context [if ?a <=? ?b then _ else _] => destruct (a <=? b) eqn:? end;
  bools; unfold zmeasure, mcost, after_del, max0; unfI; rewrite ?Hmp in *; simpl in *; try lia.
  all: try solve [left; lia].
  - (* D4 -> D5 *) left. destruct Hsig as [-> P].
    rewrite (sumZ_map_ext_Forall _ _ _ (fun _ => 4) _ Hw)
      by (intros x Hx; rewrite Hx; destruct (sig s =? - sig s) eqn:E; [bools; destruct P; lia|reflexivity]).
    rewrite (sumZ_map_ext_Forall _ _ (fun w => match wp w with WWait _ => 4 | _ => 0 end) (fun _ => 4) _ Hw)
      by (intros x Hx; now rewrite Hx).
    lia.
  - (* D9 spin *) right. split; [|split; [reflexivity|lia]]. rewrite <- Hmp. apply st_eta.
  - (* D10 -> MIdle *) left. rewrite (sumZ_map_zero _ (fun _ => 0)) by reflexivity.
    match goal with |- context [sumZ (map ?f (ws s))] => pose proof (sumZ_map_nonneg _ f (ws s)) as NN end.
    assert (0 <= 1) by lia. 
    match type of NN with ?A -> _ => assert (HA : A); [intros x; destruct (wp x); try lia; destruct (s0 =? sig s); lia|specialize (NN HA)] end. lia.
  - left. match goal with |- context [sumZ (map ?f (ws s))] => pose proof (sumZ_map_nonneg _ f (ws s)) as NN end.
    match type of NN with ?A -> _ => assert (HA : A); [intros x; destruct (wp x); lia|specialize (NN HA)] end.
    destruct (1 <=? n) eqn:?; bools; lia.
  - left. match goal with |- context [sumZ (map ?f (ws s))] => pose proof (sumZ_map_nonneg _ f (ws s)) as NN end.
    match type of NN with ?A -> _ => assert (HA : A); [intros x; destruct (wp x); lia|specialize (NN HA)] end.
    destruct (1 <=? n) eqn:?; bools; lia.
  - left. rewrite (sumZ_map_zero _ (fun _ => 0)) by reflexivity. lia.
  - left. rewrite !(sumZ_map_zero _ (fun _ => 0)) by reflexivity. lia.
  - left. rewrite !(sumZ_map_zero _ (fun _ => 0)) by reflexivity. lia.
Qed.

Lemma variant_wstep : forall s k e s', Inv s -> wstep s k e = Some s' -> zmeasure s' < zmeasure s.
Proof.
  intros s k e s' [Hst Hwid Hsig Hw Hc Hb Hsf Htid Hu] H. unfold wstep in H.
  destruct (nth_error (ws s) k) as [w|] eqn:Hn; [|discriminate].
  destruct (wstep_pc s w e) as [[s1 p]|] eqn:Hs; [|discriminate]. inversion H; subst s'; clear H.
  destruct (nth_error_split_upd _ _ _ _ Hn) as (l1 & l2 & E & L & U). rewrite U in *. clear U.
  unfold wstep_pc in Hs.
  destruct (wp w) eqn:Hwp; destruct e; try discriminate Hs; og Hs; inversion Hs; subst s1 p; clear Hs; bools;
  destruct (mp s) eqn:Hmp;
  unfold I_workers in Hw; rewrite Hmp, E in Hw; rewrite Forall_app, Forall_cons_iff in Hw; destruct Hw as (Hw1 & Hww & Hw2);
  unfold okB, okC, parkedw in Hww; rewrite Hwp in Hww; try discriminate Hww; try (exfalso; congruence); try (exfalso; tauto).
  all: repeat match goal with |- context [if ?a <? ?b then _ else _] => destruct (a <? b) eqn:? 
                       | |- context [if ?a =? ?b then _ else _] => destruct (a =? b) eqn:? end; bools.
  all: unfold zmeasure, mcost, after_del, max0, set_ws, set_nxt, set_ndn, add_started, add_finished; simpl; rewrite ?Hmp; rewrite ?E; simpl;
       rewrite ?map_app, ?sumZ_app, ?app_length; simpl; rewrite ?Hwp; simpl;
       repeat match goal with |- context [if ?a =? ?b then _ else _] => destruct (a =? b) eqn:?; bools end; try lia.
Qed.

(* ------------------------------------------------------------------ progress *)
Lemma exists_not_done : forall sg l, sumZ (map (donecount sg) l) < Z.of_nat (length l) ->
  exists l1 w l2, l = l1 ++ w :: l2 /\ wp w <> WWait sg.
Proof.
  intros sg l. induction l as [|a l IH]; simpl length; simpl; intros H; [lia|].
  destruct (wp a) eqn:Ha; try (exists [], a, l; split; [reflexivity|congruence]).
  destruct (s =? sg) eqn:E; bools.
  - unfold donecount in H at 1. rewrite Ha in H. rewrite (proj2 (Z.eqb_eq s sg) E) in H.
    destruct IH as (l1 & w & l2 & El & Hw); [lia|]. exists (a :: l1), w, l2. split; [now rewrite El|exact Hw].
  - exists [], a, l. split; [reflexivity|]. rewrite Ha. congruence.
Qed.

Lemma worker_enabled_B : forall s w, okB (sig s) w -> pm1 (sig s) -> wp w <> WWait (sig s) ->
  exists e s1 p, wstep_pc s w e = Some (s1, p).
Proof.
  intros s w Hok P NW. unfold okB in Hok. unfold wstep_pc. destruct (wp w) eqn:Hwp; try tauto.
  - exists (EWaitRet (osig s) s0). rewrite !Z.eqb_refl. simpl.
    destruct (sig s =? s0) eqn:E; bools; [congruence|simpl; eauto].
  - exists (ELoad (osig s) (sig s)). rewrite !Z.eqb_refl. simpl. eauto.
  - exists (EFetchAdd (onext s) (nxt s) 1). rewrite !Z.eqb_refl. simpl. eauto.
  - exists (EBegin (wid w) t). rewrite !Z.eqb_refl. simpl. eauto.
  - exists (EEnd (wid w) t). rewrite !Z.eqb_refl. simpl. eauto.
  - exists (EFetchAdd (odone s) (ndn s) 1). rewrite !Z.eqb_refl. simpl. eauto.
Qed.

Lemma worker_enabled_C : forall s w, okC w -> sig s = 0 -> wp w <> WExited ->
  exists e s1 p, wstep_pc s w e = Some (s1, p).
Proof.
  intros s w Hok P NW. unfold okC in Hok. unfold wstep_pc. destruct (wp w) eqn:Hwp; try tauto.
  - exists (EWaitRet (osig s) s0). rewrite !Z.eqb_refl. simpl.
    destruct (sig s =? s0) eqn:E; bools; [lia|simpl; eauto].
  - exists (ELoad (osig s) (sig s)). rewrite !Z.eqb_refl. simpl. eauto.
  - exists EExit. eauto.
Qed.

Lemma wstep_of_pc : forall s l1 w l2 e s1 p, ws s = l1 ++ w :: l2 -> wstep_pc s w e = Some (s1, p) ->
  exists s', wstep s (length l1) e = Some s'.
Proof. intros. unfold wstep. rewrite H, nth_error_mid, H0. eauto. Qed.

Lemma progress : forall s, Inv s -> mp s <> MIdle -> exists s', Step s s' /\ zmeasure s' < zmeasure s.
Proof.
  intros s HI NI. pose proof HI as [Hst Hwid Hsig Hw Hc Hb Hsf Htid Hu].
  assert (MAIN : forall e s', mstep s e = Some s' -> (mp s = D9 -> ~ ndn s < nthr s) ->
                 exists s', Step s s' /\ zmeasure s' < zmeasure s).
  { intros e s' Hs' ND. exists s'. split; [left; eauto|].
    destruct (variant_mstep _ _ _ HI Hs' NI) as [?|(_ & ? & ?)]; [assumption|]. exfalso. now apply ND. }
  assert (WORK : forall l1 w l2 e s1 p, ws s = l1 ++ w :: l2 -> wstep_pc s w e = Some (s1, p) ->
                 exists s', Step s s' /\ zmeasure s' < zmeasure s).
  { intros l1 w l2 e s1 p El Hp. destruct (wstep_of_pc _ _ _ _ _ _ _ El Hp) as [s' Hs'].
    exists s'. split; [right; eauto|eapply variant_wstep; eauto]. }
  unfold I_struct, I_sig, I_workers, I_count, full_pool in *.
  destruct (mp s) eqn:Hmp; try congruence.
  - (* MSer *) destruct (i <? k) eqn:C.
    + eapply (MAIN (EBegin 0 i)); [|congruence]. unfold mstep, guard. rewrite Hmp, C, !Z.eqb_refl. simpl. eauto.
    + eapply (MAIN ERetDispatch); [|congruence]. unfold mstep, guard. rewrite Hmp, C. simpl. eauto.
  - eapply (MAIN (EEnd 0 i)); [|congruence]. unfold mstep, guard. rewrite Hmp, !Z.eqb_refl. simpl. eauto.
  - eapply (MAIN (EStore (onext s) 0)); [|congruence]. unfold mstep, guard. rewrite Hmp, !Z.eqb_refl. simpl. eauto.
  - eapply (MAIN (EStore (odone s) 0)); [|congruence]. unfold mstep, guard. rewrite Hmp, !Z.eqb_refl. simpl. eauto.
  - eapply (MAIN (ELoad (osig s) (sig s))); [|congruence]. unfold mstep, guard. rewrite Hmp, !Z.eqb_refl. simpl. eauto.
  - eapply (MAIN (EStore (osig s) (- v))); [|congruence]. unfold mstep, guard. rewrite Hmp, !Z.eqb_refl. simpl. eauto.
  - eapply (MAIN (ENotify (osig s))); [|congruence]. unfold mstep, guard. rewrite Hmp, !Z.eqb_refl. eauto.
  - eapply (MAIN (EFetchAdd (onext s) (nxt s) 1)); [|congruence]. unfold mstep, guard. rewrite Hmp, !Z.eqb_refl. simpl. eauto.
  - eapply (MAIN (EBegin 0 t)); [|congruence]. unfold mstep, guard. rewrite Hmp, !Z.eqb_refl. simpl. eauto.
  - eapply (MAIN (EEnd 0 t)); [|congruence]. unfold mstep, guard. rewrite Hmp, !Z.eqb_refl. simpl. eauto.
  - (* D9 *) destruct (ndn s <? nthr s) eqn:C; bools.
    + destruct Hst as (P & N & Ln).
      destruct (exists_not_done (sig s) (ws s)) as (l1 & w & l2 & El & NW); [lia|].
      rewrite El in Hw. rewrite Forall_app, Forall_cons_iff in Hw. destruct Hw as (_ & Hww & _).
      destruct (worker_enabled_B s w Hww (Hsig P) NW) as (e & s1 & p & Hp). eapply WORK; eauto.
    + eapply (MAIN (ELoad (odone s) (ndn s))); [|intros _; lia]. unfold mstep, guard. rewrite Hmp, !Z.eqb_refl. simpl. eauto.
  - eapply (MAIN ERetDispatch); [|congruence]. unfold mstep. rewrite Hmp. eauto.
  - eapply (MAIN ERetPool); [|congruence]. unfold mstep. rewrite Hmp. eauto.
  - eapply (MAIN (EStore (osig s) 0)); [|congruence]. unfold mstep, guard. rewrite Hmp, !Z.eqb_refl. simpl. eauto.
  - eapply (MAIN (ENotify (osig s))); [|congruence]. unfold mstep, guard. rewrite Hmp, !Z.eqb_refl. eauto.
  - (* PDelJoin *) destruct Hst as ((P & N & Ln) & J).
    destruct (nth_error (ws s) (Z.to_nat j)) as [w|] eqn:Hn; [|apply nth_error_None in Hn; lia].
    destruct (nth_error_split_upd _ _ _ _ Hn) as (l1 & l2 & El & L & _).
    assert (Hww : okC w). { rewrite El in Hw. rewrite Forall_app, Forall_cons_iff in Hw. tauto. }
    destruct (wp w) eqn:Hwp;
      try (destruct (worker_enabled_C s w Hww Hsig) as (e & s1 & p & Hp); [congruence|eapply WORK; eauto]).
    destruct (j + 1 <? Z.of_nat (length (ws s))) eqn:C2;
    (eapply (MAIN (EJoin (base s + j + 1))); [|congruence]; unfold mstep; rewrite Hmp, Hn, Hwp, Z.eqb_refl;
     replace (0 <=? j) with true by (symmetry; apply Z.leb_le; lia); simpl; rewrite C2; eauto).
  - (* PNewInit *) destruct (r =? 0) eqn:C0; [|destruct (r =? 1) eqn:C1];
    (eapply (MAIN (EInit 0 (if r =? 0 then 0 else if r =? 1 then 0 else 1))); [|congruence];
     unfold mstep, guard; rewrite Hmp, C0, ?C1; simpl; eauto).
  - eapply (MAIN (ESpawn (base s + j + 1))); [|congruence]. unfold mstep, guard. rewrite Hmp, !Z.eqb_refl. eauto.
Qed.

(* ------------------------------------------------------------------ exported forms *)
From Coq Require Import Relations.

Lemma measure_lt : forall s s', zmeasure s' < zmeasure s -> (measure s' < measure s)%nat.
Proof. intros s s' H. unfold measure. pose proof (zmeasure_nonneg s'). lia. Qed.

Lemma progress_reachable : forall s, reachable s -> mp s <> MIdle ->
  exists s', Step s s' /\ (measure s' < measure s)%nat.
Proof.
  intros s R NI. destruct (progress s (reachable_inv _ R) NI) as (s' & St & M).
  exists s'. split; [exact St|apply measure_lt; exact M].
Qed.

Lemma variant_reachable : forall s s', reachable s -> Step s s' -> mp s <> MIdle ->
  (measure s' < measure s)%nat \/ (s' = s /\ mp s = D9 /\ ndn s < nthr s).
Proof.
  intros s s' R [[e H]|[k [e H]]] NI.
  - destruct (variant_mstep _ _ _ (reachable_inv _ R) H NI) as [M|?]; [left; apply measure_lt; exact M|right; assumption].
  - left. apply measure_lt. eapply variant_wstep; [apply reachable_inv; exact R|exact H].
Qed.

Lemma call_returns_aux : forall n s, (measure s <= n)%nat -> reachable s ->
  exists s', clos_refl_trans st Step s s' /\ mp s' = MIdle.
Proof.
  induction n as [|n IH]; intros s Hm R.
  - destruct (mp s) eqn:Hmp; try (exists s; split; [apply rt_refl|assumption]);
    (destruct (progress_reachable s R) as (s' & _ & M); [congruence|lia]).
  - destruct (mp s) eqn:Hmp; try (exists s; split; [apply rt_refl|assumption]);
    (destruct (progress_reachable s R) as (s' & St & M); [congruence|];
     destruct (IH s') as (s'' & Path & Idle); [lia|eapply reach_step; eauto|];
     exists s''; split; [eapply rt_trans; [apply rt_step; exact St|exact Path]|exact Idle]).
Qed.

Lemma call_returns : forall s, reachable s -> exists s', clos_refl_trans st Step s s' /\ mp s' = MIdle.
Proof. intros s R. eapply call_returns_aux; [apply Nat.le_refl|exact R]. Qed.
