(* C45 — proofs over R (Coquelicot) about Model/MjxGrad.v *)
From Coq Require Import ZArith List Bool Reals Lra Lia Psatz.
From Coquelicot Require Import Coquelicot.
From MJV Require Import Lib.Num Lib.NumR Model.MjxGrad.
Import ListNotations.
Open Scope R_scope.

(* ------------------------------------------------------------------ small facts *)
Lemma dec8_pos : 0 < Rdec 1 (-8).
Proof. unfold Rdec. apply Rdiv_lt_0_compat; [lra|]. apply IZR_lt. reflexivity. Qed.
Lemma dec15_pos : 0 < Rdec 1 (-15).
Proof. unfold Rdec. apply Rdiv_lt_0_compat; [lra|]. apply IZR_lt. reflexivity. Qed.

Lemma ltb_t : forall a b : R, a < b -> Rltb a b = true.
Proof. intros. apply Rltb_true. assumption. Qed.
Lemma ltb_f : forall a b : R, b <= a -> Rltb a b = false.
Proof. intros. apply Rltb_false. assumption. Qed.
Lemma leb_t : forall a b : R, a <= b -> Rleb a b = true.
Proof. intros. apply Rleb_true. assumption. Qed.
Lemma leb_f : forall a b : R, b < a -> Rleb a b = false.
Proof. intros. apply Rleb_false. assumption. Qed.

Lemma allclose0_false : forall c : R, Rdec 1 (-8) < c -> allclose0 c = false.
Proof.
  intros c H. unfold allclose0. num_R. apply leb_f. pose proof dec8_pos.
  rewrite Rabs_right; lra.
Qed.

Lemma tiny_pos : 0 < tiny (T:=R).
Proof. unfold tiny. num_R. unfold Rdec. apply Rdiv_lt_0_compat; [lra|]. apply IZR_lt. reflexivity. Qed.

Lemma den_pos : forall u : R, 0 <= u -> 0 < u + (if allclose0 u then tiny else 0).
Proof.
  intros u Hu. pose proof tiny_pos. pose proof dec8_pos. destruct (allclose0 u) eqn:E; [lra|].
  unfold allclose0 in E. num_R. apply Rleb_false in E. rewrite Rabs_right in E; lra.
Qed.

(* a continuous function that is negative at a point is negative around it *)
Lemma loc_neg : forall (g : R -> R) (t0 : R), (forall t : R, continuous g t) -> g t0 < 0 -> locally t0 (fun t => g t < 0).
Proof.
  intros g t0 Hc H0.
  exact (open_comp g (fun u : R => u < 0) (fun t _ => Hc t) (open_lt 0) t0 H0).
Qed.

(* ------------------------------------------------------------------ the five smooth branches of cyl_form *)
Lemma sqrt00 : sqrt (0 * 0 + 0 * 0) = 0.
Proof. replace (0 * 0 + 0 * 0) with 0 by ring. apply sqrt_0. Qed.

Lemma form_in_radial : forall a0 a1 : R, a1 < a0 -> a0 < 0 -> cyl_form a0 a1 = a0.
Proof.
  intros a0 a1 H1 H2. unfold cyl_form, nmax, nmin. num_R.
  rewrite (ltb_t a0 0), (ltb_t a1 0), (ltb_f a0 a1), (ltb_t a0 0) by lra. rewrite sqrt00. ring.
Qed.

Lemma form_in_axial : forall a0 a1 : R, a0 < a1 -> a1 < 0 -> cyl_form a0 a1 = a1.
Proof.
  intros a0 a1 H1 H2. unfold cyl_form, nmax, nmin. num_R.
  rewrite (ltb_t a0 0), (ltb_t a1 0), (ltb_t a0 a1), (ltb_t a1 0) by lra. rewrite sqrt00. ring.
Qed.

Lemma form_out_radial : forall a0 a1 : R, 0 < a0 -> a1 < 0 -> cyl_form a0 a1 = a0.
Proof.
  intros a0 a1 H1 H2. unfold cyl_form, nmax, nmin. num_R.
  rewrite (ltb_f a0 0), (ltb_t a1 0), (ltb_f a0 a1), (ltb_f a0 0) by lra.
  replace (a0 * a0 + 0 * 0) with (a0 * a0) by ring. rewrite sqrt_square by lra. ring.
Qed.

Lemma form_out_axial : forall a0 a1 : R, a0 < 0 -> 0 < a1 -> cyl_form a0 a1 = a1.
Proof.
  intros a0 a1 H1 H2. unfold cyl_form, nmax, nmin. num_R.
  rewrite (ltb_t a0 0), (ltb_f a1 0), (ltb_t a0 a1), (ltb_f a1 0) by lra.
  replace (0 * 0 + a1 * a1) with (a1 * a1) by ring. rewrite sqrt_square by lra. ring.
Qed.

Lemma form_corner : forall a0 a1 : R, 0 < a0 -> 0 < a1 -> cyl_form a0 a1 = sqrt (a0 * a0 + a1 * a1).
Proof.
  intros a0 a1 H1 H2. unfold cyl_form, nmax, nmin. num_R.
  rewrite (ltb_f a0 0), (ltb_f a1 0) by lra.
  destruct (Rltb a0 a1) eqn:E.
  - rewrite (ltb_f a1 0) by lra. ring.
  - rewrite (ltb_f a0 0) by lra. ring.
Qed.

(* ------------------------------------------------------------------ the two arguments along a line x + t v *)
Section Line.
  Variables x0 x1 x2 r h v0 v1 v2 : R.

  Definition A0 (t : R) : R := cyl_a0 (x0 + t * v0) (x1 + t * v1) r.
  Definition A1 (t : R) : R := cyl_a1 (x2 + t * v2) h.
  Definition cylL (t : R) : R := cyl (x0 + t * v0) (x1 + t * v1) (x2 + t * v2) r h.

  Lemma cylL_form : forall t : R, cylL t = cyl_form (A0 t) (A1 t).
  Proof. reflexivity. Qed.

  Lemma cont_A0 : forall t : R, continuous A0 t.
  Proof.
    intro t. unfold A0, cyl_a0. num_R.
    apply (continuous_minus (fun t => sqrt ((x0 + t * v0) * (x0 + t * v0) + (x1 + t * v1) * (x1 + t * v1))) (fun _ => r)).
    - apply continuous_sqrt_comp.
      apply (ex_derive_continuous (fun t => (x0 + t * v0) * (x0 + t * v0) + (x1 + t * v1) * (x1 + t * v1))).
      auto_derive. exact I.
    - apply continuous_const.
  Qed.

  Lemma cont_A1 : forall t : R, continuous A1 t.
  Proof.
    intro t. unfold A1, cyl_a1. num_R.
    apply (continuous_minus (fun t => Rabs (x2 + t * v2)) (fun _ => h)).
    - apply continuous_Rabs_comp.
      apply (ex_derive_continuous (fun t => x2 + t * v2)). auto_derive. exact I.
    - apply continuous_const.
  Qed.

  Lemma cont_opp : forall (g : R -> R), (forall t, continuous g t) -> forall t, continuous (fun u => - g u) t.
  Proof. intros g Hg t. apply (continuous_opp g). apply Hg. Qed.

  Lemma cont_diff : forall (f g : R -> R), (forall t, continuous f t) -> (forall t, continuous g t) ->
      forall t, continuous (fun u => f u - g u) t.
  Proof. intros f g Hf Hg t. apply (continuous_minus f g); [apply Hf | apply Hg]. Qed.

  Let c := sqrt (x0 * x0 + x1 * x1).
  Let e := Rabs x2.

  Lemma A0_0 : A0 0 = c - r.
  Proof. unfold A0, cyl_a0, c. num_R. rewrite !Rmult_0_l, !Rplus_0_r. reflexivity. Qed.
  Lemma A1_0 : A1 0 = e - h.
  Proof. unfold A1, cyl_a1, e. num_R. rewrite !Rmult_0_l, !Rplus_0_r. reflexivity. Qed.

  (* derivatives of the two arguments *)
  Lemma derive_A0 : 0 < c -> is_derive A0 0 ((x0 * v0 + x1 * v1) / c).
  Proof.
    intro Hc. unfold A0, cyl_a0. num_R.
    assert (Hq : 0 < x0 * x0 + x1 * x1).
    { destruct (Rle_lt_or_eq_dec 0 (x0 * x0 + x1 * x1)) as [L|E]; [nra | exact L |].
      exfalso. unfold c in Hc. rewrite <- E in Hc. rewrite sqrt_0 in Hc. lra. }
    auto_derive.
    - rewrite !Rmult_0_l, !Rplus_0_r. exact Hq.
    - rewrite !Rmult_0_l, !Rplus_0_r. fold c. field. lra.
  Qed.

  Lemma derive_A1 : x2 <> 0 -> is_derive A1 0 (x2 * v2 / e).
  Proof.
    intro Hx. unfold A1, cyl_a1. num_R.
    assert (He : e <> 0) by (unfold e; apply Rabs_no_R0; exact Hx).
    destruct (Rlt_or_le 0 x2) as [P|N].
    - (* x2 > 0: locally |x2 + t v2| = x2 + t v2 *)
      apply (is_derive_ext_loc (fun t => (x2 + t * v2) - h)).
      + assert (L : locally 0 (fun t => - (x2 + t * v2) < 0)).
        { apply (loc_neg (fun t => - (x2 + t * v2))); [|rewrite Rmult_0_l; lra].
          intro t. apply (ex_derive_continuous (fun t => - (x2 + t * v2))). auto_derive. exact I. }
        refine (filter_imp _ _ _ L); intros t Ht; cbv beta in Ht; cbv beta. simpl. rewrite Rabs_right; lra.
      + auto_derive; [exact I|]. unfold e. rewrite Rabs_right by lra. field. lra.
    - assert (N' : x2 < 0) by lra.
      apply (is_derive_ext_loc (fun t => - (x2 + t * v2) - h)).
      + assert (L : locally 0 (fun t => (x2 + t * v2) < 0)).
        { apply (loc_neg (fun t => (x2 + t * v2))); [|rewrite Rmult_0_l; lra].
          intro t. apply (ex_derive_continuous (fun t => (x2 + t * v2))). auto_derive. exact I. }
        refine (filter_imp _ _ _ L); intros t Ht; cbv beta in Ht; cbv beta. simpl. rewrite Rabs_left; lra.
      + auto_derive; [exact I|]. unfold e. rewrite Rabs_left by lra. field. lra.
  Qed.

  (* value of the custom gradient's dot product in each region *)
  Lemma c_nonneg : 0 <= c.
  Proof. apply sqrt_pos. Qed.
  Lemma e_nonneg : 0 <= e.
  Proof. apply Rabs_pos. Qed.

  Definition jvp : R := cyl_jvp x0 x1 x2 r h v0 v1 v2 0 0.

  Lemma jvp_in_radial : e - h < c - r -> c - r < 0 -> Rdec 1 (-8) < c -> jvp = (x0 * v0 + x1 * v1) / c.
  Proof.
    intros H1 H2 H3. unfold jvp, cyl_jvp, cyl_grad, nmax. num_R. fold c e.
    rewrite (allclose0_false c H3).
    rewrite (ltb_f (c - r) (e - h)) by lra. rewrite (ltb_t (c - r) 0) by lra.
    pose proof dec8_pos. field. lra.
  Qed.

  Lemma jvp_in_axial : c - r < e - h -> e - h < 0 -> Rdec 1 (-8) < e -> jvp = x2 * v2 / e.
  Proof.
    intros H1 H2 H3. unfold jvp, cyl_jvp, cyl_grad, nmax. num_R. fold c e.
    rewrite (allclose0_false e H3).
    rewrite (ltb_t (c - r) (e - h)) by lra. rewrite (ltb_t (e - h) 0) by lra.
    pose proof dec8_pos. field. lra.
  Qed.

  Lemma jvp_out_radial : 0 < c - r -> e - h < 0 -> Rdec 1 (-8) < c -> Rdec 1 (-8) < c - r -> jvp = (x0 * v0 + x1 * v1) / c.
  Proof.
    intros H1 H2 H3 H4. unfold jvp, cyl_jvp, cyl_grad, nmax. num_R. fold c e.
    rewrite (allclose0_false c H3).
    rewrite (ltb_f (c - r) (e - h)) by lra. rewrite (ltb_f (c - r) 0) by lra.
    rewrite (ltb_t (e - h) 0) by lra.
    replace ((c - r) * (c - r) + 0 * 0) with ((c - r) * (c - r)) by ring. rewrite sqrt_square by lra.
    rewrite (allclose0_false (c - r) H4).
    pose proof dec8_pos. pose proof (den_pos e e_nonneg) as De.
    set (ed := e + (if allclose0 e then tiny else 0)) in *.
    field. repeat split; lra.
  Qed.

  Lemma jvp_out_axial : c - r < 0 -> 0 < e - h -> Rdec 1 (-8) < e -> Rdec 1 (-8) < e - h -> jvp = x2 * v2 / e.
  Proof.
    intros H1 H2 H3 H4. unfold jvp, cyl_jvp, cyl_grad, nmax. num_R. fold c e.
    rewrite (allclose0_false e H3).
    rewrite (ltb_t (c - r) (e - h)) by lra. rewrite (ltb_f (e - h) 0) by lra.
    rewrite (ltb_t (c - r) 0) by lra.
    replace (0 * 0 + (e - h) * (e - h)) with ((e - h) * (e - h)) by ring. rewrite sqrt_square by lra.
    rewrite (allclose0_false (e - h) H4).
    pose proof dec8_pos. pose proof (den_pos c c_nonneg) as Dc.
    set (cd := c + (if allclose0 c then tiny else 0)) in *.
    field. repeat split; lra.
  Qed.

  Lemma jvp_corner : 0 < c - r -> 0 < e - h -> Rdec 1 (-8) < c -> Rdec 1 (-8) < e ->
      Rdec 1 (-8) < sqrt ((c - r) * (c - r) + (e - h) * (e - h)) ->
      jvp = ((c - r) * ((x0 * v0 + x1 * v1) / c) + (e - h) * (x2 * v2 / e)) / sqrt ((c - r) * (c - r) + (e - h) * (e - h)).
  Proof.
    intros H1 H2 H3 H4 H5. unfold jvp, cyl_jvp, cyl_grad, nmax. num_R. fold c e.
    rewrite (allclose0_false c H3), (allclose0_false e H4).
    rewrite (ltb_f (c - r) 0), (ltb_f (e - h) 0) by lra.
    rewrite (allclose0_false _ H5).
    pose proof dec8_pos.
    destruct (Rltb (c - r) (e - h)) eqn:E; rewrite ?(ltb_f (e - h) 0), ?(ltb_f (c - r) 0) by lra; field; lra.
  Qed.

  (* ---- the custom tangent is the derivative of the primal along x + t v, region by region *)
  Theorem cyl_jvp_in_radial : e - h < c - r -> c - r < 0 -> Rdec 1 (-8) < c -> is_derive cylL 0 jvp.
  Proof.
    intros H1 H2 H3. pose proof dec8_pos as P8.
    rewrite (jvp_in_radial H1 H2 H3).
    apply (is_derive_ext_loc A0); [|apply derive_A0; lra].
    assert (L1 : locally 0 (fun t => A0 t < 0)) by (apply loc_neg; [apply cont_A0 | rewrite A0_0; exact H2]).
    assert (L2 : locally 0 (fun t => A1 t - A0 t < 0)).
    { apply (loc_neg (fun t => A1 t - A0 t)); [apply cont_diff; [apply cont_A1 | apply cont_A0] | rewrite A0_0, A1_0; lra]. }
    refine (filter_imp _ _ _ (filter_and _ _ L1 L2)); intros t Ht; cbv beta in Ht; cbv beta.
    destruct Ht as [Ha Hb]. rewrite cylL_form. symmetry. apply form_in_radial; lra.
  Qed.

  Theorem cyl_jvp_in_axial : c - r < e - h -> e - h < 0 -> Rdec 1 (-8) < e -> is_derive cylL 0 jvp.
  Proof.
    intros H1 H2 H3. pose proof dec8_pos as P8.
    rewrite (jvp_in_axial H1 H2 H3).
    assert (Hx : x2 <> 0) by (intro E; unfold e in H3; rewrite E, Rabs_R0 in H3; lra).
    apply (is_derive_ext_loc A1); [|apply derive_A1; exact Hx].
    assert (L1 : locally 0 (fun t => A1 t < 0)) by (apply loc_neg; [apply cont_A1 | rewrite A1_0; exact H2]).
    assert (L2 : locally 0 (fun t => A0 t - A1 t < 0)).
    { apply (loc_neg (fun t => A0 t - A1 t)); [apply cont_diff; [apply cont_A0 | apply cont_A1] | rewrite A0_0, A1_0; lra]. }
    refine (filter_imp _ _ _ (filter_and _ _ L1 L2)); intros t Ht; cbv beta in Ht; cbv beta.
    destruct Ht as [Ha Hb]. rewrite cylL_form. symmetry. apply form_in_axial; lra.
  Qed.

  Theorem cyl_jvp_out_radial : 0 < c - r -> e - h < 0 -> Rdec 1 (-8) < c -> Rdec 1 (-8) < c - r -> is_derive cylL 0 jvp.
  Proof.
    intros H1 H2 H3 H4. pose proof dec8_pos as P8.
    rewrite (jvp_out_radial H1 H2 H3 H4).
    apply (is_derive_ext_loc A0); [|apply derive_A0; lra].
    assert (L1 : locally 0 (fun t => - A0 t < 0)).
    { apply (loc_neg (fun t => - A0 t)); [apply cont_opp; apply cont_A0 | rewrite A0_0; lra]. }
    assert (L2 : locally 0 (fun t => A1 t < 0)) by (apply loc_neg; [apply cont_A1 | rewrite A1_0; exact H2]).
    refine (filter_imp _ _ _ (filter_and _ _ L1 L2)); intros t Ht; cbv beta in Ht; cbv beta.
    destruct Ht as [Ha Hb]. rewrite cylL_form. symmetry. apply form_out_radial; lra.
  Qed.

  Theorem cyl_jvp_out_axial : c - r < 0 -> 0 < e - h -> Rdec 1 (-8) < e -> Rdec 1 (-8) < e - h -> is_derive cylL 0 jvp.
  Proof.
    intros H1 H2 H3 H4. pose proof dec8_pos as P8.
    rewrite (jvp_out_axial H1 H2 H3 H4).
    assert (Hx : x2 <> 0) by (intro E; unfold e in H3; rewrite E, Rabs_R0 in H3; lra).
    apply (is_derive_ext_loc A1); [|apply derive_A1; exact Hx].
    assert (L1 : locally 0 (fun t => - A1 t < 0)).
    { apply (loc_neg (fun t => - A1 t)); [apply cont_opp; apply cont_A1 | rewrite A1_0; lra]. }
    assert (L2 : locally 0 (fun t => A0 t < 0)) by (apply loc_neg; [apply cont_A0 | rewrite A0_0; exact H1]).
    refine (filter_imp _ _ _ (filter_and _ _ L1 L2)); intros t Ht; cbv beta in Ht; cbv beta.
    destruct Ht as [Ha Hb]. rewrite cylL_form. symmetry. apply form_out_axial; lra.
  Qed.

  Theorem cyl_jvp_corner : 0 < c - r -> 0 < e - h -> Rdec 1 (-8) < c -> Rdec 1 (-8) < e ->
      Rdec 1 (-8) < sqrt ((c - r) * (c - r) + (e - h) * (e - h)) -> is_derive cylL 0 jvp.
  Proof.
    intros H1 H2 H3 H4 H5. pose proof dec8_pos as P8.
    rewrite (jvp_corner H1 H2 H3 H4 H5).
    assert (Hx : x2 <> 0) by (intro E; unfold e in H4; rewrite E, Rabs_R0 in H4; lra).
    apply (is_derive_ext_loc (fun t => sqrt (A0 t * A0 t + A1 t * A1 t))).
    - assert (L1 : locally 0 (fun t => - A0 t < 0)).
      { apply (loc_neg (fun t => - A0 t)); [apply cont_opp; apply cont_A0 | rewrite A0_0; lra]. }
      assert (L2 : locally 0 (fun t => - A1 t < 0)).
      { apply (loc_neg (fun t => - A1 t)); [apply cont_opp; apply cont_A1 | rewrite A1_0; lra]. }
      refine (filter_imp _ _ _ (filter_and _ _ L1 L2)); intros t Ht; cbv beta in Ht; cbv beta.
      destruct Ht as [Ha Hb]. rewrite cylL_form. symmetry. apply form_corner; lra.
    - pose proof (derive_A0 (Rlt_trans _ _ _ P8 H3)) as D0.
      pose proof (derive_A1 Hx) as D1.
      assert (Hs : 0 < A0 0 * A0 0 + A1 0 * A1 0) by (rewrite A0_0, A1_0; nra).
      (* chain rule: sqrt o (A0^2 + A1^2) *)
      evar_last.
      + apply (is_derive_sqrt (fun t => A0 t * A0 t + A1 t * A1 t) 0); [|exact Hs].
        apply (is_derive_plus (fun t => A0 t * A0 t) (fun t => A1 t * A1 t)).
        * apply (Derive.is_derive_mult A0 A0 0 _ _ D0 D0).
        * apply (Derive.is_derive_mult A1 A1 0 _ _ D1 D1).
      + rewrite A0_0, A1_0. unfold plus; simpl.
        assert (S0 : sqrt ((c - r) * (c - r) + (e - h) * (e - h)) <> 0) by lra.
        change (plus ?a ?b) with (a + b). field; repeat split; lra.
  Qed.
End Line.

(* ------------------------------------------------------------------ the size tangent is dropped: a refutation *)
Lemma cyl_radius_derivative : is_derive (fun s : R => cyl 1 0 0 s 1) (/ 2) (- 1).
Proof.
  apply (is_derive_ext_loc (fun s => 1 - s)).
  - assert (L : locally (/ 2) (fun s : R => s - 1 < 0)).
    { apply (loc_neg (fun s => s - 1)); [|lra]. intro t. apply (ex_derive_continuous (fun s => s - 1)). auto_derive. exact I. }
    refine (filter_imp _ _ _ L); intros s Hs; cbv beta in Hs; cbv beta. unfold cyl, cyl_a0, cyl_a1. num_R.
    replace (1 * 1 + 0 * 0) with 1 by ring. rewrite sqrt_1, Rabs_R0.
    symmetry. apply form_out_radial; lra.
  - auto_derive; [exact I|]. ring.
Qed.

Lemma cyl_jvp_ignores_size : forall (x0 x1 x2 r h sr sh : R), cyl_jvp x0 x1 x2 r h 0 0 0 sr sh = 0.
Proof.
  intros. unfold cyl_jvp. destruct (cyl_grad x0 x1 x2 r h) as [[g0 g1] g2]. num_R. ring.
Qed.

(* ------------------------------------------------------------------ safe_div *)
Lemma safe_div_sel_eq : forall num den : R, safe_div num den = safe_div_sel (Reqb den 0) num den.
Proof. intros. unfold safe_div, safe_div_sel. num_R. reflexivity. Qed.

Lemma safe_div_nonzero : forall num den : R, den <> 0 ->
    safe_div num den = num / den /\ is_derive (fun d => safe_div num d) den (- num / (den * den)) /\
    is_derive (fun n => safe_div n den) num (/ den).
Proof.
  intros num den Hd.
  assert (E : Reqb den 0 = false) by (apply Reqb_false; exact Hd).
  split; [|split].
  - unfold safe_div. num_R. rewrite E. field. exact Hd.
  - apply (is_derive_ext_loc (fun d => num / d)).
    + assert (L : locally den (fun d : R => d <> 0)).
      { destruct (Rlt_or_le 0 den) as [P|N].
        - assert (L : locally den (fun d => - d < 0)).
          { apply (loc_neg (fun d => - d)); [|lra]. intro t. apply (ex_derive_continuous (fun d => - d)). auto_derive. exact I. }
          refine (filter_imp _ _ _ L); intros d Hd'; cbv beta in Hd'; cbv beta. lra.
        - assert (L : locally den (fun d => d < 0)).
          { apply (loc_neg (fun d => d)); [|lra]. intro t. apply continuous_id. }
          refine (filter_imp _ _ _ L); intros d Hd'; cbv beta in Hd'; cbv beta. lra. }
      refine (filter_imp _ _ _ L); intros d Hd'; cbv beta in Hd'; cbv beta. unfold safe_div. num_R.
      rewrite (proj2 (Reqb_false d 0) Hd'). replace (d + Rdec 1 (-15) * 0) with d by ring. reflexivity.
    + auto_derive; [exact Hd|]. field. exact Hd.
  - unfold safe_div. num_R. rewrite E. auto_derive; [exact I|]. field. exact Hd.
Qed.

(* at den = 0 the branch JAX differentiates is num / (den + mjMINVAL): finite value and finite derivatives *)
Lemma safe_div_zero : forall num : R,
    safe_div num 0 = num / Rdec 1 (-15) /\
    is_derive (fun d => safe_div_sel true num d) 0 (- num / (Rdec 1 (-15) * Rdec 1 (-15))) /\
    is_derive (fun n => safe_div_sel true n 0) num (/ Rdec 1 (-15)).
Proof.
  intro num. pose proof dec15_pos as P.
  split; [|split].
  - unfold safe_div. num_R. rewrite (proj2 (Reqb_true 0 0) eq_refl). generalize dependent (Rdec 1 (-15)). intros k P. field. lra.
  - unfold safe_div_sel. num_R. generalize dependent (Rdec 1 (-15)). intros k P. auto_derive; [lra|]. field. lra.
  - unfold safe_div_sel. num_R. generalize dependent (Rdec 1 (-15)). intros k P. auto_derive; [exact I|]. field. lra.
Qed.

(* ------------------------------------------------------------------ the double-where norm *)
Lemma allclose0_true_iff : forall x : R, allclose0 x = true <-> Rabs x <= Rdec 1 (-8).
Proof. intro x. unfold allclose0. num_R. apply Rleb_true. Qed.

Lemma enorm3_pos : forall x0 x1 x2 : R, is_zero3 x0 x1 x2 = false -> 0 < x0 * x0 + x1 * x1 + x2 * x2.
Proof.
  intros x0 x1 x2 H. pose proof dec8_pos as P. unfold is_zero3 in H.
  assert (K : forall x : R, allclose0 x = false -> 0 < x * x).
  { intros x Hx. unfold allclose0 in Hx. num_R. apply Rleb_false in Hx.
    assert (x <> 0) by (intro E; rewrite E, Rabs_R0 in Hx; lra). nra. }
  destruct (allclose0 x0) eqn:E0; destruct (allclose0 x1) eqn:E1; destruct (allclose0 x2) eqn:E2; simpl in H; try discriminate;
    repeat match goal with Hx : allclose0 _ = false |- _ => apply K in Hx end; nra.
Qed.

(* not is_zero: value and gradient are those of the euclidean norm *)
Lemma safe_norm3_nonzero : forall x0 x1 x2 : R, is_zero3 x0 x1 x2 = false ->
    safe_norm3 x0 x1 x2 = enorm3 x0 x1 x2 /\
    safe_norm3_grad x0 x1 x2 = (x0 / enorm3 x0 x1 x2, x1 / enorm3 x0 x1 x2, x2 / enorm3 x0 x1 x2).
Proof.
  intros x0 x1 x2 H. unfold safe_norm3, safe_norm3_grad. rewrite H. split; [reflexivity|].
  num_R. f_equal; [f_equal|]; unfold Rdiv; ring.
Qed.

(* the euclidean norm has these partial derivatives wherever it does not vanish (directional form) *)
Lemma enorm3_derive : forall x0 x1 x2 v0 v1 v2 : R, 0 < x0 * x0 + x1 * x1 + x2 * x2 ->
    is_derive (fun t => enorm3 (x0 + t * v0) (x1 + t * v1) (x2 + t * v2)) 0
              ((x0 * v0 + x1 * v1 + x2 * v2) / enorm3 x0 x1 x2).
Proof.
  intros x0 x1 x2 v0 v1 v2 H. unfold enorm3. num_R.
  auto_derive.
  - rewrite !Rmult_0_l, !Rplus_0_r. exact H.
  - rewrite !Rmult_0_l, !Rplus_0_r.
    assert (S : sqrt (x0 * x0 + x1 * x1 + x2 * x2) <> 0) by (apply Rgt_not_eq; apply sqrt_lt_R0; exact H).
    field. exact S.
Qed.

(* robustly non-zero (one coordinate strictly beyond the allclose threshold): the guarded norm IS the euclidean norm around x, so
   its derivative along any direction is the dot product with the gradient JAX returns *)
Lemma loc_abs_gt : forall (x v : R), Rdec 1 (-8) < Rabs x -> locally 0 (fun t => Rdec 1 (-8) < Rabs (x + t * v)).
Proof.
  intros x v H.
  assert (L : locally 0 (fun t => Rdec 1 (-8) - Rabs (x + t * v) < 0)).
  { apply (loc_neg (fun t => Rdec 1 (-8) - Rabs (x + t * v))).
    - intro t. apply (continuous_minus (fun _ => Rdec 1 (-8)) (fun t => Rabs (x + t * v))); [apply continuous_const|].
      apply continuous_Rabs_comp. apply (ex_derive_continuous (fun t => x + t * v)). auto_derive. exact I.
    - rewrite Rmult_0_l, Rplus_0_r. lra. }
  refine (filter_imp _ _ _ L); intros t Ht; cbv beta in Ht; cbv beta. lra.
Qed.

Lemma safe_norm3_derive : forall x0 x1 x2 v0 v1 v2 : R,
    (Rdec 1 (-8) < Rabs x0 \/ Rdec 1 (-8) < Rabs x1 \/ Rdec 1 (-8) < Rabs x2) ->
    is_derive (fun t => safe_norm3 (x0 + t * v0) (x1 + t * v1) (x2 + t * v2)) 0
              (let '(g0, g1, g2) := safe_norm3_grad x0 x1 x2 in g0 * v0 + g1 * v1 + g2 * v2).
Proof.
  intros x0 x1 x2 v0 v1 v2 H.
  assert (NZ : forall a b c : R, (Rdec 1 (-8) < Rabs a \/ Rdec 1 (-8) < Rabs b \/ Rdec 1 (-8) < Rabs c) -> is_zero3 a b c = false).
  { intros a b c0 K. unfold is_zero3, allclose0. num_R.
    destruct K as [K|[K|K]]; rewrite (leb_f _ _ K); simpl; rewrite ?andb_false_r; reflexivity. }
  pose proof (NZ _ _ _ H) as Z0.
  destruct (safe_norm3_nonzero x0 x1 x2 Z0) as [_ G]. rewrite G.
  pose proof (enorm3_pos x0 x1 x2 Z0) as P.
  apply (is_derive_ext_loc (fun t => enorm3 (x0 + t * v0) (x1 + t * v1) (x2 + t * v2))).
  - assert (L : locally 0 (fun t => Rdec 1 (-8) < Rabs (x0 + t * v0) \/ Rdec 1 (-8) < Rabs (x1 + t * v1) \/ Rdec 1 (-8) < Rabs (x2 + t * v2))).
    { destruct H as [K|[K|K]].
      - apply (filter_imp _ _ (fun t Ht => or_introl Ht) (loc_abs_gt x0 v0 K)).
      - apply (filter_imp _ _ (fun t Ht => or_intror (or_introl Ht)) (loc_abs_gt x1 v1 K)).
      - apply (filter_imp _ _ (fun t Ht => or_intror (or_intror Ht)) (loc_abs_gt x2 v2 K)). }
    refine (filter_imp _ _ _ L); intros t Ht; cbv beta in Ht; cbv beta.
    symmetry. apply (proj1 (safe_norm3_nonzero _ _ _ (NZ _ _ _ Ht))).
  - evar_last; [apply (enorm3_derive x0 x1 x2 v0 v1 v2 P)|].
    num_R. unfold Rdiv. ring.
Qed.

(* is_zero: the value is 0, the gradient JAX returns is exactly (0,0,0) (finite), the inner where has replaced x by ones where
   linalg.norm is differentiable, and strictly inside the threshold box the function is locally constant 0, so 0 is also the derivative *)
Lemma safe_norm3_zero : forall x0 x1 x2 : R, is_zero3 x0 x1 x2 = true ->
    safe_norm3 x0 x1 x2 = 0 /\ safe_norm3_grad x0 x1 x2 = (0, 0, 0) /\
    ex_derive (fun t => enorm3 t 1 1) 1.
Proof.
  intros x0 x1 x2 H. unfold safe_norm3, safe_norm3_grad. rewrite H. split; [reflexivity|]. split.
  - num_R. f_equal; [f_equal|]; unfold Rdiv; ring.
  - unfold enorm3. num_R. auto_derive. lra.
Qed.

Lemma safe_norm3_zero_derive : forall x0 x1 x2 v0 v1 v2 : R,
    Rabs x0 < Rdec 1 (-8) -> Rabs x1 < Rdec 1 (-8) -> Rabs x2 < Rdec 1 (-8) ->
    is_derive (fun t => safe_norm3 (x0 + t * v0) (x1 + t * v1) (x2 + t * v2)) 0 0.
Proof.
  intros x0 x1 x2 v0 v1 v2 H0 H1 H2.
  assert (Lx : forall x v : R, Rabs x < Rdec 1 (-8) -> locally 0 (fun t => Rabs (x + t * v) <= Rdec 1 (-8))).
  { intros x v Hx.
    assert (L : locally 0 (fun t => Rabs (x + t * v) - Rdec 1 (-8) < 0)).
    { apply (loc_neg (fun t => Rabs (x + t * v) - Rdec 1 (-8))).
      - intro t. apply (continuous_minus (fun t => Rabs (x + t * v)) (fun _ => Rdec 1 (-8))); [|apply continuous_const].
        apply continuous_Rabs_comp. apply (ex_derive_continuous (fun t => x + t * v)). auto_derive. exact I.
      - rewrite Rmult_0_l, Rplus_0_r. lra. }
    refine (filter_imp _ _ _ L); intros t Ht; cbv beta in Ht; cbv beta. lra. }
  apply (is_derive_ext_loc (fun _ => 0)).
  - refine (filter_imp _ _ _ (filter_and _ _ (Lx x0 v0 H0) (filter_and _ _ (Lx x1 v1 H1) (Lx x2 v2 H2)))); intros t Ht; cbv beta in Ht; cbv beta.
    destruct Ht as [A [B C]]. symmetry.
    assert (Z : is_zero3 (x0 + t * v0) (x1 + t * v1) (x2 + t * v2) = true).
    { unfold is_zero3. rewrite (proj2 (allclose0_true_iff _) A), (proj2 (allclose0_true_iff _) B), (proj2 (allclose0_true_iff _) C). reflexivity. }
    unfold safe_norm3. rewrite Z. reflexivity.
  - apply (is_derive_const 0 0).
Qed.

(* the unguarded norm has NO derivative at the origin: this is what the inner where protects against (sqrt'(0) = inf, NaN in JAX) *)
Lemma naive_norm_not_derivable : ~ ex_derive (fun t : R => sqrt (t * t)) 0.
Proof.
  intros [l Hl].
  apply is_derive_Reals in Hl.
  destruct (Hl (/ 2)) as [delta Hd]; [lra|].
  assert (Hp := cond_pos delta).
  pose proof (Hd (delta / 2)) as P. pose proof (Hd (- (delta / 2))) as N.
  assert (A1 : Rabs (delta / 2) < delta) by (rewrite Rabs_right; lra).
  assert (A2 : Rabs (- (delta / 2)) < delta) by (rewrite Rabs_left; lra).
  specialize (P ltac:(lra) A1). specialize (N ltac:(lra) A2).
  rewrite Rplus_0_l in P, N. replace (0 * 0) with 0 in P, N by ring. rewrite sqrt_0 in P, N.
  rewrite sqrt_square in P by lra.
  replace (- (delta / 2) * - (delta / 2)) with ((delta / 2) * (delta / 2)) in N by ring.
  rewrite sqrt_square in N by lra.
  replace ((delta / 2 - 0) / (delta / 2)) with 1 in P by (field; lra).
  replace ((delta / 2 - 0) / - (delta / 2)) with (- 1) in N by (field; lra).
  apply Rabs_def2 in P. apply Rabs_def2 in N. lra.
Qed.

(* ------------------------------------------------------------------ the five regions in one statement *)
Definition cyl_region (c e r h : R) : Prop :=
  (e - h < c - r /\ c - r < 0 /\ Rdec 1 (-8) < c) \/
  (c - r < e - h /\ e - h < 0 /\ Rdec 1 (-8) < e) \/
  (0 < c - r /\ e - h < 0 /\ Rdec 1 (-8) < c /\ Rdec 1 (-8) < c - r) \/
  (c - r < 0 /\ 0 < e - h /\ Rdec 1 (-8) < e /\ Rdec 1 (-8) < e - h) \/
  (0 < c - r /\ 0 < e - h /\ Rdec 1 (-8) < c /\ Rdec 1 (-8) < e /\
   Rdec 1 (-8) < sqrt ((c - r) * (c - r) + (e - h) * (e - h))).

Theorem cyl_jvp_all : forall (x0 x1 x2 r h v0 v1 v2 : R),
    cyl_region (sqrt (x0 * x0 + x1 * x1)) (Rabs x2) r h ->
    is_derive (fun t : R => cyl (x0 + t * v0) (x1 + t * v1) (x2 + t * v2) r h) 0 (cyl_jvp x0 x1 x2 r h v0 v1 v2 0 0).
Proof.
  intros x0 x1 x2 r h v0 v1 v2 [H|[H|[H|[H|H]]]].
  - destruct H as (A & B & C). exact (cyl_jvp_in_radial x0 x1 x2 r h v0 v1 v2 A B C).
  - destruct H as (A & B & C). exact (cyl_jvp_in_axial x0 x1 x2 r h v0 v1 v2 A B C).
  - destruct H as (A & B & C & D). exact (cyl_jvp_out_radial x0 x1 x2 r h v0 v1 v2 A B C D).
  - destruct H as (A & B & C & D). exact (cyl_jvp_out_axial x0 x1 x2 r h v0 v1 v2 A B C D).
  - destruct H as (A & B & C & D & E). exact (cyl_jvp_corner x0 x1 x2 r h v0 v1 v2 A B C D E).
Qed.
