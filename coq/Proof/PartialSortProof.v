(* mjPARTIAL_SORT: heap invariant of _mjSIFT_DOWN, heapify, the scan of the remaining elements *)
From Coq Require Import List ZArith Bool Lia Permutation Sorted Arith.
From MJV Require Import Model.Sort Proof.SortProof.
Import ListNotations.
Open Scope Z_scope.

Section PartialSortProof.
Variable A : Type.
Variable cmp : A -> A -> Z.
(* sign antisymmetry of a three-way comparison and transitivity: a total preorder *)
Hypothesis cmp_anti : forall a b, cmp a b < 0 <-> 0 < cmp b a.
Hypothesis cmp_trans : forall a b c, cmp a b <= 0 -> cmp b c <= 0 -> cmp a c <= 0.

Notation lt := (Sort.lt A cmp).
Notation leP := (leP A cmp).
Notation upd := (upd A).

Lemma cmp_total : forall a b, 0 < cmp a b -> cmp b a <= 0.
Proof. intros a b H. apply cmp_anti in H. lia. Qed.

Lemma leP_refl a : leP a a.
Proof.
  unfold SortProof.leP. destruct (Z_lt_le_dec 0 (cmp a a)) as [H|H]; [|exact H].
  apply cmp_total. exact H.
Qed.
Lemma leP_tr a b c : leP a b -> leP b c -> leP a c.
Proof. apply cmp_trans. Qed.
Lemma lt_true a b : lt a b = true -> leP a b.
Proof. unfold Sort.lt, SortProof.leP. intro H. apply Z.ltb_lt in H. lia. Qed.
Lemma lt_false a b : lt a b = false -> leP b a.
Proof.
  unfold Sort.lt, SortProof.leP. intro H. apply Z.ltb_ge in H.
  destruct (Z_lt_le_dec 0 (cmp b a)) as [G|G]; [|exact G].
  apply cmp_anti in G. lia.
Qed.
Lemma lt_true_strict a b : lt a b = true -> 0 < cmp b a.
Proof. unfold Sort.lt. intro H. apply Z.ltb_lt in H. apply cmp_anti. exact H. Qed.

(* ---------- upd *)
Lemma upd_length (l : list A) i x : (i < length l)%nat -> length (upd l i x) = length l.
Proof.
  intro H. unfold Sort.upd. rewrite app_length, firstn_length.
  change (length (x :: skipn (S i) l)) with (S (length (skipn (S i) l))). rewrite skipn_length. lia.
Qed.

Lemma upd_nth_eq (l : list A) i x : (i < length l)%nat -> nth_error (upd l i x) i = Some x.
Proof.
  intro H. unfold Sort.upd. rewrite nth_error_app2; rewrite firstn_length; [|lia].
  replace (i - Nat.min i (length l))%nat with 0%nat by lia. reflexivity.
Qed.

Lemma upd_nth_neq (l : list A) i j x : (i < length l)%nat -> i <> j ->
  nth_error (upd l i x) j = nth_error l j.
Proof.
  revert i j. induction l as [|a l IH]; intros i j H N; [simpl in H; lia|].
  destruct i as [|i]; destruct j as [|j]; try lia; try reflexivity.
  change (upd (a :: l) (S i) x) with (a :: upd l i x). simpl.
  apply IH; simpl in H; lia.
Qed.

Lemma upd_perm (l : list A) : forall i x y, nth_error l i = Some y ->
  Permutation (x :: l) (y :: upd l i x).
Proof.
  induction l as [|a l IH]; intros [|i] x y H; simpl in H; try discriminate.
  - injection H as ->. unfold Sort.upd. simpl. apply perm_swap.
  - unfold Sort.upd. simpl. specialize (IH i x y H). unfold Sort.upd in IH.
    rewrite perm_swap. rewrite IH. apply perm_swap.
Qed.

Lemma swap_perm (l : list A) r s vr vs : r <> s ->
  nth_error l r = Some vr -> nth_error l s = Some vs ->
  Permutation (upd (upd l r vs) s vr) l.
Proof.
  intros N Hr Hs.
  assert (Lr : (r < length l)%nat) by (apply nth_error_Some; congruence).
  pose proof (upd_perm l r vs vr Hr) as P1.
  assert (Hs1 : nth_error (upd l r vs) s = Some vs) by (rewrite upd_nth_neq; assumption).
  pose proof (upd_perm (upd l r vs) s vr vs Hs1) as P2.
  apply (Permutation_cons_inv (a := vs)). rewrite P1. symmetry. exact P2.
Qed.

(* ---------- heap predicates; the heap occupies the whole list *)
Definition is_child (c i : nat) : Prop := c = (2 * i + 1)%nat \/ c = (2 * i + 2)%nat.

(* every node >= lo other than r dominates its children *)
Definition heap_ex (buf : list A) (lo r : nat) : Prop :=
  forall i c vi vc, (lo <= i)%nat -> i <> r -> is_child c i ->
    nth_error buf i = Some vi -> nth_error buf c = Some vc -> leP vc vi.
Definition heap_from (buf : list A) (lo : nat) : Prop :=
  forall i c vi vc, (lo <= i)%nat -> is_child c i ->
    nth_error buf i = Some vi -> nth_error buf c = Some vc -> leP vc vi.
(* the parent of r (when >= lo) dominates the children of r *)
Definition grand (buf : list A) (lo r : nat) : Prop :=
  forall p c vp vc, (lo <= p)%nat -> is_child r p -> is_child c r ->
    nth_error buf p = Some vp -> nth_error buf c = Some vc -> leP vc vp.

Lemma pick_spec vr vc root child oc1 :
  let sv := pick A cmp vr vc root child oc1 in
  (fst sv = root /\ snd sv = vr /\ leP vc vr /\ (forall v, oc1 = Some v -> leP v vr)) \/
  (fst sv = child /\ snd sv = vc /\ leP vr vc /\ (forall v, oc1 = Some v -> leP v vc)) \/
  (fst sv = S child /\ oc1 = Some (snd sv) /\ leP vr (snd sv) /\ leP vc (snd sv)).
Proof.
  unfold pick. destruct (lt vr vc) eqn:E1; simpl.
  - destruct oc1 as [v1|]; simpl.
    + destruct (lt vc v1) eqn:E2; simpl.
      * right; right. repeat split; auto.
        -- eapply leP_tr; [apply lt_true; exact E1| apply lt_true; exact E2].
        -- apply lt_true; exact E2.
      * right; left. repeat split; auto. apply lt_true; exact E1.
        intros v [= <-]. apply lt_false; exact E2.
    + right; left. repeat split; auto. apply lt_true; exact E1. intros v [=].
  - destruct oc1 as [v1|]; simpl.
    + destruct (lt vr v1) eqn:E2; simpl.
      * right; right. repeat split; auto.
        -- apply lt_true; exact E2.
        -- eapply leP_tr; [apply lt_false; exact E1| apply lt_true; exact E2].
      * left. repeat split; auto. apply lt_false; exact E1.
        intros v [= <-]. apply lt_false; exact E2.
    + left. repeat split; auto. apply lt_false; exact E1. intros v [=].
Qed.

Lemma sift_down_spec fuel : forall buf lo root endi,
  endi = length buf -> (endi <= root + fuel)%nat -> (lo <= root)%nat ->
  heap_ex buf lo root -> grand buf lo root ->
  let out := sift_down A cmp fuel buf root endi in
  heap_from out lo /\ Permutation out buf /\ length out = length buf.
Proof.
  induction fuel as [|f IH]; intros buf lo root endi He Hf Hlo Hex Hgr.
  - simpl. split; [|split; reflexivity].
    intros i c vi vc Hi Hc Hvi Hvc.
    destruct (Nat.eq_dec i root) as [->|N]; [|eapply Hex; eauto].
    assert ((c < length buf)%nat) by (apply nth_error_Some; congruence).
    destruct Hc; lia.
  - cbn [sift_down]. cbv zeta.
    destruct (Nat.ltb (2 * root + 1) endi) eqn:Ech.
    2:{ apply Nat.ltb_ge in Ech. split; [|split; reflexivity].
        intros i c vi vc Hi Hc Hvi Hvc.
        destruct (Nat.eq_dec i root) as [->|N]; [|eapply Hex; eauto].
        assert ((c < length buf)%nat) by (apply nth_error_Some; congruence).
        destruct Hc; lia. }
    apply Nat.ltb_lt in Ech.
    destruct (nth_error buf root) as [vr|] eqn:Er.
    2:{ apply nth_error_None in Er. lia. }
    destruct (nth_error buf (2 * root + 1)) as [vc|] eqn:Ec.
    2:{ apply nth_error_None in Ec. lia. }
    set (oc1 := if Nat.ltb (S (2 * root + 1)) endi then nth_error buf (S (2 * root + 1)) else None).
    assert (Hoc1 : forall v, nth_error buf (S (2 * root + 1)) = Some v -> oc1 = Some v).
    { intros v Hv. unfold oc1.
      assert ((S (2 * root + 1) < length buf)%nat) by (apply nth_error_Some; congruence).
      destruct (Nat.ltb_spec (S (2 * root + 1)) endi); [exact Hv|lia]. }
    assert (Hoc1' : forall v, oc1 = Some v -> nth_error buf (S (2 * root + 1)) = Some v).
    { intros v Hv. unfold oc1 in Hv.
      destruct (Nat.ltb (S (2 * root + 1)) endi); [exact Hv|discriminate]. }
    pose proof (pick_spec vr vc root (2 * root + 1)%nat oc1) as PS. cbv zeta in PS.
    destruct (pick A cmp vr vc root (2 * root + 1) oc1) as [s vs] eqn:Epick. simpl fst in *. simpl snd in *.
    destruct PS as [(-> & -> & Hc & Hc1) | PS].
    { (* no swap: root dominates both children *)
      rewrite Nat.eqb_refl. split; [|split; reflexivity].
      intros i c vi vc' Hi Hch Hvi Hvc.
      destruct (Nat.eq_dec i root) as [->|N]; [|eapply Hex; eauto].
      rewrite Er in Hvi. injection Hvi as <-.
      destruct Hch as [->| ->].
      - rewrite Ec in Hvc. injection Hvc as <-. exact Hc.
      - apply Hc1. apply Hoc1. rewrite <- Hvc. f_equal. lia. }
    (* swap with s, a child of root holding vs, vs dominates vr and the other child *)
    assert (Hs : is_child s root /\ nth_error buf s = Some vs /\ leP vr vs /\
                 (forall c v, is_child c root -> nth_error buf c = Some v -> leP v vs)).
    { destruct PS as [(-> & -> & Hr & Hc1) | (-> & Hc1 & Hr & Hc)].
      - split; [left; reflexivity|]. split; [exact Ec|]. split; [exact Hr|].
        intros c v [->| ->] Hv.
        + rewrite Ec in Hv. injection Hv as <-. apply leP_refl.
        + apply Hc1. apply Hoc1. rewrite <- Hv. f_equal. lia.
      - split; [right; lia|]. split; [apply Hoc1'; exact Hc1|]. split; [exact Hr|].
        intros c v [->| ->] Hv.
        + rewrite Ec in Hv. injection Hv as <-. exact Hc.
        + replace (2 * root + 2)%nat with (S (2 * root + 1)) in Hv by lia.
          rewrite (Hoc1' _ Hc1) in Hv. injection Hv as <-. apply leP_refl. }
    clear PS. destruct Hs as (Hsch & Hsv & Hrs & Hdom).
    assert (Nsr : s <> root) by (destruct Hsch; lia).
    destruct (Nat.eqb_spec s root) as [?|_]; [contradiction|].
    assert (Lr : (root < length buf)%nat) by lia.
    assert (Ls : (s < length buf)%nat) by (apply nth_error_Some; congruence).
    set (buf2 := upd (upd buf root vs) s vr).
    assert (Len1 : length (upd buf root vs) = length buf) by (apply upd_length; exact Lr).
    assert (Len2 : length buf2 = length buf).
    { unfold buf2. rewrite upd_length; [exact Len1| lia]. }
    assert (N2s : nth_error buf2 s = Some vr).
    { unfold buf2. apply upd_nth_eq. lia. }
    assert (N2r : nth_error buf2 root = Some vs).
    { unfold buf2. rewrite upd_nth_neq by (lia || auto). apply upd_nth_eq. exact Lr. }
    assert (N2o : forall j, j <> s -> j <> root -> nth_error buf2 j = nth_error buf j).
    { intros j J1 J2. unfold buf2. rewrite upd_nth_neq by (lia || auto).
      apply upd_nth_neq; auto. }
    assert (Hex2 : heap_ex buf2 lo s).
    { intros i c vi vc' Hi Ni Hch Hvi Hvc.
      destruct (Nat.eq_dec i root) as [->|Nr].
      - rewrite N2r in Hvi. injection Hvi as <-.
        destruct (Nat.eq_dec c s) as [->|Ncs].
        + rewrite N2s in Hvc. injection Hvc as <-. exact Hrs.
        + rewrite N2o in Hvc by (auto; destruct Hch; lia).
          eapply Hdom; eauto.
      - rewrite N2o in Hvi by auto.
        assert (Ncs : c <> s) by (destruct Hch, Hsch; lia).
        destruct (Nat.eq_dec c root) as [->|Ncr].
        + rewrite N2r in Hvc. injection Hvc as <-.
          eapply (Hgr i s); eauto.
        + rewrite N2o in Hvc by auto. eapply Hex; eauto. }
    assert (Hgr2 : grand buf2 lo s).
    { intros p c vp vc' Hp Hsp Hcs Hvp Hvc.
      assert (p = root) as -> by (destruct Hsp, Hsch; lia).
      rewrite N2r in Hvp. injection Hvp as <-.
      rewrite N2o in Hvc by (destruct Hcs, Hsch; lia).
      eapply (Hex s c); eauto. destruct Hsch; lia. }
    destruct (IH buf2 lo s endi) as (H1 & H2 & H3); auto; try lia.
    { destruct Hsch; lia. }
    { destruct Hsch; lia. }
    split; [exact H1|]. split.
    + rewrite H2. unfold buf2. apply swap_perm; auto.
    + lia.
Qed.

(* a heap from 0 has its maximum at the top *)
Lemma heap_top buf top : heap_from buf 0 -> nth_error buf 0 = Some top ->
  forall x, In x buf -> leP x top.
Proof.
  intros H H0 x Hx. apply In_nth_error in Hx. destruct Hx as [i Hi].
  revert x Hi. induction i as [i IH] using (well_founded_induction Wf_nat.lt_wf).
  intros x Hi. destruct i as [|i].
  - rewrite H0 in Hi. injection Hi as <-. apply leP_refl.
  - set (p := Nat.div2 i).
    assert (Hch : is_child (S i) p).
    { unfold is_child, p. destruct (Nat.Even_or_Odd i) as [[m ->]|[m ->]].
      - left. rewrite Nat.div2_double. lia.
      - right. replace (2 * m + 1)%nat with (S (2 * m)) by lia. rewrite Nat.div2_succ_double. lia. }
    assert (Lp : (p < S i)%nat) by (destruct Hch; lia).
    destruct (nth_error buf p) as [vp|] eqn:Ep.
    2:{ apply nth_error_None in Ep.
        assert ((S i < length buf)%nat) by (apply nth_error_Some; congruence). lia. }
    eapply leP_tr; [eapply (H p (S i)); eauto; lia| apply (IH p Lp); exact Ep].
Qed.

(* ---------- heapify *)
Lemma heapify_loop m : forall buf k, k = length buf -> heap_from buf m ->
  let out := fold_left (fun b j => sift_down A cmp k b j k) (rev (seq 0 m)) buf in
  heap_from out 0 /\ Permutation out buf /\ length out = length buf.
Proof.
  induction m as [|m IH]; intros buf k Hk Hh.
  - simpl. split; [exact Hh|]. split; reflexivity.
  - rewrite seq_S, rev_app_distr. simpl rev. simpl app. cbn [fold_left]. cbv zeta.
    destruct (sift_down_spec k buf m m k Hk) as (H1 & H2 & H3); try lia.
    { intros i c vi vc Hi Ni. apply Hh. lia. }
    { intros p c vp vc Hp Hmp. destruct Hmp; lia. }
    destruct (IH (sift_down A cmp k buf m k) k) as (G1 & G2 & G3); [lia| exact H1|].
    split; [exact G1|]. split; [rewrite G2; exact H2| lia].
Qed.

Lemma heapify_spec buf : (0 < length buf)%nat ->
  let out := heapify A cmp (length buf) buf in
  heap_from out 0 /\ Permutation out buf /\ length out = length buf.
Proof.
  intro Hk. unfold heapify. apply heapify_loop; [reflexivity|].
  intros i c vi vc Hi Hc Hvi Hvc.
  assert (Lc : (c < length buf)%nat) by (apply nth_error_Some; congruence).
  exfalso. revert Hi. set (k := length buf) in *.
  assert (Hq : Z.of_nat k <= 2 * (Z.quot (Z.of_nat k - 2) 2 + 1) + 1).
  { destruct (Z.eq_dec (Z.of_nat k) 1) as [->|N]; [vm_compute; discriminate|].
    assert (0 <= Z.of_nat k - 2) by lia.
    rewrite Z.quot_div_nonneg by lia.
    pose proof (Z.div_mod (Z.of_nat k - 2) 2 ltac:(lia)).
    pose proof (Z.mod_pos_bound (Z.of_nat k - 2) 2 ltac:(lia)). lia. }
  intro Hi.
  assert (0 <= Z.quot (Z.of_nat k - 2) 2 + 1).
  { destruct (Z.eq_dec (Z.of_nat k) 1) as [->|N]; [vm_compute; discriminate|].
    rewrite Z.quot_div_nonneg by lia.
    pose proof (Z.div_pos (Z.of_nat k - 2) 2). lia. }
  destruct Hc; lia.
Qed.

(* ---------- scanning the remaining elements *)
Definition scan_inv (k : nat) (b disc seen : list A) : Prop :=
  heap_from b 0 /\ length b = k /\ Permutation (b ++ disc) seen /\
  (forall x y, In x b -> In y disc -> leP x y).

Lemma scan_step k b disc seen x : (0 < k)%nat -> scan_inv k b disc seen ->
  exists disc',
    scan_inv k (match b with
                | [] => b
                | top :: _ => if lt x top then sift_down A cmp k (upd b 0 x) 0 k else b
                end) disc' (seen ++ [x]).
Proof.
  intros Hk (Hh & Hl & Hp & Hd).
  destruct b as [|top b']; [simpl in Hl; lia|].
  assert (Htop : forall y, In y (top :: b') -> leP y top).
  { apply heap_top; [exact Hh| reflexivity]. }
  destruct (lt x top) eqn:E.
  - (* x replaces the top, the old top is discarded *)
    set (b1 := upd (top :: b') 0 x).
    assert (Eb1 : b1 = x :: b') by reflexivity.
    destruct (sift_down_spec k b1 0 0 k) as (H1 & H2 & H3); try lia.
    { rewrite Eb1. simpl in *. lia. }
    { intros i c vi vc Hi Ni Hc Hvi Hvc. rewrite Eb1 in Hvi, Hvc.
      destruct i as [|i]; [lia|]. destruct c as [|c]; [destruct Hc; lia|].
      simpl in Hvi, Hvc. eapply (Hh (S i) (S c)); eauto. }
    { intros p c vp vc Hp' Hc0. destruct Hc0; lia. }
    exists (top :: disc). split; [exact H1|]. split; [rewrite H3, Eb1; simpl in *; lia|]. split.
    + rewrite H2, Eb1. rewrite <- Hp.
      rewrite (Permutation_app_comm _ [x]). simpl. apply perm_skip.
      symmetry. apply Permutation_middle.
    + intros a y Ha Hy. apply (Permutation_in _ H2) in Ha. rewrite Eb1 in Ha.
      assert (Hat : leP a top).
      { destruct Ha as [<-|Ha]; [apply lt_true; exact E| apply Htop; right; exact Ha]. }
      destruct Hy as [<-|Hy]; [exact Hat|].
      eapply leP_tr; [exact Hat| apply Hd; [left; reflexivity| exact Hy]].
  - (* x is not below the top: discarded *)
    exists (x :: disc). split; [exact Hh|]. split; [exact Hl|]. split.
    + rewrite <- Hp. rewrite <- Permutation_middle.
      rewrite (Permutation_app_comm _ [x]). reflexivity.
    + intros a y Ha [<-|Hy]; [|apply Hd; assumption].
      eapply leP_tr; [apply Htop; exact Ha| apply lt_false; exact E].
Qed.

Lemma scan_rest_spec k rest : forall b disc seen, (0 < k)%nat -> scan_inv k b disc seen ->
  exists disc', scan_inv k (scan_rest A cmp k b rest) disc' (seen ++ rest).
Proof.
  induction rest as [|x rest IH]; intros b disc seen Hk Hinv.
  - simpl. rewrite app_nil_r. exists disc. exact Hinv.
  - destruct (scan_step k b disc seen x Hk Hinv) as [disc1 H1].
    unfold scan_rest. cbn [fold_left].
    destruct (IH _ disc1 (seen ++ [x]) Hk H1) as [disc2 H2].
    exists disc2. rewrite <- app_assoc in H2. exact H2.
Qed.

(* ---------- mjPARTIAL_SORT *)
Theorem partial_sort_spec (l : list A) (k : Z) :
  (0 < k <= Z.of_nat (length l) ->
     let out := partial_sort A cmp l k in
     let sel := firstn (Z.to_nat k) out in
     length out = length l /\ length sel = Z.to_nat k /\
     StronglySorted (fun a b => cmp a b <= 0) sel /\
     skipn (Z.to_nat k) out = skipn (Z.to_nat k) l /\
     exists rest, Permutation (sel ++ rest) l /\
                  (forall x y, In x sel -> In y rest -> cmp x y <= 0)) /\
  (k <= 0 \/ Z.of_nat (length l) < k -> partial_sort A cmp l k = l).
Proof.
  split.
  - intros Hk. unfold partial_sort.
    destruct (Z.leb_spec k 0); [lia|]. destruct (Z.ltb_spec (Z.of_nat (length l)) k); [lia|].
    cbn [orb]. cbv zeta. set (kn := Z.to_nat k).
    assert (Lf : length (firstn kn l) = kn) by (rewrite firstn_length; lia).
    assert (Hkn : (0 < kn)%nat) by lia.
    pose proof (heapify_spec (firstn kn l)) as HH. rewrite Lf in HH. specialize (HH Hkn).
    cbv zeta in HH. destruct HH as (H1 & H2 & H3).
    destruct (scan_rest_spec kn (skipn kn l) (heapify A cmp kn (firstn kn l)) [] (firstn kn l) Hkn)
      as [disc (S1 & S2 & S3 & S4)].
    { split; [exact H1|]. split; [lia|]. split; [rewrite app_nil_r; exact H2|]. intros x y _ []. }
    set (buf := scan_rest A cmp kn (heapify A cmp kn (firstn kn l)) (skipn kn l)) in *.
    destruct (insertion_sort_spec A cmp cmp_total cmp_trans buf) as (I1 & I2 & _).
    assert (Li : length (insertion_sort A cmp buf) = kn).
    { rewrite (Permutation_length I2). exact S2. }
    assert (Fi : firstn kn (insertion_sort A cmp buf ++ skipn kn l) = insertion_sort A cmp buf).
    { rewrite firstn_app. rewrite Li, Nat.sub_diag. simpl. rewrite app_nil_r.
      rewrite <- Li. apply firstn_all. }
    rewrite Fi. split; [|split; [exact Li|split; [exact I1|split]]].
    + rewrite app_length, Li, skipn_length. lia.
    + rewrite skipn_app. rewrite Li, Nat.sub_diag. simpl.
      rewrite <- Li at 1. rewrite skipn_all. reflexivity.
    + exists disc. split.
      * rewrite I2. rewrite S3. rewrite firstn_skipn. reflexivity.
      * intros x y Hx Hy. apply S4; [|exact Hy]. apply (Permutation_in _ I2). exact Hx.
  - intros Hk. unfold partial_sort.
    destruct (Z.leb_spec k 0); [reflexivity|].
    destruct (Z.ltb_spec (Z.of_nat (length l)) k); [reflexivity|]. lia.
Qed.

End PartialSortProof.

Lemma kcmp_anti : forall a b, kcmp a b < 0 <-> 0 < kcmp b a.
Proof. unfold kcmp. intros; lia. Qed.
