(* C47 — proofs about Model/LogCholesky.v at the real numbers. *)
From Coq Require Import ZArith List PrimFloat Reals Lra Lia Psatz.
From MJV Require Import Lib.Num Lib.NumR Model.LogCholesky.
Import ListNotations.
Open Scope R_scope.

Lemma nhalf_R : nhalf (T:=R) = / 2.
Proof. unfold nhalf. num_R. unfold Rdec. replace (10 ^ 1)%Z with 10%Z by reflexivity. lra. Qed.

Ltac lc_R := rewrite ?nhalf_R in *; num_R.

(* an upper-triangular factor with positive diagonal *)
Definition posdiag (u : U4 (T:=R)) : Prop := 0 < u00 u /\ 0 < u11 u /\ 0 < u22 u /\ 0 < u33 u.

Lemma U_of_theta_posdiag (a d1 d2 d3 s12 s23 s13 t1 t2 t3 : R) :
  posdiag (U_of_theta a d1 d2 d3 s12 s23 s13 t1 t2 t3).
Proof.
  unfold posdiag, U_of_theta; cbn [u00 u11 u22 u33]; lc_R.
  pose proof (exp_pos a); pose proof (exp_pos d1); pose proof (exp_pos d2); pose proof (exp_pos d3).
  repeat split; try (apply Rmult_lt_0_compat; assumption); lra.
Qed.

(* ---------------------------------------------------------------- J = U U^T *)
Lemma UUt_symmetric (u : U4 (T:=R)) :
  let j := UUt u in
  m10 j = m01 j /\ m20 j = m02 j /\ m30 j = m03 j /\ m21 j = m12 j /\ m31 j = m13 j /\ m32 j = m23 j.
Proof. cbn. repeat split. Qed.

(* x^T J x = |U^T x|^2 *)
Lemma qf4_UUt (u : U4 (T:=R)) x0 x1 x2 x3 :
  qf4 (UUt u) x0 x1 x2 x3 =
    Rsqr (u00 u * x0)
  + Rsqr (u01 u * x0 + u11 u * x1)
  + Rsqr (u02 u * x0 + u12 u * x1 + u22 u * x2)
  + Rsqr (u03 u * x0 + u13 u * x1 + u23 u * x2 + u33 u * x3).
Proof. unfold qf4, UUt, Rsqr; cbn [m00 m01 m02 m03 m10 m11 m12 m13 m20 m21 m22 m23 m30 m31 m32 m33]; lc_R; ring. Qed.

Lemma sum4_sqr_zero a b c d : Rsqr a + Rsqr b + Rsqr c + Rsqr d = 0 -> a = 0 /\ b = 0 /\ c = 0 /\ d = 0.
Proof.
  intros E. pose proof (Rle_0_sqr a); pose proof (Rle_0_sqr b); pose proof (Rle_0_sqr c); pose proof (Rle_0_sqr d).
  assert (Rsqr a = 0) by lra. assert (Rsqr b = 0) by lra. assert (Rsqr c = 0) by lra. assert (Rsqr d = 0) by lra.
  repeat split; apply Rsqr_0_uniq; assumption.
Qed.

Lemma sum3_sqr_zero a b c : Rsqr a + Rsqr b + Rsqr c = 0 -> a = 0 /\ b = 0 /\ c = 0.
Proof.
  intros E. destruct (sum4_sqr_zero a b c 0) as (?&?&?&_); [rewrite Rsqr_0; lra|]. auto.
Qed.

Lemma mult_pos_zero a x : 0 < a -> a * x = 0 -> x = 0.
Proof. intros Ha E. apply Rmult_integral in E. destruct E; [lra | assumption]. Qed.

Lemma qf4_UUt_pos (u : U4 (T:=R)) x0 x1 x2 x3 :
  posdiag u -> ~ (x0 = 0 /\ x1 = 0 /\ x2 = 0 /\ x3 = 0) -> 0 < qf4 (UUt u) x0 x1 x2 x3.
Proof.
  intros (H0 & H1 & H2 & H3) Hx. rewrite qf4_UUt.
  set (a := u00 u * x0). set (b := u01 u * x0 + u11 u * x1).
  set (c := u02 u * x0 + u12 u * x1 + u22 u * x2). set (d := u03 u * x0 + u13 u * x1 + u23 u * x2 + u33 u * x3).
  pose proof (Rle_0_sqr a); pose proof (Rle_0_sqr b); pose proof (Rle_0_sqr c); pose proof (Rle_0_sqr d).
  destruct (Req_dec (Rsqr a + Rsqr b + Rsqr c + Rsqr d) 0) as [E | NE]; [| lra].
  exfalso. apply Hx. apply sum4_sqr_zero in E. destruct E as (Ea & Eb & Ec & Ed). subst a b c d.
  assert (X0 : x0 = 0) by (apply (mult_pos_zero (u00 u)); assumption). subst x0.
  assert (X1 : x1 = 0) by (apply (mult_pos_zero (u11 u)); auto; lra). subst x1.
  assert (X2 : x2 = 0) by (apply (mult_pos_zero (u22 u)); auto; lra). subst x2.
  assert (X3 : x3 = 0) by (apply (mult_pos_zero (u33 u)); auto; lra). repeat split; auto.
Qed.

(* ---------------------------------------------------------------- pi <-> J *)
Lemma pseudo_pi_of_UUt (u : U4 (T:=R)) : pseudoinertia_from_pi (pi_of_J (UUt u)) = UUt u.
Proof.
  unfold pseudoinertia_from_pi, pi_of_J, UUt.
  cbn [m00 m01 m02 m03 m10 m11 m12 m13 m20 m21 m22 m23 m30 m31 m32 m33 pm ph0 ph1 ph2 i00 i01 i02 i10 i11 i12 i20 i21 i22].
  lc_R. f_equal; field.
Qed.

(* ---------------------------------------------------------------- rotational inertia *)
(* x^T I x = sum over the columns c_k of U[:3,:] of |c_k x x|^2  (Lagrange identity) *)
Definition cross_sq (a0 a1 a2 x0 x1 x2 : R) : R :=
  Rsqr (a1 * x2 - a2 * x1) + Rsqr (a2 * x0 - a0 * x2) + Rsqr (a0 * x1 - a1 * x0).

Lemma qfI_pi_of_UUt (u : U4 (T:=R)) x0 x1 x2 :
  qfI (pi_of_J (UUt u)) x0 x1 x2 =
    cross_sq (u00 u) 0 0 x0 x1 x2 + cross_sq (u01 u) (u11 u) 0 x0 x1 x2
  + cross_sq (u02 u) (u12 u) (u22 u) x0 x1 x2 + cross_sq (u03 u) (u13 u) (u23 u) x0 x1 x2.
Proof.
  unfold qfI, pi_of_J, UUt, cross_sq, Rsqr.
  cbn [m00 m01 m02 m03 m10 m11 m12 m13 m20 m21 m22 m23 m30 m31 m32 m33 pm ph0 ph1 ph2 i00 i01 i02 i10 i11 i12 i20 i21 i22].
  lc_R. ring.
Qed.

Lemma cross_sq_nonneg a0 a1 a2 x0 x1 x2 : 0 <= cross_sq a0 a1 a2 x0 x1 x2.
Proof. unfold cross_sq. pose proof (Rle_0_sqr (a1 * x2 - a2 * x1)); pose proof (Rle_0_sqr (a2 * x0 - a0 * x2)); pose proof (Rle_0_sqr (a0 * x1 - a1 * x0)). lra. Qed.

(* the first two columns already exclude every x <> 0 *)
Lemma cross01_pos (u : U4 (T:=R)) x0 x1 x2 :
  posdiag u -> ~ (x0 = 0 /\ x1 = 0 /\ x2 = 0) ->
  0 < cross_sq (u00 u) 0 0 x0 x1 x2 + cross_sq (u01 u) (u11 u) 0 x0 x1 x2.
Proof.
  intros (H0 & H1 & _) Hx.
  pose proof (cross_sq_nonneg (u00 u) 0 0 x0 x1 x2) as N0.
  pose proof (cross_sq_nonneg (u01 u) (u11 u) 0 x0 x1 x2) as N1.
  destruct (Req_dec (cross_sq (u00 u) 0 0 x0 x1 x2 + cross_sq (u01 u) (u11 u) 0 x0 x1 x2) 0) as [E | NE]; [| lra].
  exfalso. apply Hx.
  assert (E0 : cross_sq (u00 u) 0 0 x0 x1 x2 = 0) by lra.
  assert (E1 : cross_sq (u01 u) (u11 u) 0 x0 x1 x2 = 0) by lra.
  unfold cross_sq in E0, E1. apply sum3_sqr_zero in E0. apply sum3_sqr_zero in E1.
  destruct E0 as (_ & A & B). destruct E1 as (_ & _ & C).
  assert (X2 : x2 = 0) by (apply (mult_pos_zero (u00 u)); auto; lra).
  assert (X1 : x1 = 0) by (apply (mult_pos_zero (u00 u)); auto; lra).
  subst x1 x2.
  assert (X0 : x0 = 0) by (apply (mult_pos_zero (u11 u)); auto; lra).
  repeat split; auto.
Qed.

Lemma qfI_pos (u : U4 (T:=R)) x0 x1 x2 :
  posdiag u -> ~ (x0 = 0 /\ x1 = 0 /\ x2 = 0) -> 0 < qfI (pi_of_J (UUt u)) x0 x1 x2.
Proof.
  intros P Hx. rewrite qfI_pi_of_UUt.
  pose proof (cross01_pos u x0 x1 x2 P Hx).
  pose proof (cross_sq_nonneg (u02 u) (u12 u) (u22 u) x0 x1 x2).
  pose proof (cross_sq_nonneg (u03 u) (u13 u) (u23 u) x0 x1 x2). lra.
Qed.

(* frame-free triangle inequality: tr(I) |x|^2 - 2 x^T I x = 2 x^T Sigma x > 0 *)
Lemma triangle_form (u : U4 (T:=R)) x0 x1 x2 :
  let p := pi_of_J (UUt u) in
  (i00 p + i11 p + i22 p) * (x0 * x0 + x1 * x1 + x2 * x2) - 2 * qfI p x0 x1 x2 = 2 * qf4 (UUt u) x0 x1 x2 0.
Proof.
  unfold qfI, qf4, pi_of_J, UUt.
  cbn [m00 m01 m02 m03 m10 m11 m12 m13 m20 m21 m22 m23 m30 m31 m32 m33 pm ph0 ph1 ph2 i00 i01 i02 i10 i11 i12 i20 i21 i22].
  lc_R. ring.
Qed.

Lemma triangle_pos (u : U4 (T:=R)) x0 x1 x2 :
  posdiag u -> ~ (x0 = 0 /\ x1 = 0 /\ x2 = 0) ->
  let p := pi_of_J (UUt u) in
  2 * qfI p x0 x1 x2 < (i00 p + i11 p + i22 p) * (x0 * x0 + x1 * x1 + x2 * x2).
Proof.
  intros P Hx p. pose proof (triangle_form u x0 x1 x2) as E. cbv zeta in E. fold p in E.
  assert (0 < qf4 (UUt u) x0 x1 x2 0) by (apply qf4_UUt_pos; auto; tauto).
  lra.
Qed.

(* ---------------------------------------------------------------- Cholesky and round trip *)
Lemma sqrt_sq_pos x : 0 < x -> sqrt (x * x) = x.
Proof. intros. apply sqrt_square. lra. Qed.

Lemma chol_UUt (u : U4 (T:=R)) : posdiag u -> chol_upper (UUt u) = u.
Proof.
  intros (H0 & H1 & H2 & H3). destruct u as [a00 a01 a02 a03 a11 a12 a13 a22 a23 a33].
  cbn [u00 u11 u22 u33] in *.
  unfold chol_upper, UUt.
  cbn [m00 m01 m02 m03 m10 m11 m12 m13 m20 m21 m22 m23 m30 m31 m32 m33 u00 u01 u02 u03 u11 u12 u13 u22 u23 u33].
  lc_R.
  rewrite (sqrt_sq_pos a33) by assumption.
  replace (a23 * a33 / a33) with a23 by (field; lra).
  replace (a13 * a33 / a33) with a13 by (field; lra).
  replace (a03 * a33 / a33) with a03 by (field; lra).
  replace (a22 * a22 + a23 * a23 - a23 * a23) with (a22 * a22) by ring.
  rewrite (sqrt_sq_pos a22) by assumption.
  replace ((a12 * a22 + a13 * a23 - a13 * a23) / a22) with a12 by (field; lra).
  replace ((a02 * a22 + a03 * a23 - a03 * a23) / a22) with a02 by (field; lra).
  replace (a11 * a11 + a12 * a12 + a13 * a13 - a12 * a12 - a13 * a13) with (a11 * a11) by ring.
  rewrite (sqrt_sq_pos a11) by assumption.
  replace ((a01 * a11 + a02 * a12 + a03 * a13 - a02 * a12 - a03 * a13) / a11) with a01 by (field; lra).
  replace (a00 * a00 + a01 * a01 + a02 * a02 + a03 * a03 - a01 * a01 - a02 * a02 - a03 * a03) with (a00 * a00) by ring.
  rewrite (sqrt_sq_pos a00) by assumption.
  reflexivity.
Qed.

(* uniqueness of the factor: two upper-triangular factors with positive diagonal of the same J coincide *)
Lemma factor_unique (u v : U4 (T:=R)) : posdiag u -> posdiag v -> UUt u = UUt v -> u = v.
Proof. intros Pu Pv E. rewrite <- (chol_UUt u Pu), <- (chol_UUt v Pv), E. reflexivity. Qed.

Lemma theta_of_U_of_theta (a d1 d2 d3 s12 s23 s13 t1 t2 t3 : R) :
  theta_of_U (U_of_theta a d1 d2 d3 s12 s23 s13 t1 t2 t3) = [a; d1; d2; d3; s12; s23; s13; t1; t2; t3].
Proof.
  unfold theta_of_U, U_of_theta. cbn [u00 u01 u02 u03 u11 u12 u13 u22 u23 u33]. lc_R.
  pose proof (exp_pos a) as Ea.
  replace (1 * exp a) with (exp a) by ring.
  rewrite ln_exp.
  replace (exp d1 * exp a / exp a) with (exp d1) by (field; lra).
  replace (exp d2 * exp a / exp a) with (exp d2) by (field; lra).
  replace (exp d3 * exp a / exp a) with (exp d3) by (field; lra).
  rewrite !ln_exp.
  repeat (f_equal; try (field; lra)).
Qed.

Lemma roundtrip (a d1 d2 d3 s12 s23 s13 t1 t2 t3 : R) :
  theta_from_pseudoinertia (pseudoinertia_from_pi (pi_from_theta a d1 d2 d3 s12 s23 s13 t1 t2 t3))
  = [a; d1; d2; d3; s12; s23; s13; t1; t2; t3].
Proof.
  unfold theta_from_pseudoinertia, pi_from_theta.
  rewrite pseudo_pi_of_UUt, chol_UUt by apply U_of_theta_posdiag.
  apply theta_of_U_of_theta.
Qed.

(* ---------------------------------------------------------------- mass *)
Lemma mass_exp (a d1 d2 d3 s12 s23 s13 t1 t2 t3 : R) :
  pm (pi_from_theta a d1 d2 d3 s12 s23 s13 t1 t2 t3) = exp (2 * a) /\
  0 < pm (pi_from_theta a d1 d2 d3 s12 s23 s13 t1 t2 t3).
Proof.
  unfold pi_from_theta, pi_of_J, UUt, U_of_theta.
  cbn [m33 pm u33]. lc_R.
  replace (2 * a) with (a + a) by ring. rewrite exp_plus.
  pose proof (exp_pos a). split; [ring | nra].
Qed.

(* ---------------------------------------------------------------- what is handed to the compiler *)
(* fullinertia = I_bar + m skew(c)^2 with c = h/m: only the first three columns of U[:3,:] remain *)
Lemma qfB_body (u : U4 (T:=R)) x0 x1 x2 :
  posdiag u ->
  qfB (body_from_pi (pi_of_J (UUt u))) x0 x1 x2 =
    cross_sq (u00 u) 0 0 x0 x1 x2 + cross_sq (u01 u) (u11 u) 0 x0 x1 x2
  + cross_sq (u02 u) (u12 u) (u22 u) x0 x1 x2.
Proof.
  intros (_ & _ & _ & H3).
  unfold qfB, body_from_pi, pi_of_J, UUt, cross_sq, Rsqr.
  cbn [m00 m01 m02 m03 m10 m11 m12 m13 m20 m21 m22 m23 m30 m31 m32 m33 pm ph0 ph1 ph2 i00 i01 i02 i10 i11 i12 i20 i21 i22
       f00 f11 f22 f01 f02 f12 b_mass b_c0 b_c1 b_c2].
  lc_R. field. lra.
Qed.

Lemma qfB_pos (u : U4 (T:=R)) x0 x1 x2 :
  posdiag u -> ~ (x0 = 0 /\ x1 = 0 /\ x2 = 0) -> 0 < qfB (body_from_pi (pi_of_J (UUt u))) x0 x1 x2.
Proof.
  intros P Hx. rewrite qfB_body by assumption.
  pose proof (cross01_pos u x0 x1 x2 P Hx).
  pose proof (cross_sq_nonneg (u02 u) (u12 u) (u22 u) x0 x1 x2). lra.
Qed.

(* triangle inequality of the central inertia in every direction:
   tr(F) |x|^2 - 2 x^T F x = 2 * (|U3^T x|^2 restricted to the first three columns) > 0 *)
Lemma body_triangle_form (u : U4 (T:=R)) x0 x1 x2 :
  posdiag u ->
  let b := body_from_pi (pi_of_J (UUt u)) in
  (f00 b + f11 b + f22 b) * (x0 * x0 + x1 * x1 + x2 * x2) - 2 * qfB b x0 x1 x2 =
  2 * (Rsqr (u00 u * x0) + Rsqr (u01 u * x0 + u11 u * x1) + Rsqr (u02 u * x0 + u12 u * x1 + u22 u * x2)).
Proof.
  intros (_ & _ & _ & H3).
  unfold qfB, body_from_pi, pi_of_J, UUt, Rsqr.
  cbn [m00 m01 m02 m03 m10 m11 m12 m13 m20 m21 m22 m23 m30 m31 m32 m33 pm ph0 ph1 ph2 i00 i01 i02 i10 i11 i12 i20 i21 i22
       f00 f11 f22 f01 f02 f12 b_mass b_c0 b_c1 b_c2].
  lc_R. field. lra.
Qed.

Lemma body_triangle_pos (u : U4 (T:=R)) x0 x1 x2 :
  posdiag u -> ~ (x0 = 0 /\ x1 = 0 /\ x2 = 0) ->
  let b := body_from_pi (pi_of_J (UUt u)) in
  2 * qfB b x0 x1 x2 < (f00 b + f11 b + f22 b) * (x0 * x0 + x1 * x1 + x2 * x2).
Proof.
  intros P Hx b. pose proof (body_triangle_form u x0 x1 x2 P) as E. cbv zeta in E. fold b in E.
  destruct P as (H0 & H1 & H2 & H3).
  set (a := u00 u * x0) in *. set (bb := u01 u * x0 + u11 u * x1) in *.
  set (c := u02 u * x0 + u12 u * x1 + u22 u * x2) in *.
  pose proof (Rle_0_sqr a); pose proof (Rle_0_sqr bb); pose proof (Rle_0_sqr c).
  destruct (Req_dec (Rsqr a + Rsqr bb + Rsqr c) 0) as [Z | NZ]; [| lra].
  exfalso. apply Hx. apply sum3_sqr_zero in Z. destruct Z as (Ea & Eb & Ec). subst a bb c.
  assert (X0 : x0 = 0) by (apply (mult_pos_zero (u00 u)); assumption). subst x0.
  assert (X1 : x1 = 0) by (apply (mult_pos_zero (u11 u)); auto; lra). subst x1.
  assert (X2 : x2 = 0) by (apply (mult_pos_zero (u22 u)); auto; lra). repeat split; auto.
Qed.

(* mass properties are "the same": m * ipos = h *)
Lemma body_com (p : Pi (T:=R)) :
  0 < pm p ->
  let b := body_from_pi p in
  b_mass b = pm p /\ b_mass b * b_c0 b = ph0 p /\ b_mass b * b_c1 b = ph1 p /\ b_mass b * b_c2 b = ph2 p.
Proof.
  intros Hm. unfold body_from_pi; cbn [b_mass b_c0 b_c1 b_c2]. lc_R.
  repeat split; field; lra.
Qed.

(* ---------------------------------------------------------------- principal moments *)
Lemma normsq_pos x0 x1 x2 : ~ (x0 = 0 /\ x1 = 0 /\ x2 = 0) -> 0 < x0 * x0 + x1 * x1 + x2 * x2.
Proof.
  intros Hx. pose proof (Rle_0_sqr x0); pose proof (Rle_0_sqr x1); pose proof (Rle_0_sqr x2). unfold Rsqr in *.
  destruct (Req_dec (x0 * x0 + x1 * x1 + x2 * x2) 0) as [E | NE]; [| lra].
  exfalso. apply Hx. destruct (sum3_sqr_zero x0 x1 x2) as (?&?&?); [unfold Rsqr; lra | auto].
Qed.

(* every eigenvalue lam of I_bar (I x = lam x, x <> 0) is positive and smaller than the sum of the
   other two, i.e. 2 lam < trace(I) *)
Lemma principal_moments (u : U4 (T:=R)) x0 x1 x2 lam :
  posdiag u -> ~ (x0 = 0 /\ x1 = 0 /\ x2 = 0) ->
  let p := pi_of_J (UUt u) in
  i00 p * x0 + i01 p * x1 + i02 p * x2 = lam * x0 ->
  i10 p * x0 + i11 p * x1 + i12 p * x2 = lam * x1 ->
  i20 p * x0 + i21 p * x1 + i22 p * x2 = lam * x2 ->
  0 < lam /\ 2 * lam < i00 p + i11 p + i22 p.
Proof.
  intros P Hx p E0 E1 E2.
  pose proof (qfI_pos u x0 x1 x2 P Hx) as Q. pose proof (triangle_pos u x0 x1 x2 P Hx) as Tr.
  cbv zeta in Tr. fold p in Q, Tr.
  assert (EQ : qfI p x0 x1 x2 = lam * (x0 * x0 + x1 * x1 + x2 * x2)).
  { unfold qfI. lc_R. rewrite E0, E1, E2. ring. }
  pose proof (normsq_pos x0 x1 x2 Hx) as N. rewrite EQ in Q, Tr.
  set (n := x0 * x0 + x1 * x1 + x2 * x2) in *. split; nra.
Qed.

Lemma body_principal_moments (u : U4 (T:=R)) x0 x1 x2 lam :
  posdiag u -> ~ (x0 = 0 /\ x1 = 0 /\ x2 = 0) ->
  let b := body_from_pi (pi_of_J (UUt u)) in
  f00 b * x0 + f01 b * x1 + f02 b * x2 = lam * x0 ->
  f01 b * x0 + f11 b * x1 + f12 b * x2 = lam * x1 ->
  f02 b * x0 + f12 b * x1 + f22 b * x2 = lam * x2 ->
  0 < lam /\ 2 * lam < f00 b + f11 b + f22 b.
Proof.
  intros P Hx b E0 E1 E2.
  pose proof (qfB_pos u x0 x1 x2 P Hx) as Q. pose proof (body_triangle_pos u x0 x1 x2 P Hx) as Tr.
  cbv zeta in Tr. fold b in Q, Tr.
  assert (EQ : qfB b x0 x1 x2 = lam * (x0 * x0 + x1 * x1 + x2 * x2)).
  { unfold qfB. lc_R. rewrite E0, E1, E2. ring. }
  pose proof (normsq_pos x0 x1 x2 Hx) as N. rewrite EQ in Q, Tr.
  set (n := x0 * x0 + x1 * x1 + x2 * x2) in *. split; nra.
Qed.

(* ---------------------------------------------------------------- statements in terms of theta *)
Section Theta.
Variables a d1 d2 d3 s12 s23 s13 t1 t2 t3 : R.
Let U := U_of_theta a d1 d2 d3 s12 s23 s13 t1 t2 t3.
Let P := pi_from_theta a d1 d2 d3 s12 s23 s13 t1 t2 t3.
Let J := pseudoinertia_from_pi P.

Lemma J_is_UUt : J = UUt U.
Proof. unfold J, P, pi_from_theta. apply pseudo_pi_of_UUt. Qed.

Lemma pseudo_spd :
  J = UUt U /\ posdiag U /\
  (m10 J = m01 J /\ m20 J = m02 J /\ m30 J = m03 J /\ m21 J = m12 J /\ m31 J = m13 J /\ m32 J = m23 J) /\
  forall x0 x1 x2 x3,
    qf4 J x0 x1 x2 x3 =
      Rsqr (u00 U * x0) + Rsqr (u01 U * x0 + u11 U * x1) + Rsqr (u02 U * x0 + u12 U * x1 + u22 U * x2)
      + Rsqr (u03 U * x0 + u13 U * x1 + u23 U * x2 + u33 U * x3) /\
    (~ (x0 = 0 /\ x1 = 0 /\ x2 = 0 /\ x3 = 0) -> 0 < qf4 J x0 x1 x2 x3).
Proof.
  pose proof (U_of_theta_posdiag a d1 d2 d3 s12 s23 s13 t1 t2 t3) as PD. fold U in PD.
  split; [apply J_is_UUt|]. split; [exact PD|]. rewrite J_is_UUt.
  split; [apply UUt_symmetric|]. intros. split; [apply qf4_UUt | apply qf4_UUt_pos; exact PD].
Qed.

Lemma inertia_physical :
  (forall x0 x1 x2, ~ (x0 = 0 /\ x1 = 0 /\ x2 = 0) ->
      0 < qfI P x0 x1 x2 /\
      2 * qfI P x0 x1 x2 < (i00 P + i11 P + i22 P) * (x0 * x0 + x1 * x1 + x2 * x2)) /\
  (i10 P = i01 P /\ i20 P = i02 P /\ i21 P = i12 P) /\
  (0 < i00 P /\ 0 < i11 P /\ 0 < i22 P) /\
  (i22 P < i00 P + i11 P /\ i11 P < i00 P + i22 P /\ i00 P < i11 P + i22 P) /\
  (forall x0 x1 x2 lam, ~ (x0 = 0 /\ x1 = 0 /\ x2 = 0) ->
      i00 P * x0 + i01 P * x1 + i02 P * x2 = lam * x0 ->
      i10 P * x0 + i11 P * x1 + i12 P * x2 = lam * x1 ->
      i20 P * x0 + i21 P * x1 + i22 P * x2 = lam * x2 ->
      0 < lam /\ 2 * lam < i00 P + i11 P + i22 P).
Proof.
  pose proof (U_of_theta_posdiag a d1 d2 d3 s12 s23 s13 t1 t2 t3) as PD. fold U in PD.
  assert (A : forall x0 x1 x2, ~ (x0 = 0 /\ x1 = 0 /\ x2 = 0) ->
      0 < qfI P x0 x1 x2 /\
      2 * qfI P x0 x1 x2 < (i00 P + i11 P + i22 P) * (x0 * x0 + x1 * x1 + x2 * x2)).
  { intros x0 x1 x2 Hx. split; [apply (qfI_pos U); auto | apply (triangle_pos U); auto]. }
  split; [exact A|]. split; [unfold P, pi_from_theta, pi_of_J, UUt; cbn; auto|].
  assert (N100 : ~ (1 = 0 /\ 0 = 0 /\ 0 = 0)) by (intros (X & _); lra).
  assert (N010 : ~ (0 = 0 /\ 1 = 0 /\ 0 = 0)) by (intros (_ & X & _); lra).
  assert (N001 : ~ (0 = 0 /\ 0 = 0 /\ 1 = 0)) by (intros (_ & _ & X); lra).
  destruct (A 1 0 0 N100) as (Q0 & T0). destruct (A 0 1 0 N010) as (Q1 & T1). destruct (A 0 0 1 N001) as (Q2 & T2).
  unfold qfI in Q0, Q1, Q2, T0, T1, T2. lc_R.
  split; [repeat split; lra|]. split; [repeat split; lra|].
  intros. apply (principal_moments U x0 x1 x2 lam); auto.
Qed.

Lemma body_physical :
  let B := body_from_pi P in
  (b_mass B = pm P /\ b_mass B * b_c0 B = ph0 P /\ b_mass B * b_c1 B = ph1 P /\ b_mass B * b_c2 B = ph2 P) /\
  (forall x0 x1 x2, ~ (x0 = 0 /\ x1 = 0 /\ x2 = 0) ->
      0 < qfB B x0 x1 x2 /\
      2 * qfB B x0 x1 x2 < (f00 B + f11 B + f22 B) * (x0 * x0 + x1 * x1 + x2 * x2)) /\
  (forall x0 x1 x2 lam, ~ (x0 = 0 /\ x1 = 0 /\ x2 = 0) ->
      f00 B * x0 + f01 B * x1 + f02 B * x2 = lam * x0 ->
      f01 B * x0 + f11 B * x1 + f12 B * x2 = lam * x1 ->
      f02 B * x0 + f12 B * x1 + f22 B * x2 = lam * x2 ->
      0 < lam /\ 2 * lam < f00 B + f11 B + f22 B).
Proof.
  pose proof (U_of_theta_posdiag a d1 d2 d3 s12 s23 s13 t1 t2 t3) as PD. fold U in PD.
  intros B. split.
  { apply body_com. apply mass_exp. }
  split.
  { intros x0 x1 x2 Hx. split; [apply (qfB_pos U); auto | apply (body_triangle_pos U); auto]. }
  intros. apply (body_principal_moments U x0 x1 x2 lam); auto.
Qed.
End Theta.

Lemma factor_unique_chol (u v : U4 (T:=R)) :
  (0 < u00 u /\ 0 < u11 u /\ 0 < u22 u /\ 0 < u33 u) ->
  (0 < u00 v /\ 0 < u11 v /\ 0 < u22 v /\ 0 < u33 v) ->
  (UUt u = UUt v -> u = v) /\ chol_upper (UUt u) = u.
Proof. intros Pu Pv. split; [exact (factor_unique u v Pu Pv) | exact (chol_UUt u Pu)]. Qed.
