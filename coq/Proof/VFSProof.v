(* C39 — proofs about Model/VFS.v *)
From Coq Require Import List ZArith Bool Ascii Lia.
From MJV Require Import Lib.Eqb Model.VFS.
Import ListNotations.
Open Scope Z_scope.

(* ------------------------------------------------------------------ keys *)
Lemma path_eqb_eq (a b : path) : path_eqb a b = true <-> a = b.
Proof.
  unfold path_eqb. revert b. induction a as [|x r IH]; destruct b as [|y s]; simpl; split; try congruence; auto.
  - intros H. apply andb_true_iff in H. destruct H as [H1 H2]. apply Ascii.eqb_eq in H1. apply IH in H2. congruence.
  - intros H. inversion H; subst. rewrite Ascii.eqb_refl. simpl. now apply IH.
Qed.
Lemma path_eqb_refl a : path_eqb a a = true.
Proof. now apply path_eqb_eq. Qed.
Lemma path_eqb_neq (a b : path) : path_eqb a b = false <-> a <> b.
Proof. rewrite <- path_eqb_eq. destruct (path_eqb a b); intuition congruence. Qed.
Lemma path_eqb_sym a b : path_eqb a b = path_eqb b a.
Proof.
  destruct (path_eqb a b) eqn:E.
  - apply path_eqb_eq in E. subst. now rewrite path_eqb_refl.
  - apply path_eqb_neq in E. symmetry. apply path_eqb_neq. congruence.
Qed.

(* ------------------------------------------------------------------ the association list is a map *)
Lemma lookup_remove_same k v : lookup k (remove k v) = None.
Proof.
  induction v as [|[k' b] r IH]; simpl; auto.
  destruct (path_eqb k k') eqn:E; auto. simpl. now rewrite E.
Qed.
Lemma lookup_remove_other k k' v : k' <> k -> lookup k' (remove k v) = lookup k' v.
Proof.
  intros H. induction v as [|[k2 b] r IH]; simpl; auto.
  destruct (path_eqb k k2) eqn:E.
  - apply path_eqb_eq in E. subst k2. apply path_eqb_neq in H. now rewrite H.
  - simpl. now rewrite IH.
Qed.
Lemma lookup_In k v b : lookup k v = Some b -> In k (map fst v).
Proof.
  induction v as [|[k' b'] r IH]; simpl; [discriminate|].
  destruct (path_eqb k k') eqn:E; auto. apply path_eqb_eq in E. auto.
Qed.
Lemma In_lookup k v : In k (map fst v) -> exists b, lookup k v = Some b.
Proof.
  induction v as [|[k' b'] r IH]; simpl; [tauto|].
  destruct (path_eqb k k') eqn:E; eauto. intros [->|H]; auto. now rewrite path_eqb_refl in E.
Qed.
Lemma mem_true k v : mem k v = true <-> In k (map fst v).
Proof.
  unfold mem. split.
  - destruct (lookup k v) eqn:E; [eauto using lookup_In|discriminate].
  - intros H. apply In_lookup in H. destruct H as [b ->]. reflexivity.
Qed.
Lemma mem_false k v : mem k v = false <-> lookup k v = None.
Proof. unfold mem. destruct (lookup k v); split; congruence. Qed.
Lemma remove_keys k v x : In x (map fst (remove k v)) <-> In x (map fst v) /\ x <> k.
Proof.
  induction v as [|[k' b] r IH]; simpl; [tauto|].
  destruct (path_eqb k k') eqn:E.
  - apply path_eqb_eq in E. subst k'. rewrite IH. intuition congruence.
  - apply path_eqb_neq in E. simpl. rewrite IH. intuition congruence.
Qed.
Lemma remove_NoDup k v : NoDup (map fst v) -> NoDup (map fst (remove k v)).
Proof.
  induction v as [|[k' b] r IH]; simpl; auto. intros H. inversion H; subst.
  destruct (path_eqb k k'); auto. simpl. constructor; auto. rewrite remove_keys. tauto.
Qed.

(* ------------------------------------------------------------------ single operations *)
Lemma mount_spec k b v :
  (mem k v = true /\ mount k b v = (v, 2)) \/
  (mem k v = false /\ mount k b v = ((k, b) :: v, 0)).
Proof. unfold mount. destruct (mem k v); auto. Qed.

Lemma unmount_spec name v :
  (mem (file_path name) v = true /\ unmount name v = (remove (file_path name) v, 0)) \/
  (mem (file_path name) v = false /\ unmount name v = (v, -1)).
Proof. unfold unmount. destruct (mem (file_path name) v); auto. Qed.

(* the key a delete falls back to *)
Definition del_key2 (name : path) : path := file_path (strip_lower (file_path name)).

Lemma delete_spec name v :
  (mem (file_path name) v = true /\ delete_file name v = (remove (file_path name) v, 0)) \/
  (mem (file_path name) v = false /\ mem (del_key2 name) v = true /\
     delete_file name v = (remove (del_key2 name) v, 0)) \/
  (mem (file_path name) v = false /\ mem (del_key2 name) v = false /\ delete_file name v = (v, -1)).
Proof.
  unfold delete_file, del_key2.
  destruct (unmount_spec name v) as [[H ->]|[H ->]]; simpl; auto.
  right. destruct (unmount_spec (strip_lower (file_path name)) v) as [[H2 ->]|[H2 ->]]; auto.
Qed.

Lemma lookup_cons_same k b v : lookup k ((k, b) :: v) = Some b.
Proof. simpl. now rewrite path_eqb_refl. Qed.
Lemma lookup_cons_other k k' b v : k' <> k -> lookup k' ((k, b) :: v) = lookup k' v.
Proof. intros H. simpl. apply path_eqb_neq in H. now rewrite H. Qed.

(* ------------------------------------------------------------------ events of a run *)
Inductive event := EAdd (k : path) (b : bytes) | EDel (k : path) | EClear | ENone.

Definition file_key (dir name : path) : path := strip_lower (file_path2 dir name).
Definition file_contents (disk : disk_t) (dir name : path) : bytes :=
  match disk (file_path2 dir name) with Some b => b | None => [] end.

Definition event_of (disk : disk_t) (o : op) (v : vfs) : event :=
  match o with
  | OAddBuffer name b => if mem (file_path name) v then ENone else EAdd (file_path name) b
  | OAddFile dir name => if mem (file_key dir name) v then ENone
                         else EAdd (file_key dir name) (file_contents disk dir name)
  | ODelete name => if mem (file_path name) v then EDel (file_path name)
                    else if mem (del_key2 name) v then EDel (del_key2 name) else ENone
  | OReinit => EClear
  | _ => ENone
  end.

Fixpoint events (disk : disk_t) (h : list op) (v : vfs) : list event :=
  match h with
  | [] => []
  | o :: r => event_of disk o v :: events disk r (fst (step disk o v))
  end.

(* contents of key k after the events, starting from acc *)
Fixpoint last_ev (k : path) (evs : list event) (acc : option bytes) : option bytes :=
  match evs with
  | [] => acc
  | EAdd k' b :: r => last_ev k r (if path_eqb k k' then Some b else acc)
  | EDel k' :: r => last_ev k r (if path_eqb k k' then None else acc)
  | EClear :: r => last_ev k r None
  | ENone :: r => last_ev k r acc
  end.

Definition apply_ev (k : path) (e : event) (acc : option bytes) : option bytes :=
  match e with
  | EAdd k' b => if path_eqb k k' then Some b else acc
  | EDel k' => if path_eqb k k' then None else acc
  | EClear => None
  | ENone => acc
  end.

Lemma step_event disk o v k :
  lookup k (fst (step disk o v)) = apply_ev k (event_of disk o v) (lookup k v).
Proof.
  destruct o; simpl; auto.
  - unfold add_buffer. destruct (mount_spec (file_path name) b v) as [[H ->]|[H ->]]; rewrite H; simpl; auto.
  - unfold add_file. fold (file_key dir name). fold (file_contents disk dir name).
    destruct (mount_spec (file_key dir name) (file_contents disk dir name) v) as [[H ->]|[H ->]]; rewrite H; simpl; auto.
  - destruct (delete_spec name v) as [[H ->]|[[H [H2 ->]]|[H [H2 ->]]]]; rewrite H; try rewrite H2; simpl; auto.
    + destruct (path_eqb k (file_path name)) eqn:E.
      * apply path_eqb_eq in E. subst. apply lookup_remove_same.
      * apply path_eqb_neq in E. now apply lookup_remove_other.
    + destruct (path_eqb k (del_key2 name)) eqn:E.
      * apply path_eqb_eq in E. subst. apply lookup_remove_same.
      * apply path_eqb_neq in E. now apply lookup_remove_other.
Qed.

Lemma last_ev_step k e r acc : last_ev k (e :: r) acc = last_ev k r (apply_ev k e acc).
Proof. destruct e; reflexivity. Qed.

Lemma run_cons disk o r v :
  run disk (o :: r) v = (fst (run disk r (fst (step disk o v))),
                          snd (step disk o v) :: snd (run disk r (fst (step disk o v)))).
Proof.
  simpl. destruct (step disk o v) as [v1 x]. simpl. destruct (run disk r v1) as [v2 xs]. reflexivity.
Qed.

Lemma present_iff_gen disk : forall h v k,
  lookup k (fst (run disk h v)) = last_ev k (events disk h v) (lookup k v).
Proof.
  induction h as [|o r IH]; intros v k; [reflexivity|].
  rewrite run_cons. simpl fst. rewrite IH. simpl events. rewrite last_ev_step, step_event. reflexivity.
Qed.

Lemma present_iff disk h k :
  lookup k (fst (run disk h [])) = last_ev k (events disk h []) None.
Proof. apply present_iff_gen. Qed.

(* the events are exactly what the return codes say *)
Lemma event_codes disk o v :
  match o with
  | OAddBuffer name b =>
      (event_of disk o v = EAdd (file_path name) b /\ snd (step disk o v) = RCode 0) \/
      (event_of disk o v = ENone /\ snd (step disk o v) = RCode 2 /\ fst (step disk o v) = v /\
       mem (file_path name) v = true)
  | OAddFile dir name =>
      (event_of disk o v = EAdd (file_key dir name) (file_contents disk dir name) /\ snd (step disk o v) = RCode 0) \/
      (event_of disk o v = ENone /\ snd (step disk o v) = RCode 2 /\ fst (step disk o v) = v /\
       mem (file_key dir name) v = true)
  | ODelete name =>
      ((event_of disk o v = EDel (file_path name) \/ event_of disk o v = EDel (del_key2 name)) /\
       snd (step disk o v) = RCode 0) \/
      (event_of disk o v = ENone /\ snd (step disk o v) = RCode (-1) /\ fst (step disk o v) = v /\
       mem (file_path name) v = false /\ mem (del_key2 name) v = false)
  | OReinit => event_of disk o v = EClear
  | _ => event_of disk o v = ENone /\ fst (step disk o v) = v
  end.
Proof.
  destruct o; simpl; auto.
  - unfold add_buffer. destruct (mount_spec (file_path name) b v) as [[H ->]|[H ->]]; rewrite H; simpl; auto.
  - unfold add_file. fold (file_key dir name). fold (file_contents disk dir name).
    destruct (mount_spec (file_key dir name) (file_contents disk dir name) v) as [[H ->]|[H ->]]; rewrite H; simpl; auto.
  - destruct (delete_spec name v) as [[H ->]|[[H [H2 ->]]|[H [H2 ->]]]]; rewrite H; try rewrite H2; simpl; auto 6.
Qed.

(* ------------------------------------------------------------------ keys stay unique *)
Lemma step_NoDup disk o v : NoDup (map fst v) -> NoDup (map fst (fst (step disk o v))).
Proof.
  intros N. destruct o; simpl; auto.
  - unfold add_buffer. destruct (mount_spec (file_path name) b v) as [[H ->]|[H ->]]; simpl; auto.
    constructor; auto. rewrite <- mem_true. congruence.
  - unfold add_file. match goal with |- context [mount ?k ?b v] => destruct (mount_spec k b v) as [[H ->]|[H ->]] end; simpl; auto.
    constructor; auto. rewrite <- mem_true. congruence.
  - destruct (delete_spec name v) as [[H ->]|[[H [H2 ->]]|[H [H2 ->]]]]; simpl; auto using remove_NoDup.
  - constructor.
Qed.

Lemma run_NoDup disk : forall h v, NoDup (map fst v) -> NoDup (map fst (fst (run disk h v))).
Proof.
  induction h as [|o r IH]; intros v N; [exact N|].
  rewrite run_cons. simpl. apply IH. now apply step_NoDup.
Qed.

(* ------------------------------------------------------------------ statements about single calls *)
Lemma repeated_add name b v :
  mem (file_path name) v = true -> add_buffer name b v = (v, 2).
Proof. intros H. unfold add_buffer, mount. now rewrite H. Qed.

Lemma repeated_add_file disk dir name v :
  mem (file_key dir name) v = true -> add_file disk dir name v = (v, 2).
Proof. intros H. unfold add_file. fold (file_key dir name). unfold mount. now rewrite H. Qed.

Lemma add_then_contains name name' b v v' :
  add_buffer name b v = (v', 0) -> file_path name' = file_path name ->
  contains_buffer name' v' = true /\ lookup (file_path name) v' = Some b /\
  (forall k, k <> file_path name -> lookup k v' = lookup k v).
Proof.
  unfold add_buffer. destruct (mount_spec (file_path name) b v) as [[H ->]|[H ->]]; intros E Hn; inversion E; subst.
  unfold contains_buffer. rewrite Hn. split; [|split].
  - unfold mem. now rewrite lookup_cons_same.
  - apply lookup_cons_same.
  - intros k Hk. now apply lookup_cons_other.
Qed.

Lemma add_fresh name b v :
  mem (file_path name) v = false -> add_buffer name b v = ((file_path name, b) :: v, 0).
Proof. intros H. unfold add_buffer, mount. now rewrite H. Qed.

Lemma delete_absent name v :
  mem (file_path name) v = false -> mem (del_key2 name) v = false -> delete_file name v = (v, -1).
Proof.
  intros H1 H2. destruct (delete_spec name v) as [[H _]|[[_ [H _]]|[_ [_ E]]]]; congruence.
Qed.

Lemma delete_present name v :
  mem (file_path name) v = true ->
  exists v', delete_file name v = (v', 0) /\ lookup (file_path name) v' = None /\
             (forall k, k <> file_path name -> lookup k v' = lookup k v).
Proof.
  intros H. destruct (delete_spec name v) as [[_ E]|[[H' _]|[H' _]]]; try congruence.
  exists (remove (file_path name) v). split; auto. split; [apply lookup_remove_same|].
  intros k Hk. now apply lookup_remove_other.
Qed.

Lemma delete_code name v :
  snd (delete_file name v) = 0 \/ snd (delete_file name v) = -1.
Proof. destruct (delete_spec name v) as [[_ ->]|[[_ [_ ->]]|[_ [_ ->]]]]; auto. Qed.

(* ------------------------------------------------------------------ FindMount *)
Lemma last_sep_from_bound s : forall i acc n,
  last_sep_from s i acc = Some n ->
  (acc = Some n) \/ (i <= n < i + length s)%nat.
Proof.
  induction s as [|c r IH]; simpl; intros i acc n H; auto.
  apply IH in H. destruct H as [H|H]; [|right; lia].
  destruct (is_sep c); auto. inversion H; subst. right. lia.
Qed.
Lemma last_sep_lt s n : last_sep s = Some n -> (n < length s)%nat.
Proof. unfold last_sep. intros H. apply last_sep_from_bound in H. destruct H as [H|H]; [discriminate|lia]. Qed.

Lemma find_exact_total : forall fuel v str, (length str < fuel)%nat -> find_exact fuel v str <> None.
Proof.
  induction fuel as [|f IH]; intros v str H; [lia|]. simpl.
  destruct str as [|c r]; [discriminate|].
  destruct (mem (c :: r) v); [discriminate|].
  destruct (last_sep (c :: r)) as [n|] eqn:E; [|discriminate].
  apply IH. apply last_sep_lt in E. rewrite firstn_length. simpl in *. lia.
Qed.

Lemma find_mount_total v full : find_mount v full <> FFuel.
Proof.
  unfold find_mount. pose proof (find_exact_total (S (length full)) v full) as H.
  destruct (find_exact (S (length full)) v full) as [[k|]|].
  - discriminate.
  - destruct (filter _ _); discriminate.
  - exfalso. apply H; auto.
Qed.

Lemma find_mount_exact v full :
  full <> [] -> mem full v = true -> find_mount v full = FMount full.
Proof.
  intros Hne H. unfold find_mount. simpl. destruct full as [|c r]; [congruence|]. now rewrite H.
Qed.

Lemma read_present disk dir name v b :
  file_path2 dir name <> [] -> lookup (file_path2 dir name) v = Some b ->
  open_read disk dir name v = [Some b].
Proof.
  intros Hne H. unfold open_read. rewrite find_mount_exact; auto.
  - unfold content_of. now rewrite H.
  - unfold mem. now rewrite H.
Qed.

Lemma NoDup_all_equal {A} (l : list A) :
  NoDup l -> (forall x y, In x l -> In y l -> x = y) -> (length l <= 1)%nat.
Proof.
  intros N H. destruct l as [|x [|y r]]; simpl; auto.
  exfalso. inversion N as [|? ? Hn Hd]; subst. apply Hn. rewrite (H x y); simpl; auto.
Qed.

(* legacy lookup: deterministic when stripped-lowered names are unique among the mounts *)
Lemma open_deterministic disk dir name v :
  NoDup (map fst v) ->
  (forall k1 k2, In k1 (map fst v) -> In k2 (map fst v) -> strip_lower k1 = strip_lower k2 -> k1 = k2) ->
  length (open_read disk dir name v) = 1%nat.
Proof.
  intros N U. unfold open_read.
  pose proof (find_mount_total v (file_path2 dir name)) as T.
  unfold find_mount in *.
  destruct (find_exact _ v (file_path2 dir name)) as [[k|]|]; auto; [|congruence].
  set (f := fun k => path_eqb (strip_lower k) (strip_lower (file_path2 dir name))) in *.
  assert (L : (length (filter f (map fst v)) <= 1)%nat).
  { apply NoDup_all_equal; [now apply NoDup_filter|].
    intros x y Hx Hy. apply filter_In in Hx. apply filter_In in Hy. destruct Hx as [Hx Fx], Hy as [Hy Fy].
    unfold f in Fx, Fy. apply path_eqb_eq in Fx. apply path_eqb_eq in Fy. apply U; congruence. }
  destruct (filter f (map fst v)) as [|x [|y r]]; simpl in *; auto. lia.
Qed.

(* ------------------------------------------------------------------ packaged *)
Definition reachable (disk : disk_t) (v : vfs) : Prop := exists h, v = fst (run disk h []).

Lemma reachable_NoDup disk v : reachable disk v -> NoDup (map fst v).
Proof. intros [h ->]. apply run_NoDup. constructor. Qed.

Lemma contains_iff disk h name :
  contains_buffer name (fst (run disk h [])) = true <->
  exists b, last_ev (file_path name) (events disk h []) None = Some b.
Proof.
  unfold contains_buffer, mem. rewrite present_iff.
  destruct (last_ev _ _ _); split; eauto; try discriminate. intros [b H]. discriminate.
Qed.

Lemma read_last_add disk h dir name b :
  file_path2 dir name <> [] ->
  last_ev (file_path2 dir name) (events disk h []) None = Some b ->
  open_read disk dir name (fst (run disk h [])) = [Some b].
Proof. intros Hne H. apply read_present; auto. now rewrite present_iff. Qed.
