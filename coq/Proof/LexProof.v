(* C37 — attribute lexers: acceptance characterised by the token list. *)
From Coq Require Import String Ascii List Bool ZArith Arith Lia.
From MJV Require Import Model.Lex.
Import ListNotations.
Open Scope string_scope.
Open Scope nat_scope.

Lemma forallb_Forall : forall (A : Type) (p : A -> bool) (l : list A), forallb p l = true <-> Forall (fun x => p x = true) l.
Proof. intros A p l. rewrite forallb_forall, Forall_forall. reflexivity. Qed.

(* numeric lists: accepted with n >= 1 values iff every token is a well-formed numeral and the number
   of tokens is within the bounds (1..len, exactly len when exact) *)
Theorem numlist_accepts_iff : forall (wf : string -> bool) (len : nat) (exact : bool) (text : string) (n : nat),
  (read_num wf len exact text = NumOk n /\ 0 < n) <->
  (Forall (fun t => wf t = true) (split_ws text) /\ n = length (split_ws text) /\ 1 <= n <= len /\ (exact = true -> n = len)).
Proof.
  intros wf len exact text n. unfold read_num. rewrite <- forallb_Forall.
  destruct (forallb wf (split_ws text)) eqn:Ewf; simpl.
  2:{ split; intros [H _]; discriminate. }
  destruct (length (split_ws text) =? 0) eqn:E0; [apply Nat.eqb_eq in E0 | apply Nat.eqb_neq in E0].
  { split; [intros [H Hn]; inversion H; lia | intros [_ [Hn [Hb _]]]; lia]. }
  destruct exact; simpl;
  repeat match goal with |- context [?a <? ?b] => let E := fresh "E" in destruct (a <? b) eqn:E; [apply Nat.ltb_lt in E | apply Nat.ltb_ge in E]; simpl end;
  (split; [intros [H Hn]; try discriminate; inversion H; subst; repeat split; try lia; try reflexivity; try (intros; discriminate); try (intros; lia)
          | intros [_ [Hn [Hb He]]]; try (specialize (He eq_refl)); subst; try lia; try (split; [reflexivity | lia]) ]).
Qed.

(* the three rejections are exactly: an ill-formed token; too many tokens; too few when exact *)
Theorem numlist_rejections : forall (wf : string -> bool) (len : nat) (exact : bool) (text : string),
  (read_num wf len exact text = NumFormat <-> forallb wf (split_ws text) = false) /\
  (read_num wf len exact text = NumMany <-> forallb wf (split_ws text) = true /\ len < length (split_ws text) /\
                                            (exact = true -> len <= length (split_ws text))) /\
  (read_num wf len exact text = NumFew <-> forallb wf (split_ws text) = true /\ exact = true /\ 0 < length (split_ws text) < len).
Proof.
  intros wf len exact text. unfold read_num.
  destruct (forallb wf (split_ws text)); simpl.
  - destruct (length (split_ws text) =? 0) eqn:E0; [apply Nat.eqb_eq in E0 | apply Nat.eqb_neq in E0].
    + repeat split; try discriminate; try (intros [_ H]; lia); try (intros [_ [_ H]]; lia); try (intros [_ [H _]]; lia).
    + destruct exact; simpl.
      * destruct (length (split_ws text) <? len) eqn:E1; [apply Nat.ltb_lt in E1 | apply Nat.ltb_ge in E1].
        -- repeat split; try discriminate; try lia; try (intros [_ [H _]]; lia).
        -- destruct (len <? length (split_ws text)) eqn:E2; [apply Nat.ltb_lt in E2 | apply Nat.ltb_ge in E2];
             repeat split; try discriminate; try lia; try (intros [_ [H _]]; lia); try (intros [_ [_ H]]; lia).
      * destruct (len <? length (split_ws text)) eqn:E2; [apply Nat.ltb_lt in E2 | apply Nat.ltb_ge in E2];
          repeat split; try discriminate; try lia; try (intros [_ [H _]]; lia); try (intros [_ [H _]]; discriminate).
  - repeat split; try discriminate; try reflexivity; intros [H _]; discriminate.
Qed.

(* tokens are non-empty and contain no space *)
Fixpoint no_space (s : string) : bool := match s with EmptyString => true | String c r => negb (is_space c) && no_space r end.

Lemma no_space_app : forall (a : string) (c : ascii), no_space a = true -> is_space c = false -> no_space (a ++ String c "") = true.
Proof. induction a as [| x a IH]; simpl; intros c Ha Hc; [rewrite Hc; reflexivity |].
  apply andb_true_iff in Ha. destruct Ha as [Hx Ha]. rewrite Hx. simpl. apply IH; assumption. Qed.

Lemma app_nonempty : forall (a : string) (c : ascii), is_empty (a ++ String c "") = false.
Proof. destruct a; reflexivity. Qed.

Lemma split_ws_aux_tokens : forall (s cur : string), no_space cur = true ->
  Forall (fun t => is_empty t = false /\ no_space t = true) (split_ws_aux s cur).
Proof.
  induction s as [| c r IH]; intros cur Hc; simpl.
  - destruct (is_empty cur) eqn:E; constructor; [split; assumption | constructor].
  - destruct (is_space c) eqn:Es.
    + destruct (is_empty cur) eqn:E.
      * apply IH. reflexivity.
      * constructor; [split; assumption | apply IH; reflexivity].
    + apply IH. apply no_space_app; assumption.
Qed.

Theorem split_ws_tokens : forall s : string, Forall (fun t => is_empty t = false /\ no_space t = true) (split_ws s).
Proof. intros s. apply split_ws_aux_tokens. reflexivity. Qed.

(* joining space-free non-empty tokens with single spaces and splitting again gives the tokens back *)
Fixpoint join_sp (ts : list string) : string :=
  match ts with [] => "" | [t] => t | t :: r => t ++ " " ++ join_sp r end.

Lemma app_nil_r_s : forall s : string, s ++ "" = s.
Proof. induction s; simpl; [reflexivity | f_equal; assumption]. Qed.
Lemma app_char_assoc : forall (cur t : string) (c : ascii), (cur ++ String c "") ++ t = cur ++ String c t.
Proof. induction cur; simpl; intros; [reflexivity | f_equal; apply IHcur]. Qed.

Lemma split_ws_aux_token : forall (t cur rest : string), no_space t = true ->
  split_ws_aux (t ++ rest) cur = split_ws_aux rest (cur ++ t).
Proof.
  induction t as [| c t IH]; intros cur rest Ht; simpl.
  - rewrite app_nil_r_s. reflexivity.
  - apply andb_true_iff in Ht. destruct Ht as [Hc Ht]. apply negb_true_iff in Hc. rewrite Hc.
    rewrite IH by assumption. rewrite app_char_assoc. reflexivity.
Qed.

Theorem split_join : forall ts : list string,
  Forall (fun t => is_empty t = false /\ no_space t = true) ts -> split_ws (join_sp ts) = ts.
Proof.
  unfold split_ws. induction ts as [| t r IH]; intros H; [reflexivity |].
  inversion H as [| ? ? [Hne Hns] Hr]; subst. destruct r as [| t2 r2].
  - simpl. rewrite <- (app_nil_r_s t) at 1.
    rewrite split_ws_aux_token by assumption. simpl. rewrite Hne. reflexivity.
  - change (join_sp (t :: t2 :: r2)) with (t ++ " " ++ join_sp (t2 :: r2)).
    rewrite split_ws_aux_token by assumption. simpl. rewrite Hne. f_equal. apply IH. assumption.
Qed.

(* keywords *)
Lemma index_of_some : forall (k : string) (keys : list string) (i j : nat),
  index_of k keys i = Some j -> In k keys.
Proof.
  induction keys as [| x r IH]; simpl; intros i j H; [discriminate |].
  destruct (x =? k)%string eqn:E; [left; apply String.eqb_eq; exact E | right; eapply IH; exact H].
Qed.
Lemma index_of_none : forall (k : string) (keys : list string) (i : nat),
  index_of k keys i = None <-> ~ In k keys.
Proof.
  induction keys as [| x r IH]; simpl; intros i.
  - split; [intros _ [] | reflexivity].
  - destruct (x =? k)%string eqn:E.
    + apply String.eqb_eq in E. split; [discriminate | intros H; exfalso; apply H; left; exact E].
    + apply String.eqb_neq in E. rewrite IH. split; [intros H [H1 | H1]; [contradiction | contradiction] | intros H H1; apply H; right; exact H1].
Qed.

Theorem keyword_accepts_iff : forall (keys : list string) (text : string),
  (exists v, map_value keys text = KeyOk v) <-> In text keys.
Proof.
  intros keys text. unfold map_value. destruct (index_of text keys 0) eqn:E.
  - split; [intros _; eapply index_of_some; exact E | intros _; eexists; reflexivity].
  - split; [intros [v H]; discriminate | intros H; apply index_of_none in E; contradiction].
Qed.

Lemma map_values_aux_ok : forall (keys toks seen : list string),
  (exists v, map_values_aux keys toks seen = KeyOk v) <->
  (Forall (fun t => In t keys) toks /\ NoDup toks /\ forall t, In t toks -> ~ In t seen).
Proof.
  intros keys toks. induction toks as [| t r IH]; intros seen; simpl.
  - split; [intros _; repeat split; [constructor | constructor | intros t []] | intros _; eexists; reflexivity].
  - destruct (existsb (String.eqb t) seen) eqn:Es.
    + apply existsb_exists in Es. destruct Es as [x [Hx Hxt]]. apply String.eqb_eq in Hxt. subst x.
      split; [intros [v H]; discriminate |]. intros [_ [_ H]]. exfalso. apply (H t); [left; reflexivity | exact Hx].
    + assert (Hns : ~ In t seen).
      { intros Hin. assert (existsb (String.eqb t) seen = true) by (apply existsb_exists; exists t; split; [exact Hin | apply String.eqb_refl]). congruence. }
      destruct (index_of t keys 0) eqn:Ei.
      * specialize (IH (t :: seen)). split.
        -- intros [v H]. destruct (map_values_aux keys r (t :: seen)) eqn:Er; try discriminate.
           destruct (proj1 IH (ex_intro _ vals eq_refl)) as [Hf [Hnd Hs]].
           repeat split.
           ++ constructor; [eapply index_of_some; exact Ei | exact Hf].
           ++ constructor; [intros Hin; apply (Hs t Hin); left; reflexivity | exact Hnd].
           ++ intros u [Hu | Hu]; [subst; exact Hns | intros Hin; apply (Hs u Hu); right; exact Hin].
        -- intros [Hf [Hnd Hs]]. inversion Hf; subst. inversion Hnd; subst.
           destruct (proj2 IH) as [v Hv].
           { repeat split; [assumption | assumption |]. intros u Hu [Hin | Hin]; [subst; contradiction | apply (Hs u); [right; exact Hu | exact Hin]]. }
           rewrite Hv. eexists; reflexivity.
      * split; [intros [v H]; discriminate |]. intros [Hf _]. inversion Hf; subst. apply index_of_none in Ei. contradiction.
Qed.

Theorem keywords_accept_iff : forall (keys : list string) (text : string),
  (exists v, map_values keys text = KeyOk v) <-> (Forall (fun t => In t keys) (split_ws text) /\ NoDup (split_ws text)).
Proof.
  intros keys text. unfold map_values. rewrite map_values_aux_ok. split.
  - intros [H1 [H2 _]]. split; assumption.
  - intros [H1 H2]. repeat split; try assumption. intros t _ [].
Qed.

(* ---------------------------------------------------------------- integer lists *)
Definition int_tok (lo hi : Z) (t : string) (z : Z) : Prop := int_value t = Some z /\ (lo <= z <= hi)%Z.

Lemma scan_ints_ok : forall (lo hi : Z) (ts : list string) (vals : list Z),
  scan_ints lo hi ts = IntOk vals <-> Forall2 (int_tok lo hi) ts vals.
Proof.
  intros lo hi ts. induction ts as [| t r IH]; intros vals; simpl.
  - split.
    + intros H. inversion H. constructor.
    + intros H. inversion H. reflexivity.
  - destruct (int_value t) as [z |] eqn:Ev.
    + destruct ((lo <=? z) && (z <=? hi))%Z eqn:Er.
      * apply andb_true_iff in Er. destruct Er as [E1 E2]. apply Z.leb_le in E1. apply Z.leb_le in E2.
        destruct (scan_ints lo hi r) as [l | | | |] eqn:Es.
        -- split.
           ++ intros H. inversion H; subst. constructor; [split; [exact Ev | lia] | apply IH; reflexivity].
           ++ intros H. inversion H as [| ? y ? l' [Hv Hr] Hrest]; subst.
              rewrite Ev in Hv. inversion Hv; subst. apply IH in Hrest. inversion Hrest; subst. reflexivity.
        -- split; [discriminate |]. intros H. inversion H as [| ? y ? l' _ Hrest]; subst. apply IH in Hrest. discriminate.
        -- split; [discriminate |]. intros H. inversion H as [| ? y ? l' _ Hrest]; subst. apply IH in Hrest. discriminate.
        -- split; [discriminate |]. intros H. inversion H as [| ? y ? l' _ Hrest]; subst. apply IH in Hrest. discriminate.
        -- split; [discriminate |]. intros H. inversion H as [| ? y ? l' _ Hrest]; subst. apply IH in Hrest. discriminate.
      * split; [discriminate |]. intros H. inversion H as [| ? y ? l' [Hv Hr] _]; subst.
        rewrite Ev in Hv. inversion Hv; subst.
        assert (((lo <=? y) && (y <=? hi))%Z = true) by (apply andb_true_iff; split; apply Z.leb_le; lia). congruence.
    + split; [discriminate |]. intros H. inversion H as [| ? y ? l' [Hv _] _]; subst. congruence.
Qed.

Lemma arity_ok : forall (exact : bool) (len : nat) (l vals : list Z),
  (if exact && (length l <? len) then IntFew else if len <? length l then IntMany else IntOk l) = IntOk vals <->
  (vals = l /\ length l <= len /\ (exact = true -> length l = len)).
Proof.
  intros exact len l vals.
  destruct (length l <? len) eqn:E1; [apply Nat.ltb_lt in E1 | apply Nat.ltb_ge in E1];
  destruct (len <? length l) eqn:E2; [apply Nat.ltb_lt in E2 | apply Nat.ltb_ge in E2 | apply Nat.ltb_lt in E2 | apply Nat.ltb_ge in E2];
  destruct exact; simpl; split; intros H;
  try discriminate; try lia;
  try (destruct H as [_ [H1 H2]]; try specialize (H2 eq_refl); lia);
  try (inversion H; subst; repeat split; try lia; intros; try discriminate; lia);
  try (destruct H as [H0 _]; subst; reflexivity).
Qed.

(* a non-empty list of values is accepted iff the tokens are integer literals whose values lie in
   [lo, hi] - these are the values returned - and their number is within the bounds *)
Theorem intlist_accepts_iff : forall (lo hi : Z) (len : nat) (exact : bool) (text : string) (vals : list Z),
  (read_ints lo hi len exact text = IntOk vals /\ vals <> []) <->
  (Forall2 (int_tok lo hi) (split_ws text) vals /\ 1 <= length vals <= len /\ (exact = true -> length vals = len)).
Proof.
  intros lo hi len exact text vals. unfold read_ints.
  destruct (scan_ints lo hi (split_ws text)) as [l | | | |] eqn:Es.
  - assert (Huniq : forall v, Forall2 (int_tok lo hi) (split_ws text) v -> v = l).
    { intros v Hv. apply scan_ints_ok in Hv. congruence. }
    apply scan_ints_ok in Es.
    destruct (length l =? 0) eqn:E0; [apply Nat.eqb_eq in E0 | apply Nat.eqb_neq in E0].
    + split.
      * intros [H Hne]. inversion H; subst. congruence.
      * intros [HF [Hb _]]. apply Huniq in HF. subst. lia.
    + rewrite arity_ok. split.
      * intros [[Hv [Hl He]] Hne]. subst. repeat split; try assumption; lia.
      * intros [HF [Hb He]]. apply Huniq in HF. subst. repeat split; try lia; try assumption.
        intros Hn. subst. simpl in E0. congruence.
  - split; [intros [H _]; discriminate | intros [HF _]; apply scan_ints_ok in HF; congruence].
  - split; [intros [H _]; discriminate | intros [HF _]; apply scan_ints_ok in HF; congruence].
  - split; [intros [H _]; discriminate | intros [HF _]; apply scan_ints_ok in HF; congruence].
  - split; [intros [H _]; discriminate | intros [HF _]; apply scan_ints_ok in HF; congruence].
Qed.

(* the "number is too large" rejection: some token is an integer literal outside [lo, hi] and every
   token before it is a literal inside *)
Theorem intlist_range_rejected : forall (lo hi : Z) (len : nat) (exact : bool) (text : string),
  read_ints lo hi len exact text = IntRange <->
  exists (pre : list string) (t : string) (post : list string) (z : Z),
    split_ws text = (pre ++ t :: post)%list /\ (exists vs, Forall2 (int_tok lo hi) pre vs) /\
    int_value t = Some z /\ ~ (lo <= z <= hi)%Z.
Proof.
  intros lo hi len exact text. unfold read_ints.
  assert (G : forall ts, scan_ints lo hi ts = IntRange <->
            exists pre t post z, ts = (pre ++ t :: post)%list /\ (exists vs, Forall2 (int_tok lo hi) pre vs) /\ int_value t = Some z /\ ~ (lo <= z <= hi)%Z).
  { induction ts as [| t r IH]; simpl.
    - split; [discriminate |]. intros [pre [t [post [z [H _]]]]]. destruct pre; discriminate.
    - destruct (int_value t) as [z |] eqn:Ev.
      + destruct ((lo <=? z) && (z <=? hi))%Z eqn:Er.
        * apply andb_true_iff in Er. destruct Er as [E1 E2]. apply Z.leb_le in E1. apply Z.leb_le in E2.
          split.
          -- intros H. destruct (scan_ints lo hi r) eqn:Es; try discriminate.
             destruct (proj1 IH eq_refl) as [pre [t' [post [z' [Hr [[vs Hvs] [Hv Hn]]]]]]].
             exists (t :: pre), t', post, z'. subst r. repeat split; try assumption; try lia.
             exists (z :: vs). constructor; [split; [exact Ev | lia] | exact Hvs].
          -- intros [pre [t' [post [z' [Hts [[vs Hvs] [Hv Hn]]]]]]]. destruct pre as [| p pre].
             ++ simpl in Hts. inversion Hts; subst. rewrite Ev in Hv. inversion Hv; subst. exfalso. apply Hn. lia.
             ++ simpl in Hts. inversion Hts; subst. inversion Hvs; subst.
                assert (Hx : scan_ints lo hi (pre ++ t' :: post)%list = IntRange).
                { apply IH. exists pre, t', post, z'. repeat split; try assumption. eexists; eassumption. }
                rewrite Hx. reflexivity.
        * split; [intros _ | reflexivity].
          exists [], t, r, z. repeat split; try assumption; try reflexivity.
          -- exists []. constructor.
          -- intros [H1 H2]. assert (((lo <=? z) && (z <=? hi))%Z = true) by (apply andb_true_iff; split; apply Z.leb_le; lia). congruence.
      + split; [discriminate |]. intros [pre [t' [post [z' [Hts [[vs Hvs] [Hv Hn]]]]]]]. destruct pre as [| p pre].
        * simpl in Hts. inversion Hts; subst. congruence.
        * simpl in Hts. inversion Hts; subst. inversion Hvs as [| ? ? ? ? [Hp _] _]; subst. congruence. }
  destruct (scan_ints lo hi (split_ws text)) as [l | | | |] eqn:Es.
  - split.
    + intros H. destruct (length l =? 0); [discriminate |]. destruct (exact && (length l <? len)); [discriminate |].
      destruct (len <? length l); discriminate.
    + intros H. apply G in H. congruence.
  - split; [discriminate | intros H; apply G in H; congruence].
  - split; [discriminate | intros H; apply G in H; congruence].
  - split; [discriminate | intros H; apply G in H; congruence].
  - split; [intros _; apply G; exact Es | reflexivity].
Qed.
