(* C46 — proofs about Model/LeastSquares.v at the real numbers. *)
From Coq Require Import ZArith List Bool PrimFloat Reals Lra Lia Psatz.
From MJV Require Import Lib.Num Lib.NumR Model.LeastSquares.
Import ListNotations.
Open Scope R_scope.

Lemma nhalf_R : nhalf (T:=R) = / 2.
Proof. unfold nhalf. num_R. unfold Rdec. replace (10 ^ 1)%Z with 10%Z by reflexivity. lra. Qed.
Lemma c1_R : armijo_c1 (T:=R) = / 100.
Proof. unfold armijo_c1. num_R. unfold Rdec. replace (10 ^ 2)%Z with 100%Z by reflexivity. lra. Qed.

Ltac ls_R := rewrite ?nhalf_R, ?c1_R in *; unfold ntwo in *; num_R.

(* case analysis on the boolean comparisons at R *)
Ltac rcases :=
  repeat match goal with
  | |- context [Rltb ?a ?b] => let E := fresh "E" in destruct (Rltb a b) eqn:E; [apply Rltb_true in E | apply Rltb_false in E]
  | |- context [Rleb ?a ?b] => let E := fresh "E" in destruct (Rleb a b) eqn:E; [apply Rleb_true in E | apply Rleb_false in E]
  end.

Lemma andb_true3 a b : a && b = true -> a = true /\ b = true.
Proof. apply andb_true_iff. Qed.

Arguments objective : simpl never.
Arguments vdot : simpl never.
Arguments vnorm : simpl never.

Lemma last_cons {A} (l : list A) : forall a d, last (a :: l) d = last l a.
Proof. induction l as [| b l IH]; intros a d; [reflexivity|]. change (last (a :: b :: l) d) with (last (b :: l) d). rewrite IH. symmetry. apply IH. Qed.

Section P.
Variable res : list R -> list R.
Variable qp : nat -> list (list R) -> list R -> list R -> list R -> option (list R).
Variable box : list (Bnd (T:=R)).
Variable Dfix : list R.
Variable adaptive : bool.
Variable clipcand : bool.
Variables eps mu_min mu_max mu_factor xtol gtol : R.
Variable inner_fuel : nat.

Notation inner_ := (inner res qp box clipcand mu_min mu_max mu_factor).
Notation outer_ := (outer res qp box Dfix adaptive clipcand eps mu_min mu_max mu_factor xtol gtol inner_fuel).

(* ---------------------------------------------------------------- the box *)
Definition inP (a : R) (b : Bnd (T:=R)) : Prop := blo b <= a <= bhi b.
Definition inboxL (bx : list Bnd) (x : list R) : Prop := Forall2 inP x bx.
Definition inboxP (x : list R) : Prop := inboxL box x.

Lemma inbox_b_L bx x : forall2b (fun a b => andb (nleb (blo b) a) (nleb a (bhi b))) x bx = true <-> inboxL bx x.
Proof.
  revert bx. induction x as [| a x IH]; intros [| b bx]; cbn; split; intros Hx; try discriminate; try constructor;
    try (inversion Hx; fail).
  - apply andb_true_iff in Hx. destruct Hx as (H1 & H2). apply andb_true_iff in H1. destruct H1 as (A & B).
    num_R. apply Rleb_true in A. apply Rleb_true in B. split; assumption.
  - apply andb_true_iff in Hx. destruct Hx as (H1 & H2). apply IH. assumption.
  - inversion Hx; subst. apply andb_true_iff. split.
    + destruct H2 as (A & B). num_R. apply andb_true_iff. split; apply Rleb_true; assumption.
    + apply IH. assumption.
Qed.

Lemma inbox_b_P x : inbox_b box x = true <-> inboxP x.
Proof. apply inbox_b_L. Qed.

Lemma inboxL_length bx x : inboxL bx x -> length x = length bx.
Proof. intros Hx. induction Hx; cbn; auto. Qed.

(* ---------------------------------------------------------------- clip *)
Lemma clip1_in a b : blo b < bhi b -> inP (clip1 a b) b.
Proof.
  intros Hb. unfold clip1, nmin, nmax, inP. num_R. rcases; lra.
Qed.

Lemma clip_inbox bx x :
  length x = length bx -> forallb (fun b => nltb (blo b) (bhi b)) bx = true -> inboxL bx (map2 clip1 x bx).
Proof.
  revert bx. induction x as [| a x IH]; intros [| b bx] L Hb; cbn in *; try discriminate; try constructor.
  - apply andb_true_iff in Hb. destruct Hb as (A & _). num_R. apply Rltb_true in A. apply clip1_in; assumption.
  - apply andb_true_iff in Hb. destruct Hb as (_ & B). apply IH; auto.
Qed.

(* ---------------------------------------------------------------- finite-difference points *)
Definition wide (b : Bnd (T:=R)) : Prop :=
  2 * eps * Rmax 1 (Rmax (Rabs (blo b)) (Rabs (bhi b))) <= bhi b - blo b.

Lemma nmax_Rmax (a b : R) : nmax a b = Rmax a b.
Proof. unfold nmax, Rmax. num_R. destruct (Rle_dec a b); rcases; lra. Qed.

Lemma fd_step_in a b :
  0 < eps -> wide b -> inP a b -> inP (a + fd_step eps a b) b.
Proof.
  intros He Hw (Hl & Hh). unfold wide in Hw. unfold fd_step, inP. ls_R. rewrite nmax_Rmax.
  set (m := Rmax 1 (Rabs a)). set (M := Rmax 1 (Rmax (Rabs (blo b)) (Rabs (bhi b)))) in *.
  assert (m1 : 1 <= m) by apply Rmax_l.
  assert (mM : m <= M).
  { unfold m, M. apply Rmax_lub; [apply Rmax_l|]. eapply Rle_trans; [| apply Rmax_r].
    unfold Rabs. destruct (Rcase_abs a).
    - eapply Rle_trans; [| apply Rmax_l]. destruct (Rcase_abs (blo b)); lra.
    - eapply Rle_trans; [| apply Rmax_r]. destruct (Rcase_abs (bhi b)); lra. }
  assert (em : 0 < eps * m) by (apply Rmult_lt_0_compat; lra).
  assert (eM : eps * m <= eps * M) by (apply Rmult_le_compat_l; lra).
  rcases.
  - replace (- eps * m + a - a) with (- (eps * m)) by ring. lra.
  - replace (eps * m + a - a) with (eps * m) by ring. lra.
Qed.

Lemma fd_points_aux_in bpre pre bx x :
  0 < eps ->
  inboxL bpre pre -> inboxL bx x -> Forall wide bx ->
  Forall (inboxL (bpre ++ bx)) (fd_points_aux pre x (map2 (fd_step eps) x bx)).
Proof.
  intros He. revert bpre pre bx. induction x as [| a x IH]; intros bpre pre [| b bx] Hpre Hx Hw; cbn; try constructor.
  - inversion Hx; subst. inversion Hw; subst.
    apply Forall2_app; [assumption|]. constructor; [apply fd_step_in; assumption | assumption].
  - inversion Hx; subst. inversion Hw; subst.
    replace (bpre ++ b :: bx) with ((bpre ++ [b]) ++ bx) by (rewrite <- app_assoc; reflexivity).
    apply IH; try assumption. apply Forall2_app; [assumption | constructor; [assumption | constructor]].
Qed.

Lemma fd_points_aux_length (pre x hs : list R) : length x = length hs -> length (fd_points_aux pre x hs) = length x.
Proof.
  revert pre hs. induction x as [| a x IH]; intros pre [| h hs] L; cbn in *; try discriminate; auto.
Qed.

Lemma map2_length {A B C} (f : A -> B -> C) a b : length a = length b -> length (map2 f a b) = length a.
Proof. revert b. induction a as [| x a IH]; intros [| y b] L; cbn in *; try discriminate; auto. Qed.

(* ---------------------------------------------------------------- hypotheses in Prop form *)
Hypothesis eps_pos : 0 < eps.
Hypothesis box_wide : Forall wide box.
Hypothesis Dfix_ok : length Dfix = length box /\ Forall (fun d => 0 < d) Dfix.
Hypothesis qp_ok : forall k h g dl du dx, qp k h g dl du = Some dx ->
  between_b dl dx du = true /\ vdot g dx <= 0.

Lemma fd_points_in x : inboxP x -> Forall inboxP (fd_points box eps x).
Proof.
  intros Hx. unfold fd_points, fd_steps. apply (fd_points_aux_in [] [] box x eps_pos); auto. constructor.
Qed.

Lemma fd_points_length x : inboxP x -> length (fd_points box eps x) = length box.
Proof.
  intros Hx. pose proof (inboxL_length _ _ Hx) as L. unfold fd_points, fd_steps.
  rewrite fd_points_aux_length; auto. rewrite map2_length; auto.
Qed.

(* ---------------------------------------------------------------- scaling *)
Definition Dok (D : list R) : Prop := length D = length box /\ Forall (fun d => 0 < d) D.

Lemma scaleD_ok x r : inboxP x -> Dok (scaleD Dfix adaptive eps (jac_cols res box eps x r)).
Proof.
  intros Hx. unfold scaleD. destruct adaptive; [| exact Dfix_ok].
  split.
  - rewrite map_length. unfold jac_cols. rewrite map2_length.
    + apply fd_points_length; assumption.
    + rewrite fd_points_length by assumption. unfold fd_steps. pose proof (inboxL_length _ _ Hx) as L.
      rewrite map2_length by assumption. symmetry; assumption.
  - apply Forall_forall. intros d Hd. apply in_map_iff in Hd. destruct Hd as (c & E & _). subst d.
    num_R. rewrite nmax_Rmax.
    assert (0 < Rmax (vnorm c) eps) by (eapply Rlt_le_trans; [exact eps_pos | apply Rmax_r]).
    apply Rdiv_lt_0_compat; lra.
Qed.

(* ---------------------------------------------------------------- candidate *)
Lemma cand1 a b d dx : inP a b -> 0 < d -> (blo b - a) / d <= dx -> dx <= (bhi b - a) / d -> inP (a + d * dx) b.
Proof.
  intros (Hl & Hh) Hd L U. unfold inP.
  assert (L' : (blo b - a) / d * d <= dx * d) by (apply Rmult_le_compat_r; lra).
  assert (U' : dx * d <= (bhi b - a) / d * d) by (apply Rmult_le_compat_r; lra).
  replace ((blo b - a) / d * d) with (blo b - a) in L' by (field; lra).
  replace ((bhi b - a) / d * d) with (bhi b - a) in U' by (field; lra).
  lra.
Qed.

Lemma cand_in bx x D dx :
  inboxL bx x -> length D = length bx -> Forall (fun d => 0 < d) D ->
  between_b (map2 (fun p d => (blo (snd p) - fst p) / d) (combine x bx) D) dx
            (map2 (fun p d => (bhi (snd p) - fst p) / d) (combine x bx) D) = true ->
  inboxL bx (vadd x (vmul D dx)).
Proof.
  revert bx D dx. induction x as [| a x IH]; intros [| b bx] [| d D] [| e dx] Hx L Hd Hb; cbn in *;
    try discriminate; try (inversion Hx; fail); try constructor.
  - inversion Hx; subst. inversion Hd; subst.
    apply andb_true_iff in Hb. destruct Hb as (Hb1 & _). apply andb_true_iff in Hb1. destruct Hb1 as (A & B).
    num_R. apply Rleb_true in A. apply Rleb_true in B. apply cand1; assumption.
  - inversion Hx; subst. inversion Hd; subst.
    apply andb_true_iff in Hb. destruct Hb as (_ & Hb2). apply IH; auto.
Qed.

Lemma cand_inP x D dx :
  inboxP x -> Dok D -> between_b (dlower box x D) dx (dupper box x D) = true -> inboxP (vadd x (vmul D dx)).
Proof. intros Hx (L & Hd) Hb. apply cand_in; assumption. Qed.

Hypothesis box_valid : forallb (fun b => nltb (blo b) (bhi b)) box = true.

Lemma candidate_inP x D dx :
  inboxP x -> Dok D -> between_b (dlower box x D) dx (dupper box x D) = true -> inboxP (candidate box clipcand x D dx).
Proof.
  intros Hx HD Hb. pose proof (cand_inP x D dx Hx HD Hb) as Hc. unfold candidate. destruct clipcand; [| exact Hc].
  apply clip_inbox; [apply inboxL_length; exact Hc | exact box_valid].
Qed.

(* ---------------------------------------------------------------- the Armijo search *)
Definition inner_post (x : list R) (y : R) (r : Inner (T:=R)) : Prop :=
  match r with
  | IFuel => True
  | IFail st _ _ ev => Forall inboxP ev /\ st <> ST_FUEL
  | IAcc _ _ _ dx xnew rnew red ev =>
      Forall inboxP ev /\ inboxP xnew /\ rnew = res xnew /\ red = y - objective rnew /\ 0 <= red
  end.

Lemma inner_spec fuel x D g h y : inboxP x -> Dok D ->
  forall mu nred kq, inner_post x y (inner_ fuel x D g h y mu nred kq).
Proof.
  intros Hx HD. induction fuel as [| f IH]; intros mu nred kq; cbn [inner]; [exact I|].
  destruct (qp kq (add_diag h mu 0) g (dlower box x D) (dupper box x D)) as [dx |] eqn:Q.
  - destruct (qp_ok _ _ _ _ _ _ Q) as (Hb & Hg).
    pose proof (candidate_inP x D dx Hx HD Hb) as Hin.
    cbv zeta.
    set (xnew := candidate box clipcand x D dx) in *.
    match goal with |- context [if nltb ?c nzero then _ else _] => destruct (nltb c nzero) eqn:A end.
    + destruct (nleb mu_max mu).
      * cbn. split; [repeat constructor; assumption | discriminate].
      * specialize (IH (increase_mu mu_min mu_factor mu) O (S kq)).
        destruct (inner_ f x D g h y (increase_mu mu_min mu_factor mu) O (S kq)); cbn in *; auto.
        -- destruct IH as (E & S0). split; [constructor; assumption | assumption].
        -- destruct IH as (E & R0). split; [constructor; assumption | assumption].
    + cbn. ls_R. apply Rltb_false in A.
      repeat split; try (repeat constructor; assumption); try reflexivity.
      num_R. lra.
  - destruct (nleb mu_max mu).
    + cbn. split; [constructor | discriminate].
    + apply IH.
Qed.

(* ---------------------------------------------------------------- the outer loop *)
Fixpoint chainP (y : R) (tr : list (LogEntry (T:=R))) : Prop :=
  match tr with [] => True | e :: t => lg_y e <= y /\ chainP (lg_y e) t end.

Definition outer_post (r : list R) (rs : Result (T:=R)) : Prop :=
  Forall inboxP (rs_evals rs) /\ inboxP (rs_x rs) /\
  exists e t, rs_trace rs = e :: t /\ lg_y e = objective r /\ chainP (lg_y e) t /\
              lg_x (last t e) = rs_x rs /\ lg_y (last t e) = objective (res (rs_x rs)) /\
              lg_y (last t e) <= objective r.

Lemma finish_post st x mu kq ev :
  inboxP x -> Forall inboxP ev -> outer_post (res x) (prepend None ev (finish st x (res x) mu kq)).
Proof.
  intros Hx Hev. unfold outer_post, prepend, finish; cbn. rewrite app_nil_r.
  split; [assumption|]. split; [assumption|].
  eexists; eexists; split; [reflexivity|]. cbn. repeat split; lra.
Qed.

Lemma outer_spec iters : forall x mu nred kq, inboxP x -> outer_post (res x) (outer_ iters x (res x) mu nred kq).
Proof.
  induction iters as [| it IH]; intros x mu nred kq Hx.
  - cbn [outer]. pose proof (finish_post ST_MAX_ITER x mu kq [] Hx (Forall_nil _)) as F.
    unfold prepend, finish in *. cbn in *. exact F.
  - cbn [outer]. cbv zeta.
    set (r := res x). set (y := objective r).
    set (jc := jac_cols res box eps x r). set (D := scaleD Dfix adaptive eps jc).
    set (pc := pcols jc D). set (g := grad_of pc r). set (h := hess_of pc).
    pose proof (fd_points_in x Hx) as Hfd.
    pose proof (scaleD_ok x r Hx) as HD. fold jc in HD. fold D in HD.
    destruct (nleb (gnorm_free box x g) gtol).
    { apply finish_post; assumption. }
    pose proof (inner_spec inner_fuel x D g h y Hx HD mu nred kq) as IS.
    destruct (inner_ inner_fuel x D g h y mu nred kq) as [| st mu' kq' ev | mu' nred0 kq' dx xnew rnew red ev]; cbn in IS.
    { apply finish_post; assumption. }
    { destruct IS as (Hev & _). apply finish_post; [assumption | apply Forall_app; split; assumption]. }
    destruct IS as (Hev & Hxn & Er & Ered & Hred). subst rnew.
    assert (Hall : Forall inboxP (fd_points box eps x ++ ev)) by (apply Forall_app; split; assumption).
    destruct (nltb (vnorm (vmul D dx)) (xtol * (xtol + vnorm x))%num).
    { pose proof (finish_post ST_DX_TOL xnew mu' kq' [] Hxn (Forall_nil _)) as F.
      unfold outer_post, prepend, finish in *; cbn in *. rewrite app_nil_r.
      split; [assumption|]. split; [assumption|].
      eexists; eexists; split; [reflexivity|]. cbn. fold r. fold y in Ered |- *.
      repeat split; try lra. }
    match goal with |- outer_post _ (let '(a, b) := ?c in _) => destruct c as [mu2 nred2] end.
    specialize (IH xnew mu2 nred2 kq' Hxn).
    destruct IH as (E1 & X1 & e & t & Tr & Y0 & Ch & Lx & Ly & Lle).
    unfold outer_post, prepend; cbn. rewrite Tr.
    split; [apply Forall_app; split; assumption|]. split; [assumption|].
    eexists; eexists; split; [reflexivity|]. cbn [lg_y lg_x].
    fold r. fold y in Ered |- *.
    assert (lg_y e <= y) by (rewrite Y0; lra).
    split; [reflexivity|]. split; [cbn; split; assumption|].
    rewrite last_cons. repeat split; try assumption; lra.
Qed.

(* ---------------------------------------------------------------- least_squares *)

Lemma least_squares_spec max_iter x0 :
  length x0 = length box ->
  let rs := least_squares res qp box Dfix adaptive clipcand eps mu_min mu_max mu_factor xtol gtol inner_fuel max_iter x0 in
  outer_post (res (clip box x0)) rs /\ inboxP (clip box x0).
Proof.
  intros L rs. assert (Hc : inboxP (clip box x0)) by (apply clip_inbox; assumption).
  split; [| exact Hc]. subst rs. unfold least_squares. cbv zeta.
  pose proof (outer_spec max_iter (clip box x0) nzero O O Hc) as (E & X & e & t & Tr & Y0 & Ch & Lx & Ly & Lle).
  unfold outer_post, prepend; cbn. split; [constructor; assumption|]. split; [assumption|].
  exists e, t. repeat split; assumption.
Qed.

End P.

(* ---------------------------------------------------------------- termination *)
Section Term.
Variable res : list R -> list R.
Variable qp : nat -> list (list R) -> list R -> list R -> list R -> option (list R).
Variable box : list (Bnd (T:=R)).
Variable Dfix : list R.
Variable adaptive : bool.
Variable clipcand : bool.
Variables eps mu_min mu_max mu_factor xtol gtol : R.
Variable inner_fuel : nat.
Notation inner_ := (inner res qp box clipcand mu_min mu_max mu_factor).
Notation outer_ := (outer res qp box Dfix adaptive clipcand eps mu_min mu_max mu_factor xtol gtol inner_fuel).

Fixpoint incr_n (k : nat) (mu : R) : R :=
  match k with O => mu | S j => incr_n j (increase_mu mu_min mu_factor mu) end.

Lemma inner_no_fuel j : forall fuel x D g h y mu nred kq,
  (j < fuel)%nat -> mu_max <= incr_n j mu -> inner_ fuel x D g h y mu nred kq <> IFuel.
Proof.
  induction j as [| j IH]; intros fuel x D g h y mu nred kq Hf Hm; (destruct fuel as [| f]; [lia|]); cbn [inner].
  - cbn in Hm. assert (E : nleb mu_max mu = true) by (num_R; apply Rleb_true; assumption).
    destruct (qp kq _ g _ _); cbv zeta; [| rewrite E; discriminate].
    destruct (nltb _ _); [rewrite E|]; discriminate.
  - cbn in Hm.
    assert (R0 : forall nr, inner_ f x D g h y (increase_mu mu_min mu_factor mu) nr (S kq) <> IFuel)
      by (intros nr; apply IH; [lia | assumption]).
    destruct (qp kq _ g _ _); cbv zeta.
    + destruct (nltb _ _); [| discriminate]. destruct (nleb mu_max mu); [discriminate|].
      specialize (R0 O). destruct (inner_ f x D g h y (increase_mu mu_min mu_factor mu) O (S kq)); congruence.
    + destruct (nleb mu_max mu); [discriminate | apply R0].
Qed.

Lemma incr_n_ge k : 0 < mu_factor -> forall m, mu_factor ^ k * m <= incr_n k m.
Proof.
  intros Hf. induction k as [| k IH]; intros m; cbn [incr_n pow]; [lra|].
  eapply Rle_trans; [| apply IH].
  assert (mu_factor * m <= increase_mu mu_min mu_factor m).
  { unfold increase_mu. rewrite nmax_Rmax. num_R. apply Rmax_r. }
  assert (0 <= mu_factor ^ k) by (apply pow_le; lra).
  set (p := mu_factor ^ k) in *. set (i := increase_mu mu_min mu_factor m) in *. nra.
Qed.

Lemma npow_pow (a : R) k : npow a k = a ^ k.
Proof. induction k; cbn; num_R; [reflexivity | rewrite IHk; reflexivity]. Qed.

Lemma incr_n_reaches K m : 0 < mu_factor -> mu_max <= mu_min * mu_factor ^ K -> mu_max <= incr_n (S K) m.
Proof.
  intros Hf HK. cbn [incr_n].
  eapply Rle_trans; [exact HK|]. eapply Rle_trans; [| apply incr_n_ge; assumption].
  assert (mu_min <= increase_mu mu_min mu_factor m) by (unfold increase_mu; rewrite nmax_Rmax; apply Rmax_l).
  assert (0 <= mu_factor ^ K) by (apply pow_le; lra).
  rewrite Rmult_comm. apply Rmult_le_compat_l; assumption.
Qed.

Lemma inner_fail_status fuel x D g h y : forall mu nred kq st mu' kq' ev,
  inner_ fuel x D g h y mu nred kq = IFail st mu' kq' ev -> st <> ST_FUEL.
Proof.
  induction fuel as [| f IHf]; intros mu nred kq st mu' kq' ev; cbn [inner]; [discriminate|].
  destruct (qp kq _ g _ _); cbv zeta.
  - destruct (nltb _ _); [| discriminate]. destruct (nleb mu_max mu); [intros E; inversion E; discriminate|].
    destruct (inner_ f x D g h y (increase_mu mu_min mu_factor mu) O (S kq)) eqn:E2; try discriminate.
    intros E; inversion E; subst. eapply IHf; exact E2.
  - destruct (nleb mu_max mu); [intros E; inversion E; discriminate|]. apply IHf.
Qed.

Lemma outer_status iters :
  (forall x D g h y mu nred kq, inner_ inner_fuel x D g h y mu nred kq <> IFuel) ->
  forall x r mu nred kq,
    let rs := outer_ iters x r mu nred kq in
    rs_status rs <> ST_FUEL /\ (length (rs_trace rs) <= iters + 1)%nat.
Proof.
  intros NF. induction iters as [| it IH]; intros x r mu nred kq; cbn [outer]; cbv zeta.
  - cbn. split; [discriminate | lia].
  - destruct (nleb _ gtol); [cbn; split; [discriminate | lia]|].
    match goal with |- context [inner_ inner_fuel ?x ?D ?g ?h ?y ?mu ?nr ?kq] =>
      pose proof (NF x D g h y mu nr kq) as N; destruct (inner_ inner_fuel x D g h y mu nr kq) as [| st mu' kq' ev | mu' nred0 kq' dx xnew rnew red ev] eqn:EI end.
    + congruence.
    + cbn. split; [eapply inner_fail_status; exact EI | lia].
    + destruct (nltb _ _); [cbn; split; [discriminate | lia]|].
      match goal with |- context [let '(a, b) := ?c in _] => destruct c as [mu2 nred2] end.
      specialize (IH xnew rnew mu2 nred2 kq'). cbv zeta in IH. destruct IH as (S1 & L1).
      unfold prepend; cbn. split; [assumption | lia].
Qed.
End Term.

(* ---------------------------------------------------------------- the statements of Props/C46.v *)
Section Top.
Variable res : list R -> list R.
Variable qp : nat -> list (list R) -> list R -> list R -> list R -> option (list R).
Variable box : list (Bnd (T:=R)).
Variable Dfix : list R.
Variable adaptive : bool.
Variable clipcand : bool.
Variables eps mu_min mu_max mu_factor xtol gtol : R.
Variable inner_fuel : nat.
Variable max_iter : nat.
Variable x0 : list R.
Let rs := least_squares res qp box Dfix adaptive clipcand eps mu_min mu_max mu_factor xtol gtol inner_fuel max_iter x0.

Lemma forallb_Forall {A} (p : A -> bool) (P : A -> Prop) l :
  (forall a, p a = true -> P a) -> forallb p l = true -> Forall P l.
Proof.
  intros Hp. induction l as [| a l IH]; cbn; intros E; constructor; apply andb_true_iff in E; destruct E; auto.
Qed.

Lemma Forall_forallb {A} (p : A -> bool) (P : A -> Prop) l :
  (forall a, P a -> p a = true) -> Forall P l -> forallb p l = true.
Proof.
  intros Hp F. induction F; cbn; [reflexivity|]. apply andb_true_iff; split; auto.
Qed.

Lemma post_of_hyps :
  problem_ok box Dfix eps x0 -> qp_contract qp ->
  outer_post res box (res (clip box x0)) rs /\ inboxP box (clip box x0).
Proof.
  intros (L1 & L2 & Hb & Hd & He & Hw) Hq.
  num_R. apply Rltb_true in He.
  apply least_squares_spec; try assumption.
  - eapply forallb_Forall; [| exact Hw]. intros b E. unfold wide. ls_R.
    apply Rleb_true in E. rewrite !nmax_Rmax in E. exact E.
  - split; [assumption|]. eapply forallb_Forall; [| exact Hd]. intros d E. num_R. apply Rltb_true in E. exact E.
  - intros k h g dl du dx Q. destruct (Hq k h g dl du dx Q) as (A & B). split; [assumption|].
    num_R. apply Rleb_true in B. exact B.
Qed.

Lemma in_bounds_R : problem_ok box Dfix eps x0 -> qp_contract qp -> concl_in_bounds box rs.
Proof.
  intros Hp Hq. destruct (post_of_hyps Hp Hq) as ((E & X & _) & _). split.
  - eapply Forall_forallb; [| exact E]. intros a Ha. apply inbox_b_P. exact Ha.
  - apply inbox_b_P. exact X.
Qed.

Lemma chain_b_P y (t : list (LogEntry (T:=R))) : chainP y t -> chain_b y t = true.
Proof.
  revert y. induction t as [| e t IH]; intros y; cbn; [reflexivity|]. intros (A & B).
  apply andb_true_iff. split; [num_R; apply Rleb_true; assumption | apply IH; assumption].
Qed.

Lemma monotone_R : problem_ok box Dfix eps x0 -> qp_contract qp -> concl_monotone res box x0 rs.
Proof.
  intros Hp Hq. destruct (post_of_hyps Hp Hq) as ((_ & _ & e & t & Tr & Y0 & Ch & Lx & Ly & Lle) & _).
  unfold concl_monotone. rewrite Tr.
  split; [apply chain_b_P; assumption|].
  split; [num_R; apply Rleb_true; rewrite Y0; apply Rle_refl|].
  split; [num_R; apply Rleb_true; assumption|]. split; assumption.
Qed.

Lemma terminates_R K : mu_ok mu_min mu_max mu_factor inner_fuel K -> concl_terminates max_iter rs.
Proof.
  intros (Hm & Hf & HK & Hfuel). num_R.
  apply Rltb_true in Hm. apply Rltb_true in Hf. apply Rleb_true in HK. rewrite npow_pow in HK.
  assert (NF : forall x D g h y mu nred kq,
             inner res qp box clipcand mu_min mu_max mu_factor inner_fuel x D g h y mu nred kq <> IFuel).
  { intros. apply (inner_no_fuel res qp box clipcand mu_min mu_max mu_factor (S K)); [lia|].
    apply incr_n_reaches; [lra | assumption]. }
  unfold concl_terminates, rs, least_squares. cbv zeta.
  pose proof (outer_status res qp box Dfix adaptive clipcand eps mu_min mu_max mu_factor xtol gtol inner_fuel max_iter NF
                (clip box x0) (res (clip box x0)) nzero O O) as S0.
  cbv zeta in S0. unfold prepend; cbn. exact S0.
Qed.
End Top.

(* the instance that the source implements: the candidate is clipped to the bounds *)
Lemma in_bounds_clipped_R :
  forall (res : list R -> list R) (qp : nat -> list (list R) -> list R -> list R -> list R -> option (list R))
         (box : list (Bnd (T:=R))) (Dfix : list R) (adaptive : bool)
         (eps mu_min mu_max mu_factor xtol gtol : R) (inner_fuel max_iter : nat) (x0 : list R),
    problem_ok box Dfix eps x0 -> qp_contract qp ->
    concl_in_bounds box (least_squares res qp box Dfix adaptive true eps mu_min mu_max mu_factor xtol gtol inner_fuel max_iter x0).
Proof. intros. apply in_bounds_R; assumption. Qed.
