(* mju_addToSparseMat (Model/SparseExtra.v) at R: every packed row of the result is
   dst_row + scl * src_row on the sorted union pattern, and all rows share one index vector. *)
From Coq Require Import ZArith List Bool Arith Lia PrimFloat Reals Lra Sorted.
From MJV Require Import Lib.Num Lib.NumR Model.Sparse Model.SparseExtra
  Proof.LinAlgBase Proof.SparseProof Proof.SparseMergeProof.
Import ListNotations.
Open Scope R_scope.

Lemma cols_combine' : forall (a : list nat) (u : list R), length u = length a -> cols (combine a u) = a.
Proof.
  induction a as [|x a IH]; intros u Hl; [reflexivity|].
  destruct u as [|w u]; [simpl in Hl; lia|]. unfold cols in *. simpl. f_equal. apply IH. simpl in Hl. lia.
Qed.

(* the pattern of the merge depends on the patterns only *)
Lemma merge_back_cols : forall (a b a' b' : R) (d d' : list entR), cols d = cols d' ->
  forall s s' : list entR, cols s = cols s' ->
  cols (merge_back a b d s) = cols (merge_back a' b' d' s').
Proof.
  intros a b a' b' d. induction d as [|[di dv] d IHd]; intros d' Hd s s' Hs.
  - destruct d' as [|e d']; [|discriminate]. rewrite !merge_back_nil_l, !cols_sclb. exact Hs.
  - destruct d' as [|[di' dv'] d']; [discriminate|]. unfold cols in Hd. simpl in Hd. inversion Hd as [[Hi Hd']]. subst di'.
    revert s' Hs. induction s as [|[si sv] s IHs]; intros s' Hs.
    + destruct s' as [|e s']; [|discriminate]. rewrite !merge_back_nil_r, !cols_sclb. unfold cols. simpl. f_equal. exact Hd'.
    + destruct s' as [|[si' sv'] s']; [discriminate|]. unfold cols in Hs. simpl in Hs. inversion Hs as [[Hj Hs']]. subst si'.
      rewrite !merge_back_cons.
      destruct (Nat.eqb di si).
      * unfold cols. simpl. f_equal. apply IHd; auto.
      * destruct (Nat.ltb si di).
        -- unfold cols. simpl. f_equal. apply IHd; auto.
        -- unfold cols. simpl. f_equal. apply IHs. exact Hs'.
Qed.

Lemma cols_rev' : forall l : list entR, cols (rev l) = rev (cols l).
Proof. intros l. unfold cols. apply map_rev. Qed.

Lemma addToSparseMat_row : forall (scl : R) (dind sind : list nat) (drow srow : list R),
  StronglySorted lt dind -> StronglySorted lt sind -> length drow = length dind -> length srow = length sind ->
  let m := combineSparse 1 scl (combine dind drow) (combine sind srow) in
  inc m /\
  (forall c : nat, lk c m = lk c (combine dind drow) + scl * lk c (combine sind srow)) /\
  (forall c : nat, In c (cols m) <-> In c dind \/ In c sind) /\
  cols m = cols (combineSparse 1 scl (combine dind (repeat 0 (length dind))) (combine sind (repeat 0 (length sind)))).
Proof.
  intros scl dind sind drow srow Hd Hs Hld Hls m.
  assert (Hcd : cols (combine dind drow) = dind) by (apply cols_combine'; auto).
  assert (Hcs : cols (combine sind srow) = sind) by (apply cols_combine'; auto).
  assert (Hid : inc (combine dind drow)) by (unfold inc; rewrite Hcd; exact Hd).
  assert (His : inc (combine sind srow)) by (unfold inc; rewrite Hcs; exact Hs).
  destruct (combineSparse_spec 1 scl _ _ Hid His) as [H1 [H2 H3]]. fold m in H1, H2, H3.
  split; [exact H1|]. split; [intros c; rewrite H2; ring|]. split.
  - intros c. rewrite H3, Hcd, Hcs. reflexivity.
  - unfold m, combineSparse. rewrite !cols_rev'. f_equal. apply merge_back_cols.
    + rewrite !cols_rev', Hcd, cols_combine' by (rewrite repeat_length; auto). reflexivity.
    + rewrite !cols_rev', Hcs, cols_combine' by (rewrite repeat_length; auto). reflexivity.
Qed.
