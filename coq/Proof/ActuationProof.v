(* Lemmas about Model/Actuation.v at the reals (C27). *)
From Coq Require Import ZArith List Bool PrimFloat Reals Lra Lia Psatz Classical.
From MJV Require Import Lib.Num Lib.NumR Model.Spatial Model.Actuation.
Import ListNotations.
Open Scope R_scope.

(* ------------------------------------------------------------------ clip and max *)
Lemma clip_cases (x lo hi : R) :
  (x < lo /\ clip x lo hi = lo) \/ (lo <= x /\ hi < x /\ clip x lo hi = hi) \/
  (lo <= x /\ x <= hi /\ clip x lo hi = x).
Proof.
  unfold clip; num_R.
  destruct (Rltb x lo) eqn:E1.
  - apply Rltb_true in E1. left; split; auto.
  - apply Rltb_false in E1. destruct (Rltb hi x) eqn:E2.
    + apply Rltb_true in E2. right; left; auto.
    + apply Rltb_false in E2. right; right; auto.
Qed.

Lemma clip_range (x lo hi : R) : lo <= hi -> lo <= clip x lo hi <= hi.
Proof. intros L. destruct (clip_cases x lo hi) as [[A B]|[[A [B C]]|[A [B C]]]]; rewrite ?B, ?C; lra. Qed.

Lemma clip_id (x lo hi : R) : lo <= x <= hi -> clip x lo hi = x.
Proof. intros L. destruct (clip_cases x lo hi) as [[A B]|[[A [B C]]|[A [B C]]]]; try lra; auto. Qed.

Lemma MINVAL_pos : 0 < MINVAL (T:=R).
Proof. unfold MINVAL. num_R. unfold Rdec. apply Rdiv_lt_0_compat; apply IZR_lt; reflexivity. Qed.

Lemma mMAX_spec (a b : R) : a <= mMAX a b /\ b <= mMAX a b /\ (mMAX a b = a \/ mMAX a b = b).
Proof.
  unfold mMAX; num_R. destruct (Rltb b a) eqn:E.
  - apply Rltb_true in E. repeat split; auto; lra.
  - apply Rltb_false in E. repeat split; auto; lra.
Qed.

Lemma mMAX_pos (b : R) : 0 < mMAX MINVAL b.
Proof. pose proof MINVAL_pos. destruct (mMAX_spec MINVAL b) as [A _]. lra. Qed.

Lemma fmax_pos (b : R) : 0 < fmax MINVAL b.
Proof.
  pose proof MINVAL_pos. unfold fmax; num_R. destruct (Rleb b MINVAL) eqn:E; [lra|]. apply Rleb_false in E. lra.
Qed.

Lemma frac01 (n d : R) : 0 <= n -> n <= d -> 0 < d -> 0 <= n / d <= 1.
Proof.
  intros A B C. split.
  - apply Rmult_le_pos; [lra|]. left. apply Rinv_0_lt_compat; lra.
  - apply (Rmult_le_reg_r d); [lra|]. unfold Rdiv. rewrite Rmult_assoc, Rinv_l by lra. lra.
Qed.

Lemma frac_nonneg (n d : R) : 0 <= n -> 0 < d -> 0 <= n / d.
Proof. intros A C. apply Rmult_le_pos; [lra|]. left. apply Rinv_0_lt_compat; lra. Qed.

(* ------------------------------------------------------------------ arrays addressed by Z *)
Lemma upd_nat_length (a : list R) (n : nat) (v : R) : length (upd_nat a n v) = length a.
Proof. revert n; induction a as [|x a IH]; intros [|n]; simpl; auto. Qed.

Lemma updz_length (a : list R) (i : Z) (v : R) : length (updz a i v) = length a.
Proof. unfold updz. destruct (i <? 0)%Z; auto using upd_nat_length. Qed.

Lemma nth_upd_nat_other (a : list R) (n k : nat) (v : R) : n <> k -> nth k (upd_nat a n v) 0 = nth k a 0.
Proof. revert n k; induction a as [|x a IH]; intros [|n] [|k] Hne; simpl; auto; try congruence. Qed.

Lemma nth_upd_nat_same (a : list R) (n : nat) (v : R) : (n < length a)%nat -> nth n (upd_nat a n v) 0 = v.
Proof. revert n; induction a as [|x a IH]; intros [|n] Hn; simpl in *; try lia; auto. apply IH. lia. Qed.

Lemma rdz_updz_other (a : list R) (i j : Z) (v : R) : i <> j -> rdz (updz a i v) j = rdz a j.
Proof.
  intros Hne. unfold rdz, updz. num_R.
  destruct (j <? 0)%Z eqn:Ej; auto. destruct (i <? 0)%Z eqn:Ei; auto.
  apply nth_upd_nat_other. apply Z.ltb_ge in Ej. apply Z.ltb_ge in Ei. intro E. apply Hne. apply Z2Nat.inj; auto.
Qed.

Lemma rdz_updz_same (a : list R) (i : Z) (v : R) : (0 <= i < Z.of_nat (length a))%Z -> rdz (updz a i v) i = v.
Proof.
  intros Hi. unfold rdz, updz. num_R.
  assert (E : (i <? 0)%Z = false) by (apply Z.ltb_ge; lia). rewrite E. apply nth_upd_nat_same. lia.
Qed.

Lemma upd_nat_beyond (a : list R) (n : nat) (v : R) : (length a <= n)%nat -> upd_nat a n v = a.
Proof. revert n; induction a as [|x a IH]; intros [|n] Hn; simpl in *; auto; try lia. f_equal. apply IH. lia. Qed.

(* without any bound: an update either leaves the entry alone or sets exactly that entry *)
Lemma rdz_updz_cases (a : list R) (i o : Z) (v : R) :
  rdz (updz a i v) o = rdz a o \/ (i = o /\ rdz (updz a i v) o = v).
Proof.
  destruct (Z.eq_dec i o) as [E|E]; [|left; apply rdz_updz_other; exact E]. subst o.
  destruct (Z_lt_dec i 0) as [Hn|Hn].
  - left. unfold updz. apply Z.ltb_lt in Hn. rewrite Hn. reflexivity.
  - destruct (Z_lt_dec i (Z.of_nat (length a))) as [Hb|Hb].
    + right. split; auto. apply rdz_updz_same. lia.
    + left. unfold updz. assert (E : (i <? 0)%Z = false) by (apply Z.ltb_ge; lia). rewrite E.
      rewrite upd_nat_beyond by lia. reflexivity.
Qed.

Lemma write_block_length (blk : list R) : forall (f : list R) (adr : Z), length (write_block f adr blk) = length f.
Proof. induction blk as [|x r IH]; intros f adr; simpl; auto. rewrite IH. apply updz_length. Qed.

Lemma write_block_other (blk : list R) :
  forall (f : list R) (adr o : Z), ~ (adr <= o < adr + Z.of_nat (length blk))%Z -> rdz (write_block f adr blk) o = rdz f o.
Proof.
  induction blk as [|x r IH]; intros f adr o Ho; simpl; auto.
  rewrite IH by (simpl length in Ho; lia). apply rdz_updz_other. simpl length in Ho. lia.
Qed.

Lemma write_block_inside (blk : list R) :
  forall (f : list R) (adr : Z) (k : nat),
    (0 <= adr)%Z -> (adr + Z.of_nat (length blk) <= Z.of_nat (length f))%Z -> (k < length blk)%nat ->
    rdz (write_block f adr blk) (adr + Z.of_nat k) = nth k blk 0.
Proof.
  induction blk as [|x r IH]; intros f adr k H0 Hl Hk; simpl in Hk; [lia|].
  cbn [write_block]. simpl length in Hl. destruct k as [|k].
  - rewrite write_block_other by lia. replace (adr + Z.of_nat 0)%Z with adr by lia. apply rdz_updz_same. lia.
  - replace (adr + Z.of_nat (S k))%Z with ((adr + 1) + Z.of_nat k)%Z by lia.
    rewrite IH; [reflexivity|lia|rewrite updz_length; lia|lia].
Qed.

Lemma clip_block_length (n : nat) : forall (f : list R) (adr : Z) (lo hi : R), length (clip_block f adr n lo hi) = length f.
Proof. induction n as [|n IH]; intros f adr lo hi; simpl; auto. rewrite IH. apply updz_length. Qed.

Lemma clip_block_other (n : nat) :
  forall (f : list R) (adr o : Z) (lo hi : R), ~ (adr <= o < adr + Z.of_nat n)%Z -> rdz (clip_block f adr n lo hi) o = rdz f o.
Proof.
  induction n as [|n IH]; intros f adr o lo hi Ho; simpl; auto.
  rewrite IH by lia. apply rdz_updz_other. lia.
Qed.

Lemma clip_block_inside (n : nat) :
  forall (f : list R) (adr o : Z) (lo hi : R),
    (0 <= adr)%Z -> (adr <= o < adr + Z.of_nat n)%Z -> (o < Z.of_nat (length f))%Z ->
    rdz (clip_block f adr n lo hi) o = clip (rdz f o) lo hi.
Proof.
  induction n as [|n IH]; intros f adr o lo hi H0 Ho Hl; [lia|].
  cbn [clip_block]. destruct (Z.eq_dec o adr) as [E|E].
  - subst o. rewrite clip_block_other by lia. apply rdz_updz_same. lia.
  - rewrite IH; [|lia|lia|rewrite updz_length; lia]. rewrite rdz_updz_other by lia. reflexivity.
Qed.

(* generic facts about a pipeline stage that is a fold of per-actuator steps *)
Lemma fold_frame {A : Type} (step : list R -> A -> list R) (touches : A -> Z -> Prop) (o : Z) :
  (forall (x : A) (f : list R), ~ touches x o -> rdz (step f x) o = rdz f o) ->
  forall (xs : list A) (f : list R), (forall x : A, In x xs -> ~ touches x o) -> rdz (fold_left step xs f) o = rdz f o.
Proof.
  intros Hstep xs. induction xs as [|x r IH]; intros f Hall; simpl; auto.
  rewrite IH by (intros y Hy; apply Hall; right; exact Hy). apply Hstep. apply Hall. left; reflexivity.
Qed.

Lemma fold_inv {A : Type} (step : list R -> A -> list R) (P : list R -> Prop) :
  forall xs : list A, (forall (x : A) (f : list R), In x xs -> P f -> P (step f x)) ->
  forall f : list R, P f -> P (fold_left step xs f).
Proof.
  induction xs as [|x r IH]; intros Hstep f Hf; simpl; auto.
  apply IH; [intros y g Hy; apply Hstep; right; exact Hy|]. apply Hstep; [left; reflexivity|exact Hf].
Qed.

(* ------------------------------------------------------------------ the clamps *)
Lemma clamp_ctrl_range (lo hi u : R) : lo <= hi -> lo <= clamp_ctrl false (true, lo, hi) u <= hi.
Proof. intros Hr. unfold clamp_ctrl. apply clip_range; auto. Qed.

Lemma clamp_ctrl_id (lim : bool) (lo hi u : R) (noclamp : bool) : lo <= u <= hi -> clamp_ctrl noclamp (lim, lo, hi) u = u.
Proof. intros Hr. unfold clamp_ctrl. destruct noclamp, lim; auto using clip_id. Qed.

Lemma clamp_ctrl_off (lim : bool) (lo hi u : R) (noclamp : bool) : noclamp = true \/ lim = false -> clamp_ctrl noclamp (lim, lo, hi) u = u.
Proof. intros [E|E]; unfold clamp_ctrl; rewrite E; auto. destruct noclamp; auto. Qed.

(* the block of outputs owned by an actuator, in the output index space *)
Definition inblock (a : @Actuator R) (o : Z) : Prop := (a_outadr a <= o < a_outadr a + a_outnum a)%Z.
Definition wf_act (a : @Actuator R) : Prop :=
  (0 <= a_outadr a)%Z /\ (is_so3 a = true -> a_outnum a = 3%Z) /\ (is_so3 a = false -> a_outnum a = 1%Z).

Lemma clamp_block_length (mask : Z) (f : list R) (a : @Actuator R) : length (clamp_block mask f a) = length f.
Proof.
  unfold clamp_block. destruct (a_forcelimited a && negb (actuatorDisabled mask (a_group a))); auto.
  destruct (is_so3 a).
  - destruct (_ <? _)%num; auto. rewrite !updz_length. reflexivity.
  - apply clip_block_length.
Qed.

(* the clamp step of actuator a touches only its own output block *)
Lemma clamp_block_other (mask : Z) (f : list R) (a : @Actuator R) (o : Z) :
  wf_act a -> ~ inblock a o -> rdz (clamp_block mask f a) o = rdz f o.
Proof.
  intros [H0 [Hs Hn]] Ho. unfold inblock in Ho. unfold clamp_block.
  destruct (a_forcelimited a && negb (actuatorDisabled mask (a_group a))); auto.
  destruct (is_so3 a) eqn:E.
  - rewrite (Hs eq_refl) in Ho. destruct (_ <? _)%num; auto. rewrite !rdz_updz_other by lia. reflexivity.
  - apply clip_block_other. rewrite Z2Nat.id by (rewrite (Hn eq_refl); lia). exact Ho.
Qed.

(* the clamp applied to the output block of a scalar actuator uses the forcerange of THAT actuator *)
Lemma clamp_block_scalar (mask : Z) (f : list R) (a : @Actuator R) (o : Z) :
  wf_act a -> is_so3 a = false -> inblock a o -> (o < Z.of_nat (length f))%Z ->
  rdz (clamp_block mask f a) o =
  if a_forcelimited a && negb (actuatorDisabled mask (a_group a))
  then clip (rdz f o) (fst (a_forcerange a)) (snd (a_forcerange a)) else rdz f o.
Proof.
  intros [H0 [Hs Hn]] E Ho Hl. unfold inblock in Ho. unfold clamp_block. rewrite E.
  destruct (a_forcelimited a && negb (actuatorDisabled mask (a_group a))); auto.
  apply clip_block_inside; auto. rewrite Z2Nat.id by (rewrite (Hn E); lia). exact Ho.
Qed.

Lemma clamp_block_skipped (mask : Z) (f : list R) (a : @Actuator R) :
  a_forcelimited a = false \/ actuatorDisabled mask (a_group a) = true -> clamp_block mask f a = f.
Proof. intros [E|E]; unfold clamp_block; rewrite E; [reflexivity|rewrite andb_false_r; reflexivity]. Qed.

(* so3: the norm of the output block is bounded by forcerange[1] of that actuator *)
Lemma norm3_scaled (x y z s : R) : 0 <= s -> norm3 (x * s, y * s, z * s) = s * norm3 (x, y, z).
Proof.
  intros Hs. unfold norm3, dot3. num_R.
  replace (x * s * (x * s) + y * s * (y * s) + z * s * (z * s)) with (s * s * (x * x + y * y + z * z)) by ring.
  rewrite sqrt_mult; [|nra|nra]. rewrite sqrt_square by exact Hs. reflexivity.
Qed.

Lemma clamp_block_so3 (mask : Z) (f : list R) (a : @Actuator R) :
  wf_act a -> is_so3 a = true -> a_forcelimited a = true -> actuatorDisabled mask (a_group a) = false ->
  0 <= snd (a_forcerange a) -> (a_outadr a + 3 <= Z.of_nat (length f))%Z ->
  norm3 (vec3_at (clamp_block mask f a) (a_outadr a)) <= snd (a_forcerange a).
Proof.
  intros [H0 _] E Hl Hd Hh Hb. unfold clamp_block. rewrite E, Hl, Hd. cbn [andb negb]. num_R.
  set (o := a_outadr a) in *. set (hi := snd (a_forcerange a)) in *.
  destruct (Rltb hi (norm3 (vec3_at f o))) eqn:En.
  - apply Rltb_true in En. set (n := norm3 (vec3_at f o)) in *.
    assert (Hn : 0 < n) by lra.
    unfold vec3_at at 1.
    rewrite (rdz_updz_other _ (o + 2)%Z o) by lia. rewrite (rdz_updz_other _ (o + 1)%Z o) by lia.
    rewrite (rdz_updz_same _ o) by lia.
    rewrite (rdz_updz_other _ (o + 2)%Z (o + 1)%Z) by lia. rewrite (rdz_updz_same _ (o + 1)%Z) by (rewrite updz_length; lia).
    rewrite (rdz_updz_same _ (o + 2)%Z) by (rewrite !updz_length; lia).
    assert (Hs : 0 <= hi / n) by (apply frac_nonneg; lra).
    rewrite norm3_scaled by exact Hs. fold (vec3_at f o). fold n.
    right. field. lra.
  - apply Rltb_false in En. exact En.
Qed.

Lemma nextActivation_range (a : @Actuator R) (h act adot : R) :
  a_actlimited a = true -> fst (a_actrange a) <= snd (a_actrange a) ->
  fst (a_actrange a) <= nextActivation a h act adot <= snd (a_actrange a).
Proof. intros Hl Hr. unfold nextActivation. rewrite Hl. apply clip_range; auto. Qed.

Lemma nextActivation_euler (a : @Actuator R) (h act adot : R) :
  a_dyntype a <> 3%Z ->
  (a_actlimited a = false \/ fst (a_actrange a) <= act + adot * h <= snd (a_actrange a)) ->
  nextActivation a h act adot = act + adot * h.
Proof.
  intros Hd Hl. unfold nextActivation.
  destruct (a_dyntype a =? 3)%Z eqn:E; [apply Z.eqb_eq in E; contradiction|]. num_R.
  destruct Hl as [Hl|Hl]; [rewrite Hl; reflexivity|]. destruct (a_actlimited a); auto using clip_id.
Qed.

Lemma dof_post_range (g : option R) (lo hi q : R) : lo <= hi -> lo <= dof_post (g, true, lo, hi) q <= hi.
Proof. intros L. unfold dof_post. apply clip_range; auto. Qed.

Lemma dof_post_id (q : R) (lo hi : R) (lim : bool) : lim = false \/ lo <= q <= hi -> dof_post (None, lim, lo, hi) q = q.
Proof. intros [E|E]; unfold dof_post; [rewrite E; auto|]. destruct lim; auto using clip_id. Qed.

(* ------------------------------------------------------------------ disabled groups *)
Lemma disabled_group_bit (mask g : Z) : (0 <= g <= 30)%Z -> actuatorDisabled mask g = Z.testbit mask g.
Proof.
  intros Hg. unfold actuatorDisabled.
  assert (E1 : (g <? 0)%Z = false) by (apply Z.ltb_ge; lia).
  assert (E2 : (30 <? g)%Z = false) by (apply Z.ltb_ge; lia). rewrite E1, E2. reflexivity.
Qed.

Lemma disabled_group_outside (mask g : Z) : (g < 0 \/ 30 < g)%Z -> actuatorDisabled mask g = false.
Proof.
  intros Hg. unfold actuatorDisabled. destruct Hg as [Hg|Hg].
  - apply Z.ltb_lt in Hg. rewrite Hg. reflexivity.
  - apply Z.ltb_lt in Hg. rewrite Hg. rewrite orb_true_r. reflexivity.
Qed.

Lemma raw_force_disabled (mask : Z) (a : @Actuator R) (h u act len vel : R) :
  actuatorDisabled mask (a_group a) = true -> raw_force mask a h u act len vel = 0.
Proof. intros E. unfold raw_force. rewrite E. reflexivity. Qed.

Lemma tendon_scale_zero (tendons : list (bool * R * R)) (acts : list (@Actuator R)) (f : list R) (a : @Actuator R) :
  tendon_scale tendons acts f a 0 = 0.
Proof.
  unfold tendon_scale. destruct (a_tendon a <? 0)%Z; auto.
  destruct (nth (Z.to_nat (a_tendon a)) tendons (false, nzero, nzero)) as [[lim lo] hi].
  destruct (lim && negb _); auto. num_R.
  destruct (Rltb (tendon_total acts f (a_tendon a)) lo); [ring|].
  destruct (Rltb hi (tendon_total acts f (a_tendon a))); [ring|reflexivity].
Qed.

(* stage lengths *)
Lemma stage_raw_length (mask : Z) (h : R) (nout : nat) (ctrl len vel : list R) (xs : list (@Actuator R * R)) :
  length (stage_raw mask h nout ctrl len vel xs) = nout.
Proof.
  unfold stage_raw.
  apply (fold_inv (fun f x => write_block f (a_outadr (fst x)) (out_block mask h ctrl len vel x)) (fun f => length f = nout)).
  - intros x f _ Hf. rewrite write_block_length. exact Hf.
  - apply repeat_length.
Qed.

Lemma stage_tendon_length (tendons : list (bool * R * R)) (acts : list (@Actuator R)) (f0 : list R) :
  length (stage_tendon tendons acts f0) = length f0.
Proof.
  unfold stage_tendon.
  apply (fold_inv _ (fun f => length f = length f0)); auto.
  intros a f _ Hf. destruct (a_tendon a <? 0)%Z; auto. rewrite updz_length. exact Hf.
Qed.

Lemma stage_clamp_length (mask : Z) (acts : list (@Actuator R)) (f : list R) : length (stage_clamp mask acts f) = length f.
Proof.
  unfold stage_clamp. apply (fold_inv (clamp_block mask) (fun g => length g = length f)); auto.
  intros a g _ Hg. rewrite clamp_block_length. exact Hg.
Qed.

Lemma out_block_length (mask : Z) (h : R) (ctrl len vel : list R) (a : @Actuator R) (act : R) :
  wf_act a -> Z.of_nat (length (out_block mask h ctrl len vel (a, act))) = a_outnum a.
Proof.
  intros [_ [Hs Hn]]. unfold out_block. destruct (is_so3 a) eqn:E.
  - rewrite (Hs eq_refl). unfold so3_block. destruct (actuatorDisabled mask (a_group a)); [reflexivity|].
    destruct (subQuat _ _) as [[e0 e1] e2]. reflexivity.
  - rewrite (Hn eq_refl). reflexivity.
Qed.

Lemma out_block_disabled (mask : Z) (h : R) (ctrl len vel : list R) (a : @Actuator R) (act : R) (k : nat) :
  actuatorDisabled mask (a_group a) = true -> nth k (out_block mask h ctrl len vel (a, act)) 0 = 0.
Proof.
  intros Hd. unfold out_block. destruct (is_so3 a).
  - unfold so3_block. rewrite Hd. destruct k as [|[|[|[|k]]]]; reflexivity.
  - rewrite raw_force_disabled by exact Hd. destruct k as [|[|k]]; reflexivity.
Qed.

Definition touches (mask : Z) (h : R) (ctrl len vel : list R) (x : @Actuator R * R) (o : Z) : Prop :=
  (a_outadr (fst x) <= o < a_outadr (fst x) + Z.of_nat (length (out_block mask h ctrl len vel x)))%Z.

Lemma touches_inblock (mask : Z) (h : R) (ctrl len vel : list R) (a : @Actuator R) (act : R) (o : Z) :
  wf_act a -> (touches mask h ctrl len vel (a, act) o <-> inblock a o).
Proof. intros Hw. unfold touches, inblock. cbn [fst]. rewrite (out_block_length mask h ctrl len vel a act Hw). tauto. Qed.

Definition others_apart (xs : list (@Actuator R * R)) (o : Z) : Prop :=
  forall x : @Actuator R * R, In x xs -> wf_act (fst x) /\ ~ inblock (fst x) o.

(* stage 1 at an entry of the block of actuator a = the corresponding entry of its output block *)
Lemma stage_raw_entry (mask : Z) (h : R) (nout : nat) (ctrl len vel : list R)
      (pre post : list (@Actuator R * R)) (a : @Actuator R) (act : R) (k : nat) :
  wf_act a -> others_apart post (a_outadr a + Z.of_nat k) ->
  (Z.of_nat k < a_outnum a)%Z -> (a_outadr a + a_outnum a <= Z.of_nat nout)%Z ->
  rdz (stage_raw mask h nout ctrl len vel (pre ++ (a, act) :: post)) (a_outadr a + Z.of_nat k) =
  nth k (out_block mask h ctrl len vel (a, act)) 0.
Proof.
  intros Hwf Hpost Hk Hb. unfold stage_raw. rewrite fold_left_app. cbn [fold_left fst].
  set (step := fun (f : list R) (x : @Actuator R * R) => write_block f (a_outadr (fst x)) (out_block mask h ctrl len vel x)).
  set (f1 := fold_left step pre (repeat nzero nout)).
  assert (L1 : length f1 = nout).
  { apply (fold_inv step (fun f => length f = nout)).
    - intros x f _ Hf. unfold step. rewrite write_block_length. exact Hf.
    - apply repeat_length. }
  rewrite (fold_frame step (touches mask h ctrl len vel) (a_outadr a + Z.of_nat k)).
  - destruct Hwf as [H0 Hrest]. apply write_block_inside.
    + exact H0.
    + rewrite (out_block_length mask h ctrl len vel a act (conj H0 Hrest)). rewrite L1. exact Hb.
    + apply Nat2Z.inj_lt. rewrite (out_block_length mask h ctrl len vel a act (conj H0 Hrest)). exact Hk.
  - intros x f Hx. unfold step. apply write_block_other. exact Hx.
  - intros x Hx Ht. destruct (Hpost x Hx) as [Hw Hn]. destruct x as [b actb]. apply Hn.
    apply (touches_inblock mask h ctrl len vel b actb _ Hw). exact Ht.
Qed.

(* an actuator of a disabled group: every entry of its output block is zero after the whole pipeline,
   provided the other actuators' blocks do not contain that entry (the compiler's cumulative layout) *)
Lemma disabled_zero_force (mask : Z) (h : R) (nout : nat) (tendons : list (bool * R * R)) (ctrl len vel : list R)
      (pre post : list (@Actuator R * R)) (a : @Actuator R) (act : R) (k : nat) :
  wf_act a -> others_apart (pre ++ post) (a_outadr a + Z.of_nat k) ->
  (Z.of_nat k < a_outnum a)%Z -> (a_outadr a + a_outnum a <= Z.of_nat nout)%Z ->
  actuatorDisabled mask (a_group a) = true ->
  rdz (actuator_forces mask h nout tendons ctrl len vel (pre ++ (a, act) :: post)) (a_outadr a + Z.of_nat k) = 0.
Proof.
  intros Hwf Hothers Hk Hb Hd. unfold actuator_forces.
  set (o := (a_outadr a + Z.of_nat k)%Z) in *.
  set (acts := map fst (pre ++ (a, act) :: post)).
  assert (Hacts : forall b : @Actuator R, In b acts -> b = a \/ (wf_act b /\ ~ inblock b o)).
  { intros b Hb'. unfold acts in Hb'. apply in_map_iff in Hb'. destruct Hb' as [x [Ex Hx]]. subst b.
    apply in_app_or in Hx. destruct Hx as [Hx|[Hx|Hx]].
    - right. apply Hothers. apply in_or_app. left; exact Hx.
    - left. subst x. reflexivity.
    - right. apply Hothers. apply in_or_app. right; exact Hx. }
  set (f0 := stage_raw mask h nout ctrl len vel (pre ++ (a, act) :: post)).
  assert (S1 : rdz f0 o = 0).
  { unfold f0, o. rewrite stage_raw_entry; auto.
    - apply out_block_disabled. exact Hd.
    - intros x Hx. apply Hothers. apply in_or_app. right; exact Hx. }
  assert (S2 : rdz (stage_tendon tendons acts f0) o = 0).
  { unfold stage_tendon. apply (fold_inv _ (fun f => rdz f o = 0)); [|exact S1].
    intros b f _ Hf. destruct (a_tendon b <? 0)%Z; [exact Hf|].
    destruct (rdz_updz_cases f (a_outadr b) o (tendon_scale tendons acts f0 b (rdz f (a_outadr b)))) as [E|[E1 E2]].
    - rewrite E. exact Hf.
    - rewrite E2, E1, Hf. apply tendon_scale_zero. }
  unfold stage_clamp. apply (fold_inv (clamp_block mask) (fun f => rdz f o = 0)); [|exact S2].
  intros b f Hin Hf. destruct (Hacts b Hin) as [E|[Hw Hn]].
  - subst b. rewrite clamp_block_skipped by (right; exact Hd). exact Hf.
  - rewrite clamp_block_other by assumption. exact Hf.
Qed.

(* an enabled, force-limited scalar actuator ends within ITS OWN forcerange at ITS output address *)
Lemma enabled_force_in_range (mask : Z) (h : R) (nout : nat) (tendons : list (bool * R * R)) (ctrl len vel : list R)
      (pre post : list (@Actuator R * R)) (a : @Actuator R) (act : R) :
  wf_act a -> is_so3 a = false -> others_apart post (a_outadr a) ->
  (a_outadr a < Z.of_nat nout)%Z ->
  a_forcelimited a = true -> actuatorDisabled mask (a_group a) = false ->
  fst (a_forcerange a) <= snd (a_forcerange a) ->
  fst (a_forcerange a) <= rdz (actuator_forces mask h nout tendons ctrl len vel (pre ++ (a, act) :: post)) (a_outadr a)
  <= snd (a_forcerange a).
Proof.
  intros Hwf Hs Hpost Hb Hl Hd Hr. unfold actuator_forces.
  rewrite map_app. cbn [map fst]. unfold stage_clamp. rewrite fold_left_app. cbn [fold_left].
  set (f2 := stage_tendon tendons (map fst pre ++ a :: map fst post) (stage_raw mask h nout ctrl len vel (pre ++ (a, act) :: post))).
  set (f3 := fold_left (clamp_block mask) (map fst pre) f2).
  assert (L3 : length f3 = nout).
  { unfold f3. fold (stage_clamp mask (map fst pre) f2). rewrite stage_clamp_length. unfold f2.
    rewrite stage_tendon_length. apply stage_raw_length. }
  rewrite (fold_frame (clamp_block mask) (fun b o' => ~ (wf_act b /\ ~ inblock b o')) (a_outadr a)).
  - assert (Hin : inblock a (a_outadr a)).
    { destruct Hwf as [H0 [_ Hn]]. unfold inblock. rewrite (Hn Hs). lia. }
    rewrite clamp_block_scalar; auto; [|rewrite L3; exact Hb]. rewrite Hl, Hd. cbn [andb negb]. apply clip_range. exact Hr.
  - intros b f Hx. apply NNPP in Hx. destruct Hx as [Hw Hn]. apply clamp_block_other; assumption.
  - intros b Hx Hc. apply Hc. apply in_map_iff in Hx. destruct Hx as [x [Ex Hx]]. subst b. apply Hpost. exact Hx.
Qed.

(* mjDSBL_ACTUATION: everything is zero *)
Lemma actuation_off_zero (mask : Z) (h : R) (nout nv : nat) (noclamp : bool) (lims : list (bool * R * R))
      (ctrl len vel : list R) (xs : list (@Actuator R * R)) (tendons : list (bool * R * R)) (moment : list (list R))
      (dofs : list (option R * bool * R * R)) :
  fwd_actuation true mask h nout nv noclamp lims ctrl len vel xs tendons moment dofs =
  (map (fun _ => 0) xs, repeat 0 nout, repeat 0 nv).
Proof. reflexivity. Qed.

(* the advanced activation of an enabled or disabled activation-limited actuator lies in actrange, for
   EVERY dyntype (Euler branches, exact filter) and every act_dot *)
Lemma advance_in_range (mask : Z) (h : R) (a : @Actuator R) (act adot : R) :
  a_actnum a = 1%Z -> a_actlimited a = true -> fst (a_actrange a) <= snd (a_actrange a) ->
  fst (a_actrange a) <= advance1 false mask h (a, act) adot <= snd (a_actrange a).
Proof. intros Hn Hl Hr. unfold advance1. rewrite Hn. cbn [Z.eqb Pos.eqb]. apply nextActivation_range; assumption. Qed.

(* a disabled actuator with an in-range activation is frozen (Euler-type dyntypes), and so is every
   activation when actuation is switched off *)
Lemma advance_frozen (mask : Z) (h : R) (a : @Actuator R) (act adot : R) :
  a_actnum a = 1%Z ->
  advance1 true mask h (a, act) adot = act /\
  (actuatorDisabled mask (a_group a) = true ->
   (a_actlimited a = false \/ fst (a_actrange a) <= act <= snd (a_actrange a)) ->
   advance1 false mask h (a, act) adot = act).
Proof.
  intros Hn. unfold advance1. rewrite Hn. cbn [Z.eqb Pos.eqb]. split; [reflexivity|]. intros Hd Hr. rewrite Hd.
  unfold nextActivation. destruct (a_dynprm a) as [[d0 d1] d2]. num_R.
  destruct (a_dyntype a =? 3)%Z; cbv zeta.
  - replace (act + 0 * fmax MINVAL d0 * (1 - exp (- h / fmax MINVAL d0))) with act by ring.
    destruct Hr as [Hr|Hr]; [rewrite Hr; reflexivity|]. destruct (a_actlimited a); auto using clip_id.
  - replace (act + 0 * h) with act by ring.
    destruct Hr as [Hr|Hr]; [rewrite Hr; reflexivity|]. destruct (a_actlimited a); auto using clip_id.
Qed.

(* ------------------------------------------------------------------ the affine law *)
Lemma affine_law (mask : Z) (a : @Actuator R) (h u act len vel : R) :
  actuatorDisabled mask (a_group a) = false -> a_gaintype a = 1%Z -> a_biastype a = 1%Z -> a_actnum a = 0%Z ->
  raw_force mask a h u act len vel =
  (p (a_gainprm a) 0 + p (a_gainprm a) 1 * len + p (a_gainprm a) 2 * vel) * u +
  (p (a_biasprm a) 0 + p (a_biasprm a) 1 * len + p (a_biasprm a) 2 * vel).
Proof.
  intros Hd Hg Hb Hn. unfold raw_force, gain, bias, act_input. rewrite Hd, Hg, Hb, Hn. reflexivity.
Qed.

Lemma position_servo (mask : Z) (a : @Actuator R) (h u act len vel kp kv : R) :
  actuatorDisabled mask (a_group a) = false -> a_gaintype a = 0%Z -> a_biastype a = 1%Z -> a_actnum a = 0%Z ->
  p (a_gainprm a) 0 = kp -> p (a_biasprm a) 0 = 0 -> p (a_biasprm a) 1 = - kp -> p (a_biasprm a) 2 = - kv ->
  raw_force mask a h u act len vel = kp * (u - len) - kv * vel.
Proof.
  intros Hd Hg Hb Hn E0 E1 E2 E3. unfold raw_force, gain, bias, act_input. rewrite Hd, Hg, Hb, Hn. cbn [Z.eqb Pos.eqb].
  rewrite E0, E1, E2, E3. num_R. ring.
Qed.

(* stateful actuator without actearly: the input is the activation *)
Lemma stateful_law (mask : Z) (a : @Actuator R) (h u act len vel : R) :
  actuatorDisabled mask (a_group a) = false -> a_actnum a = 1%Z -> a_actearly a = false ->
  raw_force mask a h u act len vel = gain a len vel * act + bias a len vel.
Proof. intros Hd Hn He. unfold raw_force, act_input. rewrite Hd, Hn, He. reflexivity. Qed.

(* ------------------------------------------------------------------ transmission *)
(* column v of moment^T force as a scalar sum *)
Definition dotcol (v : nat) (acc : R) (moment : list (list R)) (f : list R) : R :=
  fold_left (fun s rf => s + nth v (fst rf) 0 * snd rf) (combine moment f) acc.

Lemma nth_vadd (a b : list R) (v : nat) : length a = length b -> nth v (vadd a b) 0 = nth v a 0 + nth v b 0.
Proof.
  unfold vadd. num_R. revert b v; induction a as [|x a IH]; intros [|y b] [|v] Hl; simpl in *; try discriminate; try lra.
  apply IH. lia.
Qed.

Lemma vadd_length (a b : list R) : length a = length b -> length (vadd a b) = length a.
Proof. intros Hl. unfold vadd. rewrite map_length, combine_length, Hl. apply Nat.min_id. Qed.

Lemma nth_vscl (c : R) (a : list R) (v : nat) : nth v (vscl c a) 0 = nth v a 0 * c.
Proof.
  unfold vscl. revert v; induction a as [|x a IH]; intros [|v]; simpl; try lra; auto.
Qed.

Lemma vscl_length (c : R) (a : list R) : length (vscl c a) = length a.
Proof. unfold vscl. apply map_length. Qed.

Lemma mulMat_fold_nth (nv : nat) (moment : list (list R)) :
  Forall (fun r : list R => length r = nv) moment ->
  forall (f : list R) (q : list R) (v : nat),
    length q = nv ->
    nth v (fold_left (fun q rf => vadd q (vscl (snd rf) (fst rf))) (combine moment f) q) 0 =
    dotcol v (nth v q 0) moment f.
Proof.
  intros Hall. induction Hall as [|row M Hrow HM IH]; intros f q v Hq.
  - reflexivity.
  - destruct f as [|x f]; [reflexivity|]. unfold dotcol. cbn [combine fold_left fst snd].
    rewrite IH.
    + unfold dotcol. rewrite nth_vadd by (rewrite vscl_length; congruence). rewrite nth_vscl. reflexivity.
    + rewrite vadd_length; rewrite ?vscl_length; congruence.
Qed.

Lemma nth_zeros (n v : nat) : nth v (zeros (T:=R) n) 0 = 0.
Proof. unfold zeros. revert v; induction n as [|n IH]; intros [|v]; simpl; auto. Qed.

Lemma mulMatTVec_nth (nv : nat) (moment : list (list R)) (f : list R) (v : nat) :
  Forall (fun r : list R => length r = nv) moment ->
  nth v (mulMatTVec nv moment f) 0 = dotcol v 0 moment f.
Proof.
  intros Hall. unfold mulMatTVec. rewrite (mulMat_fold_nth nv moment Hall).
  - rewrite nth_zeros. reflexivity.
  - unfold zeros. apply repeat_length.
Qed.

Lemma dotcol_add (v : nat) (moment : list (list R)) :
  forall (f g : list R) (a1 a2 : R), length f = length g ->
    dotcol v (a1 + a2) moment (vadd f g) = dotcol v a1 moment f + dotcol v a2 moment g.
Proof.
  induction moment as [|row M IH]; intros f g a1 a2 Hl.
  - reflexivity.
  - destruct f as [|x f], g as [|y g]; try discriminate; [reflexivity|].
    unfold dotcol in *. cbn [vadd combine map fold_left fst snd]. num_R.
    change (map (fun xy : R * R => fst xy + snd xy) (combine f g)) with (vadd f g).
    replace (a1 + a2 + nth v row 0 * (x + y)) with ((a1 + nth v row 0 * x) + (a2 + nth v row 0 * y)) by ring.
    apply IH. simpl in Hl. lia.
Qed.

Lemma dotcol_scl (v : nat) (c : R) (moment : list (list R)) :
  forall (f : list R) (a : R), dotcol v (a * c) moment (vscl c f) = dotcol v a moment f * c.
Proof.
  induction moment as [|row M IH]; intros f a.
  - reflexivity.
  - destruct f as [|x f]; [reflexivity|].
    unfold dotcol in *. cbn [vscl combine map fold_left fst snd]. num_R.
    change (map (fun x0 : R => x0 * c) f) with (vscl c f).
    replace (a * c + nth v row 0 * (x * c)) with ((a + nth v row 0 * x) * c) by ring.
    apply IH.
Qed.

Lemma moment_additive (nv : nat) (moment : list (list R)) (f g : list R) (v : nat) :
  Forall (fun r : list R => length r = nv) moment -> length f = length g ->
  nth v (mulMatTVec nv moment (vadd f g)) 0 = nth v (mulMatTVec nv moment f) 0 + nth v (mulMatTVec nv moment g) 0.
Proof.
  intros Hall Hl. rewrite !mulMatTVec_nth by exact Hall.
  replace 0 with (0 + 0) at 1 by ring. apply dotcol_add. exact Hl.
Qed.

Lemma moment_homogeneous (nv : nat) (moment : list (list R)) (f : list R) (c : R) (v : nat) :
  Forall (fun r : list R => length r = nv) moment ->
  nth v (mulMatTVec nv moment (vscl c f)) 0 = nth v (mulMatTVec nv moment f) 0 * c.
Proof.
  intros Hall. rewrite !mulMatTVec_nth by exact Hall.
  replace 0 with (0 * c) at 1 by ring. apply dotcol_scl.
Qed.

Lemma combine_app_eq {A B : Type} (l1 l2 : list A) (m1 m2 : list B) :
  length l1 = length m1 -> combine (l1 ++ l2) (m1 ++ m2) = combine l1 m1 ++ combine l2 m2.
Proof.
  revert m1; induction l1 as [|x l1 IH]; intros [|y m1] Hl; simpl in *; try discriminate; auto.
  f_equal. apply IH. lia.
Qed.

(* an actuator with zero force contributes nothing: removing it (row and entry) leaves qfrc unchanged *)
Lemma zero_force_no_contribution (nv : nat) (M1 M2 : list (list R)) (row : list R) (f1 f2 : list R) (v : nat) :
  Forall (fun r : list R => length r = nv) (M1 ++ row :: M2) -> length M1 = length f1 ->
  nth v (mulMatTVec nv (M1 ++ row :: M2) (f1 ++ 0 :: f2)) 0 = nth v (mulMatTVec nv (M1 ++ M2) (f1 ++ f2)) 0.
Proof.
  intros Hall Hl.
  assert (Hall2 : Forall (fun r : list R => length r = nv) (M1 ++ M2)).
  { apply Forall_app in Hall. destruct Hall as [H1 H2]. inversion H2; subst. apply Forall_app; auto. }
  rewrite !mulMatTVec_nth by assumption. unfold dotcol.
  rewrite !combine_app_eq by exact Hl. rewrite !fold_left_app. cbn [combine fold_left fst snd].
  f_equal. ring.
Qed.

(* ------------------------------------------------------------------ muscle curves *)
Lemma half_R : half (T:=R) = / 2.
Proof. unfold half. num_R. unfold Rdec. simpl. lra. Qed.

Lemma sigmoid_range (x : R) : 0 <= sigmoid x <= 1.
Proof.
  unfold sigmoid. num_R.
  destruct (Rleb x 0) eqn:E1; [lra|]. apply Rleb_false in E1.
  destruct (Rleb 1 x) eqn:E2; [lra|]. apply Rleb_false in E2.
  split.
  - assert (0 < 3 * x * (2 * x - 5) + 10) by nra.
    apply Rmult_le_pos; [|lra]. apply Rmult_le_pos; [apply Rmult_le_pos|]; lra.
  - assert (E : 1 - x * x * x * (3 * x * (2 * x - 5) + 10) = (1 - x) * (1 - x) * (1 - x) * (6 * x * x + 3 * x + 1)) by ring.
    assert (0 <= (1 - x) * (1 - x) * (1 - x) * (6 * x * x + 3 * x + 1)).
    { apply Rmult_le_pos; [apply Rmult_le_pos; [apply Rmult_le_pos|]|]; nra. }
    lra.
Qed.

Lemma muscleGainLength_range (len lmin lmax : R) : 0 <= muscleGainLength len lmin lmax <= 1.
Proof.
  unfold muscleGainLength. rewrite half_R. num_R.
  destruct (Rleb lmin len && Rleb len lmax) eqn:E0; [|lra].
  apply andb_true_iff in E0. destruct E0 as [E0 E0']. apply Rleb_true in E0. apply Rleb_true in E0'.
  set (a := / 2 * (lmin + 1)). set (b := / 2 * (1 + lmax)).
  destruct (Rleb len a) eqn:E1.
  { apply Rleb_true in E1. destruct (mMAX_spec MINVAL (a - lmin)) as [_ [A2 _]]. pose proof (mMAX_pos (a - lmin)).
    destruct (frac01 (len - lmin) (mMAX MINVAL (a - lmin))); try lra. nra. }
  apply Rleb_false in E1.
  destruct (Rleb len 1) eqn:E2.
  { apply Rleb_true in E2. destruct (mMAX_spec MINVAL (1 - a)) as [_ [A2 _]]. pose proof (mMAX_pos (1 - a)).
    destruct (frac01 (1 - len) (mMAX MINVAL (1 - a))); try lra. nra. }
  apply Rleb_false in E2.
  destruct (Rleb len b) eqn:E3.
  { apply Rleb_true in E3. destruct (mMAX_spec MINVAL (b - 1)) as [_ [A2 _]]. pose proof (mMAX_pos (b - 1)).
    destruct (frac01 (len - 1) (mMAX MINVAL (b - 1))); try lra. nra. }
  apply Rleb_false in E3.
  destruct (mMAX_spec MINVAL (lmax - b)) as [_ [A2 _]]. pose proof (mMAX_pos (lmax - b)).
  destruct (frac01 (lmax - len) (mMAX MINVAL (lmax - b))); try lra. nra.
Qed.

Lemma muscleFV_range (V fvmax : R) : 1 <= fvmax -> 0 <= muscleFV V fvmax <= fvmax.
Proof.
  intros Hf. unfold muscleFV. num_R.
  destruct (Rleb V (- (1))) eqn:E1; [lra|]. apply Rleb_false in E1.
  destruct (Rleb V 0) eqn:E2. { apply Rleb_true in E2. nra. }
  apply Rleb_false in E2.
  destruct (Rleb V (fvmax - 1)) eqn:E3; [|lra]. apply Rleb_true in E3.
  set (y := fvmax - 1) in *.
  destruct (mMAX_spec MINVAL y) as [_ [A2 _]]. pose proof (mMAX_pos y) as Hp.
  assert (Hq : 0 <= (y - V) * (y - V) / mMAX MINVAL y <= y).
  { split; [apply frac_nonneg; nra|].
    apply (Rmult_le_reg_r (mMAX MINVAL y)); [lra|]. unfold Rdiv. rewrite Rmult_assoc, Rinv_l by lra. nra. }
  unfold y in *. lra.
Qed.

Lemma muscleForce_nonneg (prm : list R) (acc0 : R) :
  0 <= p prm 2 \/ 0 <= p prm 3 -> 0 <= muscleForce prm acc0.
Proof.
  intros Hs. unfold muscleForce. num_R. destruct (Rltb (p prm 2) 0) eqn:E.
  - apply Rltb_true in E. destruct Hs as [Hs|Hs]; [lra|]. apply frac_nonneg; [lra|apply mMAX_pos].
  - apply Rltb_false in E. exact E.
Qed.

Lemma muscleGain_sign (len vel : R) (lr : R * R) (acc0 : R) (prm : list R) :
  (0 <= p prm 2 \/ 0 <= p prm 3) -> 1 <= p prm 8 ->
  - (muscleForce prm acc0 * p prm 8) <= muscleGain len vel lr acc0 prm <= 0.
Proof.
  intros Hs Hf. unfold muscleGain. num_R.
  pose proof (muscleForce_nonneg prm acc0 Hs) as F0.
  pose proof (muscleGainLength_range (muscleL prm lr len) (p prm 4) (p prm 5)) as [L0 L1].
  pose proof (muscleFV_range (vel / mMAX MINVAL (muscleL0 prm lr * p prm 6)) (p prm 8) Hf) as [V0 V1].
  set (F := muscleForce prm acc0) in *. set (FL := muscleGainLength _ _ _) in *. set (FV := muscleFV _ _) in *.
  assert (0 <= F * FL) by (apply Rmult_le_pos; lra).
  assert (F * FL <= F) by nra.
  assert (0 <= F * FL * FV) by (apply Rmult_le_pos; lra).
  assert (F * FL * FV <= F * p prm 8) by nra.
  split; lra.
Qed.

Lemma muscleBias_sign (len : R) (lr : R * R) (acc0 : R) (prm : list R) :
  (0 <= p prm 2 \/ 0 <= p prm 3) -> 0 <= p prm 7 -> muscleBias len lr acc0 prm <= 0.
Proof.
  intros Hs Hf. unfold muscleBias. rewrite half_R. num_R.
  pose proof (muscleForce_nonneg prm acc0 Hs) as F0.
  set (F := muscleForce prm acc0) in *. set (L := muscleL prm lr len). set (b := / 2 * (1 + p prm 5)).
  destruct (Rleb L 1) eqn:E1; [lra|]. apply Rleb_false in E1.
  pose proof (mMAX_pos (b - 1)) as Hp.
  assert (0 <= F * p prm 7) by (apply Rmult_le_pos; lra).
  destruct (Rleb L b) eqn:E2.
  - apply Rleb_true in E2.
    assert (Hx : 0 <= (L - 1) / mMAX MINVAL (b - 1)) by (apply frac_nonneg; lra).
    set (x := (L - 1) / mMAX MINVAL (b - 1)) in *.
    assert (0 <= F * p prm 7 * / 2 * x * x) by (apply Rmult_le_pos; [apply Rmult_le_pos; [apply Rmult_le_pos|]|]; lra). lra.
  - apply Rleb_false in E2.
    assert (Hx : 0 <= (L - b) / mMAX MINVAL (b - 1)) by (apply frac_nonneg; lra).
    set (x := (L - b) / mMAX MINVAL (b - 1)) in *.
    assert (0 <= F * p prm 7 * (/ 2 + x)) by (apply Rmult_le_pos; lra). lra.
Qed.

(* act_dot has the sign of clip(ctrl, 0, 1) - act, for all parameters (the time scale is floored at
   mjMINVAL) *)
Lemma muscleDynamics_sign (ctrl act p0 p1 w : R) :
  let d := clip ctrl 0 1 - act in
  (0 < d -> 0 < muscleDynamics ctrl act (p0, p1, w)) /\
  (d < 0 -> muscleDynamics ctrl act (p0, p1, w) < 0) /\
  (d = 0 -> muscleDynamics ctrl act (p0, p1, w) = 0).
Proof.
  intros d. unfold muscleDynamics. num_R. fold d.
  set (tau := muscleTimescale d (p0 * (half + c15 * clip act 0 1)) (p1 / (half + c15 * clip act 0 1)) w).
  pose proof (mMAX_pos tau) as Hp.
  assert (Hi : 0 < / mMAX MINVAL tau) by (apply Rinv_0_lt_compat; exact Hp).
  unfold Rdiv. repeat split; intros Hd.
  - apply Rmult_lt_0_compat; assumption.
  - replace 0 with (0 * / mMAX MINVAL tau) by ring. apply Rmult_lt_compat_r; assumption.
  - rewrite Hd. ring.
Qed.
