(* Lemmas about Model/Actuation.v at the reals (C27). *)
From Coq Require Import ZArith List Bool PrimFloat Reals Lra Lia Psatz.
From MJV Require Import Lib.Num Lib.NumR Model.Actuation.
Import ListNotations.
Open Scope R_scope.

(* ------------------------------------------------------------------ clip and max *)
Lemma clip_cases (x lo hi : R) :
  (x < lo /\ clip x lo hi = lo) \/ (lo <= x /\ hi < x /\ clip x lo hi = hi) \/
  (lo <= x /\ x <= hi /\ clip x lo hi = x).
Proof.
  unfold clip; num_R.
  destruct (Rltb x lo) eqn:E1.
  - apply Rltb_true in E1. left; split; auto.
  - apply Rltb_false in E1. destruct (Rltb hi x) eqn:E2.
    + apply Rltb_true in E2. right; left; auto.
    + apply Rltb_false in E2. right; right; auto.
Qed.

Lemma clip_range (x lo hi : R) : lo <= hi -> lo <= clip x lo hi <= hi.
Proof. intros L. destruct (clip_cases x lo hi) as [[A B]|[[A [B C]]|[A [B C]]]]; rewrite ?B, ?C; lra. Qed.

Lemma clip_id (x lo hi : R) : lo <= x <= hi -> clip x lo hi = x.
Proof. intros L. destruct (clip_cases x lo hi) as [[A B]|[[A [B C]]|[A [B C]]]]; try lra; auto. Qed.

Lemma MINVAL_pos : 0 < MINVAL (T:=R).
Proof. unfold MINVAL. num_R. unfold Rdec. apply Rdiv_lt_0_compat; apply IZR_lt; reflexivity. Qed.

Lemma mMAX_spec (a b : R) : a <= mMAX a b /\ b <= mMAX a b /\ (mMAX a b = a \/ mMAX a b = b).
Proof.
  unfold mMAX; num_R. destruct (Rltb b a) eqn:E.
  - apply Rltb_true in E. repeat split; auto; lra.
  - apply Rltb_false in E. repeat split; auto; lra.
Qed.

Lemma mMAX_pos (b : R) : 0 < mMAX MINVAL b.
Proof. pose proof MINVAL_pos. destruct (mMAX_spec MINVAL b) as [A _]. lra. Qed.

Lemma fmax_pos (b : R) : 0 < fmax MINVAL b.
Proof.
  pose proof MINVAL_pos. unfold fmax; num_R. destruct (Rleb b MINVAL) eqn:E; [lra|]. apply Rleb_false in E. lra.
Qed.

Lemma frac01 (n d : R) : 0 <= n -> n <= d -> 0 < d -> 0 <= n / d <= 1.
Proof.
  intros A B C. split.
  - apply Rmult_le_pos; [lra|]. left. apply Rinv_0_lt_compat; lra.
  - apply (Rmult_le_reg_r d); [lra|]. unfold Rdiv. rewrite Rmult_assoc, Rinv_l by lra. lra.
Qed.

Lemma frac_nonneg (n d : R) : 0 <= n -> 0 < d -> 0 <= n / d.
Proof. intros A C. apply Rmult_le_pos; [lra|]. left. apply Rinv_0_lt_compat; lra. Qed.

(* ------------------------------------------------------------------ the clamps *)
Lemma clamp_ctrl_range (a : @Actuator R) (u : R) :
  a_ctrllimited a = true -> fst (a_ctrlrange a) <= snd (a_ctrlrange a) ->
  fst (a_ctrlrange a) <= clamp_ctrl false a u <= snd (a_ctrlrange a).
Proof. intros Hl Hr. unfold clamp_ctrl. rewrite Hl. apply clip_range; auto. Qed.

Lemma clamp_ctrl_id (a : @Actuator R) (u : R) (noclamp : bool) :
  fst (a_ctrlrange a) <= u <= snd (a_ctrlrange a) -> clamp_ctrl noclamp a u = u.
Proof. intros Hr. unfold clamp_ctrl. destruct noclamp, (a_ctrllimited a); auto using clip_id. Qed.

Lemma clamp_ctrl_off (a : @Actuator R) (u : R) (noclamp : bool) :
  noclamp = true \/ a_ctrllimited a = false -> clamp_ctrl noclamp a u = u.
Proof. intros [E|E]; unfold clamp_ctrl; rewrite E; auto. destruct noclamp; auto. Qed.

Lemma clamp_force_range (mask : Z) (a : @Actuator R) (f : R) :
  a_forcelimited a = true -> actuatorDisabled mask (a_group a) = false ->
  fst (a_forcerange a) <= snd (a_forcerange a) ->
  fst (a_forcerange a) <= clamp_force mask a f <= snd (a_forcerange a).
Proof. intros Hl Hd Hr. unfold clamp_force. rewrite Hl, Hd. apply clip_range; auto. Qed.

Lemma clamp_force_id (mask : Z) (a : @Actuator R) (f : R) :
  a_forcelimited a = false \/ actuatorDisabled mask (a_group a) = true \/
  fst (a_forcerange a) <= f <= snd (a_forcerange a) -> clamp_force mask a f = f.
Proof.
  intros [E|[E|E]]; unfold clamp_force; [rewrite E; auto|rewrite E; rewrite andb_false_r; auto|].
  destruct (a_forcelimited a && negb (actuatorDisabled mask (a_group a))); auto using clip_id.
Qed.

Lemma nextActivation_range (a : @Actuator R) (h act adot : R) :
  a_actlimited a = true -> fst (a_actrange a) <= snd (a_actrange a) ->
  fst (a_actrange a) <= nextActivation a h act adot <= snd (a_actrange a).
Proof. intros Hl Hr. unfold nextActivation. rewrite Hl. apply clip_range; auto. Qed.

Lemma nextActivation_euler (a : @Actuator R) (h act adot : R) :
  a_dyntype a <> 3%Z ->
  (a_actlimited a = false \/ fst (a_actrange a) <= act + adot * h <= snd (a_actrange a)) ->
  nextActivation a h act adot = act + adot * h.
Proof.
  intros Hd Hl. unfold nextActivation.
  destruct (a_dyntype a =? 3)%Z eqn:E; [apply Z.eqb_eq in E; contradiction|]. num_R.
  destruct Hl as [Hl|Hl]; [rewrite Hl; reflexivity|]. destruct (a_actlimited a); auto using clip_id.
Qed.

Lemma dof_post_range (g : option R) (lo hi q : R) : lo <= hi -> lo <= dof_post (g, true, lo, hi) q <= hi.
Proof. intros L. unfold dof_post. apply clip_range; auto. Qed.

Lemma dof_post_id (q : R) (lo hi : R) (lim : bool) : lim = false \/ lo <= q <= hi -> dof_post (None, lim, lo, hi) q = q.
Proof. intros [E|E]; unfold dof_post; [rewrite E; auto|]. destruct lim; auto using clip_id. Qed.

(* ------------------------------------------------------------------ disabled groups *)
Lemma disabled_group_bit (mask g : Z) : (0 <= g <= 30)%Z -> actuatorDisabled mask g = Z.testbit mask g.
Proof.
  intros Hg. unfold actuatorDisabled.
  assert (E1 : (g <? 0)%Z = false) by (apply Z.ltb_ge; lia).
  assert (E2 : (30 <? g)%Z = false) by (apply Z.ltb_ge; lia). rewrite E1, E2. reflexivity.
Qed.

Lemma disabled_group_outside (mask g : Z) : (g < 0 \/ 30 < g)%Z -> actuatorDisabled mask g = false.
Proof.
  intros Hg. unfold actuatorDisabled. destruct Hg as [Hg|Hg].
  - apply Z.ltb_lt in Hg. rewrite Hg. reflexivity.
  - apply Z.ltb_lt in Hg. rewrite Hg. rewrite orb_true_r. reflexivity.
Qed.

Lemma raw_force_disabled (mask : Z) (a : @Actuator R) (h u act len vel : R) :
  actuatorDisabled mask (a_group a) = true -> raw_force mask a h u act len vel = 0.
Proof. intros E. unfold raw_force. rewrite E. reflexivity. Qed.

Lemma tendon_scale_zero (tendons : list (bool * R * R)) (acts : list (@Actuator R)) (f : list R) (a : @Actuator R) :
  tendon_scale tendons acts f a 0 = 0.
Proof.
  unfold tendon_scale. destruct (a_tendon a <? 0)%Z; auto.
  destruct (nth (Z.to_nat (a_tendon a)) tendons (false, nzero, nzero)) as [[lim lo] hi].
  destruct (lim && negb _); auto. num_R.
  destruct (Rltb (tendon_total acts f (a_tendon a)) lo); [ring|].
  destruct (Rltb hi (tendon_total acts f (a_tendon a))); [ring|reflexivity].
Qed.

(* the whole pipeline for the i-th actuator of the model *)
Lemma final_force_nth (mask : Z) (h : R) (tendons : list (bool * R * R)) (acts : list (@Actuator R))
      (us : list R) (st : list (R * R * R)) (i : nat) (dz : @Actuator R * R * (R * R * R)) :
  (i < length (zipped acts us st))%nat ->
  nth i (actuator_forces mask h tendons acts us st) 0 =
  final1 mask h tendons acts (raw_forces mask h acts us st) (nth i (zipped acts us st) dz).
Proof.
  intros Hi. unfold actuator_forces.
  rewrite (nth_indep _ 0 (final1 mask h tendons acts (raw_forces mask h acts us st) dz)) by (rewrite map_length; exact Hi).
  apply map_nth.
Qed.

Lemma disabled_zero_force (mask : Z) (h : R) (tendons : list (bool * R * R)) (acts : list (@Actuator R))
      (us : list R) (st : list (R * R * R)) (i : nat) (dz : @Actuator R * R * (R * R * R)) :
  (i < length (zipped acts us st))%nat ->
  actuatorDisabled mask (a_group (fst (fst (nth i (zipped acts us st) dz)))) = true ->
  nth i (actuator_forces mask h tendons acts us st) 0 = 0.
Proof.
  intros Hi Hd. rewrite (final_force_nth _ _ _ _ _ _ _ dz Hi). unfold final1.
  assert (E : raw1 mask h (nth i (zipped acts us st) dz) = 0).
  { unfold raw1. destruct (nth i (zipped acts us st) dz) as [[a' u] [[act len] vel]] eqn:En.
    apply raw_force_disabled. cbn [fst] in Hd. exact Hd. }
  rewrite E, tendon_scale_zero. apply clamp_force_id. right; left. exact Hd.
Qed.

(* an enabled, force-limited actuator ends within its forcerange *)
Lemma enabled_force_in_range (mask : Z) (h : R) (tendons : list (bool * R * R)) (acts : list (@Actuator R))
      (us : list R) (st : list (R * R * R)) (i : nat) (dz : @Actuator R * R * (R * R * R)) :
  (i < length (zipped acts us st))%nat ->
  let a := fst (fst (nth i (zipped acts us st) dz)) in
  a_forcelimited a = true -> actuatorDisabled mask (a_group a) = false ->
  fst (a_forcerange a) <= snd (a_forcerange a) ->
  fst (a_forcerange a) <= nth i (actuator_forces mask h tendons acts us st) 0 <= snd (a_forcerange a).
Proof.
  intros Hi a Hl Hd Hr. rewrite (final_force_nth _ _ _ _ _ _ _ dz Hi). unfold final1. fold a.
  apply clamp_force_range; assumption.
Qed.

(* ------------------------------------------------------------------ the affine law *)
Lemma affine_law (mask : Z) (a : @Actuator R) (h u act len vel : R) :
  actuatorDisabled mask (a_group a) = false -> a_gaintype a = 1%Z -> a_biastype a = 1%Z -> a_actnum a = 0%Z ->
  raw_force mask a h u act len vel =
  (p (a_gainprm a) 0 + p (a_gainprm a) 1 * len + p (a_gainprm a) 2 * vel) * u +
  (p (a_biasprm a) 0 + p (a_biasprm a) 1 * len + p (a_biasprm a) 2 * vel).
Proof.
  intros Hd Hg Hb Hn. unfold raw_force, gain, bias, act_input. rewrite Hd, Hg, Hb, Hn. reflexivity.
Qed.

Lemma position_servo (mask : Z) (a : @Actuator R) (h u act len vel kp kv : R) :
  actuatorDisabled mask (a_group a) = false -> a_gaintype a = 0%Z -> a_biastype a = 1%Z -> a_actnum a = 0%Z ->
  p (a_gainprm a) 0 = kp -> p (a_biasprm a) 0 = 0 -> p (a_biasprm a) 1 = - kp -> p (a_biasprm a) 2 = - kv ->
  raw_force mask a h u act len vel = kp * (u - len) - kv * vel.
Proof.
  intros Hd Hg Hb Hn E0 E1 E2 E3. unfold raw_force, gain, bias, act_input. rewrite Hd, Hg, Hb, Hn. cbn [Z.eqb Pos.eqb].
  rewrite E0, E1, E2, E3. num_R. ring.
Qed.

(* stateful actuator without actearly: the input is the activation *)
Lemma stateful_law (mask : Z) (a : @Actuator R) (h u act len vel : R) :
  actuatorDisabled mask (a_group a) = false -> a_actnum a = 1%Z -> a_actearly a = false ->
  raw_force mask a h u act len vel = gain a len vel * act + bias a len vel.
Proof. intros Hd Hn He. unfold raw_force, act_input. rewrite Hd, Hn, He. reflexivity. Qed.

(* ------------------------------------------------------------------ transmission *)
(* column v of moment^T force as a scalar sum *)
Definition dotcol (v : nat) (acc : R) (moment : list (list R)) (f : list R) : R :=
  fold_left (fun s rf => s + nth v (fst rf) 0 * snd rf) (combine moment f) acc.

Lemma nth_vadd (a b : list R) (v : nat) : length a = length b -> nth v (vadd a b) 0 = nth v a 0 + nth v b 0.
Proof.
  unfold vadd. num_R. revert b v; induction a as [|x a IH]; intros [|y b] [|v] Hl; simpl in *; try discriminate; try lra.
  apply IH. lia.
Qed.

Lemma vadd_length (a b : list R) : length a = length b -> length (vadd a b) = length a.
Proof. intros Hl. unfold vadd. rewrite map_length, combine_length, Hl. apply Nat.min_id. Qed.

Lemma nth_vscl (c : R) (a : list R) (v : nat) : nth v (vscl c a) 0 = nth v a 0 * c.
Proof.
  unfold vscl. revert v; induction a as [|x a IH]; intros [|v]; simpl; try lra; auto.
Qed.

Lemma vscl_length (c : R) (a : list R) : length (vscl c a) = length a.
Proof. unfold vscl. apply map_length. Qed.

Lemma mulMat_fold_nth (nv : nat) (moment : list (list R)) :
  Forall (fun r : list R => length r = nv) moment ->
  forall (f : list R) (q : list R) (v : nat),
    length q = nv ->
    nth v (fold_left (fun q rf => vadd q (vscl (snd rf) (fst rf))) (combine moment f) q) 0 =
    dotcol v (nth v q 0) moment f.
Proof.
  intros Hall. induction Hall as [|row M Hrow HM IH]; intros f q v Hq.
  - reflexivity.
  - destruct f as [|x f]; [reflexivity|]. unfold dotcol. cbn [combine fold_left fst snd].
    rewrite IH.
    + unfold dotcol. rewrite nth_vadd by (rewrite vscl_length; congruence). rewrite nth_vscl. reflexivity.
    + rewrite vadd_length; rewrite ?vscl_length; congruence.
Qed.

Lemma nth_zeros (n v : nat) : nth v (zeros (T:=R) n) 0 = 0.
Proof. unfold zeros. revert v; induction n as [|n IH]; intros [|v]; simpl; auto. Qed.

Lemma mulMatTVec_nth (nv : nat) (moment : list (list R)) (f : list R) (v : nat) :
  Forall (fun r : list R => length r = nv) moment ->
  nth v (mulMatTVec nv moment f) 0 = dotcol v 0 moment f.
Proof.
  intros Hall. unfold mulMatTVec. rewrite (mulMat_fold_nth nv moment Hall).
  - rewrite nth_zeros. reflexivity.
  - unfold zeros. apply repeat_length.
Qed.

Lemma dotcol_add (v : nat) (moment : list (list R)) :
  forall (f g : list R) (a1 a2 : R), length f = length g ->
    dotcol v (a1 + a2) moment (vadd f g) = dotcol v a1 moment f + dotcol v a2 moment g.
Proof.
  induction moment as [|row M IH]; intros f g a1 a2 Hl.
  - reflexivity.
  - destruct f as [|x f], g as [|y g]; try discriminate; [reflexivity|].
    unfold dotcol in *. cbn [vadd combine map fold_left fst snd]. num_R.
    change (map (fun xy : R * R => fst xy + snd xy) (combine f g)) with (vadd f g).
    replace (a1 + a2 + nth v row 0 * (x + y)) with ((a1 + nth v row 0 * x) + (a2 + nth v row 0 * y)) by ring.
    apply IH. simpl in Hl. lia.
Qed.

Lemma dotcol_scl (v : nat) (c : R) (moment : list (list R)) :
  forall (f : list R) (a : R), dotcol v (a * c) moment (vscl c f) = dotcol v a moment f * c.
Proof.
  induction moment as [|row M IH]; intros f a.
  - reflexivity.
  - destruct f as [|x f]; [reflexivity|].
    unfold dotcol in *. cbn [vscl combine map fold_left fst snd]. num_R.
    change (map (fun x0 : R => x0 * c) f) with (vscl c f).
    replace (a * c + nth v row 0 * (x * c)) with ((a + nth v row 0 * x) * c) by ring.
    apply IH.
Qed.

Lemma moment_additive (nv : nat) (moment : list (list R)) (f g : list R) (v : nat) :
  Forall (fun r : list R => length r = nv) moment -> length f = length g ->
  nth v (mulMatTVec nv moment (vadd f g)) 0 = nth v (mulMatTVec nv moment f) 0 + nth v (mulMatTVec nv moment g) 0.
Proof.
  intros Hall Hl. rewrite !mulMatTVec_nth by exact Hall.
  replace 0 with (0 + 0) at 1 by ring. apply dotcol_add. exact Hl.
Qed.

Lemma moment_homogeneous (nv : nat) (moment : list (list R)) (f : list R) (c : R) (v : nat) :
  Forall (fun r : list R => length r = nv) moment ->
  nth v (mulMatTVec nv moment (vscl c f)) 0 = nth v (mulMatTVec nv moment f) 0 * c.
Proof.
  intros Hall. rewrite !mulMatTVec_nth by exact Hall.
  replace 0 with (0 * c) at 1 by ring. apply dotcol_scl.
Qed.

Lemma combine_app_eq {A B : Type} (l1 l2 : list A) (m1 m2 : list B) :
  length l1 = length m1 -> combine (l1 ++ l2) (m1 ++ m2) = combine l1 m1 ++ combine l2 m2.
Proof.
  revert m1; induction l1 as [|x l1 IH]; intros [|y m1] Hl; simpl in *; try discriminate; auto.
  f_equal. apply IH. lia.
Qed.

(* an actuator with zero force contributes nothing: removing it (row and entry) leaves qfrc unchanged *)
Lemma zero_force_no_contribution (nv : nat) (M1 M2 : list (list R)) (row : list R) (f1 f2 : list R) (v : nat) :
  Forall (fun r : list R => length r = nv) (M1 ++ row :: M2) -> length M1 = length f1 ->
  nth v (mulMatTVec nv (M1 ++ row :: M2) (f1 ++ 0 :: f2)) 0 = nth v (mulMatTVec nv (M1 ++ M2) (f1 ++ f2)) 0.
Proof.
  intros Hall Hl.
  assert (Hall2 : Forall (fun r : list R => length r = nv) (M1 ++ M2)).
  { apply Forall_app in Hall. destruct Hall as [H1 H2]. inversion H2; subst. apply Forall_app; auto. }
  rewrite !mulMatTVec_nth by assumption. unfold dotcol.
  rewrite !combine_app_eq by exact Hl. rewrite !fold_left_app. cbn [combine fold_left fst snd].
  f_equal. ring.
Qed.

(* ------------------------------------------------------------------ muscle curves *)
Lemma half_R : half (T:=R) = / 2.
Proof. unfold half. num_R. unfold Rdec. simpl. lra. Qed.

Lemma sigmoid_range (x : R) : 0 <= sigmoid x <= 1.
Proof.
  unfold sigmoid. num_R.
  destruct (Rleb x 0) eqn:E1; [lra|]. apply Rleb_false in E1.
  destruct (Rleb 1 x) eqn:E2; [lra|]. apply Rleb_false in E2.
  split.
  - assert (0 < 3 * x * (2 * x - 5) + 10) by nra.
    apply Rmult_le_pos; [|lra]. apply Rmult_le_pos; [apply Rmult_le_pos|]; lra.
  - assert (E : 1 - x * x * x * (3 * x * (2 * x - 5) + 10) = (1 - x) * (1 - x) * (1 - x) * (6 * x * x + 3 * x + 1)) by ring.
    assert (0 <= (1 - x) * (1 - x) * (1 - x) * (6 * x * x + 3 * x + 1)).
    { apply Rmult_le_pos; [apply Rmult_le_pos; [apply Rmult_le_pos|]|]; nra. }
    lra.
Qed.

Lemma muscleGainLength_range (len lmin lmax : R) : 0 <= muscleGainLength len lmin lmax <= 1.
Proof.
  unfold muscleGainLength. rewrite half_R. num_R.
  destruct (Rleb lmin len && Rleb len lmax) eqn:E0; [|lra].
  apply andb_true_iff in E0. destruct E0 as [E0 E0']. apply Rleb_true in E0. apply Rleb_true in E0'.
  set (a := / 2 * (lmin + 1)). set (b := / 2 * (1 + lmax)).
  destruct (Rleb len a) eqn:E1.
  { apply Rleb_true in E1. destruct (mMAX_spec MINVAL (a - lmin)) as [_ [A2 _]]. pose proof (mMAX_pos (a - lmin)).
    destruct (frac01 (len - lmin) (mMAX MINVAL (a - lmin))); try lra. nra. }
  apply Rleb_false in E1.
  destruct (Rleb len 1) eqn:E2.
  { apply Rleb_true in E2. destruct (mMAX_spec MINVAL (1 - a)) as [_ [A2 _]]. pose proof (mMAX_pos (1 - a)).
    destruct (frac01 (1 - len) (mMAX MINVAL (1 - a))); try lra. nra. }
  apply Rleb_false in E2.
  destruct (Rleb len b) eqn:E3.
  { apply Rleb_true in E3. destruct (mMAX_spec MINVAL (b - 1)) as [_ [A2 _]]. pose proof (mMAX_pos (b - 1)).
    destruct (frac01 (len - 1) (mMAX MINVAL (b - 1))); try lra. nra. }
  apply Rleb_false in E3.
  destruct (mMAX_spec MINVAL (lmax - b)) as [_ [A2 _]]. pose proof (mMAX_pos (lmax - b)).
  destruct (frac01 (lmax - len) (mMAX MINVAL (lmax - b))); try lra. nra.
Qed.

Lemma muscleFV_range (V fvmax : R) : 1 <= fvmax -> 0 <= muscleFV V fvmax <= fvmax.
Proof.
  intros Hf. unfold muscleFV. num_R.
  destruct (Rleb V (- (1))) eqn:E1; [lra|]. apply Rleb_false in E1.
  destruct (Rleb V 0) eqn:E2. { apply Rleb_true in E2. nra. }
  apply Rleb_false in E2.
  destruct (Rleb V (fvmax - 1)) eqn:E3; [|lra]. apply Rleb_true in E3.
  set (y := fvmax - 1) in *.
  destruct (mMAX_spec MINVAL y) as [_ [A2 _]]. pose proof (mMAX_pos y) as Hp.
  assert (Hq : 0 <= (y - V) * (y - V) / mMAX MINVAL y <= y).
  { split; [apply frac_nonneg; nra|].
    apply (Rmult_le_reg_r (mMAX MINVAL y)); [lra|]. unfold Rdiv. rewrite Rmult_assoc, Rinv_l by lra. nra. }
  unfold y in *. lra.
Qed.

Lemma muscleForce_nonneg (prm : list R) (acc0 : R) :
  0 <= p prm 2 \/ 0 <= p prm 3 -> 0 <= muscleForce prm acc0.
Proof.
  intros Hs. unfold muscleForce. num_R. destruct (Rltb (p prm 2) 0) eqn:E.
  - apply Rltb_true in E. destruct Hs as [Hs|Hs]; [lra|]. apply frac_nonneg; [lra|apply mMAX_pos].
  - apply Rltb_false in E. exact E.
Qed.

Lemma muscleGain_sign (len vel : R) (lr : R * R) (acc0 : R) (prm : list R) :
  (0 <= p prm 2 \/ 0 <= p prm 3) -> 1 <= p prm 8 ->
  - (muscleForce prm acc0 * p prm 8) <= muscleGain len vel lr acc0 prm <= 0.
Proof.
  intros Hs Hf. unfold muscleGain. num_R.
  pose proof (muscleForce_nonneg prm acc0 Hs) as F0.
  pose proof (muscleGainLength_range (muscleL prm lr len) (p prm 4) (p prm 5)) as [L0 L1].
  pose proof (muscleFV_range (vel / mMAX MINVAL (muscleL0 prm lr * p prm 6)) (p prm 8) Hf) as [V0 V1].
  set (F := muscleForce prm acc0) in *. set (FL := muscleGainLength _ _ _) in *. set (FV := muscleFV _ _) in *.
  assert (0 <= F * FL) by (apply Rmult_le_pos; lra).
  assert (F * FL <= F) by nra.
  assert (0 <= F * FL * FV) by (apply Rmult_le_pos; lra).
  assert (F * FL * FV <= F * p prm 8) by nra.
  split; lra.
Qed.

Lemma muscleBias_sign (len : R) (lr : R * R) (acc0 : R) (prm : list R) :
  (0 <= p prm 2 \/ 0 <= p prm 3) -> 0 <= p prm 7 -> muscleBias len lr acc0 prm <= 0.
Proof.
  intros Hs Hf. unfold muscleBias. rewrite half_R. num_R.
  pose proof (muscleForce_nonneg prm acc0 Hs) as F0.
  set (F := muscleForce prm acc0) in *. set (L := muscleL prm lr len). set (b := / 2 * (1 + p prm 5)).
  destruct (Rleb L 1) eqn:E1; [lra|]. apply Rleb_false in E1.
  pose proof (mMAX_pos (b - 1)) as Hp.
  assert (0 <= F * p prm 7) by (apply Rmult_le_pos; lra).
  destruct (Rleb L b) eqn:E2.
  - apply Rleb_true in E2.
    assert (Hx : 0 <= (L - 1) / mMAX MINVAL (b - 1)) by (apply frac_nonneg; lra).
    set (x := (L - 1) / mMAX MINVAL (b - 1)) in *.
    assert (0 <= F * p prm 7 * / 2 * x * x) by (apply Rmult_le_pos; [apply Rmult_le_pos; [apply Rmult_le_pos|]|]; lra). lra.
  - apply Rleb_false in E2.
    assert (Hx : 0 <= (L - b) / mMAX MINVAL (b - 1)) by (apply frac_nonneg; lra).
    set (x := (L - b) / mMAX MINVAL (b - 1)) in *.
    assert (0 <= F * p prm 7 * (/ 2 + x)) by (apply Rmult_le_pos; lra). lra.
Qed.

(* act_dot has the sign of clip(ctrl, 0, 1) - act, for all parameters (the time scale is floored at
   mjMINVAL) *)
Lemma muscleDynamics_sign (ctrl act p0 p1 w : R) :
  let d := clip ctrl 0 1 - act in
  (0 < d -> 0 < muscleDynamics ctrl act (p0, p1, w)) /\
  (d < 0 -> muscleDynamics ctrl act (p0, p1, w) < 0) /\
  (d = 0 -> muscleDynamics ctrl act (p0, p1, w) = 0).
Proof.
  intros d. unfold muscleDynamics. num_R. fold d.
  set (tau := muscleTimescale d (p0 * (half + c15 * clip act 0 1)) (p1 / (half + c15 * clip act 0 1)) w).
  pose proof (mMAX_pos tau) as Hp.
  assert (Hi : 0 < / mMAX MINVAL tau) by (apply Rinv_0_lt_compat; exact Hp).
  unfold Rdiv. repeat split; intros Hd.
  - apply Rmult_lt_0_compat; assumption.
  - replace 0 with (0 * / mMAX MINVAL tau) by ring. apply Rmult_lt_compat_r; assumption.
  - rewrite Hd. ring.
Qed.
