From Coq Require Import String List Bool Arith.
From MJV Require Import Model.Pipeline Proof.PipelineProof Model.Frames.
Import ListNotations.
Open Scope string_scope.
Open Scope list_scope.

Lemma mem_In (x : string) (l : list string) : mem x l = true <-> In x l.
Proof.
  unfold mem. rewrite existsb_exists. split.
  - intros [y [Hy E]]. apply String.eqb_eq in E. subst. exact Hy.
  - intro H. exists x. split; [exact H| apply String.eqb_refl].
Qed.

Lemma subset_In (a b : list string) : subset a b = true -> forall x : string, In x a -> In x b.
Proof. unfold subset. rewrite forallb_forall. intros H x Hx. apply mem_In. apply H. exact Hx. Qed.

Lemma inter_In (a b : list string) (x : string) : In x (inter a b) <-> In x a /\ In x b.
Proof. unfold inter. rewrite filter_In, mem_In. tauto. Qed.

Lemma remove_all_In (k l : list string) (x : string) : In x (remove_all k l) <-> In x l /\ ~ In x k.
Proof.
  unfold remove_all. rewrite filter_In, negb_true_iff. split.
  - intros [H1 H2]. split; [exact H1|]. intro H. apply mem_In in H. congruence.
  - intros [H1 H2]. split; [exact H1|]. destruct (mem x k) eqn:E; [|reflexivity]. apply mem_In in E. contradiction.
Qed.

Section Sound.
Variable V : Type.
Notation data := (string -> V).
Variable call : string -> list string -> data -> data.
Variable assign : string -> string -> data -> data.
Variable user : data -> data.
Variable atom : string -> data -> bool.
Variable integ : data -> string.
Variable table : list (string * frame).
Variable atom_reads : list (string * list string).

Definition agree (S : list string) (d1 d2 : data) : Prop := forall x : string, In x S -> d1 x = d2 x.

(* what is assumed of the interpretation *)
Hypothesis Hframe : forall (f : string) (a : list string) (fr : frame),
  lookup (call_key f a) table = Some fr ->
  forall (d : data) (x : string), ~ In x (f_must fr ++ f_may fr) -> call f a d x = d x.
Hypothesis Hreads : forall (f : string) (a : list string) (fr : frame),
  lookup (call_key f a) table = Some fr ->
  forall d1 d2 : data, agree (f_reads fr) d1 d2 -> agree (f_must fr) (call f a d1) (call f a d2).
Hypothesis Hassign_frame : forall (l r fld : string) (full : bool),
  field_of_assign l = Some (fld, full) -> forall (d : data) (x : string), x <> fld -> assign l r d x = d x.
Hypothesis Hassign_full : forall (l r fld : string),
  field_of_assign l = Some (fld, true) -> forall d1 d2 : data, assign l r d1 fld = assign l r d2 fld.
Hypothesis Hatom : forall (s : string) (rs : list string),
  lookup s atom_reads = Some rs -> forall d1 d2 : data, agree rs d1 d2 -> atom s d1 = atom s d2.
Hypothesis Hinteg : forall d1 d2 : data, integ d1 = integ d2.

Notation ceval := (ceval data atom integ).
Notation exec_item := (exec_item data call assign user atom integ).
Notation exec_list := (exec_list data call assign user atom integ).
Notation flow_item := (flow_item table atom_reads).
Notation flow_list := (flow_list table atom_reads).

Definition related (D' : list string) (o1 o2 : option data) : Prop :=
  match o1, o2 with
  | Some r1, Some r2 => agree D' r1 r2
  | None, None => True
  | _, _ => False
  end.

Lemma agree_mono (S S' : list string) (d1 d2 : data) :
  (forall x : string, In x S' -> In x S) -> agree S d1 d2 -> agree S' d1 d2.
Proof. intros H A x Hx. apply A. apply H. exact Hx. Qed.

Lemma ceval_agree (c : cond) : forall (rs : list string) (d1 d2 : data),
  cond_reads atom_reads c = Some rs -> agree rs d1 d2 -> ceval c d1 = ceval c d2.
Proof.
  induction c as [| |s|s|p|s|a IH|a IHa b IHb|a IHa b IHb]; intros rs d1 d2 Hr A; simpl in *;
    try reflexivity; try discriminate.
  - eapply Hatom; eassumption.
  - rewrite (Hinteg d1 d2). reflexivity.
  - f_equal. eapply IH; eassumption.
  - destruct (cond_reads atom_reads a) as [x|] eqn:Ea; [|discriminate].
    destruct (cond_reads atom_reads b) as [y|] eqn:Eb; [|discriminate]. inversion Hr; subst.
    rewrite (IHa x d1 d2 eq_refl), (IHb y d1 d2 eq_refl); [reflexivity| |];
      intros z Hz; apply A; apply in_or_app; auto.
  - destruct (cond_reads atom_reads a) as [x|] eqn:Ea; [|discriminate].
    destruct (cond_reads atom_reads b) as [y|] eqn:Eb; [|discriminate]. inversion Hr; subst.
    rewrite (IHa x d1 d2 eq_refl), (IHb y d1 d2 eq_refl); [reflexivity| |];
      intros z Hz; apply A; apply in_or_app; auto.
Qed.

Lemma flow_go (l : list item) (D : list string) :
  (fix go (l : list item) (D : list string) {struct l} : option (list string) :=
     match l with
     | [] => Some D
     | x :: r => match flow_item x D with Some D' => go r D' | None => None end
     end) l D = flow_list l D.
Proof. revert D. induction l as [|x r IH]; intro D; simpl; [reflexivity|]. destruct (flow_item x D); [apply IH|reflexivity]. Qed.

Lemma flow_if (c : cond) (a b : list item) (D : list string) :
  flow_item (IIf c a b) D =
  match cond_reads atom_reads c with
  | Some rs => if subset rs D then
                 match flow_list a D, flow_list b D with
                 | Some Da, Some Db => Some (inter Da Db)
                 | _, _ => None
                 end
               else None
  | None => None
  end.
Proof.
  cbn [Frames.flow_item]. destruct (cond_reads atom_reads c) as [rs|]; [|reflexivity].
  destruct (subset rs D); [|reflexivity]. rewrite (flow_go a D), (flow_go b D). reflexivity.
Qed.

Definition item_sound (i : item) : Prop :=
  forall (D D' : list string), flow_item i D = Some D' ->
  forall d1 d2 : data, agree D d1 d2 -> related D' (exec_item i d1) (exec_item i d2).

Lemma list_sound_gen (l : list item) : Forall item_sound l ->
  forall (D D' : list string), flow_list l D = Some D' ->
  forall d1 d2 : data, agree D d1 d2 -> related D' (exec_list l d1) (exec_list l d2).
Proof.
  induction 1 as [|x r Hx _ IH]; intros D D' F d1 d2 A; simpl in *.
  - inversion F; subst. exact A.
  - destruct (flow_item x D) as [D1|] eqn:E; [|discriminate].
    pose proof (Hx D D1 E d1 d2 A) as R1. unfold related in R1.
    destruct (exec_item x d1) as [r1|], (exec_item x d2) as [r2|]; try contradiction; [|exact I].
    eapply IH; eassumption.
Qed.

Lemma item_sound_all (i : item) : item_sound i.
Proof.
  induction i as [f a|l r| | |c a b IHa IHb] using item_ind2; intros D D' F d1 d2 A.
  - (* call *)
    cbn [Frames.flow_item] in F.
    destruct (lookup (call_key f a) table) as [fr|] eqn:El; [|discriminate].
    destruct (subset (f_reads fr) D) eqn:Es; [|discriminate]. inversion F; subst. clear F.
    cbn [Pipeline.exec_item related]. intros x Hx. apply in_app_or in Hx. destruct Hx as [Hx|Hx].
    + eapply Hreads; [exact El| |exact Hx]. eapply agree_mono; [|exact A]. apply subset_In. exact Es.
    + apply remove_all_In in Hx. destruct Hx as [HxD Hnm].
      destruct (in_dec string_dec x (f_must fr)) as [Hm|Hm].
      * eapply Hreads; [exact El| |exact Hm]. eapply agree_mono; [|exact A]. apply subset_In. exact Es.
      * rewrite (Hframe f a fr El d1 x), (Hframe f a fr El d2 x); [apply A; exact HxD| |];
          intro H; apply in_app_or in H; destruct H; contradiction.
  - (* assign *)
    cbn [Frames.flow_item] in F. destruct (field_of_assign l) as [[fld full]|] eqn:Ef; [|discriminate].
    cbn [Pipeline.exec_item related]. destruct full; inversion F; subst; clear F; intros x Hx.
    + destruct Hx as [<-|Hx]; [eapply Hassign_full; exact Ef|].
      destruct (string_dec x fld) as [->|Hn]; [eapply Hassign_full; exact Ef|].
      rewrite (Hassign_frame l r fld true Ef d1 x Hn), (Hassign_frame l r fld true Ef d2 x Hn). apply A. exact Hx.
    + apply remove_all_In in Hx. destruct Hx as [HxD Hn].
      assert (Hne : x <> fld) by (intro; subst; apply Hn; left; reflexivity).
      rewrite (Hassign_frame l r fld false Ef d1 x Hne), (Hassign_frame l r fld false Ef d2 x Hne). apply A. exact HxD.
  - (* err *) cbn [Pipeline.exec_item related]. exact I.
  - (* user *) cbn [Frames.flow_item] in F. discriminate.
  - (* if *)
    rewrite flow_if in F.
    destruct (cond_reads atom_reads c) as [rs|] eqn:Ec; [|discriminate].
    destruct (subset rs D) eqn:Es; [|discriminate].
    destruct (flow_list a D) as [Da|] eqn:Ea; [|discriminate].
    destruct (flow_list b D) as [Db|] eqn:Eb; [|discriminate]. inversion F; subst; clear F.
    rewrite !exec_if.
    assert (Hc : ceval c d1 = ceval c d2).
    { eapply ceval_agree; [exact Ec|]. eapply agree_mono; [|exact A]. apply subset_In. exact Es. }
    rewrite <- Hc. destruct (ceval c d1).
    + pose proof (list_sound_gen a IHa D Da Ea d1 d2 A) as R1. unfold related in *.
      destruct (exec_list a d1), (exec_list a d2); try contradiction; [|exact I].
      intros x Hx. apply inter_In in Hx. apply R1. tauto.
    + pose proof (list_sound_gen b IHb D Db Eb d1 d2 A) as R1. unfold related in *.
      destruct (exec_list b d1), (exec_list b d2); try contradiction; [|exact I].
      intros x Hx. apply inter_In in Hx. apply R1. tauto.
Qed.

Theorem flow_sound (l : list item) (D D' : list string) :
  flow_list l D = Some D' ->
  forall d1 d2 : data, agree D d1 d2 -> related D' (exec_list l d1) (exec_list l d2).
Proof. apply list_sound_gen. apply Forall_forall. intros i _. apply item_sound_all. Qed.
End Sound.
