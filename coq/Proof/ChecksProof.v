(* C30: proofs about Model/Checks.v.
   Part 1: isBad at PrimFloat, interpreted through Flocq (Prim2B / B2R) on top of the std-lib
           float specification (FloatAxioms).
   Part 2: the check functions (lists, any loop order).
   Part 3: the real-number bound for the scalar Euler update. *)
From Coq Require Import ZArith List Bool Reals Lra Lia Floats.
From Flocq Require Import Core.Raux IEEE754.BinarySingleNaN.
Require Flocq.Core.Defs Flocq.Core.Float_prop.
Require Flocq.IEEE754.PrimFloat.
From MJV Require Import Lib.Num Lib.NumR Model.Checks.
Import ListNotations.
Module FP := Flocq.IEEE754.PrimFloat.

(* real value of a binary64 (0 for NaN and infinities, as Flocq's B2R) *)
Definition FR (x : float) : R := B2R (FP.Prim2B x).
Definition MAXR : R := IZR mjMAXVAL_Z.

(* ---------------------------------------------------------------- part 1 *)
Lemma maxval_finite : is_finite (FP.Prim2B mjMAXVAL) = true.
Proof. unfold FP.Prim2B. rewrite is_finite_SF2B. vm_compute. reflexivity. Qed.

Lemma maxval_R : FR mjMAXVAL = MAXR.
Proof.
  unfold FR, FP.Prim2B. rewrite B2R_SF2B.
  replace (Prim2SF mjMAXVAL) with (S754_finite false 5242880000000000 (-19)) by (vm_compute; reflexivity).
  unfold SF2R, Defs.F2R, MAXR, mjMAXVAL_Z. simpl.
  change (Z.pow_pos 2 19) with 524288%Z.
  lra.
Qed.

Lemma inf_cmp : forall s, Bltb (FP.Prim2B mjMAXVAL) (B754_infinity s) = negb s /\
                          Bltb (B754_infinity s) (Bopp (FP.Prim2B mjMAXVAL)) = s.
Proof.
  intro s. rewrite <- FP.opp_equiv. unfold Bltb. rewrite !FP.B2SF_Prim2B.
  destruct s; split; vm_compute; reflexivity.
Qed.

Lemma isBad_spec : forall x : float,
  isBad x = true <->
  (PrimFloat.is_nan x = true \/ PrimFloat.is_infinity x = true \/ (FR x > MAXR)%R \/ (FR x < - MAXR)%R).
Proof.
  intro x. unfold isBad.
  rewrite FP.eqb_equiv, !FP.ltb_equiv, FP.opp_equiv, Beqb_refl, negb_involutive.
  rewrite FP.is_nan_equiv, FP.is_infinity_equiv.
  pose proof maxval_finite as HF. pose proof maxval_R as HR. unfold FR in *.
  set (M := FP.Prim2B mjMAXVAL) in *.
  pose proof inf_cmp as HI. fold M in HI.
  destruct (FP.Prim2B x) as [s|s| |s m e Hb] eqn:E.
  - (* zero *)
    rewrite !Bltb_correct by (try rewrite is_finite_Bopp; auto).
    rewrite B2R_Bopp, HR. simpl. unfold MAXR, mjMAXVAL_Z.
    rewrite !Rlt_bool_false by lra. simpl.
    split; [discriminate|]. intros [H|[H|[H|H]]]; try discriminate; lra.
  - (* infinity *)
    destruct (HI s) as [-> ->]. simpl. split; auto. intros _. destruct s; reflexivity.
  - (* nan *)
    simpl. split; auto.
  - (* finite *)
    rewrite !Bltb_correct by (try rewrite is_finite_Bopp; auto).
    rewrite B2R_Bopp, HR. simpl is_nan. simpl negb.
    set (r := B2R (B754_finite s m e Hb)).
    rewrite !orb_true_iff.
    split.
    + intros [[H|H]|H]; try discriminate.
      * right; right; left. revert H. case Rlt_bool_spec; intros; [lra|discriminate].
      * right; right; right. revert H. case Rlt_bool_spec; intros; [lra|discriminate].
    + intros [H|[H|[H|H]]]; try discriminate.
      * left; right. apply Rlt_bool_true; lra.
      * right. apply Rlt_bool_true; lra.
Qed.

Lemma isBad_special :
  isBad PrimFloat.nan = true /\ isBad PrimFloat.infinity = true /\ isBad PrimFloat.neg_infinity = true /\
  isBad mjMAXVAL = false /\ isBad (PrimFloat.opp mjMAXVAL) = false /\ isBad PrimFloat.zero = false /\
  isBad PrimFloat.neg_zero = false.
Proof. vm_compute. repeat split. Qed.

(* a value that passes the check is finite and bounded *)
Lemma notBad_bound : forall x, isBad x = false ->
  PrimFloat.is_finite x = true /\ (Rabs (FR x) <= MAXR)%R.
Proof.
  intros x H.
  assert (N : ~ (PrimFloat.is_nan x = true \/ PrimFloat.is_infinity x = true \/ (FR x > MAXR)%R \/ (FR x < - MAXR)%R)).
  { intro K. apply isBad_spec in K. congruence. }
  split.
  - unfold PrimFloat.is_finite.
    destruct (PrimFloat.is_nan x) eqn:A; [exfalso; apply N; auto|].
    destruct (PrimFloat.is_infinity x) eqn:B; [exfalso; apply N; auto|]. reflexivity.
  - apply Rabs_le. split.
    + destruct (Rle_dec (- MAXR) (FR x)); auto. exfalso; apply N. right; right; right. lra.
    + destruct (Rle_dec (FR x) MAXR); auto. exfalso; apply N. right; right; left. lra.
Qed.

(* ---------------------------------------------------------------- part 2 *)
Section CheckProofs.
Context {S : Type}.

(* i is the index of the first bad value in the visiting order es *)
Inductive FirstBad : list (Z * float) -> Z -> Prop :=
| FB_here : forall i x r, isBad x = true -> FirstBad ((i, x) :: r) i
| FB_later : forall j x r i, isBad x = false -> FirstBad r i -> FirstBad ((j, x) :: r) i.

Lemma first_bad_none : forall es, first_bad es = None <-> Forall (fun e => isBad (snd e) = false) es.
Proof.
  induction es as [|[i x] r IH]; simpl.
  - split; auto.
  - destruct (isBad x) eqn:E.
    + split; [discriminate|]. intro H. inversion H; subst. simpl in *. congruence.
    + rewrite IH. split; intro H; [constructor; auto|inversion H; auto].
Qed.

Lemma first_bad_some : forall es i, first_bad es = Some i <-> FirstBad es i.
Proof.
  induction es as [|[j x] r IH]; simpl; intro i.
  - split; [discriminate|inversion 1].
  - destruct (isBad x) eqn:E.
    + split.
      * intro H; inversion H; subst. constructor; auto.
      * intro H; inversion H; subst; auto. congruence.
    + rewrite IH. split.
      * intro H. constructor; auto.
      * intro H; inversion H; subst; auto. congruence.
Qed.

(* FirstBad in terms of positions: es = pre ++ (i,x) :: post, nothing bad in pre, x bad *)
Lemma FirstBad_split : forall es i, FirstBad es i <->
  exists pre x post, es = pre ++ (i, x) :: post /\ isBad x = true /\ Forall (fun e => isBad (snd e) = false) pre.
Proof.
  intros es i. split.
  - induction 1.
    + exists [], x, r. auto.
    + destruct IHFirstBad as (pre & y & post & -> & Hy & Hp).
      exists ((j, x) :: pre), y, post. repeat split; auto.
  - intros (pre & x & post & -> & Hx & Hp). induction pre as [|[j y] p IH]; simpl.
    + constructor; auto.
    + inversion Hp; subst. constructor; auto.
Qed.

Lemma exists_bad_first : forall es, Exists (fun e => isBad (snd e) = true) es -> exists i, first_bad es = Some i.
Proof.
  intros es H. destruct (first_bad es) eqn:E; eauto.
  apply first_bad_none in E. rewrite Forall_forall in E. apply Exists_exists in H.
  destruct H as (e & He & Hb). rewrite (E e He) in Hb. discriminate.
Qed.

Lemma enum_from_nth : forall (v : list float) (b : Z) pre i x post,
  enum_from b v = pre ++ (i, x) :: post ->
  i = (b + Z.of_nat (length pre))%Z /\ nth (length pre) v PrimFloat.zero = x /\
  map snd pre = firstn (length pre) v.
Proof.
  induction v as [|y v IH]; intros b pre i x post H; simpl in H.
  - destruct pre; discriminate.
  - destruct pre as [|p pre]; simpl in *.
    + inversion H; subst. repeat split; auto. lia.
    + inversion H; subst. destruct (IH _ _ _ _ _ H2) as (A & B & C).
      repeat split; auto; [lia|]. simpl. f_equal. auto.
Qed.

Definition wget (d : Data S) (k : nat) : WarnStat := nth k (warn d) {| lastinfo := 0; number := 0 |}.

Lemma upd_nth_same : forall (l : list WarnStat) k f dflt, (k < length l)%nat -> nth k (upd l k f) dflt = f (nth k l dflt).
Proof. induction l; intros [|k] f dflt H; simpl in *; try lia; auto. apply IHl; lia. Qed.
Lemma upd_nth_other : forall (l : list WarnStat) k j f dflt, j <> k -> nth j (upd l k f) dflt = nth j l dflt.
Proof. induction l; intros [|k] [|j] f dflt H; simpl in *; auto; try congruence. Qed.
Lemma upd_length : forall (l : list WarnStat) k f, length (upd l k f) = length l.
Proof. induction l; intros [|k] f; simpl; auto. Qed.
Lemma upd_upd : forall (l : list WarnStat) k f g, upd (upd l k f) k g = upd l k (fun w => g (f w)).
Proof. induction l; intros [|k] f g; simpl; auto. f_equal; auto. Qed.

(* the state after a detected bad value, autoreset on: reset data with this warning = (1, i) *)
Definition reset_with (s0 : S) (k : nat) (i : Z) : Data S :=
  {| core := s0; warn := upd (repeat {| lastinfo := 0; number := 0 |} NWARNING) k (fun _ => {| lastinfo := i; number := 1 |}) |}.
(* autoreset off: same data, this warning = (old number + 2, i) *)
Definition warned_twice (d : Data S) (k : nat) (i : Z) : Data S :=
  {| core := core d; warn := upd (warn d) k (fun w => {| lastinfo := i; number := number w + 2 |}) |}.

Lemma upd_ext : forall (l : list WarnStat) k f g, (forall w, f w = g w) -> upd l k f = upd l k g.
Proof. induction l; intros [|k] f g H; simpl; auto; f_equal; auto. Qed.

Lemma check_spec : forall k autoreset (s0 : S) es d,
  (first_bad es = None -> check k autoreset s0 es d = d) /\
  (forall i, first_bad es = Some i ->
     check k autoreset s0 es d = if autoreset then reset_with s0 k i else warned_twice d k i).
Proof.
  intros. unfold check. split.
  - intros ->. reflexivity.
  - intros i ->. destruct autoreset.
    + unfold bump, resetData, reset_with. simpl. reflexivity.
    + unfold bump, mj_warning, warned_twice. simpl. f_equal. rewrite upd_upd. apply upd_ext.
      intros w. simpl. f_equal. lia.
Qed.

Lemma checkAcc_spec : forall autoreset (s0 : S) fwd es d,
  (first_bad es = None -> checkAcc autoreset s0 fwd es d = d) /\
  (forall i, first_bad es = Some i ->
     checkAcc autoreset s0 fwd es d =
       if autoreset then fwd (reset_with s0 WARN_BADQACC i) else warned_twice d WARN_BADQACC i).
Proof.
  intros. unfold checkAcc. split.
  - intros ->. reflexivity.
  - intros i ->. destruct autoreset.
    + reflexivity.
    + unfold bump, mj_warning, warned_twice. simpl. f_equal. rewrite upd_upd. apply upd_ext.
      intros w. simpl. f_equal. lia.
Qed.

(* readable consequences on the warning array *)
Lemma reset_with_get : forall s0 k i, (k < NWARNING)%nat ->
  wget (reset_with s0 k i) k = {| lastinfo := i; number := 1 |} /\
  (forall j, j <> k -> wget (reset_with s0 k i) j = {| lastinfo := 0; number := 0 |}) /\
  core (reset_with s0 k i) = s0.
Proof.
  intros. unfold wget.
  change (warn (reset_with s0 k i)) with
    (upd (repeat {| lastinfo := 0; number := 0 |} NWARNING) k (fun _ => {| lastinfo := i; number := 1 |})).
  repeat split.
  - rewrite upd_nth_same by (rewrite repeat_length; auto). reflexivity.
  - intros j Hj. rewrite upd_nth_other; auto.
    destruct (Nat.lt_ge_cases j NWARNING).
    + apply nth_repeat.
    + apply nth_overflow. rewrite repeat_length. auto.
Qed.

Lemma warned_twice_get : forall d k i, (k < length (warn d))%nat ->
  wget (warned_twice d k i) k = {| lastinfo := i; number := number (wget d k) + 2 |} /\
  (forall j, j <> k -> wget (warned_twice d k i) j = wget d j) /\
  core (warned_twice d k i) = core d.
Proof.
  intros. unfold wget.
  change (warn (warned_twice d k i)) with (upd (warn d) k (fun w => {| lastinfo := i; number := number w + 2 |})).
  repeat split.
  - rewrite upd_nth_same; auto.
  - intros j Hj. rewrite upd_nth_other; auto.
Qed.

End CheckProofs.

(* the checks as called by mj_step without the sleep filter: the index reported is the position of the
   first bad entry of the vector *)
Lemma firstn_nth_notbad : forall (v : list float) (pre : list (Z * float)),
  map snd pre = firstn (length pre) v -> Forall (fun e => isBad (snd e) = false) pre ->
  forall j, (j < length pre)%nat -> isBad (nth j v PrimFloat.zero) = false.
Proof.
  induction v as [|y v IH]; intros pre Hm Hf j Hj.
  - destruct pre; simpl in *; [lia|discriminate].
  - destruct pre as [|p pre]; simpl in *; [lia|].
    inversion Hm; subst. inversion Hf; subst. destruct j; simpl; auto. apply (IH pre); auto. lia.
Qed.

Lemma entries_all_first : forall (v : list float),
  Exists (fun x => isBad x = true) v ->
  exists i : nat, first_bad (entries_all v) = Some (Z.of_nat i) /\ (i < length v)%nat /\
    isBad (nth i v PrimFloat.zero) = true /\ forall j, (j < i)%nat -> isBad (nth j v PrimFloat.zero) = false.
Proof.
  intros v Hex.
  assert (Hex' : Exists (fun e : Z * float => isBad (snd e) = true) (entries_all v)).
  { unfold entries_all. generalize 0%Z. induction Hex; intro b; simpl.
    - apply Exists_cons_hd. simpl. auto.
    - apply Exists_cons_tl. apply IHHex. }
  destruct (exists_bad_first _ Hex') as [i Hi].
  pose proof Hi as Hi2. apply first_bad_some in Hi2. apply FirstBad_split in Hi2.
  destruct Hi2 as (pre & x & post & E & Hx & Hp).
  destruct (enum_from_nth _ _ _ _ _ _ E) as (A & B & C).
  exists (length pre). rewrite Hi. repeat split.
  - f_equal. lia.
  - assert (L : length (entries_all v) = length v).
    { clear. unfold entries_all. generalize 0%Z. induction v; intro b; simpl; auto. }
    rewrite <- L, E, app_length. simpl. lia.
  - rewrite B. auto.
  - intros j Hj. eapply firstn_nth_notbad; eauto.
Qed.

Lemma entries_all_none : forall (v : list float),
  Forall (fun x => isBad x = false) v -> first_bad (entries_all v) = None.
Proof.
  intros v H. apply first_bad_none. unfold entries_all. generalize 0%Z.
  induction H; intro b; simpl; constructor; auto.
Qed.

Section CheckMain.
Context {S : Type}.
Lemma check_main : forall (k : nat) (autoreset : bool) (s0 : S) (es : list (Z * float)) (d : Data S),
  (Forall (fun e => isBad (snd e) = false) es -> check k autoreset s0 es d = d) /\
  (Exists (fun e => isBad (snd e) = true) es ->
     exists i, FirstBad es i /\
       check k autoreset s0 es d = if autoreset then reset_with s0 k i else warned_twice d k i).
Proof.
  intros. split.
  - intro H. apply check_spec. apply first_bad_none. auto.
  - intro H. destruct (exists_bad_first _ H) as [i Hi]. exists i. split.
    + apply first_bad_some. auto.
    + apply check_spec. auto.
Qed.

Lemma checkAcc_main : forall (autoreset : bool) (s0 : S) fwd (es : list (Z * float)) (d : Data S),
  (Forall (fun e => isBad (snd e) = false) es -> checkAcc autoreset s0 fwd es d = d) /\
  (Exists (fun e => isBad (snd e) = true) es ->
     exists i, FirstBad es i /\
       checkAcc autoreset s0 fwd es d =
         if autoreset then fwd (reset_with s0 WARN_BADQACC i) else warned_twice d WARN_BADQACC i).
Proof.
  intros. split.
  - intro H. apply checkAcc_spec. apply first_bad_none. auto.
  - intro H. destruct (exists_bad_first _ H) as [i Hi]. exists i. split.
    + apply first_bad_some. auto.
    + apply checkAcc_spec. auto.
Qed.

Lemma checkPosVel_main : forall (autoreset : bool) (s0 : S) (get : S -> list float) (d : Data S),
  let v := get (core d) in
  (Forall (fun x => isBad x = false) v ->
     checkPos autoreset s0 get d = d /\ checkVel autoreset s0 get d = d) /\
  (Exists (fun x => isBad x = true) v ->
     exists i : nat, (i < length v)%nat /\ isBad (nth i v PrimFloat.zero) = true /\
       (forall j, (j < i)%nat -> isBad (nth j v PrimFloat.zero) = false) /\
       checkPos autoreset s0 get d =
         (if autoreset then reset_with s0 WARN_BADQPOS (Z.of_nat i) else warned_twice d WARN_BADQPOS (Z.of_nat i)) /\
       checkVel autoreset s0 get d =
         (if autoreset then reset_with s0 WARN_BADQVEL (Z.of_nat i) else warned_twice d WARN_BADQVEL (Z.of_nat i))).
Proof.
  intros. split.
  - intro H. unfold checkPos, checkVel. fold v. split; apply check_spec; apply entries_all_none; auto.
  - intro H. destruct (entries_all_first v H) as (i & Hi & Hl & Hb & Hpre).
    exists i. unfold checkPos, checkVel. fold v. repeat split; auto; apply check_spec; auto.
Qed.

Lemma counters_main : forall (s0 : S) (d : Data S) (k : nat) (i : Z),
  (k < NWARNING)%nat -> (k < length (warn d))%nat ->
  (wget (reset_with s0 k i) k = {| lastinfo := i; number := 1 |} /\
   (forall j, j <> k -> wget (reset_with s0 k i) j = {| lastinfo := 0; number := 0 |}) /\
   core (reset_with s0 k i) = s0) /\
  (wget (warned_twice d k i) k = {| lastinfo := i; number := number (wget d k) + 2 |} /\
   (forall j, j <> k -> wget (warned_twice d k i) j = wget d j) /\
   core (warned_twice d k i) = core d).
Proof. intros. split; [apply reset_with_get|apply warned_twice_get]; auto. Qed.
End CheckMain.

Section CtrlMain.
Context {S : Type}.
Lemma check_ctrl_main : forall (ctrl : list float) (d : Data S),
  (Forall (fun x => isBad x = false) ctrl -> check_ctrl ctrl d = (ctrl, d)) /\
  (Exists (fun x => isBad x = true) ctrl ->
     exists i : nat, (i < length ctrl)%nat /\ isBad (nth i ctrl PrimFloat.zero) = true /\
       (forall j, (j < i)%nat -> isBad (nth j ctrl PrimFloat.zero) = false) /\
       check_ctrl ctrl d = (repeat PrimFloat.zero (length ctrl), mj_warning d WARN_BADCTRL (Z.of_nat i))).
Proof.
  intros. unfold check_ctrl. split.
  - intro H. rewrite (entries_all_none _ H). reflexivity.
  - intro H. destruct (entries_all_first ctrl H) as (i & Hi & Hl & Hb & Hpre).
    exists i. rewrite Hi. repeat split; auto.
Qed.

Lemma warning_get : forall (d : Data S) (k : nat) (i : Z), (k < length (warn d))%nat ->
  wget (mj_warning d k i) k = {| lastinfo := i; number := number (wget d k) + 1 |} /\
  (forall j, j <> k -> wget (mj_warning d k i) j = wget d j) /\ core (mj_warning d k i) = core d.
Proof.
  intros. unfold wget.
  change (warn (mj_warning d k i)) with (upd (warn d) k (fun w => {| lastinfo := i; number := number w + 1 |})).
  repeat split.
  - rewrite upd_nth_same; auto.
  - intros j Hj. rewrite upd_nth_other; auto.
Qed.
End CtrlMain.

(* ---------------------------------------------------------------- part 3 *)
Open Scope R_scope.
Lemma euler1_bound : forall h q v a : R,
  Rabs q <= MAXR -> Rabs v <= MAXR -> Rabs a <= MAXR -> Rabs h <= 1 ->
  let '(q', v') := euler1 h q v a in
  Rabs v' <= 2 * MAXR /\ Rabs q' <= 3 * MAXR /\ 3 * MAXR < IZR (2 ^ 1023).
Proof.
  intros h q v a Hq Hv Ha Hh. unfold euler1. num_R.
  assert (M0 : 0 <= MAXR) by (unfold MAXR, mjMAXVAL_Z; lra).
  assert (Hha : Rabs (h * a) <= MAXR).
  { rewrite Rabs_mult. replace MAXR with (1 * MAXR) by ring.
    apply Rmult_le_compat; auto using Rabs_pos. }
  assert (Hv' : Rabs (v + h * a) <= 2 * MAXR).
  { eapply Rle_trans; [apply Rabs_triang|]. lra. }
  assert (Hhv : Rabs (h * (v + h * a)) <= 2 * MAXR).
  { rewrite Rabs_mult. replace (2 * MAXR) with (1 * (2 * MAXR)) by ring.
    apply Rmult_le_compat; auto using Rabs_pos. }
  repeat split; auto.
  - eapply Rle_trans; [apply Rabs_triang|]. lra.
  - unfold MAXR, mjMAXVAL_Z.
    replace (3 * 10000000000) with (IZR 30000000000) by (rewrite <- mult_IZR; reflexivity).
    apply IZR_lt. reflexivity.
Qed.

Lemma finite_after_euler : forall (q v a : float) (h : R),
  isBad q = false -> isBad v = false -> isBad a = false -> Rabs h <= 1 ->
  PrimFloat.is_finite q = true /\ PrimFloat.is_finite v = true /\ PrimFloat.is_finite a = true /\
  let '(q', v') := euler1 h (FR q) (FR v) (FR a) in
  Rabs v' <= 2 * MAXR /\ Rabs q' <= 3 * MAXR /\ 3 * MAXR < IZR (2 ^ 1023).
Proof.
  intros q v a h Hq Hv Ha Hh.
  destruct (notBad_bound _ Hq) as [Fq Bq]. destruct (notBad_bound _ Hv) as [Fv Bv].
  destruct (notBad_bound _ Ha) as [Fa Ba].
  split; [auto|split; [auto|split; [auto|]]]. apply euler1_bound; auto.
Qed.
